(* AlgoState.v — what the StateModel setters do to the entry table and the change set, in the form the
   algorithm-layer proofs use: the new entry table is the old one with ONE entry replaced by an explicit value
   (priorities of other entries aside), the change set changes at that entry only, the index invariant IdxJ
   of StateProofs is kept.  Non-legacy environment, id-style providers. *)
From Coq Require Import NArith List Bool Arith Lia.
From CS Require Import Sx Str PathModel StateModel StateProofs StatePathProofs.
Import ListNotations.

(* ------------------------------------------------------------------ lists *)
Lemma nth_list_upd_eq {T} (l : list T) n x y : nth_error l n = Some y -> nth_error (list_upd l n x) n = Some x.
Proof. revert n; induction l as [|a l IH]; intros [|n] H; simpl in *; try discriminate; auto. Qed.
Lemma nth_list_upd_neq {T} (l : list T) n m x : n <> m -> nth_error (list_upd l n x) m = nth_error l m.
Proof. revert n m; induction l as [|a l IH]; intros [|n] [|m] H; simpl; auto; try congruence. Qed.
Lemma length_list_upd {T} (l : list T) n x : length (list_upd l n x) = length l.
Proof. revert n; induction l as [|a l IH]; intros [|n]; simpl; auto. Qed.
Lemma list_upd_twice {T} (l : list T) n x y : list_upd (list_upd l n x) n y = list_upd l n y.
Proof. revert n; induction l as [|a l IH]; intros [|n]; simpl; auto. f_equal. apply IH. Qed.
Lemma list_upd_same {T} (l : list T) n x : nth_error l n = Some x -> list_upd l n x = l.
Proof. revert n; induction l as [|a l IH]; intros [|n] H; simpl in *; try discriminate; auto.
  - injection H as ->. reflexivity.
  - f_equal. auto. Qed.

Lemma set_mem_add x e l : set_mem x (set_add e l) = Nat.eqb x e || set_mem x l.
Proof.
  induction l as [|a l IH]; simpl.
  - rewrite orb_false_r. reflexivity.
  - destruct (Nat.eqb_spec e a) as [->|Hne].
    + simpl. destruct (Nat.eqb x a); reflexivity.
    + destruct (Nat.ltb e a); simpl.
      * reflexivity.
      * rewrite IH. destruct (Nat.eqb x a), (Nat.eqb x e); reflexivity.
Qed.
Lemma set_mem_del x e l : set_mem x (set_del e l) = negb (Nat.eqb x e) && set_mem x l.
Proof.
  unfold set_del. induction l as [|a l IH]; simpl.
  - rewrite andb_false_r. reflexivity.
  - destruct (Nat.eqb_spec e a) as [Heq|Hne]; simpl.
    + subst a. rewrite IH. destruct (Nat.eqb_spec x e); reflexivity.
    + rewrite IH. destruct (Nat.eqb_spec x a) as [Hxa|]; simpl; [|reflexivity].
      subst a. destruct (Nat.eqb_spec x e); [congruence|reflexivity].
Qed.

(* ------------------------------------------------------------------ plain projections *)
Lemma ents_raw_side s e sd f en : nth_error (ents s) e = Some en ->
  ents (raw_side s e sd f) = list_upd (ents s) e (ss en sd (f (gs en sd))).
Proof. intros H. unfold raw_side. rewrite H. reflexivity. Qed.
Lemma cset_raw_side s e sd f : cset (raw_side s e sd f) = cset s.
Proof. unfold raw_side. destruct (nth_error (ents s) e); reflexivity. Qed.
Lemma now_raw_side s e sd f : now (raw_side s e sd f) = now s.
Proof. unfold raw_side. destruct (nth_error (ents s) e); reflexivity. Qed.
Lemma lastch_raw_side s e sd f : lastch (raw_side s e sd f) = lastch s.
Proof. unfold raw_side. destruct (nth_error (ents s) e); reflexivity. Qed.
Lemma tape_raw_side s e sd f : tape (raw_side s e sd f) = tape s.
Proof. unfold raw_side. destruct (nth_error (ents s) e); reflexivity. Qed.

Lemma gs_ss_same en sd x : gs (ss en sd x) sd = x.
Proof. destruct sd; reflexivity. Qed.
Lemma gs_ss_other en sd x : gs (ss en sd x) (negb sd) = gs en (negb sd).
Proof. destruct sd; reflexivity. Qed.
Lemma ign_ss en sd x : e_ign (ss en sd x) = e_ign en.
Proof. destruct sd; reflexivity. Qed.
Lemma prio_ss en sd x : e_prio (ss en sd x) = e_prio en.
Proof. destruct sd; reflexivity. Qed.
Lemma ss_ss en sd x y : ss (ss en sd x) sd y = ss en sd y.
Proof. destruct sd; reflexivity. Qed.
Lemma ss_gs en sd : ss en sd (gs en sd) = en.
Proof. destruct en, sd; reflexivity. Qed.

(* ------------------------------------------------------------------ the effect record *)
(* s' is s with entry e replaced by en'; [m] says whether e is in the change set afterwards (None = as before);
   entries other than e keep everything; clock and last stamp are untouched *)
Definition eff (s s' : state) (e : eid) (en' : entry) (m : option bool) : Prop :=
  ents s' = list_upd (ents s) e en' /\
  (forall x, set_mem x (cset s') = match m with
                                   | Some b => if Nat.eqb x e then b else set_mem x (cset s)
                                   | None => set_mem x (cset s)
                                   end) /\
  now s' = now s /\ lastch s' = lastch s /\
  (IdxJ s -> IdxJ s').

Ltac eff_split := split; [|split; [|split; [|split]]].

Lemma eff_nth s s' e en' m en : eff s s' e en' m -> nth_error (ents s) e = Some en -> nth_error (ents s') e = Some en'.
Proof. intros [H _] Hn. rewrite H. eapply nth_list_upd_eq; eauto. Qed.
Lemma eff_other s s' e en' m x : eff s s' e en' m -> x <> e -> nth_error (ents s') x = nth_error (ents s) x.
Proof. intros [H _] Hn. rewrite H. apply nth_list_upd_neq. congruence. Qed.
Lemma eff_length s s' e en' m : eff s s' e en' m -> length (ents s') = length (ents s).
Proof. intros [H _]. rewrite H. apply length_list_upd. Qed.

Definition mcomp (m1 m2 : option bool) : option bool := match m2 with Some b => Some b | None => m1 end.
Lemma eff_trans s s1 s2 e en1 en2 m1 m2 :
  eff s s1 e en1 m1 -> eff s1 s2 e en2 m2 -> eff s s2 e en2 (mcomp m1 m2).
Proof.
  intros (A1 & B1 & C1 & D1 & J1) (A2 & B2 & C2 & D2 & J2). eff_split.
  - rewrite A2, A1. apply list_upd_twice.
  - intros x. rewrite B2. destruct m2 as [b|]; simpl.
    + destruct (Nat.eqb x e) eqn:Ex; [reflexivity|]. rewrite B1. destruct m1; [rewrite Ex|]; reflexivity.
    + apply B1.
  - congruence.
  - congruence.
  - auto.
Qed.
Lemma eff_refl s e en : nth_error (ents s) e = Some en -> eff s s e en None.
Proof.
  intros H. eff_split.
  - symmetry. apply list_upd_same. exact H.
  - intros x. reflexivity.
  - reflexivity.
  - reflexivity.
  - auto.
Qed.

(* ------------------------------------------------------------------ set_plain *)
Lemma set_plain_eff s e sd f en :
  nth_error (ents s) e = Some en ->
  (forall x, s_oid (f x) = s_oid x /\ s_path (f x) = s_path x) ->
  exists s', set_plain s e sd f = Ok s' /\ eff s s' e (ss en sd (f (gs en sd))) None /\ tape s' = tape s.
Proof.
  intros Hn Hf. unfold set_plain, get_ent. rewrite Hn. simpl. eexists. split; [reflexivity|].
  assert (Hn': nth_error (ents (dirty_add s e)) e = Some en) by exact Hn.
  split; [|rewrite tape_raw_side; reflexivity].
  eff_split.
  - rewrite (ents_raw_side _ _ _ _ en Hn'). reflexivity.
  - intros x. rewrite cset_raw_side. reflexivity.
  - rewrite now_raw_side. reflexivity.
  - rewrite lastch_raw_side. reflexivity.
  - intros HJ. eapply (set_plain_pres s e sd f); [exact Hf|exact HJ|]. unfold set_plain, get_ent. rewrite Hn. reflexivity.
Qed.

(* ------------------------------------------------------------------ set_changed (ccb41ee code) *)
Section NonLegacy.
Variable E : env.
Hypothesis Hleg : legacy E = false.

(* the entry after `ent[sd].changed = v` and whether it is pending *)
Definition chg_pending (en : entry) (sd : bool) (v : chg) : bool :=
  (tchg v && tstr (s_oid (gs en sd))) || (tchg (s_chg (gs en (negb sd))) && tstr (s_oid (gs en (negb sd)))).
Definition chg_entry (en : entry) (sd : bool) (v : chg) : entry :=
  let en1 := if negb (chg_pending en sd v) && tchg (s_chg (gs en (negb sd))) && negb (tstr (s_oid (gs en (negb sd))))
             then ss en (negb sd) (w_chg (gs en (negb sd)) (CNum 0)) else en in
  ss en1 sd (w_chg (gs en1 sd) v).

Lemma negb_negb_neq sd : negb sd <> sd. Proof. destruct sd; discriminate. Qed.

Lemma exec_chg_eff f s e sd v en :
  nth_error (ents s) e = Some en ->
  exists s', exec E (S f) (CChg true e sd v) s = Ok s' /\ eff s s' e (chg_entry en sd v) (Some (chg_pending en sd v)) /\ tape s' = tape s.
Proof.
  intros Hn.
  cbn [exec]. unfold get_ent. rewrite Hn. cbn [bind]. rewrite Hleg.
  unfold chg_entry, chg_pending.
  set (x := gs en sd). set (y := gs en (negb sd)).
  destruct ((tchg v && tstr (s_oid x)) || (tchg (s_chg y) && tstr (s_oid y)))%bool eqn:Ec; cbn [bind negb andb].
  - eexists. split; [reflexivity|].
    assert (Hn': nth_error (ents (dirty_add (cs_add s e) e)) e = Some en) by exact Hn.
    split; [|rewrite tape_raw_side; reflexivity].
    eff_split.
    + rewrite (ents_raw_side _ _ _ _ en Hn'). reflexivity.
    + intros z. rewrite cset_raw_side. simpl. rewrite set_mem_add. destruct (Nat.eqb z e); reflexivity.
    + rewrite now_raw_side. reflexivity.
    + rewrite lastch_raw_side. reflexivity.
    + intros HJ. apply (IdxJ_view s); [|exact HJ]. rewrite iview_raw_side; [reflexivity|]. intros; split; reflexivity.
  - destruct (tchg (s_chg y) && negb (tstr (s_oid y)))%bool eqn:Ey; cbn [bind].
    + eexists. split; [reflexivity|].
      assert (Hn1: nth_error (ents (cs_del s e)) e = Some en) by exact Hn.
      pose proof (ents_raw_side (cs_del s e) e (negb sd) (fun z => w_chg z (CNum 0%N)) en Hn1) as H1.
      set (s1 := raw_side (cs_del s e) e (negb sd) (fun z => w_chg z (CNum 0%N))) in *.
      assert (Hn2: nth_error (ents (dirty_add s1 e)) e = Some (ss en (negb sd) (w_chg y (CNum 0%N)))).
      { change (ents (dirty_add s1 e)) with (ents s1). rewrite H1. eapply nth_list_upd_eq; eauto. }
      split; [|rewrite tape_raw_side; change (tape (dirty_add s1 e)) with (tape s1); unfold s1; rewrite tape_raw_side; reflexivity].
      eff_split.
      * rewrite (ents_raw_side _ _ _ _ _ Hn2). change (ents (dirty_add s1 e)) with (ents s1). rewrite H1, list_upd_twice. reflexivity.
      * intros z. rewrite cset_raw_side. change (cset (dirty_add s1 e)) with (cset s1). unfold s1. rewrite cset_raw_side. simpl.
        rewrite set_mem_del. destruct (Nat.eqb z e); reflexivity.
      * rewrite now_raw_side. change (now (dirty_add s1 e)) with (now s1). unfold s1. rewrite now_raw_side. reflexivity.
      * rewrite lastch_raw_side. change (lastch (dirty_add s1 e)) with (lastch s1). unfold s1. rewrite lastch_raw_side. reflexivity.
      * intros HJ. apply (IdxJ_view s); [|exact HJ]. rewrite iview_raw_side; [|intros; split; reflexivity].
        change (iview (dirty_add s1 e)) with (iview s1). unfold s1. rewrite iview_raw_side; [reflexivity|intros; split; reflexivity].
    + eexists. split; [reflexivity|].
      assert (Hn': nth_error (ents (dirty_add (cs_del s e) e)) e = Some en) by exact Hn.
      split; [|rewrite tape_raw_side; reflexivity].
      eff_split.
      * rewrite (ents_raw_side _ _ _ _ en Hn'). reflexivity.
      * intros z. rewrite cset_raw_side. simpl. rewrite set_mem_del. destruct (Nat.eqb z e); reflexivity.
      * rewrite now_raw_side. reflexivity.
      * rewrite lastch_raw_side. reflexivity.
      * intros HJ. apply (IdxJ_view s); [|exact HJ]. rewrite iview_raw_side; [reflexivity|]. intros; split; reflexivity.
Qed.


Lemma set_changed_eff s e sd v en :
  nth_error (ents s) e = Some en ->
  exists s', set_changed E s e sd v = Ok s' /\ eff s s' e (chg_entry en sd v) (Some (chg_pending en sd v)) /\ tape s' = tape s.
Proof.
  intros Hn. unfold set_changed, run_cmd, fuel_of.
  replace (2 * length (ents s) + 8) with (S (2 * length (ents s) + 7)) by lia.
  apply exec_chg_eff. exact Hn.
Qed.

(* ------------------------------------------------------------------ set_priority *)
Definition shift_side (en : entry) (sd : bool) : entry * option bool :=
  if tchg (s_chg (gs en sd))
  then let v := chg_add (s_chg (gs en sd)) (punt E sd) in (chg_entry en sd v, Some (chg_pending en sd v))
  else (en, None).
Definition prio_entry (en : entry) (v : N) : entry :=
  if N.eqb (e_prio en) v then en else
  let en2 := if N.ltb (e_prio en) v && N.ltb 0 v then fst (shift_side (fst (shift_side en false)) true) else en in
  mkEnt (e_l en2) (e_r en2) (e_ign en2) v.
Definition prio_member (en : entry) (v : N) : option bool :=
  if N.eqb (e_prio en) v then None else
  if N.ltb (e_prio en) v && N.ltb 0 v
  then mcomp (snd (shift_side en false)) (snd (shift_side (fst (shift_side en false)) true))
  else None.

Lemma exec_prio_eq n e v s :
  exec E (S n) (CPrio e v) s =
  (en <- get_ent s e ;;
   if N.eqb (e_prio en) v then Ok s else
   s1 <- (if N.ltb (e_prio en) v && N.ltb 0 v then
            sa <- (if tchg (s_chg (e_l en)) then exec E n (CChg true e false (chg_add (s_chg (e_l en)) (punt E false))) s
                   else Ok s) ;;
            en' <- get_ent sa e ;;
            if tchg (s_chg (e_r en')) then exec E n (CChg true e true (chg_add (s_chg (e_r en')) (punt E true))) sa
            else Ok sa
          else Ok s) ;;
   let s2 := dirty_add s1 e in
   match nth_error (ents s2) e with
   | Some en2 => Ok (put_ent s2 e (mkEnt (e_l en2) (e_r en2) (e_ign en2) v))
   | None => Err EBad
   end).
Proof. reflexivity. Qed.

Lemma shift_side_true en sd : tchg (s_chg (gs en sd)) = true ->
  shift_side en sd = (chg_entry en sd (chg_add (s_chg (gs en sd)) (punt E sd)),
                      Some (chg_pending en sd (chg_add (s_chg (gs en sd)) (punt E sd)))).
Proof. intros H. unfold shift_side. rewrite H. reflexivity. Qed.
Lemma shift_side_false en sd : tchg (s_chg (gs en sd)) = false -> shift_side en sd = (en, None).
Proof. intros H. unfold shift_side. rewrite H. reflexivity. Qed.

Lemma prio_finish s0 s1 e en0 en1 m v :
  nth_error (ents s0) e = Some en0 -> eff s0 s1 e en1 m ->
  exists s', match nth_error (ents (dirty_add s1 e)) e with
             | Some en2 => Ok (put_ent (dirty_add s1 e) e (mkEnt (e_l en2) (e_r en2) (e_ign en2) v))
             | None => Err EBad
             end = Ok s' /\ eff s0 s' e (mkEnt (e_l en1) (e_r en1) (e_ign en1) v) m /\ tape s' = tape s1.
Proof.
  intros Hn F. pose proof (eff_nth _ _ _ _ _ _ F Hn) as Hn1.
  change (ents (dirty_add s1 e)) with (ents s1). rewrite Hn1. eexists. split; [reflexivity|]. split; [|reflexivity].
  destruct F as (A & B & C & D & J). eff_split.
  - unfold put_ent. simpl. rewrite A, list_upd_twice. reflexivity.
  - intros x. apply B.
  - exact C.
  - exact D.
  - intros HI. apply (IdxJ_view s1); [|apply J; exact HI]. unfold put_ent. symmetry.
    transitivity (iview (dirty_add s1 e)); [|reflexivity].
    apply (iview_put_ent _ _ en1); [exact Hn1|reflexivity].
Qed.

Lemma exec_prio_eff f s e v en :
  nth_error (ents s) e = Some en ->
  exists s', exec E (S (S f)) (CPrio e v) s = Ok s' /\ eff s s' e (prio_entry en v) (prio_member en v) /\ tape s' = tape s.
Proof.
  intros Hn. rewrite exec_prio_eq. unfold get_ent. rewrite Hn. cbn [bind]. unfold prio_entry, prio_member.
  destruct (N.eqb (e_prio en) v) eqn:Ep.
  - exists s. split; [reflexivity|]. split; [apply eff_refl; exact Hn|reflexivity].
  - destruct (N.ltb (e_prio en) v && N.ltb 0 v)%bool eqn:Es.
    + (* shifting *)
      change (e_l en) with (gs en false).
      destruct (tchg (s_chg (gs en false))) eqn:El.
      * rewrite (shift_side_true _ _ El). cbn [fst snd].
        destruct (exec_chg_eff f s e false (chg_add (s_chg (gs en false)) (punt E false)) en Hn) as (sa & Ha & Fa & Ta).
        rewrite Ha. cbn [bind].
        pose proof (eff_nth _ _ _ _ _ _ Fa Hn) as Hna. rewrite Hna. cbn [bind].
        set (en1 := chg_entry en false (chg_add (s_chg (gs en false)) (punt E false))) in *.
        change (e_r en1) with (gs en1 true).
        destruct (tchg (s_chg (gs en1 true))) eqn:Er.
        -- rewrite (shift_side_true _ _ Er). cbn [fst snd].
           destruct (exec_chg_eff f sa e true (chg_add (s_chg (gs en1 true)) (punt E true)) en1 Hna) as (sb & Hb & Fb & Tb).
           rewrite Hb. cbn [bind].
           pose proof (eff_trans _ _ _ _ _ _ _ _ Fa Fb) as Fab.
           destruct (prio_finish _ _ _ _ _ _ v Hn Fab) as (s' & H1 & H2 & H3).
           exists s'. split; [exact H1|]. split; [exact H2|congruence].
        -- rewrite (shift_side_false _ _ Er). cbn [fst snd bind].
           destruct (prio_finish _ _ _ _ _ _ v Hn Fa) as (s' & H1 & H2 & H3).
           exists s'. split; [exact H1|]. split; [exact H2|congruence].
      * rewrite (shift_side_false _ _ El). cbn [fst snd bind]. rewrite Hn. cbn [bind].
        change (e_r en) with (gs en true).
        destruct (tchg (s_chg (gs en true))) eqn:Er.
        -- rewrite (shift_side_true _ _ Er). cbn [fst snd].
           destruct (exec_chg_eff f s e true (chg_add (s_chg (gs en true)) (punt E true)) en Hn) as (sb & Hb & Fb & Tb).
           rewrite Hb. cbn [bind].
           destruct (prio_finish _ _ _ _ _ _ v Hn Fb) as (s' & H1 & H2 & H3).
           exists s'. split; [exact H1|]. split; [exact H2|congruence].
        -- rewrite (shift_side_false _ _ Er). cbn [fst snd bind].
           destruct (prio_finish _ _ _ _ _ _ v Hn (eff_refl _ _ _ Hn)) as (s' & H1 & H2 & H3).
           exists s'. split; [exact H1|]. split; [exact H2|exact H3].
    + cbn [bind].
      destruct (prio_finish _ _ _ _ _ _ v Hn (eff_refl _ _ _ Hn)) as (s' & H1 & H2 & H3).
      exists s'. split; [exact H1|]. split; [exact H2|exact H3].
Qed.

Lemma set_priority_eff s e v en :
  nth_error (ents s) e = Some en ->
  exists s', set_priority E s e v = Ok s' /\ eff s s' e (prio_entry en v) (prio_member en v) /\ tape s' = tape s.
Proof.
  intros Hn. unfold set_priority, run_cmd, fuel_of.
  replace (2 * length (ents s) + 8) with (S (S (2 * length (ents s) + 6))) by lia.
  apply exec_prio_eff. exact Hn.
Qed.

(* ------------------------------------------------------------------ set_ignored *)
Definition ign_entry (en : entry) (v : ign) : entry :=
  if ign_eqb (e_ign en) v then en else
  match v with
  | IDiscarded => mkEnt (w_chg (e_l en) CFalse) (w_chg (e_r en) CFalse) v (e_prio en)
  | _ => mkEnt (e_l en) (e_r en) v (e_prio en)
  end.
Definition ign_member (en : entry) (v : ign) : option bool :=
  if ign_eqb (e_ign en) v then None else match v with IDiscarded => Some false | _ => None end.

Lemma set_ignored_eff s e v en :
  nth_error (ents s) e = Some en ->
  exists s', set_ignored s e v = Ok s' /\ eff s s' e (ign_entry en v) (ign_member en v) /\ tape s' = tape s.
Proof.
  intros Hn. unfold set_ignored, get_ent, ign_entry, ign_member. rewrite Hn. cbn [bind].
  destruct (ign_eqb (e_ign en) v) eqn:Ei.
  - exists s. split; [reflexivity|]. split; [apply eff_refl; exact Hn|reflexivity].
  - assert (HJ: forall s', set_ignored s e v = Ok s' -> IdxJ s -> IdxJ s') by (intros s' H HJ; eapply set_ignored_pres; eauto).
    unfold set_ignored, get_ent in HJ. rewrite Hn in HJ. cbn [bind] in HJ. rewrite Ei in HJ.
    destruct v.
    + simpl. simpl in HJ. rewrite Hn. rewrite Hn in HJ. eexists. split; [reflexivity|]. split; [|reflexivity].
      eff_split; try reflexivity. intros HI. apply (HJ _ eq_refl HI).
    + (* discarded *)
      cbn [dirty_add ents st_dirty]. 
      set (s1 := raw_side (raw_side s e false (fun y => w_chg y CFalse)) e true (fun y => w_chg y CFalse)) in *.
      assert (H1: ents s1 = list_upd (ents s) e (mkEnt (w_chg (e_l en) CFalse) (w_chg (e_r en) CFalse) (e_ign en) (e_prio en))).
      { unfold s1. erewrite ents_raw_side.
        2:{ erewrite ents_raw_side; [|exact Hn]. eapply nth_list_upd_eq; eauto. }
        erewrite ents_raw_side; [|exact Hn]. rewrite list_upd_twice. reflexivity. }
      assert (Hn1: nth_error (ents (dirty_add (cs_del s1 e) e)) e = Some (mkEnt (w_chg (e_l en) CFalse) (w_chg (e_r en) CFalse) (e_ign en) (e_prio en))).
      { change (ents (dirty_add (cs_del s1 e) e)) with (ents s1). rewrite H1. eapply nth_list_upd_eq; eauto. }
      change (ents (cs_del s1 e)) with (ents (dirty_add (cs_del s1 e) e)).
      rewrite Hn1. rewrite Hn1 in HJ. eexists. split; [reflexivity|]. split.
      * eff_split.
        -- unfold put_ent. simpl. change (ents (cs_del s1 e)) with (ents s1). rewrite H1, list_upd_twice. reflexivity.
        -- intros x. unfold put_ent. simpl. unfold s1. rewrite !cset_raw_side. rewrite set_mem_del. destruct (Nat.eqb x e); reflexivity.
        -- unfold put_ent. simpl. unfold s1. rewrite !now_raw_side. reflexivity.
        -- unfold put_ent. simpl. unfold s1. rewrite !lastch_raw_side. reflexivity.
        -- intros HI. apply (HJ _ eq_refl HI).
      * unfold put_ent. simpl. unfold s1. rewrite !tape_raw_side. reflexivity.
    + simpl. simpl in HJ. rewrite Hn. rewrite Hn in HJ. eexists. split; [reflexivity|]. split; [|reflexivity].
      eff_split; try reflexivity. intros HI. apply (HJ _ eq_refl HI).
    + simpl. simpl in HJ. rewrite Hn. rewrite Hn in HJ. eexists. split; [reflexivity|]. split; [|reflexivity].
      eff_split; try reflexivity. intros HI. apply (HJ _ eq_refl HI).
    + simpl. simpl in HJ. rewrite Hn. rewrite Hn in HJ. eexists. split; [reflexivity|]. split; [|reflexivity].
      eff_split; try reflexivity. intros HI. apply (HJ _ eq_refl HI).
Qed.


(* ------------------------------------------------------------------ set_oid *)
Lemma w_oid_idem x v : w_oid (w_oid x v) v = w_oid x v.
Proof. destruct x; reflexivity. Qed.
Lemma w_path_idem x v : w_path (w_path x v) v = w_path x v.
Proof. destruct x; reflexivity. Qed.

Lemma now_slot_set s sd p o e : now (slot_set s sd p o e) = now s. Proof. destruct sd; reflexivity. Qed.
Lemma lastch_slot_set s sd p o e : lastch (slot_set s sd p o e) = lastch s. Proof. destruct sd; reflexivity. Qed.
Lemma tape_slot_set s sd p o e : tape (slot_set s sd p o e) = tape s. Proof. destruct sd; reflexivity. Qed.
Lemma cset_slot_set s sd p o e : cset (slot_set s sd p o e) = cset s. Proof. destruct sd; reflexivity. Qed.
Lemma now_st_oids s sd v : now (st_oids s sd v) = now s. Proof. destruct sd; reflexivity. Qed.
Lemma lastch_st_oids s sd v : lastch (st_oids s sd v) = lastch s. Proof. destruct sd; reflexivity. Qed.
Lemma tape_st_oids s sd v : tape (st_oids s sd v) = tape s. Proof. destruct sd; reflexivity. Qed.
Lemma cset_st_oids s sd v : cset (st_oids s sd v) = cset s. Proof. destruct sd; reflexivity. Qed.

(* the tail of _change_oid with a new id: entry table, change set, clock *)
Lemma oid_finish_some_ents e sd o s1 en1 :
  nth_error (ents s1) e = Some en1 ->
  exists s', oid_finish true e sd (Some o) s1 = Ok s' /\
    ents s' = list_upd (ents s1) e (ss en1 sd (w_oid (gs en1 sd) (Some o))) /\
    (forall x, set_mem x (cset s') =
               if tchg (s_chg (gs en1 sd)) || tchg (s_chg (gs en1 (negb sd)))
               then (if Nat.eqb x e then true else set_mem x (cset s1)) else set_mem x (cset s1)) /\
    now s' = now s1 /\ lastch s' = lastch s1 /\ tape s' = tape s1.
Proof.
  intros Hn. unfold oid_finish, get_ent. rewrite Hn. cbn [bind]. cbv beta zeta.
  match goal with |- context [st_oids ?a ?b ?c] => set (sa := st_oids a b c) end.
  set (sb := match s_path (gs en1 sd) with
             | Some pp => if tstr (Some pp) then slot_set sa sd pp o e else sa
             | None => sa
             end).
  assert (Ha: ents sa = list_upd (ents s1) e (ss en1 sd (w_oid (gs en1 sd) (Some o)))).
  { unfold sa. rewrite ents_st_oids. apply ents_raw_side. exact Hn. }
  assert (Hb: ents sb = ents sa /\ cset sb = cset s1 /\ now sb = now s1 /\ lastch sb = lastch s1 /\ tape sb = tape s1).
  { assert (H0: cset sa = cset s1 /\ now sa = now s1 /\ lastch sa = lastch s1 /\ tape sa = tape s1).
    { unfold sa. rewrite cset_st_oids, now_st_oids, lastch_st_oids, tape_st_oids, cset_raw_side, now_raw_side, lastch_raw_side, tape_raw_side. auto. }
    destruct H0 as (c1 & c2 & c3 & c4).
    unfold sb. destruct (s_path (gs en1 sd)) as [pp|]; [|auto].
    destruct (tstr (Some pp)); [|auto].
    rewrite ents_slot_set, cset_slot_set, now_slot_set, lastch_slot_set, tape_slot_set. auto. }
  destruct Hb as (b0 & b1 & b2 & b3 & b4). rewrite Ha in b0.
  clearbody sb. clear sa Ha.
  destruct (tchg (s_chg (gs en1 sd)) || tchg (s_chg (gs en1 (negb sd))))%bool; (eexists; split; [reflexivity|]).
  - assert (Hn2: nth_error (ents (dirty_add (cs_add sb e) e)) e = Some (ss en1 sd (w_oid (gs en1 sd) (Some o)))).
    { change (ents (dirty_add (cs_add sb e) e)) with (ents sb). rewrite b0. eapply nth_list_upd_eq; eauto. }
    split; [|split; [|split; [|split]]].
    + rewrite (ents_raw_side _ _ _ _ _ Hn2). change (ents (dirty_add (cs_add sb e) e)) with (ents sb). rewrite b0, list_upd_twice.
      rewrite gs_ss_same, ss_ss, w_oid_idem. reflexivity.
    + intros x. rewrite cset_raw_side. change (cset (dirty_add (cs_add sb e) e)) with (set_add e (cset sb)).
      rewrite set_mem_add, b1. destruct (Nat.eqb x e); reflexivity.
    + rewrite now_raw_side. exact b2.
    + rewrite lastch_raw_side. exact b3.
    + rewrite tape_raw_side. exact b4.
  - assert (Hn2: nth_error (ents (dirty_add sb e)) e = Some (ss en1 sd (w_oid (gs en1 sd) (Some o)))).
    { change (ents (dirty_add sb e)) with (ents sb). rewrite b0. eapply nth_list_upd_eq; eauto. }
    split; [|split; [|split; [|split]]].
    + rewrite (ents_raw_side _ _ _ _ _ Hn2). change (ents (dirty_add sb e)) with (ents sb). rewrite b0, list_upd_twice.
      rewrite gs_ss_same, ss_ss, w_oid_idem. reflexivity.
    + intros x. rewrite cset_raw_side. change (cset (dirty_add sb e)) with (cset sb). rewrite b1. reflexivity.
    + rewrite now_raw_side. exact b2.
    + rewrite lastch_raw_side. exact b3.
    + rewrite tape_raw_side. exact b4.
Qed.

Lemma set_oid_fresh_eff s e sd o en b r :
  nth_error (ents s) e = Some en -> s_oid (gs en sd) = None -> al_get o (oids s sd) = None -> tape s = TSwap b :: r ->
  exists s', set_oid E s e sd (Some o) = Ok s' /\
    eff s s' e (ss en sd (w_oid (gs en sd) (Some o)))
        (if tchg (s_chg (gs en sd)) || tchg (s_chg (gs en (negb sd))) then Some true else None) /\ tape s' = r.
Proof.
  intros Hn Ho Ha Ht.
  assert (HJ: forall s', set_oid E s e sd (Some o) = Ok s' -> IdxJ s -> IdxJ s') by (intros s' H HI; eapply set_oid_pres; eauto).
  unfold set_oid, run_cmd, fuel_of in *.
  replace (2 * length (ents s) + 8) with (S (2 * length (ents s) + 7)) in * by lia.
  rewrite exec_oid_eq in *. unfold get_ent in *. rewrite Hn in *. cbn [bind] in *. rewrite Ho in *.
  unfold oid_loop in *. cbn [ostr_eqb] in *. unfold pop_swap in *. rewrite Ht in *. cbn [bind] in *.
  assert (Ha': al_get o (oids (st_tape s r) sd) = None) by (destruct sd; exact Ha).
  assert (Hs1: (if b then (sx <- oid_step (exec E (2 * length (ents s) + 7)) e sd (Some o) (st_tape s r) ;;
                           oid_step (exec E (2 * length (ents s) + 7)) e sd None sx)
                else (sx <- oid_step (exec E (2 * length (ents s) + 7)) e sd None (st_tape s r) ;;
                      oid_step (exec E (2 * length (ents s) + 7)) e sd (Some o) sx)) = Ok (st_tape s r)).
  { destruct b.
    - rewrite (oid_step_absent _ _ _ _ _ Ha'). reflexivity.
    - rewrite oid_step_none. cbn [bind]. apply oid_step_absent. exact Ha'. }
  rewrite Hs1 in *. cbn [bind] in *.
  assert (Hn1: nth_error (ents (st_tape s r)) e = Some en) by exact Hn.
  destruct (oid_finish_some_ents e sd o (st_tape s r) en Hn1) as (s' & H1 & H2 & H3 & H4 & H5 & H6).
  exists s'. split; [exact H1|]. split; [|exact H6].
  eff_split.
  - exact H2.
  - intros x. rewrite H3. destruct (tchg (s_chg (gs en sd)) || tchg (s_chg (gs en (negb sd))))%bool; reflexivity.
  - exact H4.
  - exact H5.
  - intros HI. apply (HJ _ H1 HI).
Qed.


Lemma ss_w_oid_same en sd o : s_oid (gs en sd) = Some o -> ss en sd (w_oid (gs en sd) (Some o)) = en.
Proof. intros H. destruct en as [l r i p], sd; simpl in *; [destruct r|destruct l]; simpl in *; subst; reflexivity. Qed.

Lemma ents_slot_pop_eq s sd p k : ents (slot_pop s sd p k) = ents s. Proof. apply ents_slot_pop. Qed.
Lemma cset_slot_pop s sd p k : cset (slot_pop s sd p k) = cset s.
Proof. unfold slot_pop. destruct (al_get p (paths s sd)); [|reflexivity]. destruct (match k with Some k0 => al_del k0 o | None => o end); destruct sd; reflexivity. Qed.
Lemma now_slot_pop s sd p k : now (slot_pop s sd p k) = now s.
Proof. unfold slot_pop. destruct (al_get p (paths s sd)); [|reflexivity]. destruct (match k with Some k0 => al_del k0 o | None => o end); destruct sd; reflexivity. Qed.
Lemma lastch_slot_pop s sd p k : lastch (slot_pop s sd p k) = lastch s.
Proof. unfold slot_pop. destruct (al_get p (paths s sd)); [|reflexivity]. destruct (match k with Some k0 => al_del k0 o | None => o end); destruct sd; reflexivity. Qed.
Lemma tape_slot_pop s sd p k : tape (slot_pop s sd p k) = tape s.
Proof. unfold slot_pop. destruct (al_get p (paths s sd)); [|reflexivity]. destruct (match k with Some k0 => al_del k0 o | None => o end); destruct sd; reflexivity. Qed.

(* re-assigning the id the entry already has: the indexes are refreshed, nothing else changes *)
Lemma set_oid_same_eff s e sd o en :
  nth_error (ents s) e = Some en -> s_oid (gs en sd) = Some o -> al_get o (oids s sd) = Some e ->
  exists s', set_oid E s e sd (Some o) = Ok s' /\
    eff s s' e en (if tchg (s_chg (gs en sd)) || tchg (s_chg (gs en (negb sd))) then Some true else None) /\ tape s' = tape s.
Proof.
  intros Hn Ho Ha.
  assert (HJ: forall s', set_oid E s e sd (Some o) = Ok s' -> IdxJ s -> IdxJ s') by (intros s' H HI; eapply set_oid_pres; eauto).
  unfold set_oid, run_cmd, fuel_of in *.
  replace (2 * length (ents s) + 8) with (S (2 * length (ents s) + 7)) in * by lia.
  rewrite exec_oid_eq in *. unfold get_ent in *. rewrite Hn in *. cbn [bind] in *. rewrite Ho in *.
  unfold oid_loop in *. rewrite (proj2 (ostr_eqb_eq (Some o) (Some o)) eq_refl) in *.
  unfold oid_step in *. rewrite Ha in *. cbn [bind] in *.
  assert (Hg: get_ent (st_oids s sd (al_del o (oids s sd))) e = Ok en).
  { unfold get_ent. rewrite ents_st_oids, Hn. reflexivity. }
  rewrite Hg in *. cbn [bind] in *. rewrite Nat.eqb_refl in *. cbn [bind] in *.
  match goal with |- context [oid_finish true e sd (Some o) ?S1] => set (s1 := S1) in * end.
  assert (Hs1: ents s1 = ents s /\ cset s1 = cset s /\ now s1 = now s /\ lastch s1 = lastch s /\ tape s1 = tape s).
  { unfold s1. destruct (s_path (gs en sd)) as [pp|].
    - destruct (tstr (Some pp)).
      + rewrite ents_slot_pop, cset_slot_pop, now_slot_pop, lastch_slot_pop, tape_slot_pop,
                ents_st_oids, cset_st_oids, now_st_oids, lastch_st_oids, tape_st_oids. auto.
      + rewrite ents_st_oids, cset_st_oids, now_st_oids, lastch_st_oids, tape_st_oids. auto.
    - rewrite ents_st_oids, cset_st_oids, now_st_oids, lastch_st_oids, tape_st_oids. auto. }
  destruct Hs1 as (a0 & a1 & a2 & a3 & a4). clearbody s1.
  assert (Hn1: nth_error (ents s1) e = Some en) by (rewrite a0; exact Hn).
  destruct (oid_finish_some_ents e sd o s1 en Hn1) as (s' & H1 & H2 & H3 & H4 & H5 & H6).
  exists s'. split; [exact H1|]. split; [|congruence].
  eff_split.
  - rewrite H2, a0, (ss_w_oid_same _ _ _ Ho). reflexivity.
  - intros x. rewrite H3, a1. destruct (tchg (s_chg (gs en sd)) || tchg (s_chg (gs en (negb sd))))%bool; reflexivity.
  - congruence.
  - congruence.
  - intros HI. apply (HJ _ H1 HI).
Qed.

(* ------------------------------------------------------------------ set_path: first path of a file entry *)
Lemma slot_free s e sd o p en :
  IdxJ s -> nth_error (ents s) e = Some en -> s_oid (gs en sd) = Some o -> s_path (gs en sd) = None ->
  slot_get s sd p o = None.
Proof.
  intros [Hf [Hso Hsp]] Hn Ho Hp. destruct (slot_get s sd p o) as [z|] eqn:Ez; [|reflexivity]. exfalso.
  destruct (Hsp _ _ _ _ Ez) as (A & B & C).
  assert (He: oid_of s e sd = Some o) by (unfold oid_of; rewrite Hn; exact Ho).
  destruct (Hf _ _ _ A) as [Az _]. destruct (Hf _ _ _ He) as [Ae _]. assert (z = e) by congruence. subst z.
  unfold path_of in B. rewrite Hn, Hp in B. discriminate.
Qed.

Lemma set_path_new_eff s e sd p o en :
  IdxJ s -> nth_error (ents s) e = Some en -> s_oid (gs en sd) = Some o -> tstr (Some o) = true ->
  s_path (gs en sd) = None -> s_otype (gs en sd) <> Dir -> tstr (Some p) = true ->
  exists s', set_path E s e sd (Some p) = Ok s' /\
    eff s s' e (prio_entry (ss en sd (w_path (gs en sd) (Some p))) 0) None /\ tape s' = tape s.
Proof.
  intros HI Hn Ho Hto Hp Hot Htp.
  assert (HJ: forall s', set_path E s e sd (Some p) = Ok s' -> IdxJ s').
  { intros s' H. eapply (set_path_file_pres E s e sd (Some p) s' en); eauto. unfold get_ent. rewrite Hn. reflexivity. }
  pose proof (slot_free s e sd o p en HI Hn Ho Hp) as Hsl.
  unfold set_path, run_cmd, fuel_of in *.
  replace (2 * length (ents s) + 8) with (S (S (S (2 * length (ents s) + 5)))) in * by lia.
  rewrite exec_path_eq in *. unfold get_ent in *. rewrite Hn in *. cbn [bind] in *.
  rewrite Htp, Ho, Hto in *. cbn [negb andb] in *.
  unfold path_main in *. rewrite Hp, Ho in *. cbn [ostr_eqb] in *. rewrite Htp, Hsl in *. cbn [bind] in *.
  assert (Hif: forall (c : bool) (X : res state), (if c then X else X) = X) by (intros [] ?; reflexivity).
  rewrite Hif in *. cbn [bind] in *.
  match goal with |- context [exec E _ (CPrio e 0%N) ?SC] => set (sc := SC) in * end.
  assert (Hsc: ents sc = list_upd (ents s) e (ss en sd (w_path (gs en sd) (Some p))) /\ cset sc = cset s /\ now sc = now s /\
               lastch sc = lastch s /\ tape sc = tape s).
  { unfold sc. rewrite cset_raw_side, now_raw_side, lastch_raw_side, tape_raw_side, cset_slot_set, now_slot_set, lastch_slot_set, tape_slot_set.
    split; [|auto]. rewrite (ents_raw_side _ _ _ _ en); [rewrite ents_slot_set; reflexivity|rewrite ents_slot_set; exact Hn]. }
  destruct Hsc as (c0 & c1 & c2 & c3 & c4). clearbody sc.
  set (en1 := ss en sd (w_path (gs en sd) (Some p))) in *.
  assert (Hn1: nth_error (ents sc) e = Some en1) by (rewrite c0; eapply nth_list_upd_eq; eauto).
  destruct (exec_prio_eff (2 * length (ents s) + 5) sc e 0%N en1 Hn1) as (s2 & H1 & F2 & T2).
  rewrite H1 in *. cbn [bind] in *. eexists. split; [reflexivity|].
  pose proof (eff_nth _ _ _ _ _ _ F2 Hn1) as Hn2.
  assert (Hpm: prio_member en1 0%N = None).
  { unfold prio_member. destruct (N.eqb (e_prio en1) 0); [reflexivity|]. rewrite andb_false_r. reflexivity. }
  assert (Hpath: s_path (gs (prio_entry en1 0) sd) = Some p).
  { unfold prio_entry. destruct (N.eqb (e_prio en1) 0).
    - unfold en1. rewrite gs_ss_same. destruct (gs en sd); reflexivity.
    - rewrite andb_false_r. unfold en1. destruct sd; simpl; [destruct (e_r en)|destruct (e_l en)]; reflexivity. }
  split.
  - destruct F2 as (A & B & C & D & J). rewrite Hpm in B. eff_split.
    + rewrite (ents_raw_side _ _ _ _ (prio_entry en1 0)); [|exact Hn2].
      change (ents (dirty_add s2 e)) with (ents s2). rewrite A, c0, !list_upd_twice. f_equal.
      destruct (prio_entry en1 0) as [l r i q] eqn:Epe. destruct sd; simpl in *; [destruct r|destruct l]; simpl in *; subst; reflexivity.
    + intros x. rewrite cset_raw_side. change (cset (dirty_add s2 e)) with (cset s2). rewrite B, c1. reflexivity.
    + rewrite now_raw_side. change (now (dirty_add s2 e)) with (now s2). congruence.
    + rewrite lastch_raw_side. change (lastch (dirty_add s2 e)) with (lastch s2). congruence.
    + intros _. apply HJ. reflexivity.
  - rewrite tape_raw_side. change (tape (dirty_add s2 e)) with (tape s2). congruence.
Qed.


(* ------------------------------------------------------------------ mark_changed, update_entry, update *)
(* like [eff], with the clock and the last change stamp given explicitly *)
Definition effc (s s' : state) (e : eid) (en' : entry) (m : option bool) (n l : N) : Prop :=
  ents s' = list_upd (ents s) e en' /\
  (forall x, set_mem x (cset s') = match m with
                                   | Some b => if Nat.eqb x e then b else set_mem x (cset s)
                                   | None => set_mem x (cset s)
                                   end) /\
  now s' = n /\ lastch s' = l /\ (IdxJ s -> IdxJ s').
Lemma eff_effc s s' e en' m : eff s s' e en' m <-> effc s s' e en' m (now s) (lastch s).
Proof. unfold eff, effc. tauto. Qed.
Lemma effc_trans s s1 s2 e en1 en2 m1 m2 n1 l1 n2 l2 :
  effc s s1 e en1 m1 n1 l1 -> effc s1 s2 e en2 m2 n2 l2 -> effc s s2 e en2 (mcomp m1 m2) n2 l2.
Proof.
  intros (A1 & B1 & C1 & D1 & J1) (A2 & B2 & C2 & D2 & J2). split; [|split; [|split; [|split]]].
  - rewrite A2, A1. apply list_upd_twice.
  - intros x. rewrite B2. destruct m2 as [b|]; simpl.
    + destruct (Nat.eqb x e) eqn:Ex; [reflexivity|]. rewrite B1. destruct m1; [rewrite Ex|]; reflexivity.
    + apply B1.
  - exact C2.
  - exact D2.
  - auto.
Qed.
Lemma effc_nth s s' e en' m n l en : effc s s' e en' m n l -> nth_error (ents s) e = Some en -> nth_error (ents s') e = Some en'.
Proof. intros [H _] Hn. rewrite H. eapply nth_list_upd_eq; eauto. Qed.

Lemma st_now_effc s e en t : nth_error (ents s) e = Some en -> effc s (st_now s t) e en None t (lastch s).
Proof.
  intros Hn. split; [|split; [|split; [|split]]]; try reflexivity.
  - symmetry. apply list_upd_same. exact Hn.
  - intros HI. apply (IdxJ_view s); [reflexivity|exact HI].
Qed.

(* mark_changed when the clock is ahead of the last stamp (it always is: see AlgoInv.clock) *)
Lemma mark_changed_eff s e sd en :
  nth_error (ents s) e = Some en -> N.lt (lastch s) (now s + 1000) ->
  let t := (now s + 1000)%N in
  exists s', mark_changed E s e sd = Ok s' /\
    effc s s' e (chg_entry en sd (CNum t)) (Some (chg_pending en sd (CNum t))) t t /\ tape s' = tape s.
Proof.
  intros Hn Hlt t. unfold mark_changed. fold t.
  assert (Hn0: nth_error (ents (st_now s t)) e = Some en) by exact Hn.
  destruct (set_changed_eff (st_now s t) e sd (CNum t) en Hn0) as (s1 & H1 & F1 & T1).
  rewrite H1. cbn [bind].
  assert (Hl: lastch s1 = lastch s) by (destruct F1 as (_ & _ & _ & D & _); exact D).
  assert (Hle: N.leb t (lastch s1) = false) by (apply N.leb_gt; rewrite Hl; exact Hlt).
  rewrite Hle. cbn [bind].
  pose proof (eff_nth _ _ _ _ _ _ F1 Hn0) as Hn1. unfold get_ent. rewrite Hn1. cbn [bind].
  assert (Hc: s_chg (gs (chg_entry en sd (CNum t)) sd) = CNum t).
  { unfold chg_entry. rewrite gs_ss_same. destruct (gs _ sd); reflexivity. }
  rewrite Hc. eexists. split; [reflexivity|]. split; [|exact T1].
  destruct F1 as (A & B & C & D & J). split; [|split; [|split; [|split]]].
  - exact A.
  - exact B.
  - exact C.
  - reflexivity.
  - intros HI. apply (IdxJ_view s1); [reflexivity|]. apply J. apply (IdxJ_view s); [reflexivity|exact HI].
Qed.


Hypothesis Hoip : forall sd, oip E sd = false.

Definition ev_ex (cur : exst) (b : bool) : exst :=
  match cur, b with ExTrashed, true => ExLikely | _, _ => ex_of (Some b) end.

(* SyncState.update for an event about an object the state already has an entry for *)
Lemma update_known_eff s sd o e en b t :
  nth_error (ents s) e = Some en -> al_get o (oids s sd) = Some e -> s_oid (gs en sd) = Some o -> tstr (Some o) = true ->
  s_otype (gs en sd) = t -> t <> NotKnown ->
  (forall p, s_path (gs en sd) = Some p -> nps (cvs E sd) p = p) ->
  N.le (lastch s) (now s) ->
  let stamp := (now s + 2000)%N in
  let en1 := ss en sd (w_ex (gs en sd) (ev_ex (s_ex (gs en sd)) b)) in
  exists s', update E s sd (Some t) (Some o) (s_path (gs en sd)) None (Some b) None = Ok s' /\
    effc s s' e (chg_entry en1 sd (CNum stamp)) (Some (chg_pending en1 sd (CNum stamp))) stamp stamp /\ tape s' = tape s.
Proof.
  intros Hn Ha Ho Hto Hot Hnk Hnp Hclk stamp en1.
  unfold update. cbn [tstr andb]. unfold lookup_oid. rewrite Ha. cbn [bind].
  set (s3 := st_now s (now s + 1000)).
  assert (Hn3: nth_error (ents s3) e = Some en) by exact Hn.
  unfold update_entry. unfold get_ent at 1. rewrite Hn3. cbn [bind]. rewrite Hoip. rewrite andb_false_r. cbn [andb].
  assert (Ha3: al_get o (oids s3 sd) = Some e) by (destruct sd; exact Ha).
  destruct (set_oid_same_eff s3 e sd o en Hn3 Ho Ha3) as (s1 & H1 & F1 & T1).
  change (tape s3) with (tape s) in T1.
  rewrite H1. cbn [bind].
  pose proof (eff_nth _ _ _ _ _ _ F1 Hn3) as Hn1. unfold get_ent at 1. rewrite Hn1. cbn [bind].
  rewrite Hot. assert (Hte: otype_eqb t t = true) by (destruct t; reflexivity). rewrite Hte. cbn [bind].
  assert (Hnk': (match t with NotKnown => match Some b with Some true => true | _ => false end | _ => false end) = false)
    by (destruct t; try reflexivity; contradiction).
  rewrite Hnk'.
  (* path: the event carries the path the state already has, or none *)
  destruct (s_path (gs en sd)) as [p|] eqn:Ep; cbv zeta;
    [unfold get_ent at 1; rewrite Hn1; cbn [bind]; rewrite Ep, (Hnp p eq_refl), (proj2 (ostr_eqb_eq (Some p) (Some p)) eq_refl)|];
    cbn [bind]; unfold get_ent at 1; rewrite Hn1; cbn [bind];
    (assert (Hclk1: N.lt (lastch s1) (now s1 + 1000))
         by (destruct F1 as (_ & _ & C1 & D1 & _); rewrite C1, D1; unfold s3; simpl; lia));
    (assert (Hnow1: (now s1 + 1000 = stamp)%N)
         by (destruct F1 as (_ & _ & C1 & _); rewrite C1; unfold s3, stamp; simpl; lia));
    pose proof (st_now_effc s e en (now s + 1000) Hn) as F0; fold s3 in F0; apply eff_effc in F1;
    pose proof (effc_trans _ _ _ _ _ _ _ _ _ _ _ _ F0 F1) as F01;
    unfold en1, ev_ex; destruct (s_ex (gs en sd)) eqn:Eex, b;
    match goal with |- context [set_plain s1 e sd ?f] =>
      destruct (set_plain_eff s1 e sd f en Hn1) as (s5 & H5 & F5 & T5); [intros; split; reflexivity|] end;
    rewrite H5; cbn [bind];
    pose proof (eff_nth _ _ _ _ _ _ F5 Hn1) as Hn5; unfold get_ent at 1; rewrite Hn5; cbn [bind];
    rewrite gs_ss_same;
    cbn [s_oid w_ex]; rewrite Ho, Hto, orb_true_r;
    match goal with |- _ =>
      match type of Hn5 with nth_error _ _ = Some ?EN =>
        assert (Hclk5: N.lt (lastch s5) (now s5 + 1000))
          by (destruct F5 as (_ & _ & C5 & D5 & _); rewrite C5, D5; exact Hclk1);
        destruct (mark_changed_eff s5 e sd EN Hn5 Hclk5) as (s6 & H6 & F6 & T6);
        assert (Hnow5: (now s5 + 1000 = stamp)%N) by (destruct F5 as (_ & _ & C5 & _); rewrite C5; exact Hnow1);
        rewrite Hnow5 in *; exists s6; split; [exact H6|]; split; [|congruence];
        pose proof (proj1 (eff_effc _ _ _ _ _) F5) as F5c;
        pose proof (effc_trans _ _ _ _ _ _ _ _ _ _ _ _ (effc_trans _ _ _ _ _ _ _ _ _ _ _ _ F01 F5c) F6) as F;
        destruct F as (A & B & C & D & J); split; [|split; [|split; [|split]]]; auto;
        intros x; rewrite B; reflexivity
      end
    end.
Qed.


Lemma nth_error_app_len {T} (l : list T) x : nth_error (l ++ [x]) (length l) = Some x.
Proof. induction l; simpl; auto. Qed.
Lemma list_upd_app_len {T} (l : list T) x y : list_upd (l ++ [x]) (length l) y = l ++ [y].
Proof. induction l; simpl; auto. f_equal. auto. Qed.

Lemma IdxJ_add_entry s t : IdxJ s -> IdxJ (fst (add_entry s t)).
Proof.
  intros [Hf [Hso Hsp]]. unfold add_entry. cbn [fst].
  set (s' := st_ents s (ents s ++ [new_entry t])).
  assert (Hoid: forall e sd, oid_of s' e sd = oid_of s e sd).
  { intros e sd. unfold oid_of, s'. simpl. destruct (Nat.lt_ge_cases e (length (ents s))) as [Hl|Hg].
    - rewrite nth_error_app1 by exact Hl. reflexivity.
    - rewrite (proj2 (nth_error_None (ents s) e) Hg).
      destruct (Nat.eq_dec e (length (ents s))) as [->|Hne].
      + rewrite nth_error_app_len. destruct sd; reflexivity.
      + rewrite (proj2 (nth_error_None _ e)); [reflexivity|]. rewrite app_length. simpl. lia. }
  assert (Hpath: forall e sd, path_of s' e sd = path_of s e sd).
  { intros e sd. unfold path_of, s'. simpl. destruct (Nat.lt_ge_cases e (length (ents s))) as [Hl|Hg].
    - rewrite nth_error_app1 by exact Hl. reflexivity.
    - rewrite (proj2 (nth_error_None (ents s) e) Hg).
      destruct (Nat.eq_dec e (length (ents s))) as [->|Hne].
      + rewrite nth_error_app_len. destruct sd; reflexivity.
      + rewrite (proj2 (nth_error_None _ e)); [reflexivity|]. rewrite app_length. simpl. lia. }
  split; [|split].
  - intros e sd o H. rewrite Hoid in H. destruct (Hf _ _ _ H) as [A B]. split; [exact A|].
    intros p Hp Hn. rewrite Hpath in Hp. apply B; assumption.
  - intros sd o e H. rewrite Hoid. apply (Hso sd o e H).
  - intros sd p o e H. rewrite Hoid, Hpath. apply (Hsp sd p o e H).
Qed.

(* SyncState.update for an event about an object the state has no entry for *)
Lemma update_new_eff s sd o b t tsw r :
  al_get o (oids s sd) = None -> tstr (Some o) = true -> t <> NotKnown -> N.le (lastch s) (now s) -> tape s = TSwap tsw :: r ->
  let e := length (ents s) in
  let stamp := (now s + 2000)%N in
  let en0 := ss (new_entry t) sd (w_oid (new_side t) (Some o)) in
  let en1 := ss en0 sd (w_ex (gs en0 sd) (ev_ex ExUnknown b)) in
  exists s', update E s sd (Some t) (Some o) None None (Some b) None = Ok s' /\
    ents s' = ents s ++ [chg_entry en1 sd (CNum stamp)] /\
    (forall x, set_mem x (cset s') = if Nat.eqb x e then true else set_mem x (cset s)) /\
    now s' = stamp /\ lastch s' = stamp /\ tape s' = r /\ (IdxJ s -> IdxJ s').
Proof.
  intros Ha Hto Hnk Hclk Ht e stamp en0 en1.
  unfold update. cbn [tstr andb]. unfold lookup_oid. rewrite Ha. cbn [bind].
  set (sa := st_ents s (ents s ++ [new_entry t])).
  change (add_entry s t) with (sa, e). cbv beta iota.
  set (s3 := st_now sa (now sa + 1000)).
  assert (Hn3: nth_error (ents s3) e = Some (new_entry t)) by (unfold s3, sa, e; simpl; apply nth_error_app_len).
  unfold update_entry. unfold get_ent at 1. rewrite Hn3. cbn [bind]. rewrite Hoip. rewrite andb_false_r. cbn [andb].
  assert (Ha3: al_get o (oids s3 sd) = None) by (destruct sd; exact Ha).
  assert (Ho3: s_oid (gs (new_entry t) sd) = None) by (destruct sd; reflexivity).
  assert (Ht3: tape s3 = TSwap tsw :: r) by exact Ht.
  destruct (set_oid_fresh_eff s3 e sd o (new_entry t) tsw r Hn3 Ho3 Ha3 Ht3) as (s1 & H1 & F1 & T1).
  rewrite H1. cbn [bind].
  assert (Hg0: gs (new_entry t) sd = new_side t) by (destruct sd; reflexivity).
  rewrite Hg0 in *. fold en0 in F1.
  pose proof (eff_nth _ _ _ _ _ _ F1 Hn3) as Hn1. unfold get_ent at 1. rewrite Hn1. cbn [bind].
  assert (Hot: s_otype (gs en0 sd) = t) by (unfold en0; rewrite gs_ss_same; reflexivity).
  rewrite Hot. assert (Hte: otype_eqb t t = true) by (destruct t; reflexivity). rewrite Hte. cbn [bind].
  assert (Hnk': (match t with NotKnown => match Some b with Some true => true | _ => false end | _ => false end) = false)
    by (destruct t; try reflexivity; contradiction).
  rewrite Hnk'. cbn [bind]. unfold get_ent at 1. rewrite Hn1. cbn [bind].
  assert (Hex0: s_ex (gs en0 sd) = ExUnknown) by (unfold en0; rewrite gs_ss_same; reflexivity).
  rewrite Hex0.
  assert (Hsp: exists s5, (match Some b with
                           | Some true => set_plain s1 e sd (fun y => w_ex y (ex_of (Some b)))
                           | _ => set_plain s1 e sd (fun y => w_ex y (ex_of (Some b)))
                           end) = Ok s5 /\ eff s1 s5 e en1 None /\ tape s5 = tape s1).
  { destruct (set_plain_eff s1 e sd (fun y => w_ex y (ex_of (Some b))) en0 Hn1) as (s5 & A & B & C); [intros; split; reflexivity|].
    exists s5. split; [destruct b; exact A|]. split; [|exact C]. unfold en1, ev_ex. exact B. }
  destruct Hsp as (s5 & H5 & F5 & T5). cbv beta iota in H5 |- *.
  replace (match b with true => set_plain s1 e sd (fun y => w_ex y (ex_of (Some b))) | false => set_plain s1 e sd (fun y => w_ex y (ex_of (Some b))) end)
    with (set_plain s1 e sd (fun y => w_ex y (ex_of (Some b)))) in H5 by (destruct b; reflexivity).
  rewrite H5. cbn [bind].
  pose proof (eff_nth _ _ _ _ _ _ F5 Hn1) as Hn5. unfold get_ent at 1. rewrite Hn5. cbn [bind].
  assert (Hoid5: s_oid (gs en1 sd) = Some o) by (unfold en1, en0; rewrite !gs_ss_same; reflexivity).
  rewrite Hoid5, Hto, orb_true_r.
  assert (Hclk5: N.lt (lastch s5) (now s5 + 1000)).
  { destruct F1 as (_ & _ & C1 & D1 & _). destruct F5 as (_ & _ & C5 & D5 & _). rewrite C5, D5, C1, D1. unfold s3, sa. simpl. lia. }
  destruct (mark_changed_eff s5 e sd en1 Hn5 Hclk5) as (s6 & H6 & F6 & T6).
  assert (Hnow5: (now s5 + 1000 = stamp)%N).
  { destruct F1 as (_ & _ & C1 & _). destruct F5 as (_ & _ & C5 & _). rewrite C5, C1. unfold s3, sa, stamp. simpl. lia. }
  rewrite Hnow5 in *. exists s6. split; [exact H6|].
  destruct F1 as (A1 & B1 & C1 & D1 & J1). destruct F5 as (A5 & B5 & C5 & D5 & J5). destruct F6 as (A6 & B6 & C6 & D6 & J6).
  split; [|split; [|split; [|split; [|split]]]].
  - rewrite A6, A5, A1, !list_upd_twice. unfold s3, sa, e. simpl. apply list_upd_app_len.
  - intros x. rewrite B6.
    assert (Hpend: chg_pending en1 sd (CNum stamp) = true).
    { unfold chg_pending. rewrite Hoid5, Hto. assert (tchg (CNum stamp) = true) by (unfold tchg, stamp; destruct (now s + 2000)%N eqn:En; [lia|reflexivity]).
      rewrite H. reflexivity. }
    rewrite Hpend. destruct (Nat.eqb x e) eqn:Ex; [reflexivity|].
    rewrite B5, B1. assert (Hc0: (tchg (s_chg (new_side t)) || tchg (s_chg (gs (new_entry t) (negb sd))))%bool = false) by (destruct sd; reflexivity).
    rewrite Hc0. reflexivity.
  - exact C6.
  - exact D6.
  - congruence.
  - intros HI. apply J6, J5, J1. apply (IdxJ_view sa); [reflexivity|]. apply (IdxJ_add_entry s t HI).
Qed.


(* ------------------------------------------------------------------ finished *)
Definition same_but_prio (a b : entry) : Prop := e_l a = e_l b /\ e_r a = e_r b /\ e_ign a = e_ign b.
Lemma same_but_prio_refl a : same_but_prio a a. Proof. repeat split. Qed.
Lemma same_but_prio_trans a b c : same_but_prio a b -> same_but_prio b c -> same_but_prio a c.
Proof. intros (A & B & C) (A' & B' & C'). repeat split; congruence. Qed.

(* s' has the same entries as s up to priorities, the same change set, clock and stamp *)
Definition prio_only (s s' : state) : Prop :=
  length (ents s') = length (ents s) /\
  (forall x xn, nth_error (ents s) x = Some xn -> exists xn', nth_error (ents s') x = Some xn' /\ same_but_prio xn xn') /\
  (forall x, set_mem x (cset s') = set_mem x (cset s)) /\
  now s' = now s /\ lastch s' = lastch s /\ tape s' = tape s /\ (IdxJ s -> IdxJ s').
Ltac po_split := split; [|split; [|split; [|split; [|split; [|split]]]]].
Lemma prio_only_refl s : prio_only s s.
Proof. po_split; auto. intros x xn H. exists xn. split; [exact H|apply same_but_prio_refl]. Qed.
Lemma prio_only_trans a b c : prio_only a b -> prio_only b c -> prio_only a c.
Proof.
  intros (A1 & B1 & C1 & D1 & E1 & T1 & J1) (A2 & B2 & C2 & D2 & E2 & T2 & J2). po_split; try congruence; auto.
  - intros x xn H. destruct (B1 _ _ H) as (y & Hy & Sy). destruct (B2 _ _ Hy) as (z & Hz & Sz).
    exists z. split; [exact Hz|eapply same_but_prio_trans; eauto].
Qed.

Lemma prio0_same_but_prio en : same_but_prio en (prio_entry en 0).
Proof.
  unfold prio_entry. destruct (N.eqb (e_prio en) 0); [apply same_but_prio_refl|].
  rewrite andb_false_r. repeat split.
Qed.
Lemma prio0_member en : prio_member en 0 = None.
Proof. unfold prio_member. destruct (N.eqb (e_prio en) 0); [reflexivity|]. rewrite andb_false_r. reflexivity. Qed.

Lemma eff_prio_only s s' e en en' :
  nth_error (ents s) e = Some en -> eff s s' e en' None -> tape s' = tape s -> same_but_prio en en' -> prio_only s s'.
Proof.
  intros Hn (A & B & C & D & J) T S. po_split; auto.
  - rewrite A. apply length_list_upd.
  - intros x xn Hx. destruct (Nat.eq_dec x e) as [->|Hne].
    + exists en'. split; [rewrite A; eapply nth_list_upd_eq; eauto|]. assert (xn = en) by congruence. subst. exact S.
    + exists xn. split; [rewrite A, nth_list_upd_neq by congruence; exact Hx|apply same_but_prio_refl].
Qed.

Lemma finished_loop_prio_only e : forall l s,
  e < length (ents s) -> (forall x, In x l -> x < length (ents s)) ->
  exists s', (fix loop (l : list eid) (s : state) {struct l} : res state :=
     match l with
     | [] => Ok s
     | x :: r =>
       xn <- get_ent s x ;;
       en' <- get_ent s e ;;
       s' <- (if N.ltb 0 (e_prio xn) && is_related E en' xn then set_priority E s x 0%N else Ok s) ;;
       loop r s'
     end) l s = Ok s' /\ prio_only s s'.
Proof.
  induction l as [|x r IH]; intros s He Hl.
  - exists s. split; [reflexivity|apply prio_only_refl].
  - assert (Hx: x < length (ents s)) by (apply Hl; left; reflexivity).
    destruct (nth_error (ents s) x) as [xn|] eqn:Ex; [|apply nth_error_None in Ex; lia].
    destruct (nth_error (ents s) e) as [en|] eqn:Ee; [|apply nth_error_None in Ee; lia].
    unfold get_ent at 1 2. rewrite Ex, Ee. cbn [bind].
    destruct (N.ltb 0 (e_prio xn) && is_related E en xn)%bool.
    + destruct (set_priority_eff s x 0%N xn Ex) as (s1 & H1 & F1 & T1). rewrite H1. cbn [bind].
      rewrite prio0_member in F1.
      pose proof (eff_prio_only _ _ _ _ _ Ex F1 T1 (prio0_same_but_prio xn)) as P1.
      destruct P1 as (L1 & R1). destruct (IH s1) as (s' & H' & P').
      * rewrite L1. exact He.
      * intros y Hy. rewrite L1. apply Hl. right. exact Hy.
      * exists s'. split; [exact H'|]. eapply prio_only_trans; [split; [exact L1|exact R1]|exact P'].
    + cbn [bind]. destruct (IH s) as (s' & H' & P'); [exact He|intros y Hy; apply Hl; right; exact Hy|].
      exists s'. split; [exact H'|exact P'].
Qed.


Definition fin_side (x : sidest) : sidest := if tchg (s_chg x) then x else w_force x false.
Definition fin_entry (en : entry) : entry := mkEnt (fin_side (e_l en)) (fin_side (e_r en)) (e_ign en) (e_prio en).

Lemma set_mem_lt s e : set_mem e (cset s) = true -> True. Proof. auto. Qed.

(* SyncState.finished: force flags of unchanged sides are cleared; with no change left the entry leaves the change
   set and related punted entries get their priority back *)
Lemma finished_spec s e en :
  nth_error (ents s) e = Some en -> (forall x, set_mem x (cset s) = true -> x < length (ents s)) ->
  exists s' s2, finished E s e = Ok s' /\
    eff s s2 e (fin_entry en) (if tchg (s_chg (e_l en)) || tchg (s_chg (e_r en)) then None else Some false) /\
    tape s2 = tape s /\ prio_only s2 s'.
Proof.
  intros Hn Hcs. unfold finished, get_ent. rewrite Hn. cbn [bind].
  (* left force flag *)
  assert (H1: exists s1, (if tchg (s_chg (e_l en)) then Ok s else set_plain s e false (fun y => w_force y false)) = Ok s1 /\
              eff s s1 e (mkEnt (fin_side (e_l en)) (e_r en) (e_ign en) (e_prio en)) None /\ tape s1 = tape s).
  { unfold fin_side. destruct (tchg (s_chg (e_l en))).
    - exists s. split; [reflexivity|]. split; [|reflexivity]. destruct en; apply eff_refl; exact Hn.
    - destruct (set_plain_eff s e false (fun y => w_force y false) en Hn) as (s1 & A & B & C); [intros; split; reflexivity|].
      exists s1. split; [exact A|]. split; [exact B|exact C]. }
  destruct H1 as (s1 & E1 & F1 & T1). rewrite E1. cbn [bind].
  pose proof (eff_nth _ _ _ _ _ _ F1 Hn) as Hn1.
  assert (H2: exists s2, (if tchg (s_chg (e_r en)) then Ok s1 else set_plain s1 e true (fun y => w_force y false)) = Ok s2 /\
              eff s1 s2 e (fin_entry en) None /\ tape s2 = tape s1).
  { unfold fin_entry. unfold fin_side at 2. destruct (tchg (s_chg (e_r en))).
    - exists s1. split; [reflexivity|]. split; [|reflexivity]. apply eff_refl. exact Hn1.
    - destruct (set_plain_eff s1 e true (fun y => w_force y false) _ Hn1) as (s2 & A & B & C); [intros; split; reflexivity|].
      exists s2. split; [exact A|]. split; [exact B|exact C]. }
  destruct H2 as (s2 & E2 & F2 & T2). rewrite E2. cbn [bind].
  pose proof (eff_trans _ _ _ _ _ _ _ _ F1 F2) as F12. cbn [mcomp] in F12.
  destruct (tchg (s_chg (e_l en)) || tchg (s_chg (e_r en)))%bool eqn:Ec.
  - exists s2, s2. split; [reflexivity|]. split; [exact F12|]. split; [congruence|apply prio_only_refl].
  - set (s3 := cs_del s2 e).
    assert (F3: eff s s3 e (fin_entry en) (Some false)).
    { destruct F12 as (A & B & C & D & J). eff_split; auto.
      intros x. unfold s3. simpl. rewrite set_mem_del, B. destruct (Nat.eqb x e); reflexivity. }
    assert (Hlen: length (ents s3) = length (ents s)) by (destruct F3 as (A & _); rewrite A; apply length_list_upd).
    destruct (finished_loop_prio_only e (cset s3) s3) as (s' & H' & P').
    + rewrite Hlen. apply nth_error_Some. rewrite Hn. discriminate.
    + intros x Hx. rewrite Hlen. apply Hcs.
      assert (Hm: set_mem x (cset s3) = true).
      { clear - Hx. induction (cset s3) as [|a l IH]; [contradiction|]. simpl. destruct Hx as [->|Hx]; [rewrite Nat.eqb_refl; reflexivity|].
        rewrite (IH Hx). apply orb_true_r. }
      destruct F3 as (_ & B & _). rewrite B in Hm. destruct (Nat.eqb x e); [discriminate|exact Hm].
    + exists s', s3. split; [exact H'|]. split; [exact F3|]. split; [unfold s3; simpl; congruence|exact P'].
Qed.


(* ------------------------------------------------------------------ update_entry as the manager calls it *)
Definition hash_upd (en : entry) (sd : bool) (h : option N) : entry :=
  match h with
  | Some _ => if oN_eqb h (s_hash (gs en sd)) then en else ss en sd (w_hash (gs en sd) h)
  | None => en
  end.

(* after create(): the side gets its id, path, hash; exists=True; no change mark *)
Lemma upd_entry_create_eff s e sd o p h en tsw r :
  IdxJ s -> nth_error (ents s) e = Some en -> s_oid (gs en sd) = None -> s_path (gs en sd) = None ->
  al_get o (oids s sd) = None -> tstr (Some o) = true -> tstr (Some p) = true -> nps (cvs E sd) p = p ->
  s_otype (gs en sd) <> Dir -> tape s = TSwap tsw :: r ->
  let en1 := ss en sd (w_oid (gs en sd) (Some o)) in
  let en2 := prio_entry (ss en1 sd (w_path (gs en1 sd) (Some p))) 0 in
  let en3 := hash_upd en2 sd h in
  let en4 := ss en3 sd (w_ex (gs en3 sd) (ev_ex (s_ex (gs en2 sd)) true)) in
  exists s', update_entry E s e sd (Some o) (Some p) h (Some true) false None = Ok s' /\
    eff s s' e en4 (if tchg (s_chg (gs en sd)) || tchg (s_chg (gs en (negb sd))) then Some true else None) /\ tape s' = r.
Proof.
  intros HI Hn Ho Hp Ha Hto Htp Hnp Hot Ht en1 en2 en3 en4.
  unfold update_entry. unfold get_ent at 1. rewrite Hn. cbn [bind]. rewrite Hoip, andb_false_r. cbn [andb].
  destruct (set_oid_fresh_eff s e sd o en tsw r Hn Ho Ha Ht) as (s1 & H1 & F1 & T1).
  rewrite H1. cbn [bind]. fold en1 in F1.
  pose proof (eff_nth _ _ _ _ _ _ F1 Hn) as Hn1. unfold get_ent at 1. rewrite Hn1. cbn [bind].
  (* path *)
  cbv zeta. unfold get_ent at 1. rewrite Hn1. cbn [bind]. rewrite Hnp.
  assert (Hp1: s_path (gs en1 sd) = None) by (unfold en1; rewrite gs_ss_same; destruct (gs en sd); exact Hp).
  rewrite Hp1. cbn [ostr_eqb].
  assert (Ho1: s_oid (gs en1 sd) = Some o) by (unfold en1; rewrite gs_ss_same; destruct (gs en sd); reflexivity).
  assert (Hot1: s_otype (gs en1 sd) <> Dir) by (unfold en1; rewrite gs_ss_same; destruct (gs en sd); exact Hot).
  assert (HI1: IdxJ s1) by (destruct F1 as (_ & _ & _ & _ & J); auto).
  destruct (set_path_new_eff s1 e sd p o en1 HI1 Hn1 Ho1 Hto Hp1 Hot1 Htp) as (s2 & H2 & F2 & T2).
  rewrite H2. cbn [bind]. fold en2 in F2.
  pose proof (eff_nth _ _ _ _ _ _ F2 Hn1) as Hn2. unfold get_ent at 1. rewrite Hn2. cbn [bind].
  (* hash *)
  assert (H3: exists s3, (match h with
                          | Some _ => if oN_eqb h (s_hash (gs en2 sd)) then Ok s2 else set_plain s2 e sd (fun y => w_hash y h)
                          | None => Ok s2
                          end) = Ok s3 /\ eff s2 s3 e en3 None /\ tape s3 = tape s2).
  { unfold en3, hash_upd. destruct h as [d|].
    - destruct (oN_eqb (Some d) (s_hash (gs en2 sd))).
      + exists s2. split; [reflexivity|]. split; [apply eff_refl; exact Hn2|reflexivity].
      + destruct (set_plain_eff s2 e sd (fun y => w_hash y (Some d)) en2 Hn2) as (s3 & A & B & C); [intros; split; reflexivity|].
        exists s3. auto.
    - exists s2. split; [reflexivity|]. split; [apply eff_refl; exact Hn2|reflexivity]. }
  destruct H3 as (s3 & E3 & F3 & T3). rewrite E3. cbn [bind].
  pose proof (eff_nth _ _ _ _ _ _ F3 Hn2) as Hn3.
  (* exists *)
  assert (H4: exists s4, (match s_ex (gs en2 sd), Some true with
                          | ExTrashed, Some true => set_plain s3 e sd (fun y => w_ex y ExLikely)
                          | _, _ => set_plain s3 e sd (fun y => w_ex y (ex_of (Some true)))
                          end) = Ok s4 /\ eff s3 s4 e en4 None /\ tape s4 = tape s3).
  { unfold en4, ev_ex. destruct (s_ex (gs en2 sd));
      match goal with |- context [set_plain s3 e sd ?f] =>
        destruct (set_plain_eff s3 e sd f en3 Hn3) as (s4 & A & B & C); [intros; split; reflexivity|]; exists s4; auto end. }
  destruct H4 as (s4 & E4 & F4 & T4). rewrite E4. cbn [bind].
  exists s4. split; [reflexivity|]. split; [|congruence].
  pose proof (eff_trans _ _ _ _ _ _ _ _ (eff_trans _ _ _ _ _ _ _ _ (eff_trans _ _ _ _ _ _ _ _ F1 F2) F3) F4) as F.
  cbn [mcomp] in F. exact F.
Qed.

(* after upload(): same id, same path; exists=True *)
Lemma upd_entry_same_eff s e sd o en :
  nth_error (ents s) e = Some en -> s_oid (gs en sd) = Some o -> al_get o (oids s sd) = Some e ->
  (forall p, s_path (gs en sd) = Some p -> nps (cvs E sd) p = p) ->
  exists s', update_entry E s e sd (Some o) (s_path (gs en sd)) None (Some true) false None = Ok s' /\
    eff s s' e (ss en sd (w_ex (gs en sd) (ev_ex (s_ex (gs en sd)) true)))
        (if tchg (s_chg (gs en sd)) || tchg (s_chg (gs en (negb sd))) then Some true else None) /\ tape s' = tape s.
Proof.
  intros Hn Ho Ha Hnp.
  unfold update_entry. unfold get_ent at 1. rewrite Hn. cbn [bind]. rewrite Hoip, andb_false_r. cbn [andb].
  destruct (set_oid_same_eff s e sd o en Hn Ho Ha) as (s1 & H1 & F1 & T1).
  rewrite H1. cbn [bind].
  pose proof (eff_nth _ _ _ _ _ _ F1 Hn) as Hn1. unfold get_ent at 1. rewrite Hn1. cbn [bind].
  destruct (s_path (gs en sd)) as [p|] eqn:Ep; cbv zeta;
    [unfold get_ent at 1; rewrite Hn1; cbn [bind]; rewrite Ep, (Hnp p eq_refl), (proj2 (ostr_eqb_eq (Some p) (Some p)) eq_refl)|];
    cbn [bind]; unfold get_ent at 1; rewrite Hn1; cbn [bind];
    unfold ev_ex; destruct (s_ex (gs en sd));
    match goal with |- context [set_plain s1 e sd ?f] =>
      destruct (set_plain_eff s1 e sd f en Hn1) as (s5 & H5 & F5 & T5); [intros; split; reflexivity|] end;
    rewrite H5; cbn [bind]; exists s5; (split; [reflexivity|]); (split; [|congruence]);
    pose proof (eff_trans _ _ _ _ _ _ _ _ F1 F5) as F; cbn [mcomp] in F; exact F.
Qed.

End NonLegacy.
