(* AlgoState.v — what the StateModel setters do to the entry table and the change set, in the form the
   algorithm-layer proofs use: the new entry table is the old one with ONE entry replaced by an explicit value
   (priorities of other entries aside), the change set changes at that entry only, the index invariant IdxJ
   of StateProofs is kept.  Non-legacy environment, id-style providers. *)
From Coq Require Import NArith List Bool Arith Lia.
From CS Require Import Sx Str PathModel StateModel StateProofs StatePathProofs.
Import ListNotations.

(* ------------------------------------------------------------------ lists *)
Lemma nth_list_upd_eq {T} (l : list T) n x y : nth_error l n = Some y -> nth_error (list_upd l n x) n = Some x.
Proof. revert n; induction l as [|a l IH]; intros [|n] H; simpl in *; try discriminate; auto. Qed.
Lemma nth_list_upd_neq {T} (l : list T) n m x : n <> m -> nth_error (list_upd l n x) m = nth_error l m.
Proof. revert n m; induction l as [|a l IH]; intros [|n] [|m] H; simpl; auto; try congruence. Qed.
Lemma length_list_upd {T} (l : list T) n x : length (list_upd l n x) = length l.
Proof. revert n; induction l as [|a l IH]; intros [|n]; simpl; auto. Qed.
Lemma list_upd_twice {T} (l : list T) n x y : list_upd (list_upd l n x) n y = list_upd l n y.
Proof. revert n; induction l as [|a l IH]; intros [|n]; simpl; auto. f_equal. apply IH. Qed.
Lemma list_upd_same {T} (l : list T) n x : nth_error l n = Some x -> list_upd l n x = l.
Proof. revert n; induction l as [|a l IH]; intros [|n] H; simpl in *; try discriminate; auto.
  - injection H as ->. reflexivity.
  - f_equal. auto. Qed.

Lemma set_mem_add x e l : set_mem x (set_add e l) = Nat.eqb x e || set_mem x l.
Proof.
  induction l as [|a l IH]; simpl.
  - rewrite orb_false_r. reflexivity.
  - destruct (Nat.eqb_spec e a) as [->|Hne].
    + simpl. destruct (Nat.eqb x a); reflexivity.
    + destruct (Nat.ltb e a); simpl.
      * reflexivity.
      * rewrite IH. destruct (Nat.eqb x a), (Nat.eqb x e); reflexivity.
Qed.
Lemma set_mem_del x e l : set_mem x (set_del e l) = negb (Nat.eqb x e) && set_mem x l.
Proof.
  unfold set_del. induction l as [|a l IH]; simpl.
  - rewrite andb_false_r. reflexivity.
  - destruct (Nat.eqb_spec e a) as [Heq|Hne]; simpl.
    + subst a. rewrite IH. destruct (Nat.eqb_spec x e); reflexivity.
    + rewrite IH. destruct (Nat.eqb_spec x a) as [Hxa|]; simpl; [|reflexivity].
      subst a. destruct (Nat.eqb_spec x e); [congruence|reflexivity].
Qed.

(* ------------------------------------------------------------------ plain projections *)
Lemma ents_raw_side s e sd f en : nth_error (ents s) e = Some en ->
  ents (raw_side s e sd f) = list_upd (ents s) e (ss en sd (f (gs en sd))).
Proof. intros H. unfold raw_side. rewrite H. reflexivity. Qed.
Lemma cset_raw_side s e sd f : cset (raw_side s e sd f) = cset s.
Proof. unfold raw_side. destruct (nth_error (ents s) e); reflexivity. Qed.
Lemma now_raw_side s e sd f : now (raw_side s e sd f) = now s.
Proof. unfold raw_side. destruct (nth_error (ents s) e); reflexivity. Qed.
Lemma lastch_raw_side s e sd f : lastch (raw_side s e sd f) = lastch s.
Proof. unfold raw_side. destruct (nth_error (ents s) e); reflexivity. Qed.
Lemma tape_raw_side s e sd f : tape (raw_side s e sd f) = tape s.
Proof. unfold raw_side. destruct (nth_error (ents s) e); reflexivity. Qed.

Lemma gs_ss_same en sd x : gs (ss en sd x) sd = x.
Proof. destruct sd; reflexivity. Qed.
Lemma gs_ss_other en sd x : gs (ss en sd x) (negb sd) = gs en (negb sd).
Proof. destruct sd; reflexivity. Qed.
Lemma ign_ss en sd x : e_ign (ss en sd x) = e_ign en.
Proof. destruct sd; reflexivity. Qed.
Lemma prio_ss en sd x : e_prio (ss en sd x) = e_prio en.
Proof. destruct sd; reflexivity. Qed.
Lemma ss_ss en sd x y : ss (ss en sd x) sd y = ss en sd y.
Proof. destruct sd; reflexivity. Qed.
Lemma ss_gs en sd : ss en sd (gs en sd) = en.
Proof. destruct en, sd; reflexivity. Qed.

(* ------------------------------------------------------------------ the effect record *)
(* s' is s with entry e replaced by en'; [m] says whether e is in the change set afterwards (None = as before);
   entries other than e keep everything; clock, last stamp and tape are untouched *)
Definition eff (s s' : state) (e : eid) (en' : entry) (m : option bool) : Prop :=
  ents s' = list_upd (ents s) e en' /\
  (forall x, set_mem x (cset s') = match m with
                                   | Some b => if Nat.eqb x e then b else set_mem x (cset s)
                                   | None => set_mem x (cset s)
                                   end) /\
  now s' = now s /\ lastch s' = lastch s /\ tape s' = tape s /\
  (IdxJ s -> IdxJ s').

Ltac eff_split := split; [|split; [|split; [|split; [|split]]]].

Lemma eff_nth s s' e en' m en : eff s s' e en' m -> nth_error (ents s) e = Some en -> nth_error (ents s') e = Some en'.
Proof. intros [H _] Hn. rewrite H. eapply nth_list_upd_eq; eauto. Qed.
Lemma eff_other s s' e en' m x : eff s s' e en' m -> x <> e -> nth_error (ents s') x = nth_error (ents s) x.
Proof. intros [H _] Hn. rewrite H. apply nth_list_upd_neq. congruence. Qed.
Lemma eff_length s s' e en' m : eff s s' e en' m -> length (ents s') = length (ents s).
Proof. intros [H _]. rewrite H. apply length_list_upd. Qed.

Definition mcomp (m1 m2 : option bool) : option bool := match m2 with Some b => Some b | None => m1 end.
Lemma eff_trans s s1 s2 e en1 en2 m1 m2 :
  eff s s1 e en1 m1 -> eff s1 s2 e en2 m2 -> eff s s2 e en2 (mcomp m1 m2).
Proof.
  intros (A1 & B1 & C1 & D1 & T1 & J1) (A2 & B2 & C2 & D2 & T2 & J2). eff_split.
  - rewrite A2, A1. apply list_upd_twice.
  - intros x. rewrite B2. destruct m2 as [b|]; simpl.
    + destruct (Nat.eqb x e) eqn:Ex; [reflexivity|]. rewrite B1. destruct m1; [rewrite Ex|]; reflexivity.
    + apply B1.
  - congruence.
  - congruence.
  - congruence.
  - auto.
Qed.
Lemma eff_refl s e en : nth_error (ents s) e = Some en -> eff s s e en None.
Proof.
  intros H. eff_split.
  - symmetry. apply list_upd_same. exact H.
  - intros x. reflexivity.
  - reflexivity.
  - reflexivity.
  - reflexivity.
  - auto.
Qed.

(* ------------------------------------------------------------------ set_plain *)
Lemma set_plain_eff s e sd f en :
  nth_error (ents s) e = Some en ->
  (forall x, s_oid (f x) = s_oid x /\ s_path (f x) = s_path x) ->
  exists s', set_plain s e sd f = Ok s' /\ eff s s' e (ss en sd (f (gs en sd))) None.
Proof.
  intros Hn Hf. unfold set_plain, get_ent. rewrite Hn. simpl. eexists. split; [reflexivity|].
  assert (Hn': nth_error (ents (dirty_add s e)) e = Some en) by exact Hn.
  eff_split.
  - rewrite (ents_raw_side _ _ _ _ en Hn'). reflexivity.
  - intros x. rewrite cset_raw_side. reflexivity.
  - rewrite now_raw_side. reflexivity.
  - rewrite lastch_raw_side. reflexivity.
  - rewrite tape_raw_side. reflexivity.
  - intros HJ. eapply (set_plain_pres s e sd f); [exact Hf|exact HJ|]. unfold set_plain, get_ent. rewrite Hn. reflexivity.
Qed.

(* ------------------------------------------------------------------ set_changed (ccb41ee code) *)
Section NonLegacy.
Variable E : env.
Hypothesis Hleg : legacy E = false.

(* the entry after `ent[sd].changed = v` and whether it is pending *)
Definition chg_pending (en : entry) (sd : bool) (v : chg) : bool :=
  (tchg v && tstr (s_oid (gs en sd))) || (tchg (s_chg (gs en (negb sd))) && tstr (s_oid (gs en (negb sd)))).
Definition chg_entry (en : entry) (sd : bool) (v : chg) : entry :=
  let en1 := if negb (chg_pending en sd v) && tchg (s_chg (gs en (negb sd))) && negb (tstr (s_oid (gs en (negb sd))))
             then ss en (negb sd) (w_chg (gs en (negb sd)) (CNum 0)) else en in
  ss en1 sd (w_chg (gs en1 sd) v).

Lemma negb_negb_neq sd : negb sd <> sd. Proof. destruct sd; discriminate. Qed.

Lemma set_changed_eff s e sd v en :
  nth_error (ents s) e = Some en ->
  exists s', set_changed E s e sd v = Ok s' /\ eff s s' e (chg_entry en sd v) (Some (chg_pending en sd v)).
Proof.
  intros Hn. unfold set_changed, run_cmd, fuel_of.
  replace (2 * length (ents s) + 8) with (S (2 * length (ents s) + 7)) by lia.
  cbn [exec]. unfold get_ent. rewrite Hn. cbn [bind]. rewrite Hleg.
  unfold chg_entry, chg_pending.
  set (x := gs en sd). set (y := gs en (negb sd)).
  destruct ((tchg v && tstr (s_oid x)) || (tchg (s_chg y) && tstr (s_oid y)))%bool eqn:Ec; cbn [bind negb andb].
  - eexists. split; [reflexivity|].
    assert (Hn': nth_error (ents (dirty_add (cs_add s e) e)) e = Some en) by exact Hn.
    eff_split.
    + rewrite (ents_raw_side _ _ _ _ en Hn'). reflexivity.
    + intros z. rewrite cset_raw_side. simpl. rewrite set_mem_add. destruct (Nat.eqb z e); reflexivity.
    + rewrite now_raw_side. reflexivity.
    + rewrite lastch_raw_side. reflexivity.
    + rewrite tape_raw_side. reflexivity.
    + intros HJ. apply (IdxJ_view s); [|exact HJ]. rewrite iview_raw_side; [reflexivity|]. intros; split; reflexivity.
  - destruct (tchg (s_chg y) && negb (tstr (s_oid y)))%bool eqn:Ey; cbn [bind].
    + eexists. split; [reflexivity|].
      assert (Hn1: nth_error (ents (cs_del s e)) e = Some en) by exact Hn.
      pose proof (ents_raw_side (cs_del s e) e (negb sd) (fun z => w_chg z (CNum 0%N)) en Hn1) as H1.
      set (s1 := raw_side (cs_del s e) e (negb sd) (fun z => w_chg z (CNum 0%N))) in *.
      assert (Hn2: nth_error (ents (dirty_add s1 e)) e = Some (ss en (negb sd) (w_chg y (CNum 0%N)))).
      { change (ents (dirty_add s1 e)) with (ents s1). rewrite H1. eapply nth_list_upd_eq; eauto. }
      eff_split.
      * rewrite (ents_raw_side _ _ _ _ _ Hn2). change (ents (dirty_add s1 e)) with (ents s1). rewrite H1, list_upd_twice. reflexivity.
      * intros z. rewrite cset_raw_side. change (cset (dirty_add s1 e)) with (cset s1). unfold s1. rewrite cset_raw_side. simpl.
        rewrite set_mem_del. destruct (Nat.eqb z e); reflexivity.
      * rewrite now_raw_side. change (now (dirty_add s1 e)) with (now s1). unfold s1. rewrite now_raw_side. reflexivity.
      * rewrite lastch_raw_side. change (lastch (dirty_add s1 e)) with (lastch s1). unfold s1. rewrite lastch_raw_side. reflexivity.
      * rewrite tape_raw_side. change (tape (dirty_add s1 e)) with (tape s1). unfold s1. rewrite tape_raw_side. reflexivity.
      * intros HJ. apply (IdxJ_view s); [|exact HJ]. rewrite iview_raw_side; [|intros; split; reflexivity].
        change (iview (dirty_add s1 e)) with (iview s1). unfold s1. rewrite iview_raw_side; [reflexivity|intros; split; reflexivity].
    + eexists. split; [reflexivity|].
      assert (Hn': nth_error (ents (dirty_add (cs_del s e) e)) e = Some en) by exact Hn.
      eff_split.
      * rewrite (ents_raw_side _ _ _ _ en Hn'). reflexivity.
      * intros z. rewrite cset_raw_side. simpl. rewrite set_mem_del. destruct (Nat.eqb z e); reflexivity.
      * rewrite now_raw_side. reflexivity.
      * rewrite lastch_raw_side. reflexivity.
      * rewrite tape_raw_side. reflexivity.
      * intros HJ. apply (IdxJ_view s); [|exact HJ]. rewrite iview_raw_side; [reflexivity|]. intros; split; reflexivity.
Qed.

End NonLegacy.
