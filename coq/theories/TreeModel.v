(* TreeModel.v — the reference file tree seen by users: what create / write / mkdir / rename /
   delete do to one side's tree (component paths, absolute from the account root), the view
   below a sync root, and the big-step expected outcomes used by the engine-level properties
   (mirror for C03, merge for C04).  Executable definitions only.
   Tied to the real MockProvider by the harness: after EVERY user operation of every explored
   run the real tree must equal [apply_op] of the previous one (harness/enginecheck.py). *)
From Coq Require Import NArith List Bool.
From CS Require Import Sx.
Import ListNotations.

Definition name := N.
Definition path := list name.          (* [] is the account root *)
Definition content := N.               (* unique token of a byte string (interned by the harness) *)

Inductive node := Dir | File (c : content).

Definition tree := list (path * node). (* finite map; the account root itself is implicit *)

Fixpoint path_eqb (a b : path) : bool :=
  match a, b with
  | [], [] => true
  | x :: a', y :: b' => N.eqb x y && path_eqb a' b'
  | _, _ => false
  end.

Fixpoint is_prefix (p q : path) : bool :=   (* p is a (non-strict) prefix of q *)
  match p, q with
  | [], _ => true
  | x :: p', y :: q' => N.eqb x y && is_prefix p' q'
  | _ :: _, [] => false
  end.

Definition strict_prefix (p q : path) : bool := is_prefix p q && negb (path_eqb p q).

Fixpoint lookup (t : tree) (p : path) : option node :=
  match t with
  | [] => None
  | (q, n) :: r => if path_eqb q p then Some n else lookup r p
  end.

Definition remove (t : tree) (p : path) : tree :=
  filter (fun e => negb (path_eqb (fst e) p)) t.

Definition set (t : tree) (p : path) (n : node) : tree := remove t p ++ [(p, n)].

Definition has_children (t : tree) (p : path) : bool :=
  existsb (fun e => strict_prefix p (fst e)) t.

Definition parent (p : path) : path := removelast p.

Definition is_dir (t : tree) (p : path) : bool :=
  match p with
  | [] => true
  | _ => match lookup t p with Some Dir => true | _ => false end
  end.

Definition parent_ok (t : tree) (p : path) : bool :=
  match p with [] => false | _ => is_dir t (parent p) end.

Definition same_kind (a b : node) : bool :=
  match a, b with Dir, Dir => true | File _, File _ => true | _, _ => false end.

(* move every entry below (or at) p to the corresponding place below q *)
Definition move (t : tree) (p q : path) : tree :=
  map (fun e => if is_prefix p (fst e) then (q ++ skipn (length p) (fst e), snd e) else e) t.

Inductive op :=
| Create (p : path) (c : content)
| Write (p : path) (c : content)
| Mkdir (p : path)
| Rename (p q : path)
| Delete (p : path).

(* A user operation that the provider refuses leaves the tree unchanged. *)
Definition apply_op (t : tree) (o : op) : tree :=
  match o with
  | Create p c =>
    match lookup t p with
    | Some _ => t
    | None => if parent_ok t p then set t p (File c) else t
    end
  | Write p c =>
    match lookup t p with
    | Some (File _) => set t p (File c)
    | _ => t
    end
  | Mkdir p =>
    if parent_ok t p then
      match lookup t p with None => set t p Dir | Some _ => t end
    else t
  | Delete p =>
    match lookup t p with
    | Some (File _) => remove t p
    | Some Dir => if has_children t p then t else remove t p
    | None => t
    end
  | Rename p q =>
    match lookup t p with
    | None => t
    | Some n =>
      if path_eqb p q then t
      else if is_prefix p q then t               (* into its own subtree: never generated *)
      else if negb (parent_ok t q) then t
      else
        match lookup t q with
        | None => move t p q
        | Some n' =>
          if same_kind n n' then
            match n' with
            | Dir => if has_children t q then t else move (remove t q) p q
            | File _ => t
            end
          else t
        end
    end
  end.

Definition apply_ops (t : tree) (os : list op) : tree := fold_left apply_op os t.

(* the tree below a sync root, with root-relative paths *)
Definition view (root : path) (t : tree) : tree :=
  flat_map (fun e => if strict_prefix root (fst e) then [(skipn (length root) (fst e), snd e)] else []) t.

(* everything that is not below the root (the root folder itself counts as outside content-wise) *)
Definition outside (root : path) (t : tree) : tree :=
  filter (fun e => negb (strict_prefix root (fst e))) t.

(* canonical order for comparison: insertion sort on paths *)
Fixpoint path_leb (a b : path) : bool :=
  match a, b with
  | [], _ => true
  | _ :: _, [] => false
  | x :: a', y :: b' => if N.ltb x y then true else if N.eqb x y then path_leb a' b' else false
  end.
Fixpoint insert_sorted (e : path * node) (t : tree) : tree :=
  match t with
  | [] => [e]
  | f :: r => if path_leb (fst e) (fst f) then e :: t else f :: insert_sorted e r
  end.
Definition canon (t : tree) : tree := fold_right insert_sorted [] t.

Definition node_eqb (a b : node) : bool :=
  match a, b with
  | Dir, Dir => true
  | File c, File d => N.eqb c d
  | _, _ => false
  end.
Fixpoint tree_eqb (a b : tree) : bool :=
  match a, b with
  | [], [] => true
  | (p, n) :: a', (q, m) :: b' => path_eqb p q && node_eqb n m && tree_eqb a' b'
  | _, _ => false
  end.
Definition same_tree (a b : tree) : bool := tree_eqb (canon a) (canon b).

(* ------------------------------------------------------------------ footprints (C04) *)
Definition touched (o : op) : list path :=
  match o with
  | Create p _ | Write p _ | Mkdir p | Delete p => [p]
  | Rename p q => [p; q]
  end.
Definition comparable (p q : path) : bool := is_prefix p q || is_prefix q p.
(* two operations are independent when no path one touches is an ancestor of, equal to, or a
   descendant of a path the other touches *)
Definition indep (a b : op) : bool :=
  forallb (fun p => forallb (fun q => negb (comparable p q)) (touched b)) (touched a).
Definition disjoint (xs ys : list op) : bool :=
  forallb (fun a => forallb (indep a) ys) xs.

(* expected outcome of concurrent non-conflicting changes: any interleaving; we take xs then ys *)
Definition merge3 (base : tree) (xs ys : list op) : tree := apply_ops (apply_ops base xs) ys.

(* ------------------------------------------------------------------ wire format *)
Definition un_path (x : sx) : option path := un_list un_atom x.
Definition un_node (x : sx) : option node :=
  match x with
  | L [] => Some Dir
  | L [A c] => Some (File c)
  | _ => None
  end.
Definition un_entry (x : sx) : option (path * node) :=
  match x with
  | L [p; n] => match un_path p, un_node n with Some p, Some n => Some (p, n) | _, _ => None end
  | _ => None
  end.
Definition un_tree (x : sx) : option tree := un_list un_entry x.
Definition un_op (x : sx) : option op :=
  match x with
  | L [A 0; p; A c] => option_map (fun p => Create p c) (un_path p)
  | L [A 1; p; A c] => option_map (fun p => Write p c) (un_path p)
  | L [A 2; p] => option_map Mkdir (un_path p)
  | L [A 3; p; q] => match un_path p, un_path q with Some p, Some q => Some (Rename p q) | _, _ => None end
  | L [A 4; p] => option_map Delete (un_path p)
  | _ => None
  end.
Definition sx_path (p : path) : sx := L (map A p).
Definition sx_node (n : node) : sx := match n with Dir => L [] | File c => L [A c] end.
Definition sx_tree (t : tree) : sx := L (map (fun e => L [sx_path (fst e); sx_node (snd e)]) (canon t)).
