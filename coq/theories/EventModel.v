(* EventModel.v — executable model of event intake on top of StateModel.v (C11):
   * EventManager._process_event (cloudsync/event.py): id-less events dropped, folder deletions
     matched by path, walk events ignored when hash and path equal the stored entry, missing
     path filled from the stored entry, the root checks (_notify_on_root_change_event with
     _make_event_accurate), SyncState.update, storage_commit (dirty set emptied);
   * SyncEntry.get_latest / SyncState.unconditionally_get_latest / unconditionally_get_no_info
     (cloudsync/sync/state.py): the re-read of the truth by id, driven by _last_gotten;
   * SideState._last_gotten itself (not part of StateModel): a list parallel to [ents].
   Definitions only.  Providers appear as: the answer of info_oid for the entry that is re-read
   ([pinfo], None = no such object), oid_is_path, the path convention (StateModel.env).
   Not modelled: Exists.CORRUPT, size, mtime (writes of them only mark the entry dirty),
   notifications, the storage back end behind storage_commit, provider exceptions. *)
From Coq Require Import NArith List Bool Arith.
From CS Require Import Sx Str PathModel StateModel.
Import ListNotations.

Record event := mkEv {
  ev_ot : option otype; ev_oid : option str; ev_path : option str; ev_hash : option N;
  ev_ex : option bool; ev_prior : option str; ev_acc : bool }.

(* provider.info_oid(oid): otype, hash, path; i_hoid = what provider.hash_oid(oid) would return *)
Record pinfo := mkInfo { i_ot : otype; i_hash : option N; i_path : str; i_hoid : option N }.

Record estate := mkES { st : state; gotten : list (N * N) }.

Inductive outcome := OApplied | ODropped | OWalkSame | ORootMissing.

(* ---------------------------------------------------------------- _last_gotten bookkeeping *)
Definition g_get (g : list (N * N)) (e : eid) (sd : bool) : N :=
  match nth_error g e with Some (a, b) => if sd then b else a | None => 0%N end.
Definition g_pad (g : list (N * N)) (n : nat) : list (N * N) := g ++ repeat (0%N, 0%N) (n - length g).
Definition g_set (g : list (N * N)) (e : eid) (sd : bool) (v : N) : list (N * N) :=
  match nth_error g e with
  | Some (a, b) => list_upd g e (if sd then (a, v) else (v, b))
  | None => g
  end.
Definition es_sync (s : state) (g : list (N * N)) : estate := mkES s (g_pad g (length (ents s))).

(* ---------------------------------------------------------------- _process_event *)
(* lookup_path(side, path) with stale=False *)
Definition lookup_path_live (s : state) (sd : bool) (p : option str) : list eid :=
  filter (ent_live s) (lookup_path_stale s sd p).

Definition side_of (s : state) (e : eid) (sd : bool) : option sidest :=
  match nth_error (ents s) e with Some en => Some (gs en sd) | None => None end.

(* event.oid, or for an id-less folder deletion the id of the first live entry filed under the path *)
Definition resolve_oid (s : state) (sd : bool) (ev : event) : option str :=
  match ev_oid ev with
  | Some o => Some o
  | None =>
    match ev_ex ev, ev_ot ev with
    | Some false, Some Dir =>
      if tstr (ev_path ev) then
        match lookup_path_live s sd (ev_path ev) with
        | e :: _ => match side_of s e sd with Some x => s_oid x | None => None end
        | [] => None
        end
      else None
    | _, _ => None
    end
  end.

(* from_walk: `already[side].hash != event.hash or already[side].path != event.path` is False *)
Definition walk_same (s : state) (sd : bool) (oid : option str) (ev : event) : bool :=
  match lookup_oid s sd oid with
  | Some e =>
    match side_of s e sd with
    | Some x => oN_eqb (s_hash x) (ev_hash ev) && ostr_eqb (s_path x) (ev_path ev)
    | None => false
    end
  | None => false
  end.

(* _fill_event_path *)
Definition fill_path (s : state) (sd : bool) (oid p : option str) : option str :=
  if tstr p then p else
  match lookup_oid s sd oid with
  | Some e => match side_of s e sd with Some x => s_path x | None => p end
  | None => p
  end.

Definition ev_with (ev : event) (oid path : option str) : event :=
  mkEv (ev_ot ev) oid path (ev_hash ev) (ev_ex ev) (ev_prior ev) (ev_acc ev).

(* _make_event_accurate *)
Definition make_accurate (ev : event) (ri : option pinfo) : event :=
  match ri with
  | Some i => mkEv (Some (i_ot i)) (ev_oid ev) (Some (i_path i)) (i_hash i) (Some true) (ev_prior ev) true
  | None => mkEv (ev_ot ev) (ev_oid ev) (ev_path ev) (ev_hash ev) (Some false) (ev_prior ev) true
  end.

(* _notify_on_root_change_event: None = CloudRootMissingError; otherwise the (possibly vetted) event *)
Definition root_check (E : env) (root : option (str * str)) (ri : option pinfo) (sd : bool) (ev : event) : option event :=
  match root with
  | Some (rp, ro) =>
    if tstr (Some rp) && tstr (Some ro) then
      let r1 :=
        if ostr_eqb (Some ro) (ev_oid ev) then
          let ev1 := if negb (ev_acc ev) && negb (match ev_ex ev with Some true => true | _ => false end)
                     then make_accurate ev ri else ev in
          match ev_ex ev1 with
          | Some false => None
          | _ =>
            match ev_path ev1 with
            | Some p => if tstr (Some p) && negb (paths_match (cvs E sd) rp p false) then None else Some ev1
            | None => Some ev1
            end
          end
        else Some ev in
      match r1 with
      | Some ev1 => if ostr_eqb (Some ro) (ev_prior ev1) then None else Some ev1
      | None => None
      end
    else Some ev
  | None => Some ev
  end.

(* SyncState.update, `ent[1-side] = _copy`: which entry receives the other side of which (SyncEntry.__setitem__
   copies the SideState object, _last_gotten included).  Same conditions as StateModel.update. *)
Definition upd_move (s : state) (sd : bool) (oid prior : option str) : option (eid * eid) :=
  if tstr prior && negb (ostr_eqb prior oid) then
    match lookup_oid s sd prior with
    | Some pe =>
      match nth_error (ents s) pe with
      | Some pn =>
        let ent0 := lookup_oid s sd oid in
        let reuse := match ent0 with
                     | None => is_discarded (e_ign pn) &&
                               (match s_ex (gs pn sd) with ExTrashed | ExMissing => true | _ => false end)
                     | Some _ => false
                     end in
        if reuse then None else
        if negb (is_discarded (e_ign pn)) then
          match ent0 with
          | Some e1 =>
            match nth_error (ents s) e1 with
            | Some n1 =>
              if negb (is_conflicted (e_ign n1)) &&
                 (thash (s_shash (gs pn sd)) || negb (thash (s_shash (gs n1 sd)))) &&
                 tstr (s_oid (gs n1 (negb sd))) && negb (tstr (s_oid (gs pn (negb sd))))
              then Some (pe, e1) else None
            | None => None
            end
          | None => None
          end
        else None
      | None => None
      end
    | None => None
    end
  else None.

Section Exec.
Variable E : env.
Variable roots : bool -> option (str * str).      (* (_root_path, _root_oid) of the side's event manager *)

Definition process_event (es : estate) (sd : bool) (ev : event) (from_walk : bool) (ri : option pinfo)
  : res (outcome * estate) :=
  let s := st es in
  match resolve_oid s sd ev with
  | None => Ok (ODropped, es)
  | Some o =>
    let oid := Some o in
    if from_walk && walk_same s sd oid ev then Ok (OWalkSame, es) else
    let ev1 := ev_with ev oid (fill_path s sd oid (ev_path ev)) in
    match root_check E (roots sd) ri sd ev1 with
    | None => Ok (ORootMissing, es)
    | Some ev2 =>
      let mv := upd_move s sd (ev_oid ev2) (ev_prior ev2) in
      s1 <- update E s sd (ev_ot ev2) (ev_oid ev2) (ev_path ev2) (ev_hash ev2) (ev_ex ev2) (ev_prior ev2) ;;
      let g0 := g_pad (gotten es) (length (ents s1)) in
      let g1 := match mv with
                | Some (dst, src) => g_set g0 dst (negb sd) (g_get g0 src (negb sd))
                | None => g0
                end in
      let g2 := if ev_acc ev2 then
                  match lookup_oid s1 sd (ev_oid ev2) with
                  | Some e => g_set g1 e sd (now s1 - 1000)%N
                  | None => g1
                  end
                else g1 in
      (* storage_commit: every dirty entry is written out, the dirty set is emptied *)
      Ok (OApplied, mkES (st_dirty s1 []) g2)
    end
  end.

(* ---------------------------------------------------------------- get_latest *)
Definition nchg (c : chg) : N := match c with CNum n => n | _ => 0%N end.

(* `ent[side].changed = time.time()` *)
Definition tick_changed (s : state) (e : eid) (sd : bool) : res state :=
  let t := (now s + 1000)%N in set_changed E (st_now s t) e sd (CNum t).

Definition no_info_ex (oipb : bool) (x : exst) : exst :=
  let x1 := match x with ExUnknown => if oipb then ExUnknown else ExTrashed | _ => x end in
  let x2 := match x1 with ExLikely => ExTrashed | _ => x1 end in
  match x2 with ExTrashed => ExTrashed | _ => if oipb then ExMissing else ExTrashed end.

(* SyncState.unconditionally_get_latest(ent, side) with the provider's answer [info] *)
Definition get_latest_side (s : state) (e : eid) (sd : bool) (info : option pinfo) : res state :=
  en <- get_ent s e ;;
  let x := gs en sd in
  match s_oid x with
  | None =>
    match s_ex x with
    | ExTrashed | ExMissing => Ok s
    | _ => set_plain s e sd (fun y => w_ex y ExUnknown)
    end
  | Some _ =>
    match info with
    | None => set_plain s e sd (fun y => w_ex y (no_info_ex (oip E sd) (s_ex x)))
    | Some i =>
      s1 <- (if oN_eqb (s_hash x) (i_hash i) then Ok s else
             sa <- set_plain s e sd (fun y => w_hash y (i_hash i)) ;;
             if ign_eqb (e_ign en) INone && negb (tchg (s_chg x)) then tick_changed sa e sd else Ok sa) ;;
      s2 <- set_plain s1 e sd (fun y => w_ex y ExExists) ;;
      s3 <- set_plain s2 e sd (fun y => w_otype y (i_ot i)) ;;
      en3 <- get_ent s3 e ;;
      s4 <- (match i_ot i, s_hash (gs en3 sd) with
             | File, None => set_plain s3 e sd (fun y => w_hash y (i_hoid i))
             | _, _ => Ok s3
             end) ;;
      let np := nps (cvs E sd) (i_path i) in
      s5 <- (if ostr_eqb (s_path (gs en3 sd)) (Some np) then Ok s4 else
             sa <- set_path E s4 e sd (Some np) ;;
             ena <- get_ent sa e ;;
             if ign_eqb (e_ign ena) INone && negb (tchg (s_chg (gs ena sd))) then tick_changed sa e sd else Ok sa) ;;
      (* size, mtime *)
      _ <- get_ent s5 e ;; Ok (dirty_add s5 e)
    end
  end.

Fixpoint latest_loop (s : state) (g : list (N * N)) (e : eid) (force : bool) (mx : N) (sides : list bool)
         (infos : bool -> option pinfo) : res (state * list (N * N)) :=
  match sides with
  | [] => Ok (s, g)
  | sd :: r =>
    if force || N.ltb (g_get g e sd) mx then
      s' <- get_latest_side s e sd (infos sd) ;;
      latest_loop s' (g_set (g_pad g (length (ents s'))) e sd mx) e force mx r infos
    else latest_loop s g e force mx r infos
  end.

(* SyncEntry.get_latest(force, sides) *)
Definition get_latest (es : estate) (e : eid) (force : bool) (sides : list bool) (infos : bool -> option pinfo) : res estate :=
  en <- get_ent (st es) e ;;
  let mx := fold_right N.max 0%N (map (fun sd => nchg (s_chg (gs en sd))) sides) in
  y <- latest_loop (st es) (g_pad (gotten es) (length (ents (st es)))) e force mx sides infos ;;
  let '(s', g') := y in Ok (es_sync s' g').

(* SyncEntry.is_latest_side *)
Definition is_latest_side (es : estate) (e : eid) (sd : bool) : bool :=
  match nth_error (ents (st es)) e with
  | Some en => N.leb (N.max (nchg (s_chg (e_l en))) (nchg (s_chg (e_r en)))) (g_get (gotten es) e sd)
  | None => true
  end.

(* ---------------------------------------------------------------- operations as data *)
Inductive eop :=
| EState (o : op)
| EEvent (sd : bool) (ev : event) (fw : bool) (ri : option pinfo)
| ELatest (e : eid) (force : bool) (sides : list bool) (iL iR : option pinfo)
| EMarkDirty (e : eid) (sd : bool).

Definition apply_eop (es : estate) (o : eop) : res (outcome * estate) :=
  match o with
  | EState so =>
    s' <- apply_op E (st es) so ;;
    let g0 := g_pad (gotten es) (length (ents s')) in
    let g1 := match so with
              | OMove d sr sd => g_set g0 d sd (g_get g0 sr sd)
              | OSplit e => g_set g0 (length (ents (st es))) false (g_get g0 e false)
              | OUpdate sd ot oid path h ex prior =>
                match upd_move (st es) sd oid prior with
                | Some (dst, src) => g_set g0 dst (negb sd) (g_get g0 src (negb sd))
                | None => g0
                end
              | _ => g0
              end in
    Ok (OApplied, mkES s' g1)
  | EEvent sd ev fw ri => process_event es sd ev fw ri
  | ELatest e force sides iL iR =>
    es' <- get_latest es e force sides (fun sd => if sd then iR else iL) ;; Ok (OApplied, es')
  | EMarkDirty e sd =>
    _ <- get_ent (st es) e ;; Ok (OApplied, mkES (st es) (g_set (g_pad (gotten es) (length (ents (st es)))) e sd 0%N))
  end.

Definition estep (es : estate) (ot : eop * list titem) : res (outcome * estate) :=
  y <- apply_eop (mkES (st_tape (st es) (snd ot)) (gotten es)) (fst ot) ;;
  let '(oc, es') := y in
  match tape (st es') with [] => Ok (oc, es') | _ => Err ETape end.

Fixpoint etrace (es : estate) (l : list (eop * list titem)) : list (res (outcome * estate)) :=
  match l with
  | [] => []
  | o :: r => match estep es o with
              | Ok (oc, es') => Ok (oc, es') :: etrace es' r
              | Err e => [Err e]
              end
  end.
End Exec.

Definition init_estate : estate := mkES init_state [].

(* ---------------------------------------------------------------- wire protocol *)
Definition sx_outcome (o : outcome) : sx :=
  A (match o with OApplied => 0 | ODropped => 1 | OWalkSame => 2 | ORootMissing => 3 end)%N.
Definition sx_gotten (g : list (N * N)) : sx := sx_list (fun ab => L [A (fst ab); A (snd ab)]) g.
Definition sx_estep (r : res (outcome * estate)) : sx :=
  match r with
  | Ok (oc, es) => L [sx_state (st es); sx_gotten (gotten es); sx_outcome oc]
  | Err e => L [sx_err e; L []; A 9%N]
  end.

Definition un_event (x : sx) : option event :=
  match x with
  | L [ot; oid; path; h; ex; prior; acc] =>
    obind (un_opt un_otype ot) (fun ot => obind (un_ostr oid) (fun oid => obind (un_ostr path) (fun path =>
    obind (un_oN h) (fun h => obind (un_opt un_bool ex) (fun ex => obind (un_ostr prior) (fun prior =>
    obind (un_bool acc) (fun acc => Some (mkEv ot oid path h ex prior acc))))))))
  | _ => None
  end.
Definition un_pinfo (x : sx) : option pinfo :=
  match x with
  | L [ot; h; p; ho] =>
    obind (un_otype ot) (fun ot => obind (un_oN h) (fun h => obind (un_str p) (fun p => obind (un_oN ho) (fun ho =>
    Some (mkInfo ot h p ho)))))
  | _ => None
  end.
Definition un_eop (x : sx) : option eop :=
  match x with
  | L [A 0%N; o] => omap EState (un_op o)
  | L [A 1%N; sd; ev; fw; ri] =>
    obind (un_bool sd) (fun sd => obind (un_event ev) (fun ev => obind (un_bool fw) (fun fw =>
    obind (un_opt un_pinfo ri) (fun ri => Some (EEvent sd ev fw ri)))))
  | L [A 2%N; e; force; sides; iL; iR] =>
    obind (un_nat e) (fun e => obind (un_bool force) (fun force => obind (un_list un_bool sides) (fun sides =>
    obind (un_opt un_pinfo iL) (fun iL => obind (un_opt un_pinfo iR) (fun iR => Some (ELatest e force sides iL iR))))))
  | L [A 3%N; e; sd] => obind (un_nat e) (fun e => obind (un_bool sd) (fun sd => Some (EMarkDirty e sd)))
  | _ => None
  end.
Definition un_eoptape (x : sx) : option (eop * list titem) :=
  match x with
  | L [o; t] => obind (un_eop o) (fun o => obind (un_list un_titem t) (fun t => Some (o, t)))
  | _ => None
  end.
Definition un_root (x : sx) : option (option (str * str)) :=
  un_opt (fun y => match y with
                   | L [p; o] => obind (un_str p) (fun p => obind (un_str o) (fun o => Some (p, o)))
                   | _ => None end) x.

(* run: L [env; L [rootL; rootR]; L ops-with-tapes] -> L [ L [state; gotten; outcome] after each op ... (error last) ] *)
Definition run (x : sx) : sx :=
  match x with
  | L [e; L [rl; rr]; ops] =>
    match un_env e, un_root rl, un_root rr, un_list un_eoptape ops with
    | Some E, Some rl, Some rr, Some ops =>
      L (map sx_estep (etrace E (fun sd => if sd then rr else rl) init_estate ops))
    | _, _, _, _ => sx_malformed
    end
  | _ => sx_malformed
  end.
