(* AlgoInit.v — the initial world (both roots paired, nothing else) satisfies the coupling invariant. *)
From Coq Require Import NArith List Bool Arith Lia.
From CS Require Import Sx Str PathModel PathLaws StateModel StateProofs ProvModel ProvProofs CacheDict AlgoModel AlgoCheck AlgoState AlgoProv AlgoInv.
Import ListNotations.
Local Open Scope N_scope.

Lemma PWF_init sd : PWF (prov_init false true sd).
Proof.
  assert (Hd: p_dict (prov_init false true sd) = [(KId 1, 1%nat); (KPath [root_name sd], 1%nat); (KId 0, 0%nat); (KPath [], 0%nat)]) by (destruct sd; reflexivity).
  assert (Hh: p_heap (prov_init false true sd) = [Build_obj [] (KId 0) KDir 0 true; Build_obj [root_name sd] (KId 1) KDir 0 true]) by (destruct sd; reflexivity).
  constructor.
  - destruct sd; reflexivity.
  - destruct sd; reflexivity.
  - destruct sd; reflexivity.
  - intros k o H. rewrite Hh in H. destruct k as [|[|k]]; simpl in H; [injection H as <-; reflexivity|injection H as <-; reflexivity|destruct k; discriminate].
  - intros n. rewrite Hd, Hh. destruct n as [|p]; [reflexivity|].
    destruct p as [p|p|]; [| |reflexivity].
    + assert (Hl: Nat.ltb (N.to_nat (N.pos p~1)) (length [Build_obj [] (KId 0) KDir 0 true; Build_obj [root_name sd] (KId 1) KDir 0 true]) = false).
      { apply Nat.ltb_ge. simpl length. lia. }
      rewrite Hl. reflexivity.
    + assert (Hl: Nat.ltb (N.to_nat (N.pos p~0)) (length [Build_obj [] (KId 0) KDir 0 true; Build_obj [root_name sd] (KId 1) KDir 0 true]) = false).
      { apply Nat.ltb_ge. simpl length. lia. }
      rewrite Hl. reflexivity.
  - intros q r H.
    rewrite Hd in H. rewrite Hh. cbn [dget key_eqb] in H.
    destruct (path_eqb q [root_name sd]) eqn:E1.
    + apply path_eqb_eq in E1. injection H as <-. eexists. split; [reflexivity|]. simpl. congruence.
    + destruct (path_eqb q []) eqn:E2; [|discriminate]. apply path_eqb_eq in E2. injection H as <-. eexists. split; [reflexivity|]. simpl. congruence.
  - intros k o H Hl. rewrite Hh in H. rewrite Hd. destruct k as [|[|k]]; simpl in H.
    + injection H as <-. destruct sd; reflexivity.
    + injection H as <-. destruct sd; reflexivity.
    + destruct k; discriminate.
  - destruct sd; simpl; lia.
Qed.

Lemma IdxJ_init t0 : IdxJ (state_init t0).
Proof.
  split.
  - intros e sd o H. unfold oid_of in H. destruct e as [|[|e]]; simpl in H.
    + assert (o = kstr (KId 1)) by (destruct sd; cbn in H; injection H as H; symmetry; exact H). subst o. split; [destruct sd; reflexivity|].
      intros p Hp _. unfold path_of in Hp. simpl in Hp. assert (p = pstr [root_name sd]) by (destruct sd; cbn in Hp; injection Hp as Hp; symmetry; exact Hp). subst p.
      destruct sd; reflexivity.
    + destruct sd; simpl in H; discriminate.
    + destruct e; discriminate.
  - split.
    + intros sd o e H. assert (Ho: oids (state_init t0) sd = [(kstr (KId 1), 0%nat)]) by (destruct sd; reflexivity).
      rewrite Ho in H. cbn [al_get] in H. destruct (str_eqb o (kstr (KId 1))) eqn:E1; [|discriminate].
      apply str_eqb_eq' in E1. injection H as <-. subst o. destruct sd; reflexivity.
    + intros sd p o e H. unfold slot_get in H.
      assert (Hp: paths (state_init t0) sd = [(pstr [root_name sd], [(kstr (KId 1), 0%nat)])]) by (destruct sd; reflexivity).
      rewrite Hp in H. cbn [al_get] in H. destruct (str_eqb p (pstr [root_name sd])) eqn:E1; [|discriminate].
      apply str_eqb_eq' in E1. cbn [al_get] in H. destruct (str_eqb o (kstr (KId 1))) eqn:E2; [|discriminate].
      apply str_eqb_eq' in E2. injection H as <-. subst o p. destruct sd; (split; [reflexivity|split; [reflexivity|discriminate]]).
Qed.

Theorem init_inv t0 lg0 : lg0 <= t0 + 1 -> Inv g0 (world_init (cfg_std 1) t0 lg0).
Proof.
  intros Hlg. unfold Inv.
  assert (Hev: forall sd, real_evl (world_init (cfg_std 1) t0 lg0) sd = []) by (intros sd; destruct sd; reflexivity).
  assert (Hheap: forall sd, length (p_heap (prov_of (world_init (cfg_std 1) t0 lg0) sd)) = 2%nat) by (intros sd; destruct sd; reflexivity).
  constructor.
  - reflexivity.
  - intros sd. destruct sd; apply PWF_init.
  - intros sd. constructor.
    + eexists. split; [destruct sd; reflexivity|]. destruct sd; repeat split; reflexivity.
    + eexists. split; [destruct sd; reflexivity|]. destruct sd; repeat split; reflexivity.
    + intros k ob Hk H. unfold obj_at in H. assert (nth_error (p_heap (prov_of (world_init (cfg_std 1) t0 lg0) sd)) k = None) by (apply nth_error_None; rewrite Hheap; exact Hk).
      congruence.
  - intros sd ev Hin. rewrite Hev in Hin. destruct Hin.
  - apply IdxJ_init.
  - reflexivity.
  - intros e en Hn Hf. destruct e as [|[|e]]; simpl in Hn.
    + injection Hn as <-. discriminate.
    + injection Hn as <-. discriminate.
    + destruct e; discriminate.
  - intros x H. discriminate.
  - intros e en Hn H. discriminate.
  - simpl. lia.
  - intros e en Hn. destruct e as [|[|e]]; simpl in Hn.
    + injection Hn as <-. split; [unfold maxchg, chgv; simpl; lia|]. intros sd. destruct sd; simpl; lia.
    + injection Hn as <-. split; [unfold maxchg, chgv; simpl; lia|]. intros sd. destruct sd; simpl; lia.
    + destruct e; discriminate.
  - eexists. eexists. split; [reflexivity|]. split; [reflexivity|]. repeat split; reflexivity.
  - intros sd k Hk Hlt. rewrite Hheap in Hlt. lia.
  - intros e en He Hn. exfalso. destruct e as [|[|e]]; [lia|lia|]. destruct e; discriminate.
  - intros sd k Hk Hlt. rewrite Hheap in Hlt. lia.
  - intros sd k cs H. destruct sd; discriminate.
  - intros e sd He. simpl in He. unfold getx. destruct e as [|[|e]]; [lia|lia|]. simpl. destruct e, sd; reflexivity.
  - intros e en sd He Hn. exfalso. destruct e as [|[|e]]; [lia|lia|]. destruct e; discriminate.
Qed.
