(* TreeSem.v — the effect of [apply_op] as a transformer of lookup functions ([sem]), and the
   three facts everything else follows from:
     frame     an operation changes nothing outside the paths at or below the ones it touches;
     locality  what it does at or below them depends only on the lookups there and at the parents
               of the touched paths (stated up to a shift by a root prefix, which also gives the
               view/apply_op commutation);
     closedness (and unique keys) are preserved. *)
From Coq Require Import NArith List Bool Lia Permutation.
From CS Require Import Sx TreeModel TreePaths TreeLookup.
Import ListNotations.

Definition lk := path -> option node.

Definition dirL (L : lk) (p : path) : bool :=
  match p with [] => true | _ => match L p with Some Dir => true | _ => false end end.
Definition pokL (L : lk) (p : path) : bool :=
  match p with [] => false | _ => dirL L (parent p) end.
Definition setL (L : lk) (p : path) (n : node) : lk :=
  fun r => if path_eqb p r then Some n else L r.
Definition removeL (L : lk) (p : path) : lk :=
  fun r => if path_eqb p r then None else L r.
Definition moveL (L : lk) (p q : path) : lk :=
  fun r => if is_prefix q r then L (p ++ skipn (length q) r)
           else if is_prefix p r then None else L r.

Definition sem (L : lk) (hc : path -> bool) (o : op) : lk :=
  match o with
  | Create p c =>
    match L p with
    | Some _ => L
    | None => if pokL L p then setL L p (File c) else L
    end
  | Write p c =>
    match L p with
    | Some (File _) => setL L p (File c)
    | _ => L
    end
  | Mkdir p =>
    if pokL L p then
      match L p with None => setL L p Dir | Some _ => L end
    else L
  | Delete p =>
    match L p with
    | Some (File _) => removeL L p
    | Some Dir => if hc p then L else removeL L p
    | None => L
    end
  | Rename p q =>
    match L p with
    | None => L
    | Some n =>
      if path_eqb p q then L
      else if is_prefix p q then L
      else if negb (pokL L q) then L
      else
        match L q with
        | None => moveL L p q
        | Some n' =>
          if same_kind n n' then
            match n' with
            | Dir => if hc q then L else moveL (removeL L q) p q
            | File _ => L
            end
          else L
        end
    end
  end.

(* ------------------------------------------------------------------ closed lookup functions *)
Definition closedL (L : lk) : Prop :=
  forall k, L k <> None -> k <> [] /\ dirL L (parent k) = true.

Lemma closed_closedL t : closed t <-> closedL (lookup t).
Proof. split; intros H; exact H. Qed.

Lemma dirL_nonnil (L : lk) p :
  p <> [] -> dirL L p = match L p with Some Dir => true | _ => false end.
Proof. intros H. destruct p; [congruence|reflexivity]. Qed.

Lemma pokL_nonnil (L : lk) p : p <> [] -> pokL L p = dirL L (parent p).
Proof. intros H. destruct p; [congruence|reflexivity]. Qed.

Lemma pokL_true_nonnil (L : lk) p : pokL L p = true -> p <> [].
Proof. destruct p; [discriminate|discriminate]. Qed.

Lemma dirL_true (L : lk) p : p <> [] -> dirL L p = true -> L p = Some Dir.
Proof.
  intros Hp H. rewrite dirL_nonnil in H by exact Hp.
  destruct (L p) as [[|c]|]; try discriminate. reflexivity.
Qed.

Lemma dirL_transfer (L L' : lk) x y :
  x <> [] -> y <> [] -> L' x = L y -> dirL L' x = dirL L y.
Proof. intros Hx Hy H. rewrite !dirL_nonnil by assumption. rewrite H. reflexivity. Qed.

Lemma dirL_same (L L' : lk) x : L' x = L x -> dirL L' x = dirL L x.
Proof. intros H. destruct x; [reflexivity|]. apply dirL_transfer; try discriminate. exact H. Qed.

Lemma closedL_ext (L L' : lk) : (forall r, L r = L' r) -> closedL L -> closedL L'.
Proof.
  intros He Hc k Hk. rewrite <- He in Hk. destruct (Hc k Hk) as [H1 H2]. split; [exact H1|].
  rewrite <- H2. apply dirL_same. symmetry. apply He.
Qed.

Lemma closedL_root (L : lk) : closedL L -> L [] = None.
Proof.
  intros Hc. destruct (L []) eqn:E; [|reflexivity].
  destruct (Hc []) as [H _]; congruence.
Qed.

(* every proper ancestor (other than the account root) of a stored object is a folder *)
Lemma closedL_ancestor (L : lk) p s :
  closedL L -> p <> [] -> s <> [] -> L (p ++ s) <> None -> L p = Some Dir.
Proof.
  intros Hc Hp. induction s as [|x s IH] using rev_ind; intros Hs Hl; [congruence|].
  destruct (Hc _ Hl) as [_ Hd]. rewrite app_assoc, parent_last in Hd.
  destruct s as [|y s].
  - rewrite app_nil_r in Hd. apply dirL_true; assumption.
  - apply IH; [discriminate|].
    apply dirL_true in Hd; [congruence|]. apply app_nonnil_l. exact Hp.
Qed.

Lemma closedL_none_below (L : lk) p k :
  closedL L -> p <> [] -> L p = None -> pre p k -> L k = None.
Proof.
  intros Hc Hp Hn [s Hs]. subst k. destruct s as [|x s]; [rewrite app_nil_r; exact Hn|].
  destruct (L (p ++ x :: s)) eqn:E; [|reflexivity].
  assert (H : L p = Some Dir).
  { apply closedL_ancestor with (s := x :: s); try assumption; [discriminate|congruence]. }
  congruence.
Qed.

Lemma closedL_file_leaf (L : lk) p c s :
  closedL L -> L p = Some (File c) -> s <> [] -> L (p ++ s) = None.
Proof.
  intros Hc Hf Hs. destruct (L (p ++ s)) eqn:E; [|reflexivity].
  assert (Hp : p <> []). { intros ->. rewrite closedL_root in Hf by exact Hc. discriminate. }
  assert (H : L p = Some Dir).
  { apply closedL_ancestor with (s := s); try assumption. congruence. }
  congruence.
Qed.

Lemma closedL_pok (L : lk) k : closedL L -> L k <> None -> pokL L k = true.
Proof. intros Hc Hk. destruct (Hc k Hk) as [H1 H2]. rewrite pokL_nonnil by exact H1. exact H2. Qed.

(* ------------------------------------------------------------------ apply_op computes sem *)
Lemma target_clear t q :
  closed t -> parent_ok t q = true -> lookup t q = None -> forall k, pre q k -> lookup t k = None.
Proof.
  intros Hc Hp Hq k Hk. apply (closedL_none_below (lookup t) q k); try assumption.
  intros ->. discriminate.
Qed.

Lemma apply_op_sem t o r :
  closed t -> lookup (apply_op t o) r = sem (lookup t) (has_children t) o r.
Proof.
  intros Hc. destruct o as [p c|p c|p|p q|p]; unfold apply_op, sem.
  - change (parent_ok t p) with (pokL (lookup t) p).
    destruct (lookup t p); [reflexivity|]. destruct (pokL (lookup t) p); [apply lookup_set|reflexivity].
  - destruct (lookup t p) as [[|c0]|]; try reflexivity. apply lookup_set.
  - change (parent_ok t p) with (pokL (lookup t) p).
    destruct (pokL (lookup t) p); [|reflexivity]. destruct (lookup t p); [reflexivity|apply lookup_set].
  - destruct (lookup t p) as [n|] eqn:Ep; [|reflexivity].
    destruct (path_eqb p q) eqn:Epq; [reflexivity|].
    destruct (is_prefix p q); [reflexivity|].
    change (pokL (lookup t) q) with (parent_ok t q).
    destruct (parent_ok t q) eqn:Epo; cbn [negb]; [|reflexivity].
    destruct (lookup t q) as [n'|] eqn:Eq.
    + destruct (same_kind n n'); [|reflexivity]. destruct n' as [|c']; [|reflexivity].
      destruct (has_children t q) eqn:Eh; [reflexivity|].
      rewrite lookup_move by (apply removed_target_clear; exact Eh).
      unfold moveL, removeL. rewrite !lookup_remove. reflexivity.
    + rewrite lookup_move by (apply target_clear; assumption). reflexivity.
  - destruct (lookup t p) as [[|c]|]; try reflexivity.
    + destruct (has_children t p); [reflexivity|apply lookup_remove].
    + apply lookup_remove.
Qed.

(* ------------------------------------------------------------------ unique keys are preserved *)
Lemma nodup_apply_op t o : closed t -> NoDup (map fst t) -> NoDup (map fst (apply_op t o)).
Proof.
  intros Hc Hn. destruct o as [p c|p c|p|p q|p]; unfold apply_op.
  - destruct (lookup t p); [exact Hn|]. destruct (parent_ok t p); [apply nodup_set|]; exact Hn.
  - destruct (lookup t p) as [[|c0]|]; try exact Hn. apply nodup_set. exact Hn.
  - destruct (parent_ok t p); [|exact Hn]. destruct (lookup t p); [exact Hn|apply nodup_set; exact Hn].
  - destruct (lookup t p) as [n|] eqn:Ep; [|exact Hn].
    destruct (path_eqb p q) eqn:Epq; [exact Hn|].
    destruct (is_prefix p q); [exact Hn|].
    destruct (parent_ok t q) eqn:Epo; cbn [negb]; [|exact Hn].
    destruct (lookup t q) as [n'|] eqn:Eq.
    + destruct (same_kind n n'); [|exact Hn]. destruct n' as [|c']; [|exact Hn].
      destruct (has_children t q) eqn:Eh; [exact Hn|].
      apply nodup_move; [apply removed_target_clear; exact Eh|apply nodup_remove; exact Hn].
    + apply nodup_move; [apply target_clear; assumption|exact Hn].
  - destruct (lookup t p) as [[|c]|]; try exact Hn.
    + destruct (has_children t p); [exact Hn|apply nodup_remove; exact Hn].
    + apply nodup_remove. exact Hn.
Qed.

(* ------------------------------------------------------------------ closedness is preserved *)
Lemma dirL_set_other (L : lk) p n x : x <> p -> dirL (setL L p n) x = dirL L x.
Proof.
  intros H. apply dirL_same. unfold setL.
  replace (path_eqb p x) with false; [reflexivity|]. symmetry. apply path_eqb_neq. congruence.
Qed.

Lemma dirL_remove_other (L : lk) p x : x <> p -> dirL (removeL L p) x = dirL L x.
Proof.
  intros H. apply dirL_same. unfold removeL.
  replace (path_eqb p x) with false; [reflexivity|]. symmetry. apply path_eqb_neq. congruence.
Qed.

Lemma closedL_set (L : lk) p n :
  closedL L -> pokL L p = true -> L p <> Some Dir -> closedL (setL L p n).
Proof.
  intros Hc Hpok Hnd k Hk. pose proof (pokL_true_nonnil _ _ Hpok) as Hp.
  unfold setL in Hk. destruct (path_eqb p k) eqn:E.
  - apply path_eqb_eq in E. subst k. split; [exact Hp|].
    rewrite dirL_set_other by (apply parent_neq; exact Hp).
    rewrite <- pokL_nonnil by exact Hp. exact Hpok.
  - apply path_eqb_neq in E. destruct (Hc k Hk) as [H1 H2]. split; [exact H1|].
    rewrite dirL_set_other; [exact H2|].
    intros Heq. rewrite Heq in H2. apply dirL_true in H2; [congruence|exact Hp].
Qed.

Lemma closedL_remove (L : lk) p :
  closedL L -> (forall s, s <> [] -> L (p ++ s) = None) -> closedL (removeL L p).
Proof.
  intros Hc Hch k Hk. unfold removeL in Hk. destruct (path_eqb p k) eqn:E; [congruence|].
  destruct (Hc k Hk) as [H1 H2]. split; [exact H1|].
  rewrite dirL_remove_other; [exact H2|].
  intros Heq. destruct (parent_split k H1) as [x Hx]. rewrite Heq in Hx.
  apply Hk. rewrite Hx. apply Hch. discriminate.
Qed.

Lemma closedL_move (L : lk) p q :
  closedL L -> L p <> None -> ~ pre p q -> pokL L q = true ->
  (forall k, pre q k -> L k = None) -> closedL (moveL L p q).
Proof.
  intros Hc Hp Hpq Hpok Hclear k Hk.
  pose proof (pokL_true_nonnil _ _ Hpok) as Hq.
  destruct (Hc p Hp) as [Hpn _].
  unfold moveL in Hk. destruct (is_prefix q k) eqn:Eqk.
  - apply is_prefix_iff in Eqk as [s Hs]. subst k. rewrite skipn_app_len in Hk.
    split; [apply app_nonnil_l; exact Hq|].
    destruct s as [|x s].
    + rewrite app_nil_r. rewrite <- Hpok. rewrite pokL_nonnil by exact Hq.
      apply dirL_same. unfold moveL.
      replace (is_prefix q (parent q)) with false.
      2:{ symmetry. apply is_prefix_false_iff. intros H.
          apply (parent_neq q Hq). apply pre_antisym; [apply pre_parent|exact H]. }
      replace (is_prefix p (parent q)) with false; [reflexivity|].
      symmetry. apply is_prefix_false_iff. intros H. apply Hpq.
      eapply pre_trans; [exact H|apply pre_parent].
    + destruct (Hc _ Hk) as [_ Hd].
      rewrite parent_app in Hd by discriminate. rewrite parent_app by discriminate.
      rewrite <- Hd. apply dirL_transfer; try (apply app_nonnil_l; assumption).
      unfold moveL. rewrite is_prefix_app, skipn_app_len. reflexivity.
  - destruct (is_prefix p k) eqn:Epk; [congruence|].
    apply is_prefix_false_iff in Eqk. apply is_prefix_false_iff in Epk.
    destruct (Hc k Hk) as [H1 H2]. split; [exact H1|].
    destruct (parent k) as [|y u] eqn:Eu; [reflexivity|].
    rewrite <- H2. apply dirL_same. unfold moveL.
    replace (is_prefix q (y :: u)) with false.
    2:{ symmetry. apply is_prefix_false_iff. intros H. apply Hclear in H.
        apply dirL_true in H2; [congruence|discriminate]. }
    replace (is_prefix p (y :: u)) with false; [reflexivity|].
    symmetry. apply is_prefix_false_iff. intros H. apply Epk.
    eapply pre_trans; [exact H|]. rewrite <- Eu. apply pre_parent.
Qed.

Definition hc_sound (L : lk) (hc : path -> bool) : Prop :=
  forall p s, hc p = false -> s <> [] -> L (p ++ s) = None.

Lemma closedL_sem (L : lk) hc o : closedL L -> hc_sound L hc -> closedL (sem L hc o).
Proof.
  intros Hc Hh. destruct o as [p c|p c|p|p q|p]; unfold sem.
  - destruct (L p) eqn:Ep; [exact Hc|]. destruct (pokL L p) eqn:Epo; [|exact Hc].
    apply closedL_set; try assumption. congruence.
  - destruct (L p) as [[|c0]|] eqn:Ep; try exact Hc.
    apply closedL_set; try assumption; [|congruence]. apply closedL_pok; [exact Hc|congruence].
  - destruct (pokL L p) eqn:Epo; [|exact Hc]. destruct (L p) eqn:Ep; [exact Hc|].
    apply closedL_set; try assumption. congruence.
  - destruct (L p) as [n|] eqn:Ep; [|exact Hc].
    destruct (path_eqb p q) eqn:Epq; [exact Hc|]. apply path_eqb_neq in Epq.
    destruct (is_prefix p q) eqn:Epre; [exact Hc|]. apply is_prefix_false_iff in Epre.
    destruct (pokL L q) eqn:Epo; cbn [negb]; [|exact Hc].
    pose proof (pokL_true_nonnil _ _ Epo) as Hq.
    destruct (L q) as [n'|] eqn:Eq.
    + destruct (same_kind n n'); [|exact Hc]. destruct n' as [|c']; [|exact Hc].
      destruct (hc q) eqn:Eh; [exact Hc|].
      apply closedL_move.
      * apply closedL_remove; [exact Hc|]. intros s Hs. apply Hh; assumption.
      * unfold removeL. replace (path_eqb q p) with false; [congruence|].
        symmetry. apply path_eqb_neq. congruence.
      * exact Epre.
      * rewrite pokL_nonnil by exact Hq. rewrite dirL_remove_other by (apply parent_neq; exact Hq).
        rewrite <- pokL_nonnil by exact Hq. exact Epo.
      * intros k [s Hs]. subst k. unfold removeL. destruct s as [|x s].
        -- rewrite app_nil_r, path_eqb_refl. reflexivity.
        -- destruct (path_eqb q (q ++ x :: s)); [reflexivity|]. apply Hh; [exact Eh|discriminate].
    + apply closedL_move; try assumption; [congruence|].
      intros k Hk. apply closedL_none_below with (p := q); assumption.
  - destruct (L p) as [[|c]|] eqn:Ep; try exact Hc.
    + destruct (hc p) eqn:Eh; [exact Hc|]. apply closedL_remove; [exact Hc|].
      intros s Hs. apply Hh; assumption.
    + apply closedL_remove; [exact Hc|]. intros s Hs. eapply closedL_file_leaf; eassumption.
Qed.

Lemma has_children_sound t : hc_sound (lookup t) (has_children t).
Proof. intros p s H Hs. apply has_children_false; assumption. Qed.

Lemma closed_apply_op t o : closed t -> closed (apply_op t o).
Proof.
  intros Hc. apply closed_closedL.
  apply closedL_ext with (L := sem (lookup t) (has_children t) o).
  - intros r. symmetry. apply apply_op_sem. exact Hc.
  - apply closedL_sem; [exact Hc|apply has_children_sound].
Qed.

Theorem wf_apply_op t o : wf t -> wf (apply_op t o).
Proof.
  intros [Hn Hc]. split; [apply nodup_apply_op; assumption|apply closed_apply_op; exact Hc].
Qed.

Lemma wf_apply_ops os : forall t, wf t -> wf (apply_ops t os).
Proof.
  induction os as [|o os IH]; intros t H; [exact H|].
  simpl. apply IH. apply wf_apply_op. exact H.
Qed.

(* ------------------------------------------------------------------ frame *)
Definition domb (o : op) (r : path) : bool := existsb (fun x => is_prefix x r) (touched o).

Lemma domb_iff o r : domb o r = true <-> exists x, In x (touched o) /\ pre x r.
Proof.
  unfold domb. rewrite existsb_exists. split; intros [x [H1 H2]]; exists x; split; try assumption;
    apply is_prefix_iff; exact H2.
Qed.

Lemma domb_false o r x : domb o r = false -> In x (touched o) -> ~ pre x r.
Proof.
  intros H Hin Hpre. assert (Ht : domb o r = true) by (apply domb_iff; exists x; tauto). congruence.
Qed.

Lemma prefix_false_eqb p r : is_prefix p r = false -> path_eqb p r = false.
Proof.
  intros H. apply path_eqb_neq. intros ->. rewrite is_prefix_refl in H. discriminate.
Qed.

Lemma sem_frame (L : lk) hc o r : domb o r = false -> sem L hc o r = L r.
Proof.
  unfold domb. destruct o as [p c|p c|p|p q|p]; simpl touched; simpl existsb;
    rewrite ?orb_false_r; intros H; unfold sem.
  - apply prefix_false_eqb in H.
    destruct (L p); [reflexivity|]. destruct (pokL L p); [|reflexivity]. unfold setL. rewrite H. reflexivity.
  - apply prefix_false_eqb in H.
    destruct (L p) as [[|c0]|]; try reflexivity. unfold setL. rewrite H. reflexivity.
  - apply prefix_false_eqb in H.
    destruct (pokL L p); [|reflexivity]. destruct (L p); [reflexivity|]. unfold setL. rewrite H. reflexivity.
  - apply orb_false_iff in H as [Hp Hq].
    destruct (L p); [|reflexivity]. destruct (path_eqb p q); [reflexivity|].
    destruct (is_prefix p q); [reflexivity|]. destruct (negb (pokL L q)); [reflexivity|].
    destruct (L q) as [n'|].
    + destruct (same_kind n n'); [|reflexivity]. destruct n'; [|reflexivity].
      destruct (hc q); [reflexivity|]. unfold moveL, removeL. rewrite Hq, Hp.
      rewrite (prefix_false_eqb _ _ Hq). reflexivity.
    + unfold moveL. rewrite Hq, Hp. reflexivity.
  - apply prefix_false_eqb in H.
    destruct (L p) as [[|c]|]; try reflexivity.
    + destruct (hc p); [reflexivity|]. unfold removeL. rewrite H. reflexivity.
    + unfold removeL. rewrite H. reflexivity.
Qed.

Lemma apply_op_frame t o r : closed t -> domb o r = false -> lookup (apply_op t o) r = lookup t r.
Proof. intros Hc H. rewrite apply_op_sem by exact Hc. apply sem_frame. exact H. Qed.

(* ------------------------------------------------------------------ locality, up to a root shift *)
Definition shift_op (root : path) (o : op) : op :=
  match o with
  | Create p c => Create (root ++ p) c
  | Write p c => Write (root ++ p) c
  | Mkdir p => Mkdir (root ++ p)
  | Rename p q => Rename (root ++ p) (root ++ q)
  | Delete p => Delete (root ++ p)
  end.

Lemma shift_op_nil o : shift_op [] o = o.
Proof. destruct o; reflexivity. Qed.

Lemma touched_shift root o : touched (shift_op root o) = map (app root) (touched o).
Proof. destruct o; reflexivity. Qed.

Lemma domb_shift root o r : domb (shift_op root o) (root ++ r) = domb o r.
Proof.
  unfold domb. rewrite touched_shift. induction (touched o) as [|x l IH]; simpl; [reflexivity|].
  rewrite is_prefix_app_cancel, IH. reflexivity.
Qed.

Section Shift.
  Variables (root : path) (L L' : lk) (hc hc' : path -> bool).
  Hypothesis Hroot : dirL L root = true.

  (* the small world L' agrees with the big world L (shifted by root) around a touched path x *)
  Definition agree_at (x : path) : Prop :=
    x <> [] /\
    (forall s, L' (x ++ s) = L (root ++ x ++ s)) /\
    (parent x <> [] -> L' (parent x) = L (root ++ parent x)) /\
    hc' x = hc (root ++ x).

  Lemma ag_L0 x : agree_at x -> L' x = L (root ++ x).
  Proof. intros (_ & H & _). specialize (H []). rewrite !app_nil_r in H. exact H. Qed.

  Lemma ag_pok x : agree_at x -> pokL L' x = pokL L (root ++ x).
  Proof.
    intros (Hx & _ & Hpar & _).
    rewrite !pokL_nonnil by (try apply app_nonnil_r; exact Hx).
    rewrite parent_app by exact Hx.
    destruct (parent x) as [|y u] eqn:Eu.
    - rewrite app_nil_r, Hroot. reflexivity.
    - apply dirL_transfer; [discriminate|apply app_nonnil_r; discriminate|].
      apply Hpar. discriminate.
  Qed.

  Lemma ag_dom ro r :
    (forall x, In x (touched ro) -> agree_at x) -> domb ro r = true -> L' r = L (root ++ r).
  Proof.
    intros Hag Hd. apply domb_iff in Hd as [x [Hin [s Hs]]]. subst r.
    destruct (Hag x Hin) as (_ & H & _). apply H.
  Qed.

  Lemma sem_shift ro r :
    (forall x, In x (touched ro) -> agree_at x) -> domb ro r = true ->
    sem L' hc' ro r = sem L hc (shift_op root ro) (root ++ r).
  Proof.
    intros Hag Hd. pose proof (ag_dom ro r Hag Hd) as Hr.
    destruct ro as [p c|p c|p|p q|p]; unfold shift_op, sem.
    - assert (Hp : agree_at p) by (apply Hag; simpl; tauto).
      rewrite (ag_L0 p Hp). destruct (L (root ++ p)); [exact Hr|].
      rewrite (ag_pok p Hp). destruct (pokL L (root ++ p)); [|exact Hr].
      unfold setL. rewrite path_eqb_app_cancel. destruct (path_eqb p r); [reflexivity|exact Hr].
    - assert (Hp : agree_at p) by (apply Hag; simpl; tauto).
      rewrite (ag_L0 p Hp). destruct (L (root ++ p)) as [[|c0]|]; try exact Hr.
      unfold setL. rewrite path_eqb_app_cancel. destruct (path_eqb p r); [reflexivity|exact Hr].
    - assert (Hp : agree_at p) by (apply Hag; simpl; tauto).
      rewrite (ag_pok p Hp). destruct (pokL L (root ++ p)); [|exact Hr].
      rewrite (ag_L0 p Hp). destruct (L (root ++ p)); [exact Hr|].
      unfold setL. rewrite path_eqb_app_cancel. destruct (path_eqb p r); [reflexivity|exact Hr].
    - assert (Hp : agree_at p) by (apply Hag; simpl; tauto).
      assert (Hq : agree_at q) by (apply Hag; simpl; tauto).
      unfold domb in Hd. simpl in Hd. rewrite orb_false_r in Hd.
      rewrite (ag_L0 p Hp). destruct (L (root ++ p)) as [n|]; [|exact Hr].
      rewrite path_eqb_app_cancel, is_prefix_app_cancel.
      destruct (path_eqb p q); [exact Hr|]. destruct (is_prefix p q); [exact Hr|].
      rewrite (ag_pok q Hq). destruct (pokL L (root ++ q)); cbn [negb]; [|exact Hr].
      rewrite (ag_L0 q Hq). destruct Hp as (_ & Hps & _). destruct Hq as (_ & _ & _ & Hqh).
      destruct (L (root ++ q)) as [n'|].
      + destruct (same_kind n n'); [|exact Hr]. destruct n' as [|c']; [|exact Hr].
        rewrite Hqh. destruct (hc (root ++ q)); [exact Hr|].
        unfold moveL, removeL. rewrite !is_prefix_app_cancel.
        destruct (is_prefix q r) eqn:E1.
        * apply is_prefix_iff in E1 as [s Hs]. subst r.
          rewrite skipn_app_len, skipn_app_len2, <- !app_assoc, path_eqb_app_cancel, Hps.
          reflexivity.
        * rewrite ?E1 in Hd. rewrite orb_false_r in Hd. rewrite Hd. reflexivity.
      + unfold moveL. rewrite !is_prefix_app_cancel.
        destruct (is_prefix q r) eqn:E1.
        * apply is_prefix_iff in E1 as [s Hs]. subst r.
          rewrite skipn_app_len, skipn_app_len2, <- !app_assoc, Hps. reflexivity.
        * rewrite ?E1 in Hd. rewrite orb_false_r in Hd. rewrite Hd. reflexivity.
    - assert (Hp : agree_at p) by (apply Hag; simpl; tauto).
      rewrite (ag_L0 p Hp). destruct Hp as (_ & _ & _ & Hph).
      destruct (L (root ++ p)) as [[|c]|]; try exact Hr.
      + rewrite Hph. destruct (hc (root ++ p)); [exact Hr|].
        unfold removeL. rewrite path_eqb_app_cancel. destruct (path_eqb p r); [reflexivity|exact Hr].
      + unfold removeL. rewrite path_eqb_app_cancel. destruct (path_eqb p r); [reflexivity|exact Hr].
  Qed.
End Shift.
