From Coq Require Import ExtrOcamlBasic.
From CS Require Import Sx CrashModel.
Definition run := CrashModel.run.
Extraction "extract/crash/model.ml" run.
