(* AlgoInv.v — the coupling invariant of the algorithm layer on fragment F1 (Prop form of AlgoCheck.inv_code),
   and its preservation by every step of AlgoModel.algo_step.
   The pending events are a parameter ([evl]: per side, the events not yet taken in) so that the same
   definition serves inside the intake loop, where the cursor has already moved but the events are still
   being applied one by one. *)
From Coq Require Import NArith List Bool Arith Lia.
From CS Require Import Sx Str PathModel PathLaws StateModel StateProofs ProvModel ProvProofs AlgoModel AlgoCheck AlgoState AlgoProv.
Import ListNotations.
Local Open Scope N_scope.

Definition evlist := bool -> list ProvModel.event.
Definition pd (evl : evlist) (sd : bool) (k : nat) : bool := existsb (ev_for k) (evl sd).
Definition real_evl (w : world) : evlist := fun sd => ProvModel.events_from (prov_of w sd).

Lemma pending_pd w sd k : pending w sd k = pd (real_evl w) sd k.
Proof. reflexivity. Qed.

Definition ostr_k (k : nat) : str := [N.of_nat k].
Lemma kstr_kid k : kstr (kid_of k) = ostr_k k. Proof. reflexivity. Qed.
Lemma oidk_ostr k : oidk (Some (ostr_k k)) = Some k.
Proof. unfold oidk, ostr_k. rewrite Nnat.Nat2N.id. reflexivity. Qed.
Lemma skey_ostr k : skey false (ostr_k k) = Some (kid_of k). Proof. reflexivity. Qed.
Lemma tstr_ostr k : tstr (Some (ostr_k k)) = true. Proof. reflexivity. Qed.

Definition flagP (evl : evlist) (en : StateModel.entry) (sd : bool) (k : nat) : Prop :=
  tchg (s_chg (gs en sd)) = true \/ pd evl sd k = true.

(* the state's picture of side sd agrees with the provider object ob *)
Definition freshP (x : sidest) (ob : ProvModel.obj) : Prop :=
  if ProvModel.o_exists ob
  then s_ex x = ExExists /\ s_hash x = Some (ProvModel.o_data ob) /\ s_path x = Some (pstr (ProvModel.o_path ob))
  else ex_in_gone (s_ex x) = true.

Definition popt (p : option str) (q : str) : Prop := p = None \/ p = Some q.
Definition hopt (h : option N) (cs : list N) : Prop := h = None \/ exists d, h = Some d /\ In d cs.

(* a side that has an id: heap cell k = object ob of that side's provider *)
Record FullOk (evl : evlist) (g : ghost) (w : world) (e : nat) (en : StateModel.entry) (sd : bool) (k : nat) (ob : ProvModel.obj) : Prop := {
  fo_trash : s_ex (gs en sd) = ExTrashed -> ProvModel.o_exists ob = false;
  fo_K : pd evl sd k = true \/ (x_lg (getx w e sd) < maxchg en) \/ freshP (gs en sd) ob;
  fo_path : popt (s_path (gs en sd)) (pstr (ProvModel.o_path ob));
  fo_spath : popt (s_spath (gs en sd)) (pstr (ProvModel.o_path ob));
  fo_disc : is_discarded (e_ign en) = true -> ProvModel.o_exists ob = false;
  fo_c1 : is_discarded (e_ign en) = false -> s_oid (gs en (negb sd)) = None -> flagP evl en sd k;
  fo_c2 : is_discarded (e_ign en) = false -> s_oid (gs en (negb sd)) <> None ->
          flagP evl en sd k \/
          (ProvModel.o_exists ob = true /\ s_spath (gs en sd) = Some (pstr (ProvModel.o_path ob)) /\
           s_shash (gs en sd) = Some (ProvModel.o_data ob));
  (* owner side: the object was made by a user of this side; cs = the contents written to it, latest first *)
  fo_owner : is_discarded (e_ign en) = false -> forall cs, g_get k (g_of g sd) = Some cs ->
          hopt (s_hash (gs en sd)) cs /\ hopt (s_shash (gs en sd)) cs /\
          (exists r, cs = ProvModel.o_data ob :: r) /\
          (s_path (gs en sd) <> None -> s_hash (gs en sd) <> None) /\
          (s_oid (gs en (negb sd)) <> None ->
             s_spath (gs en sd) <> None /\ s_shash (gs en sd) <> None /\
             (s_shash (gs en (negb sd)) = Some (ProvModel.o_data ob) \/
              (s_shash (gs en sd) <> Some (ProvModel.o_data ob) /\ flagP evl en sd k)) /\
             (forall k', s_oid (gs en (negb sd)) = Some (ostr_k k') -> g_get k' (g_of g (negb sd)) = None));
  (* mirror side: made and written by the engine only *)
  fo_mirror : is_discarded (e_ign en) = false -> g_get k (g_of g sd) = None ->
          ProvModel.o_exists ob = true /\ s_ex (gs en sd) = ExExists /\
          s_shash (gs en sd) = Some (ProvModel.o_data ob) /\ s_hash (gs en sd) = Some (ProvModel.o_data ob) /\
          s_spath (gs en sd) = Some (pstr (ProvModel.o_path ob)) /\ s_path (gs en sd) = Some (pstr (ProvModel.o_path ob)) /\
          exists k' ob', s_oid (gs en (negb sd)) = Some (ostr_k k') /\ obj_at w (negb sd) k' = Some ob' /\
                         leaf (ProvModel.o_path ob) = leaf (ProvModel.o_path ob') /\ g_get k' (g_of g (negb sd)) <> None
}.

Record SideOk (evl : evlist) (g : ghost) (w : world) (e : nat) (en : StateModel.entry) (sd : bool) : Prop := {
  so_file : s_otype (gs en sd) = File;
  so_nofrc : s_force (gs en sd) = false;
  so_empty : s_oid (gs en sd) = None ->
             tchg (s_chg (gs en sd)) = false /\ s_path (gs en sd) = None /\ s_hash (gs en sd) = None /\
             s_spath (gs en sd) = None /\ s_shash (gs en sd) = None;
  so_full : forall o, s_oid (gs en sd) = Some o ->
            exists k ob, o = ostr_k k /\ obj_at w sd k = Some ob /\ (2 <= k)%nat /\ FullOk evl g w e en sd k ob
}.

Record EntOk (evl : evlist) (g : ghost) (w : world) (e : nat) (en : StateModel.entry) : Prop := {
  eo_ign : e_ign en = INone \/ e_ign en = IDiscarded;
  eo_some : s_oid (e_l en) <> None \/ s_oid (e_r en) <> None;
  eo_side : forall sd, SideOk evl g w e en sd
}.

(* a provider of the fragment: account root, sync root, then files directly in the sync root *)
Record ShapeOk (w : world) (sd : bool) : Prop := {
  sh_root0 : exists r0, obj_at w sd 0 = Some r0 /\ ProvModel.o_exists r0 = true /\ ProvModel.o_path r0 = [] /\ ProvModel.o_kind r0 = ProvModel.KDir;
  sh_root1 : exists r1, obj_at w sd 1 = Some r1 /\ ProvModel.o_exists r1 = true /\ ProvModel.o_path r1 = [root_name sd] /\ ProvModel.o_kind r1 = ProvModel.KDir;
  sh_files : forall k ob, (2 <= k)%nat -> obj_at w sd k = Some ob ->
             ProvModel.o_kind ob = ProvModel.KFile /\ exists n, ProvModel.o_path ob = [root_name sd; n] /\ name_ok n = true
}.

(* what a pending event says about its object *)
Definition LogOk (evl : evlist) (w : world) (sd : bool) : Prop :=
  forall ev, In ev (evl sd) ->
    exists k ob, ProvModel.e_oid ev = kid_of k /\ obj_at w sd k = Some ob /\ ProvModel.e_otype ev = ProvModel.o_kind ob /\
                 (ProvModel.e_exists ev = false -> ProvModel.o_exists ob = false).

Definition root_ent_ok (s : StateModel.state) : Prop :=
  exists e0 e1, nth_error (ents s) 0 = Some e0 /\ nth_error (ents s) 1 = Some e1 /\
    tchg (s_chg (e_l e0)) = false /\ tchg (s_chg (e_r e0)) = false /\
    s_otype (e_l e0) = Dir /\ s_otype (e_r e0) = Dir /\
    s_oid (e_l e0) = Some (ostr_k 1) /\ s_oid (e_r e0) = Some (ostr_k 1) /\
    is_discarded (e_ign e1) = true /\ s_oid (e_l e1) = None /\ s_oid (e_r e1) = None /\
    tchg (s_chg (e_l e1)) = false /\ tchg (s_chg (e_r e1)) = false.

Record InvP (evl : evlist) (g : ghost) (w : world) : Prop := {
  i_cfg : w_cfg w = cfg_std 1;
  i_pwf : forall sd, PWF (prov_of w sd);
  i_shape : forall sd, ShapeOk w sd;
  i_log : forall sd, LogOk evl w sd;
  i_idx : IdxJ (w_st w);
  i_tape : tape (w_st w) = [];
  i_csc : cs_complete (w_st w);
  i_csb : forall x, set_mem x (cset (w_st w)) = true -> (x < length (ents (w_st w)))%nat;
  i_clk : lastch (w_st w) <= now (w_st w);
  i_clke : forall e en, nth_error (ents (w_st w)) e = Some en ->
           maxchg en <= now (w_st w) /\ forall sd, x_lg (getx w e sd) <= now (w_st w);
  i_roots : root_ent_ok (w_st w);
  i_notmp : forall e sd, x_tfile (getx w e sd) = None;
  i_cov : forall sd k, (2 <= k)%nat -> (k < length (ProvModel.p_heap (prov_of w sd)))%nat ->
          (exists e en, nth_error (ents (w_st w)) e = Some en /\ s_oid (gs en sd) = Some (ostr_k k)) \/ pd evl sd k = true;
  i_ents : forall e en, (2 <= e)%nat -> nth_error (ents (w_st w)) e = Some en -> EntOk evl g w e en;
  i_ghost : forall sd k cs, g_get k (g_of g sd) = Some cs -> (2 <= k)%nat /\ (k < length (ProvModel.p_heap (prov_of w sd)))%nat
}.

Definition Inv (g : ghost) (w : world) : Prop := InvP (real_evl w) g w.
