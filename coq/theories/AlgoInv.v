(* AlgoInv.v — the coupling invariant of the algorithm layer on fragment F1 (Prop form of AlgoCheck.inv_code),
   and its preservation by every step of AlgoModel.algo_step.
   The pending events are a parameter ([evl]: per side, the events not yet taken in) so that the same
   definition serves inside the intake loop, where the cursor has already moved but the events are still
   being applied one by one. *)
From Coq Require Import NArith List Bool Arith Lia.
From CS Require Import Sx Str PathModel PathLaws StateModel StateProofs ProvModel ProvProofs AlgoModel AlgoCheck AlgoState AlgoProv.
Import ListNotations.
Local Open Scope N_scope.

Definition evlist := bool -> list ProvModel.event.
Definition pd (evl : evlist) (sd : bool) (k : nat) : bool := existsb (ev_for k) (evl sd).
Definition real_evl (w : world) : evlist := fun sd => ProvModel.events_from (prov_of w sd).

Lemma pending_pd w sd k : pending w sd k = pd (real_evl w) sd k.
Proof. reflexivity. Qed.

Definition ostr_k (k : nat) : str := [N.of_nat k].
Lemma kstr_kid k : kstr (kid_of k) = ostr_k k. Proof. reflexivity. Qed.
Lemma oidk_ostr k : oidk (Some (ostr_k k)) = Some k.
Proof. unfold oidk, ostr_k. rewrite Nnat.Nat2N.id. reflexivity. Qed.
Lemma skey_ostr k : skey false (ostr_k k) = Some (kid_of k). Proof. reflexivity. Qed.
Lemma tstr_ostr k : tstr (Some (ostr_k k)) = true. Proof. reflexivity. Qed.
Lemma ostr_k_inj a b : ostr_k a = ostr_k b -> a = b.
Proof. unfold ostr_k. intros H. injection H as H. apply Nnat.Nat2N.inj. exact H. Qed.

Definition flagP (evl : evlist) (en : StateModel.entry) (sd : bool) (k : nat) : Prop :=
  tchg (s_chg (gs en sd)) = true \/ pd evl sd k = true.

(* the state's picture of side sd agrees with the provider object ob *)
Definition freshP (x : sidest) (ob : ProvModel.obj) : Prop :=
  if ProvModel.o_exists ob
  then s_ex x = ExExists /\ s_hash x = Some (ProvModel.o_data ob) /\ s_path x = Some (pstr (ProvModel.o_path ob))
  else ex_in_gone (s_ex x) = true.

Definition popt (p : option str) (q : str) : Prop := p = None \/ p = Some q.
Definition hopt (h : option N) (cs : list N) : Prop := h = None \/ exists d, h = Some d /\ In d cs.

(* a side that has an id: heap cell k = object ob of that side's provider *)
Record FullOk (evl : evlist) (g : ghost) (w : world) (e : nat) (en : StateModel.entry) (sd : bool) (k : nat) (ob : ProvModel.obj) : Prop := {
  fo_trash : s_ex (gs en sd) = ExTrashed -> ProvModel.o_exists ob = false;
  fo_K : is_discarded (e_ign en) = false -> pd evl sd k = true \/ (x_lg (getx w e sd) < maxchg en) \/ freshP (gs en sd) ob;
  fo_path : popt (s_path (gs en sd)) (pstr (ProvModel.o_path ob));
  fo_spath : popt (s_spath (gs en sd)) (pstr (ProvModel.o_path ob));
  fo_disc : is_discarded (e_ign en) = true -> ProvModel.o_exists ob = false;
  fo_c1 : is_discarded (e_ign en) = false -> s_oid (gs en (negb sd)) = None -> flagP evl en sd k;
  fo_c2 : is_discarded (e_ign en) = false -> s_oid (gs en (negb sd)) <> None ->
          flagP evl en sd k \/
          (ProvModel.o_exists ob = true /\ s_spath (gs en sd) = Some (pstr (ProvModel.o_path ob)) /\
           s_shash (gs en sd) = Some (ProvModel.o_data ob));
  (* owner side: the object was made by a user of this side; cs = the contents written to it, latest first *)
  fo_owner : is_discarded (e_ign en) = false -> forall cs, g_get k (g_of g sd) = Some cs ->
          hopt (s_hash (gs en sd)) cs /\ hopt (s_shash (gs en sd)) cs /\
          (exists r, cs = ProvModel.o_data ob :: r) /\
          (s_path (gs en sd) <> None -> s_hash (gs en sd) <> None) /\
          (s_oid (gs en (negb sd)) <> None ->
             s_spath (gs en sd) <> None /\ s_shash (gs en sd) <> None /\
             (s_shash (gs en (negb sd)) = Some (ProvModel.o_data ob) \/
              (s_shash (gs en sd) <> Some (ProvModel.o_data ob) /\ flagP evl en sd k)) /\
             (forall k', s_oid (gs en (negb sd)) = Some (ostr_k k') -> g_get k' (g_of g (negb sd)) = None));
  (* owner side, continued: never synchronised = no sync markers; a sync path was a path *)
  fo_owner2 : is_discarded (e_ign en) = false -> forall cs, g_get k (g_of g sd) = Some cs ->
          (s_oid (gs en (negb sd)) = None -> s_spath (gs en sd) = None /\ s_shash (gs en sd) = None) /\
          (s_spath (gs en sd) <> None -> s_path (gs en sd) <> None);
  (* mirror side: made and written by the engine only *)
  fo_mirror : is_discarded (e_ign en) = false -> g_get k (g_of g sd) = None ->
          ProvModel.o_exists ob = true /\ s_ex (gs en sd) = ExExists /\
          s_shash (gs en sd) = Some (ProvModel.o_data ob) /\ s_hash (gs en sd) = Some (ProvModel.o_data ob) /\
          s_spath (gs en sd) = Some (pstr (ProvModel.o_path ob)) /\ s_path (gs en sd) = Some (pstr (ProvModel.o_path ob)) /\
          exists k' ob', s_oid (gs en (negb sd)) = Some (ostr_k k') /\ obj_at w (negb sd) k' = Some ob' /\
                         leaf (ProvModel.o_path ob) = leaf (ProvModel.o_path ob') /\ g_get k' (g_of g (negb sd)) <> None
}.

Record SideOk (evl : evlist) (g : ghost) (w : world) (e : nat) (en : StateModel.entry) (sd : bool) : Prop := {
  so_file : s_otype (gs en sd) = File;
  so_nofrc : s_force (gs en sd) = false;
  so_empty : s_oid (gs en sd) = None ->
             tchg (s_chg (gs en sd)) = false /\ s_path (gs en sd) = None /\ s_hash (gs en sd) = None /\
             s_spath (gs en sd) = None /\ s_shash (gs en sd) = None;
  so_empty_ex : s_oid (gs en sd) = None -> is_discarded (e_ign en) = false -> s_ex (gs en sd) = ExUnknown;
  so_full : forall o, s_oid (gs en sd) = Some o ->
            exists k ob, o = ostr_k k /\ obj_at w sd k = Some ob /\ (2 <= k)%nat /\ FullOk evl g w e en sd k ob
}.

Record EntOk (evl : evlist) (g : ghost) (w : world) (e : nat) (en : StateModel.entry) : Prop := {
  eo_ign : e_ign en = INone \/ e_ign en = IDiscarded;
  eo_some : s_oid (e_l en) <> None \/ s_oid (e_r en) <> None;
  eo_side : forall sd, SideOk evl g w e en sd
}.

(* a provider of the fragment: account root, sync root, then files directly in the sync root *)
Record ShapeOk (w : world) (sd : bool) : Prop := {
  sh_root0 : exists r0, obj_at w sd 0 = Some r0 /\ ProvModel.o_exists r0 = true /\ ProvModel.o_path r0 = [] /\ ProvModel.o_kind r0 = ProvModel.KDir;
  sh_root1 : exists r1, obj_at w sd 1 = Some r1 /\ ProvModel.o_exists r1 = true /\ ProvModel.o_path r1 = [root_name sd] /\ ProvModel.o_kind r1 = ProvModel.KDir;
  sh_files : forall k ob, (2 <= k)%nat -> obj_at w sd k = Some ob ->
             ProvModel.o_kind ob = ProvModel.KFile /\ exists n, ProvModel.o_path ob = [root_name sd; n] /\ name_ok n = true
}.

(* what a pending event says about its object *)
Definition LogOk (evl : evlist) (w : world) (sd : bool) : Prop :=
  forall ev, In ev (evl sd) ->
    exists k ob, ProvModel.e_oid ev = kid_of k /\ (2 <= k)%nat /\ obj_at w sd k = Some ob /\
                 ProvModel.e_otype ev = ProvModel.o_kind ob /\
                 (ProvModel.e_exists ev = false -> ProvModel.o_exists ob = false).

Definition root_ent_ok (s : StateModel.state) : Prop :=
  exists e0 e1, nth_error (ents s) 0 = Some e0 /\ nth_error (ents s) 1 = Some e1 /\
    tchg (s_chg (e_l e0)) = false /\ tchg (s_chg (e_r e0)) = false /\
    s_otype (e_l e0) = Dir /\ s_otype (e_r e0) = Dir /\
    s_oid (e_l e0) = Some (ostr_k 1) /\ s_oid (e_r e0) = Some (ostr_k 1) /\
    is_discarded (e_ign e1) = true /\ s_oid (e_l e1) = None /\ s_oid (e_r e1) = None /\
    tchg (s_chg (e_l e1)) = false /\ tchg (s_chg (e_r e1)) = false /\
    set_mem 0%nat (cset s) = false /\ set_mem 1%nat (cset s) = false.

(* a side that has been refreshed since its entry last changed shows an existing object with its path, or a gone one *)
Definition ShapeS (x : sidest) : Prop := (s_ex x = ExExists /\ s_path x <> None) \/ ex_in_gone (s_ex x) = true.
Definition Seen (w : world) (e : nat) (en : StateModel.entry) (sd : bool) : Prop :=
  s_oid (gs en sd) <> None -> is_discarded (e_ign en) = false -> maxchg en <= x_lg (getx w e sd) -> ShapeS (gs en sd).

Record InvP (evl : evlist) (g : ghost) (w : world) : Prop := {
  i_cfg : w_cfg w = cfg_std 1;
  i_pwf : forall sd, PWF (prov_of w sd);
  i_shape : forall sd, ShapeOk w sd;
  i_log : forall sd, LogOk evl w sd;
  i_idx : IdxJ (w_st w);
  i_tape : tape (w_st w) = [];
  i_csc : cs_complete (w_st w);
  i_csb : forall x, set_mem x (cset (w_st w)) = true -> (x < length (ents (w_st w)))%nat;
  (* ... and exact: only entries with a change flag and an id are pending *)
  i_cse : forall e en, nth_error (ents (w_st w)) e = Some en -> set_mem e (cset (w_st w)) = true -> flagged en = true;
  i_clk : lastch (w_st w) <= now (w_st w);
  (* a punt moves a stamp one unit past the clock reading of its step; the next step's tick is 1000 units *)
  i_clke : forall e en, nth_error (ents (w_st w)) e = Some en ->
           maxchg en <= now (w_st w) + 1 /\ forall sd, x_lg (getx w e sd) <= now (w_st w) + 1;
  i_roots : root_ent_ok (w_st w);
  i_cov : forall sd k, (2 <= k)%nat -> (k < length (ProvModel.p_heap (prov_of w sd)))%nat ->
          (exists e en, nth_error (ents (w_st w)) e = Some en /\ s_oid (gs en sd) = Some (ostr_k k)) \/ pd evl sd k = true;
  i_ents : forall e en, (2 <= e)%nat -> nth_error (ents (w_st w)) e = Some en -> EntOk evl g w e en;
  (* an object the engine made has an entry from the moment it exists *)
  i_cove : forall sd k, (2 <= k)%nat -> (k < length (ProvModel.p_heap (prov_of w sd)))%nat -> g_get k (g_of g sd) = None ->
           exists e en, nth_error (ents (w_st w)) e = Some en /\ s_oid (gs en sd) = Some (ostr_k k);
  i_ghost : forall sd k cs, g_get k (g_of g sd) = Some cs ->
            (2 <= k)%nat /\ exists ob r, obj_at w sd k = Some ob /\ cs = ProvModel.o_data ob :: r;
  i_xlen : forall e sd, (length (ents (w_st w)) <= e)%nat -> getx w e sd = x0;
  i_seen : forall e en sd, (2 <= e)%nat -> nth_error (ents (w_st w)) e = Some en -> Seen w e en sd
}.

Definition Inv (g : ghost) (w : world) : Prop := InvP (real_evl w) g w.

(* ------------------------------------------------------------------ frames *)
Lemma flagP_mono evl evl' en sd k : (pd evl sd k = true -> pd evl' sd k = true) -> flagP evl en sd k -> flagP evl' en sd k.
Proof. intros H [A|B]; [left; exact A|right; apply H; exact B]. Qed.

(* an entry that a step does not touch stays fine when the step leaves its objects, its pending events (or adds some),
   its refresh stamps and its ghost records alone *)
Lemma FullOk_frame evl evl' g g' w w' e en sd k ob :
  FullOk evl g w e en sd k ob ->
  x_lg (getx w' e sd) = x_lg (getx w e sd) ->
  (pd evl sd k = true -> pd evl' sd k = true) ->
  g_get k (g_of g' sd) = g_get k (g_of g sd) ->
  (forall k', s_oid (gs en (negb sd)) = Some (ostr_k k') ->
     obj_at w' (negb sd) k' = obj_at w (negb sd) k' /\ g_get k' (g_of g' (negb sd)) = g_get k' (g_of g (negb sd))) ->
  FullOk evl' g' w' e en sd k ob.
Proof.
  intros F Hlg Hpd Hg Hother. destruct F as [f1 f2 f3 f4 f5 f6 f7 f8 f10 f9]. constructor; auto.
  - intros Hd. destruct (f2 Hd) as [A|[A|A]]; [left; auto|right; left; rewrite Hlg; exact A|right; right; exact A].
  - intros Hd Ho. eapply flagP_mono; [exact Hpd|auto].
  - intros Hd Ho. destruct (f7 Hd Ho) as [A|A]; [left; eapply flagP_mono; eauto|right; exact A].
  - intros Hd cs Hcs. rewrite Hg in Hcs. destruct (f8 Hd cs Hcs) as (A & B & C & D & E0).
    split; [exact A|]. split; [exact B|]. split; [exact C|]. split; [exact D|].
    intros Ho. destruct (E0 Ho) as (E1 & E2 & E3 & E4). split; [exact E1|]. split; [exact E2|]. split.
    + destruct E3 as [E3|(E3 & E5)]; [left; exact E3|right; split; [exact E3|eapply flagP_mono; eauto]].
    + intros k' Hk'. destruct (Hother k' Hk') as (_ & Hg'). rewrite Hg'. apply E4. exact Hk'.
  - intros Hd cs Hcs. rewrite Hg in Hcs. apply (f10 Hd cs Hcs).
  - intros Hd Hcs. rewrite Hg in Hcs. destruct (f9 Hd Hcs) as (A & B & C & D & E0 & F0 & (k' & ob' & G1 & G2 & G3 & G4)).
    repeat (split; [assumption|]). exists k', ob'. destruct (Hother k' G1) as (Ho' & Hg').
    split; [exact G1|]. split; [rewrite Ho'; exact G2|]. split; [exact G3|rewrite Hg'; exact G4].
Qed.

Lemma EntOk_frame evl evl' g g' w w' e en :
  EntOk evl g w e en ->
  (forall sd, x_lg (getx w' e sd) = x_lg (getx w e sd)) ->
  (forall sd k, s_oid (gs en sd) = Some (ostr_k k) ->
     obj_at w' sd k = obj_at w sd k /\ (pd evl sd k = true -> pd evl' sd k = true) /\
     g_get k (g_of g' sd) = g_get k (g_of g sd)) ->
  EntOk evl' g' w' e en.
Proof.
  intros [A B C] Hlg H. constructor; auto. intros sd. destruct (C sd) as [c1 c2 c3 c5 c4]. constructor; auto.
  intros o Ho. destruct (c4 o Ho) as (k & ob & -> & Hob & Hk & F). destruct (H sd k Ho) as (H1 & H2 & H3).
  exists k, ob. split; [reflexivity|]. split; [rewrite H1; exact Hob|]. split; [exact Hk|].
  eapply FullOk_frame; eauto. intros k' Hk'. destruct (H (negb sd) k' Hk') as (H4 & _ & H6). auto.
Qed.

(* ------------------------------------------------------------------ entries up to priority *)
Lemma sbp_gs a b sd : same_but_prio a b -> gs a sd = gs b sd.
Proof. intros (A & B & _). destruct sd; simpl; congruence. Qed.
Lemma sbp_maxchg a b : same_but_prio a b -> maxchg a = maxchg b.
Proof. intros (A & B & _). unfold maxchg, chgv. rewrite A, B. reflexivity. Qed.
Lemma sbp_flagged a b : same_but_prio a b -> flagged a = flagged b.
Proof. intros (A & B & _). unfold flagged. rewrite A, B. reflexivity. Qed.

Lemma FullOk_sbp evl g w e a b sd k ob : same_but_prio a b -> FullOk evl g w e a sd k ob -> FullOk evl g w e b sd k ob.
Proof.
  intros S F. destruct a as [l r i p], b as [l' r' i' p']. destruct S as (S1 & S2 & S3). simpl in S1, S2, S3. subst l' r' i'.
  destruct F as [f1 f2 f3 f4 f5 f6 f7 f8 f10 f9].
  constructor; [exact f1|exact f2|exact f3|exact f4|exact f5|exact f6|exact f7|exact f8|exact f10|exact f9].
Qed.
Lemma EntOk_sbp evl g w e a b : same_but_prio a b -> EntOk evl g w e a -> EntOk evl g w e b.
Proof.
  intros S [A B C]. pose proof S as S'. destruct a as [l r i p], b as [l' r' i' p']. destruct S as (S1 & S2 & S3). simpl in S1, S2, S3. subst l' r' i'.
  constructor; [exact A|exact B|].
  intros sd. destruct (C sd) as [c1 c2 c3 c5 c4]. constructor; [exact c1|exact c2|exact c3|exact c5|].
  intros o Ho. destruct (c4 o Ho) as (k & ob & X1 & X2 & X3 & X4). exists k, ob. repeat (split; [assumption|]).
  eapply FullOk_sbp; [exact S'|exact X4].
Qed.

(* ------------------------------------------------------------------ the master preservation lemma *)
(* One entry e (index >= 2) is touched: its value, its extension record, and the provider objects it points to may
   change, new objects may appear; every other entry keeps its fields (priorities aside), its objects, its pending
   events (more may come) and its ghost records. *)
Lemma inv_master evl evl' g g' w w' e en' :
  InvP evl g w ->
  w_cfg w' = w_cfg w ->
  (forall sd, PWF (prov_of w' sd) /\ ShapeOk w' sd /\ LogOk evl' w' sd) ->
  (2 <= e)%nat ->
  nth_error (ents (w_st w')) e = Some en' ->
  (length (ents (w_st w)) <= length (ents (w_st w')))%nat ->
  (forall x, (length (ents (w_st w)) <= x)%nat -> x <> e -> nth_error (ents (w_st w')) x = None) ->
  (forall x xn, x <> e -> nth_error (ents (w_st w)) x = Some xn ->
     exists xn', nth_error (ents (w_st w')) x = Some xn' /\ same_but_prio xn xn') ->
  (forall x, x <> e -> set_mem x (cset (w_st w')) = set_mem x (cset (w_st w))) ->
  (flagged en' = true -> set_mem e (cset (w_st w')) = true) ->
  (set_mem e (cset (w_st w')) = true -> flagged en' = true) ->
  now (w_st w) <= now (w_st w') -> lastch (w_st w') <= now (w_st w') ->
  maxchg en' <= now (w_st w') + 1 -> (forall sd, x_lg (getx w' e sd) <= now (w_st w') + 1) ->
  tape (w_st w') = [] -> IdxJ (w_st w') ->
  (forall x sd, x <> e -> getx w' x sd = getx w x sd) ->
  (forall x xn, x <> e -> (2 <= x)%nat -> nth_error (ents (w_st w)) x = Some xn ->
     forall sd k, s_oid (gs xn sd) = Some (ostr_k k) ->
       obj_at w' sd k = obj_at w sd k /\ (pd evl sd k = true -> pd evl' sd k = true) /\
       g_get k (g_of g' sd) = g_get k (g_of g sd)) ->
  (forall sd k, (2 <= k)%nat -> (k < length (ProvModel.p_heap (prov_of w' sd)))%nat ->
     (exists x xn, nth_error (ents (w_st w')) x = Some xn /\ s_oid (gs xn sd) = Some (ostr_k k)) \/ pd evl' sd k = true) ->
  (forall sd k, (2 <= k)%nat -> (k < length (ProvModel.p_heap (prov_of w' sd)))%nat -> g_get k (g_of g' sd) = None ->
     exists x xn, nth_error (ents (w_st w')) x = Some xn /\ s_oid (gs xn sd) = Some (ostr_k k)) ->
  (forall sd k cs, g_get k (g_of g' sd) = Some cs ->
     (2 <= k)%nat /\ exists ob r, obj_at w' sd k = Some ob /\ cs = ProvModel.o_data ob :: r) ->
  EntOk evl' g' w' e en' ->
  (forall sd, Seen w' e en' sd) ->
  InvP evl' g' w'.
Proof.
  intros I Hcfg Hprov He Hen' Hlen Hnew Hoth Hcs Hcse Hcsx Hnow Hlast Hmax Hlg Htape Hidx Hx Hframe Hcov Hcove Hghost HE Hseen.
  assert (Hold: forall x xn', x <> e -> nth_error (ents (w_st w')) x = Some xn' ->
                exists xn, nth_error (ents (w_st w)) x = Some xn /\ same_but_prio xn xn').
  { intros x xn' Hne Hx'. destruct (nth_error (ents (w_st w)) x) as [xn|] eqn:Ex.
    - destruct (Hoth x xn Hne Ex) as (y & Hy & S). exists xn. split; [reflexivity|]. congruence.
    - apply nth_error_None in Ex. rewrite (Hnew x Ex Hne) in Hx'. discriminate. }
  constructor.
  - rewrite Hcfg. apply (i_cfg _ _ _ I).
  - intros sd. apply (Hprov sd).
  - intros sd. apply (Hprov sd).
  - intros sd. apply (Hprov sd).
  - exact Hidx.
  - exact Htape.
  - intros x xn' Hx' Hfl. destruct (Nat.eq_dec x e) as [->|Hne].
    + assert (xn' = en') by congruence. subst. apply Hcse. exact Hfl.
    + destruct (Hold x xn' Hne Hx') as (xn & Hxn & S). rewrite (Hcs x Hne).
      apply (i_csc _ _ _ I x xn Hxn). rewrite (sbp_flagged _ _ S). exact Hfl.
  - intros x Hm. destruct (Nat.eq_dec x e) as [->|Hne].
    + apply nth_error_Some. congruence.
    + rewrite (Hcs x Hne) in Hm. pose proof (i_csb _ _ _ I x Hm). lia.
  - intros x xn' Hx' Hm. destruct (Nat.eq_dec x e) as [->|Hne].
    + assert (xn' = en') by congruence. subst. apply Hcsx. exact Hm.
    + destruct (Hold x xn' Hne Hx') as (xn & Hxn & S). rewrite (Hcs x Hne) in Hm.
      rewrite <- (sbp_flagged _ _ S). apply (i_cse _ _ _ I x xn Hxn Hm).
  - exact Hlast.
  - intros x xn' Hx'. destruct (Nat.eq_dec x e) as [->|Hne].
    + assert (xn' = en') by congruence. subst. split; [exact Hmax|exact Hlg].
    + destruct (Hold x xn' Hne Hx') as (xn & Hxn & S). destruct (i_clke _ _ _ I x xn Hxn) as (A & B).
      rewrite <- (sbp_maxchg _ _ S). split; [lia|]. intros sd. rewrite (Hx x sd Hne). specialize (B sd). lia.
  - destruct (i_roots _ _ _ I) as (e0 & e1 & H0 & H1 & R).
    destruct (Hoth 0%nat e0 ltac:(lia) H0) as (e0' & H0' & (S0l & S0r & S0i)).
    destruct (Hoth 1%nat e1 ltac:(lia) H1) as (e1' & H1' & (S1l & S1r & S1i)).
    exists e0', e1'. rewrite <- S0l, <- S0r, <- S1l, <- S1r, <- S1i. split; [exact H0'|]. split; [exact H1'|].
    rewrite (Hcs 0%nat ltac:(lia)), (Hcs 1%nat ltac:(lia)). exact R.
  - exact Hcov.
  - intros x xn' Hx2 Hx'. destruct (Nat.eq_dec x e) as [->|Hne].
    + assert (xn' = en') by congruence. subst. exact HE.
    + destruct (Hold x xn' Hne Hx') as (xn & Hxn & S). apply (EntOk_sbp _ _ _ _ xn xn' S).
      apply (EntOk_frame evl evl' g g' w w' x xn (i_ents _ _ _ I x xn Hx2 Hxn)).
      * intros sd. rewrite (Hx x sd Hne). reflexivity.
      * intros sd k Ho. apply (Hframe x xn Hne Hx2 Hxn sd k Ho).
  - exact Hcove.
  - exact Hghost.
  - intros x sd Hx'. destruct (Nat.eq_dec x e) as [->|Hne].
    + exfalso. assert (e < length (ents (w_st w')))%nat by (apply nth_error_Some; congruence). lia.
    + rewrite (Hx x sd Hne). apply (i_xlen _ _ _ I). lia.
  - intros x xn' sd Hx2 Hx'. destruct (Nat.eq_dec x e) as [->|Hne].
    + assert (xn' = en') by congruence. subst. apply Hseen.
    + destruct (Hold x xn' Hne Hx') as (xn & Hxn & S). pose proof (i_seen _ _ _ I x xn sd Hx2 Hxn) as X.
      unfold Seen in *. rewrite <- (sbp_gs _ _ sd S), (Hx x sd Hne), <- (sbp_maxchg _ _ S).
      destruct S as (_ & _ & S3). rewrite <- S3. exact X.
Qed.

(* ------------------------------------------------------------------ worlds that differ in the sync state only *)
Lemma prov_of_with_st w s sd : prov_of (with_st w s) sd = prov_of w sd. Proof. destruct sd; reflexivity. Qed.
Lemma prov_of_commit w sd : prov_of (commit w) sd = prov_of w sd. Proof. destruct sd; reflexivity. Qed.
Lemma prov_of_with_x w x sd : prov_of (with_x w x) sd = prov_of w sd. Proof. destruct sd; reflexivity. Qed.
Lemma prov_of_setx w e sd0 f sd : prov_of (setx w e sd0 f) sd = prov_of w sd. Proof. destruct sd; reflexivity. Qed.

Lemma ShapeOk_ext w w' sd : (forall k, obj_at w' sd k = obj_at w sd k) -> ShapeOk w sd -> ShapeOk w' sd.
Proof. intros H [A B C]. constructor; [rewrite H; exact A|rewrite H; exact B|intros k ob Hk Hob; rewrite H in Hob; apply (C k ob Hk Hob)]. Qed.
Lemma LogOk_ext evl evl' w w' sd : (forall k, obj_at w' sd k = obj_at w sd k) -> (forall ev, In ev (evl' sd) -> In ev (evl sd)) ->
  LogOk evl w sd -> LogOk evl' w' sd.
Proof.
  intros H Hin L ev Hev. destruct (L ev (Hin ev Hev)) as (k & ob & A & B & C & D). exists k, ob. rewrite H. auto.
Qed.

(* no temp file outlives an engine step (kept apart from InvP: it fails, for the entry in progress, inside a sync step) *)
Definition NoTmp (w : world) : Prop := forall e sd, x_tfile (getx w e sd) = None.
