(* FaultSched.v — a permanently failing entry does not stop the others (FaultModel part (c)).
   The scheduler is SchedModel's (C17): pick_sorted + punt.  A failing entry is punted every time it is picked
   (priority + 1), a good entry leaves the change set when it is picked.  For every table, every set of failing
   entries and every sequence of thresholds (clock readings): a good entry that stays eligible is picked within
   budget + 1 calls of change(), where budget counts, for every other entry, how often it can be picked first. *)
From Coq Require Import QArith Qround ZArith List Bool Lia Lqa Arith.
From CS Require Import Sx SchedModel SchedProofs FaultModel.
Import ListNotations.
Open Scope Q_scope.

(* ------------------------------------------------------------------ punt: total, priority + 1 *)
Lemma set_changed_total s v e : exists e', set_changed s v e = Ok e' /\ pri e' = pri e.
Proof.
  unfold set_changed.
  destruct ((truthy v && oid s e) || (truthy (ch (other s) e) && oid (other s) e)).
  - eexists. split; [reflexivity|]. destruct s; reflexivity.
  - destruct (truthy (ch (other s) e) && negb (oid (other s) e)).
    + eexists. split; [reflexivity|]. destruct s; reflexivity.
    + eexists. split; [reflexivity|]. destruct s; reflexivity.
Qed.
Lemma shift_total c s e : exists e', shift c s e = Ok e' /\ pri e' = pri e.
Proof.
  unfold shift. destruct (truthy (ch s e)).
  - apply set_changed_total.
  - exists e. split; reflexivity.
Qed.
Lemma set_priority_total c v e :
  exists e', set_priority c v e = Ok e' /\ (pri e' = v \/ (Qeq_bool (pri e) v = true /\ e' = e)).
Proof.
  unfold set_priority. destruct (Qeq_bool (pri e) v) eqn:E.
  - exists e. split; [reflexivity|]. right. split; reflexivity.
  - destruct (qltb (pri e) v && qltb 0 v).
    + destruct (shift_total c SL e) as [e1 [S1 _]]. destruct (shift_total c SR e1) as [e2 [S2 _]].
      rewrite S1. simpl. rewrite S2. simpl. eexists. split; [reflexivity|]. left. reflexivity.
    + eexists. split; [reflexivity|]. left. reflexivity.
Qed.
Lemma punt_total c e : exists e', punt c e = Ok e'.
Proof. unfold punt. destruct (set_priority_total c (fadd c (pri e) 1) e) as [e' [H _]]. exists e'. exact H. Qed.
Lemma punt_pri c e e' : exact c -> punt c e = Ok e' -> pri e' = pri e + 1.
Proof.
  intros Hx H. unfold punt in H. destruct (set_priority_total c (fadd c (pri e) 1) e) as [e2 [H2 Hp]].
  rewrite H in H2. inversion H2; subst e2. unfold fadd in Hp. rewrite Hx in Hp.
  destruct Hp as [Hp|[Hq _]]; [exact Hp|]. apply qeqb_true in Hq. lra.
Qed.

(* ------------------------------------------------------------------ floor *)
Lemma Qfloor_unique x z : inject_Z z <= x -> x < inject_Z (z + 1) -> Qfloor x = z.
Proof.
  intros Hl Hu. apply Z.le_antisymm.
  - apply Z.lt_succ_r. unfold Z.succ. rewrite Zlt_Qlt. pose proof (Qfloor_le x). lra.
  - rewrite <- (Qfloor_Z z). apply Qfloor_resp_le. exact Hl.
Qed.
Lemma Qfloor_minus_1 x : Qfloor (x - 1) = (Qfloor x - 1)%Z.
Proof.
  apply Qfloor_unique.
  - pose proof (Qfloor_le x). replace (Qfloor x - 1)%Z with (Qfloor x + (-1))%Z by lia.
    rewrite inject_Z_plus. change (inject_Z (-1)) with (-1 # 1). lra.
  - pose proof (Qlt_floor x). replace (Qfloor x - 1 + 1)%Z with (Qfloor x) by lia.
    rewrite inject_Z_plus in H. change (inject_Z 1) with (1 # 1) in H. lra.
Qed.
Lemma Qfloor_nonneg x : 0 <= x -> (0 <= Qfloor x)%Z.
Proof. intros H. change 0%Z with (Qfloor 0). apply Qfloor_resp_le. exact H. Qed.
Lemma Qfloor_nonpos x : x <= 0 -> (Qfloor x <= 0)%Z.
Proof. intros H. change 0%Z with (Qfloor 0). apply Qfloor_resp_le. exact H. Qed.

(* ------------------------------------------------------------------ tables *)
Definition tags (l : table) : list nat := map fst l.

Lemma tags_replace i e l : tags (replace_ent i e l) = tags l.
Proof.
  unfold tags, replace_ent. rewrite map_map. apply map_ext_in. intros x _.
  destruct (Nat.eqb (fst x) i) eqn:E; [apply Nat.eqb_eq in E; simpl; auto|reflexivity].
Qed.
Lemma remove_absent i l : ~ In i (tags l) -> remove_ent i l = l.
Proof.
  induction l as [|x r IH]; intros H; [reflexivity|]. simpl in *.
  destruct (Nat.eqb (fst x) i) eqn:E.
  - apply Nat.eqb_eq in E. exfalso. apply H. left. exact E.
  - simpl. f_equal. apply IH. intros Hin. apply H. right. exact Hin.
Qed.
Lemma replace_absent i e l : ~ In i (tags l) -> replace_ent i e l = l.
Proof.
  induction l as [|x r IH]; intros H; [reflexivity|]. simpl in *.
  destruct (Nat.eqb (fst x) i) eqn:E.
  - apply Nat.eqb_eq in E. exfalso. apply H. left. exact E.
  - f_equal. apply IH. intros Hin. apply H. right. exact Hin.
Qed.
Lemma in_tags i e l : In (i, e) l -> In i (tags l).
Proof. intros H. unfold tags. change i with (fst (i, e)). apply in_map. exact H. Qed.
Lemma tags_remove_incl i l j : In j (tags (remove_ent i l)) -> In j (tags l).
Proof.
  unfold tags, remove_ent. intros H. apply in_map_iff in H as [x [<- Hx]]. apply filter_In in Hx as [Hx _].
  apply in_map. exact Hx.
Qed.
Lemma nodup_remove i l : NoDup (tags l) -> NoDup (tags (remove_ent i l)).
Proof.
  induction l as [|x r IH]; intros H; [constructor|]. simpl in *. inversion H as [|? ? Hn Hr]; subst.
  destruct (Nat.eqb (fst x) i); simpl.
  - apply IH. exact Hr.
  - constructor; [|apply IH; exact Hr]. intros Hin. apply Hn. eapply tags_remove_incl. exact Hin.
Qed.
Lemma tag_unique l i e1 e2 : NoDup (tags l) -> In (i, e1) l -> In (i, e2) l -> e1 = e2.
Proof.
  induction l as [|x r IH]; intros Hnd H1 H2; [destruct H1|]. simpl in Hnd. inversion Hnd as [|? ? Hn Hr]; subst.
  destruct H1 as [H1|H1], H2 as [H2|H2].
  - congruence.
  - subst x. exfalso. apply Hn. simpl. eapply in_tags. exact H2.
  - subst x. exfalso. apply Hn. simpl. eapply in_tags. exact H1.
  - eapply IH; eauto.
Qed.
Lemma in_replace_other i e l h eh : h <> i -> In (h, eh) l -> In (h, eh) (replace_ent i e l).
Proof.
  intros Hne Hin. unfold replace_ent. apply in_map_iff. exists (h, eh). split; [|exact Hin]. simpl.
  destruct (Nat.eqb h i) eqn:E; [apply Nat.eqb_eq in E; congruence|reflexivity].
Qed.
Lemma in_remove_other i l h eh : h <> i -> In (h, eh) l -> In (h, eh) (remove_ent i l).
Proof.
  intros Hne Hin. unfold remove_ent. apply filter_In. split; [exact Hin|]. simpl.
  destruct (Nat.eqb h i) eqn:E; [apply Nat.eqb_eq in E; congruence|reflexivity].
Qed.

(* ------------------------------------------------------------------ the budget *)
Section Budget.
  Variable failing : nat -> bool.
  Variable h : nat.
  Variable ph : Q.
  Notation W := (weight failing ph).
  Notation B := (budget failing h ph).

  Lemma budget_remove i e l : NoDup (tags l) -> In (i, e) l -> i <> h ->
    (B (remove_ent i l) + W (i, e) = B l)%nat.
  Proof.
    induction l as [|x r IH]; intros Hnd Hin Hne; [destruct Hin|].
    simpl in Hnd. inversion Hnd as [|? ? Hn Hr]; subst. destruct Hin as [Hx|Hin].
    - subst x. simpl. rewrite Nat.eqb_refl. simpl.
      rewrite (remove_absent i r Hn).
      destruct (Nat.eqb i h) eqn:E; [apply Nat.eqb_eq in E; congruence|]. lia.
    - assert (Hxi : fst x <> i) by (intros Hxe; apply Hn; rewrite Hxe; eapply in_tags; exact Hin).
      simpl. destruct (Nat.eqb (fst x) i) eqn:E; [apply Nat.eqb_eq in E; congruence|]. simpl.
      specialize (IH Hr Hin Hne). lia.
  Qed.

  Lemma budget_replace i e e' l : NoDup (tags l) -> In (i, e) l -> i <> h ->
    (B (replace_ent i e' l) + W (i, e) = B l + W (i, e'))%nat.
  Proof.
    induction l as [|x r IH]; intros Hnd Hin Hne; [destruct Hin|].
    simpl in Hnd. inversion Hnd as [|? ? Hn Hr]; subst. destruct Hin as [Hx|Hin].
    - subst x. simpl. rewrite Nat.eqb_refl. simpl.
      fold (replace_ent i e' r). rewrite (replace_absent i e' r Hn).
      destruct (Nat.eqb i h) eqn:E; [apply Nat.eqb_eq in E; congruence|]. lia.
    - assert (Hxi : fst x <> i) by (intros Hxe; apply Hn; rewrite Hxe; eapply in_tags; exact Hin).
      simpl. destruct (Nat.eqb (fst x) i) eqn:E; [apply Nat.eqb_eq in E; congruence|].
      fold (replace_ent i e' r). specialize (IH Hr Hin Hne). lia.
  Qed.

  (* a failing entry that can still be picked before the good one (priority <= ph) loses one unit per punt *)
  Lemma weight_punt c i e e' : exact c -> failing i = true -> pri e <= ph -> punt c e = Ok e' ->
    W (i, e) = S (W (i, e')).
  Proof.
    intros Hx Hf Hle Hp. unfold weight. cbn [fst snd]. rewrite Hf. rewrite (punt_pri c e e' Hx Hp).
    assert (E : ph - (pri e + 1) == ph - pri e - 1) by ring.
    rewrite (Qfloor_comp _ _ E), Qfloor_minus_1.
    pose proof (Qfloor_nonneg (ph - pri e) ltac:(lra)) as Hz.
    replace (Qfloor (ph - pri e) - 1 + 1)%Z with (Qfloor (ph - pri e)) by lia.
    rewrite Z2Nat.inj_add by lia. simpl. lia.
  Qed.
  Lemma weight_good i e : failing i = false -> W (i, e) = 1%nat.
  Proof. intros Hf. unfold weight. cbn [fst snd]. rewrite Hf. reflexivity. Qed.
End Budget.

(* ------------------------------------------------------------------ the theorem *)
Theorem good_entry_served c failing : exact c ->
  forall ets l h eh,
  NoDup (tags l) -> In (h, eh) l -> failing h = false ->
  (forall et, In et ets -> eligible et eh = true) ->
  (budget failing h (pri eh) l < length ets)%nat ->
  In (PGood h) (fst (sched_run c failing ets l)).
Proof.
  intros Hx. induction ets as [|et r IH]; intros l h eh Hnd Hin Hg Hel Hb; [simpl in Hb; lia|].
  simpl. unfold sched_step.
  destruct (pick_sorted et l) as [[i e]|] eqn:P.
  2:{ exfalso. pose proof (proj1 (pick_none et l) P (h, eh) Hin) as Hn. simpl in Hn.
      rewrite (Hel et (or_introl eq_refl)) in Hn. discriminate. }
  destruct (picked_is_eligible _ _ _ P) as [Hil _].
  destruct (Nat.eq_dec i h) as [->|Hne].
  - rewrite Hg. destruct (sched_run c failing r (remove_ent h l)) as [ps lf]. simpl. left. reflexivity.
  - assert (Hle : pri e <= pri eh).
    { apply Qnot_lt_le. intros Hlt.
      apply (smaller_priority_first et l (i, e) (h, eh) P Hin); [apply Hel; left; reflexivity|exact Hlt]. }
    destruct (failing i) eqn:Hf.
    + destruct (punt_total c e) as [e' Hp]. rewrite Hp.
      pose proof (budget_replace failing h (pri eh) i e e' l Hnd Hil Hne) as Hbr.
      rewrite (weight_punt failing (pri eh) c i e e' Hx Hf Hle Hp) in Hbr.
      specialize (IH (replace_ent i e' l) h eh).
      destruct (sched_run c failing r (replace_ent i e' l)) as [ps lf]. simpl. right.
      apply IH.
      * rewrite tags_replace. exact Hnd.
      * apply in_replace_other; [congruence|exact Hin].
      * exact Hg.
      * intros et' H'. apply Hel. right. exact H'.
      * simpl in Hb. lia.
    + pose proof (budget_remove failing h (pri eh) i e l Hnd Hil Hne) as Hbr.
      rewrite (weight_good failing (pri eh) i e Hf) in Hbr.
      specialize (IH (remove_ent i l) h eh).
      destruct (sched_run c failing r (remove_ent i l)) as [ps lf]. simpl. right.
      apply IH.
      * apply nodup_remove. exact Hnd.
      * apply in_remove_other; [congruence|exact Hin].
      * exact Hg.
      * intros et' H'. apply Hel. right. exact H'.
      * simpl in Hb. lia.
Qed.

(* with the default priorities (prioritize() = 0 for new work, punts only raise them) every other entry costs at
   most one call: a good entry is served within |change set| calls however many entries fail, and for ever *)
Lemma budget_default failing h ph l :
  ph == 0 -> (forall x, In x l -> 0 <= pri (snd x)) ->
  (budget failing h ph l <= length l)%nat /\ (In h (tags l) -> budget failing h ph l < length l)%nat.
Proof.
  intros Hp. induction l as [|x r IH]; intros Hall; [split; [simpl; lia|intros []]|].
  assert (Hw : (weight failing ph x <= 1)%nat).
  { unfold weight. destruct (failing (fst x)); [|lia].
    assert (Hx : ph - pri (snd x) <= 0) by (pose proof (Hall x (or_introl eq_refl)); lra).
    pose proof (Qfloor_nonpos _ Hx). lia. }
  destruct (IH (fun y Hy => Hall y (or_intror Hy))) as [I1 I2]. simpl.
  split.
  - destruct (Nat.eqb (fst x) h); lia.
  - intros [Hh|Hh].
    + rewrite Hh, Nat.eqb_refl. lia.
    + specialize (I2 Hh). destruct (Nat.eqb (fst x) h); lia.
Qed.

Theorem good_entry_served_default c failing ets l h eh : exact c ->
  NoDup (tags l) -> In (h, eh) l -> failing h = false -> pri eh == 0 ->
  (forall x, In x l -> 0 <= pri (snd x)) ->
  (forall et, In et ets -> eligible et eh = true) ->
  (length l <= length ets)%nat ->
  In (PGood h) (fst (sched_run c failing ets l)).
Proof.
  intros Hx Hnd Hin Hg Hp Hall Hel Hlen. apply (good_entry_served c failing Hx ets l h eh); auto.
  destruct (budget_default failing h (pri eh) l Hp Hall) as [_ H]. specialize (H (in_tags _ _ _ Hin)). lia.
Qed.

(* the machine never reports the impossible result *)
Theorem sched_run_no_bad c failing ets : forall l, ~ In PBad (fst (sched_run c failing ets l)).
Proof.
  induction ets as [|et r IH]; intros l; [intros []|]. simpl. unfold sched_step.
  destruct (pick_sorted et l) as [[i e]|].
  - destruct (failing i).
    + destruct (punt_total c e) as [e' Hp]. rewrite Hp. specialize (IH (replace_ent i e' l)).
      destruct (sched_run c failing r (replace_ent i e' l)). simpl in *. intros [H|H]; [discriminate|auto].
    + specialize (IH (remove_ent i l)). destruct (sched_run c failing r (remove_ent i l)). simpl in *.
      intros [H|H]; [discriminate|auto].
  - specialize (IH l). destruct (sched_run c failing r l). simpl in *. intros [H|H]; [discriminate|auto].
Qed.

(* a failing entry is never picked while a good eligible entry has a smaller priority value *)
Theorem failing_behind_good et (l : table) i e h eh :
  In (h, eh) l -> eligible et eh = true -> pri eh < pri e ->
  pick_sorted et l <> Some (i, e).
Proof.
  intros Hin Hel Hlt P. apply (smaller_priority_first et l (i, e) (h, eh) P Hin Hel Hlt).
Qed.

(* non-vacuity: two good entries and one that fails for ever, all pending at priority 0, stamps 10, 11, 12 *)
Definition demo_table : table :=
  number 0 [ {| pri := 0; chL := Some 10; chR := None; oidL := true; oidR := true; inset := true; ntL := None; ntR := None |};
             {| pri := 0; chL := Some 11; chR := None; oidL := true; oidR := true; inset := true; ntL := None; ntR := None |};
             {| pri := 0; chL := Some 12; chR := None; oidL := true; oidR := true; inset := true; ntL := None; ntR := None |} ].
Lemma demo_run :
  fst (sched_run (cfg_exact (1 # 1000) (1 # 1000)) (fun i => Nat.eqb i 0) [20; 20; 20; 20] demo_table)
  = [PFail 0; PGood 1; PGood 2; PFail 0]%nat.
Proof. vm_compute. reflexivity. Qed.
