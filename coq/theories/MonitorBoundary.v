(* MonitorBoundary.v — C12, moves across the root boundary, for EVERY accepted one-sided trace.
   In a one-sided run (origin cfg = Some s0) no engine action changes the origin side at all:
   the ORIGIN guard keeps the view below the root, the OUTSIDE guard keeps everything else, and the
   two parts determine the tree.  Hence the origin tree is the initial tree with the user's ABSOLUTE
   operations applied (renames with one end outside the root included), and at a quiet report without
   conflicted names the peer's view is the root view of that tree: a move out of the root is seen by
   the peer as a deletion, a move into the root as a creation of the moved subtree. *)
From Coq Require Import NArith Arith List Bool Lia Permutation.
From CS Require Import Sx TreeModel Monitor MonitorProofs TreePaths TreeLookup TreeSem TreeCanon TreeProofs.
Import ListNotations.

(* ------------------------------------------------------------------ same_tree and well-formedness *)
Lemma same_tree_perm a b : a ~~ b -> Permutation a b.
Proof.
  unfold same_tree. rewrite tree_eqb_eq. intros H.
  eapply Permutation_trans; [apply Permutation_sym; apply canon_perm|]. rewrite H. apply canon_perm.
Qed.

Lemma same_tree_nodup a b : a ~~ b -> NoDup (map fst a) -> NoDup (map fst b).
Proof.
  intros H Hn. eapply Permutation_NoDup; [|exact Hn]. apply Permutation_map. apply same_tree_perm. exact H.
Qed.

Lemma same_tree_to_teq a b : NoDup (map fst a) -> a ~~ b -> teq a b.
Proof.
  intros Hn H. apply same_tree_iff_teq; [exact Hn|eapply same_tree_nodup; eassumption|exact H].
Qed.

(* a tree that compares equal to a well-formed tree is well-formed *)
Lemma same_tree_wf a b : wf a -> a ~~ b -> wf b.
Proof.
  intros [Hn Hc] H. split; [eapply same_tree_nodup; eassumption|].
  apply closed_closedL. apply closedL_ext with (L := lookup a); [|exact Hc].
  apply same_tree_to_teq; assumption.
Qed.

(* apply_op, apply_ops and view respect same_tree *)
Lemma apply_op_same_tree a b o : wf a -> a ~~ b -> apply_op a o ~~ apply_op b o.
Proof.
  intros Hw H. pose proof (same_tree_wf a b Hw H) as Hwb.
  apply same_tree_teq; try (apply wf_apply_op; assumption).
  apply apply_op_teq; try assumption. apply same_tree_to_teq; [exact (proj1 Hw)|exact H].
Qed.

Lemma apply_ops_same_tree os : forall a b, wf a -> a ~~ b -> apply_ops a os ~~ apply_ops b os.
Proof.
  induction os as [|o os IH]; intros a b Hw H; [exact H|].
  simpl. apply IH; [apply wf_apply_op; exact Hw|apply apply_op_same_tree; assumption].
Qed.

Lemma view_teq root a b : teq a b -> teq (view root a) (view root b).
Proof. intros H r. rewrite !lookup_view. destruct r; [reflexivity|apply H]. Qed.

Lemma view_same_tree root a b : wf a -> a ~~ b -> view root a ~~ view root b.
Proof.
  intros Hw H. pose proof (same_tree_wf a b Hw H) as Hwb.
  apply same_tree_teq; try (apply wf_view; assumption).
  apply view_teq. apply same_tree_to_teq; [exact (proj1 Hw)|exact H].
Qed.

(* ------------------------------------------------------------------ view + outside determine the tree *)
Lemma nodup_split_filter (g : path -> bool) (t : tree) :
  NoDup (map fst (filter (fun e => g (fst e)) t)) ->
  NoDup (map fst (filter (fun e => negb (g (fst e))) t)) ->
  NoDup (map fst t).
Proof.
  induction t as [|[k n] t IH]; simpl; intros H1 H2; [constructor|].
  assert (Hstep : forall (f : path -> bool), f k = true ->
            NoDup (map fst (filter (fun e => f (fst e)) ((k, n) :: t))) ->
            ~ In k (map fst t) /\ NoDup (map fst (filter (fun e => f (fst e)) t))).
  { intros f Hf Hnd. simpl in Hnd. rewrite Hf in Hnd. simpl in Hnd.
    inversion Hnd as [|y m Hnot Hnd']; subst. split; [|exact Hnd'].
    intros Hin. apply Hnot. apply in_map_iff in Hin as [[k' n'] [Hk Hin]]. simpl in Hk. subst k'.
    apply in_map_iff. exists (k, n'). split; [reflexivity|]. apply filter_In. split; [exact Hin|exact Hf]. }
  destruct (g k) eqn:Hg.
  - destruct (Hstep g Hg) as [Hnot Hnd]; [simpl; rewrite Hg; exact H1|].
    simpl in H2. constructor; [exact Hnot|]. apply IH; assumption.
  - destruct (Hstep (fun k => negb (g k))) as [Hnot Hnd]; [rewrite Hg; reflexivity|simpl; rewrite Hg; exact H2|].
    simpl in H1. constructor; [exact Hnot|]. apply IH; assumption.
Qed.

Lemma view_as_map root t :
  view root t = map (fun e => (skipn (length root) (fst e), snd e))
                    (filter (fun e => strict_prefix root (fst e)) t).
Proof.
  unfold view. induction t as [|[k n] t IH]; simpl; [reflexivity|].
  destruct (strict_prefix root k); simpl; rewrite IH; reflexivity.
Qed.

Lemma nodup_view_inv root t :
  NoDup (map fst (view root t)) -> NoDup (map fst (filter (fun e => strict_prefix root (fst e)) t)).
Proof.
  rewrite view_as_map, map_map.
  rewrite (map_ext _ (fun e : path * node => skipn (length root) (fst e))) by (intros e; reflexivity).
  rewrite <- (map_map (@fst path node) (@skipn name (length root))). apply NoDup_map_inv.
Qed.

Lemma nodup_from_parts root t :
  NoDup (map fst (view root t)) -> NoDup (map fst (outside root t)) -> NoDup (map fst t).
Proof.
  intros H1 H2. apply (nodup_split_filter (strict_prefix root)); [apply nodup_view_inv; exact H1|exact H2].
Qed.

(* the entries strictly below the root and the other entries partition the tree *)
Theorem tree_from_parts root a b :
  NoDup (map fst a) -> view root a ~~ view root b -> outside root a ~~ outside root b -> a ~~ b.
Proof.
  intros Hn Hv Ho.
  pose proof (nodup_view root a Hn) as Hnv.
  assert (Hno : NoDup (map fst (outside root a))) by (apply NoDup_map_filter; exact Hn).
  assert (Hnb : NoDup (map fst b)).
  { apply (nodup_from_parts root); eapply same_tree_nodup; eassumption. }
  apply same_tree_iff_teq; try assumption.
  pose proof (same_tree_to_teq _ _ Hnv Hv) as Tv. pose proof (same_tree_to_teq _ _ Hno Ho) as To.
  intros r. destruct (strict_prefix root r) eqn:E.
  - apply strict_prefix_iff in E as [s [Hs Hr]]. subst r.
    specialize (Tv s). rewrite !lookup_view in Tv. destruct s; [congruence|exact Tv].
  - specialize (To r). rewrite !lookup_outside, E in To. exact To.
Qed.

(* ------------------------------------------------------------------ the origin side of a one-sided run *)
Definition side_tree (s : side) (l r : tree) : tree := if s then r else l.
Definition obs_tree (x : obs) (s : side) : tree := if s then o_R x else o_L x.

(* the ABSOLUTE user operations on side s0 of a trace, in trace order *)
Fixpoint abs_user_ops (s0 : side) (tr : list obs) : list op :=
  match tr with
  | [] => []
  | x :: r => match o_ev x with
              | EUser s o => if side_eqb s s0 then o :: abs_user_ops s0 r else abs_user_ops s0 r
              | _ => abs_user_ops s0 r
              end
  end.

Lemma abs_user_ops_app s0 a b : abs_user_ops s0 (a ++ b) = abs_user_ops s0 a ++ abs_user_ops s0 b.
Proof.
  induction a as [|x a IH]; simpl; [reflexivity|].
  destruct (o_ev x) as [s o|s ts| |]; try exact IH.
  destruct (side_eqb s s0); [simpl; rewrite IH; reflexivity|exact IH].
Qed.

(* what one observation may do to the origin side: only a user operation on it changes it *)
Definition step_tree (s0 : side) (t : tree) (e : ev) : tree :=
  match e with
  | EUser s o => if side_eqb s s0 then apply_op t o else t
  | _ => t
  end.

Lemma apply_ops_step s0 t x r :
  apply_ops t (abs_user_ops s0 (x :: r)) = apply_ops (step_tree s0 t (o_ev x)) (abs_user_ops s0 r).
Proof.
  simpl. destruct (o_ev x) as [s o|s ts| |]; try reflexivity.
  simpl. destruct (side_eqb s s0); reflexivity.
Qed.

Lemma side_eqb_true a b : side_eqb a b = true -> a = b.
Proof. destruct a, b; simpl; congruence. Qed.
Lemma side_eqb_false a b : side_eqb a b = false -> b = negb a.
Proof. destruct a, b; simpl; congruence. Qed.

Lemma step_origin cfg s0 m x m1 :
  origin cfg = Some s0 -> wf (tree_of m s0) -> step_ok cfg m x m1 ->
  step_tree s0 (tree_of m s0) (o_ev x) ~~ tree_of m1 s0.
Proof.
  intros Ho Hw [_ Hs]. destruct (o_ev x) as [s o|s ts| |]; simpl.
  - destruct Hs as (Ht & Hother & _). destruct (side_eqb s s0) eqn:E.
    + apply side_eqb_true in E. subst s. exact Ht.
    + apply side_eqb_false in E. subst s0. exact Hother.
  - destruct Hs as (_ & HoL & HoR & Hother & Hor & _).
    destruct (side_eqb s s0) eqn:E.
    + apply side_eqb_true in E. subst s. specialize (Hor Ho).
      apply (tree_from_parts (root_of cfg s0)); [exact (proj1 Hw)|exact Hor|].
      unfold tree_of, root_of in *. destruct s0; assumption.
    + apply side_eqb_false in E. subst s0. exact Hother.
  - destruct Hs as (HL & HR & _). unfold tree_of. destruct s0; assumption.
  - destruct Hs as (HL & HR & _). unfold tree_of. destruct s0; assumption.
Qed.

Lemma wf_step_tree s0 t e : wf t -> wf (step_tree s0 t e).
Proof.
  intros H. destruct e as [s o|s ts| |]; simpl; try exact H.
  destruct (side_eqb s s0); [apply wf_apply_op; exact H|exact H].
Qed.

Lemma origin_tree_run cfg s0 :
  origin cfg = Some s0 ->
  forall m tr m', run_of cfg m tr m' -> wf (tree_of m s0) ->
    apply_ops (tree_of m s0) (abs_user_ops s0 tr) ~~ tree_of m' s0 /\ wf (tree_of m' s0).
Proof.
  intros Ho m tr m' Hrun. induction Hrun as [m|m x m1 r m2 Hs Hr IH]; intros Hw.
  - split; [apply same_tree_refl|exact Hw].
  - pose proof (step_origin cfg s0 m x m1 Ho Hw Hs) as H1.
    pose proof (wf_step_tree s0 _ (o_ev x) Hw) as Hw1.
    pose proof (same_tree_wf _ _ Hw1 H1) as Hw2.
    destruct (IH Hw2) as [IH1 IH2]. split; [|exact IH2].
    rewrite apply_ops_step. eapply same_tree_trans; [|exact IH1].
    apply apply_ops_same_tree; assumption.
Qed.

Lemma tree_of_init cfg l r s : tree_of (init_state cfg l r) s = side_tree s l r.
Proof. destruct s; reflexivity. Qed.

(* (1) the origin side's tree is the user history: after any prefix of an accepted one-sided run the
   observed tree of the origin side is the initial tree with the user's absolute operations applied *)
Theorem origin_tree_is_history cfg l r s0 :
  origin cfg = Some s0 -> wf (side_tree s0 l r) ->
  forall pre ma, run_of cfg (init_state cfg l r) pre ma ->
    tree_of ma s0 ~~ apply_ops (side_tree s0 l r) (abs_user_ops s0 pre).
Proof.
  intros Ho Hw pre ma Hrun. apply same_tree_sym. rewrite <- (tree_of_init cfg l r s0).
  apply (origin_tree_run cfg s0 Ho _ _ _ Hrun). rewrite tree_of_init. exact Hw.
Qed.

Lemma tree_of_observed m x s : observed m x -> tree_of m s = obs_tree x s.
Proof. intros [H1 H2]. unfold tree_of, obs_tree. destruct s; assumption. Qed.

Lemma run_of_snoc cfg m pre ma x mb :
  run_of cfg m pre ma -> step_ok cfg ma x mb -> run_of cfg m (pre ++ [x]) mb.
Proof.
  intros H. induction H as [m|m y m1 r m2 Hs Hr IH]; intros Hx; simpl.
  - econstructor; [exact Hx|constructor].
  - econstructor; [exact Hs|apply IH; exact Hx].
Qed.

(* the same in terms of what was observed: after every observation of an accepted one-sided trace *)
Theorem origin_tree_observed cfg l r tr m' s0 :
  origin cfg = Some s0 -> wf (side_tree s0 l r) ->
  accept cfg l r tr = inl m' ->
  forall pre x post, tr = pre ++ x :: post ->
    obs_tree x s0 ~~ apply_ops (side_tree s0 l r) (abs_user_ops s0 (pre ++ [x])).
Proof.
  intros Ho Hw Hacc pre x post Heq. apply accept_sound in Hacc.
  destruct (run_of_forall cfg (step_ok cfg) (fun _ _ _ H => H) _ _ _ Hacc pre x post Heq) as [ma [mb [Ha [Hb _]]]].
  rewrite <- (tree_of_observed mb x s0 (proj1 Hb)).
  apply (origin_tree_is_history cfg l r s0 Ho Hw). eapply run_of_snoc; eassumption.
Qed.

(* ------------------------------------------------------------------ (2) the peer mirrors the origin's root view *)
Lemma strip_id cfg t : has_conflicted cfg t = false -> strip_conflicted cfg t = t.
Proof.
  unfold has_conflicted, strip_conflicted. induction t as [|e t IH]; simpl; intros H; [reflexivity|].
  apply orb_false_iff in H as [H1 H2]. rewrite H1. simpl. f_equal. apply IH. exact H2.
Qed.

Theorem boundary_moves_mirror cfg l r tr m' s0 :
  origin cfg = Some s0 -> no_conflicted cfg = true -> wf (side_tree s0 l r) ->
  accept cfg l r tr = inl m' ->
  forall pre x post, tr = pre ++ x :: post -> o_ev x = EQuiet ->
    view (root_of cfg (negb s0)) (obs_tree x (negb s0)) ~~
    view (root_of cfg s0) (apply_ops (side_tree s0 l r) (abs_user_ops s0 pre)).
Proof.
  intros Ho Hnc Hw Hacc pre x post Heq Hq. apply accept_sound in Hacc.
  destruct (run_of_forall cfg (step_ok cfg) (fun _ _ _ H => H) _ _ _ Hacc pre x post Heq) as [ma [mb [Ha [Hb _]]]].
  destruct Hb as [Hobs Hb]. rewrite Hq in Hb. destruct Hb as (HL & HR & Hconv & _ & Hcf & _).
  destruct (Hcf Hnc) as [HcL HcR]. rewrite !strip_id in Hconv by assumption.
  destruct Hobs as [HoL HoR]. rewrite HoL, HoR in *.
  pose proof (origin_tree_is_history cfg l r s0 Ho Hw pre ma Ha) as Hhist.
  set (T := apply_ops (side_tree s0 l r) (abs_user_ops s0 pre)) in *.
  assert (HwT : wf T) by (apply wf_apply_ops; exact Hw).
  assert (Hx : T ~~ obs_tree x s0).
  { eapply same_tree_trans; [apply same_tree_sym; exact Hhist|].
    unfold tree_of, obs_tree. destruct s0; assumption. }
  pose proof (view_same_tree (root_of cfg s0) _ _ HwT Hx) as Hv.
  eapply same_tree_trans; [|apply same_tree_sym; exact Hv].
  unfold root_of, obs_tree. destruct s0; simpl; [exact Hconv|apply same_tree_sym; exact Hconv].
Qed.

(* ------------------------------------------------------------------ (3) one boundary rename before a quiet report *)
(* the peer's view at a quiet report, when o is the last user operation before it *)
Lemma quiet_after_last_op cfg l r tr m' s0 :
  origin cfg = Some s0 -> no_conflicted cfg = true -> wf (side_tree s0 l r) ->
  accept cfg l r tr = inl m' ->
  forall pre u mid x post o,
    tr = pre ++ u :: mid ++ x :: post -> o_ev u = EUser s0 o -> abs_user_ops s0 mid = [] -> o_ev x = EQuiet ->
    view (root_of cfg (negb s0)) (obs_tree x (negb s0)) ~~
    view (root_of cfg s0) (apply_op (apply_ops (side_tree s0 l r) (abs_user_ops s0 pre)) o).
Proof.
  intros Ho Hnc Hw Hacc pre u mid x post o Heq Hu Hmid Hq.
  assert (Heq' : tr = (pre ++ u :: mid) ++ x :: post) by (rewrite Heq, <- app_assoc; reflexivity).
  pose proof (boundary_moves_mirror cfg l r tr m' s0 Ho Hnc Hw Hacc _ x post Heq' Hq) as H.
  rewrite abs_user_ops_app in H. simpl in H. rewrite Hu in H.
  replace (side_eqb s0 s0) with true in H by (destruct s0; reflexivity).
  rewrite Hmid in H. unfold apply_ops in H. rewrite fold_left_app in H. simpl in H. exact H.
Qed.

(* explicit applicability: the source exists, is not an ancestor of the target, the target is free and
   its parent is a folder *)
Lemma rename_applicable t p q n :
  lookup t p = Some n -> is_prefix p q = false -> parent_ok t q = true -> lookup t q = None ->
  rename_ok t p q = true.
Proof.
  intros Hp Hpq Hpar Hq. unfold rename_ok. rewrite Hp, Hq, Hpq, Hpar.
  rewrite (prefix_false_eqb _ _ Hpq). reflexivity.
Qed.

Lemma rel_path_none root q : rel_path root q = None -> strict_prefix root q = false.
Proof. unfold rel_path. destruct (strict_prefix root q); [discriminate|reflexivity]. Qed.

(* a path that is not strictly below the root but is an ancestor-or-self of something below the
   root is an ancestor-or-self of the root *)
Lemma outside_pre_root root q r :
  strict_prefix root q = false -> pre q (root ++ r) -> pre q root.
Proof.
  intros Hs Hq. destruct (pre_comparable q root (root ++ r) Hq (pre_app root r)) as [H|[s H]]; [exact H|].
  subst q. apply strict_prefix_false_app in Hs. subst s. rewrite app_nil_r. apply pre_refl.
Qed.

Section OneMove.
  Variables (cfg : config) (l r : tree) (tr : list obs) (m' : mstate) (s0 : side).
  Hypothesis Horigin : origin cfg = Some s0.
  Hypothesis Hnoconf : no_conflicted cfg = true.
  Hypothesis Hwf : wf (side_tree s0 l r).
  Hypothesis Hacc : accept cfg l r tr = inl m'.
  Variables (pre : list obs) (u : obs) (mid : list obs) (x : obs) (post : list obs) (p q : path).
  Hypothesis Htr : tr = pre ++ u :: mid ++ x :: post.
  Hypothesis Hu : o_ev u = EUser s0 (Rename p q).
  Hypothesis Hmid : abs_user_ops s0 mid = [].
  Hypothesis Hx : o_ev x = EQuiet.

  Let root := root_of cfg s0.
  Let T := apply_ops (side_tree s0 l r) (abs_user_ops s0 pre).   (* origin tree before the move *)
  Let V := view (root_of cfg (negb s0)) (obs_tree x (negb s0)).  (* the peer's view at the quiet report *)

  Hypothesis Hok : rename_ok T p q = true.

  Lemma peer_view_lookup k : lookup V k = lookup (view root (apply_op T (Rename p q))) k.
  Proof.
    pose proof (quiet_after_last_op cfg l r tr m' s0 Horigin Hnoconf Hwf Hacc pre u mid x post _ Htr Hu Hmid Hx) as H.
    assert (HwT : wf T) by (apply wf_apply_ops; exact Hwf).
    assert (Hwv : wf (view root (apply_op T (Rename p q)))) by (apply wf_view, wf_apply_op; exact HwT).
    apply same_tree_sym in H. symmetry. exact (same_tree_to_teq _ _ (proj1 Hwv) H k).
  Qed.

  (* moving a synchronised object out of the root is a deletion for the peer *)
  Lemma move_out_is_delete rp :
    rel_path root p = Some rp -> rel_path root q = None ->
    (forall s, lookup V (rp ++ s) = None) /\
    (forall k, is_prefix rp k = false -> lookup V k = lookup (view root T) k).
  Proof.
    intros Hp Hq. apply rel_path_shift in Hp as [Hp Hrp]. apply rel_path_none in Hq.
    assert (HwT : wf T) by (apply wf_apply_ops; exact Hwf).
    destruct (rename_moves_subtree T p q HwT Hok) as (_ & Hgone & Hframe).
    destruct (rename_ok_sem T p q (proj2 HwT) Hok) as (_ & _ & Hqp & _).
    split.
    - intros s. rewrite peer_view_lookup, lookup_view.
      destruct (rp ++ s) eqn:E; [apply app_eq_nil in E; tauto|]. rewrite <- E.
      rewrite app_assoc, <- Hp. apply Hgone.
    - intros k Hk. rewrite peer_view_lookup, !lookup_view. destruct k as [|y k]; [reflexivity|].
      apply Hframe.
      + rewrite Hp. rewrite pre_app_cancel. apply is_prefix_false_iff. exact Hk.
      + intros Hpre. apply Hqp. eapply pre_trans; [eapply outside_pre_root; eassumption|].
        rewrite Hp. apply pre_app.
  Qed.

  (* moving an object into the root is a creation for the peer: the whole moved subtree appears *)
  Lemma move_in_is_create rq :
    rel_path root p = None -> rel_path root q = Some rq ->
    (forall s, lookup V (rq ++ s) = lookup T (p ++ s)) /\
    (forall k, is_prefix rq k = false -> lookup V k = lookup (view root T) k).
  Proof.
    intros Hp Hq. apply rel_path_shift in Hq as [Hq Hrq]. apply rel_path_none in Hp.
    assert (HwT : wf T) by (apply wf_apply_ops; exact Hwf).
    destruct (rename_moves_subtree T p q HwT Hok) as (Hnew & _ & Hframe).
    destruct (rename_ok_sem T p q (proj2 HwT) Hok) as (_ & Hpq & _ & _).
    split.
    - intros s. rewrite peer_view_lookup, lookup_view.
      destruct (rq ++ s) eqn:E; [apply app_eq_nil in E; tauto|]. rewrite <- E.
      rewrite app_assoc, <- Hq. apply Hnew.
    - intros k Hk. rewrite peer_view_lookup, !lookup_view. destruct k as [|y k]; [reflexivity|].
      apply Hframe.
      + intros Hpre. apply Hpq. eapply pre_trans; [eapply outside_pre_root; eassumption|].
        rewrite Hq. apply pre_app.
      + rewrite Hq. rewrite pre_app_cancel. apply is_prefix_false_iff. exact Hk.
  Qed.
End OneMove.

(* ------------------------------------------------------------------ examples (non-vacuity) *)
Local Open Scope N_scope.

(* roots /1 (local, the origin side) and /2 (remote); /5 is a folder outside the local root *)
Definition exb_cfg : config :=
  {| rootL := [1]; rootR := [2]; origin := Some false; check_spec := false; no_conflicted := true;
     conflicted := [99]; step_bound := 10; cov_every_step := true; declined := [77] |}.
Definition exb_l0 : tree := [([1], Dir); ([5], Dir); ([1; 3], File 7); ([5; 4], Dir); ([5; 4; 6], File 8)].
Definition exb_r0 : tree := [([2], Dir); ([2; 3], File 7)].
(* the user moves the synchronised file /1/3 out of the root, to /5/3 ... *)
Definition exb_l1 : tree := [([1], Dir); ([5], Dir); ([5; 3], File 7); ([5; 4], Dir); ([5; 4; 6], File 8)].
Definition exb_r1 : tree := [([2], Dir)].
(* ... and later the folder /5/4 (holding the file 6) into the root, to /1/4 *)
Definition exb_l2 : tree := [([1], Dir); ([5], Dir); ([5; 3], File 7); ([1; 4], Dir); ([1; 4; 6], File 8)].
Definition exb_r2 : tree := [([2], Dir); ([2; 4], Dir)].
Definition exb_r3 : tree := [([2], Dir); ([2; 4], Dir); ([2; 4; 6], File 8)].

Definition exb_u1 : obs := {| o_ev := EUser false (Rename [1; 3] [5; 3]); o_L := exb_l1; o_R := exb_r0 |}.
Definition exb_mid1 : list obs :=
  [ {| o_ev := EStep; o_L := exb_l1; o_R := exb_r0 |};
    {| o_ev := EEng true [[2; 3]]; o_L := exb_l1; o_R := exb_r1 |};     (* the engine deletes /2/3 *)
    {| o_ev := EStep; o_L := exb_l1; o_R := exb_r1 |} ].
Definition exb_q1 : obs := {| o_ev := EQuiet; o_L := exb_l1; o_R := exb_r1 |}.
Definition exb_u2 : obs := {| o_ev := EUser false (Rename [5; 4] [1; 4]); o_L := exb_l2; o_R := exb_r1 |}.
Definition exb_mid2 : list obs :=
  [ {| o_ev := EStep; o_L := exb_l2; o_R := exb_r1 |};
    {| o_ev := EEng true [[2; 4]]; o_L := exb_l2; o_R := exb_r2 |};     (* the engine creates /2/4 ... *)
    {| o_ev := EEng true [[2; 4; 6]]; o_L := exb_l2; o_R := exb_r3 |};  (* ... and /2/4/6 *)
    {| o_ev := EStep; o_L := exb_l2; o_R := exb_r3 |} ].
Definition exb_q2 : obs := {| o_ev := EQuiet; o_L := exb_l2; o_R := exb_r3 |}.
Definition exb_trace : list obs := exb_u1 :: exb_mid1 ++ exb_q1 :: exb_u2 :: exb_mid2 ++ [exb_q2].

Example exb_accepted : accepted exb_cfg exb_l0 exb_r0 exb_trace = true.
Proof. vm_compute. reflexivity. Qed.

Example exb_accept : exists m', accept exb_cfg exb_l0 exb_r0 exb_trace = inl m'.
Proof. eexists. vm_compute. reflexivity. Qed.

Example exb_wf : wf (side_tree false exb_l0 exb_r0).
Proof. apply wfb_sound. vm_compute. reflexivity. Qed.

(* the hypotheses of the two corollaries hold of this trace; their conclusions, instantiated *)
Example exb_move_out :
  (forall s, lookup (view [2] exb_r1) ([3] ++ s) = None) /\
  (forall k, is_prefix [3] k = false -> lookup (view [2] exb_r1) k = lookup (view [1] exb_l0) k).
Proof.
  destruct exb_accept as [m' Hacc].
  exact (move_out_is_delete exb_cfg exb_l0 exb_r0 exb_trace m' false eq_refl eq_refl exb_wf Hacc
           [] exb_u1 exb_mid1 exb_q1 (exb_u2 :: exb_mid2 ++ [exb_q2]) [1; 3] [5; 3]
           eq_refl eq_refl eq_refl eq_refl eq_refl [3] eq_refl eq_refl).
Qed.

Example exb_move_in :
  (forall s, lookup (view [2] exb_r3) ([4] ++ s) = lookup exb_l1 ([5; 4] ++ s)) /\
  (forall k, is_prefix [4] k = false -> lookup (view [2] exb_r3) k = lookup (view [1] exb_l1) k).
Proof.
  destruct exb_accept as [m' Hacc].
  exact (move_in_is_create exb_cfg exb_l0 exb_r0 exb_trace m' false eq_refl eq_refl exb_wf Hacc
           (exb_u1 :: exb_mid1 ++ [exb_q1]) exb_u2 exb_mid2 exb_q2 [] [5; 4] [1; 4]
           eq_refl eq_refl eq_refl eq_refl eq_refl [4] eq_refl eq_refl).
Qed.

(* a trace in which the engine leaves the moved-out file on the peer is rejected at the quiet report *)
Example exb_rejected_not_deleted :
  accept exb_cfg exb_l0 exb_r0
    [ exb_u1; {| o_ev := EStep; o_L := exb_l1; o_R := exb_r0 |}; {| o_ev := EQuiet; o_L := exb_l1; o_R := exb_r0 |} ]
  = inr (2%nat, G_CONVERGE).
Proof. vm_compute. reflexivity. Qed.

(* an engine action that changes the origin side OUTSIDE its root (undoing the move) is rejected *)
Example exb_rejected_origin_outside :
  accept exb_cfg exb_l0 exb_r0
    [ exb_u1; {| o_ev := EEng false [[1; 3]]; o_L := exb_l0; o_R := exb_r0 |} ] = inr (1%nat, G_OUTSIDE).
Proof. vm_compute. reflexivity. Qed.

Print Assumptions tree_from_parts.
Print Assumptions origin_tree_is_history.
Print Assumptions boundary_moves_mirror.
Print Assumptions move_out_is_delete.
Print Assumptions move_in_is_create.
