(* MonitorProofs.v — for EVERY trace: if the acceptor accepts, the declarative statements hold.
   The guards are executable; these lemmas say what acceptance means, so the oracle the harness
   runs on real traces is exactly the property and cannot be weakened without breaking a proof. *)
From Coq Require Import NArith Arith List Bool Lia.
From CS Require Import Sx TreeModel Monitor.
Import ListNotations.

Notation "a ~~ b" := (same_tree a b = true) (at level 70).

(* ------------------------------------------------------------------ what each accepted step means *)
Definition observed (m : mstate) (x : obs) : Prop := tL m = o_L x /\ tR m = o_R x.

Definition user_step_ok (cfg : config) (m : mstate) (s : side) (o : op) (m' : mstate) : Prop :=
  apply_op (tree_of m s) o ~~ tree_of m' s
  /\ tree_of m (negb s) ~~ tree_of m' (negb s)
  /\ cov m' = cov_after (tree_of m s) o (cov m)
  /\ steps m' = 0 /\ quiet m' = false
  /\ (check_spec cfg = true -> exists ro, rel_op (root_of cfg s) o = Some ro /\ spec m' = apply_op (spec m) ro)
  /\ (check_spec cfg = false -> spec m' = spec m).

Definition eng_step_ok (cfg : config) (m : mstate) (s : side) (ts : list path) (m' : mstate) : Prop :=
  (forall t, In t ts -> is_prefix (root_of cfg s) t = true)                       (* C12: confined *)
  /\ outside (rootL cfg) (tL m) ~~ outside (rootL cfg) (tL m')                    (* C12: outside untouched *)
  /\ outside (rootR cfg) (tR m) ~~ outside (rootR cfg) (tR m')
  /\ tree_of m (negb s) ~~ tree_of m' (negb s)                                    (* only the addressed side changes *)
  /\ (origin cfg = Some s -> view (root_of cfg s) (tree_of m s) ~~ view (root_of cfg s) (tree_of m' s))  (* C03 *)
  /\ quiet m = false                                                              (* C03: no echo after quiet *)
  /\ (cov_every_step cfg = true -> all_live (cov m) (tL m') (tR m') = true)       (* C02, step level *)
  /\ spec m' = spec m /\ cov m' = cov m /\ steps m' = steps m /\ quiet m' = quiet m
  /\ (forall t, In t ts -> has_declined cfg t = false).                            (* C12: declined paths left alone *)

Definition quiet_ok (cfg : config) (m m' : mstate) : Prop :=
  tL m ~~ tL m' /\ tR m ~~ tR m'
  /\ strip_conflicted cfg (view (rootL cfg) (tL m')) ~~ strip_conflicted cfg (view (rootR cfg) (tR m'))   (* C01 *)
  /\ (check_spec cfg = true ->
      view (rootL cfg) (tL m') ~~ spec m /\ view (rootR cfg) (tR m') ~~ spec m)                          (* C03 C04 *)
  /\ (no_conflicted cfg = true ->
      has_conflicted cfg (view (rootL cfg) (tL m')) = false /\ has_conflicted cfg (view (rootR cfg) (tR m')) = false)
  /\ all_live (cov m) (tL m') (tR m') = true                                                            (* C02 *)
  /\ spec m' = spec m /\ cov m' = cov m /\ steps m' = steps m /\ quiet m' = true.

Definition tick_ok (cfg : config) (m m' : mstate) : Prop :=
  tL m ~~ tL m' /\ tR m ~~ tR m'
  /\ (quiet m = false -> S (steps m) <= step_bound cfg)                           (* C01: bounded *)
  /\ spec m' = spec m /\ cov m' = cov m /\ steps m' = S (steps m) /\ quiet m' = quiet m.

Definition step_ok (cfg : config) (m : mstate) (x : obs) (m' : mstate) : Prop :=
  observed m' x /\
  match o_ev x with
  | EUser s o => user_step_ok cfg m s o m'
  | EEng s ts => eng_step_ok cfg m s ts m'
  | EStep => tick_ok cfg m m'
  | EQuiet => quiet_ok cfg m m'
  end.

Lemma negb_true_false b : negb b = false -> b = true.
Proof. destruct b; simpl; congruence. Qed.

Lemma mstep_sound cfg m x m' : mstep cfg m x = inl m' -> step_ok cfg m x m'.
Proof.
  unfold mstep, step_ok. destruct (o_ev x) as [s o|s ts| |] eqn:Hev.
  - (* user *)
    destruct (negb _) eqn:Hg; [discriminate|]. apply negb_true_false in Hg.
    apply andb_true_iff in Hg as [Ht Ho].
    destruct (check_spec cfg) eqn:Hcs.
    + destruct (rel_op (root_of cfg s) o) as [ro|] eqn:Hr; simpl; [|discriminate].
      intros H; inversion H; subst; clear H. unfold observed, user_step_ok, tree_of; simpl.
      split; [split; reflexivity|].
      destruct s; simpl in *; repeat split; try assumption; try reflexivity;
        try (intros _; exists ro; split; [assumption|reflexivity]); try (intros Hc; congruence).
    + simpl. intros H; inversion H; subst; clear H. unfold observed, user_step_ok, tree_of; simpl.
      split; [split; reflexivity|].
      destruct s; simpl in *; repeat split; try assumption; try reflexivity;
        try (intros Hc; congruence).
  - (* engine action *)
    destruct (negb (forallb _ ts)) eqn:G1; [discriminate|]. apply negb_true_false in G1.
    destruct (existsb (has_declined cfg) ts) eqn:G1d; [discriminate|].
    destruct (negb (same_tree (outside (rootL cfg) (tL m)) _ && _)) eqn:G2; [discriminate|].
    apply negb_true_false in G2. apply andb_true_iff in G2 as [G2a G2b].
    destruct (negb (if s then _ else _)) eqn:G3; [discriminate|]. apply negb_true_false in G3.
    destruct (match origin cfg with Some s0 => _ | None => false end) eqn:G4; [discriminate|].
    destruct (quiet m) eqn:G5; [discriminate|].
    destruct (cov_every_step cfg && negb (all_live (cov m) (o_L x) (o_R x))) eqn:G6; [discriminate|].
    intros H; inversion H; subst; clear H. unfold observed, eng_step_ok, tree_of; simpl.
    split; [split; reflexivity|].
    repeat split; try assumption; try reflexivity; try (symmetry; assumption).
    + intros t Ht. rewrite forallb_forall in G1. apply G1. exact Ht.
    + destruct s; simpl in *; assumption.
    + intros Ho. rewrite Ho in G4. unfold side_eqb in G4. rewrite eqb_reflx in G4. simpl in G4.
      apply negb_true_false in G4. destruct s; simpl in *; exact G4.
    + intros Hc. rewrite Hc in G6. simpl in G6. apply negb_true_false in G6. exact G6.
    + intros t Ht. destruct (has_declined cfg t) eqn:Hd; [|reflexivity].
      assert (He : existsb (has_declined cfg) ts = true) by (apply existsb_exists; exists t; split; assumption).
      congruence.
  - (* step marker *)
    destruct (negb (same_tree (tL m) (o_L x) && same_tree (tR m) (o_R x))) eqn:G1; [discriminate|].
    apply negb_true_false in G1. apply andb_true_iff in G1 as [Ga Gb].
    destruct (Nat.ltb (step_bound cfg) (S (steps m)) && negb (quiet m)) eqn:G2; [discriminate|].
    intros H; inversion H; subst; clear H. unfold observed, tick_ok; simpl.
    split; [split; reflexivity|]. repeat split; try assumption; try reflexivity.
    intros Hq. rewrite Hq in G2. simpl in G2. rewrite andb_true_r in G2.
    apply Nat.ltb_ge in G2. exact G2.
  - (* quiet *)
    destruct (negb (same_tree (tL m) (o_L x) && same_tree (tR m) (o_R x))) eqn:G1; [discriminate|].
    apply negb_true_false in G1. apply andb_true_iff in G1 as [Ga Gb].
    destruct (negb (same_tree (strip_conflicted cfg _) _)) eqn:G2; [discriminate|]. apply negb_true_false in G2.
    destruct (check_spec cfg && negb _) eqn:G3; [discriminate|].
    destruct (no_conflicted cfg && _) eqn:G4; [discriminate|].
    destruct (negb (all_live _ _ _)) eqn:G5; [discriminate|]. apply negb_true_false in G5.
    intros H; inversion H; subst; clear H. unfold observed, quiet_ok; simpl.
    split; [split; reflexivity|]. repeat split; try assumption; try reflexivity.
    all: try (match goal with Hc : check_spec _ = true |- _ =>
                rewrite Hc in G3; simpl in G3; apply negb_true_false in G3; apply andb_true_iff in G3; tauto end).
    all: try (match goal with Hc : no_conflicted _ = true |- _ =>
                rewrite Hc in G4; simpl in G4; apply orb_false_iff in G4; tauto end).
Qed.

(* ------------------------------------------------------------------ lifting to whole traces *)
(* the run of an accepted trace: every observation with the monitor state before and after it *)
Inductive run_of (cfg : config) : mstate -> list obs -> mstate -> Prop :=
| run_nil m : run_of cfg m [] m
| run_cons m x m1 r m2 : step_ok cfg m x m1 -> run_of cfg m1 r m2 -> run_of cfg m (x :: r) m2.

Lemma accept_from_sound cfg tr : forall m i m', accept_from cfg m tr i = inl m' -> run_of cfg m tr m'.
Proof.
  induction tr as [|x r IH]; simpl; intros m i m' H.
  - inversion H; subst. constructor.
  - destruct (mstep cfg m x) as [m1|c] eqn:Hs; [|discriminate].
    econstructor; [apply mstep_sound; exact Hs|]. eapply IH; exact H.
Qed.

Theorem accept_sound cfg l r tr m' :
  accept cfg l r tr = inl m' -> run_of cfg (init_state cfg l r) tr m'.
Proof. unfold accept. apply accept_from_sound. Qed.

(* every observation of an accepted trace satisfies a step predicate P that follows from step_ok *)
Lemma run_of_forall cfg (P : mstate -> obs -> mstate -> Prop) :
  (forall m x m', step_ok cfg m x m' -> P m x m') ->
  forall m tr m', run_of cfg m tr m' ->
  forall pre x post, tr = pre ++ x :: post ->
  exists ma mb, run_of cfg m pre ma /\ P ma x mb /\ run_of cfg mb post m'.
Proof.
  intros HP m tr m' Hrun. induction Hrun as [m|m x0 m1 r m2 Hs Hr IH]; intros pre x post Heq.
  - destruct pre; discriminate.
  - destruct pre as [|y pre]; simpl in Heq; inversion Heq; subst.
    + exists m, m1. split; [constructor|]. split; [apply HP; exact Hs|exact Hr].
    + destruct (IH pre x post eq_refl) as [ma [mb [Ha [Hb Hc]]]].
      exists ma, mb. split; [econstructor; eassumption|]. split; assumption.
Qed.

(* ------------------------------------------------------------------ the spec tree is the user history *)
(* the root-relative user operations of a trace, in trace order *)
Fixpoint rel_user_ops (cfg : config) (tr : list obs) : list op :=
  match tr with
  | [] => []
  | x :: r => match o_ev x with
              | EUser s o => match rel_op (root_of cfg s) o with
                             | Some ro => ro :: rel_user_ops cfg r
                             | None => rel_user_ops cfg r
                             end
              | _ => rel_user_ops cfg r
              end
  end.

Lemma spec_is_history cfg m tr m' :
  check_spec cfg = true -> run_of cfg m tr m' -> spec m' = apply_ops (spec m) (rel_user_ops cfg tr).
Proof.
  intros Hcs Hrun. induction Hrun as [m|m x m1 r m2 Hs Hr IH]; [reflexivity|].
  simpl. destruct Hs as [_ Hs]. destruct (o_ev x) as [s o|s ts| |] eqn:Hev.
  - destruct Hs as (_ & _ & _ & _ & _ & Hsp & _). destruct (Hsp Hcs) as [ro [Hro Hsp1]].
    rewrite Hro. simpl. rewrite IH, Hsp1. reflexivity.
  - destruct Hs as (_ & _ & _ & _ & _ & _ & _ & Hsp & _). rewrite IH, Hsp. reflexivity.
  - destruct Hs as (_ & _ & _ & Hsp & _). rewrite IH, Hsp. reflexivity.
  - destruct Hs as (_ & _ & _ & _ & _ & _ & Hsp & _). rewrite IH, Hsp. reflexivity.
Qed.

(* C03 / C04, trace level: at every quiet report of an accepted check_spec run, both views equal the
   previously synchronised tree with every user operation so far applied. *)
Theorem quiet_views_are_history cfg l r tr m' :
  check_spec cfg = true ->
  accept cfg l r tr = inl m' ->
  forall pre x post, tr = pre ++ x :: post -> o_ev x = EQuiet ->
    view (rootL cfg) (o_L x) ~~ apply_ops (view (rootL cfg) l) (rel_user_ops cfg pre) /\
    view (rootR cfg) (o_R x) ~~ apply_ops (view (rootL cfg) l) (rel_user_ops cfg pre).
Proof.
  intros Hcs Hacc pre x post Heq Hq.
  apply accept_sound in Hacc.
  destruct (run_of_forall cfg (step_ok cfg) (fun _ _ _ H => H) _ _ _ Hacc pre x post Heq) as [ma [mb [Ha [Hb _]]]].
  destruct Hb as [[HoL HoR] Hb]. rewrite Hq in Hb.
  destruct Hb as (_ & _ & _ & Hsp & _). destruct (Hsp Hcs) as [H1 H2].
  rewrite <- HoL, <- HoR.
  rewrite (spec_is_history cfg _ _ _ Hcs Ha) in H1, H2. simpl in H1, H2. split; assumption.
Qed.

(* C01, trace level: at every quiet report of an accepted run the two views agree modulo conflicted names *)
Theorem quiet_converged cfg l r tr m' :
  accept cfg l r tr = inl m' ->
  forall pre x post, tr = pre ++ x :: post -> o_ev x = EQuiet ->
    strip_conflicted cfg (view (rootL cfg) (o_L x)) ~~ strip_conflicted cfg (view (rootR cfg) (o_R x)).
Proof.
  intros Hacc pre x post Heq Hq. apply accept_sound in Hacc.
  destruct (run_of_forall cfg (step_ok cfg) (fun _ _ _ H => H) _ _ _ Hacc pre x post Heq) as [ma [mb [_ [Hb _]]]].
  destruct Hb as [[HoL HoR] Hb]. rewrite Hq in Hb. destruct Hb as (_ & _ & Hc & _).
  rewrite <- HoL, <- HoR. exact Hc.
Qed.

(* C12, trace level: every engine action of an accepted run addresses only paths inside its root, and
   leaves everything outside both roots as it was *)
Theorem engine_confined cfg l r tr m' :
  accept cfg l r tr = inl m' ->
  forall pre x post s ts, tr = pre ++ x :: post -> o_ev x = EEng s ts ->
    (forall t, In t ts -> is_prefix (root_of cfg s) t = true) /\
    exists ma, run_of cfg (init_state cfg l r) pre ma /\
      outside (rootL cfg) (tL ma) ~~ outside (rootL cfg) (o_L x) /\
      outside (rootR cfg) (tR ma) ~~ outside (rootR cfg) (o_R x).
Proof.
  intros Hacc pre x post s ts Heq He. apply accept_sound in Hacc.
  destruct (run_of_forall cfg (step_ok cfg) (fun _ _ _ H => H) _ _ _ Hacc pre x post Heq) as [ma [mb [Ha [Hb _]]]].
  destruct Hb as [[HoL HoR] Hb]. rewrite He in Hb. destruct Hb as (Hc & H1 & H2 & _).
  split; [exact Hc|]. exists ma. rewrite <- HoL, <- HoR. auto.
Qed.

(* C12, trace level: no engine action of an accepted run addresses a path with a component that the
   application's translate function declines (the names listed in [declined cfg]) *)
Theorem engine_declined_left_alone cfg l r tr m' :
  accept cfg l r tr = inl m' ->
  forall pre x post s ts, tr = pre ++ x :: post -> o_ev x = EEng s ts ->
    forall t n, In t ts -> In n t -> ~ In n (declined cfg).
Proof.
  intros Hacc pre x post s ts Heq He t n Ht Hn Hd. apply accept_sound in Hacc.
  destruct (run_of_forall cfg (step_ok cfg) (fun _ _ _ H => H) _ _ _ Hacc pre x post Heq) as [ma [mb [_ [Hb _]]]].
  destruct Hb as [_ Hb]. rewrite He in Hb.
  destruct Hb as (_ & _ & _ & _ & _ & _ & _ & _ & _ & _ & _ & Hdec).
  specialize (Hdec t Ht). unfold has_declined in Hdec.
  assert (Hx : existsb (fun n0 => existsb (N.eqb n0) (declined cfg)) t = true).
  { apply existsb_exists. exists n. split; [exact Hn|].
    apply existsb_exists. exists n. split; [exact Hd|apply N.eqb_refl]. }
  congruence.
Qed.

(* C03, trace level: in a one-sided run no engine action changes the origin side's view, and no
   provider write happens after a quiet report until a user acts again *)
Theorem origin_untouched_no_echo cfg l r tr m' s0 :
  origin cfg = Some s0 ->
  accept cfg l r tr = inl m' ->
  forall pre x post s ts, tr = pre ++ x :: post -> o_ev x = EEng s ts ->
    exists ma, run_of cfg (init_state cfg l r) pre ma /\ quiet ma = false /\
      (s = s0 -> view (root_of cfg s) (tree_of ma s) ~~ view (root_of cfg s) (if s then o_R x else o_L x)).
Proof.
  intros Ho Hacc pre x post s ts Heq He. apply accept_sound in Hacc.
  destruct (run_of_forall cfg (step_ok cfg) (fun _ _ _ H => H) _ _ _ Hacc pre x post Heq) as [ma [mb [Ha [Hb _]]]].
  destruct Hb as [[HoL HoR] Hb]. rewrite He in Hb. destruct Hb as (_ & _ & _ & _ & Hor & Hq & _).
  exists ma. split; [exact Ha|]. split; [exact Hq|].
  intros ->. specialize (Hor Ho). unfold tree_of in *. destruct s0; rewrite <- ?HoL, <- ?HoR; exact Hor.
Qed.

(* C02, trace level: at every quiet report every covered version is the content of a live file *)
Theorem quiet_nothing_lost cfg l r tr m' :
  accept cfg l r tr = inl m' ->
  forall pre x post, tr = pre ++ x :: post -> o_ev x = EQuiet ->
    exists ma, run_of cfg (init_state cfg l r) pre ma /\
      forall c, In c (cov ma) -> In c (contents (o_L x)) \/ In c (contents (o_R x)).
Proof.
  intros Hacc pre x post Heq Hq. apply accept_sound in Hacc.
  destruct (run_of_forall cfg (step_ok cfg) (fun _ _ _ H => H) _ _ _ Hacc pre x post Heq) as [ma [mb [Ha [Hb _]]]].
  destruct Hb as [[HoL HoR] Hb]. rewrite Hq in Hb. destruct Hb as (_ & _ & _ & _ & _ & Hl & _).
  exists ma. split; [exact Ha|]. intros c Hc. rewrite <- HoL, <- HoR.
  unfold all_live in Hl. rewrite forallb_forall in Hl. specialize (Hl c Hc).
  apply orb_true_iff in Hl. unfold mem in Hl.
  destruct Hl as [H|H]; apply existsb_exists in H as [d [Hd He]]; apply N.eqb_eq in He; subst; auto.
Qed.

(* the covered set is exactly: written by a user, and not since overwritten or deleted by a user *)
Lemma cov_after_spec t o cv c :
  In c (cov_after t o cv) <->
  match o with
  | Create p d => (lookup t p = None /\ parent_ok t p = true /\ c = d) \/ In c cv
  | Write p d => match lookup t p with
                 | Some (File old) => c = d \/ (In c cv /\ c <> old)
                 | _ => In c cv
                 end
  | Delete p => match lookup t p with
                | Some (File old) => In c cv /\ c <> old
                | _ => In c cv
                end
  | Mkdir _ | Rename _ _ => In c cv
  end.
Proof.
  assert (Hdrop: forall old l, In c (drop old l) <-> In c l /\ c <> old).
  { intros old l. unfold drop. rewrite filter_In. split; intros [H1 H2]; split; auto.
    - intros ->. rewrite N.eqb_refl in H2. discriminate.
    - apply negb_true_iff. apply N.eqb_neq. congruence. }
  destruct o as [p d|p d|p|p q|p]; simpl; try tauto.
  - destruct (lookup t p) eqn:Hl.
    + split; [auto|]. intros [[H _]|H]; [discriminate|exact H].
    + destruct (parent_ok t p) eqn:Hp; simpl.
      * split; [intros [H|H]; [left; auto|right; exact H]|intros [[_ [_ H]]|H]; [left; auto|right; exact H]].
      * split; [auto|]. intros [[_ [H _]]|H]; [discriminate|exact H].
  - destruct (lookup t p) as [[|old]|]; try tauto. simpl. rewrite Hdrop. split; intros [H|H]; auto.
  - destruct (lookup t p) as [[|old]|]; try tauto. apply Hdrop.
Qed.

(* C03 / C04: no conflicted artefact at quiet when the run asks for it *)
Theorem quiet_no_conflicted cfg l r tr m' :
  no_conflicted cfg = true ->
  accept cfg l r tr = inl m' ->
  forall pre x post, tr = pre ++ x :: post -> o_ev x = EQuiet ->
    has_conflicted cfg (view (rootL cfg) (o_L x)) = false /\ has_conflicted cfg (view (rootR cfg) (o_R x)) = false.
Proof.
  intros Hn Hacc pre x post Heq Hq. apply accept_sound in Hacc.
  destruct (run_of_forall cfg (step_ok cfg) (fun _ _ _ H => H) _ _ _ Hacc pre x post Heq) as [ma [mb [_ [Hb _]]]].
  destruct Hb as [[HoL HoR] Hb]. rewrite Hq in Hb. destruct Hb as (_ & _ & _ & _ & Hc & _).
  rewrite <- HoL, <- HoR. apply Hc. exact Hn.
Qed.

(* C01: the engine never takes more than step_bound steps after the last user operation without
   having reported quiet *)
Theorem steps_bounded cfg l r tr m' :
  accept cfg l r tr = inl m' ->
  forall pre x post, tr = pre ++ x :: post -> o_ev x = EStep ->
    exists ma, run_of cfg (init_state cfg l r) pre ma /\ (quiet ma = false -> S (steps ma) <= step_bound cfg).
Proof.
  intros Hacc pre x post Heq Hq. apply accept_sound in Hacc.
  destruct (run_of_forall cfg (step_ok cfg) (fun _ _ _ H => H) _ _ _ Hacc pre x post Heq) as [ma [mb [Ha [Hb _]]]].
  destruct Hb as [_ Hb]. rewrite Hq in Hb. destruct Hb as (_ & _ & Hc & _).
  exists ma. split; assumption.
Qed.

(* the step counter really counts the engine steps since the last user operation *)
Fixpoint steps_since_user (tr : list obs) (acc : nat) : nat :=
  match tr with
  | [] => acc
  | x :: r => match o_ev x with
              | EUser _ _ => steps_since_user r 0
              | EStep => steps_since_user r (S acc)
              | _ => steps_since_user r acc
              end
  end.
Lemma steps_counts cfg m tr m' : run_of cfg m tr m' -> steps m' = steps_since_user tr (steps m).
Proof.
  intros Hrun. induction Hrun as [m|m x m1 r m2 Hs Hr IH]; [reflexivity|].
  simpl. destruct Hs as [_ Hs]. destruct (o_ev x) as [s o|s ts| |].
  - destruct Hs as (_ & _ & _ & H & _). rewrite IH, H. reflexivity.
  - destruct Hs as (_ & _ & _ & _ & _ & _ & _ & _ & _ & H & _). rewrite IH, H. reflexivity.
  - destruct Hs as (_ & _ & _ & _ & _ & H & _). rewrite IH, H. reflexivity.
  - destruct Hs as (_ & _ & _ & _ & _ & _ & _ & _ & H & _). rewrite IH, H. reflexivity.
Qed.

(* C02, step level: with cov_every_step no engine action ever makes a covered version vanish *)
Theorem step_nothing_lost cfg l r tr m' :
  cov_every_step cfg = true ->
  accept cfg l r tr = inl m' ->
  forall pre x post s ts, tr = pre ++ x :: post -> o_ev x = EEng s ts ->
    exists ma, run_of cfg (init_state cfg l r) pre ma /\
      forall c, In c (cov ma) -> In c (contents (o_L x)) \/ In c (contents (o_R x)).
Proof.
  intros Hce Hacc pre x post s ts Heq He. apply accept_sound in Hacc.
  destruct (run_of_forall cfg (step_ok cfg) (fun _ _ _ H => H) _ _ _ Hacc pre x post Heq) as [ma [mb [Ha [Hb _]]]].
  destruct Hb as [[HoL HoR] Hb]. rewrite He in Hb. destruct Hb as (_ & _ & _ & _ & _ & _ & Hl & _).
  exists ma. split; [exact Ha|]. intros c Hc. rewrite <- HoL, <- HoR. specialize (Hl Hce).
  unfold all_live in Hl. rewrite forallb_forall in Hl. specialize (Hl c Hc).
  apply orb_true_iff in Hl. unfold mem in Hl.
  destruct Hl as [H|H]; apply existsb_exists in H as [d [Hd Hd2]]; apply N.eqb_eq in Hd2; subst; auto.
Qed.
