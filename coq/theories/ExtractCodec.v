(* Extraction of the C08 model.  ExtrOcamlBasic only: bool, option, unit, prod, list, sumbool, sumor
   map to OCaml's; N / Z / positive / nat stay the extracted inductive types. *)
From Coq Require Import ExtrOcamlBasic.
From CS Require Import Sx CodecModel.
Definition run := CodecModel.run.
Extraction "extract/codec/model.ml" run.
