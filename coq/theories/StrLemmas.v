(* StrLemmas.v — lemmas about the Python str primitives of Str.v, plus the proof-side notion of
   "components of a path" ([comps]) that the path laws are stated through. *)
From Coq Require Import NArith List Bool Arith.
From CS Require Import Str.
Import ListNotations.

(* ------------------------------------------------------------------ small arithmetic
   (proved by hand rather than by lia: the micromega checker in the dependency closure makes every
   Print Assumptions of the property file several seconds slower) *)
Lemma nat_add_S_neq n m : n = n + S m -> False.
Proof. induction n as [|n IH]; simpl; [discriminate|]. intros H. injection H as H. exact (IH H). Qed.

Lemma nat_add_S_le n m : n + S m <= n -> False.
Proof.
  induction n as [|n IH]; simpl; intros H; [inversion H|]. apply IH. apply le_S_n. exact H.
Qed.

Lemma nat_sub_0_lt n m : m < n -> n - m = 0 -> False.
Proof. intros Hl H. apply Nat.sub_0_le in H. exact (Nat.lt_irrefl _ (Nat.lt_le_trans _ _ _ Hl H)). Qed.

(* ------------------------------------------------------------------ str_eqb *)
Lemma str_eqb_eq a b : str_eqb a b = true <-> a = b.
Proof.
  revert b; induction a as [|x a IH]; intros [|y b]; simpl; split; intros H; try congruence; try reflexivity.
  - apply andb_true_iff in H as [H1 H2]. apply N.eqb_eq in H1. apply IH in H2. congruence.
  - inversion H; subst. rewrite N.eqb_refl. simpl. apply IH. reflexivity.
Qed.

Lemma str_eqb_refl a : str_eqb a a = true.
Proof. apply str_eqb_eq. reflexivity. Qed.

Lemma str_eqb_spec a b : reflect (a = b) (str_eqb a b).
Proof.
  destruct (str_eqb a b) eqn:E; constructor.
  - apply str_eqb_eq. exact E.
  - intros H. apply str_eqb_eq in H. congruence.
Qed.

Lemma str_eqb_sym a b : str_eqb a b = str_eqb b a.
Proof.
  destruct (str_eqb_spec a b) as [H|H]; destruct (str_eqb_spec b a) as [H'|H']; congruence.
Qed.

(* ------------------------------------------------------------------ lstrip / rstrip / strip *)
Lemma lstrip_idem c s : lstrip c (lstrip c s) = lstrip c s.
Proof.
  induction s as [|x s IH]; simpl; [reflexivity|].
  destruct (N.eqb x c) eqn:E; [exact IH|]. simpl. rewrite E. reflexivity.
Qed.

Lemma lstrip_incl c s : incl (lstrip c s) s.
Proof.
  induction s as [|x s IH]; simpl; [apply incl_refl|].
  destruct (N.eqb x c); [apply incl_tl; exact IH|apply incl_refl].
Qed.

Lemma lstrip_app_single c l x :
  lstrip c (l ++ [x]) =
  match lstrip c l with [] => if N.eqb x c then [] else [x] | l' => l' ++ [x] end.
Proof.
  induction l as [|y l IH]; simpl.
  - destruct (N.eqb x c); reflexivity.
  - destruct (N.eqb y c) eqn:E; [exact IH|reflexivity].
Qed.

(* the recursive reading of rstrip: all proofs about rstrip go through this equation *)
Lemma rstrip_cons c x r :
  rstrip c (x :: r) =
  match rstrip c r with [] => if N.eqb x c then [] else [x] | _ => x :: rstrip c r end.
Proof.
  unfold rstrip. simpl rev. rewrite lstrip_app_single.
  destruct (lstrip c (rev r)) as [|y l] eqn:E.
  - simpl. destruct (N.eqb x c); reflexivity.
  - rewrite rev_app_distr. change (rev [x]) with [x]. change ([x] ++ rev (y :: l)) with (x :: rev (y :: l)).
    remember (rev (y :: l)) as w eqn:E2. destruct w as [|z l']; [|reflexivity].
    exfalso. apply (f_equal (@length N)) in E2. rewrite rev_length in E2. simpl in E2. discriminate E2.
Qed.

Lemma rstrip_nil c : rstrip c [] = [].
Proof. reflexivity. Qed.

Lemma rstrip_idem c s : rstrip c (rstrip c s) = rstrip c s.
Proof. unfold rstrip. rewrite rev_involutive, lstrip_idem. reflexivity. Qed.

Lemma rstrip_incl c s : incl (rstrip c s) s.
Proof.
  unfold rstrip. intros x Hx. apply in_rev in Hx. apply lstrip_incl in Hx. apply in_rev in Hx. exact Hx.
Qed.

Lemma strip_incl c s : incl (strip c s) s.
Proof. unfold strip. intros x Hx. apply rstrip_incl in Hx. apply lstrip_incl in Hx. exact Hx. Qed.

Lemma lstrip_no c s : (forall x, In x s -> x <> c) -> lstrip c s = s.
Proof.
  destruct s as [|x s]; simpl; intros H; [reflexivity|].
  destruct (N.eqb_spec x c); [exfalso; apply (H x); auto|reflexivity].
Qed.

Lemma rstrip_no c s : ~ In c s -> rstrip c s = s.
Proof.
  intros H. unfold rstrip. rewrite lstrip_no, rev_involutive; [reflexivity|].
  intros x Hx Hc. subst. apply in_rev in Hx. contradiction.
Qed.

Lemma strip_no c s : ~ In c s -> strip c s = s.
Proof.
  intros H. unfold strip. rewrite lstrip_no; [apply rstrip_no; exact H|].
  intros x Hx Hc. subst. contradiction.
Qed.

(* s = rstrip c s ++ (a run of c) *)
Lemma rstrip_decomp c s : exists n, s = rstrip c s ++ repeat c n.
Proof.
  induction s as [|x s [n IH]].
  - exists 0. reflexivity.
  - rewrite rstrip_cons. destruct (rstrip c s) as [|y r] eqn:E.
    + destruct (N.eqb_spec x c) as [->|Hne].
      * exists (S n). simpl. simpl in IH. rewrite IH at 1. reflexivity.
      * exists n. simpl. simpl in IH. rewrite IH at 1. reflexivity.
    + exists n. simpl. f_equal. exact IH.
Qed.

Lemma rstrip_length_le c s : length (rstrip c s) <= length s.
Proof.
  destruct (rstrip_decomp c s) as [n H]. rewrite H at 2. rewrite app_length. apply Nat.le_add_r.
Qed.

Lemma rstrip_repeat c n : rstrip c (repeat c n) = [].
Proof.
  induction n as [|n IH]; [reflexivity|]. simpl. rewrite rstrip_cons, IH, N.eqb_refl. reflexivity.
Qed.

(* "s has no trailing c" is [rstrip c s = s] *)
Lemma rstrip_app_keep c a b : rstrip c b <> [] -> rstrip c (a ++ b) = a ++ rstrip c b.
Proof.
  intros Hb. induction a as [|x a IH]; [reflexivity|].
  simpl. rewrite rstrip_cons, IH.
  destruct (a ++ rstrip c b) eqn:E; [|reflexivity].
  apply app_eq_nil in E as [_ E]. contradiction.
Qed.

Lemma rstrip_app_drop c a b : rstrip c b = [] -> rstrip c (a ++ b) = rstrip c a.
Proof.
  intros Hb. induction a as [|x a IH]; [exact Hb|].
  simpl. rewrite !rstrip_cons, IH. reflexivity.
Qed.

Lemma rstrip_last_keep c a x : x <> c -> rstrip c (a ++ [x]) = a ++ [x].
Proof.
  intros Hx. rewrite rstrip_app_keep.
  - rewrite rstrip_cons. simpl. destruct (N.eqb_spec x c); [contradiction|reflexivity].
  - rewrite rstrip_cons. simpl. destruct (N.eqb_spec x c); [contradiction|discriminate].
Qed.

Lemma rstrip_head c x s : x <> c -> rstrip c (x :: s) = x :: rstrip c s.
Proof.
  intros Hx. rewrite rstrip_cons. destruct (rstrip c s); [|reflexivity].
  destruct (N.eqb_spec x c); [contradiction|reflexivity].
Qed.

Lemma lstrip_length_le c s : length (lstrip c s) <= length s.
Proof.
  induction s as [|y s IH]; simpl; [apply le_n|]. destruct (N.eqb y c); [apply le_S; exact IH|apply le_n].
Qed.

Lemma lstrip_rstrip_fix c s : lstrip c s = s -> lstrip c (rstrip c s) = rstrip c s.
Proof.
  destruct s as [|x s]; [reflexivity|]. simpl.
  destruct (N.eqb_spec x c) as [->|Hne].
  - intros H. exfalso. pose proof (lstrip_length_le c s) as Hle.
    rewrite H in Hle. simpl in Hle. exact (Nat.nle_succ_diag_l _ Hle).
  - intros _. rewrite rstrip_head by exact Hne. simpl.
    destruct (N.eqb_spec x c); [contradiction|reflexivity].
Qed.

Lemma strip_idem_l c s : lstrip c (strip c s) = strip c s.
Proof. unfold strip. apply lstrip_rstrip_fix. apply lstrip_idem. Qed.

Lemma strip_idem_r c s : rstrip c (strip c s) = strip c s.
Proof. unfold strip. apply rstrip_idem. Qed.

Lemma lstrip_head_ne c s : match lstrip c s with x :: _ => x <> c | [] => True end.
Proof.
  induction s as [|x s IH]; simpl; [exact I|].
  destruct (N.eqb_spec x c); [exact IH|exact n].
Qed.

(* ------------------------------------------------------------------ replace_char *)
Lemma replace_char_idem a b s : replace_char a b (replace_char a b s) = replace_char a b s.
Proof.
  unfold replace_char. rewrite map_map. apply map_ext. intros x.
  destruct (N.eqb x a) eqn:E; [|rewrite E; reflexivity].
  destruct (N.eqb b a) eqn:E2; reflexivity.
Qed.

Lemma replace_char_no a b s : ~ In a s -> replace_char a b s = s.
Proof.
  induction s as [|x s IH]; simpl; intros H; [reflexivity|].
  destruct (N.eqb_spec x a) as [->|Hne]; [exfalso; apply H; auto|].
  f_equal. apply IH. intros Hin. apply H. auto.
Qed.

Lemma replace_char_same a s : replace_char a a s = s.
Proof.
  unfold replace_char. rewrite map_ext with (g := fun x => x); [apply map_id|].
  intros z. destruct (N.eqb_spec z a); auto.
Qed.

Lemma replace_char_out a b s : a <> b -> ~ In a (replace_char a b s).
Proof.
  intros Hab Hin. unfold replace_char in Hin. apply in_map_iff in Hin as [z [Hz _]].
  destruct (N.eqb_spec z a); subst; auto.
Qed.

Lemma replace_char_app a b s t : replace_char a b (s ++ t) = replace_char a b s ++ replace_char a b t.
Proof. apply map_app. Qed.

(* ------------------------------------------------------------------ startswith, firstn, skipn *)
Lemma startswith_nil s : startswith s [] = true.
Proof. destruct s; reflexivity. Qed.

Lemma startswith_app a b : startswith (a ++ b) a = true.
Proof. induction a as [|x a IH]; simpl; [apply startswith_nil|]. rewrite N.eqb_refl. exact IH. Qed.

Lemma startswith_spec s p : startswith s p = true <-> exists r, s = p ++ r.
Proof.
  revert s. induction p as [|y p IH]; intros s; simpl.
  - split; [intros _; exists s; reflexivity|intros _; apply startswith_nil].
  - destruct s as [|x s].
    + split; [discriminate|intros [r Hr]; discriminate].
    + split.
      * intros H. apply andb_true_iff in H as [H1 H2]. apply N.eqb_eq in H1. apply IH in H2 as [r Hr].
        exists r. subst. reflexivity.
      * intros [r Hr]. injection Hr as Hx Hs. apply andb_true_iff. split; [apply N.eqb_eq; exact Hx|].
        apply IH. exists r. exact Hs.
Qed.

Lemma firstn_len_app {T} (a b : list T) : firstn (length a) (a ++ b) = a.
Proof. induction a as [|x a IH]; simpl; [reflexivity|]. f_equal. exact IH. Qed.

Lemma skipn_len_app {T} (a b : list T) : skipn (length a) (a ++ b) = b.
Proof. induction a as [|x a IH]; simpl; [reflexivity|]. exact IH. Qed.

Lemma skipn_S_len_app {T} (a b : list T) x : skipn (S (length a)) (a ++ x :: b) = b.
Proof. induction a as [|y a IH]; simpl; [reflexivity|exact IH]. Qed.

Lemma nth_error_len_app {T} (a b : list T) x : nth_error (a ++ x :: b) (length a) = Some x.
Proof. induction a as [|y a IH]; simpl; [reflexivity|exact IH]. Qed.

(* ------------------------------------------------------------------ rfind *)
Lemma rfind_from_no c s i acc : ~ In c s -> rfind_from c s i acc = acc.
Proof.
  revert i acc. induction s as [|x s IH]; intros i acc H; simpl; [reflexivity|].
  destruct (N.eqb_spec x c) as [->|Hne]; [exfalso; apply H; left; reflexivity|].
  apply IH. intros Hin. apply H. right. exact Hin.
Qed.

Lemma rfind_from_last c a b i acc :
  ~ In c b -> rfind_from c (a ++ c :: b) i acc = Some (i + length a).
Proof.
  intros Hb. revert i acc. induction a as [|x a IH]; intros i acc; simpl.
  - rewrite N.eqb_refl. rewrite rfind_from_no by exact Hb. rewrite Nat.add_0_r. reflexivity.
  - rewrite IH. simpl. rewrite Nat.add_succ_r. reflexivity.
Qed.

Lemma rfind_none c s : ~ In c s -> rfind c s = None.
Proof. intros H. unfold rfind. apply rfind_from_no. exact H. Qed.

Lemma rfind_last c a b : ~ In c b -> rfind c (a ++ c :: b) = Some (length a).
Proof. intros H. unfold rfind. rewrite rfind_from_last by exact H. reflexivity. Qed.

Lemma last_occurrence (c : N) s : In c s -> exists a b, s = a ++ c :: b /\ ~ In c b.
Proof.
  induction s as [|x s IH]; intros H; [destruct H|].
  destruct (in_dec N.eq_dec c s) as [Hin|Hnin].
  - destruct (IH Hin) as [a [b [E Hb]]]. exists (x :: a), b. subst. split; [reflexivity|exact Hb].
  - destruct H as [->|H]; [|contradiction]. exists [], s. split; [reflexivity|exact Hnin].
Qed.

(* ------------------------------------------------------------------ intercalate *)
Lemma intercalate_cons c p r :
  intercalate c (p :: r) = match r with [] => p | _ => p ++ c :: intercalate c r end.
Proof. destruct r; reflexivity. Qed.

Lemma intercalate_snoc c l b : l <> [] -> intercalate c (l ++ [b]) = intercalate c l ++ c :: b.
Proof.
  induction l as [|p l IH]; intros H; [contradiction|].
  destruct l as [|q l]; [reflexivity|].
  change ((p :: q :: l) ++ [b]) with (p :: ((q :: l) ++ [b])).
  rewrite intercalate_cons. simpl app at 1.
  rewrite IH by discriminate. rewrite (intercalate_cons c p (q :: l)). rewrite <- app_assoc. reflexivity.
Qed.

Lemma intercalate_map c f l : map f (intercalate c l) = intercalate (f c) (map (map f) l).
Proof.
  induction l as [|p l IH]; [reflexivity|].
  destruct l as [|q l]; [reflexivity|].
  change (map (map f) (p :: q :: l)) with (map f p :: map (map f) (q :: l)).
  rewrite !intercalate_cons. simpl map at 3. rewrite map_app. simpl. f_equal. f_equal. exact IH.
Qed.

(* ------------------------------------------------------------------ components *)
Definition starts_comp (c : N) (r : str) : bool :=
  match r with [] => false | y :: _ => negb (N.eqb y c) end.

(* the non-empty maximal c-free pieces of s, in order *)
Fixpoint comps (c : N) (s : str) : list str :=
  match s with
  | [] => []
  | x :: r =>
    if N.eqb x c then comps c r
    else if starts_comp c r
         then match comps c r with h :: t => (x :: h) :: t | [] => [[x]] end
         else [x] :: comps c r
  end.

Definition good (c : N) (p : str) : Prop := p <> [] /\ ~ In c p.

Lemma comps_starts c r : starts_comp c r = true -> comps c r <> [].
Proof.
  destruct r as [|y r]; simpl; [discriminate|]. intros H.
  destruct (N.eqb y c); [discriminate|].
  destruct (starts_comp c r); [destruct (comps c r)|]; discriminate.
Qed.

Lemma comps_nosep c s : s <> [] -> ~ In c s -> comps c s = [s].
Proof.
  induction s as [|x s IH]; intros Hne Hc; [contradiction|].
  simpl. destruct (N.eqb_spec x c) as [->|Hx]; [exfalso; apply Hc; left; reflexivity|].
  destruct s as [|y s]; [reflexivity|].
  assert (Hy : y <> c) by (intros ->; apply Hc; right; left; reflexivity).
  assert (Hs : starts_comp c (y :: s) = true) by (simpl; destruct (N.eqb_spec y c); [contradiction|reflexivity]).
  rewrite Hs. rewrite IH; [reflexivity|discriminate|]. intros Hin. apply Hc. right. exact Hin.
Qed.

Lemma comps_app_sep c a b : comps c (a ++ c :: b) = comps c a ++ comps c b.
Proof.
  induction a as [|x a IH]; simpl.
  - rewrite N.eqb_refl. reflexivity.
  - destruct (N.eqb x c) eqn:Ex; [exact IH|].
    assert (Hs : starts_comp c (a ++ c :: b) = starts_comp c a).
    { destruct a; simpl; [rewrite N.eqb_refl; reflexivity|reflexivity]. }
    rewrite Hs, IH. destruct (starts_comp c a) eqn:Es; [|reflexivity].
    apply comps_starts in Es. destruct (comps c a); [contradiction|reflexivity].
Qed.

Lemma comps_snoc_sep c a : comps c (a ++ [c]) = comps c a.
Proof. rewrite comps_app_sep. simpl. apply app_nil_r. Qed.

Lemma comps_cons_sep c a : comps c (c :: a) = comps c a.
Proof. simpl. rewrite N.eqb_refl. reflexivity. Qed.

Lemma comps_repeat c n : comps c (repeat c n) = [].
Proof. induction n as [|n IH]; simpl; [reflexivity|]. rewrite N.eqb_refl. exact IH. Qed.

Lemma comps_app_repeat c a n : comps c (a ++ repeat c n) = comps c a.
Proof.
  destruct n as [|n]; [rewrite app_nil_r; reflexivity|].
  simpl. rewrite comps_app_sep, comps_repeat. apply app_nil_r.
Qed.

Lemma comps_rstrip c s : comps c (rstrip c s) = comps c s.
Proof.
  destruct (rstrip_decomp c s) as [n H]. rewrite H at 2. rewrite comps_app_repeat. reflexivity.
Qed.

Lemma comps_lstrip c s : comps c (lstrip c s) = comps c s.
Proof.
  induction s as [|x s IH]; [reflexivity|]. simpl.
  destruct (N.eqb x c) eqn:E; [exact IH|]. simpl. rewrite E. reflexivity.
Qed.

Lemma comps_strip c s : comps c (strip c s) = comps c s.
Proof. unfold strip. rewrite comps_rstrip, comps_lstrip. reflexivity. Qed.

Lemma comps_good c s : Forall (good c) (comps c s).
Proof.
  induction s as [|x s IH]; simpl; [constructor|].
  destruct (N.eqb_spec x c) as [->|Hx]; [exact IH|].
  assert (Hg : good c [x]) by (split; [discriminate|intros [H|[]]; congruence]).
  destruct (starts_comp c s).
  - destruct (comps c s) as [|h t]; [constructor; [exact Hg|constructor]|].
    inversion IH as [|h' t' [Hh1 Hh2] Ht]; subst. constructor; [|exact Ht].
    split; [discriminate|]. intros [H|H]; [congruence|contradiction].
  - constructor; assumption.
Qed.

Lemma comps_intercalate c l : comps c (intercalate c l) = concat (map (comps c) l).
Proof.
  induction l as [|p l IH]; [reflexivity|].
  rewrite intercalate_cons. destruct l as [|q l].
  - simpl. rewrite app_nil_r. reflexivity.
  - rewrite comps_app_sep, IH. reflexivity.
Qed.

Lemma comps_intercalate_good c l : Forall (good c) l -> comps c (intercalate c l) = l.
Proof.
  intros H. rewrite comps_intercalate. induction H as [|p l [Hp1 Hp2] Hl IH]; [reflexivity|].
  simpl. rewrite comps_nosep by assumption. simpl. f_equal. exact IH.
Qed.

Lemma comps_map c f s : (forall x, f x = c <-> x = c) ->
  comps c (map f s) = map (map f) (comps c s).
Proof.
  intros Hf. induction s as [|x s IH]; [reflexivity|]. simpl.
  assert (Hx : N.eqb (f x) c = N.eqb x c).
  { destruct (N.eqb_spec x c) as [->|Hx]; [apply N.eqb_eq; apply Hf; reflexivity|].
    apply N.eqb_neq. intros H. apply (proj1 (Hf x)) in H. contradiction. }
  rewrite Hx. destruct (N.eqb x c); [exact IH|].
  assert (Hs : starts_comp c (map f s) = starts_comp c s).
  { destruct s as [|y s]; [reflexivity|]. simpl.
    destruct (N.eqb_spec y c) as [->|Hy].
    - replace (N.eqb (f c) c) with true; [reflexivity|]. symmetry. apply N.eqb_eq. apply Hf. reflexivity.
    - replace (N.eqb (f y) c) with false; [reflexivity|]. symmetry. apply N.eqb_neq. intros H. apply (proj1 (Hf y)) in H. contradiction. }
  rewrite Hs, IH. destruct (starts_comp c s); [|reflexivity].
  destruct (comps c s); reflexivity.
Qed.

(* re.split on runs of c, blanks removed, is [comps] *)
Lemma comps_piece c p : ~ In c p -> comps c p = filter nonempty [p].
Proof.
  intros H. destruct p as [|x p]; [reflexivity|].
  rewrite comps_nosep; [reflexivity|discriminate|exact H].
Qed.

Lemma split_runs_aux_comps c s cur b :
  (b = true -> cur = []) -> ~ In c cur ->
  filter nonempty (split_runs_aux c s cur b) = comps c (rev cur ++ s).
Proof.
  revert cur b. induction s as [|x s IH]; intros cur b Hb Hc.
  - rewrite app_nil_r. rewrite comps_piece; [reflexivity|].
    intros Hin. apply in_rev in Hin. contradiction.
  - cbn [split_runs_aux]. destruct (N.eqb_spec x c) as [->|Hx].
    + destruct b.
      * rewrite (Hb eq_refl). rewrite IH; [|reflexivity|intros []]. simpl. rewrite N.eqb_refl. reflexivity.
      * rewrite comps_app_sep. rewrite comps_piece by (intros Hin; apply in_rev in Hin; contradiction).
        change (rev cur :: split_runs_aux c s [] true) with ([rev cur] ++ split_runs_aux c s [] true).
        rewrite filter_app. rewrite IH; [reflexivity|reflexivity|intros []].
    + rewrite IH; [|discriminate|].
      * simpl. rewrite <- app_assoc. reflexivity.
      * intros [H|H]; [congruence|contradiction].
Qed.

Lemma split_runs_comps c s : filter nonempty (split_runs c s) = comps c s.
Proof. unfold split_runs. rewrite split_runs_aux_comps; [reflexivity|discriminate|intros []]. Qed.

Lemma split_runs_aux_nosep c s cur b :
  ~ In c cur -> Forall (fun p => ~ In c p) (split_runs_aux c s cur b).
Proof.
  revert cur b. induction s as [|x s IH]; intros cur b Hc; simpl.
  - constructor; [|constructor]. intros Hin. apply in_rev in Hin. contradiction.
  - destruct (N.eqb_spec x c) as [->|Hx].
    + destruct b; [apply IH; exact Hc|]. constructor; [|apply IH; intros []].
      intros Hin. apply in_rev in Hin. contradiction.
    + apply IH. intros [H|H]; [congruence|contradiction].
Qed.

Lemma split_runs_nosep c s : Forall (fun p => ~ In c p) (split_runs c s).
Proof. apply split_runs_aux_nosep. intros []. Qed.
