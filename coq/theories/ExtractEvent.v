From Coq Require Import ExtrOcamlBasic.
From CS Require Import Sx EventModel.
Definition run := EventModel.run.
Extraction "extract/event/model.ml" run.
