(* CrashRecover.v — C07, part B: the engine's plans obey the discipline (no guard of a planned operation ever
   fails), and from EVERY crash state of a plan-driven run in which no user acts between a crash and the next
   quiet state, the recovery reaches a settled state with equal views, the origin objects untouched, exactly
   one peer per live object and no ".conflicted" name.  Induction over the sequence of steps; inside a step
   every prefix of its plan is a crash point. *)
From Coq Require Import NArith List Bool Arith Lia.
From CS Require Import Sx CrashModel CrashProofs.
Import ListNotations.

Definition same_type (a b : kind) : Prop :=
  match a, b with KFile _, KFile _ => True | KDir, KDir => True | _, _ => False end.
Definition linked (r : ent) : bool := s_has (e_peer r) && s_live (e_peer r).

Definition insync (r : ent) (o p : ost) : Prop :=
  s_spath (e_org r) = Some (os_path o) /\ s_shash (e_org r) = hash_of (os_kind o) /\
  reflects p o = true /\ os_live o = true.
Definition matches_marks (r : ent) (p : ost) : Prop :=
  s_spath (e_org r) = Some (os_path p) /\ s_shash (e_org r) = hash_of (os_kind p) /\ os_live p = true.
(* after a crash: every attribute of the peer is still as the marks say, or already as the origin has it *)
Definition half (r : ent) (o p : ost) : Prop :=
  (s_spath (e_org r) = Some (os_path p) \/ os_path p = os_path o) /\
  (s_shash (e_org r) = hash_of (os_kind p) \/ os_kind p = os_kind o) /\
  os_conf p = false /\ same_type (os_kind p) (os_kind o).

(* the durable invariant of one slot; rec = a crash happened and the engine has not been quiet since;
   d = the stored cursor of the origin side *)
Definition rinv (rec : bool) (d : nat) (sl : slot) : Prop :=
  let o := o_now (sl_org sl) in
  os_conf o = false /\
  match sl_row sl with
  | None => sl_peers sl = [] /\ d < o_ev (sl_org sl)
  | Some r =>
    s_has (e_org r) = true /\
    if e_disc r then os_live o = false /\ any_live (sl_peers sl) = false
    else if linked r then
      exists p, sl_peers sl = [p] /\ e_ref r = 0 /\ half r o (o_now p) /\
                (os_live o = true -> os_live (o_now p) = true) /\
                (rec = false -> matches_marks r (o_now p)) /\
                (o_ev (sl_org sl) <= d -> s_changed (e_org r) = false -> insync r o (o_now p))
    else
      (o_ev (sl_org sl) <= d -> s_changed (e_org r) = true) /\
      (sl_peers sl = [] \/
       (rec = true /\ exists p, sl_peers sl = [p] /\ os_live o = true /\ reflects (o_now p) o = true))
  end.

Definition bnd_slot (sl : slot) : Prop := sl_dirty sl = false /\ sl_mem sl = sl_row sl.

Lemma rinv_weaken d sl : rinv false d sl -> rinv true d sl.
Proof.
  unfold rinv. intros [Hc H]. split; [assumption|].
  destruct (sl_row sl) as [r|]; [|assumption]. destruct H as [Hh H]. split; [assumption|].
  destruct (e_disc r); [assumption|]. destruct (linked r).
  - destruct H as [p (A & B & C & D & E & F)].
    refine (ex_intro _ p (conj A (conj B (conj C (conj D (conj _ F)))))). discriminate.
  - destruct H as [A [B|[B _]]]; [|discriminate]. split; auto.
Qed.

Lemma rinv_crash_slot rec d sl : rinv rec d (crash_slot sl) <-> rinv rec d sl.
Proof. unfold rinv, crash_slot; simpl. tauto. Qed.

(* ------------------------------------------------------------------ running slot operations *)
Definition bump (o : sop) (np : nat) : nat := if is_provider_write o then S np else np.
Fixpoint srun (np : nat) (ops : list sop) (sl : slot) : option (slot * nat) :=
  match ops with
  | [] => Some (sl, np)
  | o :: r => match sexec np o sl with Some sl' => srun (bump o np) r sl' | None => None end
  end.
(* the slot after 0, 1, ... operations *)
Fixpoint strace (np : nat) (ops : list sop) (sl : slot) : list slot :=
  sl :: match ops with
        | [] => []
        | o :: r => match sexec np o sl with Some sl' => strace (bump o np) r sl' | None => [] end
        end.

Lemma sexec_side np o sl sl' : sexec np o sl = Some sl' -> sl_side sl' = sl_side sl /\ sl_org sl' = sl_org sl.
Proof.
  destruct o; simpl; intros H;
    repeat match type of H with
           | match ?c with _ => _ end = _ => destruct c; try discriminate
           end; injection H as <-; split; reflexivity.
Qed.

Lemma srun_side : forall ops np sl sl' np', srun np ops sl = Some (sl', np') ->
  sl_side sl' = sl_side sl /\ sl_org sl' = sl_org sl /\ np <= np'.
Proof.
  induction ops as [|o r IH]; intros np sl sl' np' H; simpl in H.
  - injection H as <- <-. auto.
  - destruct (sexec np o sl) as [s1|] eqn:E; [|discriminate].
    destruct (sexec_side _ _ _ _ E) as [A B]. destruct (IH _ _ _ _ H) as (C & D & F).
    rewrite C, D, A, B. repeat split. unfold bump in F. destruct (is_provider_write o); lia.
Qed.

Lemma srun_prefix (Q : slot -> Prop) : forall ops np sl,
  Forall Q (strace np ops sl) -> srun np ops sl <> None ->
  forall k, exists sl' np', srun np (firstn k ops) sl = Some (sl', np') /\ Q sl'.
Proof.
  induction ops as [|o r IH]; intros np sl HF Hn k.
  - rewrite firstn_nil. simpl. inversion HF; subst. eauto.
  - destruct k as [|k]; simpl.
    + inversion HF; subst. eauto.
    + simpl in HF, Hn. destruct (sexec np o sl) as [s1|] eqn:E; [|congruence].
      inversion HF; subst. apply IH; assumption.
Qed.

(* through the machine: a list of operations on slot i *)
Lemma run_ops_slot : forall ops x i sl,
  nth_error (slots x) i = Some sl ->
  match srun (sel (negb (sl_side sl)) (nev x)) ops sl with
  | Some (sl', np') =>
    exists y, run_ops x (map (MSlot i) ops) = Some y /\ slots y = set_nth i sl' (slots x) /\
              sel (negb (sl_side sl)) (nev y) = np' /\ sel (sl_side sl) (nev y) = sel (sl_side sl) (nev x) /\
              mcur y = mcur x /\ dcur y = dcur x
  | None => run_ops x (map (MSlot i) ops) = None
  end.
Proof.
  induction ops as [|o r IH]; intros x i sl Ei; simpl.
  - exists x. repeat split; auto. clear -Ei. revert i Ei. induction (slots x) as [|a l IHl]; intros [|i] E; simpl in *; try discriminate.
    + now injection E as ->.
    + f_equal. auto.
  - rewrite Ei. destruct (sexec _ o sl) as [s1|] eqn:E; [|reflexivity].
    destruct (sexec_side _ _ _ _ E) as [Hs Ho].
    set (x1 := {| slots := set_nth i s1 (slots x); nev := _; mcur := mcur x; dcur := dcur x |}).
    assert (E1 : nth_error (slots x1) i = Some s1) by (eapply nth_set_nth_eq; eauto).
    specialize (IH x1 i s1 E1). rewrite Hs in IH.
    assert (Hnp : sel (negb (sl_side sl)) (nev x1) = bump o (sel (negb (sl_side sl)) (nev x))).
    { subst x1; simpl. unfold bump. destruct (is_provider_write o); [apply sel_upd_same|reflexivity]. }
    assert (Hno : sel (sl_side sl) (nev x1) = sel (sl_side sl) (nev x)).
    { subst x1; simpl. destruct (is_provider_write o); [|reflexivity]. rewrite sel_upd. destruct (sl_side sl); reflexivity. }
    rewrite Hnp in IH. destruct (srun _ r s1) as [[sl' np']|]; [|exact IH].
    destruct IH as [y (A & B & C & D & F & G)]. exists y. repeat split; auto; try congruence.
    rewrite B. subst x1; simpl. clear. revert i. induction (slots x) as [|a l IHl]; intros [|i]; simpl; auto. now rewrite IHl.
Qed.

(* ------------------------------------------------------------------ single operations, guards discharged *)
Lemma fresh_refreshed x o er k d :
  fresh {| e_org := refreshed x (o_now o); e_peer := er; e_ref := k; e_disc := d |} o = true.
Proof. unfold fresh, refreshed; simpl. now rewrite N.eqb_refl, opt_eqb_refl, eqb_reflx. Qed.

Definition ent_refreshed (e : ent) (o : obj) : ent :=
  {| e_org := refreshed (e_org e) (o_now o); e_peer := e_peer e; e_ref := e_ref e; e_disc := e_disc e |}.
Definition ent_linked (o p : obj) (k : nat) : ent :=
  {| e_org := synced_side (o_now o); e_peer := synced_side (o_now p); e_ref := k; e_disc := false |}.
Definition ent_discarded (e : ent) : ent :=
  {| e_org := unchanged (e_org e) false; e_peer := unchanged (e_peer e) false; e_ref := e_ref e; e_disc := true |}.
Definition ent_marked (m : option ent) (o : obj) : ent :=
  match m with
  | None => {| e_org := marked no_side (o_now o); e_peer := no_side; e_ref := 0; e_disc := false |}
  | Some e => {| e_org := marked (e_org e) (o_now o); e_peer := e_peer e; e_ref := e_ref e; e_disc := e_disc e |}
  end.
Definition commit (sl : slot) (e : ent) : slot :=
  {| sl_side := sl_side sl; sl_org := sl_org sl; sl_peers := sl_peers sl; sl_mem := Some e; sl_row := Some e; sl_dirty := false |}.
Definition new_peer (o : obj) (np : nat) : obj :=
  {| o_now := {| os_path := os_path (o_now o); os_kind := os_kind (o_now o); os_live := true; os_conf := false |};
     o_past := []; o_ev := S np |}.

Lemma fresh_ent_refreshed e o : fresh (ent_refreshed e o) o = true.
Proof. apply fresh_refreshed. Qed.

Lemma reflects_new_peer o np : reflects (o_now (new_peer o np)) (o_now o) = true.
Proof. unfold reflects, new_peer; simpl. now rewrite N.eqb_refl, kind_eqb_refl. Qed.

(* rinv looks at the durable part and the providers only *)
Lemma rinv_dur rec d sl sl' :
  sl_org sl' = sl_org sl -> sl_peers sl' = sl_peers sl -> sl_row sl' = sl_row sl -> rinv rec d sl -> rinv rec d sl'.
Proof. unfold rinv. intros -> -> ->. auto. Qed.

Ltac dur := eapply rinv_dur; [reflexivity|reflexivity|reflexivity|eassumption].

Lemma strace_cons np o r sl sl' : sexec np o sl = Some sl' -> strace np (o :: r) sl = sl :: strace (bump o np) r sl'.
Proof. intros H. simpl. now rewrite H. Qed.
Lemma srun_cons np o r sl sl' : sexec np o sl = Some sl' -> srun np (o :: r) sl = srun (bump o np) r sl'.
Proof. intros H. simpl. now rewrite H. Qed.

Ltac fcons := repeat first [apply Forall_nil | apply Forall_cons].

Definition sync_post (rec : bool) (d np : nat) (sl : slot) : Prop :=
  forall know, let ops := plan_sync_slot true know sl in
  Forall (rinv true d) (strace np ops sl) /\
  exists sl' np', srun np ops sl = Some (sl', np') /\ bnd_slot sl' /\ rinv rec d sl' /\
    (sl_row sl <> None -> exists r, sl_row sl' = Some r /\ s_changed (e_org r) = false).

Lemma any_live_single p : any_live [p] = os_live (o_now p).
Proof. unfold any_live; simpl. apply orb_false_r. Qed.

Definition slot_of (sd : bool) (o : obj) (ps : list obj) (r : ent) : slot :=
  {| sl_side := sd; sl_org := o; sl_peers := ps; sl_mem := Some r; sl_row := Some r; sl_dirty := false |}.

(* a discarded entry is marked finished *)
Lemma sync_disc rec d np sd o ps r :
  e_disc r = true -> rinv rec d (slot_of sd o ps r) -> sync_post rec d np (slot_of sd o ps r).
Proof.
  intros Ed Hr. pose proof Hr as [Hconf [Hhas Hr']]. simpl in Hconf, Hhas, Hr'. rewrite Ed in Hr'.
  destruct Hr' as [Hl Ha].
  assert (Ht : rinv true d (slot_of sd o ps r)) by (destruct rec; [assumption|now apply rinv_weaken]).
  assert (Hf : forall rc, rinv rc d (commit (with_mem (slot_of sd o ps r) (ent_discarded r)) (ent_discarded r))).
  { intros rc. unfold rinv; simpl. rewrite Hl, Ha. auto. }
  unfold sync_post. intros know. unfold plan_sync_slot. simpl sl_mem. cbv iota. rewrite Ed.
  assert (E1 : sexec np SDiscard (slot_of sd o ps r) = Some (with_mem (slot_of sd o ps r) (ent_discarded r))).
  { simpl. rewrite Ed, Hl, Ha. reflexivity. }
  split.
  - unfold strace. rewrite E1. simpl sexec. fcons; [exact Ht|dur|apply Hf].
  - unfold srun. rewrite E1. simpl sexec. eexists _, _. split; [reflexivity|].
    split; [split; reflexivity|]. split; [apply Hf|]. intros _. eexists. split; reflexivity.
Qed.

(* ---- the origin object is gone: delete_synced *)
Lemma sync_dead rec d np sd o ps r :
  e_disc r = false -> os_live (o_now o) = false ->
  rinv rec d (slot_of sd o ps r) -> sync_post rec d np (slot_of sd o ps r).
Proof.
  intros Ed Hl Hr. pose proof Hr as [Hconf [Hhas Hr']]. simpl in Hconf, Hhas, Hr'. rewrite Ed in Hr'.
  assert (Ht : rinv true d (slot_of sd o ps r)) by (destruct rec; [assumption|now apply rinv_weaken]).
  set (s0 := slot_of sd o ps r). set (e1 := ent_refreshed r o). set (s1 := with_mem s0 e1).
  assert (E1 : sexec np SRefresh s0 = Some s1) by reflexivity.
  assert (Hfr : fresh e1 o = true) by apply fresh_ent_refreshed.
  unfold sync_post. intros know. unfold plan_sync_slot. simpl sl_mem. cbv iota. rewrite Ed. simpl sl_org. rewrite Hl. simpl negb. cbv iota.
  simpl sl_peers.
  (* what is there to delete *)
  assert (Hcases : (exists p, ps = [p] /\ linked r = true /\ e_ref r = 0 /\ os_live (o_now p) = true) \/
                   ((if s_has (e_peer r) then match nth_error ps (e_ref r) with
                                              | Some p => if os_live (o_now p) then [SPDelete (e_ref r)] else []
                                              | None => [] end else []) = [] /\ any_live ps = false)).
  { destruct (linked r) eqn:El.
    - destruct Hr' as [p (A & B & C & D & E & F)]. subst ps. rewrite B.
      unfold linked in El. apply andb_true_iff in El as [El _]. rewrite El. simpl.
      destruct (os_live (o_now p)) eqn:Lp; [left; exists p; auto|right; auto].
    - right. destruct Hr' as [_ [->|[_ [p (A & B & _)]]]]; [|congruence].
      split; [|reflexivity]. destruct (s_has (e_peer r)); [|reflexivity]. destruct (e_ref r); reflexivity. }
  destruct Hcases as [[p (-> & El & Er & Lp)]|[-> Ha]].
  - (* the recorded peer is still there: delete it, then discard *)
    rewrite Er. unfold linked in El. apply andb_true_iff in El as [Eh Elv]. rewrite Eh. simpl nth_error. cbv iota. rewrite Lp.
    set (p' := push p {| os_path := os_path (o_now p); os_kind := os_kind (o_now p); os_live := false; os_conf := os_conf (o_now p) |} (S np)).
    set (s2 := with_peers s1 [p']).
    assert (E2 : sexec np (SPDelete 0) s1 = Some s2).
    { simpl. fold e1. rewrite Hfr, Hl, Lp. reflexivity. }
    set (e3 := ent_discarded e1). set (s3 := with_mem s2 e3).
    assert (E3 : sexec (S np) SDiscard s2 = Some s3).
    { simpl. fold e1. rewrite Hfr, Hl. simpl. rewrite orb_true_r. reflexivity. }
    assert (Hs2 : rinv true d s2).
    { unfold rinv; simpl. split; [assumption|]. split; [assumption|]. rewrite Ed.
      unfold linked. rewrite Eh, Elv. simpl.
      unfold linked in Hr'. rewrite Eh, Elv in Hr'. simpl in Hr'. destruct Hr' as [q (A & B & C & D & E & F)].
      injection A as <-. exists p'. split; [reflexivity|]. split; [assumption|]. split; [exact C|].
      split; [intros H; congruence|]. split; [discriminate|].
      intros H1 H2. destruct (F H1 H2) as (_ & _ & _ & Hlive). congruence. }
    assert (Hf : forall rc, rinv rc d (commit s3 e3)).
    { intros rc. unfold rinv; simpl. rewrite Hl. auto. }
    split.
    + cbn [app]. rewrite (strace_cons _ _ _ _ _ E1), (strace_cons _ _ _ _ _ E2), (strace_cons _ _ _ _ _ E3).
      simpl strace. fcons; [exact Ht|dur|exact Hs2|dur|apply Hf].
    + cbn [app]. rewrite (srun_cons _ _ _ _ _ E1), (srun_cons _ _ _ _ _ E2), (srun_cons _ _ _ _ _ E3). simpl srun.
      eexists _, _. split; [reflexivity|]. split; [split; reflexivity|]. split; [apply Hf|].
      intros _. eexists. split; reflexivity.
  - (* nothing to delete *)
    set (e3 := ent_discarded e1). set (s3 := with_mem s1 e3).
    assert (E3 : sexec np SDiscard s1 = Some s3).
    { simpl. fold e1. rewrite Hfr, Hl, Ha. simpl. rewrite orb_true_r. reflexivity. }
    assert (Hf : forall rc, rinv rc d (commit s3 e3)).
    { intros rc. unfold rinv; simpl. rewrite Hl, Ha. auto. }
    split.
    + cbn [app]. rewrite (strace_cons _ _ _ _ _ E1), (strace_cons _ _ _ _ _ E3).
      simpl strace. fcons; [exact Ht|dur|dur|apply Hf].
    + cbn [app]. rewrite (srun_cons _ _ _ _ _ E1), (srun_cons _ _ _ _ _ E3). simpl srun.
      eexists _, _. split; [reflexivity|]. split; [split; reflexivity|]. split; [apply Hf|].
      intros _. eexists. split; reflexivity.
Qed.

Lemma rinv_linked_entry rc d sd o p mem dirty :
  os_conf (o_now o) = false -> os_live (o_now o) = true -> reflects (o_now p) (o_now o) = true ->
  rinv rc d {| sl_side := sd; sl_org := o; sl_peers := [p]; sl_mem := mem; sl_row := Some (ent_linked o p 0); sl_dirty := dirty |}.
Proof.
  intros Hc Hl Hr. pose proof (reflects_eq _ _ Hr) as (Rp & Rk & Rl & Rc).
  unfold rinv; simpl. split; [assumption|]. split; [reflexivity|].
  exists p. split; [reflexivity|]. split; [reflexivity|]. split.
  - unfold half; simpl. rewrite Rk. repeat split; auto. destruct (os_kind (o_now o)); exact I.
  - split; [auto|]. split.
    + intros _. unfold matches_marks; simpl. rewrite Rp, Rk. auto.
    + intros _ _. unfold insync; simpl. auto.
Qed.

(* ---- creation: nothing at the translated path *)
Lemma sync_create rec d np sd o r :
  e_disc r = false -> os_live (o_now o) = true -> linked r = false ->
  rinv rec d (slot_of sd o [] r) -> sync_post rec d np (slot_of sd o [] r).
Proof.
  intros Ed Hl El Hr. pose proof Hr as [Hconf [Hhas Hr']]. simpl in Hconf, Hhas, Hr'. rewrite Ed, El in Hr'.
  assert (Ht : rinv true d (slot_of sd o [] r)) by (destruct rec; [assumption|now apply rinv_weaken]).
  set (s0 := slot_of sd o [] r). set (e1 := ent_refreshed r o). set (s1 := with_mem s0 e1).
  assert (E1 : sexec np SRefresh s0 = Some s1) by reflexivity.
  assert (Hfr : fresh e1 o = true) by apply fresh_ent_refreshed.
  set (p := new_peer o np). set (s2 := with_peers s1 [p]).
  assert (E2 : sexec np SPCreate s1 = Some s2).
  { simpl. fold e1. rewrite Hfr, Hl. unfold linked in El. rewrite El. reflexivity. }
  set (e3 := ent_linked o p 0). set (s3 := with_mem s2 e3).
  assert (E3 : sexec (S np) (SLink 0) s2 = Some s3).
  { simpl. fold e1. rewrite Hfr, Hl, Ed. unfold reflects; simpl. rewrite N.eqb_refl, kind_eqb_refl. reflexivity. }
  assert (Hs2 : rinv true d s2).
  { unfold rinv; simpl. split; [assumption|]. split; [assumption|]. rewrite Ed, El.
    split; [apply Hr'|]. right. split; [reflexivity|]. exists p.
    split; [reflexivity|]. split; [assumption|]. apply reflects_new_peer. }
  assert (Hf : forall rc, rinv rc d (commit s3 e3)).
  { intros rc. apply rinv_linked_entry; auto. apply reflects_new_peer. }
  unfold sync_post. intros know. unfold plan_sync_slot. simpl sl_mem. cbv iota. rewrite Ed. simpl sl_org. rewrite Hl. simpl negb. cbv iota.
  unfold linked in El. rewrite El. simpl negb. cbv iota. simpl sl_peers.
  change (first_live_at (os_path (o_now o)) []) with (@None nat). cbv iota. simpl length.
  split.
  - rewrite (strace_cons _ _ _ _ _ E1), (strace_cons _ _ _ _ _ E2), (strace_cons _ _ _ _ _ E3).
    simpl strace. fcons; [exact Ht|dur|exact Hs2|dur|apply Hf].
  - rewrite (srun_cons _ _ _ _ _ E1), (srun_cons _ _ _ _ _ E2), (srun_cons _ _ _ _ _ E3). simpl srun.
    eexists _, _. split; [reflexivity|]. split; [split; reflexivity|]. split; [apply Hf|].
    intros _. eexists. split; reflexivity.
Qed.

(* ---- half-recorded creation: the peer is already there with the same content: adopted, no provider write *)
Lemma sync_adopt d np sd o p r :
  e_disc r = false -> os_live (o_now o) = true -> linked r = false -> reflects (o_now p) (o_now o) = true ->
  rinv true d (slot_of sd o [p] r) -> sync_post true d np (slot_of sd o [p] r).
Proof.
  intros Ed Hl El Hrf Hr. pose proof Hr as [Hconf [Hhas Hr']]. simpl in Hconf, Hhas, Hr'. rewrite Ed, El in Hr'.
  pose proof (reflects_eq _ _ Hrf) as (Rp & Rk & Rl & Rc).
  set (s0 := slot_of sd o [p] r). set (e1 := ent_refreshed r o). set (s1 := with_mem s0 e1).
  assert (E1 : sexec np SRefresh s0 = Some s1) by reflexivity.
  assert (Hfr : fresh e1 o = true) by apply fresh_ent_refreshed.
  set (e3 := ent_linked o p 0). set (s3 := with_mem s1 e3).
  assert (E3 : sexec np (SLink 0) s1 = Some s3).
  { simpl. fold e1. rewrite Hfr, Hl, Ed, Hrf. reflexivity. }
  assert (Hf : forall rc, rinv rc d (commit s3 e3)).
  { intros rc. apply rinv_linked_entry; auto. }
  unfold sync_post. intros know. unfold plan_sync_slot. simpl sl_mem. cbv iota. rewrite Ed. simpl sl_org. rewrite Hl. simpl negb. cbv iota.
  unfold linked in El. rewrite El. simpl negb. cbv iota. simpl sl_peers.
  assert (Hfl : first_live_at (os_path (o_now o)) [p] = Some 0).
  { unfold first_live_at, live_at. rewrite Rl, Rc, Rp, N.eqb_refl. reflexivity. }
  rewrite Hfl. simpl nth_error. cbv iota. rewrite Rk, kind_eqb_refl. simpl andb. cbv iota.
  split.
  - rewrite (strace_cons _ _ _ _ _ E1), (strace_cons _ _ _ _ _ E3).
    simpl strace. fcons; [exact Hr|dur|dur|apply Hf].
  - rewrite (srun_cons _ _ _ _ _ E1), (srun_cons _ _ _ _ _ E3). simpl srun.
    eexists _, _. split; [reflexivity|]. split; [split; reflexivity|]. split; [apply Hf|].
    intros _. eexists. split; reflexivity.
Qed.

(* ---- linked entry, origin alive: rename and/or upload as the marks require, then record *)
Definition tail_post (rec : bool) (d n : nat) (ops : list sop) (s : slot) : Prop :=
  Forall (rinv true d) (strace n ops s) /\
  exists sl' np', srun n ops s = Some (sl', np') /\ bnd_slot sl' /\ rinv rec d sl' /\
    exists r, sl_row sl' = Some r /\ s_changed (e_org r) = false.

Lemma tail_cons rec d n o ops s s' :
  sexec n o s = Some s' -> rinv true d s -> tail_post rec d (bump o n) ops s' -> tail_post rec d n (o :: ops) s.
Proof.
  intros E Hs [HF [sl' [np' H]]]. split.
  - rewrite (strace_cons _ _ _ _ _ E). constructor; assumption.
  - exists sl', np'. rewrite (srun_cons _ _ _ _ _ E). exact H.
Qed.

Definition midP (r : ent) (o : ost) (d ev : nat) (q : ost) : Prop :=
  os_live q = true /\ half r o q /\ (ev <= d -> s_changed (e_org r) = false -> insync r o q).

Lemma midP_rename r o d ev q : midP r o d ev q ->
  midP r o d ev {| os_path := os_path o; os_kind := os_kind q; os_live := true; os_conf := false |}.
Proof.
  intros (Hl & (H1 & H2 & H3 & H4) & Hi). split; [reflexivity|]. split.
  - unfold half; simpl. auto.
  - intros A B. destruct (Hi A B) as (I1 & I2 & I3 & I4). pose proof (reflects_eq _ _ I3) as (Rp & Rk & Rl & Rc).
    unfold insync, reflects; simpl. rewrite Rk, N.eqb_refl, kind_eqb_refl. auto.
Qed.

Lemma midP_upload r o d ev q : same_type (os_kind q) (os_kind o) -> midP r o d ev q ->
  midP r o d ev {| os_path := os_path q; os_kind := os_kind o; os_live := true; os_conf := os_conf q |}.
Proof.
  intros Hst (Hl & (H1 & H2 & H3 & H4) & Hi). split; [reflexivity|]. split.
  - unfold half; simpl. repeat split; auto. destruct (os_kind o); exact I.
  - intros A B. destruct (Hi A B) as (I1 & I2 & I3 & I4). pose proof (reflects_eq _ _ I3) as (Rp & Rk & Rl & Rc).
    unfold insync, reflects; simpl. rewrite Rp, Rc, N.eqb_refl, kind_eqb_refl. auto.
Qed.

Lemma rinv_mid d sd o q r mem dirty :
  os_conf (o_now o) = false -> s_has (e_org r) = true -> e_disc r = false -> linked r = true -> e_ref r = 0 ->
  midP r (o_now o) d (o_ev o) (o_now q) ->
  rinv true d {| sl_side := sd; sl_org := o; sl_peers := [q]; sl_mem := mem; sl_row := Some r; sl_dirty := dirty |}.
Proof.
  intros Hc Hh Ed El Er (Hl & Hhalf & Hi). unfold rinv; simpl. split; [assumption|]. split; [assumption|].
  rewrite Ed, El. exists q. split; [reflexivity|]. split; [assumption|]. split; [assumption|].
  split; [auto|]. split; [discriminate|assumption].
Qed.

Lemma tail_link rec d n sd o q r e :
  os_conf (o_now o) = false -> os_live (o_now o) = true -> fresh e o = true -> e_disc e = false ->
  reflects (o_now q) (o_now o) = true ->
  rinv true d {| sl_side := sd; sl_org := o; sl_peers := [q]; sl_mem := Some e; sl_row := Some r; sl_dirty := true |} ->
  tail_post rec d n [SLink 0; SRow]
            {| sl_side := sd; sl_org := o; sl_peers := [q]; sl_mem := Some e; sl_row := Some r; sl_dirty := true |}.
Proof.
  intros Hc Hl Hf Ed Hrf Hs.
  set (s := {| sl_side := sd; sl_org := o; sl_peers := [q]; sl_mem := Some e; sl_row := Some r; sl_dirty := true |}).
  set (e3 := ent_linked o q 0). set (s3 := with_mem s e3).
  assert (E3 : sexec n (SLink 0) s = Some s3).
  { simpl. rewrite Hf, Hl, Ed, Hrf. reflexivity. }
  assert (Hfin : forall rc, rinv rc d (commit s3 e3)) by (intros rc; apply rinv_linked_entry; auto).
  split.
  - rewrite (strace_cons _ _ _ _ _ E3). simpl strace. fcons; [exact Hs|dur|apply Hfin].
  - rewrite (srun_cons _ _ _ _ _ E3). simpl srun. eexists _, _. split; [reflexivity|].
    split; [split; reflexivity|]. split; [apply Hfin|]. eexists. split; reflexivity.
Qed.

Lemma hash_of_inj a b : same_type a b -> hash_of a = hash_of b -> a = b.
Proof. destruct a, b; simpl; try tauto; congruence. Qed.

Lemma sync_linked rec d np sd o p r :
  e_disc r = false -> os_live (o_now o) = true -> linked r = true ->
  rinv rec d (slot_of sd o [p] r) -> sync_post rec d np (slot_of sd o [p] r).
Proof.
  intros Ed Hl El Hr. pose proof Hr as [Hconf [Hhas Hr']]. simpl in Hconf, Hhas, Hr'. rewrite Ed, El in Hr'.
  destruct Hr' as [p0 (A & Er & Hhalf & Hlp & Hmm & Hins)]. injection A as <-. specialize (Hlp Hl).
  assert (Ht : rinv true d (slot_of sd o [p] r)) by (destruct rec; [assumption|now apply rinv_weaken]).
  assert (HP0 : midP r (o_now o) d (o_ev o) (o_now p)) by (split; [assumption|split; assumption]).
  set (s0 := slot_of sd o [p] r). set (e1 := ent_refreshed r o). set (s1 := with_mem s0 e1).
  assert (E1 : sexec np SRefresh s0 = Some s1) by reflexivity.
  assert (Hfr : fresh e1 o = true) by apply fresh_ent_refreshed.
  assert (Ed1 : e_disc e1 = false) by exact Ed.
  unfold sync_post. intros know. unfold plan_sync_slot. simpl sl_mem. cbv iota. rewrite Ed. simpl sl_org. rewrite Hl. simpl negb. cbv iota.
  unfold linked in El. rewrite El. simpl negb. cbv iota. simpl sl_peers. rewrite Er. simpl nth_error. cbv iota.
  fold (linked r) in El.
  assert (Hmid : forall q, midP r (o_now o) d (o_ev o) (o_now q) ->
            rinv true d {| sl_side := sd; sl_org := o; sl_peers := [q]; sl_mem := Some e1; sl_row := Some r; sl_dirty := true |})
    by (intros q HP; apply rinv_mid; auto).
  assert (Hlink : forall q n, midP r (o_now o) d (o_ev o) (o_now q) -> reflects (o_now q) (o_now o) = true ->
            tail_post rec d n [SLink 0; SRow] {| sl_side := sd; sl_org := o; sl_peers := [q]; sl_mem := Some e1; sl_row := Some r; sl_dirty := true |})
    by (intros q n HP Hrf; apply tail_link; auto).
  (* the upload part, from any middle state whose path is already right *)
  assert (Hupl : forall q n, midP r (o_now o) d (o_ev o) (o_now q) -> os_path (o_now q) = os_path (o_now o) ->
            os_kind (o_now q) = os_kind (o_now p) ->
            tail_post rec d n
              ((if opt_eqb (s_shash (e_org r)) (hash_of (os_kind (o_now o))) then []
                else if know && kind_eqb (os_kind (o_now p)) (os_kind (o_now o)) then []
                else match os_kind (o_now o) with KFile _ => [SPUpload 0] | KDir => [] end) ++ [SLink 0; SRow])
              {| sl_side := sd; sl_org := o; sl_peers := [q]; sl_mem := Some e1; sl_row := Some r; sl_dirty := true |}).
  { intros q n HP Hpath Hkp. pose proof HP as (Lq & (Hq1 & Hq2 & Hq3 & Hq4) & Hqi).
    assert (Hrefl : os_kind (o_now q) = os_kind (o_now o) -> reflects (o_now q) (o_now o) = true).
    { intros Hk. unfold reflects. rewrite Hpath, Hk, N.eqb_refl, kind_eqb_refl, Lq, Hq3. reflexivity. }
    destruct (opt_eqb (s_shash (e_org r)) (hash_of (os_kind (o_now o)))) eqn:Cu.
    - (* the marks say the content is there *)
      simpl app. apply Hlink; [assumption|]. apply Hrefl. apply opt_eqb_eq in Cu.
      destruct Hq2 as [Hq2|Hq2]; [|assumption]. apply hash_of_inj; [assumption|congruence].
    - destruct (know && kind_eqb (os_kind (o_now p)) (os_kind (o_now o))) eqn:Ck.
      { (* the entry knows the peer already has this content: merged, no provider write *)
        simpl app. apply Hlink; [assumption|]. apply Hrefl. apply andb_true_iff in Ck as [_ Ck].
        apply kind_eqb_eq in Ck. congruence. }
      destruct (os_kind (o_now o)) as [c|] eqn:Ko.
      + destruct (os_kind (o_now q)) as [c'|] eqn:Kq; [|destruct Hq4].
        simpl app.
        set (q' := push q {| os_path := os_path (o_now q); os_kind := KFile c; os_live := true; os_conf := os_conf (o_now q) |} (S n)).
        assert (E2 : sexec n (SPUpload 0) {| sl_side := sd; sl_org := o; sl_peers := [q]; sl_mem := Some e1; sl_row := Some r; sl_dirty := true |}
                     = Some {| sl_side := sd; sl_org := o; sl_peers := [q']; sl_mem := Some e1; sl_row := Some r; sl_dirty := true |}).
        { simpl. rewrite Hfr, Hl, Lq, Ko, Kq. reflexivity. }
        assert (HP' : midP r (o_now o) d (o_ev o) (o_now q')).
        { subst q'. simpl. rewrite <- Ko. apply midP_upload; [rewrite Kq, Ko; exact I|assumption]. }
        eapply tail_cons; [exact E2|apply Hmid; assumption|]. apply Hlink; [assumption|].
        subst q'. unfold reflects; simpl. rewrite Hpath, Ko, N.eqb_refl. simpl. rewrite N.eqb_refl, Hq3. reflexivity.
      + simpl app. apply Hlink; [assumption|]. apply Hrefl. destruct (os_kind (o_now q)); [destruct Hq4|reflexivity]. }
  (* the rename part *)
  assert (Hren : tail_post rec d np
              ((if opt_eqb (s_spath (e_org r)) (Some (os_path (o_now o))) then [] else [SPRename 0]) ++
               (if opt_eqb (s_shash (e_org r)) (hash_of (os_kind (o_now o))) then []
                else if know && kind_eqb (os_kind (o_now p)) (os_kind (o_now o)) then []
                else match os_kind (o_now o) with KFile _ => [SPUpload 0] | KDir => [] end) ++ [SLink 0; SRow]) s1).
  { destruct (opt_eqb (s_spath (e_org r)) (Some (os_path (o_now o)))) eqn:Cr.
    - simpl app. apply Hupl; [assumption| |reflexivity]. apply opt_eqb_eq in Cr.
      destruct Hhalf as ([H|H] & _); [congruence|assumption].
    - simpl app.
      set (q' := push p {| os_path := os_path (o_now o); os_kind := os_kind (o_now p); os_live := true; os_conf := false |} (S np)).
      assert (E2 : sexec np (SPRename 0) s1 = Some {| sl_side := sd; sl_org := o; sl_peers := [q']; sl_mem := Some e1; sl_row := Some r; sl_dirty := true |}).
      { simpl. fold e1. rewrite Hfr, Hl, Hlp. reflexivity. }
      assert (HP' : midP r (o_now o) d (o_ev o) (o_now q')) by (subst q'; simpl; apply midP_rename; assumption).
      eapply tail_cons; [exact E2|apply (Hmid p); assumption|]. apply Hupl; [assumption|reflexivity|reflexivity]. }
  destruct (tail_cons rec d np SRefresh _ s0 s1 E1 Ht Hren) as [HF [sl' [np' (A & B & C & D)]]].
  split; [exact HF|]. exists sl', np'. split; [exact A|]. split; [exact B|]. split; [exact C|]. intros _. exact D.
Qed.

(* the sync plan of a slot: every prefix leaves a recoverable durable state, no guard fails, the whole plan
   leaves the slot committed, with the change mark cleared *)
Lemma sync_slot_ok rec d np sl : bnd_slot sl -> rinv rec d sl -> sync_post rec d np sl.
Proof.
  intros [Hd Hm] Hr.
  destruct sl as [sd o ps mem row dirty]. simpl in Hd, Hm. subst dirty mem.
  destruct row as [r|].
  - fold (slot_of sd o ps r) in *.
    destruct (e_disc r) eqn:Ed; [now apply sync_disc|].
    destruct (os_live (o_now o)) eqn:Hl; [|now apply sync_dead].
    pose proof Hr as [Hconf [Hhas Hr']]. simpl in Hconf, Hhas, Hr'. rewrite Ed in Hr'.
    destruct (linked r) eqn:El.
    + destruct Hr' as [p (-> & _)]. now apply sync_linked.
    + destruct Hr' as [_ [->|[-> [p (-> & _ & Hrf)]]]]; [now apply sync_create|now apply sync_adopt].
  - assert (Ht : rinv true d {| sl_side := sd; sl_org := o; sl_peers := ps; sl_mem := None; sl_row := None; sl_dirty := false |})
      by (destruct rec; [assumption|now apply rinv_weaken]).
    unfold sync_post. intros know. unfold plan_sync_slot. simpl. split; [constructor; [assumption|constructor]|]. eexists _, _.
    split; [reflexivity|]. split; [split; reflexivity|]. split; [assumption|]. intros H. now contradict H.
Qed.

(* ---- intake of one event: apply, commit *)
Definition mark_post (rec : bool) (d np : nat) (sl : slot) : Prop :=
  Forall (rinv true d) (strace np [SMark; SRow] sl) /\
  exists sl', srun np [SMark; SRow] sl = Some (sl', np) /\ bnd_slot sl' /\ rinv rec d sl' /\
    exists r, sl_row sl' = Some r /\ s_changed (e_org r) = true.

Lemma rinv_marked rec d sd o ps m mem dirty :
  rinv rec d {| sl_side := sd; sl_org := o; sl_peers := ps; sl_mem := m; sl_row := m; sl_dirty := false |} ->
  rinv rec d {| sl_side := sd; sl_org := o; sl_peers := ps; sl_mem := mem; sl_row := Some (ent_marked m o); sl_dirty := dirty |}.
Proof.
  unfold rinv; simpl. intros [Hc H]. split; [assumption|]. destruct m as [r|]; simpl.
  - destruct H as [Hh H]. split; [reflexivity|]. destruct (e_disc r); [assumption|].
    change (linked {| e_org := marked (e_org r) (o_now o); e_peer := e_peer r; e_ref := e_ref r; e_disc := false |})
      with (linked r).
    destruct (linked r).
    + destruct H as [p (A & B & C & D & E & F)]. exists p. split; [assumption|]. split; [assumption|].
      split; [exact C|]. split; [assumption|]. split; [exact E|]. intros _ Hch. discriminate.
    + destruct H as [_ B]. split; [reflexivity|assumption].
  - destruct H as [-> _]. split; [reflexivity|]. split; [reflexivity|]. left. reflexivity.
Qed.

Lemma mark_slot_ok rec d np sl : bnd_slot sl -> rinv rec d sl -> mark_post rec d np sl.
Proof.
  intros [Hd Hm] Hr. destruct sl as [sd o ps mem row dirty]. simpl in Hd, Hm. subst dirty mem.
  assert (Ht : rinv true d {| sl_side := sd; sl_org := o; sl_peers := ps; sl_mem := row; sl_row := row; sl_dirty := false |})
    by (destruct rec; [assumption|now apply rinv_weaken]).
  unfold mark_post. simpl strace. simpl srun. split.
  - fcons; [exact Ht|dur|]. apply (rinv_marked true); assumption.
  - eexists. split; [reflexivity|]. split; [split; reflexivity|]. split; [now apply rinv_marked|].
    eexists. split; [reflexivity|]. destruct row; reflexivity.
Qed.

(* ------------------------------------------------------------------ the invariant of plan-driven runs *)
Definition good_slot (rec : bool) (x : st) (sl : slot) : Prop :=
  bnd_slot sl /\ rinv rec (sel (sl_side sl) (dcur x)) sl /\ o_ev (sl_org sl) <= sel (sl_side sl) (nev x).
Definition binv (c : cfg) : Prop :=
  let x := c_st c in
  mcur x = dcur x /\ (forall s, sel s (dcur x) <= sel s (nev x)) /\ Forall (good_slot (c_rec c) x) (slots x).

Lemma binv0 : binv cfg0.
Proof. split; [reflexivity|]. split; [intros [|]; simpl; lia|constructor]. Qed.

Lemma good_slot_weaken rec x sl : good_slot rec x sl -> good_slot true x sl.
Proof. intros (A & B & C). split; [assumption|]. split; [|assumption]. destruct rec; [assumption|now apply rinv_weaken]. Qed.

Lemma good_slot_crash x y sl :
  dcur y = dcur x -> (forall s, sel s (nev x) <= sel s (nev y)) -> good_slot true x sl -> good_slot true y (crash_slot sl).
Proof.
  intros Hd Hn (A & B & C). split; [split; reflexivity|]. simpl. rewrite Hd. split; [now apply rinv_crash_slot|].
  specialize (Hn (sl_side sl)). lia.
Qed.

Lemma good_slot_counters rec x y sl :
  dcur y = dcur x -> (forall s, sel s (nev x) <= sel s (nev y)) -> good_slot rec x sl -> good_slot rec y sl.
Proof. intros Hd Hn (A & B & C). split; [assumption|]. rewrite Hd. split; [assumption|]. specialize (Hn (sl_side sl)). lia. Qed.

Lemma map_set_nth {A B} (f : A -> B) : forall l n x, map f (set_nth n x l) = set_nth n (f x) (map f l).
Proof. induction l as [|a l IH]; intros [|n] x; simpl; auto. now rewrite IH. Qed.

(* a plan made of operations on one slot, whose slot-level trace is recoverable everywhere *)
Lemma slot_plan_crash c i sl ops k :
  binv c -> nth_error (slots (c_st c)) i = Some sl ->
  Forall (rinv true (sel (sl_side sl) (dcur (c_st c)))) (strace (sel (negb (sl_side sl)) (nev (c_st c))) ops sl) ->
  srun (sel (negb (sl_side sl)) (nev (c_st c))) ops sl <> None ->
  binv {| c_st := crash (do_plan (c_st c) (firstn k (map (MSlot i) ops))); c_rec := true |}.
Proof.
  intros (Hm & Hdn & Hf) Ei HF Hn. set (x := c_st c) in *.
  destruct (srun_prefix _ _ _ _ HF Hn k) as [sk [nk [Hk Hrk]]].
  rewrite firstn_map. pose proof (run_ops_slot (firstn k ops) x i sl Ei) as Hrun. rewrite Hk in Hrun.
  destruct Hrun as [y (R1 & R2 & R3 & R4 & R5 & R6)]. unfold do_plan. rewrite R1.
  destruct (srun_side _ _ _ _ _ Hk) as (S1 & S2 & S3).
  assert (Hnev : forall s, sel s (nev x) <= sel s (nev y)).
  { intros s. destruct (Bool.eqb s (sl_side sl)) eqn:E.
    - apply eqb_prop in E. subst s. lia.
    - assert (s = negb (sl_side sl)) by (destruct s, (sl_side sl); simpl in *; congruence). subst s. lia. }
  split; [reflexivity|]. simpl. split.
  - intros s. rewrite R6. specialize (Hdn s). specialize (Hnev s). lia.
  - rewrite R2, map_set_nth. apply forall_set_nth.
    + apply Forall_forall. intros z Hz. apply in_map_iff in Hz as [sj [<- Hj]].
      rewrite Forall_forall in Hf. apply (good_slot_crash x); [simpl; assumption|simpl; assumption|].
      eapply good_slot_weaken. apply Hf. assumption.
    + split; [split; reflexivity|]. simpl. rewrite S1, S2, R6. split; [apply rinv_crash_slot; assumption|].
      rewrite Forall_forall in Hf. destruct (Hf sl (nth_error_In _ _ Ei)) as (_ & _ & C). specialize (Hnev (sl_side sl)). lia.
Qed.

Lemma slot_plan_full c i sl ops sl' np' :
  binv c -> nth_error (slots (c_st c)) i = Some sl ->
  srun (sel (negb (sl_side sl)) (nev (c_st c))) ops sl = Some (sl', np') ->
  bnd_slot sl' -> rinv (c_rec c) (sel (sl_side sl) (dcur (c_st c))) sl' ->
  exists y, run_ops (c_st c) (map (MSlot i) ops) = Some y /\ slots y = set_nth i sl' (slots (c_st c)) /\
            mcur y = mcur (c_st c) /\ dcur y = dcur (c_st c) /\ (forall s, sel s (nev (c_st c)) <= sel s (nev y)) /\
            binv {| c_st := y; c_rec := c_rec c |}.
Proof.
  intros (Hm & Hdn & Hf) Ei Hk Hb Hr. set (x := c_st c) in *.
  pose proof (run_ops_slot ops x i sl Ei) as Hrun. rewrite Hk in Hrun.
  destruct Hrun as [y (R1 & R2 & R3 & R4 & R5 & R6)].
  destruct (srun_side _ _ _ _ _ Hk) as (S1 & S2 & S3).
  assert (Hnev : forall s, sel s (nev x) <= sel s (nev y)).
  { intros s. destruct (Bool.eqb s (sl_side sl)) eqn:E.
    - apply eqb_prop in E. subst s. lia.
    - assert (s = negb (sl_side sl)) by (destruct s, (sl_side sl); simpl in *; congruence). subst s. lia. }
  exists y. split; [assumption|]. split; [assumption|]. split; [assumption|]. split; [assumption|]. split; [assumption|].
  split; [simpl; congruence|]. simpl. split.
  - intros s. rewrite R6. specialize (Hdn s). specialize (Hnev s). lia.
  - rewrite R2. apply forall_set_nth.
    + eapply Forall_impl; [|exact Hf]. intros a Ha. apply (good_slot_counters _ x); assumption.
    + split; [assumption|]. rewrite S1, S2, R6. split; [assumption|].
      rewrite Forall_forall in Hf. destruct (Hf sl (nth_error_In _ _ Ei)) as (_ & _ & C). specialize (Hnev (sl_side sl)). lia.
Qed.

Lemma binv_crash c : binv c -> binv {| c_st := crash (c_st c); c_rec := true |}.
Proof.
  intros (Hm & Hdn & Hf). split; [reflexivity|]. simpl. split; [assumption|].
  apply Forall_forall. intros z Hz. apply in_map_iff in Hz as [sj [<- Hj]].
  rewrite Forall_forall in Hf. apply (good_slot_crash (c_st c)); [reflexivity|auto|].
  eapply good_slot_weaken. apply Hf. assumption.
Qed.

Lemma binv_rec_weaken x : binv {| c_st := x; c_rec := false |} -> binv {| c_st := x; c_rec := true |}.
Proof.
  intros (Hm & Hdn & Hf). split; [assumption|]. split; [assumption|]. simpl in *.
  eapply Forall_impl; [|exact Hf]. intros a. apply good_slot_weaken.
Qed.

(* ---- the end of an intake: the cursor moves past events whose marks are committed *)
Lemma rinv_advance rec d d' sl :
  rinv rec d sl -> (o_ev (sl_org sl) <= d \/ row_marked sl = true) -> rinv rec d' sl.
Proof.
  unfold rinv, row_marked. intros [Hc H] Hg. split; [assumption|].
  destruct (sl_row sl) as [r|].
  - destruct H as [Hh H]. split; [assumption|]. destruct (e_disc r); [assumption|].
    assert (Hch : o_ev (sl_org sl) <= d \/ s_changed (e_org r) = true).
    { destruct Hg as [Hg|Hg]; [left; assumption|right]. now apply andb_true_iff in Hg as [Hg _]. }
    destruct (linked r).
    + destruct H as [p (A & B & C & D & E & F)]. exists p. split; [assumption|]. split; [assumption|].
      split; [exact C|]. split; [assumption|]. split; [exact E|].
      intros _ Hn. destruct Hch as [Hle|Hch]; [auto|congruence].
    + destruct H as [A B]. split; [|assumption]. intros _. destruct Hch as [Hle|Hch]; auto.
  - destruct H as [_ H]. destruct Hg as [Hg|Hg]; [lia|discriminate].
Qed.

Lemma upd_same_pair {T} s (v : T) p q : p = q -> upd s v p = upd s v q.
Proof. now intros ->. Qed.

Lemma kend_full c s y :
  binv c -> run_ops (c_st c) [MAdv s; MCursor s] = Some y -> binv {| c_st := y; c_rec := c_rec c |}.
Proof.
  intros (Hm & Hdn & Hf) Hrun. set (x := c_st c) in *. simpl in Hrun.
  destruct (forallb _ (slots x)) eqn:G; [|discriminate]. injection Hrun as <-. simpl.
  rewrite forallb_forall in G.
  split; [simpl; rewrite sel_upd_same; now rewrite Hm|]. simpl. split.
  - intros t. rewrite sel_upd_same, sel_upd. destruct (Bool.eqb t s) eqn:E; [apply eqb_prop in E; subst t; lia|apply Hdn].
  - apply Forall_forall. intros sl Hin. rewrite Forall_forall in Hf. destruct (Hf sl Hin) as (A & B & C).
    split; [assumption|]. simpl. split; [|assumption]. rewrite sel_upd_same, sel_upd.
    destruct (Bool.eqb (sl_side sl) s) eqn:E; [|assumption].
    apply (rinv_advance _ (sel (sl_side sl) (dcur x))); [assumption|].
    specialize (G sl Hin). rewrite E in G. simpl in G. apply orb_true_iff in G as [G|G]; [left|right; assumption].
    apply Nat.leb_le in G. apply eqb_prop in E. rewrite E, <- Hm. exact G.
Qed.

Lemma kend_crash c s k :
  binv c -> binv {| c_st := crash (do_plan (c_st c) (firstn k [MAdv s; MCursor s])); c_rec := true |}.
Proof.
  intros Hb. destruct k as [|[|k]].
  - simpl. now apply binv_crash.
  - unfold do_plan. simpl firstn. simpl run_ops.
    destruct (forallb _ (slots (c_st c))); [|now apply binv_crash].
    change (binv {| c_st := crash (c_st c); c_rec := true |}). now apply binv_crash.
  - assert (E : firstn (S (S k)) [MAdv s; MCursor s] = [MAdv s; MCursor s]) by (destruct k; reflexivity).
    rewrite E. unfold do_plan. destruct (run_ops (c_st c) [MAdv s; MCursor s]) as [y|] eqn:Er; [|now apply binv_crash].
    pose proof (kend_full c s y Hb Er) as Hy.
    change (binv {| c_st := crash (c_st {| c_st := y; c_rec := c_rec c |}); c_rec := true |}). now apply binv_crash.
Qed.

(* ---- a user acts (not during a recovery) *)
Lemma user_change_props o u s' : user_change o u = Some s' ->
  os_live (o_now o) = true /\ os_conf s' = os_conf (o_now o) /\
  (forall k, same_type k (os_kind (o_now o)) -> same_type k (os_kind s')).
Proof.
  unfold user_change. destruct (os_live (o_now o)) eqn:L; simpl; [|discriminate].
  destruct u as [s p k|i c|i p|i]; try discriminate.
  - destruct (os_kind (o_now o)) eqn:K; [|discriminate]. intros H; injection H as <-. simpl. repeat split; auto.
  - intros H; injection H as <-. simpl. auto.
  - intros H; injection H as <-. simpl. auto.
Qed.

Lemma rinv_user d sl s' n u :
  user_change (sl_org sl) u = Some s' -> d < n -> rinv false d sl -> rinv false d (with_org sl (push (sl_org sl) s' n)).
Proof.
  intros Hu Hn [Hc H]. destruct (user_change_props _ _ _ Hu) as (Hl & Hcf & Hty).
  unfold rinv, with_org; simpl. split; [congruence|].
  destruct (sl_row sl) as [r|]; [|destruct H as [A _]; split; [assumption|lia]].
  destruct H as [Hh H]. split; [assumption|]. destruct (e_disc r); [destruct H; congruence|].
  destruct (linked r).
  - destruct H as [p (A & B & (C1 & C2 & C3 & C4) & D & E & F)]. destruct (E eq_refl) as (M1 & M2 & M3).
    exists p. split; [assumption|]. split; [assumption|]. split.
    + unfold half. split; [left; assumption|]. split; [left; assumption|]. split; [assumption|auto].
    + split; [auto|]. split; [auto|]. intros Hle. lia.
  - destruct H as [A [B|[B _]]]; [|discriminate]. split; [intros Hle; lia|left; assumption].
Qed.

Lemma user_binv x u : binv {| c_st := x; c_rec := false |} -> binv {| c_st := user x u; c_rec := false |}.
Proof.
  intros (Hm & Hdn & Hf). simpl in *.
  assert (Hgen : forall i sl s', nth_error (slots x) i = Some sl -> user_change (sl_org sl) u = Some s' ->
    binv {| c_st := {| slots := set_nth i (with_org sl (push (sl_org sl) s' (S (sel (sl_side sl) (nev x))))) (slots x);
                       nev := upd (sl_side sl) (S (sel (sl_side sl) (nev x))) (nev x); mcur := mcur x; dcur := dcur x |};
            c_rec := false |}).
  { intros i sl s' Ei Hu.
    assert (Hnev : forall t, sel t (nev x) <= sel t (upd (sl_side sl) (S (sel (sl_side sl) (nev x))) (nev x))).
    { intros t. rewrite sel_upd. destruct (Bool.eqb t (sl_side sl)) eqn:E; [apply eqb_prop in E; subst t|]; lia. }
    split; [assumption|]. simpl. split; [intros t; specialize (Hdn t); specialize (Hnev t); lia|].
    apply forall_set_nth.
    - eapply Forall_impl; [|exact Hf]. intros a Ha. apply (good_slot_counters _ x); [reflexivity|assumption|assumption].
    - rewrite Forall_forall in Hf. destruct (Hf sl (nth_error_In _ _ Ei)) as (A & B & C).
      split; [exact A|]. simpl. rewrite sel_upd_same. split; [|lia].
      apply (rinv_user _ _ _ _ u); [assumption| |assumption]. specialize (Hdn (sl_side sl)). lia. }
  destruct u as [s p k|i c|i p|i].
  - (* UNew *)
    assert (Hnev : forall t, sel t (nev x) <= sel t (upd s (S (sel s (nev x))) (nev x))).
    { intros t. rewrite sel_upd. destruct (Bool.eqb t s) eqn:E; [apply eqb_prop in E; subst t|]; lia. }
    split; [assumption|]. simpl. split; [intros t; specialize (Hdn t); specialize (Hnev t); lia|].
    apply Forall_app. split.
    + eapply Forall_impl; [|exact Hf]. intros a Ha. apply (good_slot_counters _ x); [reflexivity|assumption|assumption].
    + constructor; [|constructor]. split; [split; reflexivity|]. simpl. rewrite sel_upd_same. split; [|lia].
      unfold rinv; simpl. split; [reflexivity|]. split; [reflexivity|]. specialize (Hdn s). lia.
  - unfold user. simpl uop_slot. cbv iota. destruct (nth_error (slots x) i) as [sl|] eqn:Ei; [|repeat split; assumption].
    destruct (user_change (sl_org sl) (UWrite i c)) as [s'|] eqn:Hu; [|repeat split; assumption]. now apply Hgen.
  - unfold user. simpl uop_slot. cbv iota. destruct (nth_error (slots x) i) as [sl|] eqn:Ei; [|repeat split; assumption].
    destruct (user_change (sl_org sl) (URename i p)) as [s'|] eqn:Hu; [|repeat split; assumption]. now apply Hgen.
  - unfold user. simpl uop_slot. cbv iota. destruct (nth_error (slots x) i) as [sl|] eqn:Ei; [|repeat split; assumption].
    destruct (user_change (sl_org sl) (UDelete i)) as [s'|] eqn:Hu; [|repeat split; assumption]. now apply Hgen.
Qed.

(* ---- quiet again: the recovery is over *)
Lemma rinv_settled x sl : rinv true (sel (sl_side sl) (dcur x)) sl -> slot_settled x sl = true ->
  rinv false (sel (sl_side sl) (dcur x)) sl.
Proof.
  unfold rinv, slot_settled. intros [Hc H] Hs. split; [assumption|].
  apply andb_true_iff in Hs as [Hs Hr]. apply andb_true_iff in Hs as [_ Hle]. apply Nat.leb_le in Hle.
  destruct (sl_row sl) as [r|]; [|discriminate]. apply negb_true_iff in Hr.
  destruct H as [Hh H]. split; [assumption|]. destruct (e_disc r); [assumption|]. destruct (linked r).
  - destruct H as [p (A & B & C & D & E & F)]. exists p. split; [assumption|]. split; [assumption|].
    split; [exact C|]. split; [assumption|]. split; [|assumption]. intros _.
    destruct (F Hle Hr) as (I1 & I2 & I3 & I4). destruct (reflects_eq _ _ I3) as (Rp & Rk & Rl & Rc).
    unfold matches_marks. rewrite Rp, Rk. auto.
  - destruct H as [A _]. specialize (A Hle). congruence.
Qed.

Lemma binv_settle y : binv {| c_st := y; c_rec := true |} -> settled y = true -> binv {| c_st := y; c_rec := false |}.
Proof.
  intros (Hm & Hdn & Hf) Hs. split; [assumption|]. split; [assumption|]. simpl in *.
  unfold settled in Hs. repeat (apply andb_true_iff in Hs as [Hs _]). rewrite forallb_forall in Hs.
  apply Forall_forall. intros sl Hin. rewrite Forall_forall in Hf. destruct (Hf sl Hin) as (A & B & C).
  split; [assumption|]. split; [|assumption]. apply rinv_settled; auto.
Qed.

(* ------------------------------------------------------------------ every step, whole or cut by a crash *)
Lemma in_firstn {T} : forall k (l : list T) x, In x (firstn k l) -> In x l.
Proof. induction k as [|k IH]; intros [|a l] x H; simpl in *; try tauto. destruct H; auto. Qed.

Lemma do_plan_noslot x i ops k : nth_error (slots x) i = None -> do_plan x (firstn k (map (MSlot i) ops)) = x.
Proof.
  intros E. unfold do_plan. destruct (firstn k (map (MSlot i) ops)) as [|m r] eqn:F; [reflexivity|].
  assert (Hm : m = MSlot i (match m with MSlot _ o => o | _ => SRow end) ).
  { assert (In m (map (MSlot i) ops)) by (apply (in_firstn k); rewrite F; now left).
    apply in_map_iff in H as [o [<- _]]. reflexivity. }
  rewrite Hm. simpl. rewrite E. reflexivity.
Qed.

Lemma slot_ops_binv c i sl ops :
  binv c -> nth_error (slots (c_st c)) i = Some sl ->
  Forall (rinv true (sel (sl_side sl) (dcur (c_st c)))) (strace (sel (negb (sl_side sl)) (nev (c_st c))) ops sl) ->
  (exists sl' np', srun (sel (negb (sl_side sl)) (nev (c_st c))) ops sl = Some (sl', np') /\ bnd_slot sl' /\
                   rinv (c_rec c) (sel (sl_side sl) (dcur (c_st c))) sl') ->
  binv {| c_st := do_plan (c_st c) (map (MSlot i) ops); c_rec := c_rec c |} /\
  forall k, binv {| c_st := crash (do_plan (c_st c) (firstn k (map (MSlot i) ops))); c_rec := true |}.
Proof.
  intros Hb Ei HF [sl' [np' (Hs & Hbd & Hr)]]. split.
  - destruct (slot_plan_full c i sl ops sl' np' Hb Ei Hs Hbd Hr) as [y (R1 & _ & _ & _ & _ & Hy)].
    unfold do_plan. rewrite R1. exact Hy.
  - intros k. apply slot_plan_crash with (sl := sl); auto. congruence.
Qed.

Lemma plan_step_binv c m : binv c ->
  binv {| c_st := do_plan (c_st c) (plan_of true (c_st c) m); c_rec := c_rec c |} /\
  forall k, binv {| c_st := crash (do_plan (c_st c) (firstn k (plan_of true (c_st c) m))); c_rec := true |}.
Proof.
  intros Hb. destruct m as [i|s|i]; simpl plan_of.
  - (* KMark *)
    change [MSlot i SMark; MSlot i SRow] with (map (MSlot i) [SMark; SRow]).
    destruct (nth_error (slots (c_st c)) i) as [sl|] eqn:Ei.
    + pose proof Hb as (_ & _ & Hf). rewrite Forall_forall in Hf. destruct (Hf sl (nth_error_In _ _ Ei)) as (A & B & _).
      destruct (mark_slot_ok (c_rec c) _ (sel (negb (sl_side sl)) (nev (c_st c))) sl A B) as [HF [sl' (Hs & Hbd & Hr & _)]].
      apply slot_ops_binv with (sl := sl); eauto.
    + split.
      * rewrite <- (firstn_all (map (MSlot i) [SMark; SRow])). rewrite do_plan_noslot by assumption. now destruct c.
      * intros k. rewrite do_plan_noslot by assumption. now apply binv_crash.
  - (* KEnd *)
    split; [|intros k; now apply kend_crash].
    unfold do_plan. destruct (run_ops (c_st c) [MAdv s; MCursor s]) as [y|] eqn:Er; [now apply (kend_full c s)|now destruct c].
  - (* KSync *)
    unfold plan_sync. destruct (nth_error (slots (c_st c)) i) as [sl|] eqn:Ei.
    + pose proof Hb as (_ & _ & Hf). rewrite Forall_forall in Hf. destruct (Hf sl (nth_error_In _ _ Ei)) as (A & B & _).
      destruct (sync_slot_ok (c_rec c) _ (sel (negb (sl_side sl)) (nev (c_st c))) sl A B (knows_peers (c_st c) sl))
        as [HF [sl' [np' (Hs & Hbd & Hr & _)]]].
      apply slot_ops_binv with (sl := sl); eauto.
    + split; [now destruct c|]. intros k. rewrite firstn_nil. now apply binv_crash.
Qed.

Lemma estep_binv c l d : binv c -> estep true c l = Some d -> binv d.
Proof.
  intros Hb Hs. destruct l as [u|m|m k]; simpl in Hs.
  - destruct (c_rec c) eqn:Er; [discriminate|]. injection Hs as <-. apply user_binv. destruct c; simpl in *. now subst.
  - injection Hs as <-. destruct (plan_step_binv c m Hb) as [Hy _].
    set (y := do_plan (c_st c) (plan_of true (c_st c) m)) in *.
    destruct (c_rec c) eqn:Er; simpl; [|exact Hy].
    destruct (settled y) eqn:Es; simpl; [now apply binv_settle|exact Hy].
  - injection Hs as <-. destruct (plan_step_binv c m Hb) as [_ Hk]. apply Hk.
Qed.

Theorem erun_binv : forall ls c d, binv c -> erun true c ls = Some d -> binv d.
Proof.
  induction ls as [|l ls IH]; intros c d Hb Hr; simpl in Hr.
  - now injection Hr as <-.
  - destruct (estep true c l) as [c1|] eqn:E; [|discriminate]. eapply IH; [|exact Hr]. eapply estep_binv; eauto.
Qed.

(* ------------------------------------------------------------------ the real intake plan *)
Definition pend (s : bool) (c : nat) (sl : slot) : bool := Bool.eqb (sl_side sl) s && Nat.ltb c (o_ev (sl_org sl)).
Definition mark_commit (sl : slot) : slot :=
  let e := ent_marked (sl_mem sl) (sl_org sl) in
  {| sl_side := sl_side sl; sl_org := sl_org sl; sl_peers := sl_peers sl; sl_mem := Some e; sl_row := Some e; sl_dirty := false |}.
Definition mark_if (s : bool) (c : nat) (sl : slot) : slot := if pend s c sl then mark_commit sl else sl.

Lemma run_ops_app : forall l1 l2 x, run_ops x (l1 ++ l2) = match run_ops x l1 with Some y => run_ops y l2 | None => None end.
Proof. induction l1 as [|m r IH]; intros l2 x; simpl; [reflexivity|]. destruct (mstep x m); auto. Qed.

Lemma set_nth_app {T} : forall (l1 : list T) a l2 x, set_nth (length l1) x (l1 ++ a :: l2) = l1 ++ x :: l2.
Proof. induction l1 as [|b l1 IH]; intros; simpl; [reflexivity|]. now rewrite IH. Qed.

Lemma nth_error_mid {T} : forall (l1 : list T) a l2, nth_error (l1 ++ a :: l2) (length l1) = Some a.
Proof. induction l1; simpl; auto. Qed.

Lemma marks_run s c : forall rest done nv mc dc,
  run_ops {| slots := done ++ rest; nev := nv; mcur := mc; dcur := dc |} (plan_marks s c rest (length done)) =
  Some {| slots := done ++ map (mark_if s c) rest; nev := nv; mcur := mc; dcur := dc |}.
Proof.
  induction rest as [|sl rest IH]; intros done nv mc dc; simpl.
  - reflexivity.
  - unfold mark_if at 1. fold (pend s c sl). destruct (pend s c sl) eqn:P.
    + simpl app. simpl run_ops. rewrite nth_error_mid. simpl sexec. cbv iota. simpl.
      rewrite set_nth_app, nth_error_mid. simpl. rewrite set_nth_app.
      specialize (IH (done ++ [mark_commit sl]) nv mc dc). rewrite app_length in IH. simpl in IH.
      rewrite Nat.add_1_r in IH. rewrite <- app_assoc in IH. simpl in IH.
      match goal with |- run_ops _ ?P = ?R =>
        change (run_ops {| slots := done ++ mark_commit sl :: rest; nev := nv; mcur := mc; dcur := dc |} P = R) end.
      rewrite IH. rewrite <- app_assoc. reflexivity.
    + simpl app.
      specialize (IH (done ++ [sl]) nv mc dc). rewrite app_length in IH. simpl in IH.
      rewrite Nat.add_1_r in IH. rewrite <- app_assoc in IH. simpl in IH. rewrite IH.
      rewrite <- app_assoc. reflexivity.
Qed.

Lemma mark_commit_good rec x sl : good_slot rec x sl -> good_slot rec x (mark_commit sl).
Proof.
  intros ((Hd & Hm) & B & C). split; [split; reflexivity|]. simpl. split; [|assumption].
  destruct sl as [sd o ps mem row dirty]. simpl in *. subst. unfold mark_commit; simpl. now apply rinv_marked.
Qed.

Lemma mark_commit_marked sl : row_marked (mark_commit sl) = true.
Proof. unfold row_marked, mark_commit; simpl. destruct (sl_mem sl); reflexivity. Qed.

(* after the intake of side s: same objects; every event of side s is covered by the stored cursor *)
Definition covered (s : bool) (y : st) : Prop :=
  sel s (dcur y) = sel s (nev y) /\ sel s (mcur y) = sel s (nev y).

Lemma kend_run x s :
  forallb (fun sl => negb (Bool.eqb (sl_side sl) s) || Nat.leb (o_ev (sl_org sl)) (sel s (mcur x)) || row_marked sl) (slots x) = true ->
  run_ops x [MAdv s; MCursor s] =
  Some {| slots := slots x; nev := nev x; mcur := upd s (sel s (nev x)) (mcur x);
          dcur := upd s (sel s (upd s (sel s (nev x)) (mcur x))) (dcur x) |}.
Proof. intros H. simpl. rewrite H. reflexivity. Qed.

Lemma intake_ok c s :
  binv c ->
  let y := do_intake s (c_st c) in
  binv {| c_st := y; c_rec := c_rec c |} /\ covered s y /\ nev y = nev (c_st c) /\
  sel (negb s) (dcur y) = sel (negb s) (dcur (c_st c)) /\ sel (negb s) (mcur y) = sel (negb s) (mcur (c_st c)) /\
  slots y = map (mark_if s (sel s (mcur (c_st c)))) (slots (c_st c)).
Proof.
  intros Hb. destruct c as [x rec]. simpl c_st in *. simpl c_rec in *. pose proof Hb as (Hm & Hdn & Hf). simpl in Hm, Hdn, Hf.
  unfold do_intake, plan_intake, do_plan. rewrite run_ops_app.
  pose proof (marks_run s (sel s (mcur x)) (slots x) [] (nev x) (mcur x) (dcur x)) as Hrun. simpl in Hrun.
  assert (Hx : x = {| slots := slots x; nev := nev x; mcur := mcur x; dcur := dcur x |}) by (destruct x; reflexivity).
  rewrite <- Hx in Hrun. rewrite Hrun.
  set (x1 := {| slots := map (mark_if s (sel s (mcur x))) (slots x); nev := nev x; mcur := mcur x; dcur := dcur x |}).
  assert (Hb1 : binv {| c_st := x1; c_rec := rec |}).
  { split; [assumption|]. split; [assumption|]. simpl. apply Forall_forall. intros z Hz.
    apply in_map_iff in Hz as [sl [<- Hin]]. rewrite Forall_forall in Hf. specialize (Hf sl Hin).
    unfold mark_if. destruct (pend s (sel s (mcur x)) sl).
    - apply (good_slot_counters rec x); [reflexivity|auto|]. now apply mark_commit_good.
    - apply (good_slot_counters rec x); [reflexivity|auto|assumption]. }
  assert (Hg : forallb (fun sl => negb (Bool.eqb (sl_side sl) s) || Nat.leb (o_ev (sl_org sl)) (sel s (mcur x1)) || row_marked sl)
                       (slots x1) = true).
  { apply forallb_forall. intros z Hz. simpl in Hz. apply in_map_iff in Hz as [sl [<- Hin]].
    unfold mark_if, pend. destruct (Bool.eqb (sl_side sl) s) eqn:E; simpl.
    - destruct (Nat.ltb (sel s (mcur x)) (o_ev (sl_org sl))) eqn:L; simpl.
      + rewrite mark_commit_marked. apply orb_true_r.
      + rewrite E. simpl. apply Nat.ltb_ge in L. apply Nat.leb_le in L. rewrite L. reflexivity.
    - rewrite E. reflexivity. }
  pose proof (kend_run x1 s Hg) as Hy. rewrite Hy.
  match type of Hy with _ = Some ?Y => set (y := Y) in * end.
  split; [apply (kend_full {| c_st := x1; c_rec := rec |} s y Hb1 Hy)|].
  unfold covered. subst y. simpl. split; [split; now rewrite !sel_upd_same|]. split; [reflexivity|].
  split; [now rewrite sel_upd_other|]. split; [now rewrite sel_upd_other|reflexivity].
Qed.

(* ------------------------------------------------------------------ the recovery *)
Definition done_slot (sl : slot) : Prop := exists r, sl_row sl = Some r /\ s_changed (e_org r) = false.
Definition all_cov (x : st) : Prop := forall sl, In sl (slots x) -> o_ev (sl_org sl) <= sel (sl_side sl) (dcur x).

Lemma nth_error_set_nth_len {T} : forall (l : list T) n x, n < length l -> nth_error (set_nth n x l) n = Some x.
Proof. induction l as [|a l IH]; intros [|n] x H; simpl in *; try lia; auto. apply IH. lia. Qed.

Lemma map_set_nth_same {A B} (f : A -> B) : forall l n x y, nth_error l n = Some y -> f x = f y -> map f (set_nth n x l) = map f l.
Proof. induction l as [|a l IH]; intros [|n] x y H E; simpl in *; try discriminate; auto. - injection H as ->. now rewrite E. - f_equal. eauto. Qed.

Lemma syncs_ok : forall n c,
  binv c -> all_cov (c_st c) -> n <= length (slots (c_st c)) ->
  let b := do_syncs true (c_st c) n in
  binv {| c_st := b; c_rec := c_rec c |} /\ dcur b = dcur (c_st c) /\ mcur b = mcur (c_st c) /\ all_cov b /\
  map sl_org (slots b) = map sl_org (slots (c_st c)) /\ length (slots b) = length (slots (c_st c)) /\
  (forall i, i < n -> exists sl, nth_error (slots b) i = Some sl /\ done_slot sl) /\
  (forall i, n <= i -> nth_error (slots b) i = nth_error (slots (c_st c)) i).
Proof.
  induction n as [|n IH]; intros c Hb Hcov Hn; simpl.
  - split; [destruct c; exact Hb|]. split; [reflexivity|]. split; [reflexivity|]. split; [assumption|].
    split; [reflexivity|]. split; [reflexivity|]. split; [intros i Hi; lia|reflexivity].
  - destruct (IH c Hb Hcov) as (B1 & B2 & B3 & B4 & B5 & B6 & B7 & B8); [lia|].
    set (b := do_syncs true (c_st c) n) in *.
    assert (Hlt : n < length (slots b)) by lia.
    destruct (nth_error (slots b) n) as [sl|] eqn:Ei; [|apply nth_error_None in Ei; lia].
    unfold do_sync, plan_sync. rewrite Ei.
    pose proof B1 as (_ & _ & Hf). simpl in Hf. rewrite Forall_forall in Hf.
    destruct (Hf sl (nth_error_In _ _ Ei)) as (A & B & C).
    destruct (sync_slot_ok (c_rec c) _ (sel (negb (sl_side sl)) (nev b)) sl A B (knows_peers b sl)) as [HF [sl' [np' (Hs & Hbd & Hr & Hdone)]]].
    destruct (slot_plan_full {| c_st := b; c_rec := c_rec c |} n sl _ sl' np' B1 Ei Hs Hbd Hr)
      as [y (R1 & R2 & R3 & R4 & R5 & R6)].
    unfold do_plan. simpl c_st in R1, R2, R3, R4, R5. simpl c_rec in R6. rewrite R1.
    destruct (srun_side _ _ _ _ _ Hs) as (S1 & S2 & S3).
    assert (Hrow : sl_row sl <> None).
    { intros Hn0. destruct B as [_ B]. rewrite Hn0 in B. destruct B as [_ B]. specialize (B4 sl (nth_error_In _ _ Ei)). lia. }
    split; [exact R6|]. split; [congruence|]. split; [congruence|]. split.
    { intros z Hz. rewrite R2 in Hz. apply in_set_nth in Hz as [->|Hz].
      - rewrite S1, S2, R4. apply B4. eapply nth_error_In; eauto.
      - rewrite R4. apply B4. assumption. }
    split; [rewrite R2, <- B5; apply (map_set_nth_same sl_org _ _ _ sl); auto|].
    split; [rewrite R2, length_set_nth; assumption|]. split.
    + intros i Hi. rewrite R2. destruct (Nat.eq_dec i n) as [->|Hne].
      * exists sl'. split; [apply nth_error_set_nth_len; assumption|]. apply Hdone. assumption.
      * rewrite nth_set_nth_ne by congruence. apply B7. lia.
    + intros i Hi. rewrite R2, nth_set_nth_ne by lia. apply B8. lia.
Qed.

Lemma no_pending_map s x : mcur x = dcur x -> all_cov x -> map (mark_if s (sel s (mcur x))) (slots x) = slots x.
Proof.
  intros Hm Hc. rewrite <- (map_id (slots x)) at 2. apply map_ext_in. intros sl Hin.
  unfold mark_if, pend. destruct (Bool.eqb (sl_side sl) s) eqn:E; [|reflexivity]. simpl.
  apply eqb_prop in E. specialize (Hc sl Hin). rewrite E, <- Hm in Hc.
  destruct (Nat.ltb (sel s (mcur x)) (o_ev (sl_org sl))) eqn:L; [apply Nat.ltb_lt in L; lia|reflexivity].
Qed.

(* a slot whose row is committed without change mark and whose events are all covered *)
Lemma done_slot_views d sl : rinv false d sl -> done_slot sl -> o_ev (sl_org sl) <= d ->
  slot_view false sl = slot_view true sl /\
  existsb (fun o => os_live (o_now o) && os_conf (o_now o)) (sl_org sl :: sl_peers sl) = false /\
  live_count (sl_peers sl) <= 1.
Proof.
  intros [Hc H] [r [Er Hch]] Hle. rewrite Er in H. destruct H as [Hh H].
  destruct (e_disc r).
  - destruct H as [Hl Ha]. unfold any_live in Ha.
    assert (Hv : flat_map view_of (sl_peers sl) = [] /\ live_count (sl_peers sl) = 0 /\
                 existsb (fun o => os_live (o_now o) && os_conf (o_now o)) (sl_peers sl) = false).
    { clear -Ha. induction (sl_peers sl) as [|p ps IH]; simpl in *; [auto|].
      apply orb_false_iff in Ha as [Hp Hps]. destruct (IH Hps) as (I1 & I2 & I3).
      unfold view_of, live_count in *. simpl. rewrite Hp. simpl. auto. }
    destruct Hv as (V1 & V2 & V3). split.
    + unfold slot_view. rewrite V1. unfold view_of. rewrite Hl. now destruct (Bool.eqb (sl_side sl) false), (Bool.eqb (sl_side sl) true).
    + simpl. rewrite Hl, V3. split; [reflexivity|lia].
  - destruct (linked r).
    + destruct H as [p (A & B & C & D & E & F)]. destruct (F Hle Hch) as (I1 & I2 & I3 & I4).
      destruct (reflects_eq _ _ I3) as (Rp & Rk & Rl & Rc). split.
      * unfold slot_view. rewrite A. simpl. rewrite app_nil_r. unfold view_of. rewrite I4, Rl, Rp, Rk, Rc, Hc.
        now destruct (Bool.eqb (sl_side sl) false), (Bool.eqb (sl_side sl) true).
      * rewrite A. simpl. rewrite Hc, Rc, !andb_false_r. split; [reflexivity|]. unfold live_count; simpl. destruct (os_live (o_now p)); simpl; lia.
    + destruct H as [H _]. specialize (H Hle). congruence.
Qed.

Lemma flat_map_ext_in {A B} (f g : A -> list B) l : (forall a, In a l -> f a = g a) -> flat_map f l = flat_map g l.
Proof. induction l as [|a l IH]; intros H; simpl; [reflexivity|]. rewrite H by now left. rewrite IH; auto. intros b Hb. apply H. now right. Qed.

Definition converged (x y : st) : Prop :=
  settled y = true /\ view false y = view true y /\ has_conflicted y = false /\ no_duplicate y = true /\
  origins y = origins x.

Theorem recover_converges c : binv c -> converged (c_st c) (recover (c_st c)).
Proof.
  intros Hb. unfold recover, recover_with.
  pose proof (binv_crash c Hb) as H1. set (c1 := {| c_st := crash (c_st c); c_rec := true |}) in *.
  destruct (intake_ok c1 false H1) as (H2 & [C2a C2b] & N2 & D2 & M2 & S2). simpl c_st in *. simpl c_rec in *.
  set (x2 := do_intake false (crash (c_st c))) in *.
  destruct (intake_ok {| c_st := x2; c_rec := true |} true H2) as (H3 & [C3a C3b] & N3 & D3 & M3 & S3). simpl c_st in *. simpl c_rec in *.
  set (a := do_intake true x2) in *. simpl negb in *.
  assert (Hcov : all_cov a).
  { intros sl Hin. pose proof H3 as (_ & _ & Hf). cbn [c_st c_rec] in Hf. rewrite Forall_forall in Hf. destruct (Hf sl Hin) as (_ & _ & Hle).
    destruct (sl_side sl); cbn [sel negb] in *; [rewrite C3a|rewrite D3, C2a, <- N3]; exact Hle. }
  destruct (syncs_ok (length (slots a)) {| c_st := a; c_rec := true |} H3 Hcov (le_n _))
    as (B1 & B2 & B3 & B4 & B5 & B6 & B7 & _). simpl c_st in *. simpl c_rec in *.
  set (b := do_syncs true a (length (slots a))) in *.
  destruct (intake_ok {| c_st := b; c_rec := true |} false B1) as (H4 & [C4a C4b] & N4 & D4 & M4 & S4). simpl c_st in *. simpl c_rec in *.
  pose proof B1 as (Bm & _ & _). simpl in Bm.
  rewrite (no_pending_map false b Bm B4) in S4.
  set (y1 := do_intake false b) in *. simpl negb in *.
  assert (Hm1 : mcur y1 = dcur y1) by (destruct H4 as (A & _); exact A).
  assert (Hcov1 : all_cov y1).
  { intros sl Hin. pose proof H4 as (_ & _ & Hf). cbn [c_st c_rec] in Hf. rewrite Forall_forall in Hf. destruct (Hf sl Hin) as (_ & _ & Hle).
    rewrite S4 in Hin. pose proof (B4 sl Hin) as Hb4.
    destruct (sl_side sl); cbn [sel negb] in Hle, Hb4, D4, C4a |- *; [rewrite D4; exact Hb4|rewrite C4a; exact Hle]. }
  destruct (intake_ok {| c_st := y1; c_rec := true |} true H4) as (H5 & [C5a C5b] & N5 & D5 & M5 & S5). simpl c_st in *. simpl c_rec in *.
  rewrite (no_pending_map true y1 Hm1 Hcov1) in S5.
  set (y := do_intake true y1) in *. simpl negb in *.
  (* settled *)
  assert (Hslots : slots y = slots b) by congruence.
  assert (Hdone : forall sl, In sl (slots y) -> done_slot sl /\ o_ev (sl_org sl) <= sel (sl_side sl) (dcur y) /\ sl_dirty sl = false).
  { intros sl Hin. pose proof H5 as (_ & _ & Hf). cbn [c_st c_rec] in Hf. rewrite Forall_forall in Hf. destruct (Hf sl Hin) as ((Hd & _) & _ & Hle).
    rewrite Hslots in Hin. apply In_nth_error in Hin as [i Hi].
    assert (Hlt : i < length (slots a)) by (rewrite <- B6; apply nth_error_Some; congruence).
    destruct (B7 i Hlt) as [sl0 [E0 Hd0]]. rewrite Hi in E0. injection E0 as <-.
    split; [assumption|]. split; [|assumption].
    destruct (sl_side sl); cbn [sel negb] in *; [rewrite C5a|rewrite D5, C4a, <- N5]; exact Hle. }
  assert (Hset : settled y = true).
  { unfold settled. rewrite !andb_true_iff. repeat split.
    - apply forallb_forall. intros sl Hin. destruct (Hdone sl Hin) as ([r [Er Hc]] & Hle & Hd).
      unfold slot_settled. rewrite Hd, Er, Hc. simpl. rewrite andb_true_r. apply Nat.leb_le. assumption.
    - apply Nat.eqb_eq. cbn [sel negb] in D5, C4a. rewrite D5, C4a, <- N5. reflexivity.
    - apply Nat.eqb_eq. exact C5a.
    - apply Nat.eqb_eq. cbn [sel negb] in M5, C4b. rewrite M5, C4b, <- N5. reflexivity.
    - apply Nat.eqb_eq. exact C5b. }
  pose proof (binv_settle y H5 Hset) as H6.
  assert (Hper : forall sl, In sl (slots y) ->
            slot_view false sl = slot_view true sl /\
            existsb (fun o => os_live (o_now o) && os_conf (o_now o)) (sl_org sl :: sl_peers sl) = false /\
            live_count (sl_peers sl) <= 1).
  { intros sl Hin. pose proof H6 as (_ & _ & Hf). cbn [c_st c_rec] in Hf. rewrite Forall_forall in Hf. destruct (Hf sl Hin) as (_ & Hr & _).
    destruct (Hdone sl Hin) as (Hd & Hle & _). exact (done_slot_views _ sl Hr Hd Hle). }
  split; [exact Hset|]. split.
  { unfold view. apply flat_map_ext_in. intros sl Hin. apply Hper. assumption. }
  split.
  { unfold has_conflicted. destruct (existsb _ (slots y)) eqn:E; [|reflexivity].
    apply existsb_exists in E as [sl [Hin E]]. destruct (Hper sl Hin) as (_ & Hn & _). congruence. }
  split.
  { unfold no_duplicate. apply forallb_forall. intros sl Hin. destruct (Hper sl Hin) as (_ & _ & Hn). apply Nat.leb_le. assumption. }
  unfold origins. rewrite Hslots, B5, S3, S2. simpl. rewrite !map_map.
  apply map_ext. intros sl. unfold mark_if. destruct (pend _ _ _), (pend _ _ _); reflexivity.
Qed.
