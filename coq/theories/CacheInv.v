(* CacheInv.v — the invariant of the cache tree and its preservation by every operation. *)
From Coq Require Import NArith List Bool Lia.
From CS Require Import Sx Str CacheModel CacheProofs.
Import ListNotations.

Definition has_id (t : node) (q : list N) (o : N) : Prop :=
  exists nd, lookup q t = Some nd /\ n_id nd = Some o.
Definition uniq (t : node) : Prop := forall q1 q2 o, has_id t q1 o -> has_id t q2 o -> q1 = q2.
Definition ids_sub (t' t : node) : Prop := forall q o, has_id t' q o -> has_id t q o.
Definition view_sub (t' t : node) : Prop := forall q e, view t' q = Some e -> view t q = Some e.

Lemma has_id_view t q o : has_id t q o <-> exists d m, view t q = Some (d, Some o, m).
Proof.
  unfold has_id, view. split.
  - intros [nd [Hl Hi]]. exists (n_dir nd), (n_md nd). rewrite Hl. simpl. unfold info. rewrite Hi. reflexivity.
  - intros [d [m H]]. destruct (lookup q t) as [nd|]; [|discriminate]. exists nd. split; [reflexivity|].
    simpl in H. unfold info in H. inversion H. reflexivity.
Qed.

Lemma view_sub_ids t' t : view_sub t' t -> ids_sub t' t.
Proof.
  intros H q o Hh. apply has_id_view in Hh as [d [m Hv]]. apply has_id_view. exists d, m. apply H. exact Hv.
Qed.

Lemma view_sub_refl t : view_sub t t. Proof. intros q e H. exact H. Qed.
Lemma view_sub_trans a b c : view_sub a b -> view_sub b c -> view_sub a c.
Proof. intros H1 H2 q e H. apply H2, H1, H. Qed.
Lemma ids_sub_refl t : ids_sub t t. Proof. intros q o H. exact H. Qed.
Lemma ids_sub_trans a b c : ids_sub a b -> ids_sub b c -> ids_sub a c.
Proof. intros H1 H2 q o H. apply H2, H1, H. Qed.

Lemma uniq_sub t' t : uniq t -> ids_sub t' t -> uniq t'.
Proof. intros Hu Hs q1 q2 o H1 H2. apply (Hu q1 q2 o); apply Hs; assumption. Qed.

Lemma view_nil t : view t [] = Some (info t). Proof. reflexivity. Qed.

Lemma view_sub_info t' t : view_sub t' t -> info t' = info t.
Proof. intros H. specialize (H [] (info t') (view_nil t')). rewrite view_nil in H. congruence. Qed.

Lemma view_sub_remove rp t : rp <> [] -> view_sub (remove rp t) t.
Proof.
  intros Hne q e H. rewrite view_remove in H by exact Hne. destruct (prefixb rp q); [discriminate|exact H].
Qed.

Lemma has_id_remove rp t q o : rp <> [] -> has_id (remove rp t) q o -> has_id t q o /\ prefixb rp q = false.
Proof.
  intros Hne H. apply has_id_view in H as [d [m H]]. rewrite view_remove in H by exact Hne.
  destruct (prefixb rp q); [discriminate|]. split; [|reflexivity]. apply has_id_view. eauto.
Qed.

Lemma view_sub_clear t : view_sub (clear_kids t) t.
Proof.
  intros q e H. unfold view in *. rewrite lookup_clear_kids in H. destruct q; [|discriminate].
  simpl in *. rewrite info_clear_kids in H. exact H.
Qed.

Lemma ids_sub_mkdirp p t : ids_sub (mkdirp p t) t.
Proof.
  intros q o H. apply has_id_view in H as [d [m H]]. apply has_id_view. exists d, m.
  apply (mkdirp_ids p). exact H.
Qed.

Lemma n_dir_mkdirp p t : n_dir (mkdirp p t) = n_dir t.
Proof.
  destruct p as [|n p]; [reflexivity|]. destruct t as [d i m kids]. simpl.
  destruct (aget n kids) as [[[|] ? ? ?]|]; reflexivity.
Qed.

Lemma n_id_mkdirp p t : n_id (mkdirp p t) = n_id t.
Proof.
  destruct p as [|n p]; [reflexivity|]. destruct t as [d i m kids]. simpl.
  destruct (aget n kids) as [[[|] ? ? ?]|]; reflexivity.
Qed.

(* ------------------------------------------------------------------ the invariant *)
Definition InvT (t : node) : Prop :=
  knodup t = true /\ files_leaf t = true /\ uniq t /\ n_dir t = true.
Definition Inv (c : cache) : Prop := InvT (c_root c).

Lemma inv_single d o m : d = true \/ True -> knodup (Node d o m []) = true /\ files_leaf (Node d o m []) = true /\ uniq (Node d o m []).
Proof.
  intros _. split; [reflexivity|]. split; [destruct d; reflexivity|].
  intros q1 q2 x [n1 [H1 _]] [n2 [H2 _]]. destruct q1, q2; simpl in *; try discriminate. reflexivity.
Qed.

Lemma inv_init r m : Inv (init r m).
Proof.
  unfold Inv, InvT. simpl. destruct (inv_single true (Some r) m) as [A [B C]]; [auto|]. auto.
Qed.

Lemma invT_view_sub t' t :
  InvT t -> view_sub t' t -> knodup t' = true -> files_leaf t' = true -> InvT t'.
Proof.
  intros [_ [_ [U D]]] Hs K F. split; [exact K|]. split; [exact F|]. split.
  - eapply uniq_sub; [exact U|apply view_sub_ids; exact Hs].
  - apply view_sub_info in Hs. unfold info in Hs. inversion Hs. congruence.
Qed.

Lemma delete_loc_spec c l :
  c_ghosts (snd (delete_loc c l)) = c_ghosts c /\
  view_sub (c_root (snd (delete_loc c l))) (c_root c) /\
  (Inv c -> Inv (snd (delete_loc c l))).
Proof.
  destruct l as [|rp|o g]; [simpl; split; [reflexivity|]; split; [apply view_sub_refl|auto]| |
                           simpl; split; [reflexivity|]; split; [apply view_sub_refl|auto]].
  destruct rp as [|n rp]; cbn [delete_loc snd with_root c_root c_ghosts].
  - split; [reflexivity|]. split; [apply view_sub_clear|].
    intros H. unfold Inv in *. cbn [c_root]. eapply invT_view_sub; [exact H|apply view_sub_clear| |].
    + apply all_nodes_clear; [reflexivity|apply H].
    + apply all_nodes_clear; [apply PF_nil|apply H].
  - split; [reflexivity|]. split; [apply view_sub_remove; discriminate|].
    intros H. unfold Inv in *. cbn [c_root]. eapply invT_view_sub; [exact H|apply view_sub_remove; discriminate| |].
    + apply all_nodes_remove; [apply PK_del|apply H].
    + apply all_nodes_remove; [apply PF_del|apply H].
Qed.

Lemma rid_spec c o : has_id (c_root c) [] o -> rid c = o.
Proof. intros [nd [Hl Hi]]. simpl in Hl. inversion Hl; subst. unfold rid. rewrite Hi. reflexivity. Qed.

(* after self.delete(oid=o) the id o is gone from the tree, except when it is the root's own id *)
Lemma loc_oid_fresh c o q :
  Inv c -> (forall g gn, loc_oid c o <> LGhost g gn) ->
  has_id (c_root (snd (delete_loc c (loc_oid c o)))) q o ->
  q = [] /\ loc_oid c o = LTree [].
Proof.
  intros [K [_ [U _]]] Hng H. unfold loc_oid in *.
  destruct (N.eqb_spec o (rid c)) as [Heq|Hne].
  - cbn [delete_loc snd with_root c_root] in H. destruct H as [nd [Hl _]]. rewrite lookup_clear_kids in Hl. destruct q; [auto|discriminate].
  - destruct (aget o (c_ghosts c)) as [g|]; [exfalso; eapply Hng; reflexivity|].
    destruct (aget o (index (c_root c))) as [rp|] eqn:E.
    + apply aget_in in E. destruct (index_sound _ K _ _ E) as [nd [Hl Hi]].
      assert (Hrp : rp <> []).
      { intros ->. apply Hne. symmetry. apply rid_spec. exists nd. auto. }
      destruct rp as [|n rp]; [congruence|]. cbn [delete_loc snd with_root c_root] in H.
      apply has_id_remove in H as [H1 H2]; [|discriminate].
      assert (q = n :: rp) by (apply (U _ _ o H1); exists nd; auto). subst q.
      rewrite prefixb_refl in H2. discriminate.
    + cbn [delete_loc snd with_root c_root] in H. destruct H as [nd [Hl Hi]].
      pose proof (index_complete _ _ _ _ Hl Hi) as Hin. apply in_aget in Hin as [v Hv]. congruence.
Qed.

(* ------------------------------------------------------------------ attaching a subtree *)
Lemma has_id_attach par nm nd t q o :
  has_id (modify par (add_kid nm nd) t) q o ->
  (has_id t q o /\ prefixb (par ++ [nm]) q = false) \/ (exists r, q = par ++ nm :: r /\ has_id nd r o).
Proof.
  intros H. destruct (prefixb par q) eqn:Ep.
  - apply prefixb_true in Ep as [r ->]. destruct H as [x [Hl Hi]].
    rewrite lookup_modify_ext in Hl. destruct (lookup par t) as [P|] eqn:EP; [|discriminate].
    destruct r as [|m r].
    + left. split; [|rewrite app_nil_r; apply prefixb_snoc_self].
      simpl in Hl. inversion Hl; subst. exists P. rewrite app_nil_r. split; [exact EP|].
      destruct P; exact Hi.
    + destruct P as [d i md kids]. simpl in Hl.
      destruct (N.eqb_spec nm m) as [->|Hne].
      * right. exists r. split; [reflexivity|]. rewrite aget_aset_eq in Hl. exists x. auto.
      * left. rewrite aget_aset_neq in Hl by exact Hne. split.
        -- exists x. split; [|exact Hi]. rewrite lookup_app, EP. simpl. exact Hl.
        -- rewrite prefixb_snoc. apply N.eqb_neq. exact Hne.
  - left. split; [|apply prefixb_weaken; exact Ep].
    apply has_id_view in H as [d [m H]]. rewrite view_modify_other in H by exact Ep.
    apply has_id_view. eauto.
Qed.

Lemma info_modify_add par nm nd t : info (modify par (add_kid nm nd) t) = info t.
Proof.
  destruct par as [|n par]; simpl.
  - destruct t; reflexivity.
  - apply info_descend.
Qed.

Lemma attach_inv par nm nd c3 :
  Inv c3 -> knodup nd = true -> files_leaf nd = true -> uniq nd ->
  (forall r q o, has_id nd r o -> has_id (c_root c3) q o -> False) ->
  (forall P, lookup par (c_root c3) = Some P -> n_dir P = true) ->
  Inv (snd (attach_node par nm nd c3)).
Proof.
  intros HI Kn Fn Un Hdisj Hdir. unfold attach_node.
  destruct (lookup par (c_root c3)) as [P|] eqn:EP.
  - destruct HI as [K [F [U D]]]. unfold Inv. simpl. split; [|split; [|split]].
    + apply all_nodes_modify; [exact K|]. intros x Hx Kx.
      apply (all_nodes_add_kid PK (fun _ => True)); auto using PK_add.
      apply Hdir. rewrite <- EP. congruence.
    + apply all_nodes_modify; [exact F|]. intros x Hx Fx.
      apply (all_nodes_add_kid PF (fun _ => True)); auto using PF_add.
      apply Hdir. congruence.
    + intros q1 q2 o H1 H2. apply has_id_attach in H1. apply has_id_attach in H2.
      destruct H1 as [[H1 _]|[r1 [-> H1]]], H2 as [[H2 _]|[r2 [-> H2]]].
      * apply (U _ _ o); assumption.
      * exfalso. eapply Hdisj; eauto.
      * exfalso. eapply Hdisj; eauto.
      * rewrite (Un _ _ _ H1 H2). reflexivity.
    + pose proof (info_modify_add par nm nd (c_root c3)) as Hi. unfold info in Hi. inversion Hi. congruence.
  - destruct (n_id nd); exact HI.
Qed.

(* ------------------------------------------------------------------ __insert_node *)
Lemma inv_mkdirp p c : Inv c -> Inv (with_root c (mkdirp p (c_root c))).
Proof.
  intros [K [F [U D]]]. unfold Inv. simpl. split; [|split; [|split]].
  - apply (all_nodes_mkdirp PK (fun _ => True)); auto using PK_del, PK_add, PK_nil.
    apply Forall_forall. auto.
  - apply (all_nodes_mkdirp PF (fun _ => True)); auto using PF_del, PF_add, PF_nil.
    apply Forall_forall. auto.
  - eapply uniq_sub; [exact U|apply ids_sub_mkdirp].
  - rewrite n_dir_mkdirp. exact D.
Qed.

Lemma insert_node_inv cf c nd raw :
  Inv c -> knodup nd = true -> files_leaf nd = true -> uniq nd ->
  (forall r q o, has_id nd r o -> has_id (c_root c) q o -> r = []) ->
  Inv (snd (insert_node cf c nd raw)).
Proof.
  intros HI Kn Fn Un Hpre. unfold insert_node, insert_tail.
  remember (map (cf_fold cf) (removelast raw)) as par eqn:Epar0. clear Epar0.
  set (nm := last raw 0%N).
  set (c1 := with_root c (mkdirp par (c_root c))).
  assert (HI1 : Inv c1) by (apply inv_mkdirp; exact HI).
  assert (Hs1 : ids_sub (c_root c1) (c_root c)) by apply ids_sub_mkdirp.
  destruct (delete_loc_spec c1 (loc_path cf c1 raw)) as [_ [Hv2 HI2]].
  set (c2 := snd (delete_loc c1 (loc_path cf c1 raw))) in *.
  specialize (HI2 HI1).
  assert (Hs2 : ids_sub (c_root c2) (c_root c)).
  { eapply ids_sub_trans; [apply view_sub_ids; exact Hv2|exact Hs1]. }
  (* the parent is a directory wherever it survives *)
  assert (Hdir : forall c3, view_sub (c_root c3) (c_root c2) ->
                 forall P, lookup par (c_root c3) = Some P -> n_dir P = true).
  { intros c3 Hv3 P HP.
    assert (Hv : view (c_root c3) par = Some (info P)) by (unfold view; rewrite HP; reflexivity).
    apply Hv3, Hv2 in Hv. destruct HI as [_ [_ [_ D]]].
    destruct (mkdirp_dir par (c_root c) D) as [x [Hx Hxd]].
    unfold view in Hv. simpl in Hv. rewrite Hx in Hv. simpl in Hv. unfold info in Hv. inversion Hv. congruence. }
  destruct (n_id nd) as [o|] eqn:Eo.
  - destruct (loc_oid c2 o) eqn:El.
    + (* LNone *)
      simpl. destruct (oid_is _ o); [exact HI2|].
      apply attach_inv; auto.
      * intros r q o' H1 H2.
        assert (r = []) by (eapply Hpre; [exact H1|apply Hs2; exact H2]). subst r.
        assert (o' = o) by (destruct H1 as [x [Hx Hi]]; simpl in Hx; inversion Hx; subst; congruence). subst o'.
        assert (Hf := loc_oid_fresh c2 o q HI2). rewrite El in Hf. simpl in Hf.
        destruct Hf as [_ Hf]; [intros; discriminate|exact H2|discriminate].
      * apply (Hdir c2). apply view_sub_refl.
    + (* LTree *)
      destruct (delete_loc_spec c2 (LTree rp)) as [_ [Hv3 HI3]]. specialize (HI3 HI2).
      destruct (oid_is _ o) eqn:Epid; [exact HI3|].
      destruct rp as [|n0 rp'].
      * (* the root's own id: only the root can be the surviving parent, and then pid = o *)
        destruct par as [|n par'].
        -- apply attach_inv; auto.
           ++ intros r q o' H1 H2.
              assert (r = []).
              { eapply Hpre; [exact H1|]. apply Hs2. apply (view_sub_ids _ _ Hv3). exact H2. } subst r.
              assert (o' = o) by (destruct H1 as [x [Hx Hi]]; simpl in Hx; inversion Hx; subst; congruence). subst o'.
              cbn [delete_loc snd with_root c_root] in H2. destruct H2 as [x [Hx Hi]]. rewrite lookup_clear_kids in Hx.
              destruct q; [|discriminate]. inversion Hx; subst x.
              simpl in Epid. destruct (c_root c2) as [d2 i2 m2 k2]. simpl in *. subst i2.
              simpl in Epid. rewrite N.eqb_refl in Epid. discriminate.
           ++ intros P HP. eapply (Hdir _ Hv3). exact HP.
        -- unfold attach_node. cbn [delete_loc snd with_root c_root]. rewrite lookup_clear_kids.
           destruct (n_id nd); exact HI3.
      * apply attach_inv; auto.
        -- intros r q o' H1 H2.
           assert (r = []).
           { eapply Hpre; [exact H1|]. apply Hs2. apply (view_sub_ids _ _ Hv3). exact H2. } subst r.
           assert (o' = o) by (destruct H1 as [x [Hx Hi]]; simpl in Hx; inversion Hx; subst; congruence). subst o'.
           assert (Hf := loc_oid_fresh c2 o q HI2). rewrite El in Hf.
           destruct Hf as [_ Hf]; [intros; discriminate|exact H2|discriminate].
        -- intros P HP. eapply (Hdir _ Hv3). exact HP.
    + exact HI2.
  - apply attach_inv; auto.
    + intros r q o' H1 H2.
      assert (r = []) by (eapply Hpre; [exact H1|apply Hs2; exact H2]). subst r.
      destruct H1 as [x [Hx Hi]]. simpl in Hx. inversion Hx; subst. congruence.
    + apply (Hdir c2). apply view_sub_refl.
Qed.

(* ------------------------------------------------------------------ __make_node, _set_oid *)
Lemma make_node_inv cf c d p o m : Inv c -> Inv (snd (make_node cf c d p o m)).
Proof.
  intros HI. unfold make_node. destruct (negb (md_ok_opt cf m)); [exact HI|].
  destruct (inv_single d o (md_or m)) as [K [F U]]; [auto|].
  apply insert_node_inv; auto.
  intros r q o' [x [Hx _]] _. destruct r; [reflexivity|simpl in Hx; discriminate].
Qed.

Lemma all_nodes_fields P a b : n_dir a = n_dir b -> n_kids a = n_kids b -> all_nodes P a = all_nodes P b.
Proof. destruct a, b. simpl. intros -> ->. reflexivity. Qed.

Lemma n_dir_modify rp f t : (forall nd, n_dir (f nd) = n_dir nd) -> n_dir (modify rp f t) = n_dir t.
Proof.
  intros Hd. destruct rp as [|n rp]; simpl; [apply Hd|].
  pose proof (info_descend n (modify rp f) t) as Hi. unfold info in Hi. congruence.
Qed.

Lemma has_id_modify_edit rp f t q o :
  (forall nd, n_kids (f nd) = n_kids nd) ->
  has_id (modify rp f t) q o ->
  (q <> rp /\ has_id t q o) \/ (q = rp /\ exists nd, lookup rp t = Some nd /\ n_id (f nd) = Some o).
Proof.
  intros Hk H. destruct (prefixb rp q) eqn:Ep.
  - apply prefixb_true in Ep as [r ->]. destruct H as [x [Hl Hi]].
    rewrite lookup_modify_ext in Hl. destruct (lookup rp t) as [nd|] eqn:El; [|discriminate].
    destruct r as [|m r].
    + right. rewrite app_nil_r. split; [reflexivity|]. exists nd. simpl in Hl. inversion Hl; subst. auto.
    + left. split.
      * intros He. apply (f_equal (@length N)) in He. rewrite app_length in He. simpl in He. lia.
      * exists x. split; [|exact Hi]. rewrite lookup_app, El. simpl in *. rewrite Hk in Hl. exact Hl.
  - left. split.
    + intros ->. rewrite prefixb_refl in Ep. discriminate.
    + apply has_id_view in H as [d [m H]]. rewrite view_modify_other in H by exact Ep.
      apply has_id_view. eauto.
Qed.

Lemma inv_modify_edit rp f c :
  (forall nd, n_kids (f nd) = n_kids nd) -> (forall nd, n_dir (f nd) = n_dir nd) ->
  (forall nd, n_id (f nd) = n_id nd) ->
  Inv c -> Inv (with_root c (modify rp f (c_root c))).
Proof.
  intros Hk Hd Hi [K [F [U D]]]. unfold Inv. simpl. split; [|split; [|split]].
  - apply all_nodes_modify; [exact K|]. intros nd _ H. rewrite (all_nodes_fields _ _ nd); auto.
  - apply all_nodes_modify; [exact F|]. intros nd _ H. rewrite (all_nodes_fields _ _ nd); auto.
  - eapply uniq_sub; [exact U|]. intros q o H. apply has_id_modify_edit in H; [|exact Hk].
    destruct H as [[_ H]|[-> [nd [Hl Hid]]]]; [exact H|]. exists nd. rewrite Hi in Hid. auto.
  - rewrite n_dir_modify; auto.
Qed.

Lemma inv_set_id rp o c :
  Inv c -> (forall q, has_id (c_root c) q o -> False) ->
  Inv (with_root c (modify rp (set_id o) (c_root c))).
Proof.
  intros [K [F [U D]]] Hfresh. unfold Inv. simpl.
  assert (Hk : forall nd, n_kids (set_id o nd) = n_kids nd) by (intros []; reflexivity).
  assert (Hd : forall nd, n_dir (set_id o nd) = n_dir nd) by (intros []; reflexivity).
  split; [|split; [|split]].
  - apply all_nodes_modify; [exact K|]. intros nd _ H. rewrite (all_nodes_fields _ _ nd); auto.
  - apply all_nodes_modify; [exact F|]. intros nd _ H. rewrite (all_nodes_fields _ _ nd); auto.
  - intros q1 q2 x H1 H2.
    apply has_id_modify_edit in H1; [|exact Hk]. apply has_id_modify_edit in H2; [|exact Hk].
    destruct H1 as [[_ H1]|[-> [n1 [_ E1]]]], H2 as [[_ H2]|[-> [n2 [_ E2]]]].
    + apply (U _ _ x); assumption.
    + exfalso. destruct n2; simpl in E2. inversion E2; subst. eapply Hfresh; eauto.
    + exfalso. destruct n1; simpl in E1. inversion E1; subst. eapply Hfresh; eauto.
    + reflexivity.
  - rewrite n_dir_modify; auto.
Qed.

Lemma set_oid_after_inv cf c1 rp o d i m :
  Inv c1 ->
  (i = None -> forall nd q, lookup rp (c_root c1) = Some nd -> has_id (c_root c1) q o -> False) ->
  Inv (snd (fst (set_oid_after cf c1 rp o d i m))).
Proof.
  intros HI Hfresh. unfold set_oid_after.
  destruct i as [k|].
  - destruct (opt_is (lookup rp (c_root c1))); [|exact HI].
    pose proof (make_node_inv cf c1 d rp (Some o) None HI) as H.
    destruct (make_node cf c1 d rp (Some o) None) as [r c2]. exact H.
  - destruct (lookup rp (c_root c1)) as [nd|] eqn:El; simpl; [|exact HI].
    apply inv_set_id; [exact HI|]. intros q Hq. eapply Hfresh; eauto.
Qed.

Lemma set_oid_node_inv cf c rp o : Inv c -> Inv (snd (fst (set_oid_node cf c rp o))).
Proof.
  intros HI. unfold set_oid_node.
  destruct (lookup rp (c_root c)) as [[d i m k]|] eqn:El; [|exact HI].
  destruct (oid_is i o); [exact HI|].
  assert (Hgen : forall l, loc_oid c o = l -> (forall g gn, l <> LGhost g gn) ->
                 Inv (snd (fst (set_oid_after cf (snd (delete_loc c l)) rp o d i m)))).
  { intros l Hl Hng. destruct (delete_loc_spec c l) as [_ [Hv HI1]]. specialize (HI1 HI).
    apply set_oid_after_inv; [exact HI1|].
    intros -> nd q Hnd Hq.
    assert (Hf := loc_oid_fresh c o q HI). rewrite Hl in Hf.
    destruct Hf as [-> Hroot]; [exact Hng|exact Hq|]. rewrite Hroot in *.
    cbn [delete_loc snd with_root c_root] in *.
    rewrite lookup_clear_kids in Hnd. destruct rp; [|discriminate].
    simpl in El. inversion El as [E]. destruct Hq as [x [Hx Hi]]. simpl in Hx. inversion Hx; subst x.
    rewrite E in Hi. simpl in Hi. discriminate. }
  destruct (loc_oid c o) as [|rp'|g gn] eqn:Eo.
  - apply Hgen; [reflexivity|intros; discriminate].
  - apply Hgen; [reflexivity|intros; discriminate].
  - exact HI.
Qed.

(* ------------------------------------------------------------------ the operations *)
Lemma op_rename_inv cf c p q : Inv c -> Inv (snd (op_rename cf c p q)).
Proof.
  intros HI. unfold op_rename.
  destruct (loc_path cf c p) as [|rp|g gn] eqn:Ep.
  - apply delete_loc_spec. exact HI.
  - destruct rp as [|n rp]; [exact HI|].
    destruct (lookup (n :: rp) (c_root c)) as [nd|] eqn:El; [|exact HI].
    set (c1 := with_root c (remove (n :: rp) (c_root c))).
    assert (HI1 : Inv c1).
    { pose proof (delete_loc_spec c (LTree (n :: rp))) as [_ [_ H]]. apply H. exact HI. }
    destruct (delete_loc_spec c1 (loc_path cf c1 q)) as [_ [Hv2 HI2]]. specialize (HI2 HI1).
    destruct HI as [K [F [U D]]].
    apply insert_node_inv; [exact HI2| | | |].
    + eapply all_nodes_lookup; eauto.
    + eapply all_nodes_lookup; eauto.
    + intros q1 q2 o [x1 [H1 I1]] [x2 [H2 I2]].
      assert (n :: rp ++ q1 = n :: rp ++ q2).
      { apply (U _ _ o); [exists x1|exists x2]; (split; [|assumption]);
        change (n :: rp ++ ?z) with ((n :: rp) ++ z); rewrite lookup_app, El; assumption. }
      inversion H. eapply app_inv_head; eauto.
    + intros r q' o [x1 [H1 I1]] H2. exfalso.
      apply (view_sub_ids _ _ Hv2) in H2. unfold c1 in H2. cbn [with_root c_root] in H2.
      apply has_id_remove in H2 as [H2 Hp]; [|discriminate].
      assert (q' = (n :: rp) ++ r).
      { apply (U _ _ o); [exact H2|]. exists x1. rewrite lookup_app, El. auto. }
      subst q'. rewrite prefixb_app in Hp. discriminate.
  - apply delete_loc_spec. exact HI.
Qed.

Lemma inv_with_ghost c o g : Inv c -> Inv (with_ghost c o g).
Proof. auto. Qed.

Lemma inv_md_edit rp f c :
  (f = set_md \/ f = upd_md) -> forall m, Inv c -> Inv (with_root c (modify rp (f m) (c_root c))).
Proof.
  intros [->| ->] m; apply inv_modify_edit; intros []; reflexivity.
Qed.

Lemma op_update_inv cf c p d o m keep : Inv c -> Inv (snd (op_update cf c p d o m keep)).
Proof.
  intros HI. unfold op_update.
  destruct (negb (md_ok cf (md_or m))); [exact HI|].
  destruct (loc_path cf c p) as [|rp|g gn] eqn:Ep; try (apply make_node_inv; exact HI).
  destruct (lookup rp (c_root c)) as [nd|] eqn:El; [|exact HI].
  destruct (negb (Bool.eqb (n_dir nd) d)).
  - apply make_node_inv. destruct rp as [|n rp]; [exact HI|].
    pose proof (delete_loc_spec c (LTree (n :: rp))) as [_ [_ H]]. apply H. exact HI.
  - assert (Hs : forall x, Inv (snd (fst x)) ->
                 Inv (snd (let '(r, c1, ft) := x in
                   match r with
                   | ROk =>
                     if keep then
                       match ft with
                       | FSame => (ROk, with_root c1 (modify rp (upd_md (md_or m)) (c_root c1)))
                       | FGone => (ROk, c1)
                       | FGhost =>
                         match o with
                         | Some o0 => match aget o0 (c_ghosts c1) with
                                      | Some g => (ROk, with_ghost c1 o0 (upd_md (md_or m) g))
                                      | None => (ROk, c1)
                                      end
                         | None => (ROk, c1)
                         end
                       end
                     else
                       match loc_path cf c1 p with
                       | LTree rp' => (ROk, with_root c1 (modify rp' (set_md (md_or m)) (c_root c1)))
                       | _ => (ROk, c1)
                       end
                   | _ => (r, c1)
                   end))).
    { intros [[r c1] ft] H1. simpl in H1. destruct r; try exact H1.
      destruct keep.
      - destruct ft; [apply (inv_md_edit rp upd_md); auto|exact H1|].
        destruct o as [o0|]; [|exact H1]. destruct (aget o0 (c_ghosts c1)); exact H1.
      - destruct (loc_path cf c1 p); try exact H1. apply (inv_md_edit rp0 set_md); auto. }
    destruct o as [o0|].
    + apply (Hs (set_oid_node cf c rp o0)). apply set_oid_node_inv. exact HI.
    + apply (Hs (ROk, c, FSame)). exact HI.
Qed.

Lemma op_set_oid_inv cf c p o d : Inv c -> Inv (snd (op_set_oid cf c p o d)).
Proof.
  intros HI. unfold op_set_oid. destruct o as [o|]; [|exact HI]. destruct d as [d|]; [|exact HI].
  destruct (loc_path cf c p) as [|rp|g gn]; try (apply make_node_inv; exact HI).
  pose proof (set_oid_node_inv cf c rp o HI) as H.
  destruct (set_oid_node cf c rp o) as [[r c1] ft]. exact H.
Qed.

Lemma op_set_meta_inv cf c m o p : Inv c -> Inv (snd (op_set_meta cf c m o p)).
Proof.
  intros HI. unfold op_set_meta. destruct (negb (md_ok_opt cf m)); [exact HI|].
  destruct (get_node cf c o p) as [[|rp|g gn]|]; try exact HI.
  apply (inv_md_edit rp set_md); auto.
Qed.

Theorem step_inv cf c x : Inv c -> Inv (snd (step cf c x)).
Proof.
  intros HI. unfold step. destruct (negb (tame cf c)); [exact HI|].
  destruct x.
  - apply make_node_inv; exact HI.
  - apply make_node_inv; exact HI.
  - apply op_rename_inv; exact HI.
  - destruct (get_node cf c o p); [|exact HI]. apply delete_loc_spec. exact HI.
  - apply op_set_oid_inv; exact HI.
  - apply op_update_inv; exact HI.
  - apply op_set_meta_inv; exact HI.
Qed.

Theorem exec_inv cf ops : forall c, Inv c -> Inv (exec cf c ops).
Proof.
  unfold exec. induction ops as [|x ops IH]; intros c HI; simpl; [exact HI|].
  apply IH. apply step_inv. exact HI.
Qed.
