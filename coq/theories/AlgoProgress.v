(* AlgoProgress.v — first steps towards a step bound: the change set is exactly the set of flagged entries, and while it
   is not empty the selection of SyncState.change (ageing 0) returns an entry: no sync step is idle while work is pending. *)
From Coq Require Import NArith ZArith QArith List Bool Arith Lia.
From CS Require SchedModel SchedProofs.
From CS Require Import Sx Str PathModel PathLaws StateModel StateProofs ProvModel ProvProofs
     AlgoModel AlgoCheck AlgoState AlgoProv AlgoPath AlgoInv AlgoInit AlgoIntake AlgoSync AlgoLatest AlgoFinish AlgoSyncEntry AlgoStep AlgoUser.
Import ListNotations.
Local Open Scope N_scope.

(* the change set is exactly the set of entries with a change flag and an id *)
Theorem change_set_exact g w e en : Inv g w -> nth_error (ents (w_st w)) e = Some en ->
  (set_mem e (cset (w_st w)) = true <-> flagged en = true).
Proof. intros I Hn. split; [apply (i_cse _ _ _ I e en Hn)|apply (i_csc _ _ _ I e en Hn)]. Qed.

Theorem algo_change_set_exact t0 lg0 acts w e en :
  lg0 <= t0 + 1 -> in_F1 (cfg_std 1) (history_of acts) = true ->
  algo_run (world_init (cfg_std 1) t0 lg0) acts = ROk w -> nth_error (ents (w_st w)) e = Some en ->
  (set_mem e (cset (w_st w)) = true <-> flagged en = true).
Proof.
  intros Hlg HF H Hn. destruct (algo_inv_reachable t0 lg0 acts w Hlg HF H) as (g & I & _). apply (change_set_exact g w e en I Hn).
Qed.

(* ------------------------------------------------------------------ the selection *)
Lemma qN_le a b : a <= b -> (qN a <= qN b)%Q.
Proof. intros H. unfold qN. rewrite <- Zle_Qle. lia. Qed.

Lemma truthy_stamp n : n <> 0 -> SchedModel.truthy (Some (qN n)) = true.
Proof.
  intros H. unfold SchedModel.truthy. apply negb_true_iff. destruct (Qeq_bool (qN n) 0) eqn:E; [|reflexivity].
  apply Qeq_bool_iff in E. unfold qN, Qeq in E. simpl in E. lia.
Qed.

Lemma qmax_ge_l a b : (a <= SchedModel.qmax a b)%Q.
Proof.
  unfold SchedModel.qmax, SchedModel.qltb. destruct (Qle_bool b a) eqn:E; simpl; [apply Qle_refl|].
  destruct (Qlt_le_dec b a) as [H|H]; [|exact H]. apply Qlt_le_weak in H. apply Qle_bool_iff in H. congruence.
Qed.

Lemma side_aged_flag c t last : tchg c = true -> chgval c <= t ->
  SchedModel.side_aged (SchedModel.threshold (SchedModel.cfg_exact 0 0) (qN t) 0 (qN last)) (stamp_of c) = true.
Proof.
  intros Hc Ht. destruct c as [| |n]; try discriminate. simpl in Hc, Ht. apply negb_true_iff in Hc. apply N.eqb_neq in Hc.
  unfold SchedModel.side_aged. cbn [stamp_of SchedModel.orz]. rewrite (truthy_stamp n Hc). cbn [andb].
  apply Qle_bool_iff. unfold SchedModel.threshold, SchedModel.threshold_adj, SchedModel.earlier_than, SchedModel.fsub.
  cbn [SchedModel.c_rnd SchedModel.cfg_exact]. assert (Hz: Qle_bool 0 0 = true) by reflexivity. rewrite Hz.
  eapply Qle_trans; [|apply qmax_ge_l]. unfold Qminus. rewrite Qplus_0_r. apply qN_le. exact Ht.
Qed.

Lemma pick_enabled s ord t e en : In e ord -> nth_error (ents s) e = Some en -> flagged en = true -> maxchg en <= t ->
  pick s ord t <> None.
Proof.
  intros Hin Hn Hf Hm Hp. unfold pick in Hp.
  destruct (SchedModel.pick_sorted _ (tagged s ord)) as [x|] eqn:E; [discriminate|].
  pose proof (proj1 (SchedProofs.pick_none _ _) E (e, to_sc en)) as X.
  assert (Hin2: In (e, to_sc en) (tagged s ord)).
  { unfold tagged. apply in_map_iff. exists e. rewrite Hn. auto. }
  specialize (X Hin2). cbn [snd] in X. unfold SchedModel.eligible in X.
  apply orb_false_elim in X as [X _]. apply orb_false_elim in X as [XL XR].
  cbn [to_sc SchedModel.chL SchedModel.chR] in XL, XR.
  unfold flagged in Hf. unfold maxchg, chgv in Hm.
  apply orb_prop in Hf as [Hf|Hf]; apply andb_prop in Hf as [Hf _].
  - rewrite (side_aged_flag (s_chg (e_l en)) t (lastch s) Hf) in XL; [discriminate|]. lia.
  - rewrite (side_aged_flag (s_chg (e_r en)) t (lastch s) Hf) in XR; [discriminate|]. lia.
Qed.

(* SyncManager.do is never idle while work is pending: with a non-empty change set, after the path-filling loop and the
   clock tick of the step, the selection returns an entry - for every iteration order of the set *)
Theorem selection_not_idle g w order w1 :
  Inv g w -> cset (w_st w) <> [] ->
  fill_paths w (norm_order order (cset (w_st w))) = ROk w1 ->
  pick (w_st (fst (tick w1))) (norm_order order (cset (w_st w))) (now (w_st w1) + 1000) <> None.
Proof.
  intros I Hne Ef.
  set (ord := norm_order order (cset (w_st w))) in *.
  assert (Hord: Forall (fun e => (2 <= e)%nat) ord).
  { apply Forall_forall. intros x Hx. apply norm_order_mem in Hx.
    destruct (i_roots _ _ _ I) as (e0 & e1 & _ & _ & _ & _ & _ & _ & _ & _ & _ & _ & _ & _ & _ & M0 & M1).
    destruct x as [|[|x]]; [congruence|congruence|lia]. }
  destruct (fill_paths_pres g ord w w1 I Hord Ef) as (I1 & _ & _ & Hmono).
  destruct (cset (w_st w)) as [|c0 cr] eqn:Ecs; [contradiction|].
  assert (Hin: In c0 ord).
  { unfold ord, norm_order. apply in_or_app.
    destruct (existsb (Nat.eqb c0) (filter (fun e => set_mem e (c0 :: cr)) (nodup_nat order))) eqn:Ex.
    - left. apply existsb_exists in Ex as (y & Hy & Ey). apply Nat.eqb_eq in Ey. subst y. exact Hy.
    - right. apply filter_In. split; [left; reflexivity|]. rewrite Ex. reflexivity. }
  assert (Hm0: set_mem c0 (c0 :: cr) = true) by (simpl; rewrite Nat.eqb_refl; reflexivity).
  pose proof (Hmono c0 Hm0) as Hm1.
  pose proof (i_csb _ _ _ I1 c0 Hm1) as Hlt.
  destruct (nth_error (ents (w_st w1)) c0) as [en|] eqn:Hn; [|apply nth_error_None in Hn; lia].
  pose proof (i_cse _ _ _ I1 c0 en Hn Hm1) as Hf.
  destruct (i_clke _ _ _ I1 c0 en Hn) as (Hmx & _).
  apply (pick_enabled (w_st (fst (tick w1))) ord (now (w_st w1) + 1000) c0 en Hin); [exact Hn|exact Hf|lia].
Qed.
