(* ProvWf.v — the invariant behind well-formedness of the provider model (ProvModel.v).

   INV s = S_inv s /\ W_inv s.
   S_inv (structure of MockFS._objects; kept by EVERY call in the three flavours other than
   path-style + case-insensitive): the dictionary has no repeated key; a path key leads to a heap
   cell whose normalised path is that key; id keys are exactly "KId r -> cell r" for id-style and
   absent for path-style; oid = KId r / KPath path.
   W_inv (the tree; kept by every GUARDED call, see guard_op in ProvModel.v): every live object is
   filed under its own normalised path, its parent is a live folder, the root is a live folder.

   This file: basic lemmas, S_inv for every call, W_inv for create/mkdir/delete/upload/events,
   INV -> wfb = true.  The rename is in ProvRename.v. *)
From Coq Require Import NArith List Bool Lia Arith.
From CS Require Import Sx Str PathLaws ProvModel ProvProofs.
Import ListNotations.

(* ------------------------------------------------------------------ equality tests *)
Lemma path_eqb_refl p : path_eqb p p = true.
Proof. apply path_eqb_eq. reflexivity. Qed.

Lemma path_eqb_false a b : path_eqb a b = false <-> a <> b.
Proof.
  split.
  - intros H E. apply path_eqb_eq in E. congruence.
  - intros H. destruct (path_eqb a b) eqn:E; [|reflexivity]. apply path_eqb_eq in E. contradiction.
Qed.

Lemma key_eqb_false a b : key_eqb a b = false <-> a <> b.
Proof.
  split.
  - intros H E. apply key_eqb_eq in E. congruence.
  - intros H. destruct (key_eqb a b) eqn:E; [|reflexivity]. apply key_eqb_eq in E. contradiction.
Qed.

Lemma path_eq_dec (a b : path) : {a = b} + {a <> b}.
Proof.
  destruct (path_eqb a b) eqn:E; [left; apply path_eqb_eq; exact E|right; apply path_eqb_false; exact E].
Qed.

Lemma key_eq_dec (a b : key) : {a = b} + {a <> b}.
Proof.
  destruct (key_eqb a b) eqn:E; [left; apply key_eqb_eq; exact E|right; apply key_eqb_false; exact E].
Qed.

Lemma key_eqb_sym a b : key_eqb a b = key_eqb b a.
Proof.
  destruct (key_eqb a b) eqn:E.
  - apply key_eqb_eq in E. subst. symmetry. apply key_eqb_refl.
  - apply key_eqb_false in E. symmetry. apply key_eqb_false. congruence.
Qed.

Lemma kpath_eqb p q : key_eqb (KPath p) (KPath q) = path_eqb p q.
Proof. reflexivity. Qed.

(* ------------------------------------------------------------------ the dictionary *)
Definition keys (d : dict) : list key := map fst d.

Lemma dget_dremove k k' d : dget k (dremove k' d) = if key_eqb k k' then None else dget k d.
Proof.
  induction d as [|[k0 r0] t IH]; simpl.
  - destruct (key_eqb k k'); reflexivity.
  - destruct (key_eqb k' k0) eqn:E1.
    + apply key_eqb_eq in E1. subst k0. rewrite IH. destruct (key_eqb k k'); reflexivity.
    + simpl. destruct (key_eqb k k0) eqn:E2.
      * apply key_eqb_eq in E2. subst k0. destruct (key_eqb k k') eqn:E3; [|reflexivity].
        apply key_eqb_eq in E3. subst. rewrite key_eqb_refl in E1. discriminate.
      * exact IH.
Qed.

Lemma dget_dset k k' r d : dget k (dset k' r d) = if key_eqb k k' then Some r else dget k d.
Proof.
  unfold dset. simpl. destruct (key_eqb k k') eqn:E; [reflexivity|].
  rewrite dget_dremove, E. reflexivity.
Qed.

Lemma in_keys_dremove x k d : In x (keys (dremove k d)) -> In x (keys d) /\ x <> k.
Proof.
  induction d as [|[k0 r0] t IH]; simpl; [tauto|].
  destruct (key_eqb k k0) eqn:E.
  - intros H. apply IH in H as [H1 H2]. auto.
  - simpl. intros [H|H].
    + subst x. split; [auto|]. apply key_eqb_false in E. congruence.
    + apply IH in H as [H1 H2]. auto.
Qed.

Lemma nodup_dremove k d : NoDup (keys d) -> NoDup (keys (dremove k d)).
Proof.
  induction d as [|[k0 r0] t IH]; simpl; intros H; [constructor|].
  inversion H as [|? ? Hn Ht]; subst.
  destruct (key_eqb k k0); [apply IH; exact Ht|].
  simpl. constructor; [|apply IH; exact Ht].
  intros Hin. apply in_keys_dremove in Hin as [Hin _]. contradiction.
Qed.

Lemma nodup_dset k r d : NoDup (keys d) -> NoDup (keys (dset k r d)).
Proof.
  intros H. unfold dset. simpl. constructor; [|apply nodup_dremove; exact H].
  intros Hin. apply in_keys_dremove in Hin as [_ Hne]. congruence.
Qed.

Lemma dget_in k r d : dget k d = Some r -> In (k, r) d.
Proof.
  induction d as [|[k0 r0] t IH]; simpl; [discriminate|].
  destruct (key_eqb k k0) eqn:E.
  - intros H. inversion H; subst. apply key_eqb_eq in E. subst. left. reflexivity.
  - intros H. right. apply IH. exact H.
Qed.

Lemma in_dget k r d : NoDup (keys d) -> In (k, r) d -> dget k d = Some r.
Proof.
  induction d as [|[k0 r0] t IH]; simpl; intros Hn Hin; [destruct Hin|].
  inversion Hn as [|? ? Hk Ht]; subst.
  destruct Hin as [Hin|Hin].
  - inversion Hin; subst. rewrite key_eqb_refl. reflexivity.
  - destruct (key_eqb k k0) eqn:E.
    + apply key_eqb_eq in E. subst k0. exfalso. apply Hk. change k with (fst (k, r)). apply in_map. exact Hin.
    + apply IH; assumption.
Qed.

Lemma dmem_true k d : dmem k d = true <-> exists r, dget k d = Some r.
Proof.
  unfold dmem. destruct (dget k d) as [r|]; split; intros H; try discriminate; eauto.
  destruct H; discriminate.
Qed.

Lemma dmem_false k d : dmem k d = false <-> dget k d = None.
Proof. unfold dmem. destruct (dget k d); split; intros H; congruence. Qed.

Lemma in_fs_refs s r : In r (fs_refs s) <-> exists q, In (KPath q, r) (p_dict s).
Proof.
  unfold fs_refs. rewrite in_flat_map. split.
  - intros [[k r'] [Hin H]]. simpl in H. destruct k as [n|q]; [destruct H|].
    destruct H as [<-|[]]. exists q. exact Hin.
  - intros [q Hin]. exists (KPath q, r). split; [exact Hin|]. simpl. auto.
Qed.

(* the references filed under path keys are pairwise different as soon as every path key
   determines... is determined by its reference *)
Lemma fs_refs_nodup (d : dict) (f : nat -> path) :
  NoDup (keys d) -> (forall q r, In (KPath q, r) d -> q = f r) ->
  NoDup (flat_map (fun kr : key * nat => match fst kr with KPath _ => [snd kr] | KId _ => [] end) d).
Proof.
  induction d as [|[k r] t IH]; simpl; intros Hn Hf; [constructor|].
  inversion Hn as [|? ? Hk Ht]; subst.
  assert (IH' := IH Ht (fun q r' H => Hf q r' (or_intror H))).
  destruct k as [n|q]; simpl; [exact IH'|].
  constructor; [|exact IH'].
  intros Hin. apply in_flat_map in Hin as [[k' r'] [Hin H]]. simpl in H.
  destruct k' as [n'|q']; [destruct H|]. destruct H as [<-|[]].
  assert (q' = f r') by (apply Hf; right; exact Hin).
  assert (q = f r') by (apply Hf; left; reflexivity).
  apply Hk. change (KPath q) with (fst (KPath q, r')). apply in_map. congruence.
Qed.

(* ------------------------------------------------------------------ normalised paths *)
Lemma np_cs c p : c_cs c = true -> np c p = p.
Proof. intros H. unfold np. rewrite H. reflexivity. Qed.

Lemma np_length c p : length (np c p) = length p.
Proof. unfold np. destruct (c_cs c); [reflexivity|apply map_length]. Qed.

Lemma np_app c a b : np c (a ++ b) = np c a ++ np c b.
Proof. unfold np. destruct (c_cs c); [reflexivity|apply map_app]. Qed.

Lemma np_firstn c n p : np c (firstn n p) = firstn n (np c p).
Proof. unfold np. destruct (c_cs c); [reflexivity|symmetry; apply firstn_map]. Qed.

Lemma np_skipn c n p : np c (skipn n p) = skipn n (np c p).
Proof. unfold np. destruct (c_cs c); [reflexivity|symmetry; apply skipn_map]. Qed.

Lemma np_nil c p : np c p = [] -> p = [].
Proof. intros H. apply (f_equal (@length _)) in H. rewrite np_length in H. destruct p; [reflexivity|discriminate]. Qed.

Lemma np_nil_eq c : np c [] = [].
Proof. unfold np. destruct (c_cs c); reflexivity. Qed.

Lemma removelast_firstn_pred {T} (p : list T) : removelast p = firstn (length p - 1) p.
Proof.
  destruct p as [|x p]; [reflexivity|].
  replace (length (x :: p) - 1) with (length (x :: p) - 1) by reflexivity.
  rewrite (removelast_firstn_len (x :: p)). simpl. rewrite Nat.sub_0_r. reflexivity.
Qed.

Lemma np_removelast c p : np c (removelast p) = removelast (np c p).
Proof. rewrite !removelast_firstn_pred, np_firstn, np_length. reflexivity. Qed.

Lemma length_removelast {T} (p : list T) : length (removelast p) = length p - 1.
Proof.
  rewrite removelast_firstn_pred, firstn_length. lia.
Qed.

Lemma is_child_spec c parent p :
  is_child c parent p = true <-> p <> [] /\ np c (removelast p) = np c parent.
Proof.
  unfold is_child. destruct p as [|x p'].
  - split; [discriminate|intros [H _]; congruence].
  - rewrite path_eqb_eq. split; [intros H; split; [discriminate|exact H]|intros [_ H]; exact H].
Qed.

Lemma is_under_spec c old p :
  is_under c old p = true <-> length old < length p /\ np c (firstn (length old) p) = np c old.
Proof.
  unfold is_under. rewrite andb_true_iff, Nat.ltb_lt, path_eqb_eq. tauto.
Qed.

(* p at or below old (normalised) *)
Definition at_under (c : cfg) (old p : path) : Prop :=
  length old <= length p /\ np c (firstn (length old) p) = np c old.

Lemma at_under_split c old p : at_under c old p ->
  np c p = np c old ++ np c (skipn (length old) p).
Proof.
  intros [_ H]. rewrite <- H, <- np_app, firstn_skipn. reflexivity.
Qed.

Lemma is_under_at_under c old p : is_under c old p = true -> at_under c old p.
Proof. intros H. apply is_under_spec in H as [H1 H2]. split; [lia|exact H2]. Qed.

Lemma at_under_refl c p : at_under c p p.
Proof. split; [lia|]. rewrite firstn_all. reflexivity. Qed.

Lemma at_under_cases c old p : at_under c old p ->
  (length p = length old /\ np c p = np c old) \/ is_under c old p = true.
Proof.
  intros [H1 H2]. destruct (Nat.eq_dec (length p) (length old)) as [E|E].
  - left. split; [exact E|]. rewrite <- E, firstn_all in H2. exact H2.
  - right. apply is_under_spec. split; [lia|exact H2].
Qed.

(* ------------------------------------------------------------------ lookups *)
Lemma get_live_spec s k r o :
  get_live s k = Some (r, o) <->
  dget k (p_dict s) = Some r /\ nth_error (p_heap s) r = Some o /\ o_exists o = true.
Proof.
  unfold get_live, get. destruct (dget k (p_dict s)) as [r'|].
  - destruct (nth_error (p_heap s) r') as [o'|] eqn:E.
    + destruct (o_exists o') eqn:X; split.
      * intros H. inversion H; subst. auto.
      * intros [H1 [H2 H3]]. inversion H1; subst. rewrite E in H2. inversion H2; subst. reflexivity.
      * discriminate.
      * intros [H1 [H2 H3]]. inversion H1; subst. rewrite E in H2. inversion H2; subst. congruence.
    + split; [discriminate|]. intros [H1 [H2 _]]. inversion H1; subst. congruence.
  - split; [discriminate|]. intros [H1 _]. discriminate.
Qed.

Lemma get_live_none s k :
  get_live s k = None <->
  forall r o, dget k (p_dict s) = Some r -> nth_error (p_heap s) r = Some o -> o_exists o = false.
Proof.
  split.
  - intros H r o H1 H2. destruct (o_exists o) eqn:X; [|reflexivity].
    assert (G : get_live s k = Some (r, o)) by (apply get_live_spec; auto). congruence.
  - intros H. destruct (get_live s k) as [[r o]|] eqn:E; [|reflexivity].
    apply get_live_spec in E as [H1 [H2 H3]]. rewrite (H _ _ H1 H2) in H3. discriminate.
Qed.

(* ------------------------------------------------------------------ the invariant *)
Record S_inv (s : prov) : Prop := {
  s_sane : sane_cfg (p_cfg s) = true;
  s_nodup : NoDup (keys (p_dict s));
  s_path : forall q r, dget (KPath q) (p_dict s) = Some r ->
           exists x, nth_error (p_heap s) r = Some x /\ np (p_cfg s) (o_path x) = q;
  s_id : forall n r, dget (KId n) (p_dict s) = Some r ->
         c_oidpath (p_cfg s) = false /\ n = N.of_nat r /\ r < length (p_heap s);
  s_idkey : c_oidpath (p_cfg s) = false -> forall r, r < length (p_heap s) ->
            dget (KId (N.of_nat r)) (p_dict s) = Some r;
  s_oid : oid_inv s
}.

Record W_inv (s : prov) : Prop := {
  w_filed : forall r x, nth_error (p_heap s) r = Some x -> o_exists x = true ->
            dget (KPath (np (p_cfg s) (o_path x))) (p_dict s) = Some r;
  w_parent : forall r x, nth_error (p_heap s) r = Some x -> o_exists x = true -> o_path x <> [] ->
             exists r' y, dget (KPath (np (p_cfg s) (removelast (o_path x)))) (p_dict s) = Some r' /\
                          nth_error (p_heap s) r' = Some y /\ o_exists y = true /\ o_kind y = KDir;
  w_root : exists r0 o0, dget (KPath []) (p_dict s) = Some r0 /\ nth_error (p_heap s) r0 = Some o0 /\
                         o_exists o0 = true /\ o_kind o0 = KDir
}.

Definition INV (s : prov) : Prop := S_inv s /\ W_inv s.

(* both depend on configuration, heap and dictionary only *)
Definition same_core (s s' : prov) : Prop :=
  p_cfg s' = p_cfg s /\ p_heap s' = p_heap s /\ p_dict s' = p_dict s.

Lemma same_core_refl s : same_core s s.
Proof. repeat split. Qed.

Lemma same_core_emit s e : same_core s (emit s e).
Proof. repeat split. Qed.

Lemma same_core_cursor s c : same_core s (with_cursor s c).
Proof. repeat split. Qed.

Lemma S_same_core s s' : same_core s s' -> S_inv s -> S_inv s'.
Proof.
  intros [Hc [Hh Hd]] [A B C D E F]. constructor; rewrite ?Hc, ?Hh, ?Hd; try assumption.
  unfold oid_inv. rewrite Hc, Hh. exact F.
Qed.

Lemma W_same_core s s' : same_core s s' -> W_inv s -> W_inv s'.
Proof.
  intros [Hc [Hh Hd]] [A B C]. constructor; rewrite ?Hc, ?Hh, ?Hd; assumption.
Qed.

(* in a sane flavour the key under which store() files the oid *)
Lemma sane_cases c : sane_cfg c = true -> c_oidpath c = false \/ (c_oidpath c = true /\ c_cs c = true).
Proof. unfold sane_cfg. destruct (c_oidpath c), (c_cs c); simpl; intros H; auto; discriminate. Qed.

(* the oid of a live object leads to it *)
Lemma oid_filed s r x : S_inv s -> nth_error (p_heap s) r = Some x ->
  dget (KPath (np (p_cfg s) (o_path x))) (p_dict s) = Some r -> dget (o_oid x) (p_dict s) = Some r.
Proof.
  intros HS Hx Hf. rewrite (s_oid s HS r x Hx).
  destruct (sane_cases _ (s_sane s HS)) as [E|[E1 E2]].
  - rewrite E. apply (s_idkey s HS E). apply nth_error_Some. congruence.
  - rewrite E1. rewrite np_cs in Hf by exact E2. exact Hf.
Qed.

(* two cells filed under the same normalised path are one cell *)
Lemma filed_inj s r1 r2 x1 x2 : W_inv s ->
  nth_error (p_heap s) r1 = Some x1 -> o_exists x1 = true ->
  nth_error (p_heap s) r2 = Some x2 -> o_exists x2 = true ->
  np (p_cfg s) (o_path x1) = np (p_cfg s) (o_path x2) -> r1 = r2.
Proof.
  intros HW H1 L1 H2 L2 E.
  pose proof (w_filed s HW _ _ H1 L1) as F1. pose proof (w_filed s HW _ _ H2 L2) as F2.
  rewrite E in F1. congruence.
Qed.

(* the root *)
Lemma root_path s r0 o0 : S_inv s -> dget (KPath []) (p_dict s) = Some r0 ->
  nth_error (p_heap s) r0 = Some o0 -> o_path o0 = [].
Proof.
  intros HS Hd Hn. destruct (s_path s HS _ _ Hd) as [x [Hx Hp]].
  rewrite Hn in Hx. inversion Hx; subst. eapply np_nil. exact Hp.
Qed.

(* ------------------------------------------------------------------ store / unstore *)
Lemma store_nodup c d r o : NoDup (keys d) -> NoDup (keys (store c d r o)).
Proof.
  intros H. unfold store. destruct (dmem _ _); [|apply nodup_dset]; apply nodup_dset; exact H.
Qed.

Lemma store_dget c d r o k n : sane_cfg c = true ->
  o_oid o = (if c_oidpath c then KPath (o_path o) else KId n) ->
  dget k (store c d r o) =
    if key_eqb k (KPath (np c (o_path o))) then Some r
    else if key_eqb k (o_oid o) then (match dget k d with Some r' => Some r' | None => Some r end)
    else dget k d.
Proof.
  intros Hs Ho. unfold store.
  destruct (sane_cases c Hs) as [E|[E1 E2]].
  - rewrite E in Ho. rewrite Ho.
    assert (Hm : dmem (KId n) (dset (KPath (np c (o_path o))) r d) = dmem (KId n) d).
    { unfold dmem. rewrite dget_dset. reflexivity. }
    rewrite Hm. destruct (dmem (KId n) d) eqn:M.
    + rewrite dget_dset. destruct (key_eqb k (KPath (np c (o_path o)))); [reflexivity|].
      destruct (key_eqb k (KId n)) eqn:E3; [|reflexivity].
      apply key_eqb_eq in E3. subst k. apply dmem_true in M as [r' M]. rewrite M. reflexivity.
    + rewrite !dget_dset. destruct (key_eqb k (KId n)) eqn:E3.
      * apply key_eqb_eq in E3. subst k. simpl. apply dmem_false in M. rewrite M. reflexivity.
      * reflexivity.
  - rewrite E1 in Ho. rewrite Ho. rewrite (np_cs c _ E2).
    assert (Hm : dmem (KPath (o_path o)) (dset (KPath (o_path o)) r d) = true).
    { unfold dmem. rewrite dget_dset, key_eqb_refl. reflexivity. }
    rewrite Hm. rewrite dget_dset. destruct (key_eqb k (KPath (o_path o))); reflexivity.
Qed.

Lemma unstore_spec c d o d1 : unstore c d o = Some d1 ->
  d1 = dremove (o_oid o) (dremove (KPath (np c (o_path o))) d) /\
  exists r, dget (KPath (np c (o_path o))) d = Some r.
Proof.
  unfold unstore. destruct (dmem (KPath (np c (o_path o))) d) eqn:M; [|discriminate].
  intros H. inversion H; subst. split; [reflexivity|]. apply dmem_true. exact M.
Qed.

(* ------------------------------------------------------------------ S_inv is kept by the primitive state changes *)
Lemma S_hset s r o o' : S_inv s -> nth_error (p_heap s) r = Some o ->
  o_path o' = o_path o -> o_oid o' = o_oid o -> S_inv (with_heap s (hset (p_heap s) r o')).
Proof.
  intros [A B C D E F] Ho Hp Hk. constructor; simpl; try assumption.
  - intros q r' Hd. destruct (C q r' Hd) as [x [Hx Hq]].
    destruct (Nat.eq_dec r' r) as [->|Hne].
    + exists o'. split; [apply nth_hset_same; apply nth_error_Some; congruence|].
      rewrite Hx in Ho. inversion Ho; subst. rewrite Hp. reflexivity.
    + exists x. split; [rewrite nth_hset_other by exact Hne; exact Hx|exact Hq].
  - intros n r' Hd. rewrite hset_length. apply D. exact Hd.
  - intros Hc r'. rewrite hset_length. apply E. exact Hc.
  - intros q x Hx. simpl in *. apply nth_hset in Hx as [[-> [-> _]]|[_ Hx]]; [|apply F; exact Hx].
    rewrite Hp, Hk. apply F. exact Ho.
Qed.

Lemma S_alloc s p kd d : S_inv s ->
  let r := length (p_heap s) in
  let o := {| o_path := p; o_oid := if c_oidpath (p_cfg s) then KPath p else KId (N.of_nat r);
              o_kind := kd; o_data := d; o_exists := true |} in
  S_inv (with_dict (with_heap s (p_heap s ++ [o])) (store (p_cfg s) (p_dict s) r o)).
Proof.
  intros [A B C D E F] r o.
  assert (Ho : o_oid o = if c_oidpath (p_cfg s) then KPath (o_path o) else KId (N.of_nat r)) by reflexivity.
  assert (Hfresh : c_oidpath (p_cfg s) = false -> dget (KId (N.of_nat r)) (p_dict s) = None).
  { intros Hc. destruct (dget (KId (N.of_nat r)) (p_dict s)) as [r'|] eqn:G; [|reflexivity].
    destruct (D _ _ G) as [_ [H1 H2]]. apply Nat2N.inj in H1. unfold r in H1. lia. }
  constructor; simpl; try assumption.
  - apply store_nodup. exact B.
  - intros q r' Hd. rewrite (store_dget _ _ _ _ _ _ A Ho) in Hd.
    destruct (key_eqb (KPath q) (KPath (np (p_cfg s) (o_path o)))) eqn:E1.
    + inversion Hd; subst r'. exists o. split; [unfold r; rewrite nth_error_app2 by lia; rewrite Nat.sub_diag; reflexivity|].
      apply key_eqb_eq in E1. congruence.
    + assert (E2 : key_eqb (KPath q) (o_oid o) = false).
      { destruct (sane_cases _ A) as [X|[X1 X2]]; simpl; rewrite ?X, ?X1; [reflexivity|].
        simpl in E1. rewrite (np_cs _ _ X2) in E1. exact E1. }
      rewrite E2 in Hd. destruct (C q r' Hd) as [x [Hx Hq]]. exists x. split; [|exact Hq].
      rewrite nth_error_app1; [exact Hx|]. apply nth_error_Some. congruence.
  - intros n r' Hd. rewrite (store_dget _ _ _ _ _ _ A Ho) in Hd. simpl in Hd. rewrite app_length. simpl.
    destruct (c_oidpath (p_cfg s)) eqn:Hc; simpl in Hd.
    + destruct (D n r' Hd) as [X _]. discriminate.
    + destruct (N.eqb n (N.of_nat r)) eqn:E1.
      * apply N.eqb_eq in E1. subst n. rewrite (Hfresh eq_refl) in Hd. inversion Hd; subst r'.
        split; [reflexivity|]. split; [reflexivity|]. unfold r. lia.
      * destruct (D n r' Hd) as [_ [X Y]]. split; [reflexivity|]. split; [exact X|lia].
  - intros Hc r' Hr. rewrite app_length in Hr. simpl in Hr.
    rewrite (store_dget _ _ _ _ _ _ A Ho). simpl. rewrite Hc. simpl.
    destruct (N.eqb (N.of_nat r') (N.of_nat r)) eqn:E1.
    + apply N.eqb_eq in E1. apply Nat2N.inj in E1. subst r'. rewrite (Hfresh Hc). reflexivity.
    + apply E; [exact Hc|]. apply N.eqb_neq in E1. assert (r' <> r) by congruence. unfold r in *. lia.
  - intros q x Hx. simpl in *.
    destruct (Nat.lt_ge_cases q (length (p_heap s))) as [Hlt|Hge].
    + rewrite nth_error_app1 in Hx by exact Hlt. apply F; exact Hx.
    + rewrite nth_error_app2 in Hx by exact Hge.
      destruct (q - length (p_heap s)) as [|m] eqn:Em; simpl in Hx; [|destruct m; discriminate].
      inversion Hx; subst; simpl. assert (q = length (p_heap s)) by lia. subst q. reflexivity.
Qed.

Lemma S_place s r o d1 dest : S_inv s -> nth_error (p_heap s) r = Some o ->
  unstore (p_cfg s) (p_dict s) o = Some d1 ->
  let o' := set_place o dest (if c_oidpath (p_cfg s) then KPath dest else o_oid o) in
  S_inv (with_dict (with_heap s (hset (p_heap s) r o')) (store (p_cfg s) d1 r o')).
Proof.
  intros [A B C D E F] Hr Hu o'.
  apply unstore_spec in Hu as [Hd1 _].
  assert (Hro : o_oid o = if c_oidpath (p_cfg s) then KPath (o_path o) else KId (N.of_nat r)) by (apply F; exact Hr).
  assert (Ho : o_oid o' = if c_oidpath (p_cfg s) then KPath (o_path o') else KId (N.of_nat r)).
  { simpl. destruct (c_oidpath (p_cfg s)); [reflexivity|exact Hro]. }
  assert (Hlen : r < length (p_heap s)) by (apply nth_error_Some; congruence).
  assert (G1 : forall k, dget k d1 = if key_eqb k (o_oid o) then None
                                     else if key_eqb k (KPath (np (p_cfg s) (o_path o))) then None
                                     else dget k (p_dict s)).
  { intros k. rewrite Hd1, !dget_dremove. reflexivity. }
  constructor; simpl; try assumption.
  - apply store_nodup. rewrite Hd1. apply nodup_dremove, nodup_dremove. exact B.
  - intros q r' Hd. rewrite (store_dget _ _ _ _ _ _ A Ho) in Hd.
    destruct (key_eqb (KPath q) (KPath (np (p_cfg s) (o_path o')))) eqn:E1.
    + inversion Hd; subst r'. exists o'. split; [apply nth_hset_same; exact Hlen|].
      apply key_eqb_eq in E1. congruence.
    + assert (E2 : key_eqb (KPath q) (o_oid o') = false).
      { rewrite Ho. destruct (sane_cases _ A) as [X|[X1 X2]]; rewrite ?X, ?X1; [reflexivity|].
        simpl in E1. rewrite (np_cs _ _ X2) in E1. exact E1. }
      rewrite E2, G1 in Hd.
      destruct (key_eqb (KPath q) (o_oid o)); [discriminate|].
      destruct (key_eqb (KPath q) (KPath (np (p_cfg s) (o_path o)))) eqn:E3; [discriminate|].
      destruct (C q r' Hd) as [x [Hx Hq]].
      destruct (Nat.eq_dec r' r) as [->|Hne].
      * rewrite Hx in Hr. inversion Hr; subst x. rewrite Hq, key_eqb_refl in E3. discriminate.
      * exists x. split; [rewrite nth_hset_other by exact Hne; exact Hx|exact Hq].
  - intros n r' Hd. rewrite hset_length. rewrite (store_dget _ _ _ _ _ _ A Ho) in Hd. simpl in Hd.
    destruct (c_oidpath (p_cfg s)) eqn:Hc.
    + simpl in Hd. rewrite G1 in Hd. destruct (key_eqb (KId n) (o_oid o)); [discriminate|]. simpl in Hd.
      destruct (D n r' Hd) as [X _]. discriminate.
    + rewrite Hro in Hd. simpl in Hd. destruct (N.eqb n (N.of_nat r)) eqn:E1.
      * apply N.eqb_eq in E1. subst n. rewrite G1, Hro in Hd. simpl in Hd. rewrite N.eqb_refl in Hd.
        inversion Hd; subst r'. auto.
      * rewrite G1, Hro in Hd. simpl in Hd. rewrite E1 in Hd. apply D. exact Hd.
  - intros Hc r' Hr'. rewrite hset_length in Hr'. rewrite (store_dget _ _ _ _ _ _ A Ho). simpl.
    rewrite Hc in *. rewrite Hro. simpl.
    destruct (N.eqb (N.of_nat r') (N.of_nat r)) eqn:E1.
    + apply N.eqb_eq in E1. apply Nat2N.inj in E1. subst r'. rewrite G1, Hro. simpl. rewrite N.eqb_refl. reflexivity.
    + rewrite G1, Hro. simpl. rewrite E1. apply E; auto.
  - intros q x Hx. simpl in *. apply nth_hset in Hx as [[-> [-> _]]|[_ Hx]]; [exact Ho|apply F; exact Hx].
Qed.

Lemma S_step s o : S_inv s -> S_inv (fst (step s o)).
Proof.
  apply (P_step S_inv).
  - intros s0 e H. exact (S_same_core _ _ (same_core_emit s0 e) H).
  - intros s0 c H. exact (S_same_core _ _ (same_core_cursor s0 c) H).
  - intros s0 p kd d H. apply S_alloc. exact H.
  - intros s0 r o0 b H Ho. apply (S_hset s0 r o0); auto.
  - intros s0 r o0 d H Ho. apply (S_hset s0 r o0); auto.
  - intros s0 r o0 d1 dest H Ho Hu. apply S_place; assumption.
Qed.

Lemma S_rename_single s r dest ev s' : S_inv s -> rename_single s r dest ev = Some s' -> S_inv s'.
Proof.
  apply (P_rename_single S_inv).
  - intros s0 e H. exact (S_same_core _ _ (same_core_emit s0 e) H).
  - intros s0 r0 o0 d1 dest0 H Ho Hu. apply S_place; assumption.
Qed.

Lemma S_move_all refs s old dest s' : S_inv s -> move_all s refs old dest = Some s' -> S_inv s'.
Proof.
  apply (P_move_all S_inv).
  - intros s0 e H. exact (S_same_core _ _ (same_core_emit s0 e) H).
  - intros s0 r0 o0 d1 dest0 H Ho Hu. apply S_place; assumption.
Qed.

Lemma S_init c : sane_cfg c = true -> S_inv (init c).
Proof.
  intros Hs.
  set (root := {| o_path := []; o_oid := if c_oidpath c then KPath [] else KId 0%N;
                  o_kind := KDir; o_data := 0%N; o_exists := true |}).
  assert (Ho : o_oid root = if c_oidpath c then KPath (o_path root) else KId 0%N) by reflexivity.
  constructor; simpl; fold root.
  - exact Hs.
  - apply store_nodup. constructor.
  - intros q r Hd. rewrite (store_dget _ _ _ _ _ _ Hs Ho) in Hd. simpl in Hd.
    destruct (path_eqb q (np c [])) eqn:E1.
    + inversion Hd; subst. exists root. split; [reflexivity|]. apply path_eqb_eq in E1. simpl. congruence.
    + rewrite np_nil_eq in E1. destruct (c_oidpath c); simpl in Hd; [rewrite E1 in Hd|]; discriminate.
  - intros n r Hd. rewrite (store_dget _ _ _ _ _ _ Hs Ho) in Hd. simpl in Hd.
    destruct (c_oidpath c); simpl in Hd; [discriminate|].
    destruct (N.eqb n 0) eqn:E1; [|discriminate]. apply N.eqb_eq in E1. inversion Hd; subst. auto.
  - intros Hc r Hr. assert (r = 0) by lia. subst r.
    rewrite (store_dget _ _ _ _ _ _ Hs Ho). simpl. rewrite Hc. reflexivity.
  - apply oid_inv_init.
Qed.

(* ------------------------------------------------------------------ W_inv: the simple calls *)
Lemma store_dget_path c d r o q n : sane_cfg c = true ->
  o_oid o = (if c_oidpath c then KPath (o_path o) else KId n) ->
  dget (KPath q) (store c d r o) = if path_eqb q (np c (o_path o)) then Some r else dget (KPath q) d.
Proof.
  intros Hs Ho. rewrite (store_dget _ _ _ _ _ _ Hs Ho). simpl.
  destruct (path_eqb q (np c (o_path o))) eqn:E1; [reflexivity|].
  rewrite Ho. destruct (sane_cases c Hs) as [X|[X1 X2]]; rewrite ?X, ?X1; simpl; [reflexivity|].
  rewrite (np_cs _ _ X2) in E1. rewrite E1. reflexivity.
Qed.

Lemma W_init c : sane_cfg c = true -> W_inv (init c).
Proof.
  intros Hs.
  set (root := {| o_path := []; o_oid := if c_oidpath c then KPath [] else KId 0%N;
                  o_kind := KDir; o_data := 0%N; o_exists := true |}).
  assert (Ho : o_oid root = if c_oidpath c then KPath (o_path root) else KId 0%N) by reflexivity.
  assert (Hd : dget (KPath []) (store c [] 0 root) = Some 0).
  { rewrite (store_dget_path _ _ _ _ _ _ Hs Ho). simpl. rewrite np_nil_eq. reflexivity. }
  constructor; simpl; fold root.
  - intros r x Hx _. destruct r as [|r]; simpl in Hx; [|destruct r; discriminate].
    inversion Hx; subst x. simpl. rewrite np_nil_eq. exact Hd.
  - intros r x Hx _ Hp. destruct r as [|r]; simpl in Hx; [|destruct r; discriminate].
    inversion Hx; subst x. simpl in Hp. congruence.
  - exists 0, root. auto.
Qed.

(* a cell is replaced by one with the same path, kind and existence (upload) *)
Lemma W_hset_same s r o o' : W_inv s -> nth_error (p_heap s) r = Some o ->
  o_path o' = o_path o -> o_kind o' = o_kind o -> o_exists o' = o_exists o ->
  W_inv (with_heap s (hset (p_heap s) r o')).
Proof.
  intros [A B C] Ho Hp Hk Hx.
  assert (Hlen : r < length (p_heap s)) by (apply nth_error_Some; congruence).
  assert (Fwd : forall q y, nth_error (p_heap s) q = Some y -> o_exists y = true -> o_kind y = KDir ->
                exists y', nth_error (hset (p_heap s) r o') q = Some y' /\ o_exists y' = true /\ o_kind y' = KDir).
  { intros q y Hy Hl Hd. destruct (Nat.eq_dec q r) as [->|Hne].
    - exists o'. split; [apply nth_hset_same; exact Hlen|]. rewrite Hy in Ho. inversion Ho; subst. split; congruence.
    - exists y. split; [rewrite nth_hset_other by exact Hne; exact Hy|auto]. }
  assert (Bwd : forall q y', nth_error (hset (p_heap s) r o') q = Some y' -> o_exists y' = true ->
                exists y, nth_error (p_heap s) q = Some y /\ o_exists y = true /\ o_path y = o_path y').
  { intros q y' Hy Hl. apply nth_hset in Hy as [[-> [-> _]]|[_ Hy]].
    - exists o. split; [exact Ho|]. split; congruence.
    - exists y'. auto. }
  constructor; simpl.
  - intros q y' Hy Hl. destruct (Bwd _ _ Hy Hl) as [y [H1 [H2 H3]]]. rewrite <- H3. apply (A q y); assumption.
  - intros q y' Hy Hl Hne. destruct (Bwd _ _ Hy Hl) as [y [H1 [H2 H3]]]. rewrite <- H3 in *.
    destruct (B q y H1 H2 Hne) as [r' [z [G1 [G2 [G3 G4]]]]].
    destruct (Fwd _ _ G2 G3 G4) as [z' [K1 [K2 K3]]]. exists r', z'. auto.
  - destruct C as [r0 [o0 [G1 [G2 [G3 G4]]]]]. destruct (Fwd _ _ G2 G3 G4) as [z' [K1 [K2 K3]]].
    exists r0, z'. auto.
Qed.

(* delete: the cell dies; it is not the root and no live object has it as parent *)
Definition no_live_child (s : prov) (P : path) : Prop :=
  forall q y, nth_error (p_heap s) q = Some y -> o_exists y = true -> o_path y <> [] ->
              np (p_cfg s) (removelast (o_path y)) = np (p_cfg s) P -> False.

Lemma W_kill s r o : S_inv s -> W_inv s -> nth_error (p_heap s) r = Some o -> o_path o <> [] ->
  no_live_child s (o_path o) ->
  W_inv (with_heap s (hset (p_heap s) r (set_exists o false))).
Proof.
  intros HS [A B C] Ho Hne Hnc.
  assert (Bwd : forall q y', nth_error (hset (p_heap s) r (set_exists o false)) q = Some y' -> o_exists y' = true ->
                q <> r /\ nth_error (p_heap s) q = Some y').
  { intros q y' Hy Hl. apply nth_hset in Hy as [[-> [-> _]]|[H1 Hy]]; [discriminate|auto]. }
  constructor; simpl.
  - intros q y' Hy Hl. destruct (Bwd _ _ Hy Hl) as [_ H1]. apply (A q y'); assumption.
  - intros q y' Hy Hl Hp. destruct (Bwd _ _ Hy Hl) as [_ H1].
    destruct (B q y' H1 Hl Hp) as [r' [z [G1 [G2 [G3 G4]]]]].
    destruct (Nat.eq_dec r' r) as [->|Hd].
    + exfalso. destruct (s_path s HS _ _ G1) as [x [Hx Hq]]. rewrite Ho in Hx. inversion Hx; subst x.
      apply (Hnc q y' H1 Hl Hp). symmetry. exact Hq.
    + exists r', z. rewrite nth_hset_other by exact Hd. auto.
  - destruct C as [r0 [o0 [G1 [G2 [G3 G4]]]]].
    destruct (Nat.eq_dec r0 r) as [->|Hd].
    + exfalso. pose proof (root_path s r o0 HS G1 G2) as R. rewrite Ho in G2. inversion G2; subst. congruence.
    + exists r0, o0. rewrite nth_hset_other by exact Hd. auto.
Qed.

Lemma no_live_child_file s r o : W_inv s -> nth_error (p_heap s) r = Some o -> o_exists o = true ->
  o_kind o = KFile -> no_live_child s (o_path o).
Proof.
  intros HW Ho Hl Hk q y Hy Hly Hp Hq.
  destruct (w_parent s HW q y Hy Hly Hp) as [r' [z [G1 [G2 [G3 G4]]]]].
  pose proof (w_filed s HW r o Ho Hl) as F. rewrite Hq in G1. rewrite F in G1. inversion G1; subst r'.
  rewrite Ho in G2. inversion G2; subst z. congruence.
Qed.

Lemma children_nil s P : children s P = [] ->
  forall q y, In q (fs_refs s) -> nth_error (p_heap s) q = Some y -> o_exists y = true ->
              is_child (p_cfg s) P (o_path y) = true -> False.
Proof.
  intros H q y Hin Hy Hl Hc.
  assert (G : In (info_of y) (children s P)).
  { unfold children. apply in_flat_map. exists q. split; [exact Hin|]. rewrite Hy, Hl, Hc. simpl. auto. }
  rewrite H in G. destruct G.
Qed.

Lemma live_in_fs_refs s q y : W_inv s -> nth_error (p_heap s) q = Some y -> o_exists y = true ->
  In q (fs_refs s).
Proof.
  intros HW Hy Hl. apply in_fs_refs. exists (np (p_cfg s) (o_path y)). apply dget_in. apply (w_filed s HW); assumption.
Qed.

Lemma no_live_child_empty s P : W_inv s -> children s P = [] -> no_live_child s P.
Proof.
  intros HW Hc q y Hy Hl Hp Hq.
  apply (children_nil s P Hc q y); auto.
  - eapply live_in_fs_refs; eassumption.
  - apply is_child_spec. auto.
Qed.

Lemma listdir_nil s k r o : get_live s k = Some (r, o) -> listdir s k = Ok [] -> children s (o_path o) = [].
Proof.
  intros Hg. unfold listdir. rewrite Hg. destruct (o_kind o); [discriminate|]. intros H. inversion H. reflexivity.
Qed.

Lemma get_live_oid s r o : S_inv s -> W_inv s -> nth_error (p_heap s) r = Some o -> o_exists o = true ->
  get_live s (o_oid o) = Some (r, o).
Proof.
  intros HS HW Ho Hl. apply get_live_spec. split; [|auto].
  apply oid_filed; auto. apply (w_filed s HW); assumption.
Qed.

Lemma W_delete s k : S_inv s -> W_inv s -> guard_op s (ODelete k) = true -> W_inv (fst (delete s k)).
Proof.
  intros HS HW Hg. unfold delete. simpl in Hg.
  destruct (get_live s k) as [[r o]|] eqn:E; [|exact HW].
  apply get_live_spec in E as [E1 [E2 E3]].
  assert (Hp : o_path o <> []) by (destruct (o_path o); [discriminate|congruence]).
  destruct (o_kind o) eqn:K.
  - simpl. apply (W_same_core _ _ (same_core_emit _ _)). apply W_kill; auto.
    eapply no_live_child_file; eassumption.
  - destruct (listdir s (o_oid o)) as [[|i l]|e] eqn:L.
    + simpl. apply (W_same_core _ _ (same_core_emit _ _)). apply W_kill; auto.
      apply no_live_child_empty; [exact HW|]. apply (listdir_nil s (o_oid o) r o); [|exact L].
      apply get_live_oid; auto.
    + exact HW.
    + exact HW.
Qed.

Lemma W_upload s k d : W_inv s -> W_inv (fst (upload s k d)).
Proof.
  intros HW. unfold upload. destruct (get_live s k) as [[r o]|] eqn:E; [|exact HW].
  apply get_live_spec in E as [E1 [E2 E3]].
  destruct (o_kind o); simpl; [|exact HW].
  apply (W_same_core _ _ (same_core_emit _ _)). apply (W_hset_same s r o); auto.
Qed.

(* alloc *)
Lemma verify_parent_ok s p : W_inv s -> p <> [] -> verify_parent s p = None ->
  exists r' y, dget (KPath (np (p_cfg s) (removelast p))) (p_dict s) = Some r' /\
               nth_error (p_heap s) r' = Some y /\ o_exists y = true /\ o_kind y = KDir.
Proof.
  intros HW Hp Hv. destruct p as [|a [|b t]]; [congruence| |].
  - simpl. rewrite np_nil_eq. exact (w_root s HW).
  - unfold verify_parent in Hv. unfold info_path, info_oid in Hv.
    destruct (get_live s (pkey s (removelast (a :: b :: t)))) as [[r' y]|] eqn:E; [|discriminate].
    apply get_live_spec in E as [E1 [E2 E3]]. simpl in Hv.
    destruct (o_kind y) eqn:K; [discriminate|]. exists r', y. auto.
Qed.

Lemma W_alloc s p kd d : S_inv s -> W_inv s -> get_live s (pkey s p) = None -> p <> [] ->
  verify_parent s p = None -> W_inv (fst (alloc s p kd d)).
Proof.
  intros HS HW Hfree Hp Hv. unfold alloc. simpl.
  apply (W_same_core _ _ (same_core_emit _ _)).
  set (r := length (p_heap s)).
  set (o := {| o_path := p; o_oid := if c_oidpath (p_cfg s) then KPath p else KId (N.of_nat r);
               o_kind := kd; o_data := d; o_exists := true |}).
  assert (Ho : o_oid o = if c_oidpath (p_cfg s) then KPath (o_path o) else KId (N.of_nat r)) by reflexivity.
  assert (Hnew : forall q, dget (KPath q) (store (p_cfg s) (p_dict s) r o) =
                           if path_eqb q (np (p_cfg s) p) then Some r else dget (KPath q) (p_dict s)).
  { intros q. apply (store_dget_path _ _ _ _ _ _ (s_sane s HS) Ho). }
  (* no live object is filed under np p *)
  assert (Hnl : forall q y, dget (KPath (np (p_cfg s) p)) (p_dict s) = Some q ->
                            nth_error (p_heap s) q = Some y -> o_exists y = true -> False).
  { intros q y H1 H2 H3. pose proof (proj1 (get_live_none s (pkey s p)) Hfree q y H1 H2). congruence. }
  assert (Hold : forall q y, nth_error (p_heap s) q = Some y -> nth_error (p_heap s ++ [o]) q = Some y).
  { intros q y Hy. rewrite nth_error_app1; [exact Hy|]. apply nth_error_Some. congruence. }
  assert (Hsplit : forall q y, nth_error (p_heap s ++ [o]) q = Some y ->
                   nth_error (p_heap s) q = Some y \/ (q = r /\ y = o)).
  { intros q y Hy. destruct (Nat.lt_ge_cases q (length (p_heap s))) as [Hlt|Hge].
    - rewrite nth_error_app1 in Hy by exact Hlt. auto.
    - rewrite nth_error_app2 in Hy by exact Hge.
      destruct (q - length (p_heap s)) as [|m] eqn:Em; simpl in Hy; [|destruct m; discriminate].
      inversion Hy. right. split; [unfold r; lia|reflexivity]. }
  (* a live cell of s keeps its path key *)
  assert (Hkeep : forall q y, nth_error (p_heap s) q = Some y -> o_exists y = true ->
                  dget (KPath (np (p_cfg s) (o_path y))) (store (p_cfg s) (p_dict s) r o) = Some q).
  { intros q y Hy Hl. rewrite Hnew. pose proof (w_filed s HW q y Hy Hl) as F.
    destruct (path_eqb (np (p_cfg s) (o_path y)) (np (p_cfg s) p)) eqn:E1; [|exact F].
    apply path_eqb_eq in E1. rewrite E1 in F. exfalso. eapply Hnl; eassumption. }
  destruct (verify_parent_ok s p HW Hp Hv) as [rp [yp [P1 [P2 [P3 P4]]]]].
  constructor; simpl; fold r; fold o.
  - intros q y Hy Hl. destruct (Hsplit _ _ Hy) as [H1|[-> ->]]; [apply Hkeep; assumption|].
    rewrite Hnew. simpl. rewrite path_eqb_refl. reflexivity.
  - intros q y Hy Hl Hne. destruct (Hsplit _ _ Hy) as [H1|[-> ->]].
    + destruct (w_parent s HW q y H1 Hl Hne) as [r' [z [G1 [G2 [G3 G4]]]]].
      exists r', z. split; [|auto].
      destruct (s_path s (HS) _ _ G1) as [x [Hx Hq]]. rewrite G2 in Hx. inversion Hx; subst x.
      rewrite <- Hq. apply Hkeep; assumption.
    + simpl. exists rp, yp. split; [|auto].
      destruct (s_path s (HS) _ _ P1) as [x [Hx Hq]]. rewrite P2 in Hx. inversion Hx; subst x.
      rewrite <- Hq. apply Hkeep; assumption.
  - destruct (w_root s HW) as [r0 [o0 [G1 [G2 [G3 G4]]]]]. exists r0, o0. split; [|auto].
    rewrite Hnew. destruct (path_eqb [] (np (p_cfg s) p)) eqn:E1; [|exact G1].
    apply path_eqb_eq in E1. symmetry in E1. apply np_nil in E1. congruence.
Qed.

Lemma info_path_root s : W_inv s -> exists i, info_path s [] = Some i /\ i_kind i = KDir.
Proof.
  intros HW. destruct (w_root s HW) as [r0 [o0 [G1 [G2 [G3 G4]]]]].
  assert (G : get_live s (pkey s []) = Some (r0, o0)).
  { apply get_live_spec. unfold pkey. rewrite np_nil_eq. auto. }
  unfold info_path, info_oid. rewrite G. eexists. split; [reflexivity|exact G4].
Qed.

Lemma info_path_none s p : info_path s p = None -> get_live s (pkey s p) = None.
Proof. unfold info_path, info_oid. destruct (get_live s (pkey s p)) as [[r o]|]; [discriminate|reflexivity]. Qed.

Lemma W_create s p d : S_inv s -> W_inv s -> W_inv (fst (create s p d)).
Proof.
  intros HS HW. unfold create.
  destruct (has_forbidden (p_cfg s) p); [exact HW|].
  destruct (info_path s p) eqn:I; [exact HW|].
  destruct (verify_parent s p) eqn:V; [exact HW|].
  assert (Hp : p <> []).
  { intros ->. destruct (info_path_root s HW) as [i [Hi _]]. congruence. }
  pose proof (W_alloc s p KFile d HS HW (info_path_none _ _ I) Hp V) as G.
  destruct (alloc s p KFile d). exact G.
Qed.

Lemma W_mkdir s p : S_inv s -> W_inv s -> W_inv (fst (mkdir s p)).
Proof.
  intros HS HW. unfold mkdir.
  destruct (verify_parent s p) eqn:V; [exact HW|].
  destruct (has_forbidden (p_cfg s) p); [exact HW|].
  destruct (info_path s p) as [i|] eqn:I; [destruct (i_kind i); exact HW|].
  assert (Hp : p <> []).
  { intros ->. destruct (info_path_root s HW) as [i [Hi _]]. congruence. }
  pose proof (W_alloc s p KDir 0%N HS HW (info_path_none _ _ I) Hp V) as G.
  destruct (alloc s p KDir 0%N). exact G.
Qed.

(* ------------------------------------------------------------------ INV implies the executable wfb *)
Lemma nodupb_true l : NoDup l -> nodupb l = true.
Proof.
  induction l as [|x t IH]; simpl; intros H; [reflexivity|].
  inversion H as [|? ? Hn Ht]; subst. rewrite (IH Ht), andb_true_r.
  destruct (existsb (Nat.eqb x) t) eqn:E; [|reflexivity].
  apply existsb_exists in E as [y [Hy E]]. apply Nat.eqb_eq in E. subst y. contradiction.
Qed.

Lemma INV_fs_refs_nodup s : S_inv s -> NoDup (fs_refs s).
Proof.
  intros HS. unfold fs_refs.
  apply (fs_refs_nodup (p_dict s)
           (fun r => match nth_error (p_heap s) r with Some x => np (p_cfg s) (o_path x) | None => [] end)).
  - exact (s_nodup s HS).
  - intros q r Hin. apply (in_dget _ _ _ (s_nodup s HS)) in Hin.
    destruct (s_path s HS _ _ Hin) as [x [Hx Hq]]. rewrite Hx. congruence.
Qed.

Lemma INV_wfb s : INV s -> wfb s = true.
Proof.
  intros [HS HW]. unfold wfb. rewrite !andb_true_iff. split; [split|].
  - destruct (w_root s HW) as [r0 [o0 [G1 [G2 [G3 G4]]]]].
    assert (G : get_live s (pkey s []) = Some (r0, o0)).
    { apply get_live_spec. unfold pkey. rewrite np_nil_eq. auto. }
    rewrite G. rewrite (root_path s r0 o0 HS G1 G2). reflexivity.
  - apply forallb_forall. intros r Hr. apply in_seq in Hr.
    destruct (nth_error (p_heap s) r) as [x|] eqn:Hx; [|apply nth_error_None in Hx; lia].
    destruct (o_exists x) eqn:Hl; [|reflexivity].
    pose proof (w_filed s HW r x Hx Hl) as F.
    unfold live_ok. rewrite !andb_true_iff. repeat split.
    + unfold own_key_ok. rewrite Hx, F. apply Nat.eqb_refl.
    + rewrite (oid_filed s r x HS Hx F). apply Nat.eqb_refl.
    + rewrite (s_oid s HS r x Hx). destruct (c_oidpath (p_cfg s)); apply key_eqb_refl.
    + destruct (o_path x) as [|a t] eqn:Hp.
      * destruct (w_root s HW) as [r0 [o0 [G1 [G2 [G3 G4]]]]].
        rewrite np_nil_eq in F. rewrite F in G1. inversion G1; subst r0. rewrite Hx in G2. inversion G2; subst. rewrite G4. reflexivity.
      * assert (Hne : o_path x <> []) by congruence.
        destruct (w_parent s HW r x Hx Hl Hne) as [r' [y [G1 [G2 [G3 G4]]]]]. rewrite Hp in G1.
        assert (G : get_live s (pkey s (removelast (a :: t))) = Some (r', y)) by (apply get_live_spec; auto).
        unfold info_path, info_oid. rewrite G. simpl. rewrite G4. reflexivity.
  - apply nodupb_true. apply NoDup_filter. apply INV_fs_refs_nodup. exact HS.
Qed.
