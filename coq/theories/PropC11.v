(* PropC11.v — property theorems for C11 (sync-state index integrity) about StateModel.v.
   Only statements closed by [exact], each followed by Print Assumptions. *)
From Coq Require Import NArith List Bool.
From CS Require Import Sx Str PathModel PathLaws StateModel StateProofs StatePathProofs StateGuardModel StateFolderProofs StateUpdateProofs.
Import ListNotations.

(* the empty state satisfies all four clauses *)
Theorem C11_idx_init : IdxJ init_state /\ cs_exact init_state.
Proof. exact idx_init. Qed.
Print Assumptions C11_idx_init.

(* clause (iii) is a consequence of clause (i) *)
Theorem C11_found_implies_unique : forall s, idx_found s -> idx_unique s.
Proof. exact idx_found_unique. Qed.
Print Assumptions C11_found_implies_unique.

(* clause (iv) at full strength is FALSE of the faithful model: witness w_changeset
   (update; local id removed; remote id assigned) leaves entry 0 pending without (flag and id). *)
Theorem C11_changeset_exact_refuted : ~ changeset_exact_full.
Proof. exact changeset_exact_refuted. Qed.
Print Assumptions C11_changeset_exact_refuted.

(* OLD code (model variant legacy = true; fixed in /repo by 029c8f6 and ccb41ee): a folder placed below
   its own previous path, and the changed-flag repair with both sides flagged without ids, recursed
   without bound *)
Theorem C11_legacy_update_kids_terminates_refuted : ~ legacy_setters_terminate_full.
Proof. exact legacy_update_kids_terminates_refuted. Qed.
Print Assumptions C11_legacy_update_kids_terminates_refuted.

Theorem C11_legacy_changed_setter_terminates_refuted : ~ legacy_setters_terminate_full.
Proof. exact legacy_changed_setter_terminates_refuted. Qed.
Print Assumptions C11_legacy_changed_setter_terminates_refuted.

(* the code as it is: both old witnesses run to completion ... *)
Theorem C11_fixed_witnesses_terminate :
  (exists s, run_ops E_id init_state (w_kids 1) = Ok s) /\ (exists s, run_ops E_id init_state w_changed = Ok s).
Proof. exact fixed_witnesses_terminate. Qed.
Print Assumptions C11_fixed_witnesses_terminate.

(* ... the write of `changed` returns with one unit of fuel, for every state and value ... *)
Theorem C11_set_changed_total : forall E f fin e sd v s,
  legacy E = false -> e < length (ents s) -> exists s', exec E (S f) (CChg fin e sd v) s = Ok s'.
Proof. exact set_changed_total. Qed.
Print Assumptions C11_set_changed_total.

(* ... and _update_kids skips the renamed folder itself, whatever the recursive call would do ... *)
Theorem C11_kid_step_skips_self : forall E rec e sd pp p s en,
  legacy E = false -> get_ent s e = Ok en -> kid_step E rec e sd pp p e s = Ok s.
Proof. exact kid_step_self. Qed.
Print Assumptions C11_kid_step_skips_self.

(* ... but termination of the setters is STILL false: a folder moved below one of its own child
   folders (three events, witness w_kids2) makes the two folders children of each other's move *)
Theorem C11_update_kids_terminates_refuted : ~ setters_terminate_full.
Proof. exact update_kids_terminates_refuted. Qed.
Print Assumptions C11_update_kids_terminates_refuted.

(* ---- what holds (clauses (i)-(iii); IdxJ = idx_found /\ idx_slots, idx_unique follows) ----
   for EVERY state satisfying the invariant (not only reachable ones), every provider
   environment E, every recorded set order on the tape, every fuel. *)

(* ent[side].oid = v  (SideState.__setattr__ -> SyncState._change_oid, incl. ousting the previous
   holder through the intercepted setter and both iteration orders of set([old, new])) *)
Theorem C11_set_oid_preserves : forall E s e sd v s', IdxJ s -> set_oid E s e sd v = Ok s' -> IdxJ s'.
Proof. exact set_oid_pres. Qed.
Print Assumptions C11_set_oid_preserves.

(* ent[side].path = v  (SideState.__setattr__ -> SyncState._change_path) for an entry that is not a
   folder: re-filing under the new path, removal for None / '', the "ousted entry" branch (impossible
   under the invariant), priority reset.  The folder case (_update_kids recursion) is NOT covered. *)
Theorem C11_set_path_nonfolder_preserves : forall E s e sd v s' en,
  IdxJ s -> get_ent s e = Ok en -> s_otype (gs en sd) <> Dir -> set_path E s e sd v = Ok s' -> IdxJ s'.
Proof. exact set_path_file_pres. Qed.
Print Assumptions C11_set_path_nonfolder_preserves.

Theorem C11_set_changed_preserves : forall E s e sd v s', IdxJ s -> set_changed E s e sd v = Ok s' -> IdxJ s'.
Proof. exact set_changed_pres. Qed.
Print Assumptions C11_set_changed_preserves.

Theorem C11_set_priority_preserves : forall E s e v s', IdxJ s -> set_priority E s e v = Ok s' -> IdxJ s'.
Proof. exact set_priority_pres. Qed.
Print Assumptions C11_set_priority_preserves.

(* ent.ignored = v, ent.ignore(DISCARDED) *)
Theorem C11_set_ignored_preserves : forall s e v s', IdxJ s -> set_ignored s e v = Ok s' -> IdxJ s'.
Proof. exact set_ignored_pres. Qed.
Print Assumptions C11_set_ignored_preserves.

Theorem C11_mark_changed_preserves : forall E s e sd s', IdxJ s -> mark_changed E s e sd = Ok s' -> IdxJ s'.
Proof. exact mark_changed_pres. Qed.
Print Assumptions C11_mark_changed_preserves.

Theorem C11_finished_preserves : forall E s e s', IdxJ s -> finished E s e = Ok s' -> IdxJ s'.
Proof. exact finished_pres. Qed.
Print Assumptions C11_finished_preserves.

(* any sequence of covered operations (assignments of oid / changed / hash / sync_hash / sync_path /
   exists / otype / force_sync / ignored / priority, mark_changed, finished, discard), from any
   state satisfying the invariant.  NOT covered by this proof: path assignment of folders (_update_kids;
   non-folder path assignment is C11_set_path_nonfolder_preserves), update_entry, update, split, move-a-side, forget_oid. *)
Theorem C11_idx_partial : forall E ops s s',
  forallb (fun ot => op_covered (fst ot)) ops = true -> IdxJ s -> run_ops E s ops = Ok s' ->
  idx_found s' /\ idx_slots s' /\ idx_unique s'.
Proof. exact idx_partial. Qed.
Print Assumptions C11_idx_partial.

(* non-vacuity: a covered sequence that runs to completion from a non-empty indexed state *)
Example C11_partial_nonvacuous :
  exists s s', run_ops E_id init_state [ (OUpdate false (Some File) (Some w_o1) (Some w_pbx) None (Some true) None, [TSwap false]) ] = Ok s /\
    run_ops E_id s [ (OSet 0 false (FOid (Some w_o2)), [TSwap false]); (OMark 0 true, []); (OFinished 0, []); (ODiscard 0, []) ] = Ok s' /\
    oids s' false = [(w_o2, 0)] /\ slot_get s' false w_pbx w_o2 = Some 0.
Proof. eexists. eexists. split; [vm_compute; reflexivity|]. split; [vm_compute; reflexivity|]. split; vm_compute; reflexivity. Qed.

(* ==== preservation for the operations the engine uses: every state satisfying the invariant, every
   argument, every provider environment E with env_ok E (the code as it is: legacy = false; the case fold of
   both path conventions satisfies PathLaws.fold_ok), every tape, every fuel.  Results other than [Ok] (the
   assertion failures of the code, RecursionError = out of fuel, a tape that does not fit) are excluded by the
   hypothesis "... = Ok s'".  The guards are boolean functions of the state BEFORE the operation. ==== *)

(* the guard relation: b strictly below a, on case-folded path components (what is_subpath / join compare) *)
Theorem C11_below_decidable : forall cv a b, belowb cv a b = true <-> below cv a b.
Proof. exact belowb_spec. Qed.
Print Assumptions C11_below_decidable.

(* the executable model's environments (un_env) satisfy env_ok as soon as they describe the current code *)
Theorem C11_env_ok_wire : forall oipf csf pf inf, env_ok (mkEnv oipf (fun sd => mk_conv (csf sd)) pf inf false).
Proof. exact env_ok_wire. Qed.
Print Assumptions C11_env_ok_wire.

(* ent[side].path = v for EVERY entry, folders included (_change_path + _update_kids with the recursion through
   the children's own setters, the provider lookups of an oid_is_path side, sync_path rewriting), under the
   guard path_guardb: a folder is not placed strictly below its own previous path.  Without the guard the setters
   need not even terminate: C11_update_kids_terminates_refuted (open finding C11-F4) stays as it is. *)
Theorem C11_set_path_folder_preserves : forall E s e sd v s',
  env_ok E -> IdxJ s -> path_guardb E s e sd v = true -> set_path E s e sd v = Ok s' -> IdxJ s'.
Proof. exact set_path_pres. Qed.
Print Assumptions C11_set_path_folder_preserves.

(* SyncState.update_entry, all branches (replacement of a discarded entry by a fresh one on an oid_is_path side,
   id, type, path, hash, exists with the TRASHED -> LIKELY_TRASHED rule, mark_changed) *)
Theorem C11_update_entry_preserves : forall E s e sd oid path h ex changed ot s',
  env_ok E -> IdxJ s -> ue_guardb E s e sd oid path ot = true ->
  update_entry E s e sd oid path h ex changed ot = Ok s' -> IdxJ s'.
Proof. exact update_entry_pres. Qed.
Print Assumptions C11_update_entry_preserves.

(* SyncState.update: one provider event, all branches (lookup by id; prior_oid: re-use of a discarded trashed
   entry, rename detection, merge of two entries by moving the other side, stale path lookups with
   un-discarding; new entry; clock tick; update_entry).  upd_guardb checks, for each entry the event can land on,
   the guard of the path assignment, and the guard of the side move of the merge branch. *)
Theorem C11_update_preserves : forall E s sd ot oid path h ex prior s',
  env_ok E -> IdxJ s -> upd_guardb E s sd ot oid path prior = true ->
  update E s sd ot oid path h ex prior = Ok s' -> IdxJ s'.
Proof. exact update_pres. Qed.
Print Assumptions C11_update_preserves.

(* SyncState.split (fresh entry, side move, SideState.clear, the get_all / lookup_path assertions, mark_changed): no guard *)
Theorem C11_split_preserves : forall E s e s', env_ok E -> IdxJ s -> split E s e = Ok s' -> IdxJ s'.
Proof. exact split_pres. Qed.
Print Assumptions C11_split_preserves.

(* SyncEntry.__setitem__ (dst[side] = src[side]), both announcement orders (id then path / path then None).
   mv_guardb: if dst is a folder that already has a path on that side, the incoming path is not strictly below
   it and, when an id comes along, the side is not oid_is_path. *)
Theorem C11_setitem_preserves : forall E s dst src sd s',
  env_ok E -> IdxJ s -> mv_guardb E s dst src sd = true -> move_side E s dst src sd = Ok s' -> IdxJ s'.
Proof. exact move_side_pres. Qed.
Print Assumptions C11_setitem_preserves.

(* ... and the second half of that guard is needed: on an oid_is_path side _update_kids can hand the incoming id
   to a child of the destination folder, after which __setitem__ writes it back into the destination (finding
   C11-F5, witness replayed on the real SyncState: corpus/C11/w5_setitem_rekeyed_child.json) *)
Theorem C11_setitem_refuted : ~ setitem_preserves_full.
Proof. exact setitem_refuted. Qed.
Print Assumptions C11_setitem_refuted.

(* SyncState.forget_oid (no caller in the engine) removes the slots of an entry that keeps its id *)
Theorem C11_forget_refuted : ~ forget_preserves_full.
Proof. exact forget_refuted. Qed.
Print Assumptions C11_forget_refuted.

(* one operation of the whole modelled alphabet (events, all field assignments incl. path, ignored, priority,
   split, finished, mark_changed, move-a-side, update_entry, discard; forget_oid is the one exclusion) *)
Theorem C11_apply_op_preserves : forall E s o s',
  env_ok E -> IdxJ s -> op_guardb E s o = true -> apply_op E s o = Ok s' -> IdxJ s'.
Proof. exact apply_op_guarded_pres. Qed.
Print Assumptions C11_apply_op_preserves.

(* HEADLINE: every state reached from the empty state satisfies clauses (i)-(iii), after EVERY operation of
   EVERY sequence over that alphabet in which each operation satisfies its guard in the state it is applied to
   (guardedb: fold over the list; the guard excludes the C11-F4 class, the C11-F5 class and forget_oid). *)
Theorem C11_idx_reachable : forall E ops s',
  env_ok E -> guardedb E init_state ops = true -> In (Ok s') (trace_ops E init_state ops) ->
  idx_found s' /\ idx_slots s' /\ idx_unique s'.
Proof. exact idx_reachable. Qed.
Print Assumptions C11_idx_reachable.

(* the bits printed by the extracted guard model (coq/bin/stateguard, StateGuardModel.run) decide that hypothesis *)
Theorem C11_guard_trace_decides : forall E l s, guardedb E s l = forallb (N.eqb 1) (guard_trace E s l).
Proof. exact guard_trace_all. Qed.
Print Assumptions C11_guard_trace_decides.

(* the same from any state satisfying the invariant, for the final state of a run *)
Theorem C11_idx_run : forall E ops s s',
  env_ok E -> IdxJ s -> guardedb E s ops = true -> run_ops E s ops = Ok s' -> IdxJ s'.
Proof. exact idx_run. Qed.
Print Assumptions C11_idx_run.

(* ---- non-vacuity ---- *)
Definition nv_o3 : str := [111;51]%N.
Definition nv_o4 : str := [111;52]%N.
Definition nv_r3 : str := [114;51]%N.
Definition nv_abf : str := [47;97;47;98;47;102]%N.
Definition nv_z : str := [47;122]%N.
Definition nv_zg : str := [47;122;47;103]%N.
Definition nv_zbf : str := [47;122;47;98;47;102]%N.
Definition nv_zbf2 : str := [47;122;47;98;47;102;50]%N.
(* three nested objects; the top folder is renamed (children and grandchild re-filed); an event with prior_oid
   merges two entries (the remote side moves); split; finished; move-a-side; discard.  Ops and tapes as recorded
   on the real SyncState (model and implementation agree on every step). *)
Definition nv_run : list (op * list titem) :=
  [ (OUpdate false (Some Dir) (Some w_o1) (Some w_pa) None (Some true) None, [TSwap false]);
    (OUpdate false (Some Dir) (Some w_o2) (Some w_pab) None (Some true) None, [TSwap false]);
    (OUpdate false (Some File) (Some nv_o3) (Some nv_abf) (Some 1%N) (Some true) None, [TSwap false]);
    (OUpdate false (Some Dir) (Some w_o1) (Some nv_z) None (Some true) None, [TOrder [0;1;2]; TOrder [0;1;2]]);
    (OSet 2 true (FOid (Some nv_r3)), [TSwap false]);
    (OUpdate false (Some File) (Some nv_o4) (Some nv_zg) (Some 2%N) (Some true) None, [TSwap false]);
    (OUpdate false (Some File) (Some nv_o3) (Some nv_zbf2) (Some 1%N) (Some true) (Some nv_o4),
       [TSwap true; TSwap false; TSwap false; TSwap true]);
    (OSplit 3, [TSwap true; TSwap false; TOrder [0;1;3;4]]);
    (OFinished 0, []);
    (OMove 1 0 false, [TSwap true; TSwap false; TOrder [1;3;4]]);
    (ODiscard 2, []) ].
Example C11_reachable_nonvacuous :
  guardedb E_id init_state nv_run = true /\
  exists s, run_ops E_id init_state nv_run = Ok s /\ length (ents s) = 5 /\
    oids s false = [(nv_o3, 4); (w_o1, 1)] /\ oids s true = [(nv_r3, 3)] /\ slot_get s false nv_z w_o1 = Some 1.
Proof. split; [vm_compute; reflexivity|]. eexists. split; [vm_compute; reflexivity|]. repeat split; vm_compute; reflexivity. Qed.

(* the folder rename on its own: after the first three events the guard holds for entry 0 going to /z, the call
   runs to completion, and child and grandchild are filed under the new paths *)
Example C11_set_path_folder_nonvacuous :
  exists s s', run_ops E_id init_state (firstn 3 nv_run) = Ok s /\
    path_guardb E_id s 0 false (Some nv_z) = true /\
    set_path E_id (st_tape s [TOrder [0;1;2]; TOrder [0;1;2]]) 0 false (Some nv_z) = Ok s' /\
    slot_get s' false nv_zbf nv_o3 = Some 2.
Proof. eexists. eexists. split; [vm_compute; reflexivity|]. split; [vm_compute; reflexivity|]. split; vm_compute; reflexivity. Qed.

(* the guard rejects exactly the step of the C11-F4 witness that places the folder below its own child *)
Example C11_guard_rejects_F4 : guardedb E_id init_state (w_kids2 1) = false /\ guardedb E_id init_state (firstn 2 (w_kids2 1)) = true.
Proof. split; vm_compute; reflexivity. Qed.
