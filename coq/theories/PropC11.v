(* PropC11.v — property theorems for C11 (sync-state index integrity) about StateModel.v.
   Only statements closed by [exact], each followed by Print Assumptions. *)
From Coq Require Import NArith List Bool.
From CS Require Import Sx Str PathModel StateModel StateProofs.
Import ListNotations.

(* the empty state satisfies all four clauses *)
Theorem C11_idx_init : IdxJ init_state /\ cs_exact init_state.
Proof. exact idx_init. Qed.
Print Assumptions C11_idx_init.

(* clause (iii) is a consequence of clause (i) *)
Theorem C11_found_implies_unique : forall s, idx_found s -> idx_unique s.
Proof. exact idx_found_unique. Qed.
Print Assumptions C11_found_implies_unique.

(* clause (iv) at full strength is FALSE of the faithful model: witness w_changeset
   (update; local id removed; remote id assigned) leaves entry 0 pending without (flag and id). *)
Theorem C11_changeset_exact_refuted : ~ changeset_exact_full.
Proof. exact changeset_exact_refuted. Qed.
Print Assumptions C11_changeset_exact_refuted.

(* the setters do not always terminate: a folder placed below its own previous path (DESIGN P-8) *)
Theorem C11_update_kids_terminates_refuted : ~ setters_terminate_full.
Proof. exact update_kids_terminates_refuted. Qed.
Print Assumptions C11_update_kids_terminates_refuted.

(* ... and the changed-flag repair recursion when both sides are flagged without ids *)
Theorem C11_changed_setter_terminates_refuted : ~ setters_terminate_full.
Proof. exact changed_setter_terminates_refuted. Qed.
Print Assumptions C11_changed_setter_terminates_refuted.
