(* PropC11.v — property theorems for C11 (sync-state index integrity) about StateModel.v.
   Only statements closed by [exact], each followed by Print Assumptions. *)
From Coq Require Import NArith List Bool.
From CS Require Import Sx Str PathModel StateModel StateProofs StatePathProofs.
Import ListNotations.

(* the empty state satisfies all four clauses *)
Theorem C11_idx_init : IdxJ init_state /\ cs_exact init_state.
Proof. exact idx_init. Qed.
Print Assumptions C11_idx_init.

(* clause (iii) is a consequence of clause (i) *)
Theorem C11_found_implies_unique : forall s, idx_found s -> idx_unique s.
Proof. exact idx_found_unique. Qed.
Print Assumptions C11_found_implies_unique.

(* clause (iv) at full strength is FALSE of the faithful model: witness w_changeset
   (update; local id removed; remote id assigned) leaves entry 0 pending without (flag and id). *)
Theorem C11_changeset_exact_refuted : ~ changeset_exact_full.
Proof. exact changeset_exact_refuted. Qed.
Print Assumptions C11_changeset_exact_refuted.

(* OLD code (model variant legacy = true; fixed in /repo by 029c8f6 and ccb41ee): a folder placed below
   its own previous path, and the changed-flag repair with both sides flagged without ids, recursed
   without bound *)
Theorem C11_legacy_update_kids_terminates_refuted : ~ legacy_setters_terminate_full.
Proof. exact legacy_update_kids_terminates_refuted. Qed.
Print Assumptions C11_legacy_update_kids_terminates_refuted.

Theorem C11_legacy_changed_setter_terminates_refuted : ~ legacy_setters_terminate_full.
Proof. exact legacy_changed_setter_terminates_refuted. Qed.
Print Assumptions C11_legacy_changed_setter_terminates_refuted.

(* the code as it is: both old witnesses run to completion ... *)
Theorem C11_fixed_witnesses_terminate :
  (exists s, run_ops E_id init_state (w_kids 1) = Ok s) /\ (exists s, run_ops E_id init_state w_changed = Ok s).
Proof. exact fixed_witnesses_terminate. Qed.
Print Assumptions C11_fixed_witnesses_terminate.

(* ... the write of `changed` returns with one unit of fuel, for every state and value ... *)
Theorem C11_set_changed_total : forall E f fin e sd v s,
  legacy E = false -> e < length (ents s) -> exists s', exec E (S f) (CChg fin e sd v) s = Ok s'.
Proof. exact set_changed_total. Qed.
Print Assumptions C11_set_changed_total.

(* ... and _update_kids skips the renamed folder itself, whatever the recursive call would do ... *)
Theorem C11_kid_step_skips_self : forall E rec e sd pp p s en,
  legacy E = false -> get_ent s e = Ok en -> kid_step E rec e sd pp p e s = Ok s.
Proof. exact kid_step_self. Qed.
Print Assumptions C11_kid_step_skips_self.

(* ... but termination of the setters is STILL false: a folder moved below one of its own child
   folders (three events, witness w_kids2) makes the two folders children of each other's move *)
Theorem C11_update_kids_terminates_refuted : ~ setters_terminate_full.
Proof. exact update_kids_terminates_refuted. Qed.
Print Assumptions C11_update_kids_terminates_refuted.

(* ---- what holds (clauses (i)-(iii); IdxJ = idx_found /\ idx_slots, idx_unique follows) ----
   for EVERY state satisfying the invariant (not only reachable ones), every provider
   environment E, every recorded set order on the tape, every fuel. *)

(* ent[side].oid = v  (SideState.__setattr__ -> SyncState._change_oid, incl. ousting the previous
   holder through the intercepted setter and both iteration orders of set([old, new])) *)
Theorem C11_set_oid_preserves : forall E s e sd v s', IdxJ s -> set_oid E s e sd v = Ok s' -> IdxJ s'.
Proof. exact set_oid_pres. Qed.
Print Assumptions C11_set_oid_preserves.

(* ent[side].path = v  (SideState.__setattr__ -> SyncState._change_path) for an entry that is not a
   folder: re-filing under the new path, removal for None / '', the "ousted entry" branch (impossible
   under the invariant), priority reset.  The folder case (_update_kids recursion) is NOT covered. *)
Theorem C11_set_path_nonfolder_preserves : forall E s e sd v s' en,
  IdxJ s -> get_ent s e = Ok en -> s_otype (gs en sd) <> Dir -> set_path E s e sd v = Ok s' -> IdxJ s'.
Proof. exact set_path_file_pres. Qed.
Print Assumptions C11_set_path_nonfolder_preserves.

Theorem C11_set_changed_preserves : forall E s e sd v s', IdxJ s -> set_changed E s e sd v = Ok s' -> IdxJ s'.
Proof. exact set_changed_pres. Qed.
Print Assumptions C11_set_changed_preserves.

Theorem C11_set_priority_preserves : forall E s e v s', IdxJ s -> set_priority E s e v = Ok s' -> IdxJ s'.
Proof. exact set_priority_pres. Qed.
Print Assumptions C11_set_priority_preserves.

(* ent.ignored = v, ent.ignore(DISCARDED) *)
Theorem C11_set_ignored_preserves : forall s e v s', IdxJ s -> set_ignored s e v = Ok s' -> IdxJ s'.
Proof. exact set_ignored_pres. Qed.
Print Assumptions C11_set_ignored_preserves.

Theorem C11_mark_changed_preserves : forall E s e sd s', IdxJ s -> mark_changed E s e sd = Ok s' -> IdxJ s'.
Proof. exact mark_changed_pres. Qed.
Print Assumptions C11_mark_changed_preserves.

Theorem C11_finished_preserves : forall E s e s', IdxJ s -> finished E s e = Ok s' -> IdxJ s'.
Proof. exact finished_pres. Qed.
Print Assumptions C11_finished_preserves.

(* any sequence of covered operations (assignments of oid / changed / hash / sync_hash / sync_path /
   exists / otype / force_sync / ignored / priority, mark_changed, finished, discard), from any
   state satisfying the invariant.  NOT covered by this proof: path assignment of folders (_update_kids;
   non-folder path assignment is C11_set_path_nonfolder_preserves), update_entry, update, split, move-a-side, forget_oid. *)
Theorem C11_idx_partial : forall E ops s s',
  forallb (fun ot => op_covered (fst ot)) ops = true -> IdxJ s -> run_ops E s ops = Ok s' ->
  idx_found s' /\ idx_slots s' /\ idx_unique s'.
Proof. exact idx_partial. Qed.
Print Assumptions C11_idx_partial.

(* non-vacuity: a covered sequence that runs to completion from a non-empty indexed state *)
Example C11_partial_nonvacuous :
  exists s s', run_ops E_id init_state [ (OUpdate false (Some File) (Some w_o1) (Some w_pbx) None (Some true) None, [TSwap false]) ] = Ok s /\
    run_ops E_id s [ (OSet 0 false (FOid (Some w_o2)), [TSwap false]); (OMark 0 true, []); (OFinished 0, []); (ODiscard 0, []) ] = Ok s' /\
    oids s' false = [(w_o2, 0)] /\ slot_get s' false w_pbx w_o2 = Some 0.
Proof. eexists. eexists. split; [vm_compute; reflexivity|]. split; [vm_compute; reflexivity|]. split; vm_compute; reflexivity. Qed.
