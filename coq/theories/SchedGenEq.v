(* SchedGenEq.v — the definitions generated from the current source of SyncState.change (GenSched.v)
   are the hand-written model's. *)
From Coq Require Import QArith Bool.
From CS Require Import SchedModel GenSched.
Open Scope Q_scope.

Lemma gen_eligible_eq : forall et e, gen_eligible et e = eligible et e.
Proof. intros et e. reflexivity. Qed.

Lemma gen_sort_key_eq : forall a, gen_sort_key a = (pri a, tkey a).
Proof. intros a. reflexivity. Qed.

Lemma gen_key_ltb_eq : forall a b, gen_key_ltb a b = key_ltb a b.
Proof. intros a b. reflexivity. Qed.

Lemma gen_threshold_adj_eq : forall et age last_changed,
  gen_threshold_adj et age last_changed = threshold_adj et age last_changed.
Proof. intros et age last_changed. reflexivity. Qed.
