(* EventLaws.v — C14 laws about event delivery, proved on EventModel/StateModel for every state that satisfies
   the C11 index invariant: re-read of the truth by id (get_latest), duplicates, any delivery for one id. *)
From Coq Require Import NArith List Bool Arith Lia.
From CS Require Import Sx Str PathModel PathLaws StateModel StateProofs StatePathProofs EventModel EventProofs.
Import ListNotations.

Lemma w_hash_same x h : s_hash x = h -> w_hash x h = x.
Proof. destruct x; simpl; intros ->; reflexivity. Qed.
Lemma w_path_same x p : s_path x = p -> w_path x p = x.
Proof. destruct x; simpl; intros ->; reflexivity. Qed.

Lemma gs_ss_same en sd x : gs (ss en sd x) sd = x.
Proof. rewrite gs_ss, bool_eqb_refl. reflexivity. Qed.
Lemma ign_ss en sd x : e_ign (ss en sd x) = e_ign en.
Proof. destruct sd; reflexivity. Qed.
Lemma prio_ss en sd x : e_prio (ss en sd x) = e_prio en.
Proof. destruct sd; reflexivity. Qed.

Lemma entry_ext a b sd : gs a sd = gs b sd -> gs a (negb sd) = gs b (negb sd) -> e_ign a = e_ign b -> e_prio a = e_prio b -> a = b.
Proof. destruct a, b, sd; simpl; intros; subst; reflexivity. Qed.
Lemma gs_with_prio en v sd : gs (with_prio en v) sd = gs en sd. Proof. destruct sd; reflexivity. Qed.
Lemma ign_with_prio en v : e_ign (with_prio en v) = e_ign en. Proof. reflexivity. Qed.
Lemma prio_with_prio en v : e_prio (with_prio en v) = v. Proof. reflexivity. Qed.
Lemma gs_ss_other en sd x : gs (ss en sd x) (negb sd) = gs en (negb sd).
Proof. destruct sd; reflexivity. Qed.

(* ---------------------------------------------------------------- C. the re-read of the truth by id *)
Definition gl_hash (i : pinfo) : option N := match i_ot i, i_hash i with File, None => i_hoid i | _, _ => i_hash i end.
Definition gl_side (cv : conv) (x : sidest) (i : pinfo) : sidest :=
  mkSide (i_ot i) (s_oid x) (Some (nps cv (i_path i))) (gl_hash i) (s_spath x) (s_shash x) ExExists (s_chg x) (s_force x).
Definition gl_entry (cv : conv) (en : entry) (sd : bool) (i : pinfo) : entry :=
  with_prio (ss en sd (gl_side cv (gs en sd) i)) (ev_prio (gs en sd) (Some (nps cv (i_path i))) (e_prio en)).

Lemma get_latest_side_some_spec E s e sd i en (o : str) s' :
  IdxJ s -> nth_error (ents s) e = Some en -> s_oid (gs en sd) = Some o -> o <> [] -> i_ot i <> Dir ->
  tchg (s_chg (gs en sd)) = true ->
  get_latest_side E s e sd (Some i) = Ok s' ->
  ents s' = list_upd (ents s) e (gl_entry (cvs E sd) en sd i) /\ cset s' = cset s /\ IdxJ s'.
Proof.
  intros HJ Hn Ho Hne Hot Hch H. unfold get_latest_side in H.
  rewrite (get_ent_some _ _ _ Hn) in H. cbn [bind] in H. cbv zeta in H. rewrite Ho in H.
  (* hash *)
  pose (ena := ss en sd (w_hash (gs en sd) (i_hash i))).
  match type of H with bind ?X _ = _ => destruct X as [sa|] eqn:Ea end; cbn [bind] in H; [|discriminate].
  assert (Ha: ents sa = list_upd (ents s) e ena /\ cset sa = cset s /\ IdxJ sa).
  { destruct (oN_eqb (s_hash (gs en sd)) (i_hash i)) eqn:Eh.
    - injection Ea as <-. split; [|split; [reflexivity|exact HJ]]. unfold ena. apply oN_eqb_eq in Eh.
      rewrite (w_hash_same _ _ Eh), ss_gs. symmetry. apply list_upd_same. exact Hn.
    - destruct (set_plain s e sd (fun y => w_hash y (i_hash i))) as [sx|] eqn:Ex; cbn [bind] in Ea; [|discriminate].
      rewrite Hch in Ea. cbn [negb] in Ea. rewrite andb_false_r in Ea. injection Ea as <-.
      destruct (set_plain_eff _ _ _ _ _ _ Hn Ex) as [A B]. split; [exact A|]. split; [exact B|].
      eapply set_plain_pres; [|exact HJ|exact Ex]. intros y; split; reflexivity. }
  destruct Ha as [Hea [Hca HJa]].
  assert (Hna: nth_error (ents sa) e = Some ena) by (rewrite Hea; apply (nth_upd_eq _ _ _ _ Hn)).
  (* exists *)
  pose (enb := ss ena sd (w_ex (gs ena sd) ExExists)).
  match type of H with bind ?X _ = _ => destruct X as [sb|] eqn:Eb end; cbn [bind] in H; [|discriminate].
  destruct (set_plain_eff _ _ _ _ _ _ Hna Eb) as [Heb Hcb].
  assert (HJb: IdxJ sb) by (eapply set_plain_pres; [|exact HJa|exact Eb]; intros y; split; reflexivity).
  rewrite Hea, list_upd_twice in Heb. fold enb in Heb.
  assert (Hnb: nth_error (ents sb) e = Some enb) by (rewrite Heb; apply (nth_upd_eq _ _ _ _ Hn)).
  (* otype *)
  pose (enc := ss enb sd (w_otype (gs enb sd) (i_ot i))).
  match type of H with bind ?X _ = _ => destruct X as [sc|] eqn:Ec end; cbn [bind] in H; [|discriminate].
  destruct (set_plain_eff _ _ _ _ _ _ Hnb Ec) as [Hec Hcc].
  assert (HJc: IdxJ sc) by (eapply set_plain_pres; [|exact HJb|exact Ec]; intros y; split; reflexivity).
  rewrite Heb, list_upd_twice in Hec. fold enc in Hec.
  assert (Hnc: nth_error (ents sc) e = Some enc) by (rewrite Hec; apply (nth_upd_eq _ _ _ _ Hn)).
  rewrite (get_ent_some _ _ _ Hnc) in H. cbn [bind] in H.
  (* hash_oid *)
  pose (en_d := match i_ot i, s_hash (gs enc sd) with File, None => ss enc sd (w_hash (gs enc sd) (i_hoid i)) | _, _ => enc end).
  match type of H with bind ?X _ = _ => destruct X as [sd_|] eqn:Ed end; cbn [bind] in H; [|discriminate].
  assert (Hd: ents sd_ = list_upd (ents s) e en_d /\ cset sd_ = cset sc /\ IdxJ sd_).
  { unfold en_d. destruct (i_ot i); try (injection Ed as <-; split; [exact Hec|split; [reflexivity|exact HJc]]).
    destruct (s_hash (gs enc sd)); try (injection Ed as <-; split; [exact Hec|split; [reflexivity|exact HJc]]).
    destruct (set_plain_eff _ _ _ _ _ _ Hnc Ed) as [A B]. split; [|split; [exact B|]].
    - rewrite A, Hec, list_upd_twice. reflexivity.
    - eapply set_plain_pres; [|exact HJc|exact Ed]. intros y; split; reflexivity. }
  destruct Hd as [Hed [Hcd HJd]].
  assert (Hnd: nth_error (ents sd_) e = Some en_d) by (rewrite Hed; apply (nth_upd_eq _ _ _ _ Hn)).
  (* path *)
  set (np := nps (cvs E sd) (i_path i)) in *.
  pose (en_e := path_entry en_d sd (Some np)).
  assert (Hside: gs enc sd = w_otype (w_ex (w_hash (gs en sd) (i_hash i)) ExExists) (i_ot i)).
  { unfold enc, enb, ena. rewrite !gs_ss_same. reflexivity. }
  assert (Hside_d: gs en_d sd = match i_ot i, s_hash (gs enc sd) with File, None => w_hash (gs enc sd) (i_hoid i) | _, _ => gs enc sd end).
  { unfold en_d. destruct (i_ot i), (s_hash (gs enc sd)); rewrite ?gs_ss_same; reflexivity. }
  assert (Hpd: s_path (gs en_d sd) = s_path (gs enc sd) /\ s_otype (gs en_d sd) = i_ot i /\ s_oid (gs en_d sd) = Some o /\
               tchg (s_chg (gs en_d sd)) = true /\ e_ign en_d = e_ign en).
  { rewrite Hside_d. repeat split.
    - destruct (i_ot i), (s_hash (gs enc sd)); reflexivity.
    - destruct (i_ot i) eqn:Eo, (s_hash (gs enc sd)); rewrite ?Hside; cbn; rewrite ?Eo; reflexivity.
    - destruct (i_ot i), (s_hash (gs enc sd)); rewrite ?Hside; cbn; exact Ho.
    - destruct (i_ot i), (s_hash (gs enc sd)); rewrite ?Hside; cbn; exact Hch.
    - unfold en_d. destruct (i_ot i), (s_hash (gs enc sd)); unfold enc, enb, ena; rewrite ?ign_ss; reflexivity. }
  destruct Hpd as [Hp1 [Hp2 [Hp3 [Hp4 Hp5]]]].
  match type of H with bind ?X _ = _ => destruct X as [se|] eqn:Ee end; cbn [bind] in H; [|discriminate].
  assert (He: ents se = list_upd (ents s) e en_e /\ cset se = cset sd_ /\ IdxJ se).
  { rewrite <- Hp1 in Ee. destruct (ostr_eqb (s_path (gs en_d sd)) (Some np)) eqn:Ep.
    - injection Ee as <-. split; [|split; [reflexivity|exact HJd]]. rewrite Hed. f_equal.
      unfold en_e, path_entry. rewrite Ep, andb_false_r. apply ostr_eqb_eq in Ep.
      rewrite (w_path_same _ _ Ep), ss_gs. reflexivity.
    - destruct (set_path E sd_ e sd (Some np)) as [sx|] eqn:Ex; cbn [bind] in Ee; [|discriminate].
      assert (Hotd: s_otype (gs en_d sd) <> Dir) by (rewrite Hp2; exact Hot).
      destruct (set_path_file_eff _ _ _ _ _ _ _ _ HJd Hnd Hotd Hp3 Hne Ex) as [A [B _]].
      assert (HJx: IdxJ sx) by (eapply set_path_file_pres; [exact HJd|apply (get_ent_some _ _ _ Hnd)|exact Hotd|exact Ex]).
      rewrite Hed, list_upd_twice in A. fold en_e in A.
      assert (Hnx: nth_error (ents sx) e = Some en_e) by (rewrite A; apply (nth_upd_eq _ _ _ _ Hn)).
      rewrite (get_ent_some _ _ _ Hnx) in Ee. cbn [bind] in Ee.
      assert (Hchx: tchg (s_chg (gs en_e sd)) = true).
      { unfold en_e, path_entry. destruct (tstr (Some np) && negb (ostr_eqb (s_path (gs en_d sd)) (Some np)))%bool; rewrite ?gs_with_prio, gs_ss_same; exact Hp4. }
      rewrite Hchx in Ee. cbn [negb] in Ee. rewrite andb_false_r in Ee. injection Ee as <-.
      split; [exact A|split; [exact B|exact HJx]]. }
  destruct He as [Hee [Hce HJe]].
  assert (Hnee: nth_error (ents se) e = Some en_e) by (rewrite Hee; apply (nth_upd_eq _ _ _ _ Hn)).
  rewrite (get_ent_some _ _ _ Hnee) in H. cbn [bind] in H. injection H as <-.
  split; [|split].
  - rewrite ents_dirty_add, Hee. f_equal.
    assert (Hh: s_hash (gs enc sd) = i_hash i) by (rewrite Hside; reflexivity).
    assert (Hpe: s_path (gs en_d sd) = s_path (gs en sd)) by (rewrite Hp1, Hside; reflexivity).
    assert (Hpr: e_prio en_d = e_prio en).
    { unfold en_d. destruct (i_ot i), (s_hash (gs enc sd)); unfold enc, enb, ena; rewrite ?prio_ss; reflexivity. }
    assert (Hoth: gs en_d (negb sd) = gs en (negb sd)).
    { unfold en_d. destruct (i_ot i), (s_hash (gs enc sd)); unfold enc, enb, ena; rewrite ?gs_ss_other; reflexivity. }
    unfold en_e, path_entry, gl_entry, ev_prio. rewrite Hpe. subst np.
    apply (entry_ext _ _ sd).
    + destruct (tstr (Some (nps (cvs E sd) (i_path i))) && negb (ostr_eqb (s_path (gs en sd)) (Some (nps (cvs E sd) (i_path i)))))%bool; rewrite ?gs_with_prio, !gs_ss_same;
        rewrite Hside_d, Hh, Hside; unfold gl_side, gl_hash;
        (destruct (i_ot i) eqn:Eot; [exfalso; apply Hot; reflexivity| |]; destruct (i_hash i) eqn:Eih; destruct (gs en sd); cbn; rewrite ?Eot; reflexivity).
    + destruct (tstr (Some (nps (cvs E sd) (i_path i))) && negb (ostr_eqb (s_path (gs en sd)) (Some (nps (cvs E sd) (i_path i)))))%bool; rewrite ?gs_with_prio, !gs_ss_other; exact Hoth.
    + destruct (tstr (Some (nps (cvs E sd) (i_path i))) && negb (ostr_eqb (s_path (gs en sd)) (Some (nps (cvs E sd) (i_path i)))))%bool; rewrite ?ign_with_prio, !ign_ss; exact Hp5.
    + destruct (tstr (Some (nps (cvs E sd) (i_path i))) && negb (ostr_eqb (s_path (gs en sd)) (Some (nps (cvs E sd) (i_path i)))))%bool; rewrite ?prio_with_prio; [reflexivity|].
      rewrite prio_ss. exact Hpr.
  - rewrite cset_dirty_add, Hce, Hcd, Hcc, Hcb, Hca. reflexivity.
  - apply (IdxJ_view se); [reflexivity|exact HJe].
Qed.

Lemma get_latest_side_none_spec E s e sd en (o : str) s' :
  nth_error (ents s) e = Some en -> s_oid (gs en sd) = Some o ->
  get_latest_side E s e sd None = Ok s' ->
  ents s' = list_upd (ents s) e (ss en sd (w_ex (gs en sd) (no_info_ex (oip E sd) (s_ex (gs en sd))))) /\
  cset s' = cset s /\ (IdxJ s -> IdxJ s').
Proof.
  intros Hn Ho H. unfold get_latest_side in H. rewrite (get_ent_some _ _ _ Hn) in H. cbn [bind] in H. cbv zeta in H.
  rewrite Ho in H. destruct (set_plain_eff _ _ _ _ _ _ Hn H) as [A B]. split; [exact A|]. split; [exact B|].
  intros HJ. eapply set_plain_pres; [|exact HJ|exact H]. intros y; split; reflexivity.
Qed.

(* ---------------------------------------------------------------- D. what the theorems compare *)
(* abs forgets: the numeric change stamps (kept: whether a side is flagged), the dirty set, the clock, the last
   change stamp, the tape, the insertion order of the two index dictionaries. *)
Definition abs_side (x : sidest) :=
  (s_otype x, s_oid x, s_path x, s_hash x, s_spath x, s_shash x, s_ex x, tchg (s_chg x), s_force x).
Definition abs_entry (en : entry) := (abs_side (e_l en), abs_side (e_r en), e_ign en, e_prio en).

Definition eqv (s s' : state) : Prop :=
  map abs_entry (ents s) = map abs_entry (ents s') /\
  (forall e, set_mem e (cset s) = set_mem e (cset s')) /\
  (forall sd o, al_get o (oids s sd) = al_get o (oids s' sd)) /\
  (forall sd p o, slot_get s sd p o = slot_get s' sd p o).

Lemma abs_oid_path s s' : map abs_entry (ents s) = map abs_entry (ents s') ->
  forall e sd, oid_of s e sd = oid_of s' e sd /\ path_of s e sd = path_of s' e sd.
Proof.
  intros H e sd. unfold oid_of, path_of.
  assert (Hn: nth_error (map abs_entry (ents s)) e = nth_error (map abs_entry (ents s')) e) by (rewrite H; reflexivity).
  rewrite !nth_error_map in Hn.
  destruct (nth_error (ents s) e) as [a|], (nth_error (ents s') e) as [b|]; simpl in Hn; try discriminate; [|split; reflexivity].
  injection Hn as Hn. unfold abs_entry, abs_side in Hn. inversion Hn. unfold gs. destruct sd; split; congruence.
Qed.

(* under the index invariant both indexes are functions of the entries *)
Lemma index_determined s s' : IdxJ s -> IdxJ s' ->
  (forall e sd, oid_of s e sd = oid_of s' e sd /\ path_of s e sd = path_of s' e sd) ->
  (forall sd o, al_get o (oids s sd) = al_get o (oids s' sd)) /\
  (forall sd p o, slot_get s sd p o = slot_get s' sd p o).
Proof.
  intros [Hf [Ho Hp]] [Hf' [Ho' Hp']] He. split.
  - intros sd o. destruct (al_get o (oids s sd)) as [e|] eqn:E1.
    + apply Ho in E1. rewrite (proj1 (He e sd)) in E1. symmetry. apply (Hf' _ _ _ E1).
    + destruct (al_get o (oids s' sd)) as [e|] eqn:E2; [|reflexivity].
      apply Ho' in E2. rewrite <- (proj1 (He e sd)) in E2. destruct (Hf _ _ _ E2) as [A _]. congruence.
  - intros sd p o. destruct (slot_get s sd p o) as [e|] eqn:E1.
    + destruct (Hp _ _ _ _ E1) as [A [B C]]. rewrite (proj1 (He e sd)) in A. rewrite (proj2 (He e sd)) in B.
      symmetry. apply (Hf' _ _ _ A); assumption.
    + destruct (slot_get s' sd p o) as [e|] eqn:E2; [|reflexivity].
      destruct (Hp' _ _ _ _ E2) as [A [B C]]. rewrite <- (proj1 (He e sd)) in A. rewrite <- (proj2 (He e sd)) in B.
      destruct (Hf _ _ _ A) as [_ D]. rewrite (D _ B C) in E1. discriminate.
Qed.

Lemma eqv_intro s s' : IdxJ s -> IdxJ s' -> map abs_entry (ents s) = map abs_entry (ents s') ->
  (forall e, set_mem e (cset s) = set_mem e (cset s')) -> eqv s s'.
Proof.
  intros HJ HJ' He Hc. destruct (index_determined _ _ HJ HJ' (abs_oid_path _ _ He)) as [A B].
  split; [exact He|]. split; [exact Hc|]. split; [exact A|exact B].
Qed.

(* ---------------------------------------------------------------- E. the same event twice *)
Definition stored_ex (s : state) (sd : bool) (o : str) : option exst :=
  match al_get o (oids s sd) with
  | Some e => match nth_error (ents s) e with Some en => Some (s_ex (gs en sd)) | None => None end
  | None => None
  end.

Lemma ex_rule_idem old ex : ~ (ex = Some true /\ old = ExTrashed) -> ex_rule (ex_rule old ex) ex = ex_rule old ex.
Proof. intros H. destruct old, ex as [[|]|]; try reflexivity. exfalso. apply H. split; reflexivity. Qed.

Lemma IdxJ_holder s e sd (o : str) en : IdxJ s -> nth_error (ents s) e = Some en -> s_oid (gs en sd) = Some o ->
  al_get o (oids s sd) = Some e.
Proof. intros [Hf _] Hn Ho. apply (Hf e sd o). unfold oid_of. rewrite Hn. exact Ho. Qed.

Lemma ev_entry_oid en sd ot (o : str) np h ex c : s_oid (gs (ev_entry en sd ot o np h ex c) sd) = Some o.
Proof. unfold ev_entry. rewrite gs_with_prio, gs_ss_same. reflexivity. Qed.

Lemma abs_ev_entry_twice en sd ot (o : str) np h ex c1 c2 :
  tchg c1 = true -> tchg c2 = true -> ~ (ex = Some true /\ s_ex (gs en sd) = ExTrashed) ->
  abs_entry (ev_entry (ev_entry en sd ot o np h ex c1) sd ot o np h ex c2) = abs_entry (ev_entry en sd ot o np h ex c1).
Proof.
  intros H1 H2 Hex. unfold ev_entry. rewrite !gs_with_prio, !gs_ss_same.
  assert (Hp: ev_prio (ev_side (gs en sd) ot o np h ex c1) np (e_prio (with_prio (ss en sd (ev_side (gs en sd) ot o np h ex c1)) (ev_prio (gs en sd) np (e_prio en))))
              = ev_prio (gs en sd) np (e_prio en)).
  { unfold ev_prio. destruct np as [p|]; [|reflexivity]. cbn [ev_side s_path]. rewrite ostr_eqb_refl, andb_false_r. reflexivity. }
  rewrite Hp.
  assert (Hs: abs_side (ev_side (ev_side (gs en sd) ot o np h ex c1) ot o np h ex c2) = abs_side (ev_side (gs en sd) ot o np h ex c1)).
  { unfold abs_side, ev_side. cbn. rewrite H1, H2, (ex_rule_idem _ _ Hex). destruct np, h; reflexivity. }
  destruct en as [l r ig pr], sd; unfold abs_entry, with_prio, ss; cbn [e_l e_r e_ign e_prio gs] in *; rewrite Hs; reflexivity.
Qed.

Theorem update_idempotent_partial_thm E s sd ot (o : str) path h ex t1 t2 s1 s2 :
  IdxJ s -> oip E sd = false -> ot <> Dir -> o <> [] ->
  ~ (ex = Some true /\ stored_ex s sd o = Some ExTrashed) ->
  update E (st_tape s t1) sd (Some ot) (Some o) path h ex None = Ok s1 ->
  update E (st_tape s1 t2) sd (Some ot) (Some o) path h ex None = Ok s2 ->
  eqv s1 s2.
Proof.
  intros HJ Hoip Hot Hne Hex H1 H2.
  destruct (update_spec _ _ _ _ _ _ _ _ _ (IdxJ_st_tape _ t1 HJ) Hoip Hot Hne H1) as [en [c1 [Hn [Hc1 [Hnew [Hold [He1 [Hm1 HJ1]]]]]]]].
  set (tgt := upd_target (st_tape s t1) sd o) in *. set (base := upd_base (st_tape s t1) sd o ot) in *.
  set (np := omap (nps (cvs E sd)) path) in *.
  assert (Hn1: nth_error (ents s1) tgt = Some (ev_entry en sd ot o np h ex c1)) by (rewrite He1; apply (nth_upd_eq _ _ _ _ Hn)).
  assert (Hh1: al_get o (oids (st_tape s1 t2) sd) = Some tgt).
  { apply (IdxJ_holder s1 tgt sd o _ HJ1 Hn1 (ev_entry_oid _ _ _ _ _ _ _ _)). }
  destruct (update_spec _ _ _ _ _ _ _ _ _ (IdxJ_st_tape _ t2 HJ1) Hoip Hot Hne H2) as [en' [c2 [Hn' [Hc2 [_ [_ [He2 [Hm2 HJ2]]]]]]]].
  unfold upd_target, upd_base in Hn', He2, Hm2. rewrite Hh1 in Hn', He2, Hm2. cbn [ents st_tape] in Hn', He2.
  rewrite Hn1 in Hn'. injection Hn' as <-. fold np in He2.
  assert (Hexe: ~ (ex = Some true /\ s_ex (gs en sd) = ExTrashed)).
  { intros [A B]. apply Hex. split; [exact A|]. unfold stored_ex.
    destruct (al_get o (oids s sd)) as [e0|] eqn:Ea.
    - unfold tgt, upd_target, base, upd_base in Hn. cbn [oids st_tape] in Hn.
      assert (Ha': al_get o (oids (st_tape s t1) sd) = Some e0) by (destruct sd; exact Ea).
      rewrite Ha' in Hn. cbn [ents st_tape] in Hn. rewrite Hn, B. reflexivity.
    - assert (Ha': al_get o (oids (st_tape s t1) sd) = None) by (destruct sd; exact Ea).
      rewrite (Hnew Ha') in B. destruct sd; discriminate. }
  apply eqv_intro; [exact HJ1|exact HJ2| |].
  - rewrite He2. symmetry. apply (map_list_upd abs_entry _ _ _ _ Hn1).
    apply abs_ev_entry_twice; assumption.
  - intros e'. rewrite Hm2. cbn [cset st_tape]. rewrite Hm1. destruct (Nat.eqb e' tgt); reflexivity.
Qed.

(* ---------------------------------------------------------------- F. re-read after any delivery of events for one id *)
Definition abs_noprio (en : entry) := (abs_side (e_l en), abs_side (e_r en), e_ign en).
(* the two entries agree on everything an event does not write: the other side, the ignore reason, and on the
   event's side the id, the sync markers, force_sync and whether the side is flagged *)
Definition spl (sd : bool) (a b : entry) : Prop :=
  abs_side (gs a (negb sd)) = abs_side (gs b (negb sd)) /\ e_ign a = e_ign b /\
  s_oid (gs a sd) = s_oid (gs b sd) /\ s_spath (gs a sd) = s_spath (gs b sd) /\ s_shash (gs a sd) = s_shash (gs b sd) /\
  s_force (gs a sd) = s_force (gs b sd) /\ tchg (s_chg (gs a sd)) = tchg (s_chg (gs b sd)).
Lemma spl_refl sd a : spl sd a a. Proof. repeat split. Qed.
Lemma spl_sym sd a b : spl sd a b -> spl sd b a.
Proof. intros [A [B [C [D [F [G H]]]]]]. repeat split; symmetry; assumption. Qed.
Lemma spl_trans sd a b c : spl sd a b -> spl sd b c -> spl sd a c.
Proof. intros [A [B [C [D [F [G H]]]]]] [A' [B' [C' [D' [F' [G' H']]]]]]. repeat split; etransitivity; eassumption. Qed.

Lemma abs_noprio_ext a b sd :
  abs_side (gs a sd) = abs_side (gs b sd) -> abs_side (gs a (negb sd)) = abs_side (gs b (negb sd)) -> e_ign a = e_ign b ->
  abs_noprio a = abs_noprio b.
Proof. destruct a, b, sd; unfold abs_noprio; simpl; intros -> -> ->; reflexivity. Qed.

Lemma gl_congr cv a b sd i : spl sd a b -> abs_noprio (gl_entry cv a sd i) = abs_noprio (gl_entry cv b sd i).
Proof.
  intros [A [B [C [D [F [G H]]]]]]. unfold gl_entry. apply (abs_noprio_ext _ _ sd).
  - rewrite !gs_with_prio, !gs_ss_same. unfold gl_side, abs_side. cbn. rewrite C, D, F, G, H. reflexivity.
  - rewrite !gs_with_prio, !gs_ss_other. exact A.
  - rewrite !ign_with_prio, !ign_ss. exact B.
Qed.
Lemma abs_entry_split en : abs_entry en = (fst (fst (abs_noprio en)), snd (fst (abs_noprio en)), snd (abs_noprio en), e_prio en).
Proof. reflexivity. Qed.
Lemma gl_congr_prio cv a b sd i : spl sd a b -> s_path (gs a sd) = s_path (gs b sd) -> e_prio a = e_prio b ->
  abs_entry (gl_entry cv a sd i) = abs_entry (gl_entry cv b sd i).
Proof.
  intros Hs Hp Hq. rewrite !abs_entry_split, (gl_congr cv a b sd i Hs). f_equal.
  unfold gl_entry. rewrite !prio_with_prio. unfold ev_prio. rewrite Hp, Hq. reflexivity.
Qed.

Lemma spl_ev_entry en sd ot (o : str) np h ex c : tchg c = true -> tchg (s_chg (gs en sd)) = true -> s_oid (gs en sd) = Some o ->
  spl sd en (ev_entry en sd ot o np h ex c).
Proof.
  intros Hc Hc' Ho. unfold ev_entry. repeat split; rewrite ?gs_with_prio, ?gs_ss_same, ?gs_ss_other, ?ign_with_prio, ?ign_ss; cbn; try reflexivity.
  - exact Ho.
  - rewrite Hc, Hc'. reflexivity.
Qed.

Lemma map_list_upd_congr {T U} (f : T -> U) l n x y : f x = f y -> map f (list_upd l n x) = map f (list_upd l n y).
Proof. intros H. revert n. induction l as [|a l IH]; intros [|n]; simpl; try reflexivity; [rewrite H; reflexivity|rewrite IH; reflexivity]. Qed.

(* duplicate delivery is repaired by the re-read even in the case kept as refutation below (TRASHED + exists) *)
Theorem dup_exists_resolved_by_get_latest_thm E s sd ot (o : str) path h ex t1 t2 s1 s2 info s1' s2' :
  IdxJ s -> oip E sd = false -> ot <> Dir -> o <> [] ->
  (forall i, info = Some i -> i_ot i <> Dir) ->
  update E (st_tape s t1) sd (Some ot) (Some o) path h ex None = Ok s1 ->
  update E (st_tape s1 t2) sd (Some ot) (Some o) path h ex None = Ok s2 ->
  get_latest_side E s1 (upd_target s sd o) sd info = Ok s1' ->
  get_latest_side E s2 (upd_target s sd o) sd info = Ok s2' ->
  eqv s1' s2'.
Proof.
  intros HJ Hoip Hot Hne Hinfo H1 H2 G1 G2.
  destruct (update_spec _ _ _ _ _ _ _ _ _ (IdxJ_st_tape _ t1 HJ) Hoip Hot Hne H1) as [en [c1 [Hn [Hc1 [Hnew [Hold [He1 [Hm1 HJ1]]]]]]]].
  assert (Htg: upd_target (st_tape s t1) sd o = upd_target s sd o) by (unfold upd_target; destruct sd; reflexivity).
  rewrite Htg in *. set (tgt := upd_target s sd o) in *. set (base := upd_base (st_tape s t1) sd o ot) in *.
  set (np := omap (nps (cvs E sd)) path) in *.
  set (a := ev_entry en sd ot o np h ex c1) in *.
  assert (Hn1: nth_error (ents s1) tgt = Some a) by (rewrite He1; apply (nth_upd_eq _ _ _ _ Hn)).
  assert (Hh1: al_get o (oids (st_tape s1 t2) sd) = Some tgt).
  { apply (IdxJ_holder s1 tgt sd o _ HJ1 Hn1 (ev_entry_oid _ _ _ _ _ _ _ _)). }
  destruct (update_spec _ _ _ _ _ _ _ _ _ (IdxJ_st_tape _ t2 HJ1) Hoip Hot Hne H2) as [en' [c2 [Hn' [Hc2 [_ [_ [He2 [Hm2 HJ2]]]]]]]].
  unfold upd_target, upd_base in Hn', He2, Hm2. rewrite Hh1 in Hn', He2, Hm2. cbn [ents st_tape] in Hn', He2.
  rewrite Hn1 in Hn'. injection Hn' as <-. fold np in He2.
  set (b := ev_entry a sd ot o np h ex c2) in *.
  assert (Hn2: nth_error (ents s2) tgt = Some b) by (rewrite He2; apply (nth_upd_eq _ _ _ _ Hn1)).
  assert (Hoa: s_oid (gs a sd) = Some o) by apply ev_entry_oid.
  assert (Hob: s_oid (gs b sd) = Some o) by apply ev_entry_oid.
  assert (Hca: tchg (s_chg (gs a sd)) = true) by (unfold a, ev_entry; rewrite gs_with_prio, gs_ss_same; exact Hc1).
  assert (Hcb: tchg (s_chg (gs b sd)) = true) by (unfold b, ev_entry; rewrite gs_with_prio, gs_ss_same; exact Hc2).
  assert (Hspl: spl sd a b) by (apply spl_ev_entry; assumption).
  assert (Hpath: s_path (gs a sd) = s_path (gs b sd)).
  { assert (Hpa: s_path (gs a sd) = match np with Some p => Some p | None => s_path (gs en sd) end) by (unfold a, ev_entry; rewrite gs_with_prio, gs_ss_same; reflexivity).
    assert (Hpb: s_path (gs b sd) = match np with Some p => Some p | None => s_path (gs a sd) end) by (unfold b, ev_entry; rewrite gs_with_prio, gs_ss_same; reflexivity).
    rewrite Hpb. destruct np; [exact Hpa|reflexivity]. }
  assert (Hprio: e_prio a = e_prio b).
  { unfold b, ev_entry at 1. rewrite prio_with_prio. unfold ev_prio. destruct np as [p|] eqn:Enp; [|reflexivity].
    assert (Hpa: s_path (gs a sd) = Some p) by (unfold a, ev_entry; rewrite gs_with_prio, gs_ss_same; reflexivity).
    rewrite Hpa, ostr_eqb_refl, andb_false_r. reflexivity. }
  assert (Hcs: forall e', set_mem e' (cset s1) = set_mem e' (cset s2)).
  { intros e'. rewrite Hm2. cbn [cset st_tape]. rewrite Hm1. destruct (Nat.eqb e' tgt); reflexivity. }
  destruct info as [i|].
  - pose proof (Hinfo i eq_refl) as Hi.
    destruct (get_latest_side_some_spec _ _ _ _ _ _ _ _ HJ1 Hn1 Hoa Hne Hi Hca G1) as [A1 [B1 C1]].
    destruct (get_latest_side_some_spec _ _ _ _ _ _ _ _ HJ2 Hn2 Hob Hne Hi Hcb G2) as [A2 [B2 C2]].
    apply eqv_intro; [exact C1|exact C2| |].
    + rewrite A1, A2, He2, list_upd_twice. apply map_list_upd_congr. apply gl_congr_prio; assumption.
    + intros e'. rewrite B1, B2. apply Hcs.
  - destruct (get_latest_side_none_spec _ _ _ _ _ _ _ Hn1 Hoa G1) as [A1 [B1 C1]].
    destruct (get_latest_side_none_spec _ _ _ _ _ _ _ Hn2 Hob G2) as [A2 [B2 C2]].
    apply eqv_intro; [exact (C1 HJ1)|exact (C2 HJ2)| |].
    + rewrite A1, A2, He2, list_upd_twice. apply map_list_upd_congr. rewrite Hoip.
      assert (Hni: forall x, no_info_ex false x = ExTrashed) by (intros []; reflexivity).
      rewrite !Hni.
      assert (Hga: gs a sd = ev_side (gs en sd) ot o np h ex c1) by (unfold a, ev_entry; rewrite gs_with_prio, gs_ss_same; reflexivity).
      assert (Hgb: gs b sd = ev_side (gs a sd) ot o np h ex c2) by (unfold b, ev_entry; rewrite gs_with_prio, gs_ss_same; reflexivity).
      rewrite !abs_entry_split. f_equal; [|rewrite !prio_ss; exact Hprio].
      apply (abs_noprio_ext _ _ sd).
      * rewrite !gs_ss_same. rewrite Hgb, Hga. unfold abs_side, ev_side. cbn. rewrite Hc1, Hc2. destruct np, h; reflexivity.
      * rewrite !gs_ss_other. apply Hspl.
      * rewrite !ign_ss. apply Hspl.
    + intros e'. rewrite B1, B2. apply Hcs.
Qed.

(* ---------------------------------------------------------------- G. any non-empty delivery of events for one id *)
Record fevent := mkFe { fe_ot : otype; fe_path : option str; fe_hash : option N; fe_ex : option bool; fe_tape : list titem }.
Fixpoint run_events (E : env) (s : state) (sd : bool) (o : str) (l : list fevent) : res state :=
  match l with
  | [] => Ok s
  | ev :: r =>
    s' <- update E (st_tape s (fe_tape ev)) sd (Some (fe_ot ev)) (Some o) (fe_path ev) (fe_hash ev) (fe_ex ev) None ;;
    run_events E s' sd o r
  end.

(* state after at least one event for (sd, o): only entry tgt differs from [base], and only in what events write *)
Definition touched (base : list entry) (cs0 : list eid) (tgt : eid) (sd : bool) (o : str) (en0 : entry) (s' : state) : Prop :=
  IdxJ s' /\ exists en', nth_error (ents s') tgt = Some en' /\ ents s' = list_upd base tgt en' /\
    abs_side (gs en0 (negb sd)) = abs_side (gs en' (negb sd)) /\ e_ign en0 = e_ign en' /\
    s_spath (gs en0 sd) = s_spath (gs en' sd) /\ s_shash (gs en0 sd) = s_shash (gs en' sd) /\ s_force (gs en0 sd) = s_force (gs en' sd) /\
    s_oid (gs en' sd) = Some o /\ tchg (s_chg (gs en' sd)) = true /\
    (forall e', set_mem e' (cset s') = Nat.eqb e' tgt || set_mem e' cs0).

Lemma touched_first E s sd (o : str) ev s1 :
  IdxJ s -> oip E sd = false -> fe_ot ev <> Dir -> o <> [] ->
  update E (st_tape s (fe_tape ev)) sd (Some (fe_ot ev)) (Some o) (fe_path ev) (fe_hash ev) (fe_ex ev) None = Ok s1 ->
  exists en0, nth_error (upd_base s sd o (fe_ot ev)) (upd_target s sd o) = Some en0 /\
    (al_get o (oids s sd) = None -> en0 = new_entry (fe_ot ev)) /\
    touched (upd_base s sd o (fe_ot ev)) (cset s) (upd_target s sd o) sd o en0 s1.
Proof.
  intros HJ Hoip Hot Hne H.
  destruct (update_spec _ _ _ _ _ _ _ _ _ (IdxJ_st_tape _ (fe_tape ev) HJ) Hoip Hot Hne H) as [en [c [Hn [Hc [Hnew [_ [He [Hm HJ1]]]]]]]].
  assert (Htg: upd_target (st_tape s (fe_tape ev)) sd o = upd_target s sd o) by (unfold upd_target; destruct sd; reflexivity).
  assert (Hb: upd_base (st_tape s (fe_tape ev)) sd o (fe_ot ev) = upd_base s sd o (fe_ot ev)) by (unfold upd_base; destruct sd; reflexivity).
  rewrite Htg, Hb in *.
  exists en. split; [exact Hn|]. split; [intros Ha; apply Hnew; destruct sd; exact Ha|].
  split; [exact HJ1|]. eexists. split; [rewrite He; apply (nth_upd_eq _ _ _ _ Hn)|]. split; [exact He|].
  unfold ev_entry. rewrite !gs_with_prio, !gs_ss_same, !gs_ss_other, ign_with_prio, ign_ss. cbn.
  repeat split; try reflexivity; try exact Hc. exact Hm.
Qed.

Lemma touched_next E base cs0 tgt sd (o : str) en0 s1 ev s2 :
  touched base cs0 tgt sd o en0 s1 -> oip E sd = false -> fe_ot ev <> Dir -> o <> [] ->
  update E (st_tape s1 (fe_tape ev)) sd (Some (fe_ot ev)) (Some o) (fe_path ev) (fe_hash ev) (fe_ex ev) None = Ok s2 ->
  touched base cs0 tgt sd o en0 s2.
Proof.
  intros [HJ1 [en1 [Hn1 [He1 [A [B [C [D [F [Ho [Hc Hm]]]]]]]]]]] Hoip Hot Hne H.
  destruct (update_spec _ _ _ _ _ _ _ _ _ (IdxJ_st_tape _ (fe_tape ev) HJ1) Hoip Hot Hne H) as [en [c [Hn [Hcc [_ [_ [He [Hm2 HJ2]]]]]]]].
  assert (Hh: al_get o (oids (st_tape s1 (fe_tape ev)) sd) = Some tgt).
  { assert (Hx: al_get o (oids s1 sd) = Some tgt) by (apply (IdxJ_holder s1 tgt sd o en1 HJ1 Hn1 Ho)). destruct sd; exact Hx. }
  unfold upd_target, upd_base in Hn, He, Hm2. rewrite Hh in Hn, He, Hm2. cbn [ents st_tape cset] in Hn, He, Hm2.
  rewrite Hn1 in Hn. injection Hn as <-.
  split; [exact HJ2|]. eexists. split; [rewrite He; apply (nth_upd_eq _ _ _ _ Hn1)|]. split; [rewrite He, He1, list_upd_twice; reflexivity|].
  unfold ev_entry. rewrite !gs_with_prio, !gs_ss_same, !gs_ss_other, ign_with_prio, ign_ss. cbn.
  repeat split; try assumption; try reflexivity.
  intros e'. rewrite Hm2, Hm. destruct (Nat.eqb e' tgt); reflexivity.
Qed.

Lemma touched_run E base cs0 tgt sd (o : str) en0 : forall l s1 s2,
  touched base cs0 tgt sd o en0 s1 -> oip E sd = false -> o <> [] ->
  Forall (fun ev => fe_ot ev <> Dir) l -> run_events E s1 sd o l = Ok s2 -> touched base cs0 tgt sd o en0 s2.
Proof.
  induction l as [|ev l IH]; intros s1 s2 Ht Hoip Hne Hall H; simpl in H.
  - injection H as <-. exact Ht.
  - inversion Hall as [|? ? Hev Hall']; subst.
    destruct (update E (st_tape s1 (fe_tape ev)) sd (Some (fe_ot ev)) (Some o) (fe_path ev) (fe_hash ev) (fe_ex ev) None) as [sx|] eqn:Eu; cbn [bind] in H; [|discriminate].
    apply (IH sx s2); try assumption. eapply touched_next; eassumption.
Qed.

Definition eqv_noprio (s s' : state) : Prop :=
  map abs_noprio (ents s) = map abs_noprio (ents s') /\
  (forall e, set_mem e (cset s) = set_mem e (cset s')) /\
  (forall sd o, al_get o (oids s sd) = al_get o (oids s' sd)) /\
  (forall sd p o, slot_get s sd p o = slot_get s' sd p o).

Lemma absnp_oid_path s s' : map abs_noprio (ents s) = map abs_noprio (ents s') ->
  forall e sd, oid_of s e sd = oid_of s' e sd /\ path_of s e sd = path_of s' e sd.
Proof.
  intros H e sd. unfold oid_of, path_of.
  assert (Hn: nth_error (map abs_noprio (ents s)) e = nth_error (map abs_noprio (ents s')) e) by (rewrite H; reflexivity).
  rewrite !nth_error_map in Hn.
  destruct (nth_error (ents s) e) as [a|], (nth_error (ents s') e) as [b|]; simpl in Hn; try discriminate; [|split; reflexivity].
  injection Hn as Hn. unfold abs_noprio, abs_side in Hn. inversion Hn. unfold gs. destruct sd; split; congruence.
Qed.

(* the re-read makes the outcome independent of which events were delivered, how often, in which order and
   with which payload: only the ignore reason, the other side, the sync markers and the provider's answer count *)
Theorem same_oid_any_delivery_thm E s sd (o : str) ev1 l1 ev2 l2 s1 s2 i s1' s2' :
  IdxJ s -> oip E sd = false -> o <> [] -> i_ot i <> Dir ->
  Forall (fun ev => fe_ot ev <> Dir) (ev1 :: l1) -> Forall (fun ev => fe_ot ev <> Dir) (ev2 :: l2) ->
  (al_get o (oids s sd) = None -> fe_ot ev1 = fe_ot ev2) ->
  run_events E s sd o (ev1 :: l1) = Ok s1 -> run_events E s sd o (ev2 :: l2) = Ok s2 ->
  get_latest_side E s1 (upd_target s sd o) sd (Some i) = Ok s1' ->
  get_latest_side E s2 (upd_target s sd o) sd (Some i) = Ok s2' ->
  eqv_noprio s1' s2'.
Proof.
  intros HJ Hoip Hne Hi Hall1 Hall2 Hsame R1 R2 G1 G2.
  simpl in R1, R2.
  destruct (update E (st_tape s (fe_tape ev1)) sd (Some (fe_ot ev1)) (Some o) (fe_path ev1) (fe_hash ev1) (fe_ex ev1) None) as [sa|] eqn:Ua; cbn [bind] in R1; [|discriminate].
  destruct (update E (st_tape s (fe_tape ev2)) sd (Some (fe_ot ev2)) (Some o) (fe_path ev2) (fe_hash ev2) (fe_ex ev2) None) as [sb|] eqn:Ub; cbn [bind] in R2; [|discriminate].
  inversion Hall1 as [|? ? Hev1 Hall1']; subst. inversion Hall2 as [|? ? Hev2 Hall2']; subst.
  destruct (touched_first _ _ _ _ _ _ HJ Hoip Hev1 Hne Ua) as [ena [Hna [Hnewa Hta]]].
  destruct (touched_first _ _ _ _ _ _ HJ Hoip Hev2 Hne Ub) as [enb [Hnb [Hnewb Htb]]].
  pose proof (touched_run _ _ _ _ _ _ _ _ _ _ Hta Hoip Hne Hall1' R1) as [HJ1 [en1 [Hn1 [He1 [A1 [B1 [C1 [D1 [F1 [Ho1 [Hc1 Hm1]]]]]]]]]]].
  pose proof (touched_run _ _ _ _ _ _ _ _ _ _ Htb Hoip Hne Hall2' R2) as [HJ2 [en2 [Hn2 [He2 [A2 [B2 [C2 [D2 [F2 [Ho2 [Hc2 Hm2]]]]]]]]]]].
  set (tgt := upd_target s sd o) in *.
  destruct (get_latest_side_some_spec _ _ _ _ _ _ _ _ HJ1 Hn1 Ho1 Hne Hi Hc1 G1) as [X1 [Y1 Z1]].
  destruct (get_latest_side_some_spec _ _ _ _ _ _ _ _ HJ2 Hn2 Ho2 Hne Hi Hc2 G2) as [X2 [Y2 Z2]].
  assert (Hspl: spl sd en1 en2 /\ (forall x y, abs_noprio x = abs_noprio y ->
             map abs_noprio (list_upd (upd_base s sd o (fe_ot ev1)) tgt x) = map abs_noprio (list_upd (upd_base s sd o (fe_ot ev2)) tgt y))).
  { assert (Hb: upd_base s sd o (fe_ot ev1) = upd_base s sd o (fe_ot ev2)).
    { unfold upd_base. destruct (al_get o (oids s sd)) eqn:Ea; [reflexivity|]. rewrite (Hsame eq_refl). reflexivity. }
    rewrite <- Hb in *. rewrite Hna in Hnb. injection Hnb as <-. split.
    - repeat split; first [congruence | rewrite Hc1, Hc2; reflexivity].
    - intros x y Hxy. apply map_list_upd_congr. exact Hxy. }
  destruct Hspl as [Hspl Hmap].
  assert (Hents: map abs_noprio (ents s1') = map abs_noprio (ents s2')).
  { rewrite X1, X2, He1, He2, !list_upd_twice. apply Hmap. apply gl_congr. exact Hspl. }
  destruct (index_determined _ _ Z1 Z2 (absnp_oid_path _ _ Hents)) as [I1 I2].
  split; [exact Hents|]. split; [|split; [exact I1|exact I2]].
  intros e'. rewrite Y1, Y2, Hm1, Hm2. reflexivity.
Qed.
