(* AlgoIntake.v — the invariant is kept by an event-intake step (EventManager.do): the pending events of the side
   are applied one by one; each leaves its object's entry marked changed. *)
From Coq Require Import NArith List Bool Arith Lia.
From CS Require Import Sx Str PathModel PathLaws StateModel StateProofs ProvModel ProvProofs
     AlgoModel AlgoCheck AlgoState AlgoProv AlgoPath AlgoInv.
Import ListNotations.
Local Open Scope N_scope.

Definition evl_set (evl : evlist) (sd : bool) (l : list ProvModel.event) : evlist :=
  fun sd' => if Bool.eqb sd' sd then l else evl sd'.

Lemma pd_set_same evl sd l k : pd (evl_set evl sd l) sd k = existsb (ev_for k) l.
Proof. unfold pd, evl_set. rewrite Bool.eqb_reflx. reflexivity. Qed.
Lemma pd_set_other evl sd l sd' k : sd' <> sd -> pd (evl_set evl sd l) sd' k = pd evl sd' k.
Proof. intros H. unfold pd, evl_set. destruct (Bool.eqb sd' sd) eqn:E; [apply Bool.eqb_prop in E; contradiction|reflexivity]. Qed.

Lemma env_of_std : legacy (env_of (cfg_std 1)) = false /\ (forall sd, oip (env_of (cfg_std 1)) sd = false) /\
                   (forall sd, cvs (env_of (cfg_std 1)) sd = mk_conv true).
Proof. repeat split; intros []; reflexivity. Qed.

Lemma tchg_stamp n : tchg (CNum (n + 2000)) = true.
Proof. unfold tchg. destruct (n + 2000)%N eqn:E; [lia|reflexivity]. Qed.

Lemma file_path_normal w sd k ob p : ShapeOk w sd -> (2 <= k)%nat -> obj_at w sd k = Some ob ->
  popt p (pstr (ProvModel.o_path ob)) -> forall q, p = Some q -> nps (mk_conv true) q = q.
Proof.
  intros Sh Hk Hob Hp q Hq. destruct Hp as [Hp|Hp]; subst p; [discriminate|]. injection Hq as Hq. subst q.
  destruct (sh_files _ _ Sh k ob Hk Hob) as (_ & n & Hpn & Hn). rewrite Hpn. apply nps_pstr.
  constructor; [apply root_name_ok|]. constructor; [exact Hn|constructor].
Qed.

Lemma oid_root_ne k : (2 <= k)%nat -> ostr_k k <> ostr_k 1.
Proof. intros H E. apply ostr_k_inj in E. lia. Qed.

(* ------------------------------------------------------------------ one event on an entry that exists *)
Lemma negb_inv sd : negb (negb sd) = sd. Proof. destruct sd; reflexivity. Qed.

Lemma maxchg_ss_chg en sd x v : chgv (gs en sd) <= v -> s_chg x = CNum v ->
  maxchg en <= maxchg (ss en sd x) /\ v <= maxchg (ss en sd x).
Proof.
  intros Hle Hx. unfold maxchg, chgv in *. destruct sd; simpl in *; rewrite Hx; simpl; lia.
Qed.

Lemma EntOk_event evl evl' g w w' e en sd k ob b stamp :
  EntOk evl g w e en -> s_oid (gs en sd) = Some (ostr_k k) -> obj_at w sd k = Some ob ->
  (forall sd0 k0, obj_at w' sd0 k0 = obj_at w sd0 k0) -> (forall sd0, getx w' e sd0 = getx w e sd0) ->
  (b = false -> ProvModel.o_exists ob = false) ->
  (forall sd0 k0, (sd0 <> sd \/ k0 <> k) -> pd evl sd0 k0 = true -> pd evl' sd0 k0 = true) ->
  x_lg (getx w e sd) < stamp -> chgv (gs en sd) <= stamp -> tchg (CNum stamp) = true ->
  EntOk evl' g w' e (ss en sd (w_chg (w_ex (gs en sd) (ev_ex (s_ex (gs en sd)) b)) (CNum stamp))).
Proof.
  intros [A B C] Ho Hob Hobj Hx Hdead Hpd Hlg Hchg Hts.
  set (x' := w_chg (w_ex (gs en sd) (ev_ex (s_ex (gs en sd)) b)) (CNum stamp)).
  set (en' := ss en sd x').
  assert (Hsame: gs en' sd = x') by apply gs_ss_same.
  assert (Hoth: gs en' (negb sd) = gs en (negb sd)) by apply gs_ss_other.
  assert (Hign: e_ign en' = e_ign en) by apply ign_ss.
  assert (Hmax: maxchg en <= maxchg en' /\ stamp <= maxchg en') by (apply maxchg_ss_chg; [exact Hchg|reflexivity]).
  constructor.
  - rewrite Hign. exact A.
  - destruct sd; simpl in *; [destruct B as [B|B]; [left; exact B|right; rewrite Ho; discriminate]|
                                destruct B as [B|B]; [left; rewrite Ho; discriminate|right; exact B]].
  - intros sd0. destruct (Bool.bool_dec sd0 sd) as [->|Hne].
    + (* the side of the event *)
      destruct (C sd) as [c1 c2 c3 c5 c4]. constructor; rewrite ?Hsame; try (unfold x'; cbn [w_chg w_ex s_otype s_force s_oid]; assumption).
      * unfold x'. cbn [w_chg w_ex s_oid]. rewrite Ho. discriminate.
      * unfold x'. cbn [w_chg w_ex s_oid]. rewrite Ho. discriminate.
      * unfold x'. cbn [w_chg w_ex s_oid]. intros o Ho'. destruct (c4 o Ho') as (k1 & ob1 & -> & Hob1 & Hk1 & F).
        assert (k1 = k) by (apply ostr_k_inj; congruence). subst k1.
        assert (ob1 = ob) by congruence. subst ob1.
        exists k, ob. split; [reflexivity|]. split; [rewrite Hobj; exact Hob|]. split; [exact Hk1|].
        destruct F as [f1 f2 f3 f4 f5 f6 f7 f8 f10 f9].
        assert (Hfl: flagP evl' en' sd k) by (left; rewrite Hsame; unfold x'; cbn [w_chg s_chg]; exact Hts).
        constructor; rewrite ?Hsame, ?Hoth, ?Hign; unfold x'; cbn [w_chg w_ex s_ex s_path s_spath s_hash s_shash s_oid s_chg].
        -- unfold ev_ex. destruct (s_ex (gs en sd)), b; simpl; intros Ht; try discriminate; auto.
        -- intros _. right. left. rewrite Hx. lia.
        -- exact f3.
        -- exact f4.
        -- exact f5.
        -- intros; exact Hfl.
        -- intros; left; exact Hfl.
        -- intros Hd cs Hcs. destruct (f8 Hd cs Hcs) as (P1 & P2 & P3 & P4 & P5).
           split; [exact P1|]. split; [exact P2|]. split; [exact P3|]. split; [exact P4|].
           intros Ho2. destruct (P5 Ho2) as (Q1 & Q2 & Q3 & Q4). split; [exact Q1|]. split; [exact Q2|]. split; [|exact Q4].
           destruct Q3 as [Q3|(Q3 & _)]; [left; exact Q3|right; split; [exact Q3|exact Hfl]].
        -- exact f10.
        -- intros Hd Hcs. destruct (f9 Hd Hcs) as (P1 & P2 & P3 & P4 & P5 & P6 & (k' & ob' & R1 & R2 & R3 & R4)).
           split; [exact P1|]. split.
           ++ rewrite P2. unfold ev_ex. destruct b; [reflexivity|]. rewrite (Hdead eq_refl) in P1. discriminate.
           ++ repeat (split; [assumption|]). exists k', ob'. rewrite Hobj. auto.
    + (* the other side *)
      assert (sd0 = negb sd) by (destruct sd0, sd; try reflexivity; contradiction). subst sd0.
      destruct (C (negb sd)) as [c1 c2 c3 c5 c4]. constructor; rewrite ?Hoth, ?Hign; auto.
      intros o Ho'. destruct (c4 o Ho') as (k1 & ob1 & -> & Hob1 & Hk1 & F).
      exists k1, ob1. split; [reflexivity|]. split; [rewrite Hobj; exact Hob1|]. split; [exact Hk1|].
      assert (Hpd1: pd evl (negb sd) k1 = true -> pd evl' (negb sd) k1 = true) by (apply Hpd; left; destruct sd; discriminate).
      assert (Hfl: flagP evl en (negb sd) k1 -> flagP evl' en' (negb sd) k1).
      { intros [X|X]; [left; rewrite Hoth; exact X|right; apply Hpd1; exact X]. }
      destruct F as [f1 f2 f3 f4 f5 f6 f7 f8 f10 f9].
      rewrite negb_inv in f6, f7, f8, f10, f9.
      constructor; rewrite ?Hoth, ?Hign, ?negb_inv, ?Hsame; unfold x'; cbn [w_chg w_ex s_ex s_path s_spath s_hash s_shash s_oid s_chg].
      * exact f1.
      * intros Hd. destruct (f2 Hd) as [X|[X|X]]; [left; auto|right; left; rewrite Hx; lia|right; right; exact X].
      * exact f3.
      * exact f4.
      * exact f5.
      * intros Hd Ho2. apply Hfl. apply f6; assumption.
      * intros Hd Ho2. destruct (f7 Hd Ho2) as [X|X]; [left; apply Hfl; exact X|right; exact X].
      * intros Hd cs Hcs. destruct (f8 Hd cs Hcs) as (P1 & P2 & P3 & P4 & P5).
        split; [exact P1|]. split; [exact P2|]. split; [exact P3|]. split; [exact P4|].
        intros Ho2. destruct (P5 Ho2) as (Q1 & Q2 & Q3 & Q4). split; [exact Q1|]. split; [exact Q2|]. split; [|exact Q4].
        destruct Q3 as [Q3|(Q3 & Q5)]; [left; exact Q3|right; split; [exact Q3|auto]].
      * exact f10.
      * intros Hd Hcs. destruct (f9 Hd Hcs) as (P1 & P2 & P3 & P4 & P5 & P6 & (k' & ob' & R1 & R2 & R3 & R4)).
        repeat (split; [assumption|]). exists k', ob'. rewrite Hobj. auto.
Qed.

(* ------------------------------------------------------------------ index facts *)
Lemma idx_lookup s sd o e : IdxJ s -> al_get o (oids s sd) = Some e ->
  exists en, nth_error (ents s) e = Some en /\ s_oid (gs en sd) = Some o.
Proof.
  intros [_ [Hso _]] H. apply Hso in H. unfold oid_of in H. destruct (nth_error (ents s) e) as [en|]; [|discriminate].
  exists en. auto.
Qed.
Lemma idx_found_get s sd o e en : IdxJ s -> nth_error (ents s) e = Some en -> s_oid (gs en sd) = Some o ->
  al_get o (oids s sd) = Some e.
Proof. intros [Hf _] Hn Ho. apply (Hf e sd o). unfold oid_of. rewrite Hn. exact Ho. Qed.
Lemma idx_unique_ent s sd o e1 e2 en1 en2 : IdxJ s ->
  nth_error (ents s) e1 = Some en1 -> s_oid (gs en1 sd) = Some o ->
  nth_error (ents s) e2 = Some en2 -> s_oid (gs en2 sd) = Some o -> e1 = e2.
Proof. intros HI H1 O1 H2 O2. pose proof (idx_found_get s sd o e1 en1 HI H1 O1). pose proof (idx_found_get s sd o e2 en2 HI H2 O2). congruence. Qed.

Lemma entry_ge2 evl g w e en sd k : InvP evl g w -> nth_error (ents (w_st w)) e = Some en ->
  s_oid (gs en sd) = Some (ostr_k k) -> (2 <= k)%nat -> (2 <= e)%nat.
Proof.
  intros I He Ho Hk. destruct (i_roots _ _ _ I) as (e0 & e1 & H0 & H1 & _ & _ & _ & _ & Ho0L & Ho0R & _ & Ho1L & Ho1R & _).
  destruct e as [|[|e]]; [| |lia].
  - rewrite H0 in He. injection He as <-. assert (E1: ostr_k 1 = ostr_k k) by (destruct sd; simpl in Ho; congruence). apply ostr_k_inj in E1. lia.
  - rewrite H1 in He. injection He as <-. destruct sd; simpl in Ho; congruence.
Qed.

Lemma existsb_cons {T} (f : T -> bool) x l : existsb f (x :: l) = f x || existsb f l. Proof. reflexivity. Qed.

Lemma IdxJ_tape s t : IdxJ s -> IdxJ (st_tape s t).
Proof. intros H. apply (IdxJ_view s); [reflexivity|exact H]. Qed.
Lemma IdxJ_dirty s d : IdxJ s -> IdxJ (st_dirty s d).
Proof. intros H. apply (IdxJ_view s); [reflexivity|exact H]. Qed.

Lemma kid_of_inj a b : kid_of a = kid_of b -> a = b.
Proof. unfold kid_of. intros H. injection H as H. apply Nnat.Nat2N.inj. exact H. Qed.

(* ------------------------------------------------------------------ one event *)
Lemma root_check evl g w sd k : InvP evl g w -> (2 <= k)%nat ->
  exists ri, ProvModel.info_path (prov_of w sd) (root_of (w_cfg w) sd) = Some ri /\
             ProvModel.key_eqb (ProvModel.i_oid ri) (kid_of k) = false.
Proof.
  intros I Hk. rewrite (i_cfg _ _ _ I).
  destruct (sh_root1 _ _ (i_shape _ _ _ I sd)) as (r1 & H1 & Hl & Hp & _). unfold obj_at in H1.
  pose proof (info_path_live _ _ _ (i_pwf _ _ _ I sd) H1 Hl) as Hi. rewrite Hp in Hi.
  exists (ProvModel.info_of r1). split; [destruct sd; exact Hi|].
  simpl. rewrite (pw_oid _ (i_pwf _ _ _ I sd) _ _ H1).
  destruct (ProvModel.key_eqb (kid_of 1) (kid_of k)) eqn:E; [|reflexivity].
  apply key_eqb_eq in E. apply kid_of_inj in E. lia.
Qed.

Lemma flagged_side en sd : tchg (s_chg (gs en sd)) = true -> tstr (s_oid (gs en sd)) = true -> flagged en = true.
Proof. unfold flagged. destruct sd; simpl; intros -> ->; [apply orb_true_r|reflexivity]. Qed.

Lemma process_event_pres evl g w sd ev rest w' :
  InvP evl g w -> evl sd = ev :: rest -> process_event w sd ev = ROk w' -> InvP (evl_set evl sd rest) g w'.
Proof.
  intros I Hevl H.
  destruct (i_log _ _ _ I sd ev ltac:(rewrite Hevl; left; reflexivity)) as (k & ob & Hoid & Hk & Hob & Hot & Hdead).
  destruct (sh_files _ _ (i_shape _ _ _ I sd) k ob Hk Hob) as (Hkf & n & Hpn & Hnok).
  pose proof (i_cfg _ _ _ I) as Hcfg.
  unfold process_event in H. rewrite Hcfg in H.
  assert (Hf: (oip_of (cfg_std 1) sd || c_filt (cfg_std 1))%bool = false) by (destruct sd; reflexivity).
  rewrite Hf in H. rewrite <- Hcfg in H.
  destruct (root_check evl g w sd k I Hk) as (ri & Hri & Hrk). rewrite Hri, Hoid, Hrk in H. cbn [rbind] in H.
  rewrite kstr_kid in H. unfold lookup_oid in H.
  set (s0 := st_tape (w_st w) [TSwap false; TSwap false]) in *.
  assert (HI0: IdxJ s0) by (apply IdxJ_tape; apply (i_idx _ _ _ I)).
  assert (Hclk0: lastch s0 <= now s0) by (apply (i_clk _ _ _ I)).
  assert (HE: E w = env_of (cfg_std 1)) by (unfold E; rewrite Hcfg; reflexivity).
  destruct env_of_std as (Hleg & Hoip & Hcvs).
  assert (Hty: otype_of_kind (ProvModel.e_otype ev) = File) by (rewrite Hot, Hkf; reflexivity).
  rewrite Hty in H.
  destruct (al_get (ostr_k k) (oids (w_st w) sd)) as [e|] eqn:Ea.
  - (* the object has an entry *)
    destruct (idx_lookup _ _ _ _ (i_idx _ _ _ I) Ea) as (en & He & Ho). rewrite He in H.
    pose proof (entry_ge2 _ _ _ _ _ _ _ I He Ho Hk) as He2.
    pose proof (i_ents _ _ _ I e en He2 He) as EO.
    destruct (so_full _ _ _ _ _ _ (eo_side _ _ _ _ _ EO sd) _ Ho) as (k1 & ob1 & Hk1 & Hob1 & _ & FO).
    apply ostr_k_inj in Hk1. subst k1. assert (ob1 = ob) by congruence. subst ob1.
    assert (Hn0: nth_error (ents s0) e = Some en) by exact He.
    assert (Ha0: al_get (ostr_k k) (oids s0 sd) = Some e) by (destruct sd; exact Ea).
    assert (Hnp: forall p, s_path (gs en sd) = Some p -> nps (cvs (env_of (cfg_std 1)) sd) p = p).
    { intros p Hp. rewrite Hcvs. eapply (file_path_normal w sd k ob); eauto. apply (i_shape _ _ _ I). apply (fo_path _ _ _ _ _ _ _ _ FO). }
    destruct (update_known_eff (env_of (cfg_std 1)) Hleg Hoip s0 sd (ostr_k k) e en (ProvModel.e_exists ev) File
                Hn0 Ha0 Ho (tstr_ostr k) (so_file _ _ _ _ _ _ (eo_side _ _ _ _ _ EO sd)) ltac:(discriminate) Hnp Hclk0)
      as (s1 & Hu & F1 & T1).
    unfold st_op in H. fold s0 in H. rewrite HE in H. rewrite Hu in H. cbn [rbind] in H. injection H as <-.
    set (stamp := now s0 + 2000) in *.
    set (en1 := ss en sd (w_ex (gs en sd) (ev_ex (s_ex (gs en sd)) (ProvModel.e_exists ev)))) in *.
    assert (Hpend: chg_pending en1 sd (CNum stamp) = true).
    { unfold chg_pending, en1. rewrite gs_ss_same. cbn [w_ex s_oid]. rewrite Ho. unfold stamp. rewrite tchg_stamp. reflexivity. }
    assert (Hen': chg_entry en1 sd (CNum stamp) = ss en sd (w_chg (w_ex (gs en sd) (ev_ex (s_ex (gs en sd)) (ProvModel.e_exists ev))) (CNum stamp))).
    { unfold chg_entry. rewrite Hpend. cbn [negb andb]. unfold en1. rewrite gs_ss_same, ss_ss. reflexivity. }
    rewrite Hen', Hpend in F1. destruct F1 as (A1 & B1 & C1 & D1 & J1).
    set (en' := ss en sd (w_chg (w_ex (gs en sd) (ev_ex (s_ex (gs en sd)) (ProvModel.e_exists ev))) (CNum stamp))) in *.
    destruct (i_clke _ _ _ I e en He) as (Hmx & Hlgs).
    apply (inv_master evl (evl_set evl sd rest) g g w _ e en' I); cbn [commit with_st w_st w_cfg prov_of w_pL w_pR w_x st_dirty st_tape ents cset now lastch tape].
    + reflexivity.
    + intros sd0. split; [rewrite prov_of_commit, prov_of_with_st; apply (i_pwf _ _ _ I sd0)|].
      assert (Hobj: forall k0, obj_at (commit (with_st w (st_tape s1 []))) sd0 k0 = obj_at w sd0 k0)
        by (intros k0; unfold obj_at; rewrite prov_of_commit, prov_of_with_st; reflexivity).
      split; [apply (ShapeOk_ext w _ sd0 Hobj (i_shape _ _ _ I sd0))|].
      apply (LogOk_ext evl _ w _ sd0 Hobj); [|apply (i_log _ _ _ I sd0)].
      intros ev0 Hin. unfold evl_set in Hin. destruct (Bool.eqb sd0 sd) eqn:Es; [|exact Hin].
      apply Bool.eqb_prop in Es. subst sd0. rewrite Hevl. right. exact Hin.
    + exact He2.
    + rewrite A1. eapply nth_list_upd_eq; eauto.
    + rewrite A1, length_list_upd. apply Nat.le_refl.
    + intros x Hx Hne. rewrite A1, nth_list_upd_neq by congruence. apply nth_error_None. exact Hx.
    + intros x xn Hne Hxn. exists xn. split; [rewrite A1, nth_list_upd_neq by congruence; exact Hxn|apply same_but_prio_refl].
    + intros x Hne. rewrite B1. destruct (Nat.eqb_spec x e); [contradiction|reflexivity].
    + intros _. rewrite B1, Nat.eqb_refl. reflexivity.
    + intros _. apply (flagged_side en' sd); unfold en'; rewrite gs_ss_same; cbn [w_chg w_ex s_chg s_oid]; [unfold stamp; apply tchg_stamp|rewrite Ho; reflexivity].
    + rewrite C1. unfold stamp, s0. simpl. lia.
    + rewrite C1, D1. apply N.le_refl.
    + rewrite C1. unfold en'.
      assert (Hc: chgv (gs en sd) <= stamp) by (unfold maxchg in Hmx; unfold stamp, s0; simpl; destruct sd; simpl in *; lia).
      unfold maxchg, chgv in *. unfold stamp, s0 in *. destruct sd; simpl in *; lia.
    + intros sd0. rewrite C1. specialize (Hlgs sd0). unfold getx in *. simpl. unfold stamp, s0. simpl. lia.
    + reflexivity.
    + apply IdxJ_dirty, IdxJ_tape. apply J1. exact HI0.
    + intros x sd0 _. reflexivity.
    + intros x xn Hne Hx2 Hxn sd0 k0 Hk0. split; [reflexivity|]. split; [|reflexivity].
      destruct (Bool.bool_dec sd0 sd) as [->|Hns]; [|rewrite (pd_set_other _ _ _ _ _ Hns); auto].
      rewrite pd_set_same. unfold pd. rewrite Hevl, existsb_cons. intros Hp. apply orb_prop in Hp as [Hp|Hp]; [|exact Hp].
      exfalso. unfold ev_for in Hp. rewrite Hoid in Hp. apply key_eqb_eq in Hp. apply kid_of_inj in Hp. subst k0.
      apply Hne. apply (idx_unique_ent _ _ _ _ _ _ _ (i_idx _ _ _ I) Hxn Hk0 He Ho).
    + intros sd0 k0 Hk02 Hlt. 
      assert (Hkeep: forall x xn, nth_error (ents (w_st w)) x = Some xn -> s_oid (gs xn sd0) = Some (ostr_k k0) ->
                     exists x' xn', nth_error (ents s1) x' = Some xn' /\ s_oid (gs xn' sd0) = Some (ostr_k k0)).
      { intros x xn Hxn Hox. destruct (Nat.eq_dec x e) as [->|Hne].
        - exists e, en'. split; [rewrite A1; eapply nth_list_upd_eq; eauto|]. assert (xn = en) by congruence. subst xn.
          unfold en'. destruct (Bool.bool_dec sd0 sd) as [->|Hns]; [rewrite gs_ss_same; cbn [w_chg w_ex s_oid]; exact Hox|].
          assert (sd0 = negb sd) by (destruct sd0, sd; try reflexivity; contradiction). subst sd0. rewrite gs_ss_other. exact Hox.
        - exists x, xn. split; [rewrite A1, nth_list_upd_neq by congruence; exact Hxn|exact Hox]. }
      destruct (i_cov _ _ _ I sd0 k0 Hk02 Hlt) as [(x & xn & Hxn & Hox)|Hp]; [left; apply (Hkeep x xn Hxn Hox)|].
      destruct (Bool.bool_dec sd0 sd) as [->|Hns]; [|right; rewrite (pd_set_other _ _ _ _ _ Hns); exact Hp].
      unfold pd in Hp. rewrite Hevl, existsb_cons in Hp. apply orb_prop in Hp as [Hp|Hp]; [|right; rewrite pd_set_same; exact Hp].
      left. unfold ev_for in Hp. rewrite Hoid in Hp. apply key_eqb_eq in Hp. apply kid_of_inj in Hp. subst k0.
      apply (Hkeep e en He Ho).
    + intros sd0 k0 Hk02 Hlt Hg. destruct (i_cove _ _ _ I sd0 k0 Hk02 Hlt Hg) as (x & xn & Hxn & Hox).
      destruct (Nat.eq_dec x e) as [->|Hne].
      * exists e, en'. split; [rewrite A1; eapply nth_list_upd_eq; eauto|]. assert (xn = en) by congruence. subst xn.
        unfold en'. destruct (Bool.bool_dec sd0 sd) as [->|Hns]; [rewrite gs_ss_same; cbn [w_chg w_ex s_oid]; exact Hox|].
        assert (sd0 = negb sd) by (destruct sd0, sd; try reflexivity; contradiction). subst sd0. rewrite gs_ss_other. exact Hox.
      * exists x, xn. split; [rewrite A1, nth_list_upd_neq by congruence; exact Hxn|exact Hox].
    + intros sd0 k0 cs Hg. apply (i_ghost _ _ _ I sd0 k0 cs Hg).
    + unfold en'. apply (EntOk_event evl (evl_set evl sd rest) g w _ e en sd k ob (ProvModel.e_exists ev) stamp EO Ho Hob).
      * intros; reflexivity.
      * intros; reflexivity.
      * exact Hdead.
      * intros sd0 k0 Hd Hp. destruct (Bool.bool_dec sd0 sd) as [->|Hns]; [|rewrite (pd_set_other _ _ _ _ _ Hns); exact Hp].
        rewrite pd_set_same. unfold pd in Hp. rewrite Hevl, existsb_cons in Hp. apply orb_prop in Hp as [Hp|Hp]; [|exact Hp].
        exfalso. unfold ev_for in Hp. rewrite Hoid in Hp. apply key_eqb_eq in Hp. apply kid_of_inj in Hp.
        destruct Hd as [Hd|Hd]; [apply Hd; reflexivity|apply Hd; symmetry; exact Hp].
      * specialize (Hlgs sd). unfold stamp, s0. simpl. lia.
      * unfold maxchg in Hmx. unfold stamp, s0. simpl. destruct sd; simpl in *; lia.
      * unfold stamp. apply tchg_stamp.
    + intros sd0 _ _ Hp. exfalso. specialize (Hlgs sd0).
      assert (Hst': stamp <= maxchg en') by (unfold en', maxchg, chgv; destruct sd; simpl; lia).
      change (getx (commit (with_st w (st_tape s1 []))) e sd0) with (getx w e sd0) in Hp. unfold stamp, s0 in *. simpl in *. lia.
  - (* no entry yet: a new one is made *)
    assert (Ha0: al_get (ostr_k k) (oids s0 sd) = None) by (destruct sd; exact Ea).
    destruct (update_new_eff (env_of (cfg_std 1)) Hleg Hoip s0 sd (ostr_k k) (ProvModel.e_exists ev) File false [TSwap false]
                Ha0 (tstr_ostr k) ltac:(discriminate) Hclk0 eq_refl) as (s1 & Hu & A1 & B1 & C1 & D1 & T1 & J1).
    unfold st_op in H. fold s0 in H. rewrite HE in H. rewrite Hu in H. cbn [rbind] in H. injection H as <-.
    set (stamp := now s0 + 2000) in *.
    set (e := length (ents s0)) in *.
    set (side' := w_chg (w_ex (w_oid (new_side File) (Some (ostr_k k))) (ev_ex ExUnknown (ProvModel.e_exists ev))) (CNum stamp)).
    match type of A1 with _ = _ ++ [?X] => set (en' := X) in * end.
    assert (Hen': en' = ss (new_entry File) sd side').
    { unfold en', chg_entry, chg_pending. rewrite !gs_ss_same. cbn [w_ex w_oid s_oid tstr ostr_k]. unfold stamp. rewrite tchg_stamp.
      cbn [andb orb negb]. rewrite !gs_ss_same, !ss_ss. reflexivity. }
    assert (Hgs: gs en' sd = side') by (rewrite Hen'; apply gs_ss_same).
    assert (Hgo: gs en' (negb sd) = new_side File) by (rewrite Hen', gs_ss_other; destruct sd; reflexivity).
    assert (Hlen2: (2 <= e)%nat).
    { destruct (i_roots _ _ _ I) as (e0 & e1 & _ & H1 & _). unfold e, s0. simpl.
      assert (1 < length (ents (w_st w)))%nat by (apply nth_error_Some; congruence). lia. }
    assert (Hnone: forall x xn, nth_error (ents (w_st w)) x = Some xn -> s_oid (gs xn sd) <> Some (ostr_k k)).
    { intros x xn Hxn Hox. rewrite (idx_found_get _ _ _ _ _ (i_idx _ _ _ I) Hxn Hox) in Ea. discriminate. }
    apply (inv_master evl (evl_set evl sd rest) g g w _ e en' I); cbn [commit with_st w_st w_cfg prov_of w_pL w_pR w_x st_dirty st_tape ents cset now lastch tape].
    + reflexivity.
    + intros sd0. split; [rewrite prov_of_commit, prov_of_with_st; apply (i_pwf _ _ _ I sd0)|].
      assert (Hobj: forall k0, obj_at (commit (with_st w (st_tape s1 []))) sd0 k0 = obj_at w sd0 k0)
        by (intros k0; unfold obj_at; rewrite prov_of_commit, prov_of_with_st; reflexivity).
      split; [apply (ShapeOk_ext w _ sd0 Hobj (i_shape _ _ _ I sd0))|].
      apply (LogOk_ext evl _ w _ sd0 Hobj); [|apply (i_log _ _ _ I sd0)].
      intros ev0 Hin. unfold evl_set in Hin. destruct (Bool.eqb sd0 sd) eqn:Es; [|exact Hin].
      apply Bool.eqb_prop in Es. subst sd0. rewrite Hevl. right. exact Hin.
    + exact Hlen2.
    + rewrite A1. apply nth_error_app_len.
    + rewrite A1, app_length. unfold s0. simpl. lia.
    + intros x Hx Hne. rewrite A1. apply nth_error_None. rewrite app_length. unfold e, s0 in *. simpl in *. lia.
    + intros x xn Hne Hxn. exists xn. split; [|apply same_but_prio_refl]. rewrite A1, nth_error_app1; [exact Hxn|].
      apply nth_error_Some. unfold s0. simpl. congruence.
    + intros x Hne. rewrite B1. destruct (Nat.eqb_spec x e); [contradiction|reflexivity].
    + intros _. rewrite B1, Nat.eqb_refl. reflexivity.
    + intros _. apply (flagged_side en' sd); rewrite Hgs; unfold side'; cbn [w_chg w_ex w_oid s_chg s_oid]; [unfold stamp; apply tchg_stamp|reflexivity].
    + rewrite C1. unfold stamp, s0. simpl. lia.
    + rewrite C1, D1. apply N.le_refl.
    + rewrite C1. unfold maxchg, chgv. rewrite Hen'. destruct sd; simpl; lia.
    + intros sd0. rewrite C1. match goal with |- context [getx ?W e sd0] => change (getx W e sd0) with (getx w e sd0) end.
      rewrite (i_xlen _ _ _ I e sd0) by (unfold e, s0; simpl; lia). simpl. lia.
    + reflexivity.
    + apply IdxJ_dirty, IdxJ_tape. apply J1. exact HI0.
    + intros x sd0 _. reflexivity.
    + intros x xn Hne Hx2 Hxn sd0 k0 Hk0. split; [reflexivity|]. split; [|reflexivity].
      destruct (Bool.bool_dec sd0 sd) as [->|Hns]; [|rewrite (pd_set_other _ _ _ _ _ Hns); auto].
      rewrite pd_set_same. unfold pd. rewrite Hevl, existsb_cons. intros Hp. apply orb_prop in Hp as [Hp|Hp]; [|exact Hp].
      exfalso. unfold ev_for in Hp. rewrite Hoid in Hp. apply key_eqb_eq in Hp. apply kid_of_inj in Hp. subst k0.
      apply (Hnone x xn Hxn Hk0).
    + intros sd0 k0 Hk02 Hlt.
      assert (Hkeep: forall x xn, nth_error (ents (w_st w)) x = Some xn -> s_oid (gs xn sd0) = Some (ostr_k k0) ->
                     exists x' xn', nth_error (ents s1) x' = Some xn' /\ s_oid (gs xn' sd0) = Some (ostr_k k0)).
      { intros x xn Hxn Hox. exists x, xn. split; [|exact Hox]. rewrite A1, nth_error_app1; [exact Hxn|].
        apply nth_error_Some. unfold s0. simpl. congruence. }
      destruct (i_cov _ _ _ I sd0 k0 Hk02 Hlt) as [(x & xn & Hxn & Hox)|Hp]; [left; apply (Hkeep x xn Hxn Hox)|].
      destruct (Bool.bool_dec sd0 sd) as [->|Hns]; [|right; rewrite (pd_set_other _ _ _ _ _ Hns); exact Hp].
      unfold pd in Hp. rewrite Hevl, existsb_cons in Hp. apply orb_prop in Hp as [Hp|Hp]; [|right; rewrite pd_set_same; exact Hp].
      left. unfold ev_for in Hp. rewrite Hoid in Hp. apply key_eqb_eq in Hp. apply kid_of_inj in Hp. subst k0.
      exists e, en'. split; [rewrite A1; apply nth_error_app_len|]. rewrite Hgs. reflexivity.
    + intros sd0 k0 Hk02 Hlt Hg. destruct (i_cove _ _ _ I sd0 k0 Hk02 Hlt Hg) as (x & xn & Hxn & Hox).
      exists x, xn. split; [|exact Hox]. rewrite A1, nth_error_app1; [exact Hxn|]. apply nth_error_Some. unfold s0. simpl. congruence.
    + intros sd0 k0 cs Hg. apply (i_ghost _ _ _ I sd0 k0 cs Hg).
    + (* the new entry *)
      constructor.
      * left. rewrite Hen'. destruct sd; reflexivity.
      * destruct sd; [right|left]; (change (e_r en') with (gs en' true) || change (e_l en') with (gs en' false)); rewrite Hgs; discriminate.
      * intros sd0. destruct (Bool.bool_dec sd0 sd) as [->|Hns].
        -- constructor; rewrite Hgs; unfold side'; cbn [w_chg w_ex w_oid s_otype s_force s_oid new_side]; try reflexivity; try discriminate.
           intros o Ho'. injection Ho' as <-. exists k, ob. split; [reflexivity|]. split; [exact Hob|]. split; [exact Hk|].
           assert (Hfl: flagP (evl_set evl sd rest) en' sd k) by (left; rewrite Hgs; unfold side'; cbn [w_chg s_chg]; unfold stamp; apply tchg_stamp).
           constructor; rewrite ?Hgs, ?Hgo; unfold side'; cbn [w_chg w_ex w_oid s_ex s_path s_spath s_hash s_shash s_oid s_chg new_side].
           ++ unfold ev_ex. destruct (ProvModel.e_exists ev) eqn:Eb; simpl; intros Ht; [discriminate|apply Hdead; reflexivity].
           ++ right. left. match goal with |- context [getx ?W e sd] => change (getx W e sd) with (getx w e sd) end.
              rewrite (i_xlen _ _ _ I e sd) by (unfold e, s0; simpl; lia).
              unfold maxchg, chgv. rewrite Hen'. unfold side'. destruct sd; simpl; unfold stamp; lia.
           ++ left. reflexivity.
           ++ left. reflexivity.
           ++ rewrite Hen'. rewrite ign_ss. discriminate.
           ++ intros; exact Hfl.
           ++ intros _ Hx. exfalso. apply Hx. reflexivity.
           ++ intros _ cs Hcs. destruct (i_ghost _ _ _ I sd k cs Hcs) as (_ & ob2 & r & Hob2 & Hcs2).
              assert (ob2 = ob) by congruence. subst ob2.
              split; [left; reflexivity|]. split; [left; reflexivity|]. split; [exists r; exact Hcs2|]. split; [intros Hx; exfalso; apply Hx; reflexivity|].
              intros Hx. exfalso. apply Hx. reflexivity.
           ++ intros _ cs Hcs. split; [intros _; split; reflexivity|intros Hx; exfalso; apply Hx; reflexivity].
           ++ intros _ Hg. exfalso.
              assert (Hlt: (k < length (ProvModel.p_heap (prov_of w sd)))%nat) by (apply nth_error_Some; unfold obj_at in Hob; congruence).
              destruct (i_cove _ _ _ I sd k Hk Hlt Hg) as (x & xn & Hxn & Hox). apply (Hnone x xn Hxn Hox).
        -- assert (sd0 = negb sd) by (destruct sd0, sd; try reflexivity; contradiction). subst sd0.
           constructor; rewrite Hgo; cbn [new_side s_otype s_force s_oid s_chg s_path s_hash s_spath s_shash s_ex tchg]; try reflexivity.
           ++ intros _. repeat split.
           ++ intros o Ho'. discriminate.
    + intros sd0 _ _ Hp. exfalso.
      assert (Hst': stamp <= maxchg en') by (rewrite Hen'; unfold maxchg, chgv; destruct sd; simpl; lia).
      change (getx (commit (with_st w (st_tape s1 []))) e sd0) with (getx w e sd0) in Hp.
      rewrite (i_xlen _ _ _ I e sd0) in Hp by (unfold e, s0; simpl; lia). simpl in Hp. unfold stamp, s0 in *. simpl in *. lia.
Qed.

(* ------------------------------------------------------------------ the loop and the step *)
Lemma InvP_ext evl evl' g w : (forall sd, evl' sd = evl sd) -> InvP evl g w -> InvP evl' g w.
Proof.
  intros Hev I. assert (Hpd: forall sd k, pd evl' sd k = pd evl sd k) by (intros; unfold pd; rewrite Hev; reflexivity).
  constructor; try (apply I).
  - intros sd. apply (LogOk_ext evl evl' w w sd); [reflexivity|intros ev; rewrite Hev; auto|apply (i_log _ _ _ I)].
  - intros sd k Hk Hlt. destruct (i_cov _ _ _ I sd k Hk Hlt) as [A|A]; [left; exact A|right; rewrite Hpd; exact A].
  - intros e en He Hen. apply (EntOk_frame evl evl' g g w w e en (i_ents _ _ _ I e en He Hen)); [reflexivity|].
    intros sd k Ho. split; [reflexivity|]. split; [rewrite Hpd; auto|reflexivity].
Qed.

Lemma process_events_pres l : forall evl g w sd w',
  InvP evl g w -> evl sd = l -> process_events w sd l = ROk w' -> InvP (evl_set evl sd []) g w'.
Proof.
  induction l as [|ev rest IH]; intros evl g w sd w' I Hevl H.
  - simpl in H. injection H as <-. apply (InvP_ext evl); [|exact I].
    intros sd0. unfold evl_set. destruct (Bool.eqb sd0 sd) eqn:E; [apply Bool.eqb_prop in E; subst; symmetry; exact Hevl|reflexivity].
  - simpl in H. destruct (process_event w sd ev) as [w1|c] eqn:E1; [|discriminate]. cbn [rbind] in H.
    pose proof (process_event_pres evl g w sd ev rest w1 I Hevl E1) as I1.
    assert (Hr: evl_set evl sd rest sd = rest) by (unfold evl_set; rewrite Bool.eqb_reflx; reflexivity).
    pose proof (IH _ g w1 sd w' I1 Hr H) as I2.
    apply (InvP_ext (evl_set (evl_set evl sd rest) sd [])); [|exact I2].
    intros sd0. unfold evl_set. destruct (Bool.eqb sd0 sd); reflexivity.
Qed.

Lemma process_events_prov l : forall w sd w', process_events w sd l = ROk w' -> forall sd0, prov_of w' sd0 = prov_of w sd0.
Proof.
  induction l as [|ev rest IH]; intros w sd w' H sd0.
  - simpl in H. injection H as <-. reflexivity.
  - simpl in H. destruct (process_event w sd ev) as [w1|c] eqn:E1; [|discriminate]. cbn [rbind] in H.
    rewrite (IH _ _ _ H sd0). unfold process_event in E1.
    destruct (oip_of (w_cfg w) sd || c_filt (w_cfg w))%bool; [discriminate|].
    destruct (ProvModel.info_path (prov_of w sd) (root_of (w_cfg w) sd)) as [ri|]; [|discriminate].
    destruct (ProvModel.key_eqb (ProvModel.i_oid ri) (ProvModel.e_oid ev)); [discriminate|]. cbn [rbind] in E1.
    unfold st_op in E1. destruct (update _ _ _ _ _ _ _ _ _) as [s1|er]; [|discriminate]. cbn [rbind] in E1. injection E1 as <-.
    rewrite prov_of_commit, prov_of_with_st. reflexivity.
Qed.

Lemma InvP_cursor evl g w sd : InvP evl g w ->
  InvP evl g (with_prov w sd (ProvModel.with_cursor (prov_of w sd) (length (ProvModel.p_log (prov_of w sd))))).
Proof.
  intros I. set (w' := with_prov w sd _).
  assert (Hobj: forall sd0 k, obj_at w' sd0 k = obj_at w sd0 k) by (intros sd0 k; unfold obj_at, w', with_prov; destruct sd, sd0; reflexivity).
  assert (Hheap: forall sd0, ProvModel.p_heap (prov_of w' sd0) = ProvModel.p_heap (prov_of w sd0)) by (intros sd0; unfold w', with_prov; destruct sd, sd0; reflexivity).
  assert (Hst: w_st w' = w_st w) by (unfold w', with_prov; destruct sd; reflexivity).
  assert (Hgx: forall e sd0, getx w' e sd0 = getx w e sd0) by (intros; unfold w', with_prov, getx; destruct sd; reflexivity).
  constructor; rewrite ?Hst; try (apply I).
  - unfold w', with_prov. destruct sd; exact (i_cfg _ _ _ I).
  - intros sd0. destruct (Bool.bool_dec sd0 sd) as [->|Hne].
    + assert (prov_of w' sd = ProvModel.with_cursor (prov_of w sd) (length (ProvModel.p_log (prov_of w sd)))) by (unfold w', with_prov; destruct sd; reflexivity).
      rewrite H. apply PWF_with_cursor. apply (i_pwf _ _ _ I).
    + assert (prov_of w' sd0 = prov_of w sd0) by (unfold w', with_prov; destruct sd, sd0; try reflexivity; contradiction). rewrite H. apply (i_pwf _ _ _ I).
  - intros sd0. apply (ShapeOk_ext w w' sd0 (Hobj sd0) (i_shape _ _ _ I sd0)).
  - intros sd0. apply (LogOk_ext evl evl w w' sd0 (Hobj sd0)); [auto|apply (i_log _ _ _ I)].
  - intros e en He. destruct (i_clke _ _ _ I e en He) as (A & B). split; [exact A|]. intros sd0. rewrite Hgx. apply B.
  - intros sd0 k Hk Hlt. rewrite Hheap in Hlt. apply (i_cov _ _ _ I sd0 k Hk Hlt).
  - intros e en He Hen. apply (EntOk_frame evl evl g g w w' e en (i_ents _ _ _ I e en He Hen)); [intros; rewrite Hgx; reflexivity|].
    intros sd0 k Ho. split; [apply Hobj|]. split; [auto|reflexivity].
  - intros sd0 k Hk Hlt. rewrite Hheap in Hlt. apply (i_cove _ _ _ I sd0 k Hk Hlt).
  - intros sd0 k cs Hg. rewrite Hobj. apply (i_ghost _ _ _ I sd0 k cs Hg).
  - intros e sd0 He. rewrite Hgx. apply (i_xlen _ _ _ I). exact He.
  - intros e en sd0 He Hn. unfold Seen. rewrite Hgx. apply (i_seen _ _ _ I e en sd0 He Hn).
Qed.

Theorem intake_pres g w sd w' : Inv g w -> intake w sd = ROk w' -> Inv g w'.
Proof.
  intros I H. unfold intake in H. rewrite (read_events_all _ (i_pwf _ _ _ I sd)) in H.
  set (w1 := with_prov w sd _) in H.
  pose proof (InvP_cursor _ g w sd I) as I1. fold w1 in I1.
  assert (Hl: real_evl w sd = ProvModel.events_from (prov_of w sd)) by reflexivity.
  pose proof (process_events_pres _ (real_evl w) g w1 sd w' I1 Hl H) as I2.
  apply (InvP_ext (evl_set (real_evl w) sd [])); [|exact I2].
  intros sd0. unfold real_evl, evl_set. rewrite (process_events_prov _ _ _ _ H sd0).
  destruct (Bool.eqb sd0 sd) eqn:E.
  - apply Bool.eqb_prop in E. subst sd0. unfold w1, with_prov. destruct sd; simpl; apply events_from_read.
  - unfold w1, with_prov. destruct sd, sd0; try reflexivity; discriminate.
Qed.
