(* Extraction of the C13 model.  ExtrOcamlBasic only: bool, option, unit, prod, list, sumbool, sumor
   map to OCaml's; N / positive / nat stay the extracted inductive types. *)
From Coq Require Import ExtrOcamlBasic.
From CS Require Import Sx PathModel.
Definition run := PathModel.run.
Extraction "extract/path/model.ml" run.
