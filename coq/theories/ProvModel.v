(* ProvModel.v — executable reference model of cloudsync/providers/mock.py (MockProvider + MockFS),
   the in-memory provider the engine is tested against, in its four flavours
   (oid_is_path x case_sensitive).  Faithful to the code, including what is odd about it:

   * MockFS keeps ONE dictionary keyed both by normalised path and by oid; deleted objects stay in
     it (exists = False) until another object is stored under the same key;
   * store(): the oid key is only written when it is not present yet (mock.py:55);
   * every API call that takes an oid just looks the string up in that dictionary, so a normalised
     path works as an "oid" in every flavour;
   * rename() of a folder moves every dictionary entry whose path is below it — dead ones too —,
     does not refuse a target inside the folder itself, emits one event (for the folder);
   * "folder not empty" is reported with the same exception class as "exists" (CloudFileExistsError).

   Paths are lists of name components ([] is "/"); a name is a non-empty list of code points without
   separator.  Path *strings* that are not in normal form (doubled/trailing separators, the
   alternate separator) are outside this model (the string helpers are property C13).
   File contents are abstract tokens (N); the hash of a file is "H (token)" for an external H and
   the model reports the token itself.  Quota, namespaces, oauth, test locks are left out.

   Exported interface (used by World.v as the ground-truth tree):
     cfg, prov, init, op, val, err, res, step, run_ops, tree_view, events_from. *)
From Coq Require Import NArith List Bool.
From CS Require Import Sx Str.
Import ListNotations.

Definition name := list N.
Definition path := list name.

Inductive key := KId (n : N) | KPath (p : path).
Inductive okind := KFile | KDir.

Record obj := {
  o_path : path;        (* MockFSObject.path, display case *)
  o_oid : key;          (* MockFSObject.oid *)
  o_kind : okind;
  o_data : N;           (* contents token (files) *)
  o_exists : bool
}.

Record cfg := {
  c_oidpath : bool;             (* oid_is_path *)
  c_cs : bool;                  (* case_sensitive *)
  c_forbidden : list N          (* _forbidden_chars *)
}.

Inductive evkind := EvCreate | EvRename | EvUpdate | EvDelete.

(* MockEvent: a snapshot (copy.copy) of the object when the event was registered *)
Record event := {
  e_kind : evkind;
  e_otype : okind;
  e_oid : key;
  e_path : path;
  e_exists : bool;
  e_prior : option key
}.

Record prov := {
  p_cfg : cfg;
  p_heap : list obj;            (* every MockFSObject ever made; a reference is its index *)
  p_dict : list (key * nat);    (* MockFS._objects *)
  p_log : list event;           (* _events, oldest first, append-only *)
  p_cursor : nat                (* _cursor + 1 = number of events already read *)
}.

Inductive err := EExists | ENotFound | ENotEmpty | ENameError | EAssert | EUnspecified.
Inductive res (T : Type) := Ok (v : T) | Err (e : err).
Arguments Ok {T} v.
Arguments Err {T} e.

(* the exception class the code raises: "not empty" is CloudFileExistsError *)
Inductive ecls := CExists | CNotFound | CNameError | CAssert | CUnspecified.
Definition err_class (e : err) : ecls :=
  match e with
  | EExists | ENotEmpty => CExists
  | ENotFound => CNotFound
  | ENameError => CNameError
  | EAssert => CAssert
  | EUnspecified => CUnspecified
  end.

Record info := {
  i_kind : okind;
  i_oid : key;
  i_data : option N;            (* Some token for files: hash = H token; None for folders *)
  i_path : path;
  i_name : name
}.

(* ------------------------------------------------------------------ equality tests *)
Fixpoint path_eqb (a b : path) : bool :=
  match a, b with
  | [], [] => true
  | x :: a', y :: b' => str_eqb x y && path_eqb a' b'
  | _, _ => false
  end.

Definition key_eqb (a b : key) : bool :=
  match a, b with
  | KId x, KId y => N.eqb x y
  | KPath p, KPath q => path_eqb p q
  | _, _ => false
  end.

Definition okind_eqb (a b : okind) : bool :=
  match a, b with KFile, KFile | KDir, KDir => true | _, _ => false end.

(* Provider.normalize_path on a well-formed path *)
Definition np (c : cfg) (p : path) : path :=
  if c_cs c then p else map (map fold_std) p.

(* ------------------------------------------------------------------ dictionary and heap *)
Definition dict := list (key * nat).

Fixpoint dget (k : key) (d : dict) : option nat :=
  match d with
  | [] => None
  | (k', r) :: t => if key_eqb k k' then Some r else dget k t
  end.

Fixpoint dremove (k : key) (d : dict) : dict :=
  match d with
  | [] => []
  | (k', r) :: t => if key_eqb k k' then dremove k t else (k', r) :: dremove k t
  end.

Definition dset (k : key) (r : nat) (d : dict) : dict := (k, r) :: dremove k d.

Definition dmem (k : key) (d : dict) : bool :=
  match dget k d with Some _ => true | None => false end.

Fixpoint hset (h : list obj) (r : nat) (o : obj) : list obj :=
  match h, r with
  | [], _ => []
  | _ :: t, O => o :: t
  | x :: t, S r' => x :: hset t r' o
  end.

Definition with_heap (s : prov) (h : list obj) : prov :=
  {| p_cfg := p_cfg s; p_heap := h; p_dict := p_dict s; p_log := p_log s; p_cursor := p_cursor s |}.
Definition with_dict (s : prov) (d : dict) : prov :=
  {| p_cfg := p_cfg s; p_heap := p_heap s; p_dict := d; p_log := p_log s; p_cursor := p_cursor s |}.
Definition with_log (s : prov) (l : list event) : prov :=
  {| p_cfg := p_cfg s; p_heap := p_heap s; p_dict := p_dict s; p_log := l; p_cursor := p_cursor s |}.
Definition with_cursor (s : prov) (c : nat) : prov :=
  {| p_cfg := p_cfg s; p_heap := p_heap s; p_dict := p_dict s; p_log := p_log s; p_cursor := c |}.

(* MockFS.get *)
Definition get (s : prov) (k : key) : option (nat * obj) :=
  match dget k (p_dict s) with
  | Some r => match nth_error (p_heap s) r with Some o => Some (r, o) | None => None end
  | None => None
  end.

Definition get_live (s : prov) (k : key) : option (nat * obj) :=
  match get s k with
  | Some (r, o) => if o_exists o then Some (r, o) else None
  | None => None
  end.

(* MockProvider._get_by_path *)
Definition pkey (s : prov) (p : path) : key := KPath (np (p_cfg s) p).

(* MockFS.store / unstore (the object is heap cell r, already holding its new path and oid) *)
Definition store (c : cfg) (d : dict) (r : nat) (o : obj) : dict :=
  let d1 := dset (KPath (np c (o_path o))) r d in
  if dmem (o_oid o) d1 then d1 else dset (o_oid o) r d1.

(* None = KeyError -> CloudFileNotFoundError *)
Definition unstore (c : cfg) (d : dict) (o : obj) : option dict :=
  let k := KPath (np c (o_path o)) in
  if dmem k d then Some (dremove (o_oid o) (dremove k d)) else None.

(* MockFS.register_event *)
Definition snapshot (a : evkind) (o : obj) (prior : option key) : event :=
  {| e_kind := a; e_otype := o_kind o; e_oid := o_oid o; e_path := o_path o;
     e_exists := o_exists o; e_prior := prior |}.
Definition emit (s : prov) (e : event) : prov := with_log s (p_log s ++ [e]).

(* ------------------------------------------------------------------ queries *)
Definition info_of (o : obj) : info :=
  {| i_kind := o_kind o; i_oid := o_oid o;
     i_data := match o_kind o with KFile => Some (o_data o) | KDir => None end;
     i_path := o_path o; i_name := last (o_path o) [] |}.

Definition info_oid (s : prov) (k : key) : option info :=
  match get_live s k with Some (_, o) => Some (info_of o) | None => None end.
Definition info_path (s : prov) (p : path) : option info := info_oid s (pkey s p).
Definition exists_oid (s : prov) (k : key) : bool :=
  match get_live s k with Some _ => true | None => false end.
Definition exists_path (s : prov) (p : path) : bool := exists_oid s (pkey s p).
Definition hash_oid (s : prov) (k : key) : option N :=
  match get_live s k with Some (_, o) => i_data (info_of o) | None => None end.

(* MockFS.fs_objects: one entry per dictionary key that is a path (an object filed under two
   path keys comes twice) *)
Definition fs_refs (s : prov) : list nat :=
  flat_map (fun kr => match fst kr with KPath _ => [snd kr] | KId _ => [] end) (p_dict s).

(* is_subpath(parent, p, strict) with a one-component remainder *)
Definition is_child (c : cfg) (parent p : path) : bool :=
  match p with
  | [] => false
  | _ => path_eqb (np c (removelast p)) (np c parent)
  end.

(* is_subpath(old, p, strict): p strictly below old *)
Definition is_under (c : cfg) (old p : path) : bool :=
  Nat.ltb (length old) (length p) && path_eqb (np c (firstn (length old) p)) (np c old).

Definition children (s : prov) (parent : path) : list info :=
  flat_map (fun r => match nth_error (p_heap s) r with
                     | Some x => if o_exists x && is_child (p_cfg s) parent (o_path x) then [info_of x] else []
                     | None => []
                     end) (fs_refs s).

Definition listdir (s : prov) (k : key) : res (list info) :=
  match get_live s k with
  | Some (_, o) => match o_kind o with KDir => Ok (children s (o_path o)) | KFile => Err ENotFound end
  | None => Err ENotFound
  end.

Definition download (s : prov) (k : key) : res N :=
  match get_live s k with
  | Some (_, o) => match o_kind o with KFile => Ok (o_data o) | KDir => Err EExists end
  | None => Err ENotFound
  end.

(* Provider._verify_parent_folder_exists *)
Definition verify_parent (s : prov) (p : path) : option err :=
  match p with
  | [] | [_] => None
  | _ => match info_path s (removelast p) with
         | None => Some ENotFound
         | Some i => match i_kind i with KDir => None | KFile => Some EExists end
         end
  end.

Definition has_forbidden (c : cfg) (p : path) : bool :=
  existsb (fun n => existsb (fun ch => existsb (N.eqb ch) (c_forbidden c)) n) p.

(* ------------------------------------------------------------------ mutations *)
Definition alloc (s : prov) (p : path) (kd : okind) (d : N) : prov * obj :=
  let r := length (p_heap s) in
  let o := {| o_path := p;
              o_oid := if c_oidpath (p_cfg s) then KPath p else KId (N.of_nat r);
              o_kind := kd; o_data := d; o_exists := true |} in
  let s1 := with_dict (with_heap s (p_heap s ++ [o])) (store (p_cfg s) (p_dict s) r o) in
  (emit s1 (snapshot EvCreate o None), o).

Definition create (s : prov) (p : path) (d : N) : prov * res info :=
  if has_forbidden (p_cfg s) p then (s, Err ENameError) else
  match info_path s p with
  | Some _ => (s, Err EExists)
  | None =>
    match verify_parent s p with
    | Some e => (s, Err e)
    | None => let (s1, o) := alloc s p KFile d in (s1, Ok (info_of o))
    end
  end.

Definition mkdir (s : prov) (p : path) : prov * res key :=
  match verify_parent s p with
  | Some e => (s, Err e)
  | None =>
    if has_forbidden (p_cfg s) p then (s, Err ENameError) else
    match info_path s p with
    | Some i => match i_kind i with KFile => (s, Err EExists) | KDir => (s, Ok (i_oid i)) end
    | None => let (s1, o) := alloc s p KDir 0%N in (s1, Ok (o_oid o))
    end
  end.

Definition set_exists (o : obj) (b : bool) : obj :=
  {| o_path := o_path o; o_oid := o_oid o; o_kind := o_kind o; o_data := o_data o; o_exists := b |}.
Definition set_data (o : obj) (d : N) : obj :=
  {| o_path := o_path o; o_oid := o_oid o; o_kind := o_kind o; o_data := d; o_exists := o_exists o |}.
Definition set_place (o : obj) (p : path) (k : key) : obj :=
  {| o_path := p; o_oid := k; o_kind := o_kind o; o_data := o_data o; o_exists := o_exists o |}.

(* MockProvider._delete: a missing or dead oid is ignored *)
Definition delete (s : prov) (k : key) : prov * res unit :=
  match get_live s k with
  | None => (s, Ok tt)
  | Some (r, o) =>
    let go := let o' := set_exists o false in
              (emit (with_heap s (hset (p_heap s) r o')) (snapshot EvDelete o' None), Ok tt) in
    match o_kind o with
    | KFile => go
    | KDir => match listdir s (o_oid o) with
              | Err e => (s, Err e)
              | Ok [] => go
              | Ok (_ :: _) => (s, Err ENotEmpty)
              end
    end
  end.

Definition upload (s : prov) (k : key) (d : N) : prov * res info :=
  match get_live s k with
  | None => (s, Err ENotFound)
  | Some (r, o) =>
    match o_kind o with
    | KDir => (s, Err EExists)
    | KFile => let o' := set_data o d in
               (emit (with_heap s (hset (p_heap s) r o')) (snapshot EvUpdate o' None), Ok (info_of o'))
    end
  end.

(* MockProvider._rename_single_object; None = KeyError in unstore *)
Definition rename_single (s : prov) (r : nat) (dest : path) (ev : bool) : option prov :=
  match nth_error (p_heap s) r with
  | None => None
  | Some o =>
    let c := p_cfg s in
    match unstore c (p_dict s) o with
    | None => None
    | Some d1 =>
      let o' := set_place o dest (if c_oidpath c then KPath dest else o_oid o) in
      let s1 := with_dict (with_heap s (hset (p_heap s) r o')) (store c d1 r o') in
      Some (if ev then emit s1 (snapshot EvRename o' (if c_oidpath c then Some (o_oid o) else None)) else s1)
    end
  end.

Fixpoint dedup (l : list nat) : list nat :=
  match l with
  | [] => []
  | x :: t => if existsb (Nat.eqb x) t then dedup t else x :: dedup t
  end.

(* the heap cells a folder rename moves besides the folder: set(fs_objects()) filtered by is_subpath *)
Definition moved_refs (s : prov) (old : path) : list nat :=
  dedup (filter (fun r => match nth_error (p_heap s) r with
                          | Some x => is_under (p_cfg s) old (o_path x)
                          | None => false
                          end) (fs_refs s)).

Definition new_path (old dest : path) (x : obj) : path := dest ++ skipn (length old) (o_path x).

(* The loop of rename() runs over a Python set, i.e. in an arbitrary order.  Its result does not
   depend on the order when (1) every moved object is filed under its own normalised path,
   (2) the moved objects have pairwise different normalised paths, (3) no key written for one
   object is a key removed for another one.  Otherwise the model answers EUnspecified. *)
Definition own_key_ok (s : prov) (r : nat) : bool :=
  match nth_error (p_heap s) r with
  | Some x => match dget (KPath (np (p_cfg s) (o_path x))) (p_dict s) with
              | Some r' => Nat.eqb r r'
              | None => false
              end
  | None => false
  end.

Definition old_keys (c : cfg) (x : obj) : list key := [KPath (np c (o_path x)); o_oid x].
Definition new_keys (c : cfg) (old dest : path) (x : obj) : list key :=
  let q := new_path old dest x in [KPath (np c q); if c_oidpath c then KPath q else o_oid x].

Definition keys_disjoint (a b : list key) : bool :=
  forallb (fun k => negb (existsb (key_eqb k) b)) a.

Definition pair_ok (c : cfg) (old dest : path) (x y : obj) : bool :=
  negb (path_eqb (np c (o_path x)) (np c (o_path y)))
  && keys_disjoint (old_keys c x) (new_keys c old dest y)
  && keys_disjoint (old_keys c y) (new_keys c old dest x).

Fixpoint all_pairs {T} (f : T -> T -> bool) (l : list T) : bool :=
  match l with
  | [] => true
  | x :: t => forallb (f x) t && all_pairs f t
  end.

Definition move_specified (s : prov) (r : nat) (old dest : path) : bool :=
  let refs := moved_refs s old ++ [r] in
  let objs := flat_map (fun q => match nth_error (p_heap s) q with Some x => [x] | None => [] end) refs in
  forallb (own_key_ok s) refs && all_pairs (pair_ok (p_cfg s) old dest) objs.

Fixpoint move_all (s : prov) (refs : list nat) (old dest : path) : option prov :=
  match refs with
  | [] => Some s
  | q :: t =>
    match nth_error (p_heap s) q with
    | None => None
    | Some x => match rename_single s q (new_path old dest x) false with
                | None => None
                | Some s1 => move_all s1 t old dest
                end
    end
  end.

Definition rename (s : prov) (k : key) (p : path) : prov * res key :=
  match get_live s k with
  | None => (s, Err ENotFound)
  | Some (r, o) =>
    let c := p_cfg s in
    (* possible_conflict; "possible_conflict.oid == oid" compares with the argument *)
    let pc := match get s (pkey s p) with
              | Some (_, x) => if key_eqb (o_oid x) k then None else (if o_exists x then Some x else None)
              | None => None
              end in
    match verify_parent s p with
    | Some e => (s, Err e)
    | None =>
      let conflict : option err :=
        match pc with
        | None => None
        | Some x =>
          if negb (okind_eqb (o_kind x) (o_kind o)) then Some EExists else
          match o_kind x with
          | KFile => Some EExists
          | KDir => match listdir s (o_oid x) with
                    | Err e => Some e
                    | Ok [] => None
                    | Ok (_ :: _) => Some ENotEmpty
                    end
          end
        end in
      match conflict with
      | Some e => (s, Err e)
      | None =>
        (* self.delete(possible_conflict.oid) *)
        let del := match pc with Some x => delete s (o_oid x) | None => (s, Ok tt) end in
        match del with
        | (_, Err e) => (s, Err e)
        | (s1, Ok _) =>
          if path_eqb (o_path o) p then (s1, Ok k) else
          match p with
          | [] => (s, Err EUnspecified)       (* the code stores the path "" here *)
          | _ =>
            let prior := o_oid o in
            let finish (s2 : prov) : prov * res key :=
              match nth_error (p_heap s2) r with
              | None => (s2, Err EUnspecified)
              | Some o2 =>
                if c_oidpath c
                then (if key_eqb (o_oid o2) prior then (s2, Err EAssert) else (s2, Ok (o_oid o2)))
                else (if key_eqb (o_oid o2) k then (s2, Ok (o_oid o2)) else (s2, Err EAssert))
              end in
            match o_kind o with
            | KFile =>
              match rename_single s1 r p true with
              | None => (s1, Err ENotFound)
              | Some s2 => finish s2
              end
            | KDir =>
              if negb (move_specified s1 r (o_path o) p) then (s, Err EUnspecified) else
              match move_all s1 (moved_refs s1 (o_path o)) (o_path o) p with
              | None => (s, Err EUnspecified)
              | Some s2 => match rename_single s2 r p true with
                           | None => (s, Err EUnspecified)
                           | Some s3 => finish s3
                           end
              end
            end
          end
        end
      end
    end
  end.

(* events(): everything after the cursor; a cursor beyond the log yields nothing and stays *)
Definition events_from (s : prov) : list event := skipn (p_cursor s) (p_log s).
Definition read_events (s : prov) : prov * list event :=
  if Nat.leb (p_cursor s) (length (p_log s))
  then (with_cursor s (length (p_log s)), events_from s)
  else (s, []).

(* ------------------------------------------------------------------ the live tree *)
Fixpoint str_leb (a b : list N) : bool :=
  match a, b with
  | [], _ => true
  | _ :: _, [] => false
  | x :: a', y :: b' => if N.eqb x y then str_leb a' b' else N.ltb x y
  end.
Fixpoint path_leb (a b : path) : bool :=
  match a, b with
  | [], _ => true
  | _ :: _, [] => false
  | x :: a', y :: b' => if str_eqb x y then path_leb a' b' else str_leb x y
  end.

Definition entry := (path * (okind * N))%type.
Fixpoint insert_entry (e : entry) (l : list entry) : list entry :=
  match l with
  | [] => [e]
  | x :: t => if path_leb (fst e) (fst x) then e :: l else x :: insert_entry e t
  end.
Definition sort_entries (l : list entry) : list entry := fold_right insert_entry [] l.

(* every live object filed under a path key, once, sorted by its (display) path *)
Definition tree_view (s : prov) : list entry :=
  sort_entries
    (flat_map (fun r => match nth_error (p_heap s) r with
                        | Some x => if o_exists x then [(o_path x, (o_kind x, o_data x))] else []
                        | None => []
                        end) (dedup (fs_refs s))).

Inductive op_shape := SRename (k : key) (p : path) | SDelete (k : key) | SUpload (k : key) | SOther.

(* ------------------------------------------------------------------ well-formedness, executable *)
(* the calls an engine makes: oids are oids (not paths, for id-style), the root is neither renamed
   nor deleted nor a rename target, a folder is not renamed into its own subtree *)
Definition key_genuine (c : cfg) (k : key) : bool :=
  match k with KId _ => negb (c_oidpath c) | KPath _ => c_oidpath c end.

Definition clean_op (s : prov) (o : op_shape) : bool :=
  match o with
  | SRename k p =>
    key_genuine (p_cfg s) k &&
    match p with [] => false | _ => true end &&
    match get_live s k with
    | Some (_, x) => match o_path x with [] => false | _ => true end
                     && negb (is_under (p_cfg s) (o_path x) p)
    | None => true
    end
  | SDelete k =>
    key_genuine (p_cfg s) k &&
    match get_live s k with
    | Some (_, x) => match o_path x with [] => false | _ => true end
    | None => true
    end
  | SUpload k => key_genuine (p_cfg s) k
  | SOther => true
  end.

Definition live_ok (s : prov) (r : nat) (x : obj) : bool :=
  own_key_ok s r
  && match dget (o_oid x) (p_dict s) with Some r' => Nat.eqb r r' | None => false end
  && (if c_oidpath (p_cfg s) then key_eqb (o_oid x) (KPath (o_path x)) else key_eqb (o_oid x) (KId (N.of_nat r)))
  && match o_path x with
     | [] => match o_kind x with KDir => true | KFile => false end
     | _ => match info_path s (removelast (o_path x)) with
            | Some i => match i_kind i with KDir => true | KFile => false end
            | None => false
            end
     end.

Fixpoint nodupb (l : list nat) : bool :=
  match l with
  | [] => true
  | x :: t => negb (existsb (Nat.eqb x) t) && nodupb t
  end.

Definition is_live (s : prov) (r : nat) : bool :=
  match nth_error (p_heap s) r with Some x => o_exists x | None => false end.

(* root is a live folder; every live object is filed under its own normalised path and under its
   oid, has the oid its flavour prescribes and a live folder as parent; no live object is listed twice *)
Definition wfb (s : prov) : bool :=
  match get_live s (pkey s []) with
  | Some (_, o) => match o_path o with [] => true | _ => false end
  | None => false
  end
  && forallb (fun r => match nth_error (p_heap s) r with
                       | Some x => if o_exists x then live_ok s r x else true
                       | None => false
                       end) (seq 0 (length (p_heap s)))
  && nodupb (filter (is_live s) (fs_refs s)).

(* ------------------------------------------------------------------ the step function *)
Definition init (c : cfg) : prov :=
  let root := {| o_path := []; o_oid := if c_oidpath c then KPath [] else KId 0%N;
                 o_kind := KDir; o_data := 0%N; o_exists := true |} in
  {| p_cfg := c; p_heap := [root]; p_dict := store c [] 0 root; p_log := []; p_cursor := 0 |}.

Inductive op :=
| OCreate (p : path) (d : N)
| OMkdir (p : path)
| ORename (k : key) (p : path)
| OUpload (k : key) (d : N)
| ODelete (k : key)
| OInfoPath (p : path)
| OInfoOid (k : key)
| OListdir (k : key)
| OExistsPath (p : path)
| OExistsOid (k : key)
| ODownload (k : key)
| OHashOid (k : key)
| OEvents
| OSetCursor (c : option nat)
| OTree.

Definition shape_of (o : op) : op_shape :=
  match o with
  | ORename k p => SRename k p
  | ODelete k => SDelete k
  | OUpload k _ => SUpload k
  | _ => SOther
  end.

Inductive val :=
| VInfo (i : info)
| VInfoOpt (i : option info)
| VOid (k : key)
| VUnit
| VBool (b : bool)
| VList (l : list info)
| VData (d : N)
| VHashOpt (h : option N)
| VEvents (l : list event)
| VTree (l : list entry).

Definition rmap {T U} (f : T -> U) (x : prov * res T) : prov * res U :=
  match x with
  | (s, Ok v) => (s, Ok (f v))
  | (s, Err e) => (s, Err e)
  end.

Definition step (s : prov) (o : op) : prov * res val :=
  match o with
  | OCreate p d => rmap VInfo (create s p d)
  | OMkdir p => rmap VOid (mkdir s p)
  | ORename k p => rmap VOid (rename s k p)
  | OUpload k d => rmap VInfo (upload s k d)
  | ODelete k => rmap (fun _ => VUnit) (delete s k)
  | OInfoPath p => (s, Ok (VInfoOpt (info_path s p)))
  | OInfoOid k => (s, Ok (VInfoOpt (info_oid s k)))
  | OListdir k => rmap VList (s, listdir s k)
  | OExistsPath p => (s, Ok (VBool (exists_path s p)))
  | OExistsOid k => (s, Ok (VBool (exists_oid s k)))
  | ODownload k => rmap VData (s, download s k)
  | OHashOid k => (s, Ok (VHashOpt (hash_oid s k)))
  | OEvents => let (s1, l) := read_events s in (s1, Ok (VEvents l))
  | OSetCursor None => (with_cursor s (length (p_log s)), Ok VUnit)
  | OSetCursor (Some c) => (with_cursor s c, Ok VUnit)
  | OTree => (s, Ok (VTree (tree_view s)))
  end.

Fixpoint run_ops (s : prov) (ops : list op) : prov * list (res val * list event) :=
  match ops with
  | [] => (s, [])
  | o :: t =>
    let (s1, r) := step s o in
    let (s2, rs) := run_ops s1 t in
    (s2, (r, skipn (length (p_log s)) (p_log s1)) :: rs)
  end.

(* the same run, reporting per call: was the call clean in the state it met, is the state after it wf *)
Fixpoint run_flags (s : prov) (ops : list op) : list (bool * bool) :=
  match ops with
  | [] => []
  | o :: t => let s1 := fst (step s o) in (clean_op s (shape_of o), wfb s1) :: run_flags s1 t
  end.

Fixpoint clean_run (s : prov) (ops : list op) : bool :=
  match ops with
  | [] => true
  | o :: t => clean_op s (shape_of o) && clean_run (fst (step s o)) t
  end.

(* the flavours whose dictionary keys cannot clash: not (oid_is_path and case-insensitive) *)
Definition sane_cfg (c : cfg) : bool := negb (c_oidpath c) || c_cs c.

(* The guard of the unbounded well-formedness theorem (ProvWf.v / ProvRename.v): a predicate on the
   call given the state it meets.  It excludes
     - a rename whose target lies strictly inside the renamed object's own subtree (finding C16-F5;
       a rename of the root to any other path is such a rename),
     - the removal of the root folder: delete of the root, and "/" as a rename target.
   Nothing is asked of the keys (a path string used as an oid is allowed), of uploads, creates, queries. *)
Definition nonroot (p : path) : bool := match p with [] => false | _ => true end.

Definition guard_op (s : prov) (o : op) : bool :=
  match o with
  | ORename k p =>
    nonroot p && match get_live s k with
                 | Some (_, x) => negb (is_under (p_cfg s) (o_path x) p)
                 | None => true
                 end
  | ODelete k => match get_live s k with Some (_, x) => nonroot (o_path x) | None => true end
  | _ => true
  end.

Fixpoint guarded_run (s : prov) (ops : list op) : bool :=
  match ops with
  | [] => true
  | o :: t => guard_op s o && guarded_run (fst (step s o)) t
  end.

(* ------------------------------------------------------------------ Provider.connect *)
(* The connection_id check of Provider.connect as a state machine.  [ident] is what connect_impl
   answers for the credentials (the identity they belong to); None = connect_impl raises
   CloudTokenError (no credentials). *)
Record conn := {
  cn_id : option N;             (* connection_id *)
  cn_connected : bool;          (* __connected *)
  cn_creds : option N           (* _creds *)
}.
Definition conn_init : conn := {| cn_id := None; cn_connected := false; cn_creds := None |}.
Definition connected (c : conn) : bool :=
  match cn_id c with Some _ => cn_connected c | None => false end.

Inductive cop := CConnect (creds : option N) | CDisconnect | CReconnect | CSetId (i : option N).
Inductive cres := CROk | CRToken.

Definition connect (ident : N -> N) (c : conn) (creds : option N) : conn * cres :=
  let c1 := {| cn_id := cn_id c; cn_connected := cn_connected c; cn_creds := creds |} in
  match creds with
  | None => (c1, CRToken)
  | Some cr =>
    let new_id := ident cr in
    match cn_id c1 with
    | Some i => if N.eqb i new_id
                then ({| cn_id := Some i; cn_connected := true; cn_creds := creds |}, CROk)
                else ({| cn_id := Some i; cn_connected := false; cn_creds := creds |}, CRToken)
    | None => ({| cn_id := Some new_id; cn_connected := true; cn_creds := creds |}, CROk)
    end
  end.

Definition cstep (ident : N -> N) (c : conn) (o : cop) : conn * cres :=
  match o with
  | CConnect creds => connect ident c creds
  | CDisconnect => ({| cn_id := cn_id c; cn_connected := false; cn_creds := cn_creds c |}, CROk)
  | CReconnect => if cn_connected c then (c, CROk) else connect ident c (cn_creds c)
  | CSetId i => ({| cn_id := i; cn_connected := cn_connected c; cn_creds := cn_creds c |}, CROk)
  end.

Fixpoint crun (ident : N -> N) (c : conn) (ops : list cop) : list (cres * bool * option N) :=
  match ops with
  | [] => []
  | o :: t => let (c1, r) := cstep ident c o in (r, connected c1, cn_id c1) :: crun ident c1 t
  end.

(* ------------------------------------------------------------------ wire protocol *)
Definition sx_name (n : name) : sx := sx_str n.
Definition sx_path (p : path) : sx := sx_list sx_name p.
Definition sx_key (k : key) : sx :=
  match k with KId n => L [A 0; A n] | KPath p => L [A 1; sx_path p] end.
Definition sx_kind (k : okind) : sx := match k with KFile => A 0 | KDir => A 1 end.
Definition sx_info (i : info) : sx :=
  L [sx_kind (i_kind i); sx_key (i_oid i); sx_opt A (i_data i); sx_path (i_path i); sx_name (i_name i)].
Definition sx_evkind (k : evkind) : sx :=
  match k with EvCreate => A 0 | EvRename => A 1 | EvUpdate => A 2 | EvDelete => A 3 end.
Definition sx_event (e : event) : sx :=
  L [sx_evkind (e_kind e); sx_kind (e_otype e); sx_key (e_oid e); sx_path (e_path e);
     sx_bool (e_exists e); sx_opt sx_key (e_prior e)].
Definition sx_entry (e : entry) : sx :=
  L [sx_path (fst e); sx_kind (fst (snd e)); A (snd (snd e))].
Definition sx_err (e : err) : sx :=
  let cl := match err_class e with
            | CExists => 1 | CNotFound => 2 | CNameError => 3 | CAssert => 4 | CUnspecified => 5 end%N in
  let fine := match e with
              | EExists => 1 | ENotFound => 2 | ENotEmpty => 3 | ENameError => 4 | EAssert => 5
              | EUnspecified => 6 end%N in
  L [A 1; A cl; A fine].
Definition sx_val (v : val) : sx :=
  match v with
  | VInfo i => sx_info i
  | VInfoOpt i => sx_opt sx_info i
  | VOid k => sx_key k
  | VUnit => L []
  | VBool b => sx_bool b
  | VList l => sx_list sx_info l
  | VData d => A d
  | VHashOpt h => sx_opt A h
  | VEvents l => sx_list sx_event l
  | VTree l => sx_list sx_entry l
  end.
Definition sx_resval (r : res val) : sx :=
  match r with Ok v => L [A 0; sx_val v] | Err e => sx_err e end.

Definition un_path (x : sx) : option path := un_list un_str x.
Definition un_key (x : sx) : option key :=
  match x with
  | L [A 0; A n] => Some (KId n)
  | L [A 1; p] => match un_path p with Some p => Some (KPath p) | None => None end
  | _ => None
  end.
Definition un_cfg (x : sx) : option cfg :=
  match x with
  | L [a; b; f] =>
    match un_bool a, un_bool b, un_str f with
    | Some a, Some b, Some f => Some {| c_oidpath := a; c_cs := b; c_forbidden := f |}
    | _, _, _ => None
    end
  | _ => None
  end.
Definition un_op (x : sx) : option op :=
  match x with
  | L [A 0; p; A d] => match un_path p with Some p => Some (OCreate p d) | None => None end
  | L [A 1; p] => match un_path p with Some p => Some (OMkdir p) | None => None end
  | L [A 2; k; p] => match un_key k, un_path p with Some k, Some p => Some (ORename k p) | _, _ => None end
  | L [A 3; k; A d] => match un_key k with Some k => Some (OUpload k d) | None => None end
  | L [A 4; k] => match un_key k with Some k => Some (ODelete k) | None => None end
  | L [A 5; p] => match un_path p with Some p => Some (OInfoPath p) | None => None end
  | L [A 6; k] => match un_key k with Some k => Some (OInfoOid k) | None => None end
  | L [A 7; k] => match un_key k with Some k => Some (OListdir k) | None => None end
  | L [A 8; p] => match un_path p with Some p => Some (OExistsPath p) | None => None end
  | L [A 9; k] => match un_key k with Some k => Some (OExistsOid k) | None => None end
  | L [A 10; k] => match un_key k with Some k => Some (ODownload k) | None => None end
  | L [A 11; k] => match un_key k with Some k => Some (OHashOid k) | None => None end
  | L [A 12] => Some OEvents
  | L [A 13; c] => match un_opt un_atom c with
                   | Some c => Some (OSetCursor (option_map N.to_nat c))
                   | None => None
                   end
  | L [A 14] => Some OTree
  | _ => None
  end.
Definition un_cop (x : sx) : option cop :=
  match x with
  | L [A 0; c] => match un_opt un_atom c with Some c => Some (CConnect c) | None => None end
  | L [A 1] => Some CDisconnect
  | L [A 2] => Some CReconnect
  | L [A 3; i] => match un_opt un_atom i with Some i => Some (CSetId i) | None => None end
  | _ => None
  end.

(* request (0 cfg ops)  -> ((result appended-events) per op) ((clean wf-after) per op)
   request (1 cops)     -> one (result connected connection_id) per op; identity of creds n is n *)
Definition run (x : sx) : sx :=
  match x with
  | L [A 0; c; ops] =>
    match un_cfg c, un_list un_op ops with
    | Some c, Some ops =>
      L [sx_list (fun re => L [sx_resval (fst re); sx_list sx_event (snd re)]) (snd (run_ops (init c) ops));
         sx_list (fun f => L [sx_bool (fst f); sx_bool (snd f)]) (run_flags (init c) ops)]
    | _, _ => sx_malformed
    end
  | L [A 1; ops] =>
    match un_list un_cop ops with
    | Some ops =>
      sx_list (fun t => match t with
                        | (r, b, i) => L [match r with CROk => A 0 | CRToken => A 1 end; sx_bool b; sx_opt A i]
                        end) (crun (fun n => n) conn_init ops)
    | None => sx_malformed
    end
  | _ => sx_malformed
  end.
