(* StateModel.v — executable model of cloudsync/sync/state.py (SideState / SyncEntry / SyncState):
   entry table, per-side oid and (path, oid) indexes, change set, dirty set, and the
   attribute-interception discipline (every field write goes through SyncState.updated).
   Definitions only.  Conventions:
   * entries are identified by creation serial (eid = position in [ents]); entries are never
     removed from [ents] (Python keeps them alive as long as somebody holds them).
   * Python dicts = association lists in insertion order; Python sets of entries = sorted lists.
   * the two places where the code iterates a hash-ordered set with order-dependent effects
     (set([old_oid, new_oid]) in _change_oid, get_all() in get_kids) take the order from a
     tape recorded on the real run; the theorems quantify over all tapes.
   * recursion through the setters (children of a renamed folder, ousted entries, the
     changed-flag repair) is structural on an explicit fuel; out of fuel = Err ERecursion.
   * times are in 1/1000 of the virtual clock's unit (mark_changed adds 0.001).
   * providers appear only as: oid_is_path, path helpers (PathModel), info_path as a function.
   Not modelled: Exists.CORRUPT/_saved_exists, size, mtime, temp_file, _last_gotten, storage,
   prioritize other than the default (constant 0). *)
From Coq Require Import NArith List Bool Arith.
From CS Require Import Sx Str PathModel.
Import ListNotations.

Definition eid := nat.
Inductive otype := Dir | File | NotKnown.
Inductive exst := ExUnknown | ExExists | ExTrashed | ExMissing | ExLikely.
Inductive ign := INone | IDiscarded | IConflict | ITemp | IIrrelevant.
Inductive chg := CNone | CFalse | CNum (n : N).

Record sidest := mkSide {
  s_otype : otype; s_oid : option str; s_path : option str; s_hash : option N;
  s_spath : option str; s_shash : option N; s_ex : exst; s_chg : chg; s_force : bool }.
Record entry := mkEnt { e_l : sidest; e_r : sidest; e_ign : ign; e_prio : N }.

Definition oidx := list (str * eid).
Definition pidx := list (str * oidx).
Inductive titem := TSwap (b : bool) | TOrder (l : list eid).

Record state := mkState {
  ents : list entry;
  oidsL : oidx; oidsR : oidx;
  pathsL : pidx; pathsR : pidx;
  cset : list eid; dirty : list eid;
  now : N; lastch : N;
  tape : list titem }.

Record env := mkEnv {
  oip : bool -> bool;              (* provider.oid_is_path, per side (false = LOCAL) *)
  cvs : bool -> conv;              (* path convention of the provider *)
  punt : bool -> N;                (* _punt_secs, in 1/1000 *)
  info : bool -> str -> option str;(* provider.info_path(p).oid, None = no info *)
  legacy : bool                    (* true = the code before /repo commits 029c8f6 and ccb41ee (model variant kept
                                      for the refuted termination statements); false = the code as it is *) }.

Inductive err := ERecursion | EAssert | EKey | ETape | EBad.
Inductive res (T : Type) := Ok (x : T) | Err (e : err).
Arguments Ok {T}. Arguments Err {T}.
Definition bind {A B} (r : res A) (f : A -> res B) : res B :=
  match r with Ok x => f x | Err e => Err e end.
Notation "x <- a ;; b" := (bind a (fun x => b)) (at level 61, a at next level, right associativity).

(* ---------------------------------------------------------------- small helpers *)
Definition tstr (o : option str) : bool := match o with Some (_ :: _) => true | _ => false end.
Definition tchg (c : chg) : bool := match c with CNum n => negb (N.eqb n 0) | _ => false end.
Definition thash (o : option N) : bool := match o with Some _ => true | None => false end.
Definition ostr_eqb (a b : option str) : bool :=
  match a, b with
  | None, None => true
  | Some x, Some y => str_eqb x y
  | _, _ => false
  end.
Definition oN_eqb (a b : option N) : bool :=
  match a, b with
  | None, None => true
  | Some x, Some y => N.eqb x y
  | _, _ => false
  end.
Definition otype_eqb (a b : otype) : bool :=
  match a, b with Dir, Dir | File, File | NotKnown, NotKnown => true | _, _ => false end.
Definition ign_eqb (a b : ign) : bool :=
  match a, b with
  | INone, INone | IDiscarded, IDiscarded | IConflict, IConflict | ITemp, ITemp | IIrrelevant, IIrrelevant => true
  | _, _ => false
  end.
Definition is_discarded (i : ign) : bool := match i with IDiscarded | IIrrelevant => true | _ => false end.
Definition is_conflicted (i : ign) : bool := match i with IConflict => true | _ => false end.

Fixpoint al_get {V} (k : str) (l : list (str * V)) : option V :=
  match l with
  | [] => None
  | (k', v) :: r => if str_eqb k k' then Some v else al_get k r
  end.
Fixpoint al_set {V} (k : str) (v : V) (l : list (str * V)) : list (str * V) :=
  match l with
  | [] => [(k, v)]
  | (k', v') :: r => if str_eqb k k' then (k', v) :: r else (k', v') :: al_set k v r
  end.
(* dict.pop(k, None): keys are unique in lists built by al_set, so removing every binding of k
   is the same as removing the one that is there *)
Fixpoint al_del {V} (k : str) (l : list (str * V)) : list (str * V) :=
  match l with
  | [] => []
  | (k', v') :: r => if str_eqb k k' then al_del k r else (k', v') :: al_del k r
  end.

Fixpoint set_mem (e : eid) (l : list eid) : bool :=
  match l with [] => false | x :: r => Nat.eqb e x || set_mem e r end.
Fixpoint set_add (e : eid) (l : list eid) : list eid :=
  match l with
  | [] => [e]
  | x :: r => if Nat.eqb e x then l else if Nat.ltb e x then e :: l else x :: set_add e r
  end.
Definition set_del (e : eid) (l : list eid) : list eid := filter (fun x => negb (Nat.eqb e x)) l.
Definition set_of (l : list eid) : list eid := fold_right set_add [] l.
Fixpoint eids_eqb (a b : list eid) : bool :=
  match a, b with
  | [], [] => true
  | x :: a', y :: b' => Nat.eqb x y && eids_eqb a' b'
  | _, _ => false
  end.

(* ---------------------------------------------------------------- record plumbing *)
Definition gs (en : entry) (sd : bool) : sidest := if sd then e_r en else e_l en.
Definition ss (en : entry) (sd : bool) (x : sidest) : entry :=
  if sd then mkEnt (e_l en) x (e_ign en) (e_prio en) else mkEnt x (e_r en) (e_ign en) (e_prio en).

Definition w_otype (x : sidest) v := mkSide v (s_oid x) (s_path x) (s_hash x) (s_spath x) (s_shash x) (s_ex x) (s_chg x) (s_force x).
Definition w_oid (x : sidest) v := mkSide (s_otype x) v (s_path x) (s_hash x) (s_spath x) (s_shash x) (s_ex x) (s_chg x) (s_force x).
Definition w_path (x : sidest) v := mkSide (s_otype x) (s_oid x) v (s_hash x) (s_spath x) (s_shash x) (s_ex x) (s_chg x) (s_force x).
Definition w_hash (x : sidest) v := mkSide (s_otype x) (s_oid x) (s_path x) v (s_spath x) (s_shash x) (s_ex x) (s_chg x) (s_force x).
Definition w_spath (x : sidest) v := mkSide (s_otype x) (s_oid x) (s_path x) (s_hash x) v (s_shash x) (s_ex x) (s_chg x) (s_force x).
Definition w_shash (x : sidest) v := mkSide (s_otype x) (s_oid x) (s_path x) (s_hash x) (s_spath x) v (s_ex x) (s_chg x) (s_force x).
Definition w_ex (x : sidest) v := mkSide (s_otype x) (s_oid x) (s_path x) (s_hash x) (s_spath x) (s_shash x) v (s_chg x) (s_force x).
Definition w_chg (x : sidest) v := mkSide (s_otype x) (s_oid x) (s_path x) (s_hash x) (s_spath x) (s_shash x) (s_ex x) v (s_force x).
Definition w_force (x : sidest) v := mkSide (s_otype x) (s_oid x) (s_path x) (s_hash x) (s_spath x) (s_shash x) (s_ex x) (s_chg x) v.

Definition new_side (t : otype) : sidest := mkSide t None None None None None ExUnknown CNone false.
Definition new_entry (t : otype) : entry := mkEnt (new_side t) (new_side t) INone 0%N.

Definition st_ents (s : state) v := mkState v (oidsL s) (oidsR s) (pathsL s) (pathsR s) (cset s) (dirty s) (now s) (lastch s) (tape s).
Definition st_cset (s : state) v := mkState (ents s) (oidsL s) (oidsR s) (pathsL s) (pathsR s) v (dirty s) (now s) (lastch s) (tape s).
Definition st_dirty (s : state) v := mkState (ents s) (oidsL s) (oidsR s) (pathsL s) (pathsR s) (cset s) v (now s) (lastch s) (tape s).
Definition st_now (s : state) v := mkState (ents s) (oidsL s) (oidsR s) (pathsL s) (pathsR s) (cset s) (dirty s) v (lastch s) (tape s).
Definition st_lastch (s : state) v := mkState (ents s) (oidsL s) (oidsR s) (pathsL s) (pathsR s) (cset s) (dirty s) (now s) v (tape s).
Definition st_tape (s : state) v := mkState (ents s) (oidsL s) (oidsR s) (pathsL s) (pathsR s) (cset s) (dirty s) (now s) (lastch s) v.
Definition oids (s : state) (sd : bool) : oidx := if sd then oidsR s else oidsL s.
Definition paths (s : state) (sd : bool) : pidx := if sd then pathsR s else pathsL s.
Definition st_oids (s : state) (sd : bool) (v : oidx) : state :=
  if sd then mkState (ents s) (oidsL s) v (pathsL s) (pathsR s) (cset s) (dirty s) (now s) (lastch s) (tape s)
  else mkState (ents s) v (oidsR s) (pathsL s) (pathsR s) (cset s) (dirty s) (now s) (lastch s) (tape s).
Definition st_paths (s : state) (sd : bool) (v : pidx) : state :=
  if sd then mkState (ents s) (oidsL s) (oidsR s) (pathsL s) v (cset s) (dirty s) (now s) (lastch s) (tape s)
  else mkState (ents s) (oidsL s) (oidsR s) v (pathsR s) (cset s) (dirty s) (now s) (lastch s) (tape s).

Definition init_state : state := mkState [] [] [] [] [] [] [] 2000%N 2000%N [].

Definition get_ent (s : state) (e : eid) : res entry :=
  match nth_error (ents s) e with Some x => Ok x | None => Err EBad end.
Fixpoint list_upd {T} (l : list T) (n : nat) (x : T) : list T :=
  match l, n with
  | [], _ => []
  | _ :: r, O => x :: r
  | y :: r, S n' => y :: list_upd r n' x
  end.
Definition put_ent (s : state) (e : eid) (x : entry) : state := st_ents s (list_upd (ents s) e x).
(* raw write of one side (object.__setattr__ / "_field = v": no callback) *)
Definition raw_side (s : state) (e : eid) (sd : bool) (f : sidest -> sidest) : state :=
  match nth_error (ents s) e with
  | Some en => put_ent s e (ss en sd (f (gs en sd)))
  | None => s
  end.
Definition dirty_add (s : state) (e : eid) : state := st_dirty s (set_add e (dirty s)).
Definition cs_add (s : state) (e : eid) : state := st_cset s (set_add e (cset s)).
Definition cs_del (s : state) (e : eid) : state := st_cset s (set_del e (cset s)).
Definition add_entry (s : state) (t : otype) : state * eid :=
  (st_ents s (ents s ++ [new_entry t]), length (ents s)).

(* _paths[side][p].pop(o, None); if not _paths[side][p]: del _paths[side][p]      (p known to be a key) *)
Definition slot_pop (s : state) (sd : bool) (p : str) (o : option str) : state :=
  match al_get p (paths s sd) with
  | None => s
  | Some d =>
    let d' := match o with Some k => al_del k d | None => d end in
    match d' with
    | [] => st_paths s sd (al_del p (paths s sd))
    | _ => st_paths s sd (al_set p d' (paths s sd))
    end
  end.
(* _paths[side].setdefault(p, {})[o] = e *)
Definition slot_set (s : state) (sd : bool) (p : str) (o : str) (e : eid) : state :=
  let d := match al_get p (paths s sd) with Some d => d | None => [] end in
  st_paths s sd (al_set p (al_set o e d) (paths s sd)).
Definition slot_get (s : state) (sd : bool) (p : str) (o : str) : option eid :=
  match al_get p (paths s sd) with Some d => al_get o d | None => None end.

Definition pop_swap (s : state) : res (bool * state) :=
  match tape s with
  | TSwap b :: r => Ok (b, st_tape s r)
  | _ => Err ETape
  end.
Definition pop_order (s : state) : res (list eid * state) :=
  match tape s with
  | TOrder l :: r => Ok (l, st_tape s r)
  | _ => Err ETape
  end.

Definition ent_live (s : state) (e : eid) : bool :=
  match nth_error (ents s) e with
  | Some en => negb (is_discarded (e_ign en) || is_conflicted (e_ign en))
  | None => false
  end.
(* SyncState.get_all() as a sorted set of serials *)
Definition get_all (s : state) : list eid :=
  set_of (filter (ent_live s) (map snd (oidsL s) ++ map snd (oidsR s))).
(* the same, in the iteration order the real set had *)
Definition get_all_ordered (s : state) : res (list eid * state) :=
  x <- pop_order s ;;
  let '(l, s') := x in
  if eids_eqb (set_of l) (get_all s) && Nat.eqb (length l) (length (get_all s)) then Ok (l, s') else Err ETape.

Definition chg_add (c : chg) (d : N) : chg := match c with CNum n => CNum (n + d) | x => x end.

(* ---------------------------------------------------------------- the intercepted writes *)
Inductive cmd :=
| CPath (fin : bool) (e : eid) (sd : bool) (v : option str)   (* updated(ent, side, "path", v) [; _path = v] *)
| COid (fin : bool) (e : eid) (sd : bool) (v : option str)    (* updated(ent, side, "oid", v)  [; _oid = v] *)
| CChg (fin : bool) (e : eid) (sd : bool) (v : chg)           (* updated(ent, side, "changed", v) [; _changed = v] *)
| CPrio (e : eid) (v : N).                                    (* SyncEntry.__setattr__("priority", v) *)

Section Exec.
Variable E : env.

(* one iteration of `for remove_oid in set([ent[side].oid, oid])` in _change_oid;
   [rec] is the intercepted write `prior_ent[side].oid = None` *)
Definition oid_step (rec : cmd -> state -> res state) (e : eid) (sd : bool) (r : option str) (s : state) : res state :=
  match r with
  | None => Ok s
  | Some ro =>
    match al_get ro (oids s sd) with
    | None => Ok s
    | Some pe =>
      let s1 := st_oids s sd (al_del ro (oids s sd)) in
      pn <- get_ent s1 pe ;;
      let s2 := match s_path (gs pn sd) with
                | Some pp => if tstr (Some pp) then slot_pop s1 sd pp (Some ro) else s1
                | None => s1
                end in
      if Nat.eqb pe e then Ok s2 else rec (COid true pe sd None) s2
    end
  end.

(* the body of `for sub, relative in self.get_kids(prior_path, side)` in _update_kids *)
Definition kid_step (rec : cmd -> state -> res state) (e : eid) (sd : bool) (pp p : str) (sub : eid) (s : state) : res state :=
  sn <- get_ent s sub ;;
  match s_path (gs sn sd) with
  | Some sp =>
    if tstr (Some sp) then
      match is_subpath (cvs E sd) pp sp true with
      | Rel (c0 :: rel0) =>
        (* 029c8f6: `if sub is ent: continue` *)
        if negb (legacy E) && Nat.eqb sub e then Ok s else
        let rel := c0 :: rel0 in
        let np := join (cvs E sd) [p; rel] in
        s1 <- (if oip E sd then
                 match info E sd np with
                 | Some o' => rec (COid true sub sd (Some o')) s
                 | None => Ok s
                 end
               else Ok s) ;;
        s2 <- rec (CPath true sub sd (Some np)) s1 ;;
        sn2 <- get_ent s2 sub ;;
        match s_spath (gs sn2 sd) with
        | Some sy =>
          if tstr (Some sy) then
            match is_subpath (cvs E sd) pp sy false with
            | Rel (c1 :: r1) =>
              Ok (raw_side (dirty_add s2 sub) sub sd
                    (fun y => w_spath y (Some (join (cvs E sd) [p; c1 :: r1]))))
            | _ => Ok s2
            end
          else Ok s2
        | None => Ok s2
        end
      | _ => Ok s
      end
    else Ok s
  | None => Ok s
  end.
Fixpoint kids_loop (rec : cmd -> state -> res state) (e : eid) (sd : bool) (pp p : str) (l : list eid) (s : state) : res state :=
  match l with
  | [] => Ok s
  | sub :: r => s' <- kid_step rec e sd pp p sub s ;; kids_loop rec e sd pp p r s'
  end.

Fixpoint exec (fuel : nat) (c : cmd) (s : state) {struct fuel} : res state :=
  match fuel with
  | O => Err ERecursion
  | S f =>
    match c with
    | CPath fin e sd v =>
      en <- get_ent s e ;;
      let x := gs en sd in
      if tstr v && negb (tstr (s_oid x)) then Err EAssert else
      s1 <- (if ostr_eqb (s_path x) v then Ok s else
             let prior := s_path x in
             let sa := match prior with
                       | Some pp => if tstr prior then slot_pop s sd pp (s_oid x) else s
                       | None => s
                       end in
             match v, s_oid x with
             | Some p, Some o =>
               if tstr v then
                 sb <- match slot_get sa sd p o with
                       | Some e' => if Nat.eqb e' e then Err EAssert
                                    else Ok (raw_side sa e' sd (fun y => w_path y None))
                       | None => Ok sa
                       end ;;
                 let sc := raw_side (slot_set sb sd p o e) e sd (fun y => w_path y (Some p)) in
                 (* _update_kids *)
                 sd_ <- (if otype_eqb (s_otype x) Dir && negb (ostr_eqb prior v) then
                           match prior with
                           | None => Ok sc
                           | Some pp =>
                             y <- get_all_ordered sc ;;
                             let '(order, s0) := y in
                             kids_loop (exec f) e sd pp p order s0
                           end
                         else Ok sc) ;;
                 (* new_priority = prioritize(side, path) = 0 *)
                 exec f (CPrio e 0%N) sd_
               else Ok sa
             | _, _ => Ok sa
             end) ;;
      let s2 := dirty_add s1 e in
      Ok (if fin then raw_side s2 e sd (fun y => w_path y v) else s2)

    | COid fin e sd v =>
      en <- get_ent s e ;;
      let old := s_oid (gs en sd) in
      let step := oid_step (exec f) e sd in
      s1 <- (if ostr_eqb old v then step old s
             else
               y <- pop_swap s ;;
               let '(sw, s0) := y in
               if sw then (sx <- step v s0 ;; step old sx) else (sx <- step old s0 ;; step v sx)) ;;
      en1 <- get_ent s1 e ;;
      let s2 := match v with
                | Some o =>
                  let sa := st_oids (raw_side s1 e sd (fun y => w_oid y (Some o))) sd (al_set o e (oids s1 sd)) in
                  let sb := match s_path (gs en1 sd) with
                            | Some pp => if tstr (Some pp) then slot_set sa sd pp o e else sa
                            | None => sa
                            end in
                  if tchg (s_chg (gs en1 sd)) || tchg (s_chg (gs en1 (negb sd))) then cs_add sb e else sb
                | None =>
                  if tchg (s_chg (gs en1 sd)) && negb (tchg (s_chg (gs en1 (negb sd)))) then cs_del s1 e else s1
                end in
      let s3 := dirty_add s2 e in
      Ok (if fin then raw_side s3 e sd (fun y => w_oid y v) else s3)

    | CChg fin e sd v =>
      en <- get_ent s e ;;
      let x := gs en sd in
      let y := gs en (negb sd) in
      s1 <- (if (tchg v && tstr (s_oid x)) || (tchg (s_chg y) && tstr (s_oid y)) then Ok (cs_add s e)
             else
               let sa := cs_del s e in
               if tchg (s_chg y) && negb (tstr (s_oid y)) then
                 (* ccb41ee: plain write `ent[other]._changed = 0` instead of the intercepted setter *)
                 if legacy E then exec f (CChg true e (negb sd) (CNum 0%N)) sa
                 else Ok (raw_side sa e (negb sd) (fun z => w_chg z (CNum 0%N)))
               else Ok sa) ;;
      let s2 := dirty_add s1 e in
      Ok (if fin then raw_side s2 e sd (fun z => w_chg z v) else s2)

    | CPrio e v =>
      en <- get_ent s e ;;
      if N.eqb (e_prio en) v then Ok s else
      s1 <- (if N.ltb (e_prio en) v && N.ltb 0 v then
               sa <- (if tchg (s_chg (e_l en)) then exec f (CChg true e false (chg_add (s_chg (e_l en)) (punt E false))) s
                      else Ok s) ;;
               en' <- get_ent sa e ;;
               if tchg (s_chg (e_r en')) then exec f (CChg true e true (chg_add (s_chg (e_r en')) (punt E true))) sa
               else Ok sa
             else Ok s) ;;
      let s2 := dirty_add s1 e in
      match nth_error (ents s2) e with
      | Some en2 => Ok (put_ent s2 e (mkEnt (e_l en2) (e_r en2) (e_ign en2) v))
      | None => Err EBad
      end
    end
  end.

(* fuel: every nesting level of the real recursion consumes one unit; a terminating run nests
   at most once per entry for the child recursion, plus a bounded tail (priority -> changed ->
   changed).  Running out means Err ERecursion. *)
Definition fuel_of (s : state) : nat := 2 * length (ents s) + 8.
Definition run_cmd (c : cmd) (s : state) : res state := exec (fuel_of s) c s.

(* plain SideState field write: updated() only marks dirty *)
Definition set_plain (s : state) (e : eid) (sd : bool) (f : sidest -> sidest) : res state :=
  _ <- get_ent s e ;; Ok (raw_side (dirty_add s e) e sd f).

Definition set_path s e sd v := run_cmd (CPath true e sd v) s.
Definition set_oid s e sd v := run_cmd (COid true e sd v) s.
Definition set_changed s e sd v := run_cmd (CChg true e sd v) s.
Definition set_priority s e v := run_cmd (CPrio e v) s.

(* SyncEntry.__setattr__("ignored", v) *)
Definition set_ignored (s : state) (e : eid) (v : ign) : res state :=
  en <- get_ent s e ;;
  if ign_eqb (e_ign en) v then Ok s else
  let s1 := match v with
            | IDiscarded =>
              cs_del (raw_side (raw_side s e false (fun y => w_chg y CFalse)) e true (fun y => w_chg y CFalse)) e
            | _ => s
            end in
  let s2 := dirty_add s1 e in
  match nth_error (ents s2) e with
  | Some en2 => Ok (put_ent s2 e (mkEnt (e_l en2) (e_r en2) v (e_prio en2)))
  | None => Err EBad
  end.
Definition discard (s : state) (e : eid) : res state := set_ignored s e IDiscarded.

(* SyncState.mark_changed *)
Definition mark_changed (s : state) (e : eid) (sd : bool) : res state :=
  let t := (now s + 1000)%N in
  s1 <- set_changed (st_now s t) e sd (CNum t) ;;
  s2 <- (if N.leb t (lastch s1) then set_changed s1 e sd (CNum (lastch s1 + 1)) else Ok s1) ;;
  en <- get_ent s2 e ;;
  match s_chg (gs en sd) with
  | CNum n => Ok (st_lastch s2 n)
  | _ => Err EBad
  end.

(* SyncEntry.__setitem__: dst[side] = src[side] *)
Definition move_side (s : state) (dst src : eid) (sd : bool) : res state :=
  sn <- get_ent s src ;;
  let np := s_path (gs sn sd) in
  let no := s_oid (gs sn sd) in
  s1 <- set_path s src sd None ;;
  s2 <- set_oid s1 src sd None ;;
  sn2 <- get_ent s2 src ;;
  let val := w_oid (w_path (gs sn2 sd) np) no in
  s3 <- (match no with
         | None => (sa <- run_cmd (CPath false dst sd np) s2 ;; run_cmd (COid false dst sd no) sa)
         | Some _ => (sa <- run_cmd (COid false dst sd no) s2 ;; run_cmd (CPath false dst sd np) sa)
         end) ;;
  s4 <- run_cmd (CChg false dst sd (s_chg val)) s3 ;;
  dn <- get_ent s4 dst ;;
  Ok (put_ent s4 dst (ss dn sd val)).

Definition ex_of (x : option bool) : exst :=
  match x with Some true => ExExists | Some false => ExTrashed | None => ExUnknown end.

(* SyncState.update_entry (size/mtime/accurate not passed) *)
Definition update_entry (s : state) (e : eid) (sd : bool) (oid : option str) (path : option str)
           (h : option N) (ex : option bool) (changed : bool) (ot : option otype) : res state :=
  en0 <- get_ent s e ;;
  y <- (match oid with
        | Some _ =>
          let '(s0, e0) := if is_discarded (e_ign en0) && oip E sd && tstr path
                           then match ot with Some t => add_entry s t | None => (s, e) end
                           else (s, e) in
          s1 <- set_oid s0 e0 sd oid ;; Ok (s1, e0)
        | None => Ok (s, e)
        end) ;;
  let '(s1, e) := y in
  en1 <- get_ent s1 e ;;
  s2 <- (match ot with
         | Some t => if otype_eqb t (s_otype (gs en1 sd)) then Ok s1 else set_plain s1 e sd (fun y => w_otype y t)
         | None => Ok s1
         end) ;;
  if (match ot with Some NotKnown => match ex with Some true => true | _ => false end | _ => false end)
  then Err EAssert else
  s3 <- (match path with
         | Some p =>
           let np := nps (cvs E sd) p in
           en2 <- get_ent s2 e ;;
           if ostr_eqb (Some np) (s_path (gs en2 sd)) then Ok s2 else set_path s2 e sd (Some np)
         | None => Ok s2
         end) ;;
  en3 <- get_ent s3 e ;;
  s4 <- (match h with
         | Some _ => if oN_eqb h (s_hash (gs en3 sd)) then Ok s3 else set_plain s3 e sd (fun y => w_hash y h)
         | None => Ok s3
         end) ;;
  s5 <- (match s_ex (gs en3 sd), ex with
         | ExTrashed, Some true => set_plain s4 e sd (fun y => w_ex y ExLikely)
         | _, _ => set_plain s4 e sd (fun y => w_ex y (ex_of ex))
         end) ;;
  if changed then
    en5 <- get_ent s5 e ;;
    if tstr (s_path (gs en5 sd)) || tstr (s_oid (gs en5 sd)) then mark_changed s5 e sd else Err EAssert
  else Ok s5.

Definition lookup_oid (s : state) (sd : bool) (o : option str) : option eid :=
  match o with Some k => al_get k (oids s sd) | None => None end.
(* lookup_path(side, path, stale=True) *)
Definition lookup_path_stale (s : state) (sd : bool) (p : option str) : list eid :=
  match p with
  | Some k => match al_get k (paths s sd) with Some d => map snd d | None => [] end
  | None => []
  end.
Definition ign_of (s : state) (e : eid) : ign :=
  match nth_error (ents s) e with Some en => e_ign en | None => INone end.

(* SyncState.update: one provider event *)
Definition update (s : state) (sd : bool) (ot : option otype) (oid : option str) (path : option str)
           (h : option N) (ex : option bool) (prior : option str) : res state :=
  let ent0 := lookup_oid s sd oid in
  y <- (if tstr prior && negb (ostr_eqb prior oid) then
          let pr := lookup_oid s sd prior in
          (* reuse of a discarded, trashed prior entry *)
          y1 <- (match ent0, pr with
                 | None, Some pe =>
                   pn <- get_ent s pe ;;
                   if is_discarded (e_ign pn) &&
                      (match s_ex (gs pn sd) with ExTrashed | ExMissing => true | _ => false end)
                   then (s' <- set_ignored s pe INone ;; Ok (s', Some pe))
                   else Ok (s, ent0)
                 | _, _ => Ok (s, ent0)
                 end) ;;
          let '(s1, ent1) := y1 in
          match pr with
          | Some pe =>
            pn <- get_ent s1 pe ;;
            if negb (is_discarded (e_ign pn)) then
              match ent1 with
              | None => Ok (s1, Some pe)
              | Some e1 =>
                n1 <- get_ent s1 e1 ;;
                if negb (is_conflicted (e_ign n1)) &&
                   (thash (s_shash (gs pn sd)) || negb (thash (s_shash (gs n1 sd)))) then
                  if tstr (s_oid (gs n1 (negb sd))) && negb (tstr (s_oid (gs pn (negb sd)))) then
                    (s' <- move_side s1 pe e1 (negb sd) ;; Ok (s', Some pe))
                  else Ok (s1, Some pe)
                else Ok (s1, ent1)
              end
            else
              match ent1 with
              | Some _ => Ok (s1, ent1)
              | None =>
                (fix loop (l : list eid) (s : state) (cur : option eid) {struct l} : res (state * option eid) :=
                   match l with
                   | [] => Ok (s, cur)
                   | pe' :: r =>
                     match ign_of s pe' with
                     | IDiscarded | INone => (s' <- set_ignored s pe' INone ;; loop r s' (Some pe'))
                     | _ => Err EAssert
                     end
                   end) (lookup_path_stale s1 sd path) s1 None
              end
          | None =>
            match ent1 with
            | Some _ => Ok (s1, ent1)
            | None =>
              (fix loop (l : list eid) (s : state) (cur : option eid) {struct l} : res (state * option eid) :=
                 match l with
                 | [] => Ok (s, cur)
                 | pe' :: r =>
                   match ign_of s pe' with
                   | IDiscarded | INone => (s' <- set_ignored s pe' INone ;; loop r s' (Some pe'))
                   | _ => Err EAssert
                   end
                 end) (lookup_path_stale s1 sd path) s1 None
            end
          end
        else Ok (s, ent0)) ;;
  let '(s1, ent) := y in
  y2 <- (match ent with
         | Some e => Ok (s1, e)
         | None => match ot with Some t => Ok (add_entry s1 t) | None => Err EAssert end
         end) ;;
  let '(s2, e) := y2 in
  (* changed=time.time(): one clock tick before update_entry *)
  let s3 := st_now s2 (now s2 + 1000)%N in
  update_entry s3 e sd oid path h ex true ot.

(* SideState.clear *)
Definition clear_side (s : state) (e : eid) (sd : bool) : res state :=
  s1 <- set_plain s e sd (fun y => w_ex y ExUnknown) ;;
  s2 <- set_changed s1 e sd CNone ;;
  s3 <- set_plain s2 e sd (fun y => w_hash y None) ;;
  s4 <- set_plain s3 e sd (fun y => w_shash y None) ;;
  s5 <- set_plain s4 e sd (fun y => w_spath y None) ;;
  s6 <- set_path s5 e sd None ;;
  s7 <- set_oid s6 e sd None ;;
  (* size = None; mtime = None: dirty only *)
  Ok (dirty_add s7 e).

(* SyncState.split: replace = LOCAL (false), defer = REMOTE (true) *)
Definition split (s : state) (e : eid) : res state :=
  en <- get_ent s e ;;
  let '(s0, re) := add_entry s (s_otype (e_l en)) in
  if negb (tstr (s_oid (e_l en))) then Err EAssert else
  s1 <- move_side s0 re e false ;;
  rn <- get_ent s1 re ;;
  if negb (tstr (s_oid (e_l rn))) then Err EAssert else
  en1 <- get_ent s1 e ;;
  (* if ent[replace].oid is not None: assert replace_ent in get_all()   (one get_all call) *)
  s1a <- (match s_oid (e_l en1) with
          | Some _ => (y <- get_all_ordered s1 ;; let '(_, sx) := y in
                       if set_mem re (get_all s1) then Ok sx else Err EAssert)
          | None => Ok s1
          end) ;;
  (* if defer_ent[replace].path: assert lookup_path(...) *)
  if tstr (s_path (e_l en1)) &&
     match filter (fun x => ent_live s1a x) (lookup_path_stale s1a false (s_path (e_l en1))) with [] => true | _ => false end
  then Err EAssert else
  s2 <- clear_side s1a e false ;;
  y <- get_all_ordered s2 ;;
  let '(_, s2b) := y in
  if negb (set_mem re (get_all s2)) then Err EAssert else
  s3 <- mark_changed s2b re false ;;
  s4 <- mark_changed s3 e true ;;
  s5 <- set_plain s4 re false (fun y => w_spath y None) ;;
  set_plain s5 e true (fun y => w_spath y None).

(* SyncEntry.is_related_to (uses providers[LOCAL].dirname for both sides, as the code does) *)
Definition related_attr (a b : option str) : bool :=
  (* getattr(self, attr) and getattr(e, attr) == dirname(getattr(self, attr)) *)
  match a with
  | Some pa => tstr a && ostr_eqb b (Some (dirname (cvs E false) pa))
  | None => false
  end.
Definition is_related (a b : entry) : bool :=
  let chk (sd : bool) :=
    related_attr (s_path (gs a sd)) (s_path (gs b sd)) || related_attr (s_path (gs b sd)) (s_path (gs a sd)) ||
    related_attr (s_spath (gs a sd)) (s_spath (gs b sd)) || related_attr (s_spath (gs b sd)) (s_spath (gs a sd)) in
  chk false || chk true.

(* SyncState.finished *)
Definition finished (s : state) (e : eid) : res state :=
  en <- get_ent s e ;;
  s1 <- (if tchg (s_chg (e_l en)) then Ok s else set_plain s e false (fun y => w_force y false)) ;;
  s2 <- (if tchg (s_chg (e_r en)) then Ok s1 else set_plain s1 e true (fun y => w_force y false)) ;;
  if tchg (s_chg (e_l en)) || tchg (s_chg (e_r en)) then Ok s2 else
  let s3 := cs_del s2 e in
  (fix loop (l : list eid) (s : state) {struct l} : res state :=
     match l with
     | [] => Ok s
     | x :: r =>
       xn <- get_ent s x ;;
       en' <- get_ent s e ;;
       s' <- (if N.ltb 0 (e_prio xn) && is_related en' xn then set_priority s x 0%N else Ok s) ;;
       loop r s'
     end) (cset s3) s3.

(* SyncState.forget_oid *)
Definition forget_oid (s : state) (sd : bool) (o : str) : res state :=
  match al_get o (oids s sd) with
  | None => Ok s
  | Some e =>
    let s1 := st_oids s sd (al_del o (oids s sd)) in
    en <- get_ent s1 e ;;
    match s_path (gs en sd) with
    | Some p =>
      match al_get p (paths s1 sd) with
      | Some d => match al_get o d with
                  | Some _ => Ok (st_paths s1 sd (al_set p (al_del o d) (paths s1 sd)))
                  | None => Err EKey
                  end
      | None => Err EKey
      end
    | None => Err EKey
    end
  end.

(* ---------------------------------------------------------------- operations as data *)
Inductive fieldw :=
| FPath (v : option str) | FOid (v : option str) | FChg (v : chg) | FHash (v : option N)
| FSHash (v : option N) | FSPath (v : option str) | FEx (v : exst) | FOtype (v : otype) | FForce (v : bool).

Inductive op :=
| OUpdate (sd : bool) (ot : option otype) (oid path : option str) (h : option N) (ex : option bool) (prior : option str)
| OSet (e : eid) (sd : bool) (w : fieldw)
| OIgn (e : eid) (v : ign)
| OPrio (e : eid) (v : N)
| OSplit (e : eid)
| OFinished (e : eid)
| OForget (sd : bool) (o : str)
| OMark (e : eid) (sd : bool)
| OMove (dst src : eid) (sd : bool)
| OUpdEnt (e : eid) (sd : bool) (oid path : option str) (h : option N) (ex : option bool) (changed : bool) (ot : option otype)
| ODiscard (e : eid).

Definition apply_op (s : state) (o : op) : res state :=
  match o with
  | OUpdate sd ot oid path h ex prior => update s sd ot oid path h ex prior
  | OSet e sd w =>
    match w with
    | FPath v => set_path s e sd v
    | FOid v => set_oid s e sd v
    | FChg v => set_changed s e sd v
    | FHash v => set_plain s e sd (fun y => w_hash y v)
    | FSHash v => set_plain s e sd (fun y => w_shash y v)
    | FSPath v => set_plain s e sd (fun y => w_spath y v)
    | FEx v => set_plain s e sd (fun y => w_ex y v)
    | FOtype v => set_plain s e sd (fun y => w_otype y v)
    | FForce v => set_plain s e sd (fun y => w_force y v)
    end
  | OIgn e v => set_ignored s e v
  | OPrio e v => set_priority s e v
  | OSplit e => split s e
  | OFinished e => finished s e
  | OForget sd o => forget_oid s sd o
  | OMark e sd => mark_changed s e sd
  | OMove d sr sd => move_side s d sr sd
  | OUpdEnt e sd oid path h ex c ot => update_entry s e sd oid path h ex c ot
  | ODiscard e => discard s e
  end.

(* an op together with the tape recorded while the real code executed it *)
Definition step (s : state) (ot : op * list titem) : res state :=
  s' <- apply_op (st_tape s (snd ot)) (fst ot) ;;
  match tape s' with [] => Ok s' | _ => Err ETape end.

Fixpoint run_ops (s : state) (l : list (op * list titem)) : res state :=
  match l with
  | [] => Ok s
  | o :: r => s' <- step s o ;; run_ops s' r
  end.

(* every intermediate result, stopping at the first error *)
Fixpoint trace_ops (s : state) (l : list (op * list titem)) : list (res state) :=
  match l with
  | [] => []
  | o :: r => match step s o with
              | Ok s' => Ok s' :: trace_ops s' r
              | Err e => [Err e]
              end
  end.
End Exec.

(* ---------------------------------------------------------------- wire protocol *)
Definition sx_ostr (o : option str) : sx := sx_opt sx_str o.
Definition sx_chg (c : chg) : sx :=
  match c with CNone => L [A 0] | CFalse => L [A 1] | CNum n => L [A 2; A n] end.
Definition sx_otype (t : otype) : sx := A (match t with Dir => 0 | File => 1 | NotKnown => 2 end)%N.
Definition sx_ex (x : exst) : sx :=
  A (match x with ExUnknown => 0 | ExExists => 1 | ExTrashed => 2 | ExMissing => 3 | ExLikely => 4 end)%N.
Definition sx_ign (x : ign) : sx :=
  A (match x with INone => 0 | IDiscarded => 1 | IConflict => 2 | ITemp => 3 | IIrrelevant => 4 end)%N.
Definition sx_side (x : sidest) : sx :=
  L [sx_otype (s_otype x); sx_ostr (s_oid x); sx_ostr (s_path x); sx_opt A (s_hash x); sx_ostr (s_spath x);
     sx_opt A (s_shash x); sx_ex (s_ex x); sx_chg (s_chg x); sx_bool (s_force x)].
Definition sx_entry (e : entry) : sx := L [sx_side (e_l e); sx_side (e_r e); sx_ign (e_ign e); A (e_prio e)].
Definition sx_oidx (d : oidx) : sx := sx_list (fun kv => L [sx_str (fst kv); sx_nat (snd kv)]) d.
Definition sx_pidx (d : pidx) : sx := sx_list (fun kv => L [sx_str (fst kv); sx_oidx (snd kv)]) d.
Definition sx_state (s : state) : sx :=
  L [A 0; sx_list sx_entry (ents s); sx_oidx (oidsL s); sx_oidx (oidsR s); sx_pidx (pathsL s); sx_pidx (pathsR s);
     sx_list sx_nat (cset s); sx_list sx_nat (dirty s); A (lastch s)].
Definition sx_err (e : err) : sx :=
  L [A 1; A (match e with ERecursion => 0 | EAssert => 1 | EKey => 2 | ETape => 3 | EBad => 4 end)%N].
Definition sx_res_state (r : res state) : sx := match r with Ok s => sx_state s | Err e => sx_err e end.

Definition un_nat (x : sx) : option nat := match x with A n => Some (N.to_nat n) | _ => None end.
Definition un_ostr := un_opt un_str.
Definition un_oN := un_opt un_atom.
Definition un_otype (x : sx) : option otype :=
  match x with A 0%N => Some Dir | A 1%N => Some File | A 2%N => Some NotKnown | _ => None end.
Definition un_ex (x : sx) : option exst :=
  match x with
  | A 0%N => Some ExUnknown | A 1%N => Some ExExists | A 2%N => Some ExTrashed | A 3%N => Some ExMissing
  | A 4%N => Some ExLikely | _ => None
  end.
Definition un_ign (x : sx) : option ign :=
  match x with
  | A 0%N => Some INone | A 1%N => Some IDiscarded | A 2%N => Some IConflict | A 3%N => Some ITemp
  | A 4%N => Some IIrrelevant | _ => None
  end.
Definition un_chg (x : sx) : option chg :=
  match x with
  | L [A 0%N] => Some CNone | L [A 1%N] => Some CFalse | L [A 2%N; A n] => Some (CNum n) | _ => None
  end.
Definition un_titem (x : sx) : option titem :=
  match x with
  | L [A 0%N; b] => match un_bool b with Some b => Some (TSwap b) | None => None end
  | L [A 1%N; l] => match un_list un_nat l with Some l => Some (TOrder l) | None => None end
  | _ => None
  end.

Definition omap {A B} (f : A -> B) (o : option A) : option B := match o with Some x => Some (f x) | None => None end.
Definition obind {A B} (o : option A) (f : A -> option B) : option B := match o with Some x => f x | None => None end.

Definition un_fieldw (k v : sx) : option fieldw :=
  match k with
  | A 0%N => omap FPath (un_ostr v)
  | A 1%N => omap FOid (un_ostr v)
  | A 2%N => omap FChg (un_chg v)
  | A 3%N => omap FHash (un_oN v)
  | A 4%N => omap FSHash (un_oN v)
  | A 5%N => omap FSPath (un_ostr v)
  | A 6%N => omap FEx (un_ex v)
  | A 7%N => omap FOtype (un_otype v)
  | A 8%N => omap FForce (un_bool v)
  | _ => None
  end.

Definition un_op (x : sx) : option op :=
  match x with
  | L [A 0%N; sd; ot; oid; path; h; ex; prior] =>
    obind (un_bool sd) (fun sd => obind (un_opt un_otype ot) (fun ot => obind (un_ostr oid) (fun oid =>
    obind (un_ostr path) (fun path => obind (un_oN h) (fun h => obind (un_opt un_bool ex) (fun ex =>
    obind (un_ostr prior) (fun prior => Some (OUpdate sd ot oid path h ex prior))))))))
  | L [A 1%N; e; sd; k; v] =>
    obind (un_nat e) (fun e => obind (un_bool sd) (fun sd => obind (un_fieldw k v) (fun w => Some (OSet e sd w))))
  | L [A 2%N; e; v] => obind (un_nat e) (fun e => obind (un_ign v) (fun v => Some (OIgn e v)))
  | L [A 3%N; e; A v] => obind (un_nat e) (fun e => Some (OPrio e v))
  | L [A 4%N; e] => omap OSplit (un_nat e)
  | L [A 5%N; e] => omap OFinished (un_nat e)
  | L [A 6%N; sd; o] => obind (un_bool sd) (fun sd => obind (un_str o) (fun o => Some (OForget sd o)))
  | L [A 7%N; e; sd] => obind (un_nat e) (fun e => obind (un_bool sd) (fun sd => Some (OMark e sd)))
  | L [A 8%N; d; sr; sd] =>
    obind (un_nat d) (fun d => obind (un_nat sr) (fun sr => obind (un_bool sd) (fun sd => Some (OMove d sr sd))))
  | L [A 9%N; e; sd; oid; path; h; ex; c; ot] =>
    obind (un_nat e) (fun e => obind (un_bool sd) (fun sd => obind (un_ostr oid) (fun oid =>
    obind (un_ostr path) (fun path => obind (un_oN h) (fun h => obind (un_opt un_bool ex) (fun ex =>
    obind (un_bool c) (fun c => obind (un_opt un_otype ot) (fun ot => Some (OUpdEnt e sd oid path h ex c ot)))))))))
  | L [A 10%N; e] => omap ODiscard (un_nat e)
  | _ => None
  end.

Definition un_optape (x : sx) : option (op * list titem) :=
  match x with
  | L [o; t] => obind (un_op o) (fun o => obind (un_list un_titem t) (fun t => Some (o, t)))
  | _ => None
  end.

(* info_path oracle: explicit table first, otherwise the default (the path itself, as a
   path-style provider answers for an existing object, or nothing) *)
Definition mk_info (dflt_self : bool) (tbl : list (str * option str)) (p : str) : option str :=
  match al_get p tbl with
  | Some r => r
  | None => if dflt_self then Some p else None
  end.
Definition un_info (x : sx) : option (str -> option str) :=
  match x with
  | L [d; t] =>
    obind (un_bool d) (fun d =>
    obind (un_list (fun y => match y with
                             | L [p; o] => obind (un_str p) (fun p => obind (un_ostr o) (fun o => Some (p, o)))
                             | _ => None end) t) (fun t => Some (mk_info d t)))
  | _ => None
  end.
Definition mk_conv (cs : bool) : conv :=
  {| cv_sep := 47%N; cv_alt := Some 92%N; cv_cs := cs; cv_win := false; cv_fold := fold_std |}.
Definition un_env (x : sx) : option env :=
  match x with
  | L [oipL; oipR; csL; csR; A pL; A pR; iL; iR; lg] =>
    obind (un_bool lg) (fun lg => obind (un_bool oipL) (fun oipL => obind (un_bool oipR) (fun oipR => obind (un_bool csL) (fun csL =>
    obind (un_bool csR) (fun csR => obind (un_info iL) (fun iL => obind (un_info iR) (fun iR =>
    Some (mkEnv (fun sd => if sd then oipR else oipL) (fun sd => mk_conv (if sd then csR else csL))
                (fun sd => if sd then pR else pL) (fun sd => if sd then iR else iL) lg))))))))
  | _ => None
  end.

(* run: L [env; L ops-with-tapes]  ->  L [state after each op ... (error last)] *)
Definition run (x : sx) : sx :=
  match x with
  | L [e; ops] =>
    match un_env e, un_list un_optape ops with
    | Some E, Some ops => L (map sx_res_state (trace_ops E init_state ops))
    | _, _ => sx_malformed
    end
  | _ => sx_malformed
  end.
