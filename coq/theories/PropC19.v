From Coq Require Import NArith List Bool.
From CS Require Import Sx Str CacheModel CacheProofs CacheInv.
Theorem C19_inv_step : forall cf c op, Inv c -> Inv (snd (step cf c op)).
Proof. exact step_inv. Qed.
Print Assumptions C19_inv_step.
