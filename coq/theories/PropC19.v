(* PropC19.v — property theorems for C19 (hierarchical path/id cache stays coherent).
   Only statements closed by [exact] (or by computation for the refutation witnesses), each
   followed by Print Assumptions; Examples show the hypotheses are satisfiable.

   Reading guide.  [step cf c op] = (outcome, state after the call) is the model of one public
   API call of HierarchicalCache; [exec] folds it over an operation list.  [Inv] = names unique
   per folder, files have no children, no id is held by two nodes, the root is a folder.
   [tame] = every stored name is in normal form (case fold) and non-empty.  [c_ghosts] = the
   ids the real code keeps in its id dict for nodes that are NOT in the tree any more.

   What is true of the faithful model and what is not:
   * [Inv] holds in every reachable state, whatever the operations and their outcomes.
   * The two views are inverse of each other in tame states, for ids that are not ghosts.
   * The full-strength property is FALSE of the code: two open defect classes (an id of an
     ancestor; an insertion at the root path), each with a witness below ([..._refuted]) that is
     replayed on the real code by harness/checks/c19.py.  A third one (case-insensitive rename
     stored the new name un-normalised) was repaired in the repository (commit 5cc1cf3) and the
     model follows the repaired code. *)
From Coq Require Import NArith List Bool.
From CS Require Import Sx Str CacheModel CacheProofs CacheInv CacheLaws CacheTame CacheDict.
Import ListNotations.
Local Open Scope N_scope.

Definition cf_cs : cfg := {| cf_fold := fun n => n; cf_tmpl := [1; 2]%N |}.
Definition cf_ci : cfg := {| cf_fold := fold_std; cf_tmpl := [1; 2]%N |}.
Definition c0 : cache := init 9 [].

(* ------------------------------------------------------------------ invariant *)
Theorem C19_inv_init : forall r m, Inv (init r m).
Proof. exact inv_init. Qed.
Print Assumptions C19_inv_init.

(* every operation, whatever it answers (ok or exception), leaves the invariant intact *)
Theorem C19_inv_step : forall cf c op, Inv c -> Inv (snd (step cf c op)).
Proof. exact step_inv. Qed.
Print Assumptions C19_inv_step.

Theorem C19_inv_reachable : forall cf ops r m, Inv (exec cf (init r m) ops).
Proof. exact inv_reachable. Qed.
Print Assumptions C19_inv_reachable.

(* the three clauses of Inv, spelled out on lookups *)
Theorem C19_ids_unique : forall c q1 q2 o,
  Inv c -> has_id (c_root c) q1 o -> has_id (c_root c) q2 o -> q1 = q2.
Proof. exact ids_unique. Qed.
Print Assumptions C19_ids_unique.

Theorem C19_file_has_no_children : forall c q nd n,
  Inv c -> lookup q (c_root c) = Some nd -> n_dir nd = false -> lookup (q ++ [n]) (c_root c) = None.
Proof. exact file_has_no_children. Qed.
Print Assumptions C19_file_has_no_children.

Theorem C19_names_unique_mod_case : forall cf c q nd k1 k2,
  Inv c -> tame cf c = true -> lookup q (c_root c) = Some nd ->
  In k1 (map fst (n_kids nd)) -> In k2 (map fst (n_kids nd)) -> cf_fold cf k1 = cf_fold cf k2 -> k1 = k2.
Proof. exact names_unique_mod_case. Qed.
Print Assumptions C19_names_unique_mod_case.

(* acyclic by construction: the tree is an inductive term; the code's weak parent pointers are not modelled *)
Theorem C19_no_cycle : forall t p, lookup p t = Some t -> p = [].
Proof. exact no_cycle. Qed.
Print Assumptions C19_no_cycle.

(* ------------------------------------------------------------------ tame states are closed under regular operations *)
Theorem C19_tame_step : forall cf, fold_ok cf -> forall c op,
  Inv c -> tame cf c = true -> op_regular cf op = true -> tame cf (snd (step cf c op)) = true.
Proof. exact step_tame. Qed.
Print Assumptions C19_tame_step.

Theorem C19_regular_sequences_stay_modelled : forall cf ops r m,
  fold_ok cf -> forallb (op_regular cf) ops = true ->
  tame cf (exec cf (init r m) ops) = true /\ Inv (exec cf (init r m) ops).
Proof. exact exec_regular. Qed.
Print Assumptions C19_regular_sequences_stay_modelled.

(* ... and along such a sequence the model never answers RUnmodelled: the theorems below apply at every step *)
Theorem C19_regular_never_unmodelled : forall cf ops r m x,
  fold_ok cf -> forallb (op_regular cf) ops = true ->
  fst (step cf (exec cf (init r m) ops) x) <> RUnmodelled.
Proof. exact regular_never_unmodelled. Qed.
Print Assumptions C19_regular_never_unmodelled.

(* ------------------------------------------------------------------ the two views are inverses *)
Theorem C19_path_oid_inverse : forall cf c o p,
  Inv c -> tame cf c = true -> get_path c o = Some p -> get_oid cf c p = Some o.
Proof. exact path_oid_inverse. Qed.
Print Assumptions C19_path_oid_inverse.

Theorem C19_oid_path_inverse : forall cf c o p,
  Inv c -> tame cf c = true -> aget o (c_ghosts c) = None ->
  get_oid cf c p = Some o -> get_path c o = Some (map (cf_fold cf) p).
Proof. exact oid_path_inverse. Qed.
Print Assumptions C19_oid_path_inverse.

(* both, in every state reached by regular operations *)
Theorem C19_inverse_views_reachable : forall cf ops r m o p,
  fold_ok cf -> forallb (op_regular cf) ops = true ->
  let c := exec cf (init r m) ops in
  (get_path c o = Some p -> get_oid cf c p = Some o) /\
  (aget o (c_ghosts c) = None -> get_oid cf c p = Some o -> get_path c o = Some (map (cf_fold cf) p)).
Proof. exact inverse_views_reachable. Qed.
Print Assumptions C19_inverse_views_reachable.

(* ------------------------------------------------------------------ deleting forgets the subtree *)
Theorem C19_delete_path_forgets_subtree : forall cf c p rel o,
  Inv c -> tame cf c = true -> map (cf_fold cf) (p ++ rel) <> [] ->
  get_oid cf c (p ++ rel) = Some o -> aget o (c_ghosts c) = None ->
  let c' := snd (step cf c (ODelete None (Some p))) in
  get_oid cf c' (p ++ rel) = None /\ get_path c' o = None.
Proof. exact delete_path_forgets_subtree. Qed.
Print Assumptions C19_delete_path_forgets_subtree.

Theorem C19_delete_oid_forgets_subtree : forall cf c o0 rp rel o popt,
  Inv c -> tame cf c = true -> o0 <> rid c -> aget o0 (c_ghosts c) = None ->
  has_id (c_root c) rp o0 -> has_id (c_root c) (rp ++ rel) o -> aget o (c_ghosts c) = None ->
  let c' := snd (step cf c (ODelete (Some o0) popt)) in
  lookup (rp ++ rel) (c_root c') = None /\ get_path c' o = None.
Proof. exact delete_oid_forgets_subtree. Qed.
Print Assumptions C19_delete_oid_forgets_subtree.

(* create / mkdir over an existing folder forgets everything that was below it *)
Theorem C19_replace_forgets_subtree : forall cf c d p o m rel o',
  fold_ok cf -> Inv c -> tame cf c = true -> map (cf_fold cf) rel <> [] ->
  get_oid cf c (p ++ rel) = Some o' -> aget o' (c_ghosts c) = None -> o <> Some o' ->
  let c' := snd (make_node cf c d p o m) in
  fst (make_node cf c d p o m) = ROk ->
  get_path c' o' = None /\ (forall q, ~ has_id (c_root c') q o').
Proof. exact replace_forgets_subtree. Qed.
Print Assumptions C19_replace_forgets_subtree.

(* ------------------------------------------------------------------ rename moves the whole subtree *)
Theorem C19_rename_moves_subtree : forall cf c p q S,
  (forall n, cf_fold cf (cf_fold cf n) = cf_fold cf n) ->
  Inv c -> tame cf c = true -> n_id (c_root c) <> None ->
  map (cf_fold cf) p <> [] -> q <> [] ->
  lookup (map (cf_fold cf) p) (c_root c) = Some S ->
  fst (step cf c (ORename p q)) = ROk ->
  lookup (map (cf_fold cf) q) (c_root (snd (step cf c (ORename p q)))) = Some S /\
  c_ghosts (snd (step cf c (ORename p q))) = c_ghosts c.
Proof. exact rename_moves_subtree. Qed.
Print Assumptions C19_rename_moves_subtree.

Corollary C19_rename_moves_lookups : forall cf c p q S rel,
  (forall n, cf_fold cf (cf_fold cf n) = cf_fold cf n) ->
  Inv c -> tame cf c = true -> n_id (c_root c) <> None ->
  map (cf_fold cf) p <> [] -> q <> [] ->
  lookup (map (cf_fold cf) p) (c_root c) = Some S ->
  fst (step cf c (ORename p q)) = ROk ->
  get_oid cf (snd (step cf c (ORename p q))) (q ++ rel) = get_oid cf c (p ++ rel).
Proof. exact rename_moves_lookups. Qed.
Print Assumptions C19_rename_moves_lookups.

(* ------------------------------------------------------------------ refinement to a plain dictionary
   [dict_of t] is the association list path -> (type, id, metadata) of everything in the tree;
   lookups in the tree are lookups in that list, and each structural edit of the tree is the
   obvious edit of the dictionary (commuting diagrams, pointwise on lookups). *)
Theorem C19_refines_dict : forall t q,
  knodup t = true -> dict_get q (dict_of t) = view t q.
Proof. exact dict_of_lookup. Qed.
Print Assumptions C19_refines_dict.

Theorem C19_dict_delete_commutes : forall cf c p q,
  Inv c -> tame cf c = true -> map (cf_fold cf) p <> [] ->
  lookup (map (cf_fold cf) p) (c_root c) <> None ->
  dict_get q (dict_of (c_root (snd (step cf c (ODelete None (Some p)))))) =
  dict_get q (dict_remove (map (cf_fold cf) p) (dict_of (c_root c))).
Proof. exact dict_delete_commutes. Qed.
Print Assumptions C19_dict_delete_commutes.

Theorem C19_dict_rename_commutes : forall cf c p q S rel,
  (forall n, cf_fold cf (cf_fold cf n) = cf_fold cf n) ->
  Inv c -> tame cf c = true -> n_id (c_root c) <> None ->
  map (cf_fold cf) p <> [] -> q <> [] ->
  lookup (map (cf_fold cf) p) (c_root c) = Some S ->
  fst (step cf c (ORename p q)) = ROk ->
  dict_get (map (cf_fold cf) q ++ rel) (dict_of (c_root (snd (step cf c (ORename p q))))) =
  dict_get (map (cf_fold cf) p ++ rel) (dict_of (c_root c)).
Proof. exact dict_rename_commutes. Qed.
Print Assumptions C19_dict_rename_commutes.

Theorem C19_dict_create_commutes : forall cf c d p o m,
  fold_ok cf -> Inv c -> map (cf_fold cf) p <> [] ->
  (forall x, o = Some x -> x <> rid c /\ (forall q, ~ has_id (c_root c) q x)) ->
  fst (make_node cf c d p o m) = ROk ->
  dict_get (map (cf_fold cf) p) (dict_of (c_root (snd (make_node cf c d p o m)))) = Some (d, o, md_or m).
Proof. exact dict_create_commutes. Qed.
Print Assumptions C19_dict_create_commutes.

(* ------------------------------------------------------------------ refuted full-strength statements
   (each witness is replayed on the real code by the check: corpus/C19/*.json) *)

(* (a) ancestor id: "every cached id resolves to a path" *)
Definition cached_ids_resolve_full : Prop :=
  forall (cf : cfg) (ops : list op) (o : N), let c := exec cf c0 ops in
  get_type_l c (loc_oid c o) <> None -> get_path c o <> None.

Definition ghost_witness : list op :=
  [OMkdir [97] (Some 1) None; OMkdir [97; 98] None None; OSetOid [97; 98] (Some 1) (Some true)]%N.

Theorem C19_cached_ids_resolve_refuted : ~ cached_ids_resolve_full.
Proof.
  intros H. specialize (H cf_cs ghost_witness 1%N). vm_compute in H.
  apply H; [discriminate|reflexivity].
Qed.
Print Assumptions C19_cached_ids_resolve_refuted.

Theorem C19_cached_ids_resolve_partial : forall c o rp,
  Inv c -> aget o (c_ghosts c) = None -> has_id (c_root c) rp o -> get_path c o = Some (clean rp).
Proof. exact get_path_tree. Qed.
Print Assumptions C19_cached_ids_resolve_partial.

(* ... and the id is poisoned: every later delete / reuse of it raises AttributeError *)
Definition no_internal_error_full : Prop :=
  forall (cf : cfg) (ops : list op) (x : op), forallb (op_regular cf) (ops ++ [x]) = true ->
  match fst (step cf (exec cf c0 ops) x) with RErr EAttr | RErr EType => False | _ => True end.

Theorem C19_no_internal_error_refuted : ~ no_internal_error_full.
Proof.
  intros H. specialize (H cf_cs ghost_witness (ODelete (Some 1%N) None) eq_refl). vm_compute in H. exact H.
Qed.
Print Assumptions C19_no_internal_error_refuted.

(* (a') the same with the root's id: get_oid says the root has id 9, get_path 9 says nothing *)
Definition inverse_without_ghost_hyp_full : Prop :=
  forall (cf : cfg) (ops : list op) (o : N) (p : list N), forallb (op_regular cf) ops = true ->
  let c := exec cf c0 ops in get_oid cf c p = Some o -> get_path c o <> None.

Theorem C19_inverse_root_ghost_refuted : ~ inverse_without_ghost_hyp_full.
Proof.
  intros H.
  specialize (H cf_cs [OMkdir [97] None None; OCreate [97; 98] (Some 9) None]%N 9%N [] eq_refl eq_refl).
  vm_compute in H. apply H. reflexivity.
Qed.
Print Assumptions C19_inverse_root_ghost_refuted.

(* (c) an insertion at the root path stores a child named '': id -> path -> id fails.
   (Before repository commit 5cc1cf3 a case-insensitive rename('/a','/A') refuted it as well.) *)
Definition path_oid_inverse_full : Prop :=
  forall (cf : cfg) (ops : list op) (o : N) (p : list N),
  let c := exec cf c0 ops in get_path c o = Some p -> get_oid cf c p = Some o.

Theorem C19_path_oid_inverse_refuted : ~ path_oid_inverse_full.
Proof.
  intros H. specialize (H cf_cs [OCreate [] (Some 1) None] 1 [] eq_refl).
  vm_compute in H. discriminate.
Qed.
Print Assumptions C19_path_oid_inverse_refuted.
(* the partial statement is C19_path_oid_inverse (tame states) / C19_inverse_views_reachable *)

(* the repaired rename: the witness of the former defect now satisfies the law *)
Example ex_ci_rename_repaired :
  let c := exec cf_ci c0 [OCreate [97] (Some 1) None; ORename [97] [65]] in
  get_path c 1 = Some [97] /\ get_oid cf_ci c [65] = Some 1.
Proof. vm_compute. auto. Qed.

(* ------------------------------------------------------------------ non-vacuity *)
Definition ex_ops : list op :=
  [OMkdir [97] (Some 1) None; OCreate [97; 98] (Some 2) (Some [(1, 1)]); OMkdir [98] (Some 3) None;
   ORename [97] [98; 97]; OUpdate [98; 97; 98] false (Some 4) None true]%N.

Example ex_regular : forallb (op_regular cf_ci) ex_ops = true. Proof. reflexivity. Qed.
Example ex_tame : tame cf_ci (exec cf_ci c0 ex_ops) = true. Proof. vm_compute. reflexivity. Qed.
Example ex_inverse : get_path (exec cf_ci c0 ex_ops) 4%N = Some [98; 97; 98]%N
                     /\ get_oid cf_ci (exec cf_ci c0 ex_ops) [66; 65; 98]%N = Some 4%N.
Proof. vm_compute. auto. Qed.
Example ex_rename_ok : fst (step cf_cs (exec cf_cs c0 [OMkdir [97] (Some 1) None; OCreate [97; 98] (Some 2) None]%N)
                                 (ORename [97] [98]%N)) = ROk.
Proof. vm_compute. reflexivity. Qed.
Example ex_fold_ok : fold_ok cf_ci /\ fold_ok cf_cs.
Proof. split; [apply fold_ok_std|apply fold_ok_id]. Qed.
