(* PropC19.v — property theorems for C19 (hierarchical cache).  Placeholder while the proofs are written. *)
From Coq Require Import NArith List Bool.
From CS Require Import Sx Str CacheModel.
Import ListNotations.

Theorem C19_init_tame : forall cf r m, tame cf (init r m) = true.
Proof. reflexivity. Qed.
Print Assumptions C19_init_tame.
