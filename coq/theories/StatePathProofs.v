(* StatePathProofs.v — path assignment (_change_path + _update_kids) keeps the index invariant. *)
From Coq Require Import NArith List Bool Arith Lia.
From CS Require Import Sx Str PathModel PathLaws StateModel StateProofs.
Import ListNotations.

Lemma ostr_eqb_refl a : ostr_eqb a a = true.
Proof. apply ostr_eqb_eq. reflexivity. Qed.

(* abstract effect of re-filing entry e (side sd, id o) from path [prior] to the non-empty path p *)
Lemma idx_path_truthy s s' e sd o p prior :
  IdxJ s -> oid_of s e sd = Some o -> path_of s e sd = prior -> prior <> Some p -> p <> [] ->
  (forall sd' k, al_get k (oids s' sd') = al_get k (oids s sd')) ->
  (forall e' sd', oid_of s' e' sd' = oid_of s e' sd') ->
  (forall e' sd', path_of s' e' sd' = if Nat.eqb e' e && Bool.eqb sd' sd then Some p else path_of s e' sd') ->
  (forall sd' p' o', slot_get s' sd' p' o' =
      if Bool.eqb sd' sd && str_eqb p' p && str_eqb o' o then Some e
      else if Bool.eqb sd' sd && ostr_eqb (Some p') prior && str_eqb o' o then None
      else slot_get s sd' p' o') ->
  IdxJ s'.
Proof.
  intros [Hf [Hso Hsp]] Hoe Hpe Hne Hpn HO Hoid Hpath HP.
  assert (Hown: forall e', oid_of s e' sd = Some o -> e' = e).
  { intros e' H. destruct (Hf _ _ _ H) as [Ha _]. destruct (Hf _ _ _ Hoe) as [Hb _]. congruence. }
  split; [|split].
  - intros e' sd' o' H. rewrite Hoid in H. destruct (Hf _ _ _ H) as [Ha Hb]. split; [rewrite HO; exact Ha|].
    intros p' Hp' Hpn'. rewrite Hpath in Hp'. rewrite HP.
    destruct (Nat.eqb_spec e' e) as [->|Hn]; simpl in Hp'.
    + destruct (Bool.eqb_spec sd' sd) as [->|Hns]; simpl in *.
      * injection Hp' as <-. assert (o' = o) by congruence. subst o'. rewrite !str_eqb_refl. reflexivity.
      * apply Hb; assumption.
    + destruct (Bool.eqb_spec sd' sd) as [->|Hns]; simpl; [|apply Hb; assumption].
      destruct (str_eqb_spec o' o) as [->|Hno]; [exfalso; apply Hn; apply Hown; exact H|].
      rewrite !andb_false_r. apply Hb; assumption.
  - intros sd' k z H. rewrite HO in H. rewrite Hoid. apply Hso. exact H.
  - intros sd' p' o' z H. rewrite HP in H. rewrite Hoid, Hpath.
    revert H. destruct (Bool.eqb sd' sd && str_eqb p' p && str_eqb o' o)%bool eqn:Ec; intros H.
    + injection H as <-. apply andb_prop in Ec as [Ec Eo]. apply andb_prop in Ec as [Es Ep].
      apply Bool.eqb_prop in Es. apply str_eqb_eq in Ep, Eo. subst sd' p' o'.
      rewrite Nat.eqb_refl, bool_eqb_refl. simpl. split; [exact Hoe|split; [reflexivity|exact Hpn]].
    + revert H. destruct (Bool.eqb sd' sd && ostr_eqb (Some p') prior && str_eqb o' o)%bool eqn:Ec2; intros H; [discriminate|].
      destruct (Hsp _ _ _ _ H) as [Ha [Hb Hc]].
      destruct (Nat.eqb_spec z e) as [->|Hn]; simpl; [|split; [exact Ha|split; [exact Hb|exact Hc]]].
      destruct (Bool.eqb_spec sd' sd) as [->|Hns]; [|split; [exact Ha|split; [exact Hb|exact Hc]]].
      exfalso. assert (o' = o) by congruence. subst o'. rewrite Hpe in Hb. subst prior.
      rewrite Hb in Ec2. rewrite ostr_eqb_refl, str_eqb_refl in Ec2. discriminate.
Qed.

(* ... and of taking it out of the path index (new path None or '') *)
Lemma idx_path_falsy s s' e sd v prior :
  IdxJ s -> path_of s e sd = prior -> tstr v = false ->
  (forall sd' k, al_get k (oids s' sd') = al_get k (oids s sd')) ->
  (forall e' sd', oid_of s' e' sd' = oid_of s e' sd') ->
  (forall e' sd', path_of s' e' sd' = if Nat.eqb e' e && Bool.eqb sd' sd then v else path_of s e' sd') ->
  (forall sd' p' o', slot_get s' sd' p' o' =
      if Bool.eqb sd' sd && ostr_eqb (Some p') prior && ostr_eqb (Some o') (oid_of s e sd) then None
      else slot_get s sd' p' o') ->
  IdxJ s'.
Proof.
  intros [Hf [Hso Hsp]] Hpe Hv HO Hoid Hpath HP.
  split; [|split].
  - intros e' sd' o' H. rewrite Hoid in H. destruct (Hf _ _ _ H) as [Ha Hb]. split; [rewrite HO; exact Ha|].
    intros p' Hp' Hpn'. rewrite Hpath in Hp'. rewrite HP.
    destruct (Nat.eqb_spec e' e) as [->|Hn]; simpl in Hp'.
    + destruct (Bool.eqb_spec sd' sd) as [->|Hns]; simpl in *.
      * subst v. destruct p'; [contradiction|discriminate].
      * apply Hb; assumption.
    + destruct (Bool.eqb_spec sd' sd) as [->|Hns]; cbn [andb]; [|apply Hb; assumption].
      destruct (ostr_eqb (Some o') (oid_of s e sd)) eqn:Eo; [|rewrite andb_false_r; apply Hb; assumption].
      apply ostr_eqb_eq in Eo. exfalso. apply Hn.
      destruct (Hf e sd o' (eq_sym Eo)) as [Hc _]. congruence.
  - intros sd' k z H. rewrite HO in H. rewrite Hoid. apply Hso. exact H.
  - intros sd' p' o' z H. rewrite HP in H. rewrite Hoid, Hpath.
    revert H. destruct (Bool.eqb sd' sd && ostr_eqb (Some p') prior && ostr_eqb (Some o') (oid_of s e sd))%bool eqn:Ec; intros H; [discriminate|].
    destruct (Hsp _ _ _ _ H) as [Ha [Hb Hc]].
    destruct (Nat.eqb_spec z e) as [->|Hn]; simpl; [|split; [exact Ha|split; [exact Hb|exact Hc]]].
    destruct (Bool.eqb_spec sd' sd) as [->|Hns]; [|split; [exact Ha|split; [exact Hb|exact Hc]]].
    exfalso. rewrite Hpe in Hb. rewrite Ha, <- Hb in Ec. rewrite !ostr_eqb_refl in Ec. discriminate.
Qed.

(* ------------------------------------------------------------------ _change_path on the model *)
Definition path_main (E : env) (rec : cmd -> state -> res state) (e : eid) (sd : bool) (v : option str)
           (x : sidest) (s : state) : res state :=
  if ostr_eqb (s_path x) v then Ok s else
  let prior := s_path x in
  let sa := match prior with
            | Some pp => if tstr prior then slot_pop s sd pp (s_oid x) else s
            | None => s
            end in
  match v, s_oid x with
  | Some p, Some o =>
    if tstr v then
      sb <- match slot_get sa sd p o with
            | Some e' => if Nat.eqb e' e then Err EAssert
                         else Ok (raw_side sa e' sd (fun y => w_path y None))
            | None => Ok sa
            end ;;
      let sc := raw_side (slot_set sb sd p o e) e sd (fun y => w_path y (Some p)) in
      sd_ <- (if otype_eqb (s_otype x) Dir && negb (ostr_eqb prior v) then
                match prior with
                | None => Ok sc
                | Some pp =>
                  y <- get_all_ordered sc ;;
                  let '(order, s0) := y in
                  kids_loop E rec e sd pp p order s0
                end
              else Ok sc) ;;
      rec (CPrio e 0%N) sd_
    else Ok sa
  | _, _ => Ok sa
  end.
Lemma exec_path_eq E f fin e sd v s :
  exec E (S f) (CPath fin e sd v) s =
  (en <- get_ent s e ;;
   let x := gs en sd in
   if tstr v && negb (tstr (s_oid x)) then Err EAssert else
   s1 <- path_main E (exec E f) e sd v x s ;;
   let s2 := dirty_add s1 e in
   Ok (if fin then raw_side s2 e sd (fun y => w_path y v) else s2)).
Proof. reflexivity. Qed.

Lemma slot_pop_get_opt s sd pp k sd' p' o' :
  slot_get (slot_pop s sd pp k) sd' p' o' =
  if Bool.eqb sd' sd && str_eqb p' pp && ostr_eqb (Some o') k then None else slot_get s sd' p' o'.
Proof.
  destruct k as [k|].
  - rewrite slot_get_slot_pop. reflexivity.
  - rewrite slot_get_slot_pop_none. simpl. rewrite andb_false_r. reflexivity.
Qed.

Lemma iview_raw_side_at s e sd f en :
  nth_error (ents s) e = Some en -> s_oid (f (gs en sd)) = s_oid (gs en sd) -> s_path (f (gs en sd)) = s_path (gs en sd) ->
  iview (raw_side s e sd f) = iview s.
Proof.
  intros Hn Ho Hp. unfold raw_side. rewrite Hn. apply (iview_put_ent _ _ en); [exact Hn|].
  unfold ekey, ss, gs in *. destruct sd; simpl; rewrite Ho, Hp; reflexivity.
Qed.

(* ent[side].path = v for an entry that is not a folder (no children to re-file) *)
Lemma exec_path_file_pres E f e sd v s s' en :
  IdxJ s -> get_ent s e = Ok en -> s_otype (gs en sd) <> Dir ->
  exec E (S f) (CPath true e sd v) s = Ok s' -> IdxJ s'.
Proof.
  intros HJ Hen Hot H. rewrite exec_path_eq, Hen in H. cbn [bind] in H. cbv zeta in H.
  destruct (tstr v && negb (tstr (s_oid (gs en sd))))%bool eqn:Eas; [discriminate|].
  destruct (path_main E (exec E f) e sd v (gs en sd) s) as [s1|] eqn:Em; cbn [bind] in H; [|discriminate].
  injection H as <-. apply get_ent_ok in Hen.
  assert (Hoe: oid_of s e sd = s_oid (gs en sd)) by (unfold oid_of; rewrite Hen; reflexivity).
  assert (Hpe: path_of s e sd = s_path (gs en sd)) by (unfold path_of; rewrite Hen; reflexivity).
  unfold path_main in Em.
  destruct (ostr_eqb (s_path (gs en sd)) v) eqn:Eeq.
  { (* same path: only the dirty mark *)
    injection Em as <-. apply ostr_eqb_eq in Eeq. apply (IdxJ_view s); [|exact HJ].
    transitivity (iview (dirty_add s e)); [reflexivity|]. symmetry.
    apply (iview_raw_side_at _ _ _ _ en); [exact Hen|reflexivity|simpl; symmetry; exact Eeq]. }
  set (prior := s_path (gs en sd)) in *.
  set (sa := match prior with
             | Some pp => if tstr prior then slot_pop s sd pp (s_oid (gs en sd)) else s
             | None => s end) in *.
  assert (Hne: prior <> v) by (intros Hc; apply ostr_eqb_eq in Hc; congruence).
  assert (Hsa_o: forall sd' k, al_get k (oids sa sd') = al_get k (oids s sd')).
  { intros. unfold sa. destruct prior as [pp|]; [destruct (tstr (Some pp)); [rewrite oids_slot_pop|]|]; reflexivity. }
  assert (Hsa_e: ents sa = ents s).
  { unfold sa. destruct prior as [pp|]; [destruct (tstr (Some pp)); [apply ents_slot_pop|]|]; reflexivity. }
  assert (Hsa_p: forall sd' p' o', slot_get sa sd' p' o' =
            if Bool.eqb sd' sd && ostr_eqb (Some p') prior && ostr_eqb (Some o') (s_oid (gs en sd)) then None
            else slot_get s sd' p' o').
  { intros sd' p' o'. unfold sa. destruct prior as [pp|] eqn:Epr.
    - destruct (tstr (Some pp)) eqn:Et.
      + rewrite slot_pop_get_opt. reflexivity.
      + destruct (Bool.eqb_spec sd' sd) as [->|]; cbn [andb]; [|reflexivity].
        destruct (ostr_eqb (Some p') (Some pp)) eqn:Ep; cbn [andb]; [|reflexivity].
        destruct (ostr_eqb (Some o') (s_oid (gs en sd))) eqn:Eo; [|reflexivity].
        apply ostr_eqb_eq in Ep. injection Ep as ->. destruct pp; [|discriminate].
        destruct (slot_get s sd [] o') eqn:Es; [|reflexivity].
        destruct HJ as [_ [_ Hsp]]. apply Hsp in Es as [_ [_ Hc]]. exfalso. apply Hc. reflexivity.
    - rewrite andb_false_r. reflexivity. }
  assert (Hfalsy: tstr v = false -> s1 = sa).
  { intros Hv. destruct v as [p|]; [|destruct (s_oid (gs en sd)); injection Em as <-; reflexivity].
    destruct (s_oid (gs en sd)); [|injection Em as <-; reflexivity].
    rewrite Hv in Em. injection Em as <-. reflexivity. }
  destruct (tstr v) eqn:Ev.
  2:{ rewrite (Hfalsy eq_refl).
      apply (idx_path_falsy s _ e sd v prior HJ Hpe Ev).
      - intros sd' k. rewrite oids_raw_side. apply Hsa_o.
      - intros e' sd'. rewrite oid_of_raw_side. simpl. rewrite Hsa_e, Hen. simpl.
        destruct (Nat.eqb_spec e' e) as [->|]; simpl; [|unfold oid_of; simpl; rewrite Hsa_e; reflexivity].
        destruct (Bool.eqb_spec sd' sd) as [->|]; [symmetry; exact Hoe|unfold oid_of; simpl; rewrite Hsa_e; reflexivity].
      - intros e' sd'. rewrite path_of_raw_side. simpl. rewrite Hsa_e, Hen. simpl.
        destruct (Nat.eqb e' e && Bool.eqb sd' sd)%bool; [reflexivity|unfold path_of; simpl; rewrite Hsa_e; reflexivity].
      - intros sd' p' o'. rewrite slot_get_raw_side. rewrite Hoe.
        transitivity (slot_get sa sd' p' o'); [reflexivity|apply Hsa_p]. }
  (* re-filed under a non-empty path *)
  destruct v as [p|]; [|discriminate].
  cbn [andb] in Eas. apply negb_false_iff in Eas.
  destruct (s_oid (gs en sd)) as [o|] eqn:Eo; [|discriminate].
  cbv beta iota in Em.
  assert (Hnone: slot_get sa sd p o = None).
  { destruct (slot_get sa sd p o) as [e'|] eqn:Es; [|reflexivity]. exfalso.
    rewrite Hsa_p in Es.
    destruct (Bool.eqb sd sd && ostr_eqb (Some p) prior && ostr_eqb (Some o) (Some o))%bool; [discriminate|].
    destruct HJ as [Hf [_ Hsp]]. destruct (Hsp _ _ _ _ Es) as [Ha [Hb _]].
    destruct (Hf _ _ _ Ha) as [Hc _]. destruct (Hf _ _ _ Hoe) as [Hd _]. assert (e' = e) by congruence. subst e'.
    apply Hne. rewrite <- Hpe, Hb. reflexivity. }
  rewrite Hnone in Em. cbn [bind] in Em.
  set (sc := raw_side (slot_set sa sd p o e) e sd (fun y => w_path y (Some p))) in *.
  assert (Em': exec E f (CPrio e 0%N) sc = Ok s1).
  { destruct (s_otype (gs en sd)); [exfalso; apply Hot; reflexivity| |]; cbn [otype_eqb andb bind] in Em; exact Em. }
  clear Em. rename Em' into Em.
  apply exec_flag_view in Em as [Hv1 _]; [|reflexivity].
  assert (Hpn: p <> []) by (destruct p; [discriminate|discriminate]).
  assert (Hensc: nth_error (ents (slot_set sa sd p o e)) e = Some en) by (rewrite ents_slot_set, Hsa_e; exact Hen).
  assert (HJc: IdxJ sc).
  { apply (idx_path_truthy s sc e sd o p prior HJ Hoe Hpe Hne Hpn).
    - intros sd' k. unfold sc. rewrite oids_raw_side, oids_slot_set. apply Hsa_o.
    - intros e' sd'. unfold sc. rewrite oid_of_raw_side, Hensc. simpl.
      destruct (Nat.eqb_spec e' e) as [->|]; simpl; [|unfold oid_of; rewrite ents_slot_set, Hsa_e; reflexivity].
      destruct (Bool.eqb_spec sd' sd) as [->|]; [rewrite Hoe; exact Eo|unfold oid_of; rewrite ents_slot_set, Hsa_e; reflexivity].
    - intros e' sd'. unfold sc. rewrite path_of_raw_side, Hensc. simpl.
      destruct (Nat.eqb e' e && Bool.eqb sd' sd)%bool; [reflexivity|unfold path_of; rewrite ents_slot_set, Hsa_e; reflexivity].
    - intros sd' p' o'. unfold sc. rewrite slot_get_raw_side, slot_get_slot_set.
      destruct (Bool.eqb sd' sd && str_eqb p' p && str_eqb o' o)%bool; [reflexivity|].
      rewrite Hsa_p. reflexivity. }
  (* the remaining writes (priority, dirty mark, the same path again) do not touch the index view *)
  apply (IdxJ_view sc); [|exact HJc].
  assert (Hp1: path_of s1 e sd = Some p).
  { destruct (iview_eq _ _ Hv1) as [He _]. rewrite (proj2 (He e sd)). unfold sc. rewrite path_of_raw_side, Hensc, Nat.eqb_refl, bool_eqb_refl. reflexivity. }
  rewrite <- Hv1. transitivity (iview (dirty_add s1 e)); [reflexivity|]. symmetry.
  unfold path_of in Hp1.
  destruct (nth_error (ents s1) e) as [en1|] eqn:En1; [|discriminate].
  apply (iview_raw_side_at _ _ _ _ en1); [exact En1|reflexivity|simpl; symmetry; exact Hp1].
Qed.

Lemma set_path_file_pres E s e sd v s' en :
  IdxJ s -> get_ent s e = Ok en -> s_otype (gs en sd) <> Dir -> set_path E s e sd v = Ok s' -> IdxJ s'.
Proof.
  unfold set_path, run_cmd, fuel_of. intros HJ Hen Hot H.
  replace (2 * length (ents s) + 8) with (S (2 * length (ents s) + 7)) in H by lia.
  eapply exec_path_file_pres; eassumption.
Qed.
