(* LoopProofs.v — proofs about LoopModel.v (property C18). *)
From Coq Require Import QArith List Bool NArith ZArith Lia Lqa.
From CS Require Import Sx LoopModel.
Import ListNotations.
Open Scope Q_scope.

Lemma noop_keeps_backoff : forall p b, after_do p b ONoop = b.
Proof. reflexivity. Qed.
