(* LoopProofs.v — proofs about the backoff arithmetic and the sequential loop of LoopModel.v (property C18). *)
From Coq Require Import QArith Qminmax List Bool NArith ZArith Lia Lqa.
From CS Require Import Sx LoopModel.
Import ListNotations.
Open Scope Q_scope.

Lemma Qltb_true : forall a b, Qltb a b = true <-> a < b.
Proof.
  intros a b. unfold Qltb. rewrite negb_true_iff. split; intro H.
  - apply Qnot_le_lt. intro H1. apply Qle_bool_iff in H1. congruence.
  - destruct (Qle_bool b a) eqn:E; auto. apply Qle_bool_iff in E. exfalso. apply (Qlt_not_le _ _ H E).
Qed.
Lemma Qltb_false : forall a b, Qltb a b = false <-> b <= a.
Proof.
  intros a b. unfold Qltb. rewrite negb_false_iff. apply Qle_bool_iff.
Qed.

Lemma py_min_spec : forall a b, (b < a /\ py_min a b = b) \/ (a <= b /\ py_min a b = a).
Proof.
  intros a b. unfold py_min. destruct (Qltb b a) eqn:E.
  - left. split; auto. apply Qltb_true; auto.
  - right. split; auto. apply Qltb_false; auto.
Qed.
Lemma py_max_spec : forall a b, (a < b /\ py_max a b = b) \/ (b <= a /\ py_max a b = a).
Proof.
  intros a b. unfold py_max. destruct (Qltb a b) eqn:E.
  - left. split; auto. apply Qltb_true; auto.
  - right. split; auto. apply Qltb_false; auto.
Qed.

Lemma py_min_Qmin : forall a b, py_min a b == Qmin a b.
Proof.
  intros a b. destruct (py_min_spec a b) as [[H E]|[H E]]; rewrite E;
  destruct (Q.min_spec a b) as [[H1 E1]|[H1 E1]]; rewrite E1; lra.
Qed.
Lemma py_max_Qmax : forall a b, py_max a b == Qmax a b.
Proof.
  intros a b. destruct (py_max_spec a b) as [[H E]|[H E]]; rewrite E;
  destruct (Q.max_spec a b) as [[H1 E1]|[H1 E1]]; rewrite E1; lra.
Qed.

Lemma increment_step : forall p b x,
  1 <= p_mult p -> 0 < p_min p -> p_min p <= p_max p ->
  p_min p <= x -> b == Qmin (p_max p) x ->
  increment p b == Qmin (p_max p) (x * p_mult p).
Proof.
  intros p b x Hm H0 Hle Hx Hb. unfold increment.
  set (mx := p_max p) in *. set (mn := p_min p) in *. set (mu := p_mult p) in *.
  assert (Hxm : x <= x * mu) by nra.
  destruct (Q.min_spec mx (x * mu)) as [[G1 G2]|[G1 G2]]; rewrite G2; clear G2;
  destruct (Q.min_spec mx x) as [[H1 E1]|[H1 E1]]; rewrite E1 in Hb; clear E1.
  - assert (Hbm : b * mu == mx * mu) by (rewrite Hb; reflexivity).
    destruct (py_max_spec (b * mu) mn) as [[A1 A2]|[A1 A2]]; rewrite A2;
    destruct (py_min_spec mx mn) as [[B1 B2]|[B1 B2]]; try rewrite B2;
    destruct (py_min_spec mx (b * mu)) as [[C1 C2]|[C1 C2]]; try rewrite C2; try lra; nra.
  - assert (Hbm : b * mu == x * mu) by (rewrite Hb; reflexivity).
    destruct (py_max_spec (b * mu) mn) as [[A1 A2]|[A1 A2]]; rewrite A2;
    destruct (py_min_spec mx mn) as [[B1 B2]|[B1 B2]]; try rewrite B2;
    destruct (py_min_spec mx (b * mu)) as [[C1 C2]|[C1 C2]]; try rewrite C2; try lra; nra.
  - assert (Hbm : b * mu == mx * mu) by (rewrite Hb; reflexivity).
    destruct (py_max_spec (b * mu) mn) as [[A1 A2]|[A1 A2]]; rewrite A2;
    destruct (py_min_spec mx mn) as [[B1 B2]|[B1 B2]]; try rewrite B2;
    destruct (py_min_spec mx (b * mu)) as [[C1 C2]|[C1 C2]]; try rewrite C2; try lra; nra.
  - assert (Hbm : b * mu == x * mu) by (rewrite Hb; reflexivity).
    destruct (py_max_spec (b * mu) mn) as [[A1 A2]|[A1 A2]]; rewrite A2;
    destruct (py_min_spec mx mn) as [[B1 B2]|[B1 B2]]; try rewrite B2;
    destruct (py_min_spec mx (b * mu)) as [[C1 C2]|[C1 C2]]; try rewrite C2; try lra; nra.
Qed.
Lemma increment_first : forall p b,
  0 < p_min p -> p_min p <= p_max p -> b == 0 -> increment p b == p_min p.
Proof.
  intros p b H0 Hle Hb. unfold increment.
  assert (Hbm : b * p_mult p == 0) by (rewrite Hb; ring).
  destruct (py_max_spec (b * p_mult p) (p_min p)) as [[A1 A2]|[A1 A2]]; rewrite A2;
  destruct (py_min_spec (p_max p) (p_min p)) as [[B1 B2]|[B1 B2]]; try rewrite B2;
  destruct (py_min_spec (p_max p) (b * p_mult p)) as [[C1 C2]|[C1 C2]]; try rewrite C2; lra.
Qed.

Lemma increment_range : forall p b,
  p_min p <= p_max p -> p_min p <= increment p b /\ increment p b <= p_max p.
Proof.
  intros p b Hle. unfold increment.
  destruct (py_max_spec (b * p_mult p) (p_min p)) as [[A1 A2]|[A1 A2]]; rewrite A2;
  destruct (py_min_spec (p_max p) (p_min p)) as [[B1 B2]|[B1 B2]]; try rewrite B2;
  destruct (py_min_spec (p_max p) (b * p_mult p)) as [[C1 C2]|[C1 C2]]; try rewrite C2; lra.
Qed.

Lemma qpow_ge1 : forall q n, 1 <= q -> 1 <= qpow q n.
Proof.
  intros q n Hq. induction n as [|n IH]; simpl; [lra|]. nra.
Qed.

Lemma backoff_after_snoc : forall p b os o, backoff_after p b (os ++ [o]) = after_do p (backoff_after p b os) o.
Proof. intros. unfold backoff_after. rewrite fold_left_app. reflexivity. Qed.

Lemma after_do_failure : forall p b o, is_failure o = true -> after_do p b o = increment p b.
Proof. intros p b o H. destruct o; simpl in *; try discriminate; reflexivity. Qed.

(* after k >= 1 consecutive failures starting from "not in backoff" *)
Lemma backoff_formula : forall p os,
  1 <= p_mult p -> 0 < p_min p -> p_min p <= p_max p ->
  os <> [] -> forallb is_failure os = true ->
  backoff_after p 0 os == Qmin (p_max p) (p_min p * qpow (p_mult p) (length os - 1)).
Proof.
  intros p os Hm H0 Hle. induction os as [|o os IH] using rev_ind; intros Hne Hall; [congruence|].
  rewrite backoff_after_snoc. rewrite forallb_app in Hall. apply andb_true_iff in Hall. destruct Hall as [Hall Ho].
  simpl in Ho. rewrite andb_true_r in Ho. rewrite (after_do_failure _ _ _ Ho).
  rewrite app_length. simpl. replace (length os + 1 - 1)%nat with (length os) by lia.
  destruct os as [|o1 os1] eqn:Eos.
  - simpl. rewrite increment_first; auto; try reflexivity.
    destruct (Q.min_spec (p_max p) (p_min p * 1)) as [[G1 G2]|[G1 G2]]; rewrite G2; lra.
  - rewrite <- Eos in *. assert (Hne1 : os <> []) by (rewrite Eos; discriminate).
    specialize (IH Hne1 Hall).
    assert (Hlen : length os = S (length os - 1)) by (destruct os; [congruence | simpl; lia]).
    rewrite Hlen at 1. simpl qpow.
    rewrite (increment_step p _ (p_min p * qpow (p_mult p) (length os - 1))); auto.
    + assert (E : p_min p * qpow (p_mult p) (length os - 1) * p_mult p ==
                  p_min p * (p_mult p * qpow (p_mult p) (length os - 1))) by ring.
      rewrite E. reflexivity.
    + pose proof (qpow_ge1 (p_mult p) (length os - 1) Hm). nra.
Qed.

Lemma backoff_formula_wait : forall p os,
  1 <= p_mult p -> 0 < p_min p -> p_min p <= p_max p ->
  os <> [] -> forallb is_failure os = true ->
  sleep_of p (backoff_after p 0 os) == Qmin (p_max p) (p_min p * qpow (p_mult p) (length os - 1)).
Proof.
  intros p os Hm H0 Hle Hne Hall. pose proof (backoff_formula p os Hm H0 Hle Hne Hall) as H.
  unfold sleep_of. destruct (Qltb 0 (backoff_after p 0 os)) eqn:E; auto.
  apply Qltb_false in E. exfalso.
  pose proof (qpow_ge1 (p_mult p) (length os - 1) Hm).
  destruct (Q.min_spec (p_max p) (p_min p * qpow (p_mult p) (length os - 1))) as [[G1 G2]|[G1 G2]];
    rewrite G2 in H; nra.
Qed.

Definition in_range (p : params) (b : Q) : Prop := b == 0 \/ (p_min p <= b /\ b <= p_max p).

Lemma backoff_bounded : forall p os b0,
  0 < p_min p -> p_min p <= p_max p -> in_range p b0 -> in_range p (backoff_after p b0 os).
Proof.
  intros p os b0 H0 Hle Hb. induction os as [|o os IH] using rev_ind; [exact Hb|].
  rewrite backoff_after_snoc. set (b := backoff_after p b0 os) in *.
  destruct o; simpl; try (right; apply increment_range; assumption); try exact IH.
  destruct (Qltb 0 b) eqn:E; [left; reflexivity | exact IH].
Qed.

Lemma backoff_bounded_wait : forall p os,
  0 < p_min p -> p_min p <= p_max p ->
  let w := sleep_of p (backoff_after p 0 os) in w = p_sleep p \/ (p_min p <= w /\ w <= p_max p).
Proof.
  intros p os H0 Hle w. unfold w, sleep_of.
  destruct (Qltb 0 (backoff_after p 0 os)) eqn:E; auto. right.
  apply Qltb_true in E.
  destruct (backoff_bounded p os 0 H0 Hle) as [H|H]; [left; reflexivity | lra | exact H].
Qed.

Lemma backoff_reset : forall p b, sleep_of p (after_do p b ODid) = p_sleep p.
Proof.
  intros p b. unfold sleep_of. simpl. destruct (Qltb 0 b) eqn:E; [reflexivity | rewrite E; reflexivity].
Qed.
Lemma backoff_reset_value : forall p b, 0 <= b -> after_do p b ODid == 0.
Proof.
  intros p b Hb. simpl. destruct (Qltb 0 b) eqn:E; [reflexivity|]. apply Qltb_false in E. lra.
Qed.

Lemma noop_keeps_backoff : forall p b, after_do p b ONoop = b.
Proof. reflexivity. Qed.

(* sequential loop: every outcome is followed by the next call *)
Definition plain (os : list outcome) : list sact := map Plain os.

Lemma seq_loop_cons : forall p b o o2 r,
  seq_loop p b (Plain o :: plain (o2 :: r)) =
  (EDo :: ESleep (sleep_of p (after_do p b o)) :: fst (seq_loop p (after_do p b o) (plain (o2 :: r))),
   snd (seq_loop p (after_do p b o) (plain (o2 :: r)))).
Proof.
  intros. remember (plain (o2 :: r)) as t eqn:Et. simpl.
  destruct t as [|y ys]; [discriminate|].
  destruct (seq_loop p (after_do p b o) (y :: ys)); reflexivity.
Qed.

Lemma loop_survives_seq : forall p os b, count_do (fst (seq_loop p b (plain os))) = length os.
Proof.
  intros p os. induction os as [|o r IH]; intro b; [reflexivity|].
  destruct r as [|o2 r]; [reflexivity|].
  change (plain (o :: o2 :: r)) with (Plain o :: plain (o2 :: r)).
  rewrite seq_loop_cons. cbn [fst]. unfold count_do in *. cbn [filter length]. rewrite IH. reflexivity.
Qed.

Lemma seq_final_backoff : forall p os b, snd (seq_loop p b (plain os)) = backoff_after p b os.
Proof.
  intros p os. induction os as [|o r IH]; intro b; [reflexivity|].
  destruct r as [|o2 r]; [reflexivity|].
  change (plain (o :: o2 :: r)) with (Plain o :: plain (o2 :: r)).
  rewrite seq_loop_cons. cbn [snd]. rewrite IH. reflexivity.
Qed.

(* the wait requested after the (length pre + 1)-th call *)
Lemma seq_wait : forall p pre o post b, post <> [] ->
  exists es1 es2,
    fst (seq_loop p b (plain (pre ++ o :: post))) =
      es1 ++ EDo :: ESleep (sleep_of p (backoff_after p b (pre ++ [o]))) :: es2
    /\ count_do es1 = length pre.
Proof.
  intros p pre. induction pre as [|a pre IH]; intros o post b Hne.
  - destruct post as [|o2 post]; [congruence|]. simpl app.
    change (plain (o :: o2 :: post)) with (Plain o :: plain (o2 :: post)). rewrite seq_loop_cons. cbn [fst].
    exists [], (fst (seq_loop p (after_do p b o) (plain (o2 :: post)))). split; reflexivity.
  - simpl app. destruct (pre ++ o :: post) as [|x xs] eqn:E; [destruct pre; discriminate|].
    change (plain (a :: x :: xs)) with (Plain a :: plain (x :: xs)).
    rewrite seq_loop_cons. cbn [fst]. rewrite <- E.
    destruct (IH o post (after_do p b a) Hne) as [es1 [es2 [H1 H2]]].
    exists (EDo :: ESleep (sleep_of p (after_do p b a)) :: es1), es2. split.
    + rewrite H1. reflexivity.
    + unfold count_do in *. cbn [filter length]. rewrite H2. reflexivity.
Qed.
