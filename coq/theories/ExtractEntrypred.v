(* Extraction of the entry-predicate model.  ExtrOcamlBasic only. *)
From Coq Require Import ExtrOcamlBasic.
From CS Require Import Sx EntryPredModel.
Definition run := EntryPredModel.run.
Extraction "extract/entrypred/model.ml" run.
