(* FaultGenEq.v — the definitions generated from the current source (GenNotify.v) are the hand model's, and the
   class table is coherent: the ancestor list is the chain of direct bases. *)
From Coq Require Import List.
From CS Require Import FaultModel GenNotify.
Import ListNotations.

Lemma gen_kparent_eq : forall k, gen_kparent k = kparent k.
Proof. intros k. destruct k; reflexivity. Qed.

Lemma gen_kmro_eq : forall k, gen_kmro k = kmro k.
Proof. intros k. destruct k; reflexivity. Qed.

(* the generated ancestor lists are what following the generated base classes gives *)
Lemma gen_kmro_unfolds : forall k,
  gen_kmro k = k :: match gen_kparent k with Some p => gen_kmro p | None => [] end.
Proof. intros k. destruct k; reflexivity. Qed.

Lemma kmro_unfolds : forall k, kmro k = k :: match kparent k with Some p => kmro p | None => [] end.
Proof. intros k. destruct k; reflexivity. Qed.

Lemma gen_chain_eq : gen_chain = chain.
Proof. reflexivity. Qed.

Lemma gen_smgr_handlers_eq : gen_smgr_handlers = smgr_handlers.
Proof. reflexivity. Qed.

Lemma gen_roots_handlers_eq : gen_roots_handlers = roots_handlers.
Proof. reflexivity. Qed.

Lemma gen_emgr_handlers_eq : gen_emgr_handlers = emgr_handlers.
Proof. reflexivity. Qed.

Lemma gen_change_handlers_eq : gen_change_handlers = change_handlers.
Proof. reflexivity. Qed.
