(* FaultModel.v — executable model of the fault handling of the service loops (property C10).
   (a) the exception classes of cloudsync/exceptions.py with their subclass relation, and
       NotificationManager.notify_from_exception (notification.py) as the isinstance chain it is;
   (b) the error-handling skeleton of SyncManager.do / _sync_one_entry / _validate_provider_roots
       (sync/manager.py) and of EventManager.do / _reconnect_if_needed (event.py) as step machines over the
       outcome of one step, expressed through handler tables (class tuple + action list) that the translator
       harness/c10_translator.py regenerates from the except clauses of the current source (GenNotify.v);
       the loop around them is LoopModel (C18): outcome classes, backoff arithmetic, seq_loop;
   (c) the scheduler under a permanently failing entry: SchedModel (C17) pick_sorted + punt.
   Definitions only; proofs are in FaultProofs.v / FaultSched.v. *)
From Coq Require Import QArith Qround ZArith NArith List Bool.
From CS Require Import Sx LoopModel SchedModel.
Import ListNotations.
Open Scope Q_scope.

(* ------------------------------------------------------------------ (a) exception classes *)
(* every class defined in cloudsync/exceptions.py, plus Exception itself *)
Inductive known :=
| KException | KCloud | KFileNotFound | KTemporary | KFileName | KOutOfSpace | KRootMissing | KResourceModified
| KFileExists | KToken | KDisconnected | KCursor | KNamespace | KTooManyRetries | KCorrupt.

Definition all_known : list known :=
  [KException; KCloud; KFileNotFound; KTemporary; KFileName; KOutOfSpace; KRootMissing; KResourceModified;
   KFileExists; KToken; KDisconnected; KCursor; KNamespace; KTooManyRetries; KCorrupt].

Definition kcode (k : known) : N :=
  match k with
  | KException => 0 | KCloud => 1 | KFileNotFound => 2 | KTemporary => 3 | KFileName => 4 | KOutOfSpace => 5
  | KRootMissing => 6 | KResourceModified => 7 | KFileExists => 8 | KToken => 9 | KDisconnected => 10
  | KCursor => 11 | KNamespace => 12 | KTooManyRetries => 13 | KCorrupt => 14
  end%N.
Definition keqb (a b : known) : bool := N.eqb (kcode a) (kcode b).

(* the direct base class (class X(Base)); Exception has none here *)
Definition kparent (k : known) : option known :=
  match k with
  | KException => None
  | KCloud => Some KException
  | KOutOfSpace => Some KTemporary
  | KResourceModified => Some KTemporary
  | _ => Some KCloud
  end.

(* the class and its ancestors up to Exception (type(e).__mro__ cut at Exception) *)
Definition kmro (k : known) : list known :=
  match k with
  | KException => [KException]
  | KCloud => [KCloud; KException]
  | KOutOfSpace => [KOutOfSpace; KTemporary; KCloud; KException]
  | KResourceModified => [KResourceModified; KTemporary; KCloud; KException]
  | k => [k; KCloud; KException]
  end.

(* a class: one of the above, or a class defined elsewhere (a provider's own) deriving, by single inheritance,
   from a class: every class below Exception whose ancestry passes only through known classes and such classes *)
Inductive cls := K (k : known) | Sub (c : cls).
Fixpoint kbase (c : cls) : known := match c with K k => k | Sub c' => kbase c' end.

(* isinstance(e, k) for an exception e whose class is c *)
Definition isinst (c : cls) (k : known) : bool := existsb (keqb k) (kmro (kbase c)).
(* isinstance(e, (k1, k2, ...)) *)
Definition isany (c : cls) (ks : list known) : bool := existsb (isinst c) ks.

Inductive nkind := NDisconnected | NOutOfSpace | NFileName | NNamespace | NRootMissing | NTemporary.
Definition ncode (n : nkind) : N :=
  match n with NDisconnected => 0 | NOutOfSpace => 1 | NFileName => 2 | NNamespace => 3 | NRootMissing => 4
             | NTemporary => 5 end%N.

(* if isinstance(e, A): notify(NA) elif isinstance(e, B): notify(NB) ... else: log only *)
Definition notify_chain (ch : list (known * nkind)) (c : cls) : option nkind :=
  option_map snd (find (fun p => isinst c (fst p)) ch).

Definition chain : list (known * nkind) :=
  [(KDisconnected, NDisconnected); (KOutOfSpace, NOutOfSpace); (KFileName, NFileName); (KNamespace, NNamespace);
   (KRootMissing, NRootMissing); (KTemporary, NTemporary)].
Definition notify : cls -> option nkind := notify_chain chain.

(* ------------------------------------------------------------------ (b) handlers *)
(* what the body of an except clause does, in order *)
Inductive hact :=
| ANotify          (* self._nmgr.notify_from_exception(source, e) *)
| ANotifyIfCloud   (* if isinstance(e, ex.CloudException): notify_from_exception(...) *)
| APunt            (* sync.punt() *)
| ACommit          (* self.state.storage_commit() *)
| ACursorReset     (* drop the walk marker, cursor := latest, save, need_walk := True *)
| ANeedAuth        (* self.need_auth = True *)
| ABackoff.        (* self.backoff(): raises _BackoffError *)
Record handler := { h_classes : list known; h_acts : list hact }.

(* try/except dispatch: the first clause whose class tuple matches; None = the exception leaves the function *)
Definition dispatch (hs : list handler) (c : cls) : option (list hact) :=
  option_map h_acts (find (fun h => isany c (h_classes h)) hs).

(* SyncManager._sync_one_entry *)
Definition smgr_handlers : list handler :=
  [ {| h_classes := [KTemporary; KDisconnected; KOutOfSpace; KToken; KNamespace];
       h_acts := [ANotify; APunt; ABackoff] |};
    {| h_classes := [KException]; h_acts := [ANotifyIfCloud; APunt; ACommit; ABackoff] |} ].
(* SyncManager._validate_provider_roots *)
Definition roots_handlers : list handler :=
  [ {| h_classes := [KException]; h_acts := [ANotifyIfCloud; ABackoff] |} ].
(* SyncManager.do: the clause guarding `self.state.change(self.aging)` (its path fill-in calls the provider) *)
Definition change_handlers : list handler :=
  [ {| h_classes := [KCloud]; h_acts := [ANotify; ABackoff] |} ].
(* EventManager.do *)
Definition emgr_handlers : list handler :=
  [ {| h_classes := [KTemporary; KDisconnected; KNamespace]; h_acts := [ANotify; ABackoff] |};
    {| h_classes := [KCursor]; h_acts := [ACursorReset; ABackoff] |};
    {| h_classes := [KToken]; h_acts := [ANeedAuth; ABackoff] |} ].

(* effect of running an action list for an exception of class c *)
Record eff := {
  f_note : option nkind;    (* notification put on the queue *)
  f_punt : bool;            (* the entry was punted *)
  f_commit : bool;          (* storage_commit() was called *)
  f_cursor : bool;          (* the cursor was reset *)
  f_auth : bool;            (* need_auth was set *)
  f_raised : bool           (* the body ended by raising _BackoffError *)
}.
Definition eff0 : eff :=
  {| f_note := None; f_punt := false; f_commit := false; f_cursor := false; f_auth := false; f_raised := false |}.
Definition act1 (c : cls) (a : hact) (e : eff) : eff :=
  match a with
  | ANotify =>
    {| f_note := notify c; f_punt := f_punt e; f_commit := f_commit e; f_cursor := f_cursor e; f_auth := f_auth e; f_raised := f_raised e |}
  | ANotifyIfCloud =>
    {| f_note := if isinst c KCloud then notify c else f_note e;
       f_punt := f_punt e; f_commit := f_commit e; f_cursor := f_cursor e; f_auth := f_auth e; f_raised := f_raised e |}
  | APunt =>
    {| f_note := f_note e; f_punt := true; f_commit := f_commit e; f_cursor := f_cursor e; f_auth := f_auth e; f_raised := f_raised e |}
  | ACommit =>
    {| f_note := f_note e; f_punt := f_punt e; f_commit := true; f_cursor := f_cursor e; f_auth := f_auth e; f_raised := f_raised e |}
  | ACursorReset =>
    {| f_note := f_note e; f_punt := f_punt e; f_commit := f_commit e; f_cursor := true; f_auth := f_auth e; f_raised := f_raised e |}
  | ANeedAuth =>
    {| f_note := f_note e; f_punt := f_punt e; f_commit := f_commit e; f_cursor := f_cursor e; f_auth := true; f_raised := f_raised e |}
  | ABackoff =>
    {| f_note := f_note e; f_punt := f_punt e; f_commit := f_commit e; f_cursor := f_cursor e; f_auth := f_auth e; f_raised := true |}
  end.
(* statements after a raise are not executed *)
Fixpoint acts (c : cls) (l : list hact) (e : eff) : eff :=
  match l with
  | [] => e
  | a :: r => let e' := act1 c a e in if f_raised e' then e' else acts c r e'
  end.

(* ---- SyncManager.do: what one call did *)
Inductive sres :=
| SIdle                  (* state.change() returned None: sleep(aging), nothing_happened() *)
| SDone (did : bool)     (* pre_sync/sync returned; did = something_got_done *)
| SRaise (c : cls)       (* pre_sync or sync raised an Exception of class c *)
| SRoots (c : cls)       (* provider.set_root raised inside _validate_provider_roots *)
| SChange (c : cls).     (* state.change() itself raised (its path fill-in calls get_latest -> provider.info_oid) *)

Record seff := { s_eff : eff; s_out : outcome }.   (* outcome: LoopModel's classification of do() *)

Definition smgr_step (r : sres) : seff :=
  match r with
  | SIdle => {| s_eff := eff0; s_out := ONoop |}
  | SDone did =>
    {| s_eff := act1 (K KException) ACommit eff0; s_out := if did then ODid else ONoop |}
  | SRaise c =>
    match dispatch smgr_handlers c with
    | Some l => let e := acts c l eff0 in
                {| s_eff := e; s_out := if f_raised e then OBackoff else ONoop |}
    | None => {| s_eff := eff0; s_out := OExc |}
    end
  | SRoots c =>
    match dispatch roots_handlers c with
    | Some l => let e := acts c l eff0 in
                {| s_eff := e; s_out := if f_raised e then OBackoff else ONoop |}
    | None => {| s_eff := eff0; s_out := OExc |}
    end
  | SChange c =>
    match dispatch change_handlers c with
    | Some l => let e := acts c l eff0 in
                {| s_eff := e; s_out := if f_raised e then OBackoff else ONoop |}
    | None => {| s_eff := eff0; s_out := OExc |}
    end
  end.

(* ---- EventManager.do *)
Inductive rres := ROk | RRaise (c : cls).
Record einput := {
  i_conn : bool;              (* provider.connected when do() starts *)
  i_reconnect : rres;         (* what provider.reconnect() does if it is called *)
  i_reauth : option rres;     (* what self.reauthenticate() does if it is called; None = NotImplementedError *)
  i_body : rres               (* _validate_root() and _do_unsafe() *)
}.
Record eeff := {
  x_eff : eff; x_out : outcome;
  x_auth : bool;              (* need_auth after the call *)
  x_reconnect : bool;         (* provider.reconnect() was called *)
  x_reauth : bool             (* self.reauthenticate() was called *)
}.

(* _reconnect_if_needed: (result, need_auth after it, reconnect called, reauthenticate called) *)
Definition reconnect_phase (auth : bool) (i : einput) : rres * bool * bool * bool :=
  if i_conn i then (ROk, auth, false, false)
  else if auth then
    match i_reconnect i with
    | ROk => (ROk, false, true, false)
    | RRaise c =>
      if isinst c KToken then
        match i_reauth i with
        | None => (RRaise (K KToken), auth, true, true)       (* raise CloudTokenError("No auth method defined") *)
        | Some ROk => (ROk, false, true, true)
        | Some (RRaise c2) => (RRaise c2, auth, true, true)
        end
      else (RRaise c, auth, true, false)
    end
  else
    match i_reconnect i with
    | ROk => (ROk, auth, true, false)
    | RRaise c => (RRaise c, auth, true, false)
    end.

Definition emgr_step (auth : bool) (i : einput) : eeff :=
  let '(r, auth1, rc, ra) := reconnect_phase auth i in
  let r' := match r with ROk => i_body i | RRaise c => RRaise c end in
  match r' with
  | ROk => {| x_eff := eff0; x_out := ODid; x_auth := auth1; x_reconnect := rc; x_reauth := ra |}
  | RRaise c =>
    match dispatch emgr_handlers c with
    | Some l => let e := acts c l eff0 in
                {| x_eff := e; x_out := if f_raised e then OBackoff else ODid;
                   x_auth := f_auth e || auth1; x_reconnect := rc; x_reauth := ra |}
    | None => {| x_eff := eff0; x_out := OExc; x_auth := auth1; x_reconnect := rc; x_reauth := ra |}
    end
  end.

(* ---- the loops: LoopModel.seq_loop over the outcomes the managers produce *)
Definition smgr_outs (rs : list sres) : list outcome := map (fun r => s_out (smgr_step r)) rs.
Fixpoint emgr_outs (auth : bool) (is : list einput) : list outcome :=
  match is with
  | [] => []
  | i :: r => let x := emgr_step auth i in x_out x :: emgr_outs (x_auth x) r
  end.
Fixpoint emgr_auth (auth : bool) (is : list einput) : bool :=
  match is with [] => auth | i :: r => emgr_auth (x_auth (emgr_step auth i)) r end.

(* ------------------------------------------------------------------ (c) the scheduler under a failing entry *)
(* the change set as SchedModel.pick_sorted sees it: entries tagged with their identity, in set order *)
Definition table := list (nat * ent).
Inductive pick_res :=
| PIdle              (* change() returned None *)
| PGood (i : nat)    (* entry i was picked and synchronised: it leaves the change set *)
| PFail (i : nat)    (* entry i was picked, its step raised: punted (SyncEntry.punt) *)
| PBad.              (* punt returned Bad: impossible (FaultSched.punt_total); never a normal-looking value *)

Definition replace_ent (i : nat) (e : ent) (l : table) : table :=
  map (fun x => if Nat.eqb (fst x) i then (i, e) else x) l.
Definition remove_ent (i : nat) (l : table) : table := filter (fun x => negb (Nat.eqb (fst x) i)) l.

(* one SyncManager.do with threshold et (= now - age as change() computes it) *)
Definition sched_step (c : cfg) (failing : nat -> bool) (et : Q) (l : table) : table * pick_res :=
  match pick_sorted et l with
  | None => (l, PIdle)
  | Some (i, e) =>
    if failing i then
      match punt c e with
      | Ok e' => (replace_ent i e' l, PFail i)
      | Bad => (l, PBad)
      end
    else (remove_ent i l, PGood i)
  end.
Fixpoint sched_run (c : cfg) (failing : nat -> bool) (ets : list Q) (l : table) : list pick_res * table :=
  match ets with
  | [] => ([], l)
  | et :: r =>
    let '(l1, p) := sched_step c failing et l in
    let '(ps, lf) := sched_run c failing r l1 in (p :: ps, lf)
  end.

(* how often entry x can be picked before the good entry with priority ph *)
Definition weight (failing : nat -> bool) (ph : Q) (x : nat * ent) : nat :=
  if failing (fst x) then Z.to_nat (Qfloor (ph - pri (snd x)) + 1) else 1%nat.
Fixpoint budget (failing : nat -> bool) (h : nat) (ph : Q) (l : table) : nat :=
  match l with
  | [] => O
  | x :: r => ((if Nat.eqb (fst x) h then O else weight failing ph x) + budget failing h ph r)%nat
  end.

(* ------------------------------------------------------------------ wire protocol *)
Definition un_known (x : sx) : option known :=
  match x with A n => find (fun k => N.eqb (kcode k) n) all_known | L _ => None end.
Fixpoint subs (n : nat) (c : cls) : cls := match n with O => c | S m => Sub (subs m c) end.
(* (code depth): a class `depth` levels of foreign subclasses below the known class *)
Definition un_cls (x : sx) : option cls :=
  match x with
  | L [k; A d] => match un_known k with Some k => Some (subs (N.to_nat d) (K k)) | None => None end
  | _ => None
  end.
Definition sx_note (n : option nkind) : sx := sx_opt (fun k => A (ncode k)) n.
Definition out_code (o : outcome) : N :=
  match o with ODid => 0 | ONoop => 1 | OBackoff => 2 | OExc => 3 | OBaseExc => 4 end%N.

Definition un_sres (x : sx) : option sres :=
  match x with
  | L [A 0%N] => Some SIdle
  | L [A 1%N; d] => match un_bool d with Some d => Some (SDone d) | None => None end
  | L [A 2%N; c] => match un_cls c with Some c => Some (SRaise c) | None => None end
  | L [A 3%N; c] => match un_cls c with Some c => Some (SRoots c) | None => None end
  | L [A 4%N; c] => match un_cls c with Some c => Some (SChange c) | None => None end
  | _ => None
  end.
Definition un_rres (x : sx) : option rres :=
  match x with
  | L [] => Some ROk
  | L [c] => match un_cls c with Some c => Some (RRaise c) | None => None end
  | _ => None
  end.
Definition un_einput (x : sx) : option einput :=
  match x with
  | L [cn; rc; ra; bd] =>
    match un_bool cn, un_rres rc, un_opt un_rres ra, un_rres bd with
    | Some cn, Some rc, Some ra, Some bd =>
      Some {| i_conn := cn; i_reconnect := rc; i_reauth := ra; i_body := bd |}
    | _, _, _, _ => None
    end
  | _ => None
  end.
Definition un_lparams (x : sx) : option params :=
  match x with
  | L [a; b; c; d] =>
    match SchedModel.un_q a, SchedModel.un_q b, SchedModel.un_q c, SchedModel.un_q d with
    | Some a, Some b, Some c, Some d => Some {| p_min := a; p_max := b; p_mult := c; p_sleep := d |}
    | _, _, _, _ => None
    end
  | _ => None
  end.

Definition sx_eff (e : eff) : list sx :=
  [sx_note (f_note e); sx_bool (f_punt e); sx_bool (f_commit e); sx_bool (f_cursor e); sx_bool (f_auth e)].

(* per step: (note punt commit cursor auth outcome backoff-after) *)
Fixpoint smgr_trace (p : params) (b : Q) (rs : list sres) : list sx :=
  match rs with
  | [] => []
  | r :: t =>
    let s := smgr_step r in
    let b' := after_do p b (s_out s) in
    L (sx_eff (s_eff s) ++ [A (out_code (s_out s)); SchedModel.sx_q b']) :: smgr_trace p b' t
  end.
(* per step: (note punt commit cursor auth outcome backoff-after need_auth-after reconnect-called reauth-called) *)
Fixpoint emgr_trace (p : params) (b : Q) (auth : bool) (is : list einput) : list sx :=
  match is with
  | [] => []
  | i :: t =>
    let x := emgr_step auth i in
    let b' := after_do p b (x_out x) in
    L (sx_eff (x_eff x) ++ [A (out_code (x_out x)); SchedModel.sx_q b'; sx_bool (x_auth x); sx_bool (x_reconnect x);
                             sx_bool (x_reauth x)]) :: emgr_trace p b' (x_auth x) t
  end.

Definition sx_pick_res (p : pick_res) : sx :=
  match p with
  | PIdle => L [A 0%N] | PGood i => L [A 1%N; sx_nat i] | PFail i => L [A 2%N; sx_nat i] | PBad => L [A 3%N]
  end.
Definition memb (l : list nat) (i : nat) : bool := existsb (Nat.eqb i) l.

Definition run (x : sx) : sx :=
  match x with
  (* (0 cls) : notify_from_exception *)
  | L [A 0%N; c] => match un_cls c with Some c => sx_note (notify c) | None => sx_malformed end
  (* (1 cls k) : isinstance *)
  | L [A 1%N; c; k] =>
    match un_cls c, un_known k with Some c, Some k => sx_bool (isinst c k) | _, _ => sx_malformed end
  (* (2 params b0 (sres...)) : SyncManager steps *)
  | L [A 2%N; ps; b0; rs] =>
    match un_lparams ps, SchedModel.un_q b0, un_list un_sres rs with
    | Some p, Some b, Some rs => L (smgr_trace p b rs)
    | _, _, _ => sx_malformed
    end
  (* (3 params b0 need_auth (einput...)) : EventManager steps *)
  | L [A 3%N; ps; b0; au; is] =>
    match un_lparams ps, SchedModel.un_q b0, un_bool au, un_list un_einput is with
    | Some p, Some b, Some au, Some is => L (emgr_trace p b au is)
    | _, _, _, _ => sx_malformed
    end
  (* (4 (puntL puntR) (failing tags) ((pri chL chR) ...) (et ...)) : scheduler under failing entries, ideal arithmetic *)
  | L [A 4%N; L [pl; pr]; fs; tab; ets] =>
    match SchedModel.un_q pl, SchedModel.un_q pr, un_list un_nat fs, un_list un_tab_ent tab, un_list SchedModel.un_q ets with
    | Some pl, Some pr, Some fs, Some l, Some ets =>
      let t := number 0 l in
      let '(ps, lf) := sched_run (cfg_exact pl pr) (memb fs) ets t in
      L [sx_list sx_pick_res ps;
         sx_list (fun y => L [sx_nat (fst y); SchedModel.sx_q (pri (snd y))]) lf;
         sx_list (fun h => sx_nat (budget (memb fs) (fst h) (pri (snd h)) t)) t]
    | _, _, _, _, _ => sx_malformed
    end
  | _ => sx_malformed
  end.
