(* TreeCanon.v — the executable comparison [same_tree] (canonical sorted forms are equal) is
   exactly extensional equivalence [teq] on trees with unique keys. *)
From Coq Require Import NArith List Bool Lia Permutation.
From CS Require Import Sx TreeModel TreePaths TreeLookup.
Import ListNotations.

(* ------------------------------------------------------------------ path_leb is a total order *)
Lemma leb_cons_lt (x y : name) (a b : path) : (x < y)%N -> path_leb (x :: a) (y :: b) = true.
Proof. intros H. simpl. apply N.ltb_lt in H. rewrite H. reflexivity. Qed.

Lemma leb_cons_eq (x : name) (a b : path) : path_leb (x :: a) (x :: b) = path_leb a b.
Proof. simpl. rewrite N.ltb_irrefl, N.eqb_refl. reflexivity. Qed.

Lemma leb_cons_gt (x y : name) (a b : path) : (y < x)%N -> path_leb (x :: a) (y :: b) = false.
Proof.
  intros H. simpl.
  assert (H1 : N.ltb x y = false) by (apply N.ltb_ge; lia).
  assert (H2 : N.eqb x y = false) by (apply N.eqb_neq; lia).
  rewrite H1, H2. reflexivity.
Qed.

Lemma path_leb_total a b : path_leb a b = true \/ path_leb b a = true.
Proof.
  revert b; induction a as [|x a IH]; intros b; [left; reflexivity|].
  destruct b as [|y b]; [right; reflexivity|].
  destruct (N.lt_trichotomy x y) as [H|[H|H]].
  - left. apply leb_cons_lt. exact H.
  - subst. rewrite !leb_cons_eq. apply IH.
  - right. apply leb_cons_lt. exact H.
Qed.

Lemma path_leb_antisym a b : path_leb a b = true -> path_leb b a = true -> a = b.
Proof.
  revert b; induction a as [|x a IH]; intros b H1 H2.
  - destruct b; [reflexivity|discriminate].
  - destruct b as [|y b]; [discriminate|].
    destruct (N.lt_trichotomy x y) as [H|[H|H]].
    + rewrite (leb_cons_gt y x b a H) in H2. discriminate.
    + subst. rewrite leb_cons_eq in H1, H2. f_equal. apply IH; assumption.
    + rewrite (leb_cons_gt x y a b H) in H1. discriminate.
Qed.

Lemma path_leb_trans a b c : path_leb a b = true -> path_leb b c = true -> path_leb a c = true.
Proof.
  revert b c; induction a as [|x a IH]; intros b c H1 H2; [reflexivity|].
  destruct b as [|y b]; [discriminate|]. destruct c as [|z c]; [discriminate|].
  destruct (N.lt_trichotomy x y) as [Hxy|[Hxy|Hxy]].
  - destruct (N.lt_trichotomy y z) as [Hyz|[Hyz|Hyz]].
    + apply leb_cons_lt. lia.
    + subst. apply leb_cons_lt. exact Hxy.
    + rewrite (leb_cons_gt y z b c Hyz) in H2. discriminate.
  - subst y. destruct (N.lt_trichotomy x z) as [Hyz|[Hyz|Hyz]].
    + apply leb_cons_lt. exact Hyz.
    + subst. rewrite leb_cons_eq in *. eapply IH; eassumption.
    + rewrite (leb_cons_gt x z b c Hyz) in H2. discriminate.
  - rewrite (leb_cons_gt x y a b Hxy) in H1. discriminate.
Qed.

(* ------------------------------------------------------------------ insertion *)
Lemma insert_perm e t : Permutation (insert_sorted e t) (e :: t).
Proof.
  induction t as [|f t IH]; simpl; [apply Permutation_refl|].
  destruct (path_leb (fst e) (fst f)); [apply Permutation_refl|].
  eapply Permutation_trans; [apply perm_skip; exact IH|apply perm_swap].
Qed.

Lemma canon_perm t : Permutation (canon t) t.
Proof.
  induction t as [|e t IH]; simpl; [constructor|].
  eapply Permutation_trans; [apply insert_perm|apply perm_skip; exact IH].
Qed.

Lemma insert_two (e f : path * node) :
  fst e <> fst f ->
  (if path_leb (fst e) (fst f) then [e; f] else [f; e]) =
  (if path_leb (fst f) (fst e) then [f; e] else [e; f]).
Proof.
  intros Hne. destruct (path_leb (fst e) (fst f)) eqn:E1; destruct (path_leb (fst f) (fst e)) eqn:E2;
    try reflexivity.
  - exfalso. apply Hne. apply path_leb_antisym; assumption.
  - destruct (path_leb_total (fst e) (fst f)); congruence.
Qed.

Lemma insert_comm (e f : path * node) t :
  fst e <> fst f ->
  insert_sorted e (insert_sorted f t) = insert_sorted f (insert_sorted e t).
Proof.
  intros Hne. induction t as [|g t IH].
  - simpl. apply insert_two. exact Hne.
  - simpl. destruct (path_leb (fst f) (fst g)) eqn:Efg; destruct (path_leb (fst e) (fst g)) eqn:Eeg;
      simpl; rewrite ?Efg, ?Eeg.
    + destruct (path_leb (fst e) (fst f)) eqn:E1; destruct (path_leb (fst f) (fst e)) eqn:E2;
        simpl; rewrite ?Efg, ?Eeg; try reflexivity.
      * exfalso. apply Hne. apply path_leb_antisym; assumption.
      * destruct (path_leb_total (fst e) (fst f)); congruence.
    + destruct (path_leb (fst e) (fst f)) eqn:E1.
      * rewrite (path_leb_trans _ _ _ E1 Efg) in Eeg. discriminate.
      * simpl. rewrite ?Efg, ?Eeg. reflexivity.
    + destruct (path_leb (fst f) (fst e)) eqn:E2.
      * rewrite (path_leb_trans _ _ _ E2 Eeg) in Efg. discriminate.
      * simpl. rewrite ?Efg, ?Eeg. reflexivity.
    + rewrite IH. reflexivity.
Qed.

Lemma canon_perm_eq a b : Permutation a b -> NoDup (map fst a) -> canon a = canon b.
Proof.
  intros H. induction H as [|x l l' H IH|x y l|l l' l'' H1 IH1 H2 IH2]; intros Hnd.
  - reflexivity.
  - simpl. inversion Hnd; subst. rewrite IH by assumption. reflexivity.
  - simpl. apply insert_comm. simpl in Hnd. inversion Hnd as [|k m Hnot _]; subst.
    intros Heq. apply Hnot. left. symmetry. exact Heq.
  - rewrite IH1 by exact Hnd. apply IH2.
    eapply Permutation_NoDup; [apply Permutation_map; exact H1|exact Hnd].
Qed.

(* ------------------------------------------------------------------ boolean equalities *)
Lemma node_eqb_eq n m : node_eqb n m = true <-> n = m.
Proof.
  destruct n as [|c], m as [|d]; simpl; split; intros H; try reflexivity; try discriminate.
  - apply N.eqb_eq in H. congruence.
  - inversion H. apply N.eqb_refl.
Qed.

Lemma tree_eqb_eq a b : tree_eqb a b = true <-> a = b.
Proof.
  revert b; induction a as [|[p n] a IH]; intros [|[q m] b]; simpl; split; intros H;
    try reflexivity; try discriminate.
  - apply andb_true_iff in H as [H H3]. apply andb_true_iff in H as [H1 H2].
    apply path_eqb_eq in H1. apply node_eqb_eq in H2. apply IH in H3. congruence.
  - inversion H; subst. rewrite path_eqb_refl. simpl.
    assert (Hn : node_eqb m m = true) by (apply node_eqb_eq; reflexivity).
    rewrite Hn. simpl. apply IH. reflexivity.
Qed.

(* ------------------------------------------------------------------ the bridge *)
Lemma teq_In a b :
  NoDup (map fst a) -> NoDup (map fst b) -> teq a b -> forall e, In e a <-> In e b.
Proof.
  intros Ha Hb H [k n]. split; intros Hin.
  - apply lookup_In. rewrite <- H. apply In_lookup; assumption.
  - apply lookup_In. rewrite H. apply In_lookup; assumption.
Qed.

Lemma perm_teq a b :
  NoDup (map fst a) -> NoDup (map fst b) -> Permutation a b -> teq a b.
Proof.
  intros Ha Hb Hp p.
  destruct (lookup a p) as [n|] eqn:Ea.
  - symmetry. apply In_lookup; [exact Hb|]. eapply Permutation_in; [exact Hp|]. apply lookup_In. exact Ea.
  - destruct (lookup b p) as [m|] eqn:Eb; [|reflexivity].
    assert (H : lookup a p = Some m).
    { apply In_lookup; [exact Ha|]. eapply Permutation_in; [apply Permutation_sym; exact Hp|].
      apply lookup_In. exact Eb. }
    congruence.
Qed.

Theorem same_tree_iff_teq a b :
  NoDup (map fst a) -> NoDup (map fst b) -> (same_tree a b = true <-> teq a b).
Proof.
  intros Ha Hb. unfold same_tree. rewrite tree_eqb_eq. split; intros H.
  - apply perm_teq; try assumption.
    eapply Permutation_trans; [apply Permutation_sym; apply canon_perm|].
    rewrite H. apply canon_perm.
  - apply canon_perm_eq; [|exact Ha].
    apply NoDup_Permutation.
    + eapply NoDup_map_inv. exact Ha.
    + eapply NoDup_map_inv. exact Hb.
    + apply teq_In; assumption.
Qed.

(* same_tree is an equivalence (no well-formedness needed) *)
Lemma same_tree_refl a : same_tree a a = true.
Proof. unfold same_tree. apply tree_eqb_eq. reflexivity. Qed.

Lemma same_tree_sym a b : same_tree a b = true -> same_tree b a = true.
Proof. unfold same_tree. rewrite !tree_eqb_eq. congruence. Qed.

Lemma same_tree_trans a b c : same_tree a b = true -> same_tree b c = true -> same_tree a c = true.
Proof. unfold same_tree. rewrite !tree_eqb_eq. congruence. Qed.
