(* SmartModel.v — C20, on-demand sync (cloudsync/smartsync.py).  Executable definitions only.
   Three layers, all parameterised by an arbitrary auto-sync predicate [auto : path -> bool]:
   (a) GATE  — the mechanism: entry tables (local side, remote side, remote otype), the request set, the exclude
       set, [changeset_filter] (SmartSyncState._changeset: which pending entries are offered to the sync step),
       [pre_sync] (SmartSyncManager.pre_sync: which offered entries are finished WITHOUT a transfer),
       [g_request] (request: clear a stale local side, mark the remote side changed, parents first),
       [g_unrequest] (push local edits, delete the local copy only), [g_listdir] (the merged listing).
   (b) SPEC  — big-step expected outcomes [sstep] over (remote tree, local tree, requested, excluded, locally born),
       every action followed by quiescence; [listing].
   (c) MONITOR — acceptor of observation traces of real runs: between quiescent points the only admissible
       oracle.  A new local file whose remote file exists needs requested ∪ (auto \ excluded); a remote file never
       disappears through an engine action unless a user deleted the local copy, and never inside an un-request;
       inside an un-request only the content of the un-requested remote file and the presence of its local copy
       may change.
   Tied to the real code on every run by harness/checks/c20.py. *)
From Coq Require Import NArith List Bool.
From CS Require Import Sx TreeModel.
Import ListNotations.

(* ------------------------------------------------------------------ small sets *)
Definition pmem (p : path) (l : list path) : bool := existsb (path_eqb p) l.
Definition padd (p : path) (l : list path) : list path := if pmem p l then l else p :: l.
Definition pdel (p : path) (l : list path) : list path := filter (fun q => negb (path_eqb p q)) l.
Definition kmem (k : N) (l : list N) : bool := existsb (N.eqb k) l.
Definition kadd (k : N) (l : list N) : list N := if kmem k l then l else l ++ [k].
Definition kdel (k : N) (l : list N) : list N := filter (fun q => negb (N.eqb k q)) l.
Definition isnone {T} (o : option T) : bool := match o with None => true | Some _ => false end.
Definition is_file (t : tree) (p : path) : bool := match lookup t p with Some (File _) => true | _ => false end.

(* the three predicate shapes the harness registers; theorems are about an arbitrary [auto] *)
Inductive autospec := ANone | AExt (names : list N) | AUnder (d : path).
Definition auto_of (a : autospec) (p : path) : bool :=
  match a with
  | ANone => false
  | AExt ns => match p with [] => false | _ => kmem (last p 0%N) ns end
  | AUnder d => strict_prefix d p
  end.

(* ================================================================== (a) GATE *)
Inductive ex := XUnknown | XExists | XTrashed | XLikely | XMissing | XCorrupt.
Definition ex_gone (e : ex) : bool := match e with XTrashed | XMissing => true | _ => false end.
Definition ex_is_exists (e : ex) : bool := match e with XExists => true | _ => false end.

Record gside := {
  g_oid : option N; g_path : option path; g_changed : bool; g_exists : ex;
  g_hash : option N; g_sync_hash : option N; g_sync_path : option path;
  g_size : N; g_mtime : N        (* 0 = None or 0: only truthiness is used (listing) *)
}.
Record gent := {
  g_key : N;                      (* identity of the SyncEntry object *)
  g_loc : gside; g_rem : gside;
  g_dir : bool;                   (* sync[REMOTE].otype == DIRECTORY *)
  g_lfresh : bool;                (* the LOCAL change stamp is not newer than what get_latest last saw (on both sides) *)
  g_rfresh : bool;                (* the same for the REMOTE change stamp; is_latest() = both *)
  g_discarded : bool;             (* is_discarded *)
  g_conflicted : bool             (* is_conflicted *)
}.
Definition g_latest (e : gent) : bool := g_lfresh e && g_rfresh e.      (* SyncEntry.is_latest() *)
Record rinfo := {                 (* providers[REMOTE].info_oid(oid) *)
  r_oid : N; r_path : path; r_hash : option N; r_isdir : bool; r_size : N; r_mtime : N
}.
Record gworld := {                (* what the providers hold right now *)
  w_lpaths : list path;           (* LOCAL exists_path *)
  w_loids : list N;               (* LOCAL exists_oid *)
  w_lhash : list (N * N);         (* LOCAL oid -> current hash (info_oid().hash) *)
  w_robjs : list rinfo            (* REMOTE objects by oid (only read when a request by id has to fill a path in) *)
}.
Record gst := {
  g_ents : list gent;
  g_changeset : list N;           (* _changeset_storage *)
  g_req : list N;                 (* requestset *)
  g_exc : list N                  (* excludeset *)
}.

(* SyncState.updated(ent, side, "changed", val): the stored change set after one side's stamp is written;
   [mine] = val is truthy and this side has an oid, [other] = the other side is changed and has an oid *)
Definition cs_after_changed (cs : list N) (k : N) (mine other : bool) : list N :=
  if mine || other then kadd k cs else kdel k cs.
Definition has_oid (s : gside) : bool := negb (isnone (g_oid s)).
Definition pending (s : gside) : bool := g_changed s && has_oid s.
(* in the discard branch a change stamp on a side WITHOUT an oid is zeroed *)
Definition zero_orphan (mine other : bool) (s : gside) : gside :=
  if mine || other then s
  else {| g_oid := g_oid s; g_path := g_path s; g_changed := g_changed s && has_oid s; g_exists := g_exists s;
          g_hash := g_hash s; g_sync_hash := g_sync_hash s; g_sync_path := g_sync_path s;
          g_size := g_size s; g_mtime := g_mtime s |}.

Definition cleared : gside :=      (* SideState.clear() *)
  {| g_oid := None; g_path := None; g_changed := false; g_exists := XUnknown; g_hash := None;
     g_sync_hash := None; g_sync_path := None; g_size := 0; g_mtime := 0 |}.

Fixpoint find_ent (l : list gent) (k : N) : option gent :=
  match l with
  | [] => None
  | e :: r => if N.eqb (g_key e) k then Some e else find_ent r k
  end.
Definition put_ent (l : list gent) (e : gent) : list gent :=
  map (fun x => if N.eqb (g_key x) (g_key e) then e else x) l.

Definition opt_path_eqb (a b : option path) : bool :=
  match a, b with
  | Some p, Some q => path_eqb p q
  | None, None => true
  | _, _ => false
  end.
Definition opt_n_eqb (a b : option N) : bool :=
  match a, b with
  | Some p, Some q => N.eqb p q
  | None, None => true
  | _, _ => false
  end.

(* SmartSyncState._smart_sync_ent: a local path that no longer exists makes the entry look new on the remote side.
   [_legacy] = the code before repair 2277c0d, which registered folders too *)
Definition g_state_request_legacy (w : gworld) (st : gst) (e : gent) : gst :=
  let stale := match g_path (g_loc e) with Some p => negb (pmem p (w_lpaths w)) | None => false end in
  let e' := if stale then
              {| g_key := g_key e; g_loc := cleared;
                 g_rem := {| g_oid := g_oid (g_rem e); g_path := g_path (g_rem e); g_changed := true;
                             (* update_entry(ent, REMOTE, None, changed=True) has exists=True by default *)
                             g_exists := match g_exists (g_rem e) with
                                         | XTrashed => XLikely | XCorrupt => XCorrupt | _ => XExists end;
                             g_hash := g_hash (g_rem e);
                             g_sync_hash := None; g_sync_path := None;
                             g_size := g_size (g_rem e); g_mtime := g_mtime (g_rem e) |};
                 g_dir := g_dir e; g_lfresh := true; g_rfresh := false; g_discarded := g_discarded e; g_conflicted := g_conflicted e |}
            else e in
  {| g_ents := put_ent (g_ents st) e';
     (* clear() drops the entry from the stored change set unless the remote side is pending; mark_changed puts it back
        when the remote side has an oid *)
     g_changeset := if stale then (if isnone (g_oid (g_rem e)) then kdel (g_key e) (g_changeset st)
                                   else kadd (g_key e) (g_changeset st))
                    else g_changeset st;
     g_req := kadd (g_key e) (g_req st);
     g_exc := kdel (g_key e) (g_exc st) |}.
(* repaired (2277c0d): folders are always mirrored, a request of a folder registers nothing *)
Definition g_state_request (w : gworld) (st : gst) (e : gent) : gst :=
  if g_dir e then st else g_state_request_legacy w st e.

Section Gate.
Variable auto : path -> bool.

(* SmartSyncState._changeset: fold over the stored change set; returns the state (auto-matched entries become
   requested) and the keys offered to the sync step, in storage order *)
Definition offer_one (w : gworld) (acc : gst * list N) (k : N) : gst * list N :=
  let (st, out) := acc in
  match find_ent (g_ents st) k with
  | None => acc
  | Some e =>
    if kmem k (g_exc st) && negb (g_changed (g_loc e)) then acc
    else if kmem k (g_req st) then (st, out ++ [k])
    else if g_dir e then (st, out ++ [k])
    else if (g_changed (g_rem e) || g_changed (g_loc e)) && negb (g_latest e) then (st, out ++ [k])
    else if isnone (g_oid (g_loc e)) then
      match g_path (g_rem e) with
      | Some p => if auto p then (g_state_request w st e, out ++ [k]) else acc
      | None => acc
      end
    else acc
  end.
Definition changeset_filter (w : gworld) (st : gst) : gst * list N :=
  fold_left (offer_one w) (g_changeset st) (st, []).

(* SmartSyncManager.pre_sync: true = finished here, the sync step (the only place that transfers) is not run *)
Definition local_file (w : gworld) (e : gent) : bool :=
  match g_oid (g_loc e) with Some o => kmem o (w_loids w) | None => false end.
Definition pre_sync (w : gworld) (st : gst) (e : gent) : bool :=
  g_discarded e || negb (local_file w e || kmem (g_key e) (g_req st) || g_dir e).
End Gate.

(* what "offered for download" can mean at this layer: the entry reaches the sync step *)
Definition reaches_sync (auto : path -> bool) (w : gworld) (st : gst) (k : N) : bool :=
  let (st', out) := changeset_filter auto w st in
  kmem k out && match find_ent (g_ents st') k with Some e => negb (pre_sync w st' e) | None => false end.

(* ---- request (SmartCloudSync._smart_sync_ent): parents first *)
Fixpoint ancestors_fuel (n : nat) (p : path) : list path :=      (* nearest first, the account root last *)
  match n with
  | O => []
  | S n' => match p with [] => [] | _ => removelast p :: ancestors_fuel n' (removelast p) end
  end.
Definition ancestors (p : path) : list path := ancestors_fuel (length p) p.
(* state.lookup_path(REMOTE, path): indexed, not discarded, not conflicted *)
Definition lookup_rpath (st : gst) (p : path) : list gent :=
  filter (fun e => opt_path_eqb (g_path (g_rem e)) (Some p) && negb (isnone (g_oid (g_rem e)))
                   && negb (g_discarded e) && negb (g_conflicted e)) (g_ents st).
(* SyncManager._get_parent_conflict(sync, REMOTE): the LAST changed, existing entry met while walking up *)
Definition parent_conflict (st : gst) (p : path) : option gent :=
  fold_left (fun acc q =>
               fold_left (fun acc e => if g_changed (g_rem e) && ex_is_exists (g_exists (g_rem e)) then Some e else acc)
                         (lookup_rpath st q) acc)
            (ancestors p) None.
(* SmartSyncManager.get_parent_conflicts: repeat from the conflict found, then reverse *)
Fixpoint parent_conflicts_from (fuel : nat) (st : gst) (cur : gent) (acc : list N) : list N :=
  match fuel with
  | O => acc
  | S f =>
    match g_path (g_rem cur) with
    | None => acc
    | Some p =>
      match parent_conflict st p with
      | Some pc => if opt_path_eqb (g_path (g_rem pc)) (Some p) then acc
                   else parent_conflicts_from f st pc (g_key pc :: acc)
      | None => acc
      end
    end
  end.
Definition request_plan (st : gst) (e : gent) : list N :=
  parent_conflicts_from (S (length (g_ents st))) st e [] ++ [g_key e].
(* the whole request: state part [sr], then the entry is marked changed on the remote side and pushed through the
   gate + sync step after its parents *)
Definition g_request_core (sr : gworld -> gst -> gent -> gst) (w : gworld) (st : gst) (e : gent) : gst * option (list N) :=
  let st1 := sr w st e in
  match find_ent (g_ents st1) (g_key e) with
  | Some e1 =>
    match g_path (g_rem e1) with
    | None =>
      (* the remote path is unknown: get_parent_conflicts calls provider.dirname(None) and the call raises
         AttributeError AFTER the state-level request took effect *)
      (st1, None)
    | Some _ =>
      let mine := has_oid (g_rem e1) in
      let other := pending (g_loc e1) in
      let e2 := {| g_key := g_key e1; g_loc := zero_orphan mine other (g_loc e1);
                   g_rem := {| g_oid := g_oid (g_rem e1); g_path := g_path (g_rem e1); g_changed := true;
                               g_exists := g_exists (g_rem e1); g_hash := g_hash (g_rem e1);
                               g_sync_hash := g_sync_hash (g_rem e1); g_sync_path := g_sync_path (g_rem e1);
                               g_size := g_size (g_rem e1); g_mtime := g_mtime (g_rem e1) |};
                   g_dir := g_dir e1; g_lfresh := g_lfresh e1; g_rfresh := false; g_discarded := g_discarded e1; g_conflicted := g_conflicted e1 |} in
      ({| g_ents := put_ent (g_ents st1) e2;
          g_changeset := cs_after_changed (g_changeset st1) (g_key e) mine other;
          g_req := g_req st1; g_exc := g_exc st1 |}, Some (request_plan st1 e1))
    end
  | None => (st1, Some [])
  end.
(* the code before the repairs fc0a567 / 2277c0d (kept for the refutations in PropC20.v) *)
Definition g_request_legacy (w : gworld) (st : gst) (e : gent) : gst * option (list N) :=
  g_request_core g_state_request_legacy w st e.

(* SyncState.unconditionally_get_latest(ent, REMOTE) for an id-stable provider *)
Definition find_robj (w : gworld) (o : N) : option rinfo := find (fun x => N.eqb (r_oid x) o) (w_robjs w).
Definition remote_newly_changed (w : gworld) (e : gent) : bool :=
  let r := g_rem e in
  match g_oid r with
  | Some o =>
    match find_robj w o with
    | Some i => (negb (opt_n_eqb (g_hash r) (r_hash i)) || negb (opt_path_eqb (g_path r) (Some (r_path i))))
                && negb (g_changed r) && negb (g_discarded e) && negb (g_conflicted e)
    | None => false
    end
  | None => false
  end.
Definition g_refresh_remote (w : gworld) (e : gent) : gent :=
  let r := g_rem e in
  match g_oid r with
  | None =>
    {| g_key := g_key e; g_loc := g_loc e;
       g_rem := {| g_oid := None; g_path := g_path r; g_changed := g_changed r;
                   g_exists := if ex_gone (g_exists r) then g_exists r else XUnknown;
                   g_hash := g_hash r; g_sync_hash := g_sync_hash r; g_sync_path := g_sync_path r;
                   g_size := g_size r; g_mtime := g_mtime r |};
       g_dir := g_dir e; g_lfresh := g_lfresh e; g_rfresh := g_rfresh e; g_discarded := g_discarded e;
       g_conflicted := g_conflicted e |}
  | Some o =>
    match find_robj w o with
    | Some i =>
      {| g_key := g_key e; g_loc := g_loc e;
         g_rem := {| g_oid := Some o; g_path := Some (r_path i); g_changed := g_changed r || remote_newly_changed w e;
                     g_exists := match g_exists r with XCorrupt => XCorrupt | _ => XExists end;
                     g_hash := r_hash i; g_sync_hash := g_sync_hash r; g_sync_path := g_sync_path r;
                     g_size := r_size i; g_mtime := r_mtime i |};
         g_dir := r_isdir i; g_lfresh := g_lfresh e; g_rfresh := g_rfresh e && negb (remote_newly_changed w e);
         g_discarded := g_discarded e; g_conflicted := g_conflicted e |}
    | None =>
      {| g_key := g_key e; g_loc := g_loc e;
         g_rem := {| g_oid := Some o; g_path := g_path r; g_changed := g_changed r;
                     g_exists := match g_exists r with XCorrupt => XCorrupt | _ => XTrashed end;
                     g_hash := g_hash r; g_sync_hash := g_sync_hash r; g_sync_path := g_sync_path r;
                     g_size := match g_exists r with XCorrupt => g_size r | _ => 0 end;
                     g_mtime := match g_exists r with XCorrupt => g_mtime r | _ => 0 end |};
         g_dir := g_dir e; g_lfresh := g_lfresh e; g_rfresh := g_rfresh e; g_discarded := g_discarded e;
         g_conflicted := g_conflicted e |}
    end
  end.
(* repaired (fc0a567): a request by id first fills in a remote path that is not known yet *)
Definition needs_fill (by_oid : bool) (e : gent) : bool := by_oid && isnone (g_path (g_rem e)).
Definition fill_remote (by_oid : bool) (w : gworld) (st : gst) (e : gent) : gst * gent :=
  if needs_fill by_oid e then
    let e0 := g_refresh_remote w e in
    ({| g_ents := put_ent (g_ents st) e0;
        g_changeset := if remote_newly_changed w e then kadd (g_key e) (g_changeset st) else g_changeset st;
        g_req := g_req st; g_exc := g_exc st |}, e0)
  else (st, e).
Definition g_request (by_oid : bool) (w : gworld) (st : gst) (e : gent) : gst * option (list N) :=
  let (st0, e0) := fill_remote by_oid w st e in
  g_request_core g_state_request w st0 e0.

(* ---- un-request (SmartCloudSync._smart_unsync_ent then SmartSyncState._smart_unsync_ent) *)
Inductive gact :=
| GPushLocal (k : N)             (* the entry goes through the ordinary sync step with its LOCAL side marked changed *)
| GDeleteLocal (p : path).       (* providers[LOCAL].delete of the object at the local path *)
(* there is no constructor for a remote delete: the un-request code itself issues none; what GPushLocal can do is
   bounded by [is_deletion] below *)
Definition lookup_hash (w : gworld) (o : N) : option N :=
  match find (fun x => N.eqb (fst x) o) (w_lhash w) with Some x => Some (snd x) | None => None end.
(* SyncState.unconditionally_get_latest(ent, LOCAL) for an id-stable local provider whose object (when it exists)
   is still at the entry's path *)
Definition g_refresh_local (w : gworld) (e : gent) : gent :=
  let l := g_loc e in
  let l' :=
    match g_oid l with
    | None =>
      {| g_oid := None; g_path := g_path l; g_changed := g_changed l;
         g_exists := if ex_gone (g_exists l) then g_exists l else XUnknown;
         g_hash := g_hash l; g_sync_hash := g_sync_hash l; g_sync_path := g_sync_path l;
         g_size := g_size l; g_mtime := g_mtime l |}
    | Some o =>
      if kmem o (w_loids w) then
        let h := match lookup_hash w o with Some h => Some h | None => g_hash l end in
        {| g_oid := Some o; g_path := g_path l;
           g_changed := g_changed l || (negb (opt_n_eqb h (g_hash l)) && negb (g_discarded e) && negb (g_conflicted e));
           g_exists := match g_exists l with XCorrupt => XCorrupt | _ => XExists end;
           g_hash := h; g_sync_hash := g_sync_hash l; g_sync_path := g_sync_path l;
           g_size := g_size l; g_mtime := g_mtime l |}
      else
        {| g_oid := Some o; g_path := g_path l; g_changed := g_changed l;
           g_exists := match g_exists l with XCorrupt => XCorrupt | _ => XTrashed end;
           g_hash := g_hash l; g_sync_hash := g_sync_hash l; g_sync_path := g_sync_path l;
           g_size := g_size l; g_mtime := g_mtime l |}
    end in
  {| g_key := g_key e; g_loc := l'; g_rem := g_rem e; g_dir := g_dir e;
     g_lfresh := g_lfresh e && Bool.eqb (g_changed l') (g_changed l); g_rfresh := g_rfresh e;
     g_discarded := g_discarded e; g_conflicted := g_conflicted e |}.
Definition needs_push (e : gent) : bool :=      (* on the refreshed entry *)
  negb (opt_n_eqb (g_hash (g_loc e)) (g_sync_hash (g_loc e)))
  || negb (opt_path_eqb (g_sync_path (g_loc e)) (g_path (g_loc e))).
Definition with_local_changed (e : gent) : gent :=
  let mine := has_oid (g_loc e) in
  let other := pending (g_rem e) in
  {| g_key := g_key e;
     g_loc := {| g_oid := g_oid (g_loc e); g_path := g_path (g_loc e); g_changed := true; g_exists := g_exists (g_loc e);
                 g_hash := g_hash (g_loc e); g_sync_hash := g_sync_hash (g_loc e); g_sync_path := g_sync_path (g_loc e);
                 g_size := g_size (g_loc e); g_mtime := g_mtime (g_loc e) |};
     g_rem := zero_orphan mine other (g_rem e); g_dir := g_dir e; g_lfresh := g_lfresh e && g_changed (g_loc e); g_rfresh := g_rfresh e;
     g_discarded := g_discarded e; g_conflicted := g_conflicted e |}.
(* by_path: smart_unsync_path looks the entry up in the request set first and does nothing at all when it is not there;
   smart_unsync_oid refreshes and pushes first (and then raises TypeError when the entry is not requested) *)
Definition g_unrequest (w : gworld) (by_path : bool) (st : gst) (e0 : gent) : gst * list gact :=
  if by_path && negb (kmem (g_key e0) (g_req st)) then (st, []) else
  let e1 := g_refresh_local w e0 in
  let e := if needs_push e1 then with_local_changed e1 else e1 in
  let push := if needs_push e1 then [GPushLocal (g_key e)] else [] in
  let cs0 := if Bool.eqb (g_changed (g_loc e1)) (g_changed (g_loc e0)) then g_changeset st
             else kadd (g_key e0) (g_changeset st) in      (* the refresh stamped a local side that has an oid *)
  let cs := if needs_push e1 then cs_after_changed cs0 (g_key e) (has_oid (g_loc e1)) (pending (g_rem e1)) else cs0 in
  if kmem (g_key e) (g_req st) then
    match g_path (g_loc e) with
    | Some p =>
      if pmem p (w_lpaths w) && existsb (strict_prefix p) (w_lpaths w) then
        (* providers[LOCAL].delete of a non-empty folder raises: nothing is cleared, the entry stays requested *)
        ({| g_ents := put_ent (g_ents st) e; g_changeset := cs; g_req := g_req st; g_exc := g_exc st |}, push)
      else
      let e' := {| g_key := g_key e; g_loc := cleared;
                   g_rem := {| g_oid := g_oid (g_rem e); g_path := g_path (g_rem e);
                               g_changed := g_changed (g_rem e) && negb (isnone (g_oid (g_rem e)));
                               g_exists := g_exists (g_rem e); g_hash := g_hash (g_rem e);
                               g_sync_hash := None; g_sync_path := None;
                               g_size := g_size (g_rem e); g_mtime := g_mtime (g_rem e) |};
                   g_dir := g_dir e; g_lfresh := true; g_rfresh := g_rfresh e; g_discarded := g_discarded e; g_conflicted := g_conflicted e |} in
      (* clear(): with no pending remote change the entry leaves the stored change set *)
      ({| g_ents := put_ent (g_ents st) e';
          g_changeset := if g_changed (g_rem e) && negb (isnone (g_oid (g_rem e))) then kadd (g_key e) cs else kdel (g_key e) cs;
          g_req := kdel (g_key e) (g_req st); g_exc := kadd (g_key e) (g_exc st) |},
       push ++ (if pmem p (w_lpaths w) then [GDeleteLocal p] else []))
    | None =>
      ({| g_ents := put_ent (g_ents st) e; g_changeset := cs;
          g_req := kdel (g_key e) (g_req st); g_exc := kadd (g_key e) (g_exc st) |}, push)
    end
  else ({| g_ents := put_ent (g_ents st) e; g_changeset := cs; g_req := g_req st; g_exc := g_exc st |}, push).
(* SyncEntry.is_deletion(LOCAL): the only shape in which the sync step deletes the remote object *)
Definition is_local_deletion (e : gent) : bool :=
  ex_is_exists (g_exists (g_rem e)) && ex_gone (g_exists (g_loc e)) && g_changed (g_loc e).

(* ---- merged listing (SmartCloudSync.smart_listdir_path / _get_smartinfo), one folder *)
Record linfo := { l_name : N; l_isdir : bool; l_size : N; l_mtime : N }.     (* a local DirInfo *)
Record litem := { i_name : N; i_isdir : bool; i_synced : bool }.
Definition truthy (a b : N) : bool := negb (N.eqb a 0) || negb (N.eqb b 0).    (* mtime or size *)
(* [rents]: name -> remote entry of the folder (last one wins, as the dict assignment does);
   [tl e]: translate(LOCAL, e.remote.path) *)
Definition find_local (ls : list linfo) (n : N) : option linfo := find (fun x => N.eqb (l_name x) n) ls.
Fixpoint find_rent (rs : list (N * gent)) (n : N) : option gent :=      (* last binding wins *)
  match rs with
  | [] => None
  | (m, e) :: r => match find_rent r n with Some x => Some x | None => if N.eqb m n then Some e else None end
  end.
Definition dedup (l : list N) : list N := fold_right (fun n acc => if kmem n acc then acc else n :: acc) [] l.
(* the path test made before _get_smartinfo (and again inside it): an entry whose local path is not the
   translation of its remote path hides the name altogether, the local object included *)
Definition rent_pass (tl : gent -> option path) (r : option gent) : bool :=
  match r with
  | None => true
  | Some e => match g_path (g_loc e) with Some lp => opt_path_eqb (tl e) (Some lp) | None => true end
  end.
Definition list_one (tl : gent -> option path) (ls : list linfo) (rs : list (N * gent)) (n : N) : list litem :=
  let r := find_rent rs n in
  if negb (rent_pass tl r) then []
  else match find_local ls n with
       | Some l => if truthy (l_mtime l) (l_size l)
                   then [{| i_name := n; i_isdir := l_isdir l; i_synced := true |}] else []
       | None =>
         match r with
         | Some e => if ex_gone (g_exists (g_loc e)) || ex_gone (g_exists (g_rem e)) then []
                     else if truthy (g_mtime (g_rem e)) (g_size (g_rem e))
                          then [{| i_name := n; i_isdir := g_dir e; i_synced := false |}] else []
         | None => []
         end
       end.
Definition g_listdir (tl : gent -> option path) (ls : list linfo) (rs : list (N * gent)) : list litem :=
  flat_map (list_one tl ls rs) (dedup (map l_name ls ++ map fst rs)).

(* ================================================================== (b) SPEC *)
Record sstate := {
  sR : tree;                 (* remote tree, root-relative *)
  sL : tree;                 (* local tree, root-relative *)
  sQ : list path;            (* requested (by path, by id, or matched by the predicate when created) *)
  sX : list path;            (* un-requested since (ghost: never read by [sstep]) *)
  sB : list path             (* created locally (ghost) *)
}.
Inductive sact :=
| RCreate (p : path) (c : content) | RMkdir (p : path) | REdit (p : path) (c : content) | RDelete (p : path)
| LCreate (p : path) (c : content) | LMkdir (p : path) | LEdit (p : path) (c : content)
| Request (p : path)               (* by path or by id: the harness resolves an id to the path of its object *)
| Unrequest (p : path)
| EditUnrequest (p : path) (c : content).   (* a local edit immediately followed by the un-request, no engine step between *)

Definition sinit : sstate := {| sR := []; sL := []; sQ := []; sX := []; sB := [] |}.
Definition free (s : sstate) (p : path) : bool := isnone (lookup (sR s) p) && isnone (lookup (sL s) p).

Section Spec.
Variable auto : path -> bool.

(* None = the action is outside the domain of the specification (never a normal-looking state) *)
Definition sstep (s : sstate) (a : sact) : option sstate :=
  match a with
  | RCreate p c =>
    if free s p && parent_ok (sR s) p then
      if auto p then Some {| sR := set (sR s) p (File c); sL := set (sL s) p (File c); sQ := padd p (sQ s);
                             sX := sX s; sB := sB s |}
      else Some {| sR := set (sR s) p (File c); sL := sL s; sQ := sQ s; sX := sX s; sB := sB s |}
    else None
  | RMkdir p =>
    if free s p && parent_ok (sR s) p then
      Some {| sR := set (sR s) p Dir; sL := set (sL s) p Dir; sQ := sQ s; sX := sX s; sB := sB s |}
    else None
  | REdit p c =>
    if is_file (sR s) p then
      Some {| sR := set (sR s) p (File c);
              sL := if isnone (lookup (sL s) p) then sL s else set (sL s) p (File c);
              sQ := sQ s; sX := sX s; sB := sB s |}
    else None
  | RDelete p =>
    match lookup (sR s) p with
    | Some (File _) =>
      Some {| sR := remove (sR s) p; sL := remove (sL s) p; sQ := pdel p (sQ s); sX := pdel p (sX s); sB := pdel p (sB s) |}
    | Some Dir =>
      if has_children (sR s) p then None
      else Some {| sR := remove (sR s) p; sL := remove (sL s) p; sQ := sQ s; sX := sX s; sB := sB s |}
    | None => None
    end
  | LCreate p c =>
    if free s p && parent_ok (sL s) p then
      Some {| sR := set (sR s) p (File c); sL := set (sL s) p (File c); sQ := sQ s; sX := sX s; sB := padd p (sB s) |}
    else None
  | LMkdir p =>
    if free s p && parent_ok (sL s) p then
      Some {| sR := set (sR s) p Dir; sL := set (sL s) p Dir; sQ := sQ s; sX := sX s; sB := sB s |}
    else None
  | LEdit p c =>
    if is_file (sL s) p then
      Some {| sR := set (sR s) p (File c); sL := set (sL s) p (File c); sQ := sQ s; sX := sX s; sB := sB s |}
    else None
  | Request p =>
    match lookup (sR s) p with
    | Some (File c) =>
      Some {| sR := sR s; sL := set (sL s) p (File c); sQ := padd p (sQ s); sX := pdel p (sX s); sB := sB s |}
    | _ => Some s
    end
  | Unrequest p =>
    if pmem p (sQ s) && is_file (sR s) p then
      Some {| sR := sR s; sL := remove (sL s) p; sQ := pdel p (sQ s); sX := padd p (sX s); sB := pdel p (sB s) |}
    else Some s
  | EditUnrequest p c =>
    if is_file (sL s) p then
      if pmem p (sQ s) && is_file (sR s) p then
        Some {| sR := set (sR s) p (File c); sL := remove (sL s) p; sQ := pdel p (sQ s); sX := padd p (sX s);
                sB := pdel p (sB s) |}
      else Some {| sR := set (sR s) p (File c); sL := set (sL s) p (File c); sQ := sQ s; sX := sX s; sB := sB s |}
    else None
  end.

Fixpoint srun (s : sstate) (l : list sact) : option sstate :=
  match l with
  | [] => Some s
  | a :: r => match sstep s a with Some s' => srun s' r | None => None end
  end.
End Spec.

(* the merged listing of folder d: every local child as synced, every remote child without a local object as not synced *)
Fixpoint child_of (d p : path) : option name :=
  match d, p with
  | [], [x] => Some x
  | a :: d', b :: p' => if N.eqb a b then child_of d' p' else None
  | _, _ => None
  end.
Definition node_isdir (n : node) : bool := match n with Dir => true | File _ => false end.
Definition listing (s : sstate) (d : path) : list litem :=
  flat_map (fun e => match child_of d (fst e) with
                     | Some x => [{| i_name := x; i_isdir := node_isdir (snd e); i_synced := true |}]
                     | None => []
                     end) (sL s)
  ++ flat_map (fun e => match child_of d (fst e) with
                        | Some x => if isnone (lookup (sL s) (fst e))
                                    then [{| i_name := x; i_isdir := node_isdir (snd e); i_synced := false |}] else []
                        | None => []
                        end) (sR s).

(* ================================================================== (c) MONITOR *)
Definition side := bool.   (* false = local, true = remote *)
Inductive mev :=
| MUser (s : side) (o : op)        (* user operation, absolute component paths *)
| MEng (s : side) (k : N) (ts : list path)   (* engine-issued provider mutation: kind label and addressed paths (informative) *)
| MStep | MQuiet
| MReqBegin (r : path) | MReqEnd (ok : bool)        (* the application's request of root-relative path r: call and return *)
| MUnreqBegin (r : path) | MUnreqEnd (ok : bool).
Record mobs := { m_ev : mev; m_L : tree; m_R : tree }.
Record mcfg := { c_rootL : path; c_rootR : path }.
Record bracket := { b_unreq : bool; b_path : path; b_wasQ : bool; b_wasX : bool }.
Record mst := {
  mL : tree; mR : tree;
  mQ : list path;            (* requested and not un-requested / remotely deleted since *)
  mX : list path;            (* un-requested and not requested since *)
  mD : list path;            (* local copies deleted by a user, deletion not yet propagated *)
  mB : option bracket        (* a request / un-request call is in progress *)
}.

Definition C_TIE : N := 1.          (* user op: observed tree <> apply_op, or the other side changed *)
Definition C_DOWNLOAD : N := 2.     (* a file appeared locally whose remote file exists, path neither requested nor auto (or excluded) *)
Definition C_RDELETE : N := 3.      (* a remote file disappeared through an engine action, no user had deleted the local copy *)
Definition C_RDELETE_UNREQ : N := 4. (* a remote file disappeared inside an un-request *)
Definition C_BRACKET : N := 5.      (* ill-formed call brackets / user op or quiet inside a call *)
Definition C_OTHER_SIDE : N := 6.   (* an engine action on side s changed the other side's tree *)
Definition C_STEP_TREE : N := 7.    (* a marker whose trees differ from the previous ones *)
Definition C_UNREQ_REMOTE : N := 8. (* inside an un-request the remote tree changed other than the content of the un-requested file *)
Definition C_UNREQ_LOCAL : N := 9.  (* inside an un-request the local tree changed other than the un-requested copy *)

Definition relp (root p : path) : option path :=
  if strict_prefix root p then Some (skipn (length root) p) else None.
Definition new_files (old new : tree) : list path :=
  flat_map (fun e => match snd e with File _ => if isnone (lookup old (fst e)) then [fst e] else [] | Dir => [] end) new.
Definition gone_files (old new : tree) : list path :=
  flat_map (fun e => match snd e with File _ => if isnone (lookup new (fst e)) then [fst e] else [] | Dir => [] end) old.

Section Mon.
Variable auto : path -> bool.
Variable cfg : mcfg.

Definition allowed_local (m : mst) (r : path) : bool :=
  pmem r (mQ m) || (auto r && negb (pmem r (mX m))).
Definition download_ok (m : mst) (p : path) : bool :=        (* p: absolute local path of a new local file *)
  match relp (c_rootL cfg) p with
  | Some r => if is_file (mR m) (c_rootR cfg ++ r) then allowed_local m r else true
  | None => true
  end.
Definition in_unreq (m : mst) : bool := match mB m with Some b => b_unreq b | None => false end.
Definition rdelete_ok (m : mst) (p : path) : bool :=          (* p: absolute remote path of a vanished remote file *)
  match relp (c_rootR cfg) p with
  | Some r => pmem r (mD m)
  | None => true
  end.
Definition consume (m : mst) (gone : list path) : list path :=
  fold_left (fun d p => match relp (c_rootR cfg) p with Some r => pdel r d | None => d end) gone (mD m).
(* inside an un-request of r: trees equal after forgetting the one path *)
Definition same_but (p : path) (a b : tree) : bool := same_tree (remove a p) (remove b p).

Definition user_effect (m : mst) (s : side) (o : op) : list path * list path * list path :=
  match o with
  | Delete p =>
    if s then match relp (c_rootR cfg) p with
              | Some r => (pdel r (mQ m), pdel r (mX m), mD m)
              | None => (mQ m, mX m, mD m)
              end
    else match relp (c_rootL cfg) p with
         | Some r => if is_file (mL m) p then (mQ m, mX m, padd r (mD m)) else (mQ m, mX m, mD m)
         | None => (mQ m, mX m, mD m)
         end
  | _ => (mQ m, mX m, mD m)
  end.

Definition mon_step (m : mst) (x : mobs) : mst + N :=
  let nL := m_L x in
  let nR := m_R x in
  let keep := same_tree (mL m) nL && same_tree (mR m) nR in
  match m_ev x with
  | MUser s o =>
    let t := if s then mR m else mL m in
    let n := if s then nR else nL in
    let other := if s then same_tree (mL m) nL else same_tree (mR m) nR in
    if negb (isnone (mB m)) then inr C_BRACKET
    else if negb (same_tree (apply_op t o) n && other) then inr C_TIE
    else let '(q, x', d) := user_effect m s o in
         inl {| mL := nL; mR := nR; mQ := q; mX := x'; mD := d; mB := None |}
  | MEng s _ _ =>
    if negb (if s then same_tree (mL m) nL else same_tree (mR m) nR) then inr C_OTHER_SIDE
    else if s then
      (* remote side *)
      let gone := gone_files (mR m) nR in
      if in_unreq m && negb (match gone with [] => true | _ :: _ => false end) then inr C_RDELETE_UNREQ
      else if negb (forallb (rdelete_ok m) gone) then inr C_RDELETE
      else if (match mB m with
               | Some b => b_unreq b && negb (same_but (c_rootR cfg ++ b_path b) (mR m) nR
                                              && Bool.eqb (isnone (lookup (mR m) (c_rootR cfg ++ b_path b)))
                                                          (isnone (lookup nR (c_rootR cfg ++ b_path b))))
               | None => false
               end) then inr C_UNREQ_REMOTE
      else inl {| mL := nL; mR := nR; mQ := mQ m; mX := mX m; mD := consume m gone; mB := mB m |}
    else
      (* local side *)
      if negb (forallb (download_ok m) (new_files (mL m) nL)) then inr C_DOWNLOAD
      else if (match mB m with
               | Some b => b_unreq b && negb (same_but (c_rootL cfg ++ b_path b) (mL m) nL)
               | None => false
               end) then inr C_UNREQ_LOCAL
      else inl {| mL := nL; mR := nR; mQ := mQ m; mX := mX m; mD := mD m; mB := mB m |}
  | MStep =>
    if negb keep then inr C_STEP_TREE
    else if negb (isnone (mB m)) then inr C_BRACKET
    else inl {| mL := nL; mR := nR; mQ := mQ m; mX := mX m; mD := mD m; mB := None |}
  | MQuiet =>
    if negb keep then inr C_STEP_TREE
    else if negb (isnone (mB m)) then inr C_BRACKET
    else inl {| mL := nL; mR := nR; mQ := mQ m; mX := mX m; mD := mD m; mB := None |}
  | MReqBegin r =>
    if negb keep then inr C_STEP_TREE
    else if negb (isnone (mB m)) then inr C_BRACKET
    else inl {| mL := nL; mR := nR; mQ := padd r (mQ m); mX := pdel r (mX m); mD := mD m;
                mB := Some {| b_unreq := false; b_path := r; b_wasQ := pmem r (mQ m); b_wasX := pmem r (mX m) |} |}
  | MReqEnd ok =>
    if negb keep then inr C_STEP_TREE
    else match mB m with
         | Some b =>
           if b_unreq b then inr C_BRACKET
           else if ok then inl {| mL := nL; mR := nR; mQ := mQ m; mX := mX m; mD := mD m; mB := None |}
           else inl {| mL := nL; mR := nR;
                       mQ := if b_wasQ b then mQ m else pdel (b_path b) (mQ m);
                       mX := if b_wasX b then padd (b_path b) (mX m) else mX m;
                       mD := mD m; mB := None |}
         | None => inr C_BRACKET
         end
  | MUnreqBegin r =>
    if negb keep then inr C_STEP_TREE
    else if negb (isnone (mB m)) then inr C_BRACKET
    else inl {| mL := nL; mR := nR; mQ := mQ m; mX := mX m; mD := mD m;
                mB := Some {| b_unreq := true; b_path := r; b_wasQ := pmem r (mQ m); b_wasX := pmem r (mX m) |} |}
  | MUnreqEnd ok =>
    if negb keep then inr C_STEP_TREE
    else match mB m with
         | Some b =>
           if negb (b_unreq b) then inr C_BRACKET
           else if ok then inl {| mL := nL; mR := nR; mQ := pdel (b_path b) (mQ m); mX := padd (b_path b) (mX m);
                                  mD := mD m; mB := None |}
           else inl {| mL := nL; mR := nR; mQ := mQ m; mX := mX m; mD := mD m; mB := None |}
         | None => inr C_BRACKET
         end
  end.

Fixpoint mon_from (m : mst) (tr : list mobs) (i : nat) : mst + (nat * N) :=
  match tr with
  | [] => inl m
  | x :: r => match mon_step m x with
              | inl m' => mon_from m' r (S i)
              | inr c => inr (i, c)
              end
  end.
Definition mon_init (l r : tree) : mst := {| mL := l; mR := r; mQ := []; mX := []; mD := []; mB := None |}.
Definition mon_accept (l r : tree) (tr : list mobs) : mst + (nat * N) := mon_from (mon_init l r) tr 0.
End Mon.

(* ================================================================== wire format *)
Definition un_autospec (x : sx) : option autospec :=
  match x with
  | L [A 0%N] => Some ANone
  | L [A 1%N; ns] => option_map AExt (un_list un_atom ns)
  | L [A 2%N; d] => option_map AUnder (un_path d)
  | _ => None
  end.
Definition un_ex (x : sx) : option ex :=
  match x with
  | A 0%N => Some XUnknown | A 1%N => Some XExists | A 2%N => Some XTrashed
  | A 3%N => Some XLikely | A 4%N => Some XMissing | A 5%N => Some XCorrupt
  | _ => None
  end.
Definition sx_ex (e : ex) : sx :=
  A (match e with XUnknown => 0 | XExists => 1 | XTrashed => 2 | XLikely => 3 | XMissing => 4 | XCorrupt => 5 end)%N.
Definition un_gside (x : sx) : option gside :=
  match x with
  | L [o; p; c; e; h; sh; sp; A sz; A mt] =>
    match un_opt un_atom o, un_opt un_path p, un_bool c, un_ex e, un_opt un_atom h, un_opt un_atom sh, un_opt un_path sp with
    | Some o, Some p, Some c, Some e, Some h, Some sh, Some sp =>
      Some {| g_oid := o; g_path := p; g_changed := c; g_exists := e; g_hash := h; g_sync_hash := sh;
              g_sync_path := sp; g_size := sz; g_mtime := mt |}
    | _, _, _, _, _, _, _ => None
    end
  | _ => None
  end.
Definition sx_gside (s : gside) : sx :=
  L [sx_opt A (g_oid s); sx_opt sx_path (g_path s); sx_bool (g_changed s); sx_ex (g_exists s);
     sx_opt A (g_hash s); sx_opt A (g_sync_hash s); sx_opt sx_path (g_sync_path s); A (g_size s); A (g_mtime s)].
Definition un_gent (x : sx) : option gent :=
  match x with
  | L [A k; l; r; d; lf; rf; dc; cf] =>
    match un_gside l, un_gside r, un_bool d, un_bool lf, un_bool rf, un_bool dc, un_bool cf with
    | Some l, Some r, Some d, Some lf, Some rf, Some dc, Some cf =>
      Some {| g_key := k; g_loc := l; g_rem := r; g_dir := d; g_lfresh := lf; g_rfresh := rf; g_discarded := dc;
              g_conflicted := cf |}
    | _, _, _, _, _, _, _ => None
    end
  | _ => None
  end.
Definition sx_gent (e : gent) : sx :=
  L [A (g_key e); sx_gside (g_loc e); sx_gside (g_rem e); sx_bool (g_dir e); sx_bool (g_lfresh e); sx_bool (g_rfresh e);
     sx_bool (g_discarded e); sx_bool (g_conflicted e)].
Definition un_pair (x : sx) : option (N * N) := match x with L [A a; A b] => Some (a, b) | _ => None end.
Definition un_rinfo (x : sx) : option rinfo :=
  match x with
  | L [A o; p; h; d; A sz; A mt] =>
    match un_path p, un_opt un_atom h, un_bool d with
    | Some p, Some h, Some d => Some {| r_oid := o; r_path := p; r_hash := h; r_isdir := d; r_size := sz; r_mtime := mt |}
    | _, _, _ => None
    end
  | _ => None
  end.
Definition un_gworld (x : sx) : option gworld :=
  match x with
  | L [ps; os; hs; rs] =>
    match un_list un_path ps, un_list un_atom os, un_list un_pair hs, un_list un_rinfo rs with
    | Some ps, Some os, Some hs, Some rs => Some {| w_lpaths := ps; w_loids := os; w_lhash := hs; w_robjs := rs |}
    | _, _, _, _ => None
    end
  | _ => None
  end.
Definition un_gst (x : sx) : option gst :=
  match x with
  | L [es; cs; rq; ec] =>
    match un_list un_gent es, un_list un_atom cs, un_list un_atom rq, un_list un_atom ec with
    | Some es, Some cs, Some rq, Some ec => Some {| g_ents := es; g_changeset := cs; g_req := rq; g_exc := ec |}
    | _, _, _, _ => None
    end
  | _ => None
  end.
Definition sx_keys (l : list N) : sx := L (map A l).
Definition sx_gst (st : gst) : sx :=
  L [L (map sx_gent (g_ents st)); sx_keys (g_changeset st); sx_keys (g_req st); sx_keys (g_exc st)].
Definition sx_gact (a : gact) : sx :=
  match a with GPushLocal k => L [A 0%N; A k] | GDeleteLocal p => L [A 1%N; sx_path p] end.
Definition un_linfo (x : sx) : option linfo :=
  match x with
  | L [A n; d; A sz; A mt] => option_map (fun d => {| l_name := n; l_isdir := d; l_size := sz; l_mtime := mt |}) (un_bool d)
  | _ => None
  end.
Definition un_rent (x : sx) : option (N * gent) :=
  match x with L [A n; e] => option_map (fun e => (n, e)) (un_gent e) | _ => None end.
Definition sx_litem (i : litem) : sx := L [A (i_name i); sx_bool (i_isdir i); sx_bool (i_synced i)].
Definition translate_local (rootL rootR : path) (e : gent) : option path :=
  match g_path (g_rem e) with
  | Some p => if is_prefix rootR p then Some (rootL ++ skipn (length rootR) p) else None
  | None => None
  end.

Definition un_sact (x : sx) : option sact :=
  match x with
  | L [A 0%N; p; A c] => option_map (fun p => RCreate p c) (un_path p)
  | L [A 1%N; p] => option_map RMkdir (un_path p)
  | L [A 2%N; p; A c] => option_map (fun p => REdit p c) (un_path p)
  | L [A 3%N; p] => option_map RDelete (un_path p)
  | L [A 4%N; p; A c] => option_map (fun p => LCreate p c) (un_path p)
  | L [A 5%N; p] => option_map LMkdir (un_path p)
  | L [A 6%N; p; A c] => option_map (fun p => LEdit p c) (un_path p)
  | L [A 7%N; p] => option_map Request (un_path p)
  | L [A 8%N; p] => option_map Unrequest (un_path p)
  | L [A 9%N; p; A c] => option_map (fun p => EditUnrequest p c) (un_path p)
  | _ => None
  end.
Definition un_sreq (x : sx) : option (option sact) :=      (* None inside = report marker *)
  match x with
  | L [A 10%N] => Some None
  | _ => option_map Some (un_sact x)
  end.
Definition dirs_of (t : tree) : list path :=
  flat_map (fun e => match snd e with Dir => [fst e] | File _ => [] end) t.
Definition report (s : sstate) : sx :=
  let ds := [] :: dirs_of (canon (sL s)) ++ filter (fun d => isnone (lookup (sL s) d)) (dirs_of (canon (sR s))) in
  L [sx_tree (sR s); sx_tree (sL s); L (map (fun d => L [sx_path d; L (map sx_litem (listing s d))]) ds)].
Fixpoint spec_reports (auto : path -> bool) (s : sstate) (l : list (option sact)) (i : N) (acc : list sx) : sx :=
  match l with
  | [] => L (rev acc)
  | None :: r => spec_reports auto s r (i + 1)%N (report s :: acc)
  | Some a :: r => match sstep auto s a with
                   | Some s' => spec_reports auto s' r (i + 1)%N acc
                   | None => L [L [A 0%N]; A i]
                   end
  end.

Definition un_side (x : sx) : option side := un_bool x.
Definition un_mev (x : sx) : option mev :=
  match x with
  | L [A 0%N; s; o] => match un_side s, un_op o with Some s, Some o => Some (MUser s o) | _, _ => None end
  | L [A 1%N; s; A k; ts] => match un_side s, un_list un_path ts with Some s, Some ts => Some (MEng s k ts) | _, _ => None end
  | L [A 2%N] => Some MStep
  | L [A 3%N] => Some MQuiet
  | L [A 4%N; r] => option_map MReqBegin (un_path r)
  | L [A 5%N; ok] => option_map MReqEnd (un_bool ok)
  | L [A 6%N; r] => option_map MUnreqBegin (un_path r)
  | L [A 7%N; ok] => option_map MUnreqEnd (un_bool ok)
  | _ => None
  end.
Definition un_tree_delta (prev : tree) (x : sx) : option tree :=
  match x with A 0%N => Some prev | _ => un_tree x end.
Fixpoint un_mtrace (pl pr : tree) (l : list sx) : option (list mobs) :=
  match l with
  | [] => Some []
  | L [e; a; b] :: r =>
    match un_mev e, un_tree_delta pl a, un_tree_delta pr b with
    | Some e, Some a, Some b =>
      match un_mtrace a b r with
      | Some tr => Some ({| m_ev := e; m_L := a; m_R := b |} :: tr)
      | None => None
      end
    | _, _, _ => None
    end
  | _ :: _ => None
  end.
Definition un_mcfg (x : sx) : option mcfg :=
  match x with
  | L [a; b] => match un_path a, un_path b with Some a, Some b => Some {| c_rootL := a; c_rootR := b |} | _, _ => None end
  | _ => None
  end.

(* requests:
   (0 auto world st)            -> (offered-keys st' ((key pre_sync)...) (reaches-sync keys))   filter + gate on the result
   (2 world st key by_oid legacy) -> (st' (plan-keys) | ())                                    request; () = the call raises;
                                                                      legacy = 1: the code before fc0a567 / 2277c0d
   (3 auto (acts|(10) ...))     -> (report ...) | ((0) index)                                  spec; (10) = report here
   (4 auto cfg L R (obs ...))   -> () | (index code)                                           monitor
   (5 world st key by_path)     -> (st' (acts...))                                             un-request
   (6 rootL rootR (linfo...) ((name ent)...)) -> (items...)                                    merged listing *)
Definition run (x : sx) : sx :=
  match x with
  | L [A 0%N; a; w; st] =>
    match un_autospec a, un_gworld w, un_gst st with
    | Some a, Some w, Some st =>
      let (st', out) := changeset_filter (auto_of a) w st in
      L [sx_keys out; sx_gst st';
         L (map (fun e => L [A (g_key e); sx_bool (pre_sync w st' e)]) (g_ents st'));
         sx_keys (filter (reaches_sync (auto_of a) w st) (map g_key (g_ents st)))]
    | _, _, _ => sx_malformed
    end
  | L [A 2%N; w; st; A k; bo; lg] =>
    match un_gworld w, un_gst st, un_bool bo, un_bool lg with
    | Some w, Some st, Some bo, Some lg =>
      match find_ent (g_ents st) k with
      | Some e => let (st', plan) := if lg then g_request_legacy w st e else g_request bo w st e in
                  L [sx_gst st'; sx_opt sx_keys plan]
      | None => sx_malformed
      end
    | _, _, _, _ => sx_malformed
    end
  | L [A 3%N; a; L acts] =>
    match un_autospec a, un_all un_sreq acts with
    | Some a, Some acts => spec_reports (auto_of a) sinit acts 0%N []
    | _, _ => sx_malformed
    end
  | L [A 4%N; a; c; l; r; L tr] =>
    match un_autospec a, un_mcfg c, un_tree l, un_tree r with
    | Some a, Some c, Some l, Some r =>
      match un_mtrace l r tr with
      | Some tr => match mon_accept (auto_of a) c l r tr with
                   | inl _ => L []
                   | inr (i, code) => L [A (N.of_nat i); A code]
                   end
      | None => sx_malformed
      end
    | _, _, _, _ => sx_malformed
    end
  | L [A 5%N; w; st; A k; bp] =>
    match un_gworld w, un_gst st, un_bool bp with
    | Some w, Some st, Some bp =>
      match find_ent (g_ents st) k with
      | Some e => let (st', acts) := g_unrequest w bp st e in L [sx_gst st'; L (map sx_gact acts)]
      | None => sx_malformed
      end
    | _, _, _ => sx_malformed
    end
  | L [A 6%N; rl; rr; ls; rs] =>
    match un_path rl, un_path rr, un_list un_linfo ls, un_list un_rent rs with
    | Some rl, Some rr, Some ls, Some rs => L (map sx_litem (g_listdir (translate_local rl rr) ls rs))
    | _, _, _, _ => sx_malformed
    end
  | _ => sx_malformed
  end.
