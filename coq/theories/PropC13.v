(* PropC13.v — property theorems for C13 (path algebra).  Only statements closed by [exact],
   each followed by Print Assumptions. *)
From Coq Require Import NArith List Bool.
From CS Require Import Sx Str PathModel PathLaws.
Import ListNotations.

Theorem C13_nps_idem : forall cv p, nps cv (nps cv p) = nps cv p.
Proof. exact nps_idem. Qed.
Print Assumptions C13_nps_idem.
