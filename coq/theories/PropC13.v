(* PropC13.v — property theorems for C13 (path algebra), about the executable model PathModel.v.
   Every theorem is closed by [exact] of a lemma of PathLaws.v / PathGenLaws.v and followed by Print
   Assumptions (all: closed under the global context); Examples show that the hypotheses are satisfiable
   and the conclusions non-trivial.  Full-strength statements that are false of the faithful model are kept
   as [..._full] with a [..._refuted] theorem next to the strongest true form; the refutations are the only
   proofs written here: a concrete witness evaluated by vm_compute.

   Hypotheses used throughout (PathLaws.v):
     fold_ok cv   the per-character case fold is idempotent, maps exactly the separator to the
                  separator, exactly the alt separator to itself, and (with win_paths) exactly ':' to ':'
     conv_ok cv   := cv_cs cv = false -> fold_ok cv      (nothing is assumed for case-sensitive providers)
     abs_path cv f := the separator-normalised f starts with the separator
     dl cv j      := win_paths and j[1:2] == ':'   (the drive-letter exception of Provider.join)
   Reading aids:  pc cv p = components of p;  render cv l = canonical string of a component list;
                  key cv d l = l | folded l | folded l but for the leaf (display mode). *)
From Coq Require Import NArith List Bool String Ascii.
From CS Require Import Sx Str StrLemmas PathModel PathLaws GenPrims GenPath PathGenLaws.
Import ListNotations.
Definition str_of (x : string) : str := map N_of_ascii (list_ascii_of_string x).
Arguments str_of x%string.
Definition std := cv_std true false.       (* case-sensitive, '/' with alt '\' *)
Definition std_ci := cv_std false false.   (* case-insensitive *)
Definition std_win := cv_std false true.   (* case-insensitive, win_paths *)

(* ------------------------------------------------------------------ 1. normalisation is idempotent *)
Theorem C13_nps_idem : forall cv p, nps cv (nps cv p) = nps cv p.
Proof. exact nps_idem. Qed.
Print Assumptions C13_nps_idem.

Theorem C13_normalize_idem : forall cv, conv_ok cv -> forall p d,
  normalize_path cv (normalize_path cv p d) d = normalize_path cv p d.
Proof. exact normalize_idem. Qed.
Print Assumptions C13_normalize_idem.

(* what the normal form is *)
Theorem C13_normalize_render : forall cv, conv_ok cv -> forall p d,
  normalize_path cv p d = render cv (key cv d (pc cv p)).
Proof. exact normalize_render. Qed.
Print Assumptions C13_normalize_render.

Example conv_ok_std : conv_ok std /\ conv_ok std_ci /\ conv_ok std_win.
Proof. split; [apply cv_std_ok|split; apply cv_std_ok]. Qed.
Example fold_ok_std_win : fold_ok std_win.
Proof. apply fold_std_ok. Qed.
Example normalize_ex :
  normalize_path std_ci (str_of "\Ab//C d\Ef/") false = str_of "/ab/c d/ef" /\
  normalize_path std_ci (str_of "\Ab//C d\Ef/") true = str_of "/ab/c d/Ef" /\
  normalize_path std_win (str_of "C:\Ab\X") true = str_of "c:/ab/X".
Proof. vm_compute. auto. Qed.

(* ------------------------------------------------------------------ 2. split then join *)
Theorem C13_split_join : forall cv, conv_ok cv -> forall p d,
  paths_match cv (join cv [dirname cv p; basename cv p]) p d = true.
Proof. exact split_join. Qed.
Print Assumptions C13_split_join.

Example split_join_ex :
  split std_ci (str_of "/a//B\c/") = (str_of "/a//B", str_of "c") /\
  join std_ci [str_of "/a//B"; str_of "c"] = str_of "/a//B/c".
Proof. vm_compute. auto. Qed.

(* ------------------------------------------------------------------ 3. a folder joined with a relative part *)
Theorem C13_join_inside : forall cv, conv_ok cv -> forall f r st d,
  abs_path cv f -> strip (cv_sep cv) (nps cv r) <> [] -> dl cv (join cv [f; r]) = false ->
  exists rel, is_subpath cv f (join cv [f; r]) st = Rel rel /\ paths_match cv rel r d = true.
Proof. exact join_inside. Qed.
Print Assumptions C13_join_inside.

Theorem C13_join_inside_exact : forall cv, conv_ok cv -> forall f r st,
  abs_path cv f -> strip (cv_sep cv) (nps cv r) <> [] -> dl cv (join cv [f; r]) = false ->
  is_subpath cv f (join cv [f; r]) st = Rel (cv_sep cv :: strip (cv_sep cv) (nps cv r)).
Proof. exact join_inside_eq. Qed.
Print Assumptions C13_join_inside_exact.

Example join_inside_ex :
  abs_path std_win (str_of "\Top/") /\ strip 47 (nps std_win (str_of "/x\Y/")) <> [] /\
  dl std_win (join std_win [str_of "\Top/"; str_of "/x\Y/"]) = false /\
  is_subpath std_win (str_of "\Top/") (join std_win [str_of "\Top/"; str_of "/x\Y/"]) true = Rel (str_of "/x/Y").
Proof. split; [exists (str_of "Top"); reflexivity|]. vm_compute. repeat split; congruence. Qed.

(* the drive-letter exception of join is real: without the [dl] hypothesis the law is false *)
Definition join_inside_full : Prop := forall cv, conv_ok cv -> forall f r st,
  abs_path cv f -> strip (cv_sep cv) (nps cv r) <> [] ->
  is_subpath cv f (join cv [f; r]) st <> NotSub.
Theorem C13_join_inside_refuted : ~ join_inside_full.
Proof.
  intros H. apply (H (cv_std true true) (conv_ok_cs (cv_std true true) eq_refl) (str_of "/") (str_of "c:x") false).
  - exists []. reflexivity.
  - vm_compute. discriminate.
  - vm_compute. reflexivity.
Qed.
Print Assumptions C13_join_inside_refuted.

(* ------------------------------------------------------------------ 4. sharing only a name prefix is not inside *)
Theorem C13_prefix_sibling : forall cv, conv_ok cv -> forall f c s st,
  nps cv f <> [] -> nps cv f <> [cv_sep cv] -> c <> cv_sep cv -> cv_alt cv <> Some c ->
  is_subpath cv f (nps cv f ++ c :: s) st = NotSub.
Proof. exact prefix_sibling. Qed.
Print Assumptions C13_prefix_sibling.

Example prefix_sibling_ex :
  nps std_ci (str_of "/Dir/") = str_of "/Dir" /\
  is_subpath std_ci (str_of "/Dir/") (str_of "/Dir2/x") false = NotSub /\
  is_subpath std_ci (str_of "/Dir/") (str_of "/dir/x") false = Rel (str_of "/x").
Proof. vm_compute. auto. Qed.

(* stated on the raw folder string the law is false: a trailing separator of the folder is dropped first *)
Definition prefix_sibling_full : Prop := forall cv, conv_ok cv -> forall f c s,
  is_subpath cv f (f ++ c :: s) false <> NotSub -> c = cv_sep cv \/ cv_alt cv = Some c \/ f = [cv_sep cv].
Theorem C13_prefix_sibling_refuted : ~ prefix_sibling_full.
Proof.
  intros H. specialize (H std (conv_ok_cs std eq_refl) (str_of "/a/") 98%N [] ). vm_compute in H.
  destruct H as [H|[H|H]]; discriminate.
Qed.
Print Assumptions C13_prefix_sibling_refuted.

Theorem C13_subpath_strict : forall cv f t r,
  is_subpath cv f t true = Rel r -> is_subpath cv f t false = Rel r.
Proof. exact subpath_strict. Qed.
Print Assumptions C13_subpath_strict.

Theorem C13_subpath_nonstrict : forall cv f t r, is_subpath cv f t false = Rel r ->
  is_subpath cv f t true = Rel r \/ (is_subpath cv f t true = NotSub /\ r = [cv_sep cv]).
Proof. exact subpath_nonstrict. Qed.
Print Assumptions C13_subpath_nonstrict.

(* inside = the components of the target are those of the folder followed by those of the relative part *)
Theorem C13_subpath_components : forall cv, conv_ok cv -> forall f p st r,
  is_subpath cv f p st = Rel r -> lowk cv (pc cv p) = lowk cv (pc cv f) ++ lowk cv (pc cv r).
Proof. exact is_subpath_components. Qed.
Print Assumptions C13_subpath_components.

(* ------------------------------------------------------------------ 5. replace_path *)
Theorem C13_replace_moves_rel : forall cv f p t rel,
  is_subpath cv f p false = Rel rel ->
  replace_path cv p f t = RepOk (nps cv t ++ (if str_eqb rel [cv_sep cv] then [] else rel)).
Proof. exact replace_moves_rel. Qed.
Print Assumptions C13_replace_moves_rel.

Theorem C13_replace_iff_sub : forall cv f p t,
  replace_path cv p f t = RepValueError <-> is_subpath cv f p false = NotSub.
Proof. exact replace_iff_sub. Qed.
Print Assumptions C13_replace_iff_sub.

Theorem C13_replace_lands_inside : forall cv, conv_ok cv -> forall f p t rel out,
  is_subpath cv f p false = Rel rel -> rel <> [cv_sep cv] -> t <> [] -> nps cv t <> [cv_sep cv] ->
  replace_path cv p f t = RepOk out -> is_subpath cv t out false = Rel rel.
Proof. exact replace_lands_inside. Qed.
Print Assumptions C13_replace_lands_inside.

Theorem C13_replace_lands_inside_equiv : forall cv, conv_ok cv -> forall f p t rel out,
  is_subpath cv f p false = Rel rel -> rel <> [cv_sep cv] -> t <> [] ->
  replace_path cv p f t = RepOk out ->
  exists rel', is_subpath cv t out false = Rel rel' /\ pc cv rel' = pc cv rel.
Proof. exact replace_lands_inside_equiv. Qed.
Print Assumptions C13_replace_lands_inside_equiv.

Example replace_ex :
  is_subpath std_ci (str_of "/A") (str_of "\a/x/Y") false = Rel (str_of "/x/Y") /\
  replace_path std_ci (str_of "\a/x/Y") (str_of "/A") (str_of "/t/") = RepOk (str_of "/t/x/Y") /\
  is_subpath std_ci (str_of "/t/") (str_of "/t/x/Y") false = Rel (str_of "/x/Y") /\
  replace_path std_ci (str_of "/ab/x") (str_of "/a") (str_of "/t") = RepValueError.
Proof. vm_compute. auto. Qed.

(* moving into the root gives "//x": the same relative part is NOT reported back (an equivalent one is) *)
Definition replace_lands_inside_full : Prop := forall cv, conv_ok cv -> forall f p t rel out,
  is_subpath cv f p false = Rel rel -> rel <> [cv_sep cv] -> t <> [] ->
  replace_path cv p f t = RepOk out -> is_subpath cv t out false = Rel rel.
Theorem C13_replace_lands_inside_refuted : ~ replace_lands_inside_full.
Proof.
  intros H.
  specialize (H std (conv_ok_cs std eq_refl) (str_of "/a") (str_of "/a/x") (str_of "/") (str_of "/x") (str_of "//x")).
  vm_compute in H. specialize (H eq_refl). 
  assert (H' : Rel [47%N; 47%N; 120%N] = Rel [47%N; 120%N]) by (apply H; try reflexivity; discriminate).
  discriminate.
Qed.
Print Assumptions C13_replace_lands_inside_refuted.

(* ------------------------------------------------------------------ 6. path equality *)
Theorem C13_match_refl : forall cv a d, paths_match cv a a d = true.
Proof. exact match_refl. Qed.
Print Assumptions C13_match_refl.

Theorem C13_match_sym : forall cv a b d, paths_match cv a b d = paths_match cv b a d.
Proof. exact match_sym. Qed.
Print Assumptions C13_match_sym.

Theorem C13_match_trans : forall cv a b c d,
  paths_match cv a b d = true -> paths_match cv b c d = true -> paths_match cv a c d = true.
Proof. exact match_trans. Qed.
Print Assumptions C13_match_trans.

Theorem C13_match_iff_norm : forall cv a b d,
  paths_match cv a b d = true <-> normalize_path cv a d = normalize_path cv b d.
Proof. exact match_iff_norm. Qed.
Print Assumptions C13_match_iff_norm.

(* equality is equality of components, case-folded only where the provider is case-insensitive *)
Theorem C13_match_iff_components : forall cv, conv_ok cv -> forall a b d,
  paths_match cv a b d = true <-> key cv d (pc cv a) = key cv d (pc cv b).
Proof. exact match_iff_key. Qed.
Print Assumptions C13_match_iff_components.

Theorem C13_match_normalize : forall cv, conv_ok cv -> forall p d,
  paths_match cv (normalize_path cv p d) p d = true.
Proof. exact match_normalize. Qed.
Print Assumptions C13_match_normalize.

Theorem C13_match_case : forall cv, fold_ok cv -> forall p, cv_cs cv = false ->
  paths_match cv p (lower cv p) false = true.
Proof. exact match_case. Qed.
Print Assumptions C13_match_case.

Theorem C13_match_case_sensitive : forall cv a b d, cv_cs cv = true ->
  (paths_match cv a b d = true <-> pc cv a = pc cv b).
Proof. exact match_cs. Qed.
Print Assumptions C13_match_case_sensitive.

Theorem C13_display_keeps_leaf : forall cv, fold_ok cv -> forall p, cv_cs cv = false ->
  basename cv (normalize_path cv p true) = basename cv (normalize_path (cs_twin cv) p false).
Proof. exact display_keeps_leaf. Qed.
Print Assumptions C13_display_keeps_leaf.

Theorem C13_display_same_class : forall cv, fold_ok cv -> forall p, cv_cs cv = false ->
  lower cv (normalize_path cv p true) = normalize_path cv p false.
Proof. exact display_same_class. Qed.
Print Assumptions C13_display_same_class.

Theorem C13_match_display_plain : forall cv, conv_ok cv -> forall a b,
  paths_match cv a b true = true -> paths_match cv a b false = true.
Proof. exact match_display_plain. Qed.
Print Assumptions C13_match_display_plain.

Example match_ex :
  paths_match std_ci (str_of "/A\b//C/") (str_of "/a/B/c") false = true /\
  paths_match std_ci (str_of "/A\b//C/") (str_of "/a/B/c") true = false /\
  paths_match std_ci (str_of "/A\b//C/") (str_of "/a/B/C") true = true /\
  paths_match std (str_of "/A/b") (str_of "/a/b") false = false.
Proof. vm_compute. auto. Qed.

(* in display mode the leaf keeps its case, so a path does not match its own lower-casing *)
Definition match_case_display_full : Prop := forall cv, fold_ok cv -> forall p, cv_cs cv = false ->
  paths_match cv p (lower cv p) true = true.
Theorem C13_match_case_display_refuted : ~ match_case_display_full.
Proof.
  intros H. specialize (H cv_A fold_A_ok (str_of "/A") eq_refl). vm_compute in H. discriminate.
Qed.
Print Assumptions C13_match_case_display_refuted.

(* ------------------------------------------------------------------ 7. translate *)
Theorem C13_translate_outside : forall cv0 cv1 r0 r1 side p,
  is_subpath (cv_of cv0 cv1 (negb side)) (root_of r0 r1 (negb side)) p false = NotSub <->
  translate cv0 cv1 r0 r1 side p = None.
Proof. exact translate_outside. Qed.
Print Assumptions C13_translate_outside.

Theorem C13_translate_inside : forall cv0 cv1 r0 r1 side p r,
  is_subpath (cv_of cv0 cv1 (negb side)) (root_of r0 r1 (negb side)) p false = Rel r ->
  translate cv0 cv1 r0 r1 side p = Some (join (cv_of cv0 cv1 side) [root_of r0 r1 side; r]).
Proof. exact translate_inside. Qed.
Print Assumptions C13_translate_inside.

Theorem C13_translate_lands_inside : forall cv0 cv1 r0 r1 side p q,
  conv_ok (cv_of cv0 cv1 side) -> abs_path (cv_of cv0 cv1 side) (root_of r0 r1 side) ->
  translate cv0 cv1 r0 r1 side p = Some q -> dl (cv_of cv0 cv1 side) q = false ->
  is_subpath (cv_of cv0 cv1 side) (root_of r0 r1 side) q false <> NotSub.
Proof. exact translate_lands_inside. Qed.
Print Assumptions C13_translate_lands_inside.

Theorem C13_translate_roundtrip : forall cv0 cv1 r0 r1 side p,
  conv_ok cv0 -> conv_ok cv1 -> same_syntax cv0 cv1 -> abs_path cv0 r0 -> abs_path cv1 r1 ->
  is_subpath (cv_of cv0 cv1 (negb side)) (root_of r0 r1 (negb side)) p false <> NotSub ->
  exists q,
    translate cv0 cv1 r0 r1 side p = Some q /\
    (dl (cv_of cv0 cv1 side) q = false ->
     exists back,
       translate cv0 cv1 r0 r1 (negb side) q = Some back /\
       paths_match (cv_of cv0 cv1 (negb side)) back p false = true).
Proof. exact translate_roundtrip. Qed.
Print Assumptions C13_translate_roundtrip.

Example translate_ex :
  same_syntax std std_ci /\ abs_path std (str_of "/Local") /\ abs_path std_ci (str_of "\remote\") /\
  translate std std_ci (str_of "/Local") (str_of "\remote\") true (str_of "/Local//x\Y/") = Some (str_of "/remote/x/Y") /\
  translate std std_ci (str_of "/Local") (str_of "\remote\") false (str_of "/REMOTE/x/Y") = Some (str_of "/Local/x/Y") /\
  translate std std_ci (str_of "/Local") (str_of "\remote\") true (str_of "/Local2/x") = None /\
  translate std std_ci (str_of "/Local") (str_of "\remote\") true (str_of "/local/x") = None.
Proof.
  split; [split; reflexivity|]. split; [exists (str_of "Local"); reflexivity|].
  split; [exists (str_of "remote"); reflexivity|]. vm_compute. auto.
Qed.

(* ------------------------------------------------------------------ second tie: the source as translated *)
(* GenPath.v is regenerated from cloudsync/provider.py by harness/translator.py on every run; these
   equalities carry every theorem above over to what the source of the four helpers says now. *)
Theorem C13_gen_nps : forall cv p, gen_nps cv p = nps cv p.
Proof. exact gen_nps_eq. Qed.
Print Assumptions C13_gen_nps.

Theorem C13_gen_split : forall cv p, gen_split cv p = split cv p.
Proof. exact gen_split_eq. Qed.
Print Assumptions C13_gen_split.

Theorem C13_gen_is_subpath : forall cv f t st, gen_is_subpath cv f t st = is_subpath cv f t st.
Proof. exact gen_is_subpath_eq. Qed.
Print Assumptions C13_gen_is_subpath.

Theorem C13_gen_replace_path : forall cv p f t, gen_replace_path cv p f t = replace_path cv p f t.
Proof. exact gen_replace_path_eq. Qed.
Print Assumptions C13_gen_replace_path.

(* ------------------------------------------------------------------ the fold hypothesis is needed *)
(* without [conv_ok] normalisation is not idempotent: a fold that is not idempotent breaks it.  (On the real
   code the same happens where str.lower() is not a per-character fold: known finding P-10, U+0130 before ':'.) *)
Definition normalize_idem_full : Prop := forall cv p d,
  normalize_path cv (normalize_path cv p d) d = normalize_path cv p d.
Theorem C13_normalize_idem_nofold_refuted : ~ normalize_idem_full.
Proof.
  intros H.
  specialize (H {| cv_sep := 47; cv_alt := None; cv_cs := false; cv_win := false; cv_fold := N.succ |} (str_of "a") false).
  vm_compute in H. discriminate.
Qed.
Print Assumptions C13_normalize_idem_nofold_refuted.
