(* EntryPredLaws.v — laws of the decision predicates of cloudsync/sync/state.py the engine relies on, proved about
   the hand model (EntryPredModel.v) for ALL field values (and every answer of the provider's path comparison).
   Full-strength statements that are false of the code are kept as [..._full] with their refutation. *)
From Coq Require Import QArith Bool List NArith Lia.
From CS Require Import LoopModel EntryPredModel.
Import ListNotations.
Open Scope Q_scope.

(* ------------------------------------------------------------------ vocabulary *)
Definition changed_truthy (x : sidest) : bool := truth (cls_ch (s_changed x)).   (* bool(side.changed) *)
Definition has_oid (x : sidest) : bool := truth (cls_str (s_oid x)).             (* bool(side.oid) *)
Definition has_path (x : sidest) : bool := truth (cls_str (s_path x)).
Definition has_sync_path (x : sidest) : bool := truth (cls_str (s_sync_path x)).
Definition has_hash (x : sidest) : bool := truth (cls_hash (s_hash x)).
Definition is_bool (r : pyres) : Prop := r = RTrue \/ r = RFalse.

Lemma truth_rb : forall b, truth (rb b) = b.
Proof. intros []; reflexivity. Qed.
Lemma rb_is_bool : forall b, is_bool (rb b).
Proof. intros []; [left|right]; reflexivity. Qed.

Lemma bytes_eqb_eq : forall a b, bytes_eqb a b = true <-> a = b.
Proof.
  induction a as [|x a IH]; intros [|y b]; simpl; split; intro H; try reflexivity; try discriminate.
  - apply andb_true_iff in H. destruct H as [H1 H2]. apply N.eqb_eq in H1. apply IH in H2. subst. reflexivity.
  - inversion H; subst. rewrite N.eqb_refl. simpl. apply IH. reflexivity.
Qed.
Lemma hash_eqb_eq : forall a b, hash_eqb a b = true <-> a = b.
Proof.
  intros [a|] [b|]; simpl; split; intro H; try reflexivity; try discriminate.
  - apply bytes_eqb_eq in H. subst. reflexivity.
  - inversion H; subst. apply bytes_eqb_eq. reflexivity.
Qed.
(* `hash != sync_hash` is real inequality of the two values *)
Lemma hash_changed_iff : forall x, hash_changed x = true <-> s_hash x <> s_sync_hash x.
Proof.
  intros x. unfold hash_changed. rewrite negb_true_iff. split.
  - intros H E. apply hash_eqb_eq in E. congruence.
  - intros H. destruct (hash_eqb (s_hash x) (s_sync_hash x)) eqn:E; [|reflexivity].
    apply hash_eqb_eq in E. contradiction.
Qed.

(* ------------------------------------------------------------------ truthiness of every predicate, as a formula *)
Lemma truth_side_needs_sync : forall e s,
  truth (side_needs_sync e s) =
  s_force (sd e s)
  || (changed_truthy (sd e s) && has_oid (sd e s)
      && (hash_changed (sd e s) || negb (pm e s) || ex_gone (s_exists (sd e s)))).
Proof.
  intros e s. unfold side_needs_sync, changed_truthy, has_oid.
  destruct (s_force (sd e s)); [reflexivity|].
  destruct (s_changed (sd e s)) as [| |q]; try reflexivity.
  simpl. destruct (Qeq_bool q 0); [reflexivity|].
  destruct (s_oid (sd e s)); try reflexivity. simpl. apply truth_rb.
Qed.

Lemma truth_needs_sync : forall e,
  truth (needs_sync e) = truth (side_needs_sync e SL) || truth (side_needs_sync e SR).
Proof.
  intros e. unfold needs_sync. destruct (truth (side_needs_sync e SL)) eqn:E; [exact E|reflexivity].
Qed.

Lemma truth_is_deletion : forall e s,
  truth (is_deletion e s) =
  ex_eqb (s_exists (sd e (other s))) XExists && ex_deleted (s_exists (sd e s)) && changed_truthy (sd e s).
Proof.
  intros e s. unfold is_deletion, changed_truthy.
  destruct (s_exists (sd e (other s))); try reflexivity.
  destruct (ex_deleted (s_exists (sd e s))); reflexivity.
Qed.

Lemma truth_corrupt_gone : forall e s,
  truth (corrupt_gone e s) =
  ex_eqb (s_exists (sd e s)) XCorrupt && match s_saved (sd e s) with Some y => ex_gone y | None => false end.
Proof.
  intros e s. unfold corrupt_gone. destruct (s_exists (sd e s)); try reflexivity.
  destruct (s_saved (sd e s)); [apply truth_rb|reflexivity].
Qed.

Lemma truth_is_creation : forall e s,
  truth (is_creation e s) =
  has_path (sd e s) && ex_eqb (s_exists (sd e s)) XExists && truth (side_needs_sync e s)
  && (negb (has_oid (sd e (other s))) || ex_deleted (s_exists (sd e (other s))) || truth (corrupt_gone e (other s))).
Proof.
  intros e s. unfold is_creation, has_path, has_oid.
  destruct (s_path (sd e s)); try reflexivity.
  destruct (s_exists (sd e s)); try reflexivity.
  simpl. destruct (truth (side_needs_sync e s)); [|reflexivity].
  rewrite truth_rb. destruct (s_oid (sd e (other s))); reflexivity.
Qed.

Lemma truth_is_path_change : forall e s,
  truth (is_path_change e s) = has_sync_path (sd e s) && negb (pm e s).
Proof.
  intros e s. unfold is_path_change, has_sync_path. destruct (s_sync_path (sd e s)); try reflexivity. apply truth_rb.
Qed.

Lemma truth_is_rename : forall e s,
  truth (is_rename e s) = has_sync_path (sd e s) && has_path (sd e s) && negb (pm e s).
Proof.
  intros e s. unfold is_rename, has_sync_path, has_path. destruct (s_sync_path (sd e s)); try reflexivity.
  destruct (s_path (sd e s)); try reflexivity. apply truth_rb.
Qed.

Lemma truth_hash_conflict : forall e,
  truth (hash_conflict e) =
  has_hash (e_local e) && has_hash (e_remote e) && has_path (e_local e) && has_path (e_remote e)
  && hash_changed (e_local e) && hash_changed (e_remote e).
Proof.
  intros e. unfold hash_conflict, has_hash, has_path.
  destruct (s_hash (e_local e)) as [[|a l]|]; try reflexivity;
  destruct (s_hash (e_remote e)) as [[|b r]|]; try reflexivity;
  destruct (s_path (e_local e)); try reflexivity; destruct (s_path (e_remote e)); try reflexivity;
  simpl; apply truth_rb.
Qed.

(* ------------------------------------------------------------------ needs_sync *)
(* complete characterisation *)
Lemma side_needs_sync_iff : forall e s,
  truth (side_needs_sync e s) = true <->
  s_force (sd e s) = true \/
  (changed_truthy (sd e s) = true /\ has_oid (sd e s) = true /\
   (s_hash (sd e s) <> s_sync_hash (sd e s) \/ pm e s = false \/ ex_gone (s_exists (sd e s)) = true)).
Proof.
  intros e s. rewrite truth_side_needs_sync, orb_true_iff, !andb_true_iff, !orb_true_iff, negb_true_iff,
    hash_changed_iff. tauto.
Qed.

(* needs_sync false: not forced, and unchanged, or without id, or nothing differs *)
Lemma side_needs_sync_false : forall e s,
  truth (side_needs_sync e s) = false ->
  s_force (sd e s) = false /\
  (changed_truthy (sd e s) = false \/ has_oid (sd e s) = false \/
   (s_hash (sd e s) = s_sync_hash (sd e s) /\ pm e s = true /\ ex_gone (s_exists (sd e s)) = false)).
Proof.
  intros e s H. rewrite truth_side_needs_sync in H. apply orb_false_iff in H. destruct H as [Hf H].
  split; [exact Hf|].
  destruct (changed_truthy (sd e s)); [|left; reflexivity].
  destruct (has_oid (sd e s)); [|right; left; reflexivity].
  simpl in H. apply orb_false_iff in H. destruct H as [H H3]. apply orb_false_iff in H. destruct H as [H1 H2].
  right; right. repeat split.
  - unfold hash_changed in H1. apply negb_false_iff in H1. apply hash_eqb_eq in H1. exact H1.
  - apply negb_false_iff in H2. exact H2.
  - exact H3.
Qed.

(* the two-disjunct reading "needs_sync false => unchanged or no id" is false: a side can carry a stale stamp *)
Definition side0 : sidest :=
  {| s_force := false; s_changed := CNone; s_oid := SNone; s_hash := None; s_sync_hash := None; s_path := SNone;
     s_sync_path := SNone; s_exists := XUnknown; s_saved := None; s_last_gotten := 0 |}.
Definition synced_side (ch : chv) : sidest :=
  {| s_force := false; s_changed := ch; s_oid := SFull; s_hash := Some [1%N]; s_sync_hash := Some [1%N];
     s_path := SFull; s_sync_path := SFull; s_exists := XExists; s_saved := None; s_last_gotten := 0 |}.
Definition mk (l r : sidest) : entry :=
  {| e_ignored := INone; e_local := l; e_remote := r; e_pmL := true; e_pmR := true |}.

Definition needs_sync_false_full : Prop :=
  forall e s, truth (side_needs_sync e s) = false -> changed_truthy (sd e s) = false \/ has_oid (sd e s) = false.
Lemma needs_sync_false_full_refuted : ~ needs_sync_false_full.
Proof.
  intro H. specialize (H (mk (synced_side (CNum 5)) side0) SL eq_refl). vm_compute in H. destruct H; discriminate.
Qed.

(* a side that was just finished (changed := 0, or None / False) does not need sync unless force_sync *)
Lemma finished_side_quiet : forall e s,
  changed_truthy (sd e s) = false -> s_force (sd e s) = false -> truth (side_needs_sync e s) = false.
Proof. intros e s Hc Hf. rewrite truth_side_needs_sync, Hc, Hf. reflexivity. Qed.

Lemma forced_needs_sync : forall e s, s_force (sd e s) = true -> side_needs_sync e s = RTrue.
Proof. intros e s H. unfold side_needs_sync. rewrite H. reflexivity. Qed.

Definition finished_side_quiet_full : Prop :=
  forall e s, changed_truthy (sd e s) = false -> truth (side_needs_sync e s) = false.
Lemma finished_side_quiet_full_refuted : ~ finished_side_quiet_full.
Proof.
  intro H.
  specialize (H (mk {| s_force := true; s_changed := CNum 0; s_oid := SFull; s_hash := None; s_sync_hash := None;
                       s_path := SFull; s_sync_path := SFull; s_exists := XExists; s_saved := None;
                       s_last_gotten := 0 |} side0) SL eq_refl).
  discriminate H.
Qed.

(* an entry needs sync iff one of its sides does *)
Lemma needs_sync_iff : forall e,
  truth (needs_sync e) = true <-> truth (side_needs_sync e SL) = true \/ truth (side_needs_sync e SR) = true.
Proof. intros e. rewrite truth_needs_sync. apply orb_true_iff. Qed.

(* classes: a truthy needs_sync is True itself; a falsy one may be None / 0 / '' (not a bool) *)
Lemma side_needs_sync_truthy_is_True : forall e s, truth (side_needs_sync e s) = true -> side_needs_sync e s = RTrue.
Proof.
  intros e s. unfold side_needs_sync. destruct (s_force (sd e s)); [reflexivity|].
  destruct (s_changed (sd e s)) as [| |q]; try discriminate.
  destruct (Qeq_bool q 0); [discriminate|]. destruct (s_oid (sd e s)); try discriminate.
  intros H. rewrite truth_rb in H. rewrite H. reflexivity.
Qed.
Definition side_needs_sync_bool_full : Prop := forall e s, is_bool (side_needs_sync e s).
Lemma side_needs_sync_bool_full_refuted : ~ side_needs_sync_bool_full.
Proof. intro H. destruct (H (mk side0 side0) SL) as [H1|H1]; discriminate H1. Qed.

(* ------------------------------------------------------------------ creation / deletion / rename *)
Lemma is_creation_iff : forall e s,
  truth (is_creation e s) = true <->
  s_path (sd e s) = SFull /\ s_exists (sd e s) = XExists /\ truth (side_needs_sync e s) = true /\
  (has_oid (sd e (other s)) = false \/ ex_deleted (s_exists (sd e (other s))) = true \/
   (s_exists (sd e (other s)) = XCorrupt /\ exists y, s_saved (sd e (other s)) = Some y /\ ex_gone y = true)).
Proof.
  intros e s. rewrite truth_is_creation, truth_corrupt_gone, !andb_true_iff, !orb_true_iff, negb_true_iff,
    andb_true_iff. unfold has_path.
  split.
  - intros [[[Hp Hx] Hn] Ho]. repeat split.
    + destruct (s_path (sd e s)); try discriminate. reflexivity.
    + destruct (s_exists (sd e s)); try discriminate. reflexivity.
    + exact Hn.
    + destruct Ho as [[Ho|Ho]|[Hc Hs]]; [left; exact Ho|right; left; exact Ho|].
      right; right. split; [destruct (s_exists (sd e (other s))); try discriminate; reflexivity|].
      destruct (s_saved (sd e (other s))) as [y|]; [|discriminate]. exists y. split; [reflexivity|exact Hs].
  - intros [Hp [Hx [Hn Ho]]]. rewrite Hp, Hx. repeat split; try exact Hn.
    destruct Ho as [Ho|[Ho|[Hc [y [Hs Hg]]]]]; [left; left; exact Ho|left; right; exact Ho|].
    right. rewrite Hc, Hs. split; [reflexivity|exact Hg].
Qed.

Lemma is_creation_bool : forall e s, is_bool (is_creation e s).
Proof.
  intros e s. unfold is_creation. destruct (s_path (sd e s)); try (right; reflexivity).
  destruct (s_exists (sd e s)); try (right; reflexivity).
  destruct (truth (side_needs_sync e s)); [apply rb_is_bool|right; reflexivity].
Qed.

(* a creation is always something the side itself needs to sync (so never a side that was just finished) *)
Lemma creation_needs_sync : forall e s,
  truth (is_creation e s) = true -> truth (side_needs_sync e s) = true /\ truth (needs_sync e) = true.
Proof.
  intros e s H. apply is_creation_iff in H. destruct H as [_ [_ [Hn _]]]. split; [exact Hn|].
  apply needs_sync_iff. destruct s; [left|right]; exact Hn.
Qed.

Lemma is_deletion_iff : forall e s,
  truth (is_deletion e s) = true <->
  s_exists (sd e (other s)) = XExists /\ (s_exists (sd e s) = XTrashed \/ s_exists (sd e s) = XMissing) /\
  changed_truthy (sd e s) = true.
Proof.
  intros e s. rewrite truth_is_deletion, !andb_true_iff. split.
  - intros [[H1 H2] H3]. repeat split; [destruct (s_exists (sd e (other s))); try discriminate; reflexivity| |exact H3].
    destruct (s_exists (sd e s)); try discriminate; [left|right]; reflexivity.
  - intros [H1 [H2 H3]]. rewrite H1. destruct H2 as [H2|H2]; rewrite H2; repeat split; exact H3.
Qed.

(* is_deletion never returns True: when truthy it is the side's stamp *)
Lemma is_deletion_truthy_is_stamp : forall e s, truth (is_deletion e s) = true -> is_deletion e s = RObj.
Proof.
  intros e s. unfold is_deletion. destruct (s_exists (sd e (other s))); try discriminate.
  destruct (ex_deleted (s_exists (sd e s))); [|discriminate].
  destruct (s_changed (sd e s)) as [| |q]; try discriminate. simpl. destruct (Qeq_bool q 0); [discriminate|reflexivity].
Qed.

(* a deletion of an object that has an id is never skipped by needs_sync *)
Lemma deletion_with_id_needs_sync : forall e s,
  truth (is_deletion e s) = true -> has_oid (sd e s) = true -> truth (side_needs_sync e s) = true.
Proof.
  intros e s H Ho. apply is_deletion_iff in H. destruct H as [_ [Hx Hc]].
  rewrite truth_side_needs_sync, Hc, Ho. destruct Hx as [Hx|Hx]; rewrite Hx; simpl;
  rewrite !orb_true_r; reflexivity.
Qed.
Definition deletion_needs_sync_full : Prop :=
  forall e s, truth (is_deletion e s) = true -> truth (side_needs_sync e s) = true.
Definition gone_side : sidest :=
  {| s_force := false; s_changed := CNum 5; s_oid := SNone; s_hash := Some [1%N]; s_sync_hash := Some [1%N];
     s_path := SFull; s_sync_path := SFull; s_exists := XTrashed; s_saved := None; s_last_gotten := 0 |}.
Lemma deletion_needs_sync_full_refuted : ~ deletion_needs_sync_full.
Proof. intro H. specialize (H (mk gone_side (synced_side CNone)) SL eq_refl). discriminate H. Qed.

(* same side: creation and deletion are exclusive *)
Lemma creation_deletion_exclusive : forall e s,
  truth (is_creation e s) = true -> truth (is_deletion e s) = false.
Proof.
  intros e s H. apply is_creation_iff in H. destruct H as [_ [Hx _]].
  rewrite truth_is_deletion, Hx. simpl. rewrite andb_false_r. reflexivity.
Qed.

(* the two sides are never both deletions *)
Lemma deletion_both_sides_exclusive : forall e s,
  truth (is_deletion e s) = true -> truth (is_deletion e (other s)) = false.
Proof.
  intros e s H. apply is_deletion_iff in H. destruct H as [Ho _].
  rewrite truth_is_deletion, Ho. simpl. rewrite andb_false_r. reflexivity.
Qed.

(* both sides creations at once: only when both are forced *)
Lemma other_other : forall s, other (other s) = s.
Proof. intros []; reflexivity. Qed.
Lemma creation_both_sides_forced : forall e s,
  truth (is_creation e s) = true -> truth (is_creation e (other s)) = true ->
  s_force (sd e s) = true /\ s_force (sd e (other s)) = true.
Proof.
  intros e s H1 H2. apply is_creation_iff in H1. apply is_creation_iff in H2. rewrite other_other in H2.
  destruct H1 as [_ [Hx1 [Hn1 Ho1]]]. destruct H2 as [_ [Hx2 [Hn2 Ho2]]].
  assert (A1 : has_oid (sd e (other s)) = false).
  { destruct Ho1 as [A|[A|[A _]]]; [exact A| |]; rewrite Hx2 in A; discriminate A. }
  assert (A2 : has_oid (sd e s) = false).
  { destruct Ho2 as [A|[A|[A _]]]; [exact A| |]; rewrite Hx1 in A; discriminate A. }
  rewrite truth_side_needs_sync in Hn1, Hn2. rewrite A2 in Hn1. rewrite A1 in Hn2.
  rewrite andb_false_r in Hn1, Hn2. simpl in Hn1, Hn2. rewrite orb_false_r in Hn1, Hn2. split; assumption.
Qed.
Lemma creation_one_side_unless_forced : forall e s,
  s_force (sd e s) = false -> truth (is_creation e s) = true -> truth (is_creation e (other s)) = false.
Proof.
  intros e s Hf H1. destruct (truth (is_creation e (other s))) eqn:H2; [|reflexivity].
  destruct (creation_both_sides_forced e s H1 H2) as [A _]. congruence.
Qed.

Definition forced_new (p : bool) : sidest :=
  {| s_force := true; s_changed := CNone; s_oid := SNone; s_hash := None; s_sync_hash := None; s_path := SFull;
     s_sync_path := (if p then SFull else SNone); s_exists := XExists; s_saved := None; s_last_gotten := 0 |}.
Definition creation_both_sides_exclusive_full : Prop :=
  forall e s, truth (is_creation e s) = true -> truth (is_creation e (other s)) = false.
Lemma creation_both_sides_exclusive_full_refuted : ~ creation_both_sides_exclusive_full.
Proof. intro H. specialize (H (mk (forced_new false) (forced_new false)) SL eq_refl). discriminate H. Qed.

(* the remaining pairs are NOT exclusive *)
Definition new_side (sp : strv) : sidest :=
  {| s_force := false; s_changed := CNum 5; s_oid := SFull; s_hash := Some [2%N]; s_sync_hash := None; s_path := SFull;
     s_sync_path := sp; s_exists := XExists; s_saved := None; s_last_gotten := 0 |}.
Definition mkp (l r : sidest) (a b : bool) : entry :=
  {| e_ignored := INone; e_local := l; e_remote := r; e_pmL := a; e_pmR := b |}.

Definition creation_rename_exclusive_full : Prop :=
  forall e s, truth (is_creation e s) = true -> truth (is_rename e s) = false.
Lemma creation_rename_exclusive_full_refuted : ~ creation_rename_exclusive_full.
Proof. intro H. specialize (H (mkp (new_side SFull) side0 false true) SL eq_refl). discriminate H. Qed.

Definition deletion_rename_exclusive_full : Prop :=
  forall e s, truth (is_deletion e s) = true -> truth (is_rename e s) = false.
Lemma deletion_rename_exclusive_full_refuted : ~ deletion_rename_exclusive_full.
Proof. intro H. specialize (H (mkp gone_side (synced_side CNone) false true) SL eq_refl). discriminate H. Qed.

Definition creation_other_deletion_exclusive_full : Prop :=
  forall e s, truth (is_creation e s) = true -> truth (is_deletion e (other s)) = false.
Lemma creation_other_deletion_exclusive_full_refuted : ~ creation_other_deletion_exclusive_full.
Proof. intro H. specialize (H (mk (new_side SNone) gone_side) SL eq_refl). discriminate H. Qed.

(* rename = path change of a side that has a path *)
Lemma is_rename_iff : forall e s,
  truth (is_rename e s) = true <-> truth (is_path_change e s) = true /\ has_path (sd e s) = true.
Proof.
  intros e s. rewrite truth_is_rename, truth_is_path_change, !andb_true_iff. tauto.
Qed.
Lemma is_path_change_iff : forall e s,
  truth (is_path_change e s) = true <-> s_sync_path (sd e s) = SFull /\ pm e s = false.
Proof.
  intros e s. rewrite truth_is_path_change, andb_true_iff, negb_true_iff. unfold has_sync_path.
  destruct (s_sync_path (sd e s)); simpl; split; intros [A B]; try discriminate; split; auto.
Qed.
(* a path change makes the side need sync as soon as it is changed and has an id *)
Lemma path_change_needs_sync : forall e s,
  truth (is_path_change e s) = true -> changed_truthy (sd e s) = true -> has_oid (sd e s) = true ->
  truth (side_needs_sync e s) = true.
Proof.
  intros e s H Hc Ho. apply is_path_change_iff in H. destruct H as [_ Hp].
  rewrite truth_side_needs_sync, Hc, Ho, Hp. simpl. rewrite orb_true_r, orb_true_r. reflexivity.
Qed.

(* ------------------------------------------------------------------ hash_conflict *)
Lemma hash_conflict_iff : forall e,
  truth (hash_conflict e) = true <->
  has_hash (e_local e) = true /\ has_hash (e_remote e) = true /\
  s_path (e_local e) = SFull /\ s_path (e_remote e) = SFull /\
  s_hash (e_local e) <> s_sync_hash (e_local e) /\ s_hash (e_remote e) <> s_sync_hash (e_remote e).
Proof.
  intros e. rewrite truth_hash_conflict, !andb_true_iff, !hash_changed_iff. unfold has_path.
  destruct (s_path (e_local e)); destruct (s_path (e_remote e)); simpl; intuition congruence.
Qed.
Lemma hash_conflict_bool : forall e, is_bool (hash_conflict e).
Proof.
  intros e. unfold hash_conflict.
  destruct (cls_hash (s_hash (e_local e))); try (right; reflexivity);
  destruct (cls_hash (s_hash (e_remote e))); try (right; reflexivity);
  destruct (s_path (e_local e)); try (right; reflexivity); destruct (s_path (e_remote e)); try (right; reflexivity);
  apply rb_is_bool.
Qed.
(* hash_conflict does NOT compare the two sides with each other: identical new content on both sides is a hash_conflict *)
Definition hash_conflict_sides_differ_full : Prop :=
  forall e, truth (hash_conflict e) = true -> s_hash (e_local e) <> s_hash (e_remote e).
Lemma hash_conflict_sides_differ_full_refuted : ~ hash_conflict_sides_differ_full.
Proof. intro H. apply (H (mk (new_side SNone) (new_side SNone)) eq_refl). reflexivity. Qed.
(* a hash conflict makes every side that is changed and has an id need sync *)
Lemma hash_conflict_needs_sync : forall e s,
  truth (hash_conflict e) = true -> changed_truthy (sd e s) = true -> has_oid (sd e s) = true ->
  truth (side_needs_sync e s) = true.
Proof.
  intros e s H Hc Ho. rewrite truth_hash_conflict, !andb_true_iff in H. destruct H as [[_ Hl] Hr].
  rewrite truth_side_needs_sync, Hc, Ho. destruct s; simpl sd; [rewrite Hl|rewrite Hr]; simpl; apply orb_true_r.
Qed.

(* ------------------------------------------------------------------ ignore reasons *)
Lemma is_discarded_iff : forall e,
  is_discarded e = RTrue <-> e_ignored e = IDiscarded \/ e_ignored e = IIrrelevant.
Proof.
  intros e. unfold is_discarded. destruct (e_ignored e); split; intro H; try discriminate; auto;
  destruct H; discriminate.
Qed.
Lemma ignore_flags_bool : forall e,
  is_bool (is_discarded e) /\ is_bool (is_irrelevant e) /\ is_bool (is_conflicted e) /\ is_bool (is_temp_rename e).
Proof.
  intros e. unfold is_discarded, is_irrelevant, is_conflicted, is_temp_rename, is_bool.
  destruct (e_ignored e); repeat split; auto.
Qed.
Lemma irrelevant_is_discarded : forall e, is_irrelevant e = RTrue -> is_discarded e = RTrue.
Proof. intros e. unfold is_irrelevant, is_discarded. destruct (e_ignored e); auto. Qed.
(* discarded, conflicted and temp-rename are pairwise exclusive *)
Lemma ignore_flags_exclusive : forall e,
  (is_discarded e = RTrue -> is_conflicted e = RFalse /\ is_temp_rename e = RFalse) /\
  (is_conflicted e = RTrue -> is_discarded e = RFalse /\ is_temp_rename e = RFalse) /\
  (is_temp_rename e = RTrue -> is_discarded e = RFalse /\ is_conflicted e = RFalse).
Proof.
  intros e. unfold is_discarded, is_conflicted, is_temp_rename.
  destruct (e_ignored e); repeat split; intros; try discriminate; reflexivity.
Qed.

(* ------------------------------------------------------------------ is_trash *)
Lemma is_trash_iff : forall e, is_trash e = RTrue <-> s_oid (e_local e) = SNone /\ s_oid (e_remote e) = SNone.
Proof.
  intros e. unfold is_trash. destruct (s_oid (e_local e)); destruct (s_oid (e_remote e)); split; intro H;
  try discriminate; try (destruct H; discriminate); auto.
Qed.
(* an entry without ids needs sync only when forced *)
Lemma trash_needs_sync_only_forced : forall e s,
  is_trash e = RTrue -> truth (side_needs_sync e s) = s_force (sd e s).
Proof.
  intros e s H. apply is_trash_iff in H. destruct H as [Hl Hr]. rewrite truth_side_needs_sync. unfold has_oid.
  destruct s; simpl sd; [rewrite Hl|rewrite Hr]; simpl; rewrite andb_false_r; simpl; apply orb_false_r.
Qed.
(* `is None` is not truthiness: an entry whose ids are '' is not trash although no side has a (truthy) id *)
Definition trash_iff_no_id_full : Prop :=
  forall e, is_trash e = RTrue <-> has_oid (e_local e) = false /\ has_oid (e_remote e) = false.
Definition empty_oid_side : sidest :=
  {| s_force := false; s_changed := CNone; s_oid := SEmpty; s_hash := None; s_sync_hash := None; s_path := SNone;
     s_sync_path := SNone; s_exists := XUnknown; s_saved := None; s_last_gotten := 0 |}.
Lemma trash_iff_no_id_full_refuted : ~ trash_iff_no_id_full.
Proof.
  intro H. destruct (H (mk empty_oid_side side0)) as [_ H2]. specialize (H2 (conj eq_refl eq_refl)). discriminate H2.
Qed.

(* ------------------------------------------------------------------ is_latest *)
Lemma is_latest_iff : forall e,
  truth (is_latest e) = true <-> truth (is_latest_side e SL) = true /\ truth (is_latest_side e SR) = true.
Proof.
  intros e. unfold is_latest, is_latest_side. rewrite !truth_rb. simpl sd. apply andb_true_iff.
Qed.
Lemma is_latest_side_iff : forall e s,
  truth (is_latest_side e s) = true <-> max_changed e <= s_last_gotten (sd e s).
Proof. intros e s. unfold is_latest_side. rewrite truth_rb. apply Qle_bool_iff. Qed.

(* ------------------------------------------------------------------ corrupt marker *)
Lemma corrupt_gone_is_corrupt : forall e s, truth (corrupt_gone e s) = true -> is_corrupt e s = RTrue.
Proof.
  intros e s. unfold corrupt_gone, is_corrupt. destruct (s_exists (sd e s)); try discriminate. reflexivity.
Qed.
Lemma corrupt_gone_exists_exclusive : forall e s,
  truth (corrupt_gone e s) = true -> corrupt_exists e s = RFalse.
Proof.
  intros e s. unfold corrupt_gone, corrupt_exists. destruct (s_exists (sd e s)); try discriminate.
  destruct (s_saved (sd e s)) as [[]|]; try discriminate; reflexivity.
Qed.
(* a corrupt side is not "gone" for needs_sync: CORRUPT alone never makes a side need sync *)
Lemma corrupt_alone_quiet : forall e s,
  s_exists (sd e s) = XCorrupt -> s_force (sd e s) = false -> s_hash (sd e s) = s_sync_hash (sd e s) -> pm e s = true ->
  truth (side_needs_sync e s) = false.
Proof.
  intros e s Hx Hf Hh Hp. rewrite truth_side_needs_sync, Hf, Hx, Hp.
  assert (A : hash_changed (sd e s) = false).
  { unfold hash_changed. apply negb_false_iff. apply hash_eqb_eq. exact Hh. }
  rewrite A. simpl. apply andb_false_r.
Qed.
