(* EventProofs.v — effect of one provider event on the sync state: exact entry-level characterisation of
   EventModel.process_event's shortcuts and of StateModel.update for a non-folder event of an id-stable
   provider (update_spec), on top of the C11 index invariant IdxJ. *)
From Coq Require Import NArith List Bool Arith Lia.
From CS Require Import Sx Str PathModel PathLaws StateModel StateProofs StatePathProofs EventModel.
Import ListNotations.

Lemma oN_eqb_refl a : oN_eqb a a = true.
Proof. destruct a; simpl; [apply N.eqb_refl|reflexivity]. Qed.
Lemma oN_eqb_eq a b : oN_eqb a b = true <-> a = b.
Proof.
  destruct a as [a|], b as [b|]; simpl; split; intros H; try discriminate; try reflexivity.
  - apply N.eqb_eq in H. congruence.
  - injection H as ->. apply N.eqb_refl.
Qed.

(* ---------------------------------------------------------------- A. _process_event shortcuts *)
Lemma idless_event_dropped E roots es sd ev fw ri :
  ev_oid ev = None ->
  (ev_ex ev <> Some false \/ ev_ot ev <> Some Dir \/ tstr (ev_path ev) = false \/
   lookup_path_live (st es) sd (ev_path ev) = []) ->
  process_event E roots es sd ev fw ri = Ok (ODropped, es).
Proof.
  intros Ho H. unfold process_event.
  assert (Hr: resolve_oid (st es) sd ev = None).
  { unfold resolve_oid. rewrite Ho.
    destruct (ev_ex ev) as [[|]|]; try reflexivity.
    destruct (ev_ot ev) as [[| |]|]; try reflexivity.
    destruct (tstr (ev_path ev)) eqn:Et; [|reflexivity].
    destruct H as [H|[H|[H|H]]]; try congruence.
    rewrite H. reflexivity. }
  rewrite Hr. reflexivity.
Qed.

Lemma folder_delete_by_path E roots es sd ev fw ri e r x :
  ev_oid ev = None -> ev_ex ev = Some false -> ev_ot ev = Some Dir -> tstr (ev_path ev) = true ->
  lookup_path_live (st es) sd (ev_path ev) = e :: r -> side_of (st es) e sd = Some x ->
  process_event E roots es sd ev fw ri =
  process_event E roots es sd (ev_with ev (s_oid x) (ev_path ev)) fw ri.
Proof.
  intros Ho Hex Hot Ht Hl Hx. unfold process_event.
  assert (Hr: resolve_oid (st es) sd ev = s_oid x).
  { unfold resolve_oid. rewrite Ho, Hex, Hot, Ht, Hl, Hx. reflexivity. }
  assert (Hr2: resolve_oid (st es) sd (ev_with ev (s_oid x) (ev_path ev)) = s_oid x).
  { unfold resolve_oid. simpl. destruct (s_oid x) as [o|] eqn:Eo; [reflexivity|].
    rewrite Hex, Hot, Ht, Hl, Hx. exact Eo. }
  rewrite Hr, Hr2. destruct (s_oid x) as [o|]; reflexivity.
Qed.

Lemma walk_event_noop_if_equal E roots es sd ev ri o e x :
  ev_oid ev = Some o -> lookup_oid (st es) sd (Some o) = Some e -> side_of (st es) e sd = Some x ->
  s_hash x = ev_hash ev -> s_path x = ev_path ev ->
  process_event E roots es sd ev true ri = Ok (OWalkSame, es).
Proof.
  intros Ho Hl Hx Hh Hp. unfold process_event.
  assert (Hr: resolve_oid (st es) sd ev = Some o) by (unfold resolve_oid; rewrite Ho; reflexivity).
  rewrite Hr. unfold walk_same. rewrite Hl, Hx, Hh, Hp, oN_eqb_refl, ostr_eqb_refl. reflexivity.
Qed.

(* ---------------------------------------------------------------- B. effect of the setters on entries and change set *)
Definition cs_grow (s s' : state) (e : eid) : Prop :=
  forall e', (set_mem e' (cset s) = true -> set_mem e' (cset s') = true) /\
             (set_mem e' (cset s') = true -> e' = e \/ set_mem e' (cset s) = true).
Lemma cs_grow_refl s e : cs_grow s s e.
Proof. intros e'. split; auto. Qed.
Lemma cs_grow_eq s s' e : cset s' = cset s -> cs_grow s s' e.
Proof. intros H e'. rewrite H. split; auto. Qed.
Lemma cs_grow_trans s1 s2 s3 e : cs_grow s1 s2 e -> cs_grow s2 s3 e -> cs_grow s1 s3 e.
Proof.
  intros H1 H2 e'. destruct (H1 e') as [A B], (H2 e') as [C D]. split; [auto|].
  intros H. destruct (D H) as [->|H']; [left; reflexivity|apply B; exact H'].
Qed.

Lemma set_mem_add e' e l : set_mem e' (set_add e l) = Nat.eqb e' e || set_mem e' l.
Proof.
  induction l as [|x l IH]; simpl.
  - rewrite orb_false_r. reflexivity.
  - destruct (Nat.eqb_spec e x) as [->|Hn]; simpl.
    + destruct (Nat.eqb e' x); reflexivity.
    + destruct (Nat.ltb e x); simpl.
      * reflexivity.
      * rewrite IH. destruct (Nat.eqb e' x), (Nat.eqb e' e); reflexivity.
Qed.
Lemma cs_grow_add s e : cs_grow s (cs_add s e) e.
Proof.
  intros e'. unfold cs_add. simpl. rewrite set_mem_add. split.
  - intros H. rewrite H. apply orb_true_r.
  - intros H. apply orb_prop in H as [H|H]; [left; apply Nat.eqb_eq; exact H|right; exact H].
Qed.

Lemma list_upd_same {T} (l : list T) n x : nth_error l n = Some x -> list_upd l n x = l.
Proof.
  revert n. induction l as [|a l IH]; intros [|n] H; simpl in *; try discriminate; try reflexivity.
  - injection H as ->. reflexivity.
  - rewrite IH by exact H. reflexivity.
Qed.
Lemma list_upd_twice {T} (l : list T) n x y : list_upd (list_upd l n x) n y = list_upd l n y.
Proof. revert n. induction l as [|a l IH]; intros [|n]; simpl; try reflexivity. rewrite IH. reflexivity. Qed.
Lemma list_upd_length {T} (l : list T) n x : length (list_upd l n x) = length l.
Proof. revert n. induction l as [|a l IH]; intros [|n]; simpl; try reflexivity. rewrite IH. reflexivity. Qed.


Lemma ents_raw_side s e sd f :
  ents (raw_side s e sd f) =
  match nth_error (ents s) e with Some en => list_upd (ents s) e (ss en sd (f (gs en sd))) | None => ents s end.
Proof. unfold raw_side. destruct (nth_error (ents s) e); reflexivity. Qed.
Lemma cset_raw_side s e sd f : cset (raw_side s e sd f) = cset s.
Proof. unfold raw_side. destruct (nth_error (ents s) e); reflexivity. Qed.
Lemma cset_st_oids s sd v : cset (st_oids s sd v) = cset s. Proof. destruct sd; reflexivity. Qed.
Lemma cset_st_paths s sd v : cset (st_paths s sd v) = cset s. Proof. destruct sd; reflexivity. Qed.
Lemma cset_slot_set s sd p o e : cset (slot_set s sd p o e) = cset s. Proof. unfold slot_set. apply cset_st_paths. Qed.
Lemma cset_slot_pop s sd p k : cset (slot_pop s sd p k) = cset s.
Proof.
  unfold slot_pop. destruct (al_get p (paths s sd)) as [d|]; [|reflexivity].
  destruct (match k with Some k0 => al_del k0 d | None => d end); apply cset_st_paths.
Qed.
Lemma ents_dirty_add s e : ents (dirty_add s e) = ents s. Proof. reflexivity. Qed.
Lemma cset_dirty_add s e : cset (dirty_add s e) = cset s. Proof. reflexivity. Qed.
Lemma ents_cs_add s e : ents (cs_add s e) = ents s. Proof. reflexivity. Qed.
Lemma ents_cs_del s e : ents (cs_del s e) = ents s. Proof. reflexivity. Qed.
Lemma ents_st_tape s t : ents (st_tape s t) = ents s. Proof. reflexivity. Qed.
Lemma cset_st_tape s t : cset (st_tape s t) = cset s. Proof. reflexivity. Qed.
Lemma ents_st_now s t : ents (st_now s t) = ents s. Proof. reflexivity. Qed.
Lemma cset_st_now s t : cset (st_now s t) = cset s. Proof. reflexivity. Qed.
Lemma ents_st_lastch s t : ents (st_lastch s t) = ents s. Proof. reflexivity. Qed.
Lemma cset_st_lastch s t : cset (st_lastch s t) = cset s. Proof. reflexivity. Qed.
Lemma ents_put_ent s e x : ents (put_ent s e x) = list_upd (ents s) e x. Proof. reflexivity. Qed.
Lemma cset_put_ent s e x : cset (put_ent s e x) = cset s. Proof. reflexivity. Qed.
Lemma cset_cs_add s e : cset (cs_add s e) = set_add e (cset s). Proof. reflexivity. Qed.

Global Hint Rewrite ents_raw_side cset_raw_side ents_st_oids ents_st_paths ents_slot_pop ents_slot_set cset_st_oids cset_st_paths
  cset_slot_set cset_slot_pop ents_dirty_add cset_dirty_add ents_cs_add ents_cs_del ents_st_tape cset_st_tape ents_st_now cset_st_now
  ents_st_lastch cset_st_lastch ents_put_ent cset_put_ent : evs.

Lemma get_ent_some s e en : nth_error (ents s) e = Some en -> get_ent s e = Ok en.
Proof. intros H. unfold get_ent. rewrite H. reflexivity. Qed.

Lemma set_plain_eff s e sd f s' en :
  nth_error (ents s) e = Some en -> set_plain s e sd f = Ok s' ->
  ents s' = list_upd (ents s) e (ss en sd (f (gs en sd))) /\ cset s' = cset s.
Proof.
  intros Hn H. unfold set_plain in H. rewrite (get_ent_some _ _ _ Hn) in H. simpl in H. injection H as <-.
  autorewrite with evs. rewrite Hn. split; reflexivity.
Qed.

Lemma w_oid_same x (o : str) : s_oid x = Some o -> w_oid x (Some o) = x.
Proof. destruct x; simpl; intros ->; reflexivity. Qed.
Lemma ss_gs en sd : ss en sd (gs en sd) = en.
Proof. destruct en, sd; reflexivity. Qed.
Lemma ss_ss en sd x y : ss (ss en sd x) sd y = ss en sd y.
Proof. destruct en, sd; reflexivity. Qed.

Lemma fuel_S s : fuel_of s = S (2 * length (ents s) + 7).
Proof. unfold fuel_of. lia. Qed.

Lemma nth_upd_eq {T} (l : list T) n x y : nth_error l n = Some y -> nth_error (list_upd l n x) n = Some x.
Proof. intros H. rewrite nth_list_upd, Nat.eqb_refl, H. reflexivity. Qed.


(* the part of _change_oid that takes the entry itself out of both indexes *)
Definition unfile (s : state) (sd : bool) (o : str) (pp : option str) : state :=
  let s1 := st_oids s sd (al_del o (oids s sd)) in
  match pp with Some p => if tstr (Some p) then slot_pop s1 sd p (Some o) else s1 | None => s1 end.
Lemma ents_unfile s sd o pp : ents (unfile s sd o pp) = ents s.
Proof. unfold unfile. destruct pp as [[|c p]|]; simpl; autorewrite with evs; reflexivity. Qed.
Lemma cset_unfile s sd o pp : cset (unfile s sd o pp) = cset s.
Proof. unfold unfile. destruct pp as [[|c p]|]; simpl; autorewrite with evs; reflexivity. Qed.

Lemma oid_finish_eff e sd (o : str) s1 s' en1 :
  nth_error (ents s1) e = Some en1 -> oid_finish true e sd (Some o) s1 = Ok s' ->
  ents s' = list_upd (ents s1) e (ss en1 sd (w_oid (gs en1 sd) (Some o))) /\ cs_grow s1 s' e /\ tape s' = tape s1.
Proof.
  intros Hn H. unfold oid_finish in H. rewrite (get_ent_some _ _ _ Hn) in H. cbn [bind] in H.
  pose (sa := st_oids (raw_side s1 e sd (fun y => w_oid y (Some o))) sd (al_set o e (oids s1 sd))).
  pose (sb := match s_path (gs en1 sd) with Some pp => if tstr (Some pp) then slot_set sa sd pp o e else sa | None => sa end).
  pose (sc := if (tchg (s_chg (gs en1 sd)) || tchg (s_chg (gs en1 (negb sd))))%bool then cs_add sb e else sb).
  assert (Hres: s' = raw_side (dirty_add sc e) e sd (fun y => w_oid y (Some o))) by (injection H as <-; reflexivity).
  clear H. subst s'.
  assert (Hsa: ents sa = list_upd (ents s1) e (ss en1 sd (w_oid (gs en1 sd) (Some o))) /\ cset sa = cset s1 /\ tape sa = tape s1).
  { unfold sa. autorewrite with evs. rewrite Hn. split; [reflexivity|]. split; [reflexivity|].
    unfold raw_side. rewrite Hn. destruct sd; reflexivity. }
  assert (Hsb: ents sb = ents sa /\ cset sb = cset sa /\ tape sb = tape sa).
  { unfold sb. destruct (s_path (gs en1 sd)) as [[|c p]|]; simpl; autorewrite with evs; repeat split; try reflexivity.
    unfold slot_set. destruct sd; reflexivity. }
  destruct Hsa as [Ea [Ca Ta]], Hsb as [Eb [Cb Tb]].
  assert (Hsc: ents sc = ents sb /\ cs_grow sb sc e /\ tape sc = tape sb).
  { unfold sc. destruct (_ || _)%bool; [split; [reflexivity|split; [apply cs_grow_add|reflexivity]]|split; [reflexivity|split; [apply cs_grow_refl|reflexivity]]]. }
  destruct Hsc as [Ec [Cc Tc]].
  split; [|split].
  - autorewrite with evs. rewrite Ec, Eb, Ea. rewrite (nth_upd_eq _ _ _ _ Hn), list_upd_twice.
    f_equal. rewrite gs_ss, bool_eqb_refl, ss_ss. reflexivity.
  - intros e'. rewrite cset_raw_side, cset_dirty_add. destruct (Cc e') as [A B]. rewrite Cb, Ca in A, B. split; assumption.
  - unfold raw_side. destruct (nth_error (ents (dirty_add sc e)) e); cbn [tape put_ent st_ents dirty_add st_dirty]; rewrite Tc, Tb, Ta; reflexivity.
Qed.

(* ent[side].oid = o when the entry already carries o: re-indexing only *)
Lemma set_oid_same_eff E s e sd (o : str) en s' :
  IdxJ s -> nth_error (ents s) e = Some en -> s_oid (gs en sd) = Some o ->
  set_oid E s e sd (Some o) = Ok s' ->
  ents s' = ents s /\ cs_grow s s' e.
Proof.
  intros HJ Hn Ho H. unfold set_oid, run_cmd in H. rewrite fuel_S, exec_oid_eq in H.
  rewrite (get_ent_some _ _ _ Hn) in H. cbn [bind] in H. rewrite Ho in H.
  unfold oid_loop in H. rewrite ostr_eqb_refl in H. unfold oid_step in H.
  assert (Ha: al_get o (oids s sd) = Some e).
  { destruct HJ as [Hf _]. apply (Hf e sd o). unfold oid_of. rewrite Hn. exact Ho. }
  rewrite Ha in H. unfold get_ent in H at 1. rewrite ents_st_oids, Hn in H. cbn [bind] in H.
  rewrite Nat.eqb_refl in H. fold (unfile s sd o (s_path (gs en sd))) in H. cbn [bind] in H.
  assert (Hn2: nth_error (ents (unfile s sd o (s_path (gs en sd)))) e = Some en) by (rewrite ents_unfile; exact Hn).
  destruct (oid_finish_eff _ _ _ _ _ _ Hn2 H) as [He [Hc _]]. split.
  - rewrite He, ents_unfile, (w_oid_same _ _ Ho), ss_gs. apply list_upd_same. exact Hn.
  - intros e'. destruct (Hc e') as [A B]. rewrite cset_unfile in A, B. split; assumption.
Qed.

(* a fresh id for a side that has none: both orders of set([None, o]) *)
Lemma set_oid_fresh_eff E s e sd (o : str) en s' :
  nth_error (ents s) e = Some en -> s_oid (gs en sd) = None -> al_get o (oids s sd) = None ->
  set_oid E s e sd (Some o) = Ok s' ->
  ents s' = list_upd (ents s) e (ss en sd (w_oid (gs en sd) (Some o))) /\ cs_grow s s' e /\
  exists b r, tape s = TSwap b :: r /\ tape s' = r.
Proof.
  intros Hn Ho Ha H. unfold set_oid, run_cmd in H. rewrite fuel_S, exec_oid_eq in H.
  rewrite (get_ent_some _ _ _ Hn) in H. cbn [bind] in H. rewrite Ho in H.
  unfold oid_loop in H. cbn [ostr_eqb] in H. unfold pop_swap in H.
  destruct (tape s) as [|[b|l] r] eqn:Et; try discriminate. cbn [bind] in H.
  assert (Ha': al_get o (oids (st_tape s r) sd) = None) by (destruct sd; exact Ha).
  assert (Hs: (if b then sx <- oid_step (exec E (2 * length (ents s) + 7)) e sd (Some o) (st_tape s r) ;; oid_step (exec E (2 * length (ents s) + 7)) e sd None sx
               else sx <- oid_step (exec E (2 * length (ents s) + 7)) e sd None (st_tape s r) ;; oid_step (exec E (2 * length (ents s) + 7)) e sd (Some o) sx) = Ok (st_tape s r)).
  { destruct b; rewrite ?oid_step_none; cbn [bind]; rewrite (oid_step_absent _ _ _ _ _ Ha'); reflexivity. }
  rewrite Hs in H. cbn [bind] in H.
  assert (Hn2: nth_error (ents (st_tape s r)) e = Some en) by exact Hn.
  destruct (oid_finish_eff _ _ _ _ _ _ Hn2 H) as [He [Hc Ht]]. split; [exact He|]. split; [exact Hc|].
  exists b, r. split; [reflexivity|exact Ht].
Qed.

(* ---------------------------------------------------------------- changed / priority *)
Lemma exec_chg_eq E f fin e sd v s :
  exec E (S f) (CChg fin e sd v) s =
  (en <- get_ent s e ;;
   let x := gs en sd in
   let y := gs en (negb sd) in
   s1 <- (if (tchg v && tstr (s_oid x)) || (tchg (s_chg y) && tstr (s_oid y)) then Ok (cs_add s e)
          else
            let sa := cs_del s e in
            if tchg (s_chg y) && negb (tstr (s_oid y)) then
              if legacy E then exec E f (CChg true e (negb sd) (CNum 0%N)) sa
              else Ok (raw_side sa e (negb sd) (fun z => w_chg z (CNum 0%N)))
            else Ok sa) ;;
   let s2 := dirty_add s1 e in
   Ok (if fin then raw_side s2 e sd (fun z => w_chg z v) else s2)).
Proof. reflexivity. Qed.
Lemma exec_prio_eq E f e v s :
  exec E (S f) (CPrio e v) s =
  (en <- get_ent s e ;;
   if N.eqb (e_prio en) v then Ok s else
   s1 <- (if N.ltb (e_prio en) v && N.ltb 0 v then
            sa <- (if tchg (s_chg (e_l en)) then exec E f (CChg true e false (chg_add (s_chg (e_l en)) (punt E false))) s
                   else Ok s) ;;
            en' <- get_ent sa e ;;
            if tchg (s_chg (e_r en')) then exec E f (CChg true e true (chg_add (s_chg (e_r en')) (punt E true))) sa
            else Ok sa
          else Ok s) ;;
   let s2 := dirty_add s1 e in
   match nth_error (ents s2) e with
   | Some en2 => Ok (put_ent s2 e (mkEnt (e_l en2) (e_r en2) (e_ign en2) v))
   | None => Err EBad
   end).
Proof. reflexivity. Qed.

Definition with_prio (en : entry) (v : N) : entry := mkEnt (e_l en) (e_r en) (e_ign en) v.

Lemma exec_prio0_eff E f e s s' en :
  nth_error (ents s) e = Some en -> exec E (S f) (CPrio e 0%N) s = Ok s' ->
  ents s' = list_upd (ents s) e (with_prio en 0) /\ cset s' = cset s /\ tape s' = tape s.
Proof.
  intros Hn H. rewrite exec_prio_eq, (get_ent_some _ _ _ Hn) in H. cbn [bind] in H.
  destruct (N.eqb (e_prio en) 0) eqn:Ep.
  - injection H as <-. apply N.eqb_eq in Ep. split; [|split; reflexivity].
    symmetry. apply list_upd_same. rewrite Hn. f_equal. destruct en; simpl in *. rewrite Ep. reflexivity.
  - assert (Hl: N.ltb (e_prio en) 0 = false) by (destruct (e_prio en); reflexivity).
    rewrite Hl in H. cbn [andb bind] in H. cbv zeta in H. rewrite ents_dirty_add, Hn in H. injection H as <-.
    split; [reflexivity|split; reflexivity].
Qed.

Lemma set_changed_truthy_eff E s e sd v s' en :
  nth_error (ents s) e = Some en -> tchg v = true -> tstr (s_oid (gs en sd)) = true ->
  set_changed E s e sd v = Ok s' ->
  ents s' = list_upd (ents s) e (ss en sd (w_chg (gs en sd) v)) /\ cset s' = set_add e (cset s) /\
  now s' = now s /\ lastch s' = lastch s /\ tape s' = tape s.
Proof.
  intros Hn Hv Ho H. unfold set_changed, run_cmd in H. rewrite fuel_S, exec_chg_eq, (get_ent_some _ _ _ Hn) in H.
  cbn [bind] in H. cbv zeta in H. rewrite Hv, Ho in H. cbn [andb orb bind] in H. injection H as <-.
  autorewrite with evs. rewrite Hn. repeat split; try reflexivity.
  all: unfold raw_side; rewrite ents_dirty_add, ents_cs_add, Hn; reflexivity.
Qed.

Lemma mark_changed_eff E s e sd s' en :
  nth_error (ents s) e = Some en -> tstr (s_oid (gs en sd)) = true ->
  mark_changed E s e sd = Ok s' ->
  exists c, tchg c = true /\ ents s' = list_upd (ents s) e (ss en sd (w_chg (gs en sd) c)) /\
            (forall e', set_mem e' (cset s') = Nat.eqb e' e || set_mem e' (cset s)) /\ tape s' = tape s.
Proof.
  intros Hn Ho H. unfold mark_changed in H.
  set (t := (now s + 1000)%N) in *.
  assert (Ht: tchg (CNum t) = true) by (unfold t; simpl; apply negb_true_iff, N.eqb_neq; lia).
  destruct (set_changed E (st_now s t) e sd (CNum t)) as [s1|] eqn:E1; cbn [bind] in H; [|discriminate].
  assert (Hn1: nth_error (ents (st_now s t)) e = Some en) by exact Hn.
  destruct (set_changed_truthy_eff _ _ _ _ _ _ _ Hn1 Ht Ho E1) as [He1 [Hc1 [_ [Hl1 Ht1]]]].
  rewrite ents_st_now in He1. rewrite cset_st_now in Hc1.
  assert (Hn1': nth_error (ents s1) e = Some (ss en sd (w_chg (gs en sd) (CNum t)))) by (rewrite He1; apply (nth_upd_eq _ _ _ _ Hn)).
  destruct (N.leb t (lastch s1)) eqn:El.
  - destruct (set_changed E s1 e sd (CNum (lastch s1 + 1))) as [s2|] eqn:E2; cbn [bind] in H; [|discriminate].
    assert (Ht2: tchg (CNum (lastch s1 + 1)) = true) by (simpl; apply negb_true_iff, N.eqb_neq; lia).
    assert (Ho1: tstr (s_oid (gs (ss en sd (w_chg (gs en sd) (CNum t))) sd)) = true) by (rewrite gs_ss, bool_eqb_refl; exact Ho).
    destruct (set_changed_truthy_eff _ _ _ _ _ _ _ Hn1' Ht2 Ho1 E2) as [He2 [Hc2 [_ [_ Ht2']]]].
    rewrite He1, list_upd_twice, gs_ss, bool_eqb_refl, ss_ss in He2. cbn [w_chg] in He2.
    assert (Hn2: nth_error (ents s2) e = Some (ss en sd (w_chg (gs en sd) (CNum (lastch s1 + 1))))).
    { rewrite He2. apply (nth_upd_eq _ _ _ _ Hn). }
    rewrite (get_ent_some _ _ _ Hn2) in H. cbn [bind] in H. rewrite gs_ss, bool_eqb_refl in H. cbn [w_chg s_chg] in H.
    injection H as <-. exists (CNum (lastch s1 + 1)). split; [exact Ht2|]. split; [exact He2|]. split.
    + intros e'. rewrite cset_st_lastch, Hc2, Hc1, !set_mem_add. destruct (Nat.eqb e' e); reflexivity.
    + cbn [tape st_lastch]. rewrite Ht2', Ht1. reflexivity.
  - cbn [bind] in H. rewrite (get_ent_some _ _ _ Hn1') in H. cbn [bind] in H.
    rewrite gs_ss, bool_eqb_refl in H. cbn [w_chg s_chg] in H. injection H as <-.
    exists (CNum t). split; [exact Ht|]. split; [exact He1|]. split.
    + intros e'. rewrite cset_st_lastch, Hc1, set_mem_add. reflexivity.
    + cbn [tape st_lastch]. rewrite Ht1. reflexivity.
Qed.

(* ---------------------------------------------------------------- path of a non-folder *)
Definition path_entry (en : entry) (sd : bool) (v : option str) : entry :=
  let en' := ss en sd (w_path (gs en sd) v) in
  if tstr v && negb (ostr_eqb (s_path (gs en sd)) v) then with_prio en' 0 else en'.

Lemma tstr_some (o : str) : o <> [] -> tstr (Some o) = true.
Proof. destruct o; [contradiction|reflexivity]. Qed.

Lemma set_path_file_eff E s e sd v s' en (o : str) :
  IdxJ s -> nth_error (ents s) e = Some en -> s_otype (gs en sd) <> Dir ->
  s_oid (gs en sd) = Some o -> o <> [] ->
  set_path E s e sd v = Ok s' ->
  ents s' = list_upd (ents s) e (path_entry en sd v) /\ cset s' = cset s /\ tape s' = tape s.
Proof.
  intros HJ Hn Hot Ho Hne H. unfold set_path, run_cmd in H. rewrite fuel_S, exec_path_eq in H.
  rewrite (get_ent_some _ _ _ Hn) in H. cbn [bind] in H. cbv zeta in H.
  assert (Eas: (tstr v && negb (tstr (s_oid (gs en sd))))%bool = false) .
  { rewrite Ho. destruct o; [contradiction|]. apply andb_false_r. }
  rewrite Eas in H.
  destruct (path_main E (exec E (2 * length (ents s) + 7)) e sd v (gs en sd) s) as [s1|] eqn:Em; cbn [bind] in H; [|discriminate].
  injection H as <-.
  assert (Hfin: forall en1, nth_error (ents s1) e = Some en1 -> cset s1 = cset s -> tape s1 = tape s ->
            ents (raw_side (dirty_add s1 e) e sd (fun y => w_path y v)) = list_upd (ents s1) e (ss en1 sd (w_path (gs en1 sd) v)) /\
            cset (raw_side (dirty_add s1 e) e sd (fun y => w_path y v)) = cset s /\
            tape (raw_side (dirty_add s1 e) e sd (fun y => w_path y v)) = tape s).
  { intros en1 Hn1 Hc1 Ht1. autorewrite with evs. rewrite Hn1. split; [reflexivity|]. split; [exact Hc1|].
    unfold raw_side. rewrite ents_dirty_add, Hn1. exact Ht1. }
  unfold path_main in Em. unfold path_entry.
  destruct (ostr_eqb (s_path (gs en sd)) v) eqn:Eeq.
  { injection Em as <-. rewrite andb_false_r. apply Hfin; [exact Hn|reflexivity|reflexivity]. }
  cbn [negb]. rewrite andb_true_r.
  set (prior := s_path (gs en sd)) in *.
  set (sa := match prior with
             | Some pp => if tstr prior then slot_pop s sd pp (s_oid (gs en sd)) else s
             | None => s end) in *.
  assert (Hsa: ents sa = ents s /\ cset sa = cset s /\ tape sa = tape s).
  { unfold sa. destruct prior as [[|c pp]|]; cbn [tstr]; autorewrite with evs; repeat split; try reflexivity.
    unfold slot_pop. destruct (al_get (c :: pp) (paths s sd)) as [d|]; [|reflexivity].
    destruct (match s_oid (gs en sd) with Some k0 => al_del k0 d | None => d end); destruct sd; reflexivity. }
  destruct Hsa as [Ea [Ca Ta]].
  assert (Hnp: prior <> v) by (intros Hc; apply ostr_eqb_eq in Hc; congruence).
  destruct (tstr v) eqn:Ev.
  2:{ assert (s1 = sa).
      { destruct v as [p|]; [|injection Em as <-; reflexivity].
        destruct (s_oid (gs en sd)); injection Em as <-; reflexivity. }
      subst s1. rewrite <- Ea. apply Hfin; [rewrite Ea; exact Hn|exact Ca|exact Ta]. }
  destruct v as [p|]; [|discriminate]. rewrite Ho in Em. cbv beta iota in Em.
  assert (Hoe: oid_of s e sd = Some o) by (unfold oid_of; rewrite Hn; exact Ho).
  assert (Hpe: path_of s e sd = prior) by (unfold path_of; rewrite Hn; reflexivity).
  assert (Hnone: slot_get sa sd p o = None).
  { destruct (slot_get sa sd p o) as [e'|] eqn:Es; [|reflexivity]. exfalso.
    assert (Hs: slot_get s sd p o = Some e').
    { unfold sa in Es. destruct prior as [pp|]; [|exact Es]. destruct (tstr (Some pp)); [|exact Es].
      rewrite slot_pop_get_opt in Es. destruct (_ && _ && _)%bool; [discriminate|exact Es]. }
    destruct HJ as [Hf [_ Hsp]]. destruct (Hsp _ _ _ _ Hs) as [Ha [Hb _]].
    destruct (Hf _ _ _ Ha) as [Hc _]. destruct (Hf _ _ _ Hoe) as [Hd _]. assert (e' = e) by congruence. subst e'.
    apply Hnp. rewrite <- Hpe, Hb. reflexivity. }
  rewrite Hnone in Em. cbn [bind] in Em.
  set (sc := raw_side (slot_set sa sd p o e) e sd (fun y => w_path y (Some p))) in *.
  assert (Em': exec E (2 * length (ents s) + 7) (CPrio e 0%N) sc = Ok s1).
  { destruct (s_otype (gs en sd)); [exfalso; apply Hot; reflexivity| |]; cbn [otype_eqb andb bind] in Em; exact Em. }
  clear Em.
  assert (Hsc: ents sc = list_upd (ents s) e (ss en sd (w_path (gs en sd) (Some p))) /\ cset sc = cset s /\ tape sc = tape s).
  { unfold sc. autorewrite with evs. rewrite Ea, Hn. split; [reflexivity|]. split; [exact Ca|].
    unfold raw_side. rewrite ents_slot_set, Ea, Hn. cbn [tape put_ent st_ents]. unfold slot_set. rewrite <- Ta. destruct sd; reflexivity. }
  destruct Hsc as [Ec [Cc Tc]].
  assert (Hnc: nth_error (ents sc) e = Some (ss en sd (w_path (gs en sd) (Some p)))) by (rewrite Ec; apply (nth_upd_eq _ _ _ _ Hn)).
  replace (2 * length (ents s) + 7) with (S (2 * length (ents s) + 6)) in Em' by lia.
  destruct (exec_prio0_eff _ _ _ _ _ _ Hnc Em') as [E1 [C1 T1]].
  rewrite Ec, list_upd_twice in E1.
  assert (Hn1: nth_error (ents s1) e = Some (with_prio (ss en sd (w_path (gs en sd) (Some p))) 0)) by (rewrite E1; apply (nth_upd_eq _ _ _ _ Hn)).
  destruct (Hfin _ Hn1 (eq_trans C1 Cc) (eq_trans T1 Tc)) as [F1 [F2 F3]].
  split; [|split; [exact F2|exact F3]].
  rewrite F1, E1, list_upd_twice. f_equal. destruct en, sd; reflexivity.
Qed.

(* ---------------------------------------------------------------- SyncState.update for one non-folder event *)
Definition ex_rule (old : exst) (ex : option bool) : exst :=
  match old, ex with ExTrashed, Some true => ExLikely | _, _ => ex_of ex end.
Definition ev_side (x : sidest) (ot : otype) (o : str) (np : option str) (h : option N) (ex : option bool) (c : chg) : sidest :=
  mkSide ot (Some o) (match np with Some p => Some p | None => s_path x end)
         (match h with Some _ => h | None => s_hash x end) (s_spath x) (s_shash x) (ex_rule (s_ex x) ex) c (s_force x).
Definition ev_prio (x : sidest) (np : option str) (prio : N) : N :=
  match np with
  | Some p => if tstr (Some p) && negb (ostr_eqb (s_path x) (Some p)) then 0%N else prio
  | None => prio
  end.
Definition ev_entry (en : entry) (sd : bool) (ot : otype) (o : str) (np : option str) (h : option N) (ex : option bool) (c : chg) : entry :=
  with_prio (ss en sd (ev_side (gs en sd) ot o np h ex c)) (ev_prio (gs en sd) np (e_prio en)).

Lemma IdxJ_st_now s t : IdxJ s -> IdxJ (st_now s t).
Proof. intros H. apply (IdxJ_view s); [reflexivity|exact H]. Qed.
Lemma IdxJ_st_tape s t : IdxJ s -> IdxJ (st_tape s t).
Proof. intros H. apply (IdxJ_view s); [reflexivity|exact H]. Qed.

Lemma otype_eqb_eq a b : otype_eqb a b = true <-> a = b.
Proof. destruct a, b; simpl; split; intros H; try discriminate; reflexivity. Qed.

Lemma update_entry_spec E s e sd (o : str) path h ex ot en s1 :
  IdxJ s -> oip E sd = false -> ot <> Dir -> o <> [] -> nth_error (ents s) e = Some en ->
  (s_oid (gs en sd) = Some o \/ (s_oid (gs en sd) = None /\ al_get o (oids s sd) = None)) ->
  update_entry E s e sd (Some o) path h ex true (Some ot) = Ok s1 ->
  exists c, tchg c = true /\
    ents s1 = list_upd (ents s) e (ev_entry en sd ot o (omap (nps (cvs E sd)) path) h ex c) /\
    (forall e', set_mem e' (cset s1) = Nat.eqb e' e || set_mem e' (cset s)) /\ IdxJ s1.
Proof.
  intros HJ Hoip Hot Hne Hn Hcase H. unfold update_entry in H.
  rewrite (get_ent_some _ _ _ Hn) in H. cbn [bind] in H. rewrite Hoip, andb_false_r in H. cbn [andb] in H.
  destruct (set_oid E s e sd (Some o)) as [sa|] eqn:Ea; cbn [bind] in H; [|discriminate].
  pose (ena := ss en sd (w_oid (gs en sd) (Some o))).
  assert (Ha: ents sa = list_upd (ents s) e ena /\ cs_grow s sa e).
  { destruct Hcase as [Hs|[Hnone Habs]].
    - destruct (set_oid_same_eff _ _ _ _ _ _ _ HJ Hn Hs Ea) as [A B]. split; [|exact B].
      rewrite A. unfold ena. rewrite (w_oid_same _ _ Hs). rewrite ss_gs. symmetry. apply list_upd_same. exact Hn.
    - destruct (set_oid_fresh_eff _ _ _ _ _ _ _ Hn Hnone Habs Ea) as [A [B _]]. split; [exact A|exact B]. }
  destruct Ha as [Hea Hca].
  pose proof (set_oid_pres _ _ _ _ _ _ HJ Ea) as HJa.
  assert (Hna: nth_error (ents sa) e = Some ena) by (rewrite Hea; apply (nth_upd_eq _ _ _ _ Hn)).
  rewrite (get_ent_some _ _ _ Hna) in H. cbn [bind] in H.
  (* otype *)
  pose (enb := ss ena sd (w_otype (gs ena sd) ot)).
  match type of H with bind ?X _ = _ => destruct X as [sb|] eqn:Eb end; cbn [bind] in H; [|discriminate].
  assert (Hb: ents sb = list_upd (ents s) e enb /\ cset sb = cset sa /\ IdxJ sb).
  { destruct (otype_eqb ot (s_otype (gs ena sd))) eqn:Eo.
    - injection Eb as <-. split; [|split; [reflexivity|exact HJa]]. rewrite Hea. f_equal. unfold enb.
      apply otype_eqb_eq in Eo. rewrite <- (ss_gs ena sd) at 1. f_equal. destruct (gs ena sd); simpl in *. rewrite Eo. reflexivity.
    - destruct (set_plain_eff _ _ _ _ _ _ Hna Eb) as [A B]. split; [|split; [exact B|]].
      + rewrite A, Hea, list_upd_twice. reflexivity.
      + eapply set_plain_pres; [|exact HJa|exact Eb]. intros y; split; reflexivity. }
  destruct Hb as [Heb [Hcb HJb]].
  assert (Hnb: nth_error (ents sb) e = Some enb) by (rewrite Heb; apply (nth_upd_eq _ _ _ _ Hn)).
  destruct (match ot with NotKnown => match ex with Some true => true | _ => false end | _ => false end); [discriminate|].
  (* path *)
  pose (np := omap (nps (cvs E sd)) path).
  pose (enc := match np with Some p => path_entry enb sd (Some p) | None => enb end).
  match type of H with bind ?X _ = _ => destruct X as [sc|] eqn:Ec end; cbn [bind] in H; [|discriminate].
  assert (Hc: ents sc = list_upd (ents s) e enc /\ cset sc = cset sb /\ IdxJ sc).
  { unfold enc, np. destruct path as [p|]; cbn [omap].
    - rewrite (get_ent_some _ _ _ Hnb) in Ec. cbn [bind] in Ec.
      destruct (ostr_eqb (Some (nps (cvs E sd) p)) (s_path (gs enb sd))) eqn:Ep.
      + injection Ec as <-. split; [|split; [reflexivity|exact HJb]]. rewrite Heb. f_equal.
        apply ostr_eqb_eq in Ep. unfold path_entry. rewrite <- Ep, ostr_eqb_refl, andb_false_r.
        rewrite <- (ss_gs enb sd) at 1. f_equal. destruct (gs enb sd); simpl in *. rewrite Ep. reflexivity.
      + assert (Hotb: s_otype (gs enb sd) <> Dir) by (unfold enb; rewrite gs_ss, bool_eqb_refl; exact Hot).
        assert (Hob: s_oid (gs enb sd) = Some o) by (unfold enb, ena; rewrite !gs_ss, bool_eqb_refl; reflexivity).
        destruct (set_path_file_eff _ _ _ _ _ _ _ _ HJb Hnb Hotb Hob Hne Ec) as [A [B _]].
        split; [|split; [exact B|]].
        * rewrite A, Heb, list_upd_twice. reflexivity.
        * eapply set_path_file_pres; [exact HJb|apply (get_ent_some _ _ _ Hnb)|exact Hotb|exact Ec].
    - injection Ec as <-. split; [exact Heb|split; [reflexivity|exact HJb]]. }
  destruct Hc as [Hec [Hcc HJc]].
  assert (Hnc: nth_error (ents sc) e = Some enc) by (rewrite Hec; apply (nth_upd_eq _ _ _ _ Hn)).
  rewrite (get_ent_some _ _ _ Hnc) in H. cbn [bind] in H.
  (* hash *)
  pose (en_d := match h with Some _ => ss enc sd (w_hash (gs enc sd) h) | None => enc end).
  match type of H with bind ?X _ = _ => destruct X as [sd_|] eqn:Ed end; cbn [bind] in H; [|discriminate].
  assert (Hd: ents sd_ = list_upd (ents s) e en_d /\ cset sd_ = cset sc /\ IdxJ sd_).
  { unfold en_d. destruct h as [hv|].
    - destruct (oN_eqb (Some hv) (s_hash (gs enc sd))) eqn:Eh.
      + injection Ed as <-. split; [|split; [reflexivity|exact HJc]]. rewrite Hec. f_equal.
        apply oN_eqb_eq in Eh. rewrite <- (ss_gs enc sd) at 1. f_equal. destruct (gs enc sd); simpl in *. rewrite Eh. reflexivity.
      + destruct (set_plain_eff _ _ _ _ _ _ Hnc Ed) as [A B]. split; [|split; [exact B|]].
        * rewrite A, Hec, list_upd_twice. reflexivity.
        * eapply set_plain_pres; [|exact HJc|exact Ed]. intros y; split; reflexivity.
    - injection Ed as <-. split; [exact Hec|split; [reflexivity|exact HJc]]. }
  destruct Hd as [Hed [Hcd HJd]].
  assert (Hnd: nth_error (ents sd_) e = Some en_d) by (rewrite Hed; apply (nth_upd_eq _ _ _ _ Hn)).
  (* exists *)
  pose (en_e := ss en_d sd (w_ex (gs en_d sd) (ex_rule (s_ex (gs enc sd)) ex))).
  match type of H with bind ?X _ = _ => destruct X as [se|] eqn:Ee end; cbn [bind] in H; [|discriminate].
  assert (He: ents se = list_upd (ents s) e en_e /\ cset se = cset sd_ /\ IdxJ se).
  { assert (Hx: set_plain sd_ e sd (fun y => w_ex y (ex_rule (s_ex (gs enc sd)) ex)) = Ok se).
    { unfold ex_rule. destruct (s_ex (gs enc sd)); try exact Ee. destruct ex as [[|]|]; exact Ee. }
    destruct (set_plain_eff _ _ _ _ _ _ Hnd Hx) as [A B]. split; [|split; [exact B|]].
    - rewrite A, Hed, list_upd_twice. reflexivity.
    - eapply set_plain_pres; [|exact HJd|exact Hx]. intros y; split; reflexivity. }
  destruct He as [Hee [Hce HJe]].
  assert (Hnee: nth_error (ents se) e = Some en_e) by (rewrite Hee; apply (nth_upd_eq _ _ _ _ Hn)).
  rewrite (get_ent_some _ _ _ Hnee) in H. cbn [bind] in H.
  assert (Hoe: s_oid (gs en_e sd) = Some o).
  { unfold en_e, en_d, enc, enb, ena. destruct h, np as [p|]; unfold path_entry, with_prio;
      try destruct (tstr (Some p) && _)%bool; destruct en, sd; reflexivity. }
  assert (Hte: tstr (s_oid (gs en_e sd)) = true) by (rewrite Hoe; destruct o; [contradiction|reflexivity]).
  rewrite Hte, orb_true_r in H.
  destruct (mark_changed_eff _ _ _ _ _ _ Hnee Hte H) as [c [Hc1 [Hc2 [Hc3 _]]]].
  exists c. split; [exact Hc1|]. split; [|split].
  - rewrite Hc2, Hee, list_upd_twice. f_equal.
    unfold en_e, en_d, enc, enb, ena, ev_entry, ev_side, ev_prio, path_entry, with_prio. fold np.
    destruct h, np as [p|]; try destruct (tstr (Some p) && negb (ostr_eqb (s_path (gs (ss (ss en sd (w_oid (gs en sd) (Some o))) sd (w_otype (gs (ss en sd (w_oid (gs en sd) (Some o))) sd) ot)) sd)) (Some p)))%bool eqn:Eq;
      destruct en as [l r ig pr], sd; cbn in *; try rewrite Eq; reflexivity.
  - intros e'. rewrite Hc3. destruct (Nat.eqb_spec e' e) as [->|Hne']; [reflexivity|]. cbn [orb].
    rewrite Hce, Hcd, Hcc, Hcb. destruct (Hca e') as [A B].
    destruct (set_mem e' (cset sa)) eqn:E1.
    + destruct (B eq_refl) as [->|B']; [contradiction|]. symmetry. exact B'.
    + destruct (set_mem e' (cset s)) eqn:E2; [|reflexivity]. discriminate (A eq_refl).
  - eapply mark_changed_pres; eassumption.
Qed.

Lemma oids_st_ents s v sd : oids (st_ents s v) sd = oids s sd. Proof. destruct sd; reflexivity. Qed.
Lemma slot_get_st_ents s v sd p o : slot_get (st_ents s v) sd p o = slot_get s sd p o.
Proof. unfold slot_get. destruct sd; reflexivity. Qed.

Lemma IdxJ_add_entry s t : IdxJ s -> IdxJ (fst (add_entry s t)).
Proof.
  intros [Hf [Ho Hp]]. unfold add_entry. cbn [fst].
  assert (Hoid: forall e sd o, oid_of (st_ents s (ents s ++ [new_entry t])) e sd = Some o -> oid_of s e sd = Some o).
  { intros e sd o. unfold oid_of. cbn [ents st_ents].
    destruct (Nat.lt_ge_cases e (length (ents s))) as [Hl|Hl].
    - rewrite nth_error_app1 by exact Hl. auto.
    - rewrite nth_error_app2 by exact Hl. destruct (e - length (ents s)) as [|k]; simpl; [destruct sd; discriminate|destruct k; discriminate]. }
  assert (Hback: forall e sd, e < length (ents s) ->
            oid_of (st_ents s (ents s ++ [new_entry t])) e sd = oid_of s e sd /\ path_of (st_ents s (ents s ++ [new_entry t])) e sd = path_of s e sd).
  { intros e sd Hl. unfold oid_of, path_of. cbn [ents st_ents]. rewrite nth_error_app1 by exact Hl. split; reflexivity. }
  assert (Hlt: forall e sd o, oid_of s e sd = Some o -> e < length (ents s)).
  { intros e sd o H. unfold oid_of in H. destruct (nth_error (ents s) e) eqn:En; [|discriminate]. apply nth_error_Some. congruence. }
  split; [|split].
  - intros e sd o H. pose proof (Hoid _ _ _ H) as H0. destruct (Hf _ _ _ H0) as [A B]. split.
    + rewrite oids_st_ents. exact A.
    + intros p Hp1 Hp2. rewrite slot_get_st_ents. apply B; [|exact Hp2].
      rewrite <- (proj2 (Hback e sd (Hlt _ _ _ H0))). exact Hp1.
  - intros sd o e H. rewrite oids_st_ents in H. pose proof (Ho _ _ _ H) as H0.
    rewrite (proj1 (Hback e sd (Hlt _ _ _ H0))). exact H0.
  - intros sd p o e H. rewrite slot_get_st_ents in H. destruct (Hp _ _ _ _ H) as [A [B C]].
    rewrite (proj1 (Hback e sd (Hlt _ _ _ A))), (proj2 (Hback e sd (Hlt _ _ _ A))). split; [exact A|split; [exact B|exact C]].
Qed.

Definition upd_target (s : state) (sd : bool) (o : str) : eid :=
  match al_get o (oids s sd) with Some e => e | None => length (ents s) end.
Definition upd_base (s : state) (sd : bool) (o : str) (ot : otype) : list entry :=
  match al_get o (oids s sd) with Some _ => ents s | None => ents s ++ [new_entry ot] end.

(* one non-folder event of an id-stable provider (no prior_oid): exactly one entry changes *)
Lemma update_spec E s sd ot (o : str) path h ex s1 :
  IdxJ s -> oip E sd = false -> ot <> Dir -> o <> [] ->
  update E s sd (Some ot) (Some o) path h ex None = Ok s1 ->
  exists en c, nth_error (upd_base s sd o ot) (upd_target s sd o) = Some en /\ tchg c = true /\
    (al_get o (oids s sd) = None -> en = new_entry ot) /\
    (al_get o (oids s sd) <> None -> s_oid (gs en sd) = Some o) /\
    ents s1 = list_upd (upd_base s sd o ot) (upd_target s sd o) (ev_entry en sd ot o (omap (nps (cvs E sd)) path) h ex c) /\
    (forall e', set_mem e' (cset s1) = Nat.eqb e' (upd_target s sd o) || set_mem e' (cset s)) /\ IdxJ s1.
Proof.
  intros HJ Hoip Hot Hne H. unfold update in H. cbn [tstr andb bind] in H. cbv beta iota zeta in H.
  unfold lookup_oid in H. unfold upd_base, upd_target.
  destruct (al_get o (oids s sd)) as [e|] eqn:Ea; cbn [bind] in H.
  - assert (Hoe: oid_of s e sd = Some o) by (destruct HJ as [_ [Ho _]]; apply Ho; exact Ea).
    destruct (oid_of_some_ent _ _ _ _ Hoe) as [en [Hen Hos]]. apply get_ent_ok in Hen.
    assert (HJ3: IdxJ (st_now s (now s + 1000))) by (apply IdxJ_st_now; exact HJ).
    destruct (update_entry_spec _ _ _ _ _ _ _ _ _ en _ HJ3 Hoip Hot Hne Hen (or_introl Hos) H) as [c [A [B [C D]]]].
    exists en, c. split; [exact Hen|]. split; [exact A|]. split; [intros Hc; discriminate|]. split; [intros _; exact Hos|].
    split; [exact B|]. split; [exact C|exact D].
  - cbv beta iota zeta in H.
    set (s2 := st_ents s (ents s ++ [new_entry ot])) in *.
    assert (HJ2: IdxJ s2) by (apply (IdxJ_add_entry s ot HJ)).
    assert (HJ3: IdxJ (st_now s2 (now s2 + 1000))) by (apply IdxJ_st_now; exact HJ2).
    assert (Hen: nth_error (ents (st_now s2 (now s2 + 1000))) (length (ents s)) = Some (new_entry ot)).
    { cbn [ents st_now s2 st_ents]. rewrite nth_error_app2 by lia. rewrite Nat.sub_diag. reflexivity. }
    assert (Hab: al_get o (oids (st_now s2 (now s2 + 1000)) sd) = None) by (destruct sd; exact Ea).
    assert (Hno: s_oid (gs (new_entry ot) sd) = None) by (destruct sd; reflexivity).
    destruct (update_entry_spec _ _ _ _ _ _ _ _ _ _ _ HJ3 Hoip Hot Hne Hen (or_intror (conj Hno Hab)) H) as [c [A [B [C D]]]].
    exists (new_entry ot), c. split.
    { rewrite nth_error_app2 by lia. rewrite Nat.sub_diag. reflexivity. }
    split; [exact A|]. split; [reflexivity|]. split; [intros Hc; exfalso; apply Hc; reflexivity|].
    split; [exact B|]. split; [exact C|exact D].
Qed.
