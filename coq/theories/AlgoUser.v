(* AlgoUser.v — user operations of fragment F1 keep the coupling invariant (with the ghost extended), and the run-level
   theorems: every world reachable by an in-domain history under any schedule satisfies the invariant. *)
From Coq Require Import NArith List Bool Arith Lia.
From CS Require ProvWf.
From CS Require Import Sx Str PathModel PathLaws StateModel StateProofs ProvModel ProvProofs
     AlgoModel AlgoCheck AlgoState AlgoProv AlgoPath AlgoInv AlgoInit AlgoQuiet AlgoIntake AlgoSync AlgoLatest AlgoFinish AlgoSyncEntry AlgoStep.
Import ListNotations.
Local Open Scope N_scope.

Lemma hopt_mono h cs cs' : (forall x, In x cs -> In x cs') -> hopt h cs -> hopt h cs'.
Proof. intros H [A|(d & A & B)]; [left; exact A|right; exists d; auto]. Qed.

(* ------------------------------------------------------------------ the entry that holds a user's object the user touches *)
Section Touch.
Variables (evl evl' : evlist) (g g' : ghost) (w w' : world) (t : bool) (kt : nat) (ob ob' : ProvModel.obj) (cs cs' : list N).
Hypothesis Hob : obj_at w t kt = Some ob.
Hypothesis Hob' : obj_at w' t kt = Some ob'.
Hypothesis Hobjo : forall k, obj_at w' (negb t) k = obj_at w (negb t) k.
Hypothesis Hpd : forall sd k, pd evl sd k = true -> pd evl' sd k = true.
Hypothesis Hpdk : pd evl' t kt = true.
Hypothesis Hg : g_get kt (g_of g t) = Some cs.
Hypothesis Hg' : g_get kt (g_of g' t) = Some cs'.
Hypothesis Hgo : forall k, g_get k (g_of g' (negb t)) = g_get k (g_of g (negb t)).
Hypothesis Hpath : ProvModel.o_path ob' = ProvModel.o_path ob.
Hypothesis Hdead : ProvModel.o_exists ob = false -> ProvModel.o_exists ob' = false.
Hypothesis Hhead : exists r, cs' = ProvModel.o_data ob' :: r.
Hypothesis Hcs : (ProvModel.o_data ob' = ProvModel.o_data ob /\ cs' = cs) \/ (~ In (ProvModel.o_data ob') cs /\ cs' = ProvModel.o_data ob' :: cs).
Hypothesis Hlgx : forall e sd, x_lg (getx w' e sd) = x_lg (getx w e sd).

Lemma cs_sub x : In x cs -> In x cs'.
Proof. destruct Hcs as [(_ & ->)|(_ & ->)]; [auto|intros; right; assumption]. Qed.

Lemma flag_mono en sd k : flagP evl en sd k -> flagP evl' en sd k.
Proof. intros [A|A]; [left; exact A|right; apply Hpd; exact A]. Qed.

Lemma EntOk_touch e en : s_oid (gs en t) = Some (ostr_k kt) -> EntOk evl g w e en -> EntOk evl' g' w' e en.
Proof.
  intros Ho [A B C]. constructor; [exact A|exact B|]. intros sd. destruct (C sd) as [c1 c2 c3 c5 c4].
  constructor; [exact c1|exact c2|exact c3|exact c5|].
  intros o Hoo. destruct (c4 o Hoo) as (k & ob0 & Hk & Hob0 & Hk2 & F). subst o.
  destruct (Bool.bool_dec sd t) as [Heq|Hne].
  - subst sd. assert (k = kt) by (apply ostr_k_inj; congruence). subst k. assert (ob0 = ob) by congruence. subst ob0.
    exists kt, ob'. split; [reflexivity|]. split; [exact Hob'|]. split; [exact Hk2|].
    destruct F as [f1 f2 f3 f4 f5 f6 f7 f8 f10 f9].
    assert (Hfl: flagP evl' en t kt) by (right; exact Hpdk).
    constructor.
    + intros X. apply Hdead. apply f1. exact X.
    + intros _. left. exact Hpdk.
    + rewrite Hpath. exact f3.
    + rewrite Hpath. exact f4.
    + intros X. apply Hdead. apply f5. exact X.
    + intros _ _. exact Hfl.
    + intros _ _. left. exact Hfl.
    + intros Hd cs1 Hcs1. assert (cs1 = cs') by congruence. subst cs1.
      destruct (f8 Hd cs Hg) as (P1 & P2 & P3 & P4 & P5).
      split; [apply (hopt_mono _ cs cs' cs_sub P1)|]. split; [apply (hopt_mono _ cs cs' cs_sub P2)|]. split; [exact Hhead|]. split; [exact P4|].
      intros Hop. destruct (P5 Hop) as (Q1 & Q2 & Q3 & Q4). split; [exact Q1|]. split; [exact Q2|]. split.
      * destruct Hcs as [(Hd1 & _)|(Hnin & _)].
        -- rewrite Hd1. destruct Q3 as [Q3|(Q3 & Q5)]; [left; exact Q3|right; split; [exact Q3|exact Hfl]].
        -- right. split; [|exact Hfl]. intros X. destruct P2 as [P2|(d0 & P2 & Hin)]; [contradiction|].
           rewrite P2 in X. injection X as X. subst d0. contradiction.
      * intros k' Hk'. rewrite Hgo. apply Q4. exact Hk'.
    + intros Hd cs1 Hcs1. apply (f10 Hd cs Hg).
    + intros Hd X. rewrite Hg' in X. discriminate.
  - assert (sd = negb t) by (destruct sd, t; try reflexivity; contradiction). subst sd.
    exists k, ob0. split; [reflexivity|]. split; [rewrite Hobjo; exact Hob0|]. split; [exact Hk2|].
    destruct F as [f1 f2 f3 f4 f5 f6 f7 f8 f10 f9]. rewrite negb_involutive in f6, f7, f8, f10, f9.
    constructor; rewrite ?negb_involutive.
    + exact f1.
    + intros Hd. destruct (f2 Hd) as [X|[X|X]]; [left; apply Hpd; exact X|right; left; rewrite Hlgx; exact X|right; right; exact X].
    + exact f3.
    + exact f4.
    + exact f5.
    + intros Hd X. apply flag_mono. apply f6; assumption.
    + intros Hd X. destruct (f7 Hd X) as [Y|Y]; [left; apply flag_mono; exact Y|right; exact Y].
    + intros Hd cs0 Hcs0. rewrite Hgo in Hcs0. exfalso.
      destruct (f8 Hd cs0 Hcs0) as (_ & _ & _ & _ & P5).
      assert (Hop: s_oid (gs en t) <> None) by (rewrite Ho; discriminate).
      destruct (P5 Hop) as (_ & _ & _ & Q4). rewrite (Q4 kt Ho) in Hg. discriminate.
    + intros Hd cs0 Hcs0. rewrite Hgo in Hcs0. apply (f10 Hd cs0 Hcs0).
    + intros Hd X. rewrite Hgo in X. destruct (f9 Hd X) as (M1 & M2 & M3 & M4 & M5 & M6 & (k' & ob'' & G1 & G2 & G3 & G4)).
      repeat (split; [assumption|]). assert (k' = kt) by (apply ostr_k_inj; congruence). subst k'.
      assert (ob'' = ob) by congruence. subst ob''.
      exists kt, ob'. split; [exact Ho|]. split; [exact Hob'|]. split; [rewrite Hpath; exact G3|rewrite Hg'; discriminate].
Qed.
End Touch.

(* ------------------------------------------------------------------ a user's provider call: cell kt of side t *)
Lemma inv_user g g' w w' t kt ob' ev :
  Inv g w ->
  w_cfg w' = w_cfg w -> w_st w' = w_st w -> w_x w' = w_x w ->
  prov_of w' (negb t) = prov_of w (negb t) ->
  PWF (prov_of w' t) ->
  ProvModel.p_cursor (prov_of w' t) = ProvModel.p_cursor (prov_of w t) ->
  ProvModel.p_log (prov_of w' t) = ProvModel.p_log (prov_of w t) ++ [ev] ->
  ProvModel.e_oid ev = kid_of kt -> (2 <= kt)%nat -> (kt <= length (ProvModel.p_heap (prov_of w t)))%nat ->
  obj_at w' t kt = Some ob' -> ProvModel.e_otype ev = ProvModel.o_kind ob' ->
  (ProvModel.e_exists ev = false -> ProvModel.o_exists ob' = false) ->
  ProvModel.o_kind ob' = ProvModel.KFile -> (exists n, ProvModel.o_path ob' = [root_name t; n] /\ name_ok n = true) ->
  (forall k, k <> kt -> obj_at w' t k = obj_at w t k) ->
  (forall ob, obj_at w t kt = Some ob -> ProvModel.o_exists ob = false -> ProvModel.o_exists ob' = false) ->
  (length (ProvModel.p_heap (prov_of w' t)) <= Nat.max (length (ProvModel.p_heap (prov_of w t))) (S kt))%nat ->
  (forall k, g_get k (g_of g' (negb t)) = g_get k (g_of g (negb t))) ->
  (forall k, k <> kt -> g_get k (g_of g' t) = g_get k (g_of g t)) ->
  (exists cs', g_get kt (g_of g' t) = Some cs' /\ exists r, cs' = ProvModel.o_data ob' :: r) ->
  (forall x xn, (2 <= x)%nat -> nth_error (ents (w_st w)) x = Some xn -> EntOk (real_evl w') g' w' x xn) ->
  Inv g' w' /\ (forall sd k, pd (real_evl w) sd k = true -> pd (real_evl w') sd k = true) /\ pd (real_evl w') t kt = true.
Proof.
  intros I Hcfg Hst Hx Hpo HW Hcur Hlog Hevo Hkt2 Hktl Hob' Hevk Hevx Hkf Hpath Hobj Hdead Hlen Hgo Hgt Hgk HE.
  assert (Hev: ProvModel.events_from (prov_of w' t) = ProvModel.events_from (prov_of w t) ++ [ev]).
  { apply events_from_app; [exact Hcur|exact Hlog|apply (pw_cursor _ (i_pwf _ _ _ I t))]. }
  assert (Hobjo: forall k, obj_at w' (negb t) k = obj_at w (negb t) k) by (intros; unfold obj_at; rewrite Hpo; reflexivity).
  assert (Hpdm: forall sd0 k0, pd (real_evl w) sd0 k0 = true -> pd (real_evl w') sd0 k0 = true).
  { intros sd0 k0 Hp. unfold pd, real_evl in *. destruct (Bool.bool_dec sd0 t) as [Heq|Hne].
    - subst sd0. rewrite Hev, existsb_app, Hp. reflexivity.
    - assert (sd0 = negb t) by (destruct sd0, t; try reflexivity; contradiction). subst sd0. rewrite Hpo. exact Hp. }
  assert (Hpdk: pd (real_evl w') t kt = true).
  { unfold pd, real_evl. rewrite Hev, existsb_app. cbn [existsb]. unfold ev_for at 2. rewrite Hevo, key_eqb_refl. rewrite orb_true_r. reflexivity. }
  assert (Hgx: forall x sd, getx w' x sd = getx w x sd) by (intros; unfold getx; rewrite Hx; reflexivity).
  assert (Hlt: forall k, k <> kt -> (k < length (ProvModel.p_heap (prov_of w' t)))%nat -> (k < length (ProvModel.p_heap (prov_of w t)))%nat).
  { intros k Hne Hk. lia. }
  split; [|split; [exact Hpdm|exact Hpdk]].
  unfold Inv. constructor.
  - rewrite Hcfg. apply (i_cfg _ _ _ I).
  - intros sd0. destruct (Bool.bool_dec sd0 t) as [Heq|Hne]; [subst sd0; exact HW|].
    assert (sd0 = negb t) by (destruct sd0, t; try reflexivity; contradiction). subst sd0. rewrite Hpo. apply (i_pwf _ _ _ I).
  - intros sd0. destruct (Bool.bool_dec sd0 t) as [Heq|Hne].
    + subst sd0. destruct (i_shape _ _ _ I t) as [S0 S1 S2]. constructor.
      * rewrite Hobj by lia. exact S0.
      * rewrite Hobj by lia. exact S1.
      * intros k ob Hk Hob. destruct (Nat.eq_dec k kt) as [Heq|Hne]; [subst k; assert (ob = ob') by congruence; subst ob; auto|].
        rewrite Hobj in Hob by exact Hne. apply (S2 k ob Hk Hob).
    + assert (sd0 = negb t) by (destruct sd0, t; try reflexivity; contradiction). subst sd0.
      apply (ShapeOk_ext w w' (negb t) Hobjo (i_shape _ _ _ I (negb t))).
  - intros sd0. destruct (Bool.bool_dec sd0 t) as [Heq|Hne].
    + subst sd0. intros ev0 Hin. unfold real_evl in Hin. rewrite Hev in Hin. apply in_app_or in Hin as [Hin|[Hin|[]]].
      * destruct (i_log _ _ _ I t ev0 Hin) as (k & ob & A & B & C & D & F).
        destruct (Nat.eq_dec k kt) as [Heq|Hne].
        -- subst k. exists kt, ob'. split; [exact A|]. split; [exact B|]. split; [exact Hob'|].
           destruct (sh_files _ _ (i_shape _ _ _ I t) kt ob B C) as (Hk1 & _). split; [congruence|].
           intros Hx0. apply (Hdead ob C (F Hx0)).
        -- exists k, ob. rewrite Hobj by exact Hne. auto.
      * subst ev0. exists kt, ob'. auto.
    + assert (sd0 = negb t) by (destruct sd0, t; try reflexivity; contradiction). subst sd0.
      apply (LogOk_ext (real_evl w) (real_evl w') w w' (negb t) Hobjo); [|apply (i_log _ _ _ I)].
      intros ev0. unfold real_evl. rewrite Hpo. auto.
  - rewrite Hst. apply (i_idx _ _ _ I).
  - rewrite Hst. apply (i_tape _ _ _ I).
  - rewrite Hst. apply (i_csc _ _ _ I).
  - rewrite Hst. apply (i_csb _ _ _ I).
  - rewrite Hst. apply (i_cse _ _ _ I).
  - rewrite Hst. apply (i_clk _ _ _ I).
  - rewrite Hst. intros e en Hn. destruct (i_clke _ _ _ I e en Hn) as (A & B). split; [exact A|]. intros sd. rewrite Hgx. apply B.
  - rewrite Hst. apply (i_roots _ _ _ I).
  - rewrite Hst. intros sd0 k Hk Hl. destruct (Bool.bool_dec sd0 t) as [Heq|Hne].
    + subst sd0. destruct (Nat.eq_dec k kt) as [->|Hnk]; [right; exact Hpdk|].
      destruct (i_cov _ _ _ I t k Hk (Hlt k Hnk Hl)) as [X|X]; [left; exact X|right; apply Hpdm; exact X].
    + assert (sd0 = negb t) by (destruct sd0, t; try reflexivity; contradiction). subst sd0. rewrite Hpo in Hl.
      destruct (i_cov _ _ _ I (negb t) k Hk Hl) as [X|X]; [left; exact X|right; apply Hpdm; exact X].
  - rewrite Hst. exact HE.
  - rewrite Hst. intros sd0 k Hk Hl Hg0. destruct (Bool.bool_dec sd0 t) as [Heq|Hne].
    + subst sd0. destruct (Nat.eq_dec k kt) as [->|Hnk].
      * destruct Hgk as (cs' & X & _). congruence.
      * rewrite (Hgt k Hnk) in Hg0. apply (i_cove _ _ _ I t k Hk (Hlt k Hnk Hl) Hg0).
    + assert (sd0 = negb t) by (destruct sd0, t; try reflexivity; contradiction). subst sd0. rewrite Hpo in Hl. rewrite Hgo in Hg0.
      apply (i_cove _ _ _ I (negb t) k Hk Hl Hg0).
  - intros sd0 k cs0 Hg0. destruct (Bool.bool_dec sd0 t) as [Heq|Hne].
    + subst sd0. destruct (Nat.eq_dec k kt) as [->|Hnk].
      * destruct Hgk as (cs' & X & (r & Y)). split; [exact Hkt2|]. exists ob', r. split; [exact Hob'|congruence].
      * rewrite (Hgt k Hnk) in Hg0. rewrite (Hobj k Hnk). apply (i_ghost _ _ _ I t k cs0 Hg0).
    + assert (sd0 = negb t) by (destruct sd0, t; try reflexivity; contradiction). subst sd0. rewrite Hgo in Hg0. rewrite Hobjo.
      apply (i_ghost _ _ _ I (negb t) k cs0 Hg0).
  - rewrite Hst. intros e sd Hl. rewrite Hgx. apply (i_xlen _ _ _ I e sd Hl).
  - rewrite Hst. intros e en sd He Hn. unfold Seen. rewrite Hgx. apply (i_seen _ _ _ I e en sd He Hn).
Qed.

(* ------------------------------------------------------------------ bookkeeping lemmas *)
Lemma g_of_with_same g sd l : g_of (g_with g sd l) sd = l. Proof. destruct sd; reflexivity. Qed.
Lemma g_of_with_other g sd l : g_of (g_with g sd l) (negb sd) = g_of g (negb sd). Proof. destruct sd; reflexivity. Qed.
Lemma g_get_cons_same k v l : g_get k ((k, v) :: l) = Some v. Proof. simpl. rewrite Nat.eqb_refl. reflexivity. Qed.
Lemma g_get_cons_other k k' v l : k' <> k -> g_get k' ((k, v) :: l) = g_get k' l.
Proof. intros H. simpl. destruct (Nat.eqb_spec k' k); [contradiction|reflexivity]. Qed.

Lemma live_get_del_same p l : live_get p (live_del p l) = None.
Proof.
  induction l as [|[q cs] r IH]; simpl; [reflexivity|]. destruct (ProvModel.path_eqb p q) eqn:E; simpl; [exact IH|]. rewrite E. exact IH.
Qed.
Lemma live_get_del_other p q l : ProvModel.path_eqb q p = false -> live_get q (live_del p l) = live_get q l.
Proof.
  intros H. induction l as [|[q' cs] r IH]; simpl; [reflexivity|].
  destruct (ProvModel.path_eqb p q') eqn:E; simpl.
  - apply path_eqb_eq in E. subst q'. rewrite H. exact IH.
  - destruct (ProvModel.path_eqb q q'); [reflexivity|exact IH].
Qed.
Lemma n_mem_false d l : n_mem d l = false -> ~ In d l.
Proof.
  unfold n_mem. intros H Hin. assert (X: existsb (N.eqb d) l = true) by (apply existsb_exists; exists d; split; [exact Hin|apply N.eqb_refl]). congruence.
Qed.
Lemma name_mem_cons n m l : name_mem n l = true -> name_mem n (m :: l) = true.
Proof. unfold name_mem. simpl. intros ->. apply orb_true_r. Qed.
Lemma name_mem_head n l : name_mem n (n :: l) = true.
Proof. unfold name_mem. simpl. rewrite StrLemmas.str_eqb_refl. reflexivity. Qed.
Lemma name_mem_neq n m l : name_mem n l = false -> name_mem m l = true -> m <> n.
Proof. intros A B X. subst. congruence. Qed.

Lemma pd_after w w' t ev : prov_of w' (negb t) = prov_of w (negb t) ->
  ProvModel.events_from (prov_of w' t) = ProvModel.events_from (prov_of w t) ++ [ev] ->
  forall sd k, pd (real_evl w) sd k = true -> pd (real_evl w') sd k = true.
Proof.
  intros Hpo Hev sd0 k0 Hp. unfold pd, real_evl in *. destruct (Bool.bool_dec sd0 t) as [Heq|Hne].
  - subst sd0. rewrite Hev, existsb_app, Hp. reflexivity.
  - assert (sd0 = negb t) by (destruct sd0, t; try reflexivity; contradiction). subst sd0. rewrite Hpo. exact Hp.
Qed.

Lemma prov_with_same w sd p : prov_of (with_prov w sd p) sd = p. Proof. destruct sd; reflexivity. Qed.
Lemma prov_with_other w sd p : prov_of (with_prov w sd p) (negb sd) = prov_of w (negb sd). Proof. destruct sd; reflexivity. Qed.
Lemma st_with_prov w sd p : w_st (with_prov w sd p) = w_st w. Proof. destruct sd; reflexivity. Qed.
Lemma cfg_with_prov w sd p : w_cfg (with_prov w sd p) = w_cfg w. Proof. destruct sd; reflexivity. Qed.
Lemma x_with_prov w sd p : w_x (with_prov w sd p) = w_x w. Proof. destruct sd; reflexivity. Qed.

(* ------------------------------------------------------------------ the domain ghost of fragment F1 *)
(* user-made objects have pairwise different leaf names, across both sides (names are never reused) *)
Definition Uniq (g : ghost) (w : world) : Prop :=
  forall sd k cs sd' k' cs' ob ob', g_get k (g_of g sd) = Some cs -> g_get k' (g_of g sd') = Some cs' ->
    obj_at w sd k = Some ob -> obj_at w sd' k' = Some ob' ->
    leaf (ProvModel.o_path ob) = leaf (ProvModel.o_path ob') -> sd = sd' /\ k = k'.

Lemma Uniq_frame g w w' : OwnFrame g w w' -> Uniq g w -> Uniq g w'.
Proof.
  intros O U sd k cs sd' k' cs' ob ob' Hg Hg' Ho Ho' Hl. rewrite (O sd k cs Hg) in Ho. rewrite (O sd' k' cs' Hg') in Ho'.
  apply (U sd k cs sd' k' cs' ob ob' Hg Hg' Ho Ho' Hl).
Qed.

Record Dom (used : list ProvModel.name) (lvL lvR : list (ProvModel.path * list N)) (g : ghost) (w : world) : Prop := {
  d_live : forall (sd : bool) rel cs, live_get rel (if sd then lvR else lvL) = Some cs ->
     exists n k ob, rel = [n] /\ obj_at w sd k = Some ob /\ ProvModel.o_exists ob = true /\
                    ProvModel.o_path ob = [root_name sd; n] /\ g_get k (g_of g sd) = Some cs;
  d_used : forall sd k cs, g_get k (g_of g sd) = Some cs ->
     exists ob n, obj_at w sd k = Some ob /\ ProvModel.o_path ob = [root_name sd; n] /\ name_mem n used = true;
  d_uniq : Uniq g w;
  (* conversely: a live user-made object is one of the files the bookkeeping lists, with the contents recorded *)
  d_conv : forall (sd : bool) k cs ob, g_get k (g_of g sd) = Some cs -> obj_at w sd k = Some ob -> ProvModel.o_exists ob = true ->
     exists n, ProvModel.o_path ob = [root_name sd; n] /\ live_get [n] (if sd then lvR else lvL) = Some cs
}.

Lemma Dom_frame used lvL lvR g w w' : OwnFrame g w w' -> Dom used lvL lvR g w -> Dom used lvL lvR g w'.
Proof.
  intros O [A B C D0]. constructor.
  - intros sd rel cs H. destruct (A sd rel cs H) as (n & k & ob & X1 & X2 & X3 & X4 & X5).
    exists n, k, ob. rewrite (O sd k cs X5). auto.
  - intros sd k cs H. destruct (B sd k cs H) as (ob & n & X1 & X2 & X3). exists ob, n. rewrite (O sd k cs H). auto.
  - apply (Uniq_frame g w w' O C).
  - intros sd k cs ob Hg Hob Hl. rewrite (O sd k cs Hg) in Hob. apply (D0 sd k cs ob Hg Hob Hl).
Qed.

(* every live object's leaf name has been used by a user *)
Lemma live_name_used used lvL lvR g w sd k ob n :
  Inv g w -> Dom used lvL lvR g w -> (2 <= k)%nat -> obj_at w sd k = Some ob -> ProvModel.o_exists ob = true ->
  ProvModel.o_path ob = [root_name sd; n] -> name_mem n used = true.
Proof.
  intros I D Hk Hob Hl Hp.
  destruct (opt_dec (g_get k (g_of g sd))) as [(cs & Eg)|Eg].
  - destruct (d_used _ _ _ _ _ D sd k cs Eg) as (ob0 & n0 & X1 & X2 & X3). assert (ob0 = ob) by congruence. subst ob0.
    assert (n0 = n) by congruence. subst n0. exact X3.
  - assert (Hlt: (k < length (ProvModel.p_heap (prov_of w sd)))%nat) by (apply nth_error_Some; unfold obj_at in Hob; congruence).
    destruct (i_cove _ _ _ I sd k Hk Hlt Eg) as (e & en & Hn & Ho).
    assert (He: (2 <= e)%nat).
    { destruct (i_roots _ _ _ I) as (e0 & e1 & H0 & H1 & _ & _ & _ & _ & R1 & R2 & _ & R3 & R4 & _).
      destruct e as [|[|e]]; [|exfalso|lia]; exfalso.
      - assert (en = e0) by congruence. subst en. assert (X: ostr_k 1 = ostr_k k) by (destruct sd; simpl in Ho; congruence). apply ostr_k_inj in X. lia.
      - assert (en = e1) by congruence. subst en. destruct sd; simpl in Ho; congruence. }
    pose proof (i_ents _ _ _ I e en He Hn) as EO.
    destruct (so_full _ _ _ _ _ _ (eo_side _ _ _ _ _ EO sd) _ Ho) as (k1 & ob1 & Hk1 & Hob1 & _ & FO).
    apply ostr_k_inj in Hk1. subst k1. assert (ob1 = ob) by congruence. subst ob1.
    assert (Hnd: is_discarded (e_ign en) = false).
    { destruct (is_discarded (e_ign en)) eqn:Ed; [|reflexivity]. rewrite (fo_disc _ _ _ _ _ _ _ _ FO Ed) in Hl. discriminate. }
    destruct (fo_mirror _ _ _ _ _ _ _ _ FO Hnd Eg) as (_ & _ & _ & _ & _ & _ & (k' & ob' & G1 & G2 & G3 & G4)).
    destruct (opt_dec (g_get k' (g_of g (negb sd)))) as [(cs' & Eg')|Eg']; [|contradiction].
    destruct (d_used _ _ _ _ _ D (negb sd) k' cs' Eg') as (ob0 & n0 & X1 & X2 & X3). assert (ob0 = ob') by congruence. subst ob0.
    rewrite Hp, X2 in G3. unfold leaf in G3. simpl in G3. subst n0. exact X3.
Qed.

Lemma root_std sd : root_of (cfg_std 1) sd = [root_name sd]. Proof. destruct sd; reflexivity. Qed.

Lemma heap_ge2 g w sd : Inv g w -> (2 <= length (ProvModel.p_heap (prov_of w sd)))%nat.
Proof.
  intros I. destruct (sh_root1 _ _ (i_shape _ _ _ I sd)) as (r1 & H & _). unfold obj_at in H.
  assert (1 < length (ProvModel.p_heap (prov_of w sd)))%nat by (apply nth_error_Some; congruence). lia.
Qed.

Lemma entry_obj_lt g w x xn sd0 k0 : Inv g w -> (2 <= x)%nat -> nth_error (ents (w_st w)) x = Some xn ->
  s_oid (gs xn sd0) = Some (ostr_k k0) -> (k0 < length (ProvModel.p_heap (prov_of w sd0)))%nat.
Proof.
  intros I Hx Hn Ho. pose proof (i_ents _ _ _ I x xn Hx Hn) as EO.
  destruct (so_full _ _ _ _ _ _ (eo_side _ _ _ _ _ EO sd0) _ Ho) as (k1 & ob1 & Hk1 & Hob1 & _).
  apply ostr_k_inj in Hk1. subst k1. apply nth_error_Some. unfold obj_at in Hob1. congruence.
Qed.

(* ------------------------------------------------------------------ user: create a file with a new name *)
Lemma user_create_pres used lvL lvR g w sd n d :
  Inv g w -> NoTmp w -> Dom used lvL lvR g w -> name_ok n = true -> name_mem n used = false ->
  exists g', Inv g' (user_op w sd (UCreate [n] d)) /\ NoTmp (user_op w sd (UCreate [n] d)) /\
     (forall k, g_get k (g_of g' (negb sd)) = g_get k (g_of g (negb sd))) /\
     Dom (n :: used) (if sd then lvL else ([n], [d]) :: lvL) (if sd then ([n], [d]) :: lvR else lvR) g' (user_op w sd (UCreate [n] d)).
Proof.
  intros I T D Hnok Hnew.
  set (p := prov_of w sd). set (q := [root_name sd; n]).
  assert (Hw': user_op w sd (UCreate [n] d) = with_prov w sd (fst (ProvModel.create p q d))).
  { unfold user_op. rewrite (i_cfg _ _ _ I), root_std. reflexivity. }
  rewrite Hw'. clear Hw'.
  pose proof (i_pwf _ _ _ I sd) as W. fold p in W.
  assert (Hfree: forall k o, nth_error (ProvModel.p_heap p) k = Some o -> ProvModel.o_exists o = true -> ProvModel.o_path o <> q).
  { intros k o Hk Hl Hq. destruct k as [|[|k]].
    - destruct (sh_root0 _ _ (i_shape _ _ _ I sd)) as (r0 & H0 & _ & P0 & _). unfold obj_at in H0. fold p in H0.
      assert (o = r0) by congruence. subst o. rewrite P0 in Hq. discriminate.
    - destruct (sh_root1 _ _ (i_shape _ _ _ I sd)) as (r1 & H1 & _ & P1 & _). unfold obj_at in H1. fold p in H1.
      assert (o = r1) by congruence. subst o. rewrite P1 in Hq. discriminate.
    - rewrite (live_name_used used lvL lvR g w sd (S (S k)) o n I D ltac:(lia) Hk Hl Hq) in Hnew. discriminate. }
  assert (Hvp: ProvModel.verify_parent p q = None).
  { destruct (sh_root1 _ _ (i_shape _ _ _ I sd)) as (r1 & H1 & L1 & P1 & K1). unfold obj_at in H1. fold p in H1.
    pose proof (info_path_live p 1 r1 W H1 L1) as Hi. rewrite P1 in Hi.
    unfold ProvModel.verify_parent, q. cbn [removelast]. rewrite Hi. unfold ProvModel.info_of. cbn [ProvModel.i_kind]. rewrite K1. reflexivity. }
  destruct (create_spec p q d W Hfree Hvp) as (p' & Ecr & Hheap & Hlog & Hcur & Hpcfg & HW').
  rewrite Ecr. cbn [fst].
  set (kt := length (ProvModel.p_heap p)) in *. set (o := new_obj p q ProvModel.KFile d) in *.
  set (w' := with_prov w sd p').
  set (g' := g_with g sd ((kt, [d]) :: g_of g sd)).
  assert (Hkt2: (2 <= kt)%nat) by (apply (heap_ge2 g w sd I)).
  assert (Hpo: prov_of w' (negb sd) = prov_of w (negb sd)) by apply prov_with_other.
  assert (Hps: prov_of w' sd = p') by apply prov_with_same.
  assert (Hobt: obj_at w' sd kt = Some o).
  { unfold obj_at. rewrite Hps, Hheap. unfold kt. rewrite nth_error_app2, Nat.sub_diag by lia. reflexivity. }
  assert (Hobj: forall k0, k0 <> kt -> obj_at w' sd k0 = obj_at w sd k0).
  { intros k0 Hne. unfold obj_at. rewrite Hps, Hheap. fold p. destruct (Nat.lt_ge_cases k0 kt) as [Hlt|Hge].
    - rewrite nth_error_app1 by exact Hlt. reflexivity.
    - assert (Hn1: nth_error (ProvModel.p_heap p ++ [o]) k0 = None) by (apply nth_error_None; rewrite app_length; simpl; fold kt; lia).
      assert (Hn2: nth_error (ProvModel.p_heap p) k0 = None) by (apply nth_error_None; fold kt; lia). congruence. }
  assert (Hobjo: forall k0, obj_at w' (negb sd) k0 = obj_at w (negb sd) k0) by (intros; unfold obj_at; rewrite Hpo; reflexivity).
  assert (Hgo: forall k, g_get k (g_of g' (negb sd)) = g_get k (g_of g (negb sd))) by (intros; unfold g'; rewrite g_of_with_other; reflexivity).
  assert (Hgt: forall k, k <> kt -> g_get k (g_of g' sd) = g_get k (g_of g sd)).
  { intros k Hne. unfold g'. rewrite g_of_with_same. apply g_get_cons_other. exact Hne. }
  assert (Hgk: g_get kt (g_of g' sd) = Some [d]) by (unfold g'; rewrite g_of_with_same; apply g_get_cons_same).
  assert (Hev: ProvModel.events_from (prov_of w' sd) = ProvModel.events_from (prov_of w sd) ++ [create_ev o]).
  { rewrite Hps. apply events_from_app; [exact Hcur|exact Hlog|apply (pw_cursor _ W)]. }
  pose proof (pd_after w w' sd (create_ev o) Hpo Hev) as Hpdm.
  destruct (inv_user g g' w w' sd kt o (create_ev o) I) as (I' & _ & _).
  - apply cfg_with_prov.
  - apply st_with_prov.
  - apply x_with_prov.
  - exact Hpo.
  - rewrite Hps. exact HW'.
  - rewrite Hps. exact Hcur.
  - rewrite Hps. exact Hlog.
  - reflexivity.
  - exact Hkt2.
  - apply Nat.le_refl.
  - exact Hobt.
  - reflexivity.
  - intros X. discriminate.
  - reflexivity.
  - exists n. split; [reflexivity|exact Hnok].
  - exact Hobj.
  - intros ob Hob. exfalso. unfold obj_at in Hob. assert (kt < length (ProvModel.p_heap (prov_of w sd)))%nat by (apply nth_error_Some; congruence).
    unfold kt, p in *. lia.
  - rewrite Hps, Hheap, app_length. simpl. fold p. fold kt. lia.
  - exact Hgo.
  - exact Hgt.
  - exists [d]. split; [exact Hgk|]. exists []. reflexivity.
  - intros x xn Hx2 Hxn.
    apply (EntOk_frame (real_evl w) (real_evl w') g g' w w' x xn (i_ents _ _ _ I x xn Hx2 Hxn)); [intros sd0; unfold getx, w'; rewrite x_with_prov; reflexivity|].
    intros sd0 k0 Ho0. pose proof (entry_obj_lt g w x xn sd0 k0 I Hx2 Hxn Ho0) as Hlt0.
    destruct (Bool.bool_dec sd0 sd) as [->|Hne].
    + assert (k0 <> kt) by (unfold kt, p; lia). split; [apply Hobj; assumption|]. split; [apply Hpdm|apply Hgt; assumption].
    + rewrite (other_side _ _ Hne). split; [apply Hobjo|]. split; [apply Hpdm|apply Hgo].
  - exists g'. split; [exact I'|]. split; [intros x sd0; unfold getx, w'; rewrite x_with_prov; apply (T x sd0)|]. split; [exact Hgo|].
    constructor.
    + intros sd0 rel cs Hl. destruct (Bool.bool_dec sd0 sd) as [->|Hne].
      * assert (Hl': live_get rel (([n], [d]) :: (if sd then lvR else lvL)) = Some cs) by (destruct sd; exact Hl).
        simpl in Hl'. destruct (ProvModel.path_eqb rel [n]) eqn:Ep.
        -- apply path_eqb_eq in Ep. subst rel. injection Hl' as <-. exists n, kt, o. auto 10.
        -- destruct (d_live _ _ _ _ _ D sd rel cs Hl') as (n0 & k0 & ob0 & X1 & X2 & X3 & X4 & X5).
           assert (k0 <> kt).
           { unfold obj_at in X2. assert (k0 < length (ProvModel.p_heap (prov_of w sd)))%nat by (apply nth_error_Some; congruence). unfold kt, p. lia. }
           exists n0, k0, ob0. rewrite Hobj, Hgt by assumption. auto 10.
      * rewrite (other_side _ _ Hne) in *.
        assert (Hl': live_get rel (if negb sd then lvR else lvL) = Some cs) by (destruct sd; exact Hl).
        destruct (d_live _ _ _ _ _ D (negb sd) rel cs Hl') as (n0 & k0 & ob0 & X1 & X2 & X3 & X4 & X5).
        exists n0, k0, ob0. rewrite Hobjo, Hgo. auto 10.
    + intros sd0 k cs Hg0. destruct (Bool.bool_dec sd0 sd) as [->|Hne].
      * destruct (Nat.eq_dec k kt) as [->|Hnk].
        -- exists o, n. split; [exact Hobt|]. split; [reflexivity|apply name_mem_head].
        -- rewrite (Hgt k Hnk) in Hg0. destruct (d_used _ _ _ _ _ D sd k cs Hg0) as (ob0 & n0 & X1 & X2 & X3).
           exists ob0, n0. rewrite (Hobj k Hnk). split; [exact X1|]. split; [exact X2|apply name_mem_cons; exact X3].
      * rewrite (other_side _ _ Hne) in *. rewrite Hgo in Hg0. destruct (d_used _ _ _ _ _ D (negb sd) k cs Hg0) as (ob0 & n0 & X1 & X2 & X3).
        exists ob0, n0. rewrite Hobjo. split; [exact X1|]. split; [exact X2|apply name_mem_cons; exact X3].
    + intros sd0 k0 cs0 sd1 k1 cs1 ob0 ob1 Hg0 Hg1 Ho0 Ho1 Hleaf.
      assert (Hcls: forall sdx kx csx obx, g_get kx (g_of g' sdx) = Some csx -> obj_at w' sdx kx = Some obx ->
                (sdx = sd /\ kx = kt /\ obx = o) \/
                (g_get kx (g_of g sdx) = Some csx /\ obj_at w sdx kx = Some obx /\ exists nx, ProvModel.o_path obx = [root_name sdx; nx] /\ name_mem nx used = true)).
      { intros sdx kx csx obx Hgx Hox. destruct (Bool.bool_dec sdx sd) as [->|Hne].
        - destruct (Nat.eq_dec kx kt) as [->|Hnk]; [left; split; [reflexivity|split; [reflexivity|congruence]]|].
          right. rewrite (Hgt kx Hnk) in Hgx. rewrite (Hobj kx Hnk) in Hox. split; [exact Hgx|split; [exact Hox|]].
          destruct (d_used _ _ _ _ _ D sd kx csx Hgx) as (obz & nz & Z1 & Z2 & Z3). assert (obz = obx) by congruence. subst obz. eauto.
        - rewrite (other_side _ _ Hne) in *. rewrite Hgo in Hgx. rewrite Hobjo in Hox. right. split; [exact Hgx|split; [exact Hox|]].
          destruct (d_used _ _ _ _ _ D (negb sd) kx csx Hgx) as (obz & nz & Z1 & Z2 & Z3). assert (obz = obx) by congruence. subst obz. eauto. }
      assert (Hlo: leaf (ProvModel.o_path o) = n) by reflexivity.
      destruct (Hcls _ _ _ _ Hg0 Ho0) as [(A1 & A2 & A3)|(A1 & A2 & (n0 & A3 & A4))];
        destruct (Hcls _ _ _ _ Hg1 Ho1) as [(B1 & B2 & B3)|(B1 & B2 & (n1 & B3 & B4))].
      * split; congruence.
      * exfalso. subst ob0. rewrite Hlo, B3 in Hleaf. unfold leaf in Hleaf. simpl in Hleaf. subst n1. congruence.
      * exfalso. subst ob1. rewrite Hlo, A3 in Hleaf. unfold leaf in Hleaf. simpl in Hleaf. subst n0. congruence.
      * apply (d_uniq _ _ _ _ _ D sd0 k0 cs0 sd1 k1 cs1 ob0 ob1 A1 B1 A2 B2 Hleaf).
    + intros sd0 k0 cs0 ob0 Hg0 Ho0 Hl0. destruct (Bool.bool_dec sd0 sd) as [->|Hne].
      * destruct (Nat.eq_dec k0 kt) as [->|Hnk].
        -- assert (ob0 = o) by congruence. subst ob0. assert (cs0 = [d]) by congruence. subst cs0.
           exists n. split; [reflexivity|]. destruct sd; cbn [live_get]; rewrite ProvWf.path_eqb_refl; reflexivity.
        -- rewrite (Hgt k0 Hnk) in Hg0. rewrite (Hobj k0 Hnk) in Ho0.
           destruct (d_conv _ _ _ _ _ D sd k0 cs0 ob0 Hg0 Ho0 Hl0) as (n0 & X1 & X2).
           destruct (d_used _ _ _ _ _ D sd k0 cs0 Hg0) as (obz & nz & Z1 & Z2 & Z3). assert (obz = ob0) by congruence. subst obz.
           assert (nz = n0) by congruence. subst nz.
           assert (Hnn: ProvModel.path_eqb [n0] [n] = false).
           { apply ProvWf.path_eqb_false. intros X. injection X as X. subst n0. congruence. }
           exists n0. split; [exact X1|]. destruct sd; cbn [live_get]; rewrite Hnn; exact X2.
      * rewrite (other_side _ _ Hne) in *. rewrite Hgo in Hg0. rewrite Hobjo in Ho0.
        destruct (d_conv _ _ _ _ _ D (negb sd) k0 cs0 ob0 Hg0 Ho0 Hl0) as (n0 & X1 & X2).
        exists n0. split; [exact X1|]. destruct sd; exact X2.
Qed.

(* ------------------------------------------------------------------ user: write to / delete an own file *)
Lemma pd_new w' sd k evs ev : ProvModel.events_from (prov_of w' sd) = evs ++ [ev] -> ProvModel.e_oid ev = kid_of k ->
  pd (real_evl w') sd k = true.
Proof.
  intros Hev Ho. unfold pd, real_evl. rewrite Hev, existsb_app. cbn [existsb]. unfold ev_for at 2. rewrite Ho, key_eqb_refl, orb_true_r. reflexivity.
Qed.

Lemma user_touch_pres g w sd n k ob cs ob' cs' p' ek :
  Inv g w -> NoTmp w ->
  obj_at w sd k = Some ob -> ProvModel.o_exists ob = true -> ProvModel.o_path ob = [root_name sd; n] -> g_get k (g_of g sd) = Some cs ->
  PWF p' -> ProvModel.p_heap p' = ProvModel.hset (ProvModel.p_heap (prov_of w sd)) k ob' ->
  ProvModel.p_log p' = ProvModel.p_log (prov_of w sd) ++ [ProvModel.snapshot ek ob' None] ->
  ProvModel.p_cursor p' = ProvModel.p_cursor (prov_of w sd) ->
  ProvModel.o_path ob' = ProvModel.o_path ob -> ProvModel.o_oid ob' = ProvModel.o_oid ob -> ProvModel.o_kind ob' = ProvModel.o_kind ob ->
  (exists r, cs' = ProvModel.o_data ob' :: r) ->
  ((ProvModel.o_data ob' = ProvModel.o_data ob /\ cs' = cs) \/ (~ In (ProvModel.o_data ob') cs /\ cs' = ProvModel.o_data ob' :: cs)) ->
  Inv (g_with g sd ((k, cs') :: g_of g sd)) (with_prov w sd p') /\ NoTmp (with_prov w sd p').
Proof.
  intros I T Hob Hl Hp Hg HW' Hheap Hlog Hcur Hpath Hoid Hkind Hhead Hcs.
  set (w' := with_prov w sd p'). set (g' := g_with g sd ((k, cs') :: g_of g sd)). set (ev := ProvModel.snapshot ek ob' None).
  pose proof (i_pwf _ _ _ I sd) as W.
  destruct (i_ghost _ _ _ I sd k cs Hg) as (Hk2 & _).
  destruct (sh_files _ _ (i_shape _ _ _ I sd) k ob Hk2 Hob) as (Hkf & n1 & Hp1 & Hnok). assert (n1 = n) by congruence. subst n1.
  assert (Hlt: (k < length (ProvModel.p_heap (prov_of w sd)))%nat) by (apply nth_error_Some; unfold obj_at in Hob; congruence).
  assert (Hpo: prov_of w' (negb sd) = prov_of w (negb sd)) by apply prov_with_other.
  assert (Hps: prov_of w' sd = p') by apply prov_with_same.
  assert (Hobt: obj_at w' sd k = Some ob') by (unfold obj_at; rewrite Hps, Hheap; apply nth_hset_same; exact Hlt).
  assert (Hobj: forall k0, k0 <> k -> obj_at w' sd k0 = obj_at w sd k0) by (intros k0 Hne; unfold obj_at; rewrite Hps, Hheap; apply nth_hset_other; exact Hne).
  assert (Hobjo: forall k0, obj_at w' (negb sd) k0 = obj_at w (negb sd) k0) by (intros; unfold obj_at; rewrite Hpo; reflexivity).
  assert (Hgo: forall k0, g_get k0 (g_of g' (negb sd)) = g_get k0 (g_of g (negb sd))) by (intros; unfold g'; rewrite g_of_with_other; reflexivity).
  assert (Hgt: forall k0, k0 <> k -> g_get k0 (g_of g' sd) = g_get k0 (g_of g sd)).
  { intros k0 Hne. unfold g'. rewrite g_of_with_same. apply g_get_cons_other. exact Hne. }
  assert (Hgk: g_get k (g_of g' sd) = Some cs') by (unfold g'; rewrite g_of_with_same; apply g_get_cons_same).
  assert (Hevo: ProvModel.e_oid ev = kid_of k) by (unfold ev; cbn [ProvModel.snapshot ProvModel.e_oid]; rewrite Hoid; apply (pw_oid _ W _ _ Hob)).
  assert (Hev: ProvModel.events_from (prov_of w' sd) = ProvModel.events_from (prov_of w sd) ++ [ev]).
  { rewrite Hps. apply events_from_app; [exact Hcur|exact Hlog|apply (pw_cursor _ W)]. }
  pose proof (pd_after w w' sd ev Hpo Hev) as Hpdm.
  pose proof (pd_new w' sd k _ ev Hev Hevo) as Hpdk.
  assert (Hgx: forall x sd0, getx w' x sd0 = getx w x sd0) by (intros; unfold getx, w'; rewrite x_with_prov; reflexivity).
  split; [|intros x sd0; rewrite Hgx; apply T].
  destruct (inv_user g g' w w' sd k ob' ev I) as (I' & _ & _); [apply cfg_with_prov|apply st_with_prov|apply x_with_prov|exact Hpo|rewrite Hps; exact HW'
    |rewrite Hps; exact Hcur|rewrite Hps; exact Hlog|exact Hevo|exact Hk2|lia|exact Hobt|reflexivity|intros X; exact X|congruence
    |exists n; split; [congruence|exact Hnok]|exact Hobj| | |exact Hgo|exact Hgt|exists cs'; split; [exact Hgk|exact Hhead]| |exact I'].
  - intros ob0 Hob0 Hd0. assert (ob0 = ob) by congruence. subst ob0. congruence.
  - rewrite Hps, Hheap, hset_length. lia.
  - intros x xn Hx2 Hxn. pose proof (i_ents _ _ _ I x xn Hx2 Hxn) as EO.
    assert (Hdec: s_oid (gs xn sd) = Some (ostr_k k) \/ s_oid (gs xn sd) <> Some (ostr_k k)).
    { destruct (s_oid (gs xn sd)) as [o|]; [|right; discriminate].
      destruct (list_eq_dec N.eq_dec o (ostr_k k)) as [->|Hno]; [left; reflexivity|right; congruence]. }
    destruct Hdec as [Ho|Hno].
    + assert (Hdd: ProvModel.o_exists ob = false -> ProvModel.o_exists ob' = false) by (intros X; congruence).
      assert (Hlg: forall e0 sd0, x_lg (getx w' e0 sd0) = x_lg (getx w e0 sd0)) by (intros; rewrite Hgx; reflexivity).
      apply (EntOk_touch (real_evl w) (real_evl w') g g' w w' sd k ob ob' cs cs' Hob Hobt Hobjo Hpdm Hpdk Hg Hgk Hgo Hpath Hdd Hhead Hcs Hlg x xn Ho EO).
    + apply (EntOk_frame (real_evl w) (real_evl w') g g' w w' x xn EO); [intros; rewrite Hgx; reflexivity|].
      intros sd0 k0 Ho0. destruct (Bool.bool_dec sd0 sd) as [->|Hne].
      * assert (k0 <> k) by (intros ->; contradiction). split; [apply Hobj; assumption|]. split; [apply Hpdm|apply Hgt; assumption].
      * rewrite (other_side _ _ Hne). split; [apply Hobjo|]. split; [apply Hpdm|apply Hgo].
Qed.

Lemma user_find used lvL lvR g w (sd : bool) rel cs :
  Inv g w -> Dom used lvL lvR g w -> live_get rel (if sd then lvR else lvL) = Some cs ->
  exists n k ob, rel = [n] /\ obj_at w sd k = Some ob /\ ProvModel.o_exists ob = true /\ ProvModel.o_path ob = [root_name sd; n] /\
    g_get k (g_of g sd) = Some cs /\
    ProvModel.info_path (prov_of w sd) (root_of (w_cfg w) sd ++ rel) = Some (ProvModel.info_of ob) /\
    ProvModel.o_oid ob = kid_of k /\ ProvModel.o_kind ob = ProvModel.KFile.
Proof.
  intros I D H. destruct (d_live _ _ _ _ _ D sd rel cs H) as (n & k & ob & -> & Hob & Hl & Hp & Hg).
  exists n, k, ob. pose proof (i_pwf _ _ _ I sd) as W.
  destruct (i_ghost _ _ _ I sd k cs Hg) as (Hk2 & _).
  destruct (sh_files _ _ (i_shape _ _ _ I sd) k ob Hk2 Hob) as (Hkf & _).
  repeat (split; [first [reflexivity|assumption]|]). split; [|split; [apply (pw_oid _ W _ _ Hob)|exact Hkf]].
  rewrite (i_cfg _ _ _ I), root_std. change ([root_name sd] ++ [n]) with [root_name sd; n]. rewrite <- Hp.
  apply (info_path_live _ k ob W Hob Hl).
Qed.

Lemma user_write_pres used lvL lvR g w (sd : bool) rel d cs :
  Inv g w -> NoTmp w -> Dom used lvL lvR g w ->
  live_get rel (if sd then lvR else lvL) = Some cs -> n_mem d cs = false ->
  exists g', Inv g' (user_op w sd (UWrite rel d)) /\ NoTmp (user_op w sd (UWrite rel d)) /\
    (forall k, g_get k (g_of g' (negb sd)) = g_get k (g_of g (negb sd))) /\
    Dom used (if sd then lvL else (rel, d :: cs) :: live_del rel lvL) (if sd then (rel, d :: cs) :: live_del rel lvR else lvR)
        g' (user_op w sd (UWrite rel d)).
Proof.
  intros I T D Hlive Hfresh.
  destruct (user_find used lvL lvR g w sd rel cs I D Hlive) as (n & k & ob & -> & Hob & Hl & Hp & Hg & Hinfo & Hoid & Hkf).
  pose proof (i_pwf _ _ _ I sd) as W.
  destruct (upload_spec _ k ob d W Hob Hl Hkf) as (p' & Eup & Hheap & Hlog & Hcur & _ & HW').
  assert (Hw': user_op w sd (UWrite [n] d) = with_prov w sd p').
  { unfold user_op. rewrite Hinfo. cbn [ProvModel.info_of ProvModel.i_oid]. rewrite Hoid, Eup. reflexivity. }
  rewrite Hw'. set (ob' := ProvModel.set_data ob d) in *. set (g' := g_with g sd ((k, d :: cs) :: g_of g sd)).
  destruct (user_touch_pres g w sd n k ob cs ob' (d :: cs) p' ProvModel.EvUpdate I T Hob Hl Hp Hg HW' Hheap Hlog Hcur) as (I' & T');
    [reflexivity|reflexivity|reflexivity|exists cs; reflexivity|right; split; [apply n_mem_false; exact Hfresh|reflexivity]|].
  exists g'. split; [exact I'|]. split; [exact T'|].
  split; [intros; unfold g'; rewrite g_of_with_other; reflexivity|].
  set (w' := with_prov w sd p').
  assert (Hlt: (k < length (ProvModel.p_heap (prov_of w sd)))%nat) by (apply nth_error_Some; unfold obj_at in Hob; congruence).
  assert (Hobt: obj_at w' sd k = Some ob') by (unfold obj_at, w'; rewrite prov_with_same, Hheap; apply nth_hset_same; exact Hlt).
  assert (Hobj: forall k0, k0 <> k -> obj_at w' sd k0 = obj_at w sd k0) by (intros k0 Hne; unfold obj_at, w'; rewrite prov_with_same, Hheap; apply nth_hset_other; exact Hne).
  assert (Hobjo: forall k0, obj_at w' (negb sd) k0 = obj_at w (negb sd) k0) by (intros; unfold obj_at, w'; rewrite prov_with_other; reflexivity).
  assert (Hgo: forall k0, g_get k0 (g_of g' (negb sd)) = g_get k0 (g_of g (negb sd))) by (intros; unfold g'; rewrite g_of_with_other; reflexivity).
  assert (Hgt: forall k0, k0 <> k -> g_get k0 (g_of g' sd) = g_get k0 (g_of g sd)).
  { intros k0 Hne. unfold g'. rewrite g_of_with_same. apply g_get_cons_other. exact Hne. }
  assert (Hgk: g_get k (g_of g' sd) = Some (d :: cs)) by (unfold g'; rewrite g_of_with_same; apply g_get_cons_same).
  constructor.
  - intros sd0 rel0 cs0 Hl0. destruct (Bool.bool_dec sd0 sd) as [->|Hne].
    + assert (Hl': live_get rel0 (([n], d :: cs) :: live_del [n] (if sd then lvR else lvL)) = Some cs0) by (destruct sd; exact Hl0).
      simpl in Hl'. destruct (ProvModel.path_eqb rel0 [n]) eqn:Ep.
      * apply path_eqb_eq in Ep. subst rel0. injection Hl' as <-. exists n, k, ob'. auto 10.
      * rewrite (live_get_del_other _ _ _ Ep) in Hl'.
        destruct (d_live _ _ _ _ _ D sd rel0 cs0 Hl') as (n0 & k0 & ob0 & X1 & X2 & X3 & X4 & X5).
        assert (k0 <> k).
        { intros ->. assert (ob0 = ob) by congruence. subst ob0. assert (n0 = n) by congruence. subst. rewrite ProvWf.path_eqb_refl in Ep. discriminate. }
        exists n0, k0, ob0. rewrite Hobj, Hgt by assumption. auto 10.
    + rewrite (other_side _ _ Hne) in *.
      assert (Hl': live_get rel0 (if negb sd then lvR else lvL) = Some cs0) by (destruct sd; exact Hl0).
      destruct (d_live _ _ _ _ _ D (negb sd) rel0 cs0 Hl') as (n0 & k0 & ob0 & X1 & X2 & X3 & X4 & X5).
      exists n0, k0, ob0. rewrite Hobjo, Hgo. auto 10.
  - intros sd0 k0 cs0 Hg0. destruct (Bool.bool_dec sd0 sd) as [->|Hne].
    + destruct (Nat.eq_dec k0 k) as [->|Hnk].
      * destruct (d_used _ _ _ _ _ D sd k cs Hg) as (ob0 & n0 & X1 & X2 & X3). assert (ob0 = ob) by congruence. subst ob0.
        exists ob', n0. split; [exact Hobt|]. split; [exact X2|exact X3].
      * rewrite (Hgt k0 Hnk) in Hg0. destruct (d_used _ _ _ _ _ D sd k0 cs0 Hg0) as (ob0 & n0 & X1 & X2 & X3).
        exists ob0, n0. rewrite (Hobj k0 Hnk). auto.
    + rewrite (other_side _ _ Hne) in *. rewrite Hgo in Hg0. destruct (d_used _ _ _ _ _ D (negb sd) k0 cs0 Hg0) as (ob0 & n0 & X1 & X2 & X3).
      exists ob0, n0. rewrite Hobjo. auto.
  - intros sd0 k0 cs0 sd1 k1 cs1 ob0 ob1 Hg0 Hg1 Ho0 Ho1 Hleaf.
    assert (Hold: forall sdx kx csx obx, g_get kx (g_of g' sdx) = Some csx -> obj_at w' sdx kx = Some obx ->
              exists csz obz, g_get kx (g_of g sdx) = Some csz /\ obj_at w sdx kx = Some obz /\ ProvModel.o_path obz = ProvModel.o_path obx).
    { intros sdx kx csx obx Hgx Hox. destruct (Bool.bool_dec sdx sd) as [->|Hne].
      - destruct (Nat.eq_dec kx k) as [->|Hnk].
        + exists cs, ob. split; [exact Hg|]. split; [exact Hob|]. assert (obx = ob') by congruence. subst obx. reflexivity.
        + exists csx, obx. rewrite <- (Hgt kx Hnk), <- (Hobj kx Hnk). auto.
      - rewrite (other_side _ _ Hne) in *. exists csx, obx. rewrite <- Hgo, <- Hobjo. auto. }
    destruct (Hold _ _ _ _ Hg0 Ho0) as (c0 & z0 & X1 & X2 & X3). destruct (Hold _ _ _ _ Hg1 Ho1) as (c1 & z1 & Y1 & Y2 & Y3).
    apply (d_uniq _ _ _ _ _ D sd0 k0 c0 sd1 k1 c1 z0 z1 X1 Y1 X2 Y2). rewrite X3, Y3. exact Hleaf.
  - intros sd0 k0 cs0 ob0 Hg0 Ho0 Hl0. destruct (Bool.bool_dec sd0 sd) as [->|Hne].
    + destruct (Nat.eq_dec k0 k) as [->|Hnk].
      * assert (ob0 = ob') by congruence. subst ob0. assert (cs0 = d :: cs) by congruence. subst cs0.
        exists n. split; [exact Hp|]. destruct sd; cbn [live_get]; rewrite ProvWf.path_eqb_refl; reflexivity.
      * rewrite (Hgt k0 Hnk) in Hg0. rewrite (Hobj k0 Hnk) in Ho0.
        destruct (d_conv _ _ _ _ _ D sd k0 cs0 ob0 Hg0 Ho0 Hl0) as (n0 & X1 & X2).
        assert (Hnn: ProvModel.path_eqb [n0] [n] = false).
        { apply ProvWf.path_eqb_false. intros X. injection X as X. subst n0.
          destruct (d_uniq _ _ _ _ _ D sd k0 cs0 sd k cs ob0 ob Hg0 Hg Ho0 Hob) as (_ & Hk); [rewrite X1, Hp; reflexivity|]. contradiction. }
        exists n0. split; [exact X1|]. destruct sd; cbn [live_get]; rewrite Hnn, (live_get_del_other _ _ _ Hnn); exact X2.
    + rewrite (other_side _ _ Hne) in *. rewrite Hgo in Hg0. rewrite Hobjo in Ho0.
      destruct (d_conv _ _ _ _ _ D (negb sd) k0 cs0 ob0 Hg0 Ho0 Hl0) as (n0 & X1 & X2).
      exists n0. split; [exact X1|]. destruct sd; exact X2.
Qed.

Lemma user_delete_pres used lvL lvR g w (sd : bool) rel cs :
  Inv g w -> NoTmp w -> Dom used lvL lvR g w ->
  live_get rel (if sd then lvR else lvL) = Some cs ->
  exists g', Inv g' (user_op w sd (UDelete rel)) /\ NoTmp (user_op w sd (UDelete rel)) /\
    (forall k, g_get k (g_of g' (negb sd)) = g_get k (g_of g (negb sd))) /\
    Dom used (if sd then lvL else live_del rel lvL) (if sd then live_del rel lvR else lvR) g' (user_op w sd (UDelete rel)).
Proof.
  intros I T D Hlive.
  destruct (user_find used lvL lvR g w sd rel cs I D Hlive) as (n & k & ob & -> & Hob & Hl & Hp & Hg & Hinfo & Hoid & Hkf).
  pose proof (i_pwf _ _ _ I sd) as W.
  destruct (delete_spec _ k ob W Hob Hl Hkf) as (p' & Edel & Hheap & Hlog & Hcur & _ & HW').
  assert (Hw': user_op w sd (UDelete [n]) = with_prov w sd p').
  { unfold user_op. rewrite Hinfo. cbn [ProvModel.info_of ProvModel.i_oid]. rewrite Hoid, Edel. reflexivity. }
  rewrite Hw'. set (ob' := ProvModel.set_exists ob false) in *. set (g' := g_with g sd ((k, cs) :: g_of g sd)).
  destruct (i_ghost _ _ _ I sd k cs Hg) as (_ & ob0 & r & Hob0 & Hcsr). assert (ob0 = ob) by congruence. subst ob0.
  destruct (user_touch_pres g w sd n k ob cs ob' cs p' ProvModel.EvDelete I T Hob Hl Hp Hg HW' Hheap Hlog Hcur) as (I' & T');
    [reflexivity|reflexivity|reflexivity|exists r; exact Hcsr|left; split; reflexivity|].
  exists g'. split; [exact I'|]. split; [exact T'|].
  split; [intros; unfold g'; rewrite g_of_with_other; reflexivity|].
  set (w' := with_prov w sd p').
  assert (Hlt: (k < length (ProvModel.p_heap (prov_of w sd)))%nat) by (apply nth_error_Some; unfold obj_at in Hob; congruence).
  assert (Hobt: obj_at w' sd k = Some ob') by (unfold obj_at, w'; rewrite prov_with_same, Hheap; apply nth_hset_same; exact Hlt).
  assert (Hobj: forall k0, k0 <> k -> obj_at w' sd k0 = obj_at w sd k0) by (intros k0 Hne; unfold obj_at, w'; rewrite prov_with_same, Hheap; apply nth_hset_other; exact Hne).
  assert (Hobjo: forall k0, obj_at w' (negb sd) k0 = obj_at w (negb sd) k0) by (intros; unfold obj_at, w'; rewrite prov_with_other; reflexivity).
  assert (Hgo: forall k0, g_get k0 (g_of g' (negb sd)) = g_get k0 (g_of g (negb sd))) by (intros; unfold g'; rewrite g_of_with_other; reflexivity).
  assert (Hgt: forall k0, k0 <> k -> g_get k0 (g_of g' sd) = g_get k0 (g_of g sd)).
  { intros k0 Hne. unfold g'. rewrite g_of_with_same. apply g_get_cons_other. exact Hne. }
  assert (Hgk: g_get k (g_of g' sd) = Some cs) by (unfold g'; rewrite g_of_with_same; apply g_get_cons_same).
  constructor.
  - intros sd0 rel0 cs0 Hl0. destruct (Bool.bool_dec sd0 sd) as [->|Hne].
    + assert (Hl': live_get rel0 (live_del [n] (if sd then lvR else lvL)) = Some cs0) by (destruct sd; exact Hl0).
      destruct (ProvModel.path_eqb rel0 [n]) eqn:Ep.
      * apply path_eqb_eq in Ep. subst rel0. rewrite live_get_del_same in Hl'. discriminate.
      * rewrite (live_get_del_other _ _ _ Ep) in Hl'.
        destruct (d_live _ _ _ _ _ D sd rel0 cs0 Hl') as (n0 & k0 & ob0 & X1 & X2 & X3 & X4 & X5).
        assert (k0 <> k).
        { intros ->. assert (ob0 = ob) by congruence. subst ob0. assert (n0 = n) by congruence. subst. rewrite ProvWf.path_eqb_refl in Ep. discriminate. }
        exists n0, k0, ob0. rewrite Hobj, Hgt by assumption. auto 10.
    + rewrite (other_side _ _ Hne) in *.
      assert (Hl': live_get rel0 (if negb sd then lvR else lvL) = Some cs0) by (destruct sd; exact Hl0).
      destruct (d_live _ _ _ _ _ D (negb sd) rel0 cs0 Hl') as (n0 & k0 & ob0 & X1 & X2 & X3 & X4 & X5).
      exists n0, k0, ob0. rewrite Hobjo, Hgo. auto 10.
  - intros sd0 k0 cs0 Hg0. destruct (Bool.bool_dec sd0 sd) as [->|Hne].
    + destruct (Nat.eq_dec k0 k) as [->|Hnk].
      * destruct (d_used _ _ _ _ _ D sd k cs Hg) as (ob0 & n0 & X1 & X2 & X3). assert (ob0 = ob) by congruence. subst ob0.
        exists ob', n0. split; [exact Hobt|]. split; [exact X2|exact X3].
      * rewrite (Hgt k0 Hnk) in Hg0. destruct (d_used _ _ _ _ _ D sd k0 cs0 Hg0) as (ob0 & n0 & X1 & X2 & X3).
        exists ob0, n0. rewrite (Hobj k0 Hnk). auto.
    + rewrite (other_side _ _ Hne) in *. rewrite Hgo in Hg0. destruct (d_used _ _ _ _ _ D (negb sd) k0 cs0 Hg0) as (ob0 & n0 & X1 & X2 & X3).
      exists ob0, n0. rewrite Hobjo. auto.
  - intros sd0 k0 cs0 sd1 k1 cs1 ob0 ob1 Hg0 Hg1 Ho0 Ho1 Hleaf.
    assert (Hold: forall sdx kx csx obx, g_get kx (g_of g' sdx) = Some csx -> obj_at w' sdx kx = Some obx ->
              exists csz obz, g_get kx (g_of g sdx) = Some csz /\ obj_at w sdx kx = Some obz /\ ProvModel.o_path obz = ProvModel.o_path obx).
    { intros sdx kx csx obx Hgx Hox. destruct (Bool.bool_dec sdx sd) as [->|Hne].
      - destruct (Nat.eq_dec kx k) as [->|Hnk].
        + exists cs, ob. split; [exact Hg|]. split; [exact Hob|]. assert (obx = ob') by congruence. subst obx. reflexivity.
        + exists csx, obx. rewrite <- (Hgt kx Hnk), <- (Hobj kx Hnk). auto.
      - rewrite (other_side _ _ Hne) in *. exists csx, obx. rewrite <- Hgo, <- Hobjo. auto. }
    destruct (Hold _ _ _ _ Hg0 Ho0) as (c0 & z0 & X1 & X2 & X3). destruct (Hold _ _ _ _ Hg1 Ho1) as (c1 & z1 & Y1 & Y2 & Y3).
    apply (d_uniq _ _ _ _ _ D sd0 k0 c0 sd1 k1 c1 z0 z1 X1 Y1 X2 Y2). rewrite X3, Y3. exact Hleaf.
  - intros sd0 k0 cs0 ob0 Hg0 Ho0 Hl0. destruct (Bool.bool_dec sd0 sd) as [->|Hne].
    + destruct (Nat.eq_dec k0 k) as [->|Hnk].
      * exfalso. assert (ob0 = ob') by congruence. subst ob0. unfold ob' in Hl0. cbn in Hl0. discriminate.
      * rewrite (Hgt k0 Hnk) in Hg0. rewrite (Hobj k0 Hnk) in Ho0.
        destruct (d_conv _ _ _ _ _ D sd k0 cs0 ob0 Hg0 Ho0 Hl0) as (n0 & X1 & X2).
        assert (Hnn: ProvModel.path_eqb [n0] [n] = false).
        { apply ProvWf.path_eqb_false. intros X. injection X as X. subst n0.
          destruct (d_uniq _ _ _ _ _ D sd k0 cs0 sd k cs ob0 ob Hg0 Hg Ho0 Hob) as (_ & Hk); [rewrite X1, Hp; reflexivity|]. contradiction. }
        exists n0. split; [exact X1|]. destruct sd; rewrite (live_get_del_other _ _ _ Hnn); exact X2.
    + rewrite (other_side _ _ Hne) in *. rewrite Hgo in Hg0. rewrite Hobjo in Ho0.
      destruct (d_conv _ _ _ _ _ D (negb sd) k0 cs0 ob0 Hg0 Ho0 Hl0) as (n0 & X1 & X2).
      exists n0. split; [exact X1|]. destruct sd; exact X2.
Qed.

(* ------------------------------------------------------------------ runs *)
Lemma new_leaf_1 used rel : new_leaf 1 used [] rel = true -> exists n, rel = [n] /\ name_ok n = true /\ name_mem n used = false.
Proof.
  unfold new_leaf. destruct rel as [|a r]; [discriminate|]. intros H.
  apply andb_prop in H as [H Hd]. apply andb_prop in H as [Hn Hu]. apply negb_true_iff in Hu.
  destruct r as [|b r'].
  - exists a. auto.
  - exfalso. unfold dir_ok in Hd. change (removelast (a :: b :: r')) with (a :: removelast (b :: r')) in Hd. simpl in Hd. discriminate.
Qed.

Lemma NoTmp_init c t0 lg0 : NoTmp (world_init c t0 lg0).
Proof. intros e sd. unfold getx, world_init. cbn [w_x]. destruct e as [|[|e]]; destruct sd; try reflexivity; destruct e; reflexivity. Qed.

Lemma Dom_init c t0 lg0 : Dom [] [] [] g0 (world_init c t0 lg0).
Proof.
  constructor; [intros sd rel cs H; destruct sd; discriminate|intros sd k cs H; destruct sd; discriminate| |].
  - intros sd k cs sd' k' cs' ob ob' H. destruct sd; discriminate.
  - intros sd k cs ob H. destruct sd; discriminate.
Qed.

Theorem run_inv : forall acts used lvL lvR g w w',
  Inv g w -> NoTmp w -> Dom used lvL lvR g w ->
  in_F_from 1 used lvL lvR [] [] (history_of acts) = true ->
  algo_run w acts = ROk w' -> exists g', Inv g' w' /\ NoTmp w'.
Proof.
  induction acts as [|a r IH]; intros used lvL lvR g w w' I T D HF H.
  - simpl in H. injection H as <-. exists g. auto.
  - simpl in H. destruct (algo_step w a) as [[w1 cs1]|c] eqn:Es; [|discriminate]. cbn [rbind] in H.
    destruct a as [sd o|sd clk|order clk].
    + simpl in Es. injection Es as <- <-. change (history_of (AUser sd o :: r)) with ((sd, o) :: history_of r) in HF.
      destruct o as [rel d|rel d|rel|rel rel2|rel].
      * destruct sd; simpl in HF; apply andb_prop in HF as [Hnl HF]; destruct (new_leaf_1 _ _ Hnl) as (n & -> & Hnok & Hnew);
          change (leaf [n]) with n in HF.
        -- destruct (user_create_pres used lvL lvR g w true n d I T D Hnok Hnew) as (g1 & I1 & T1 & _ & D1).
           apply (IH _ _ _ g1 _ w' I1 T1 D1 HF H).
        -- destruct (user_create_pres used lvL lvR g w false n d I T D Hnok Hnew) as (g1 & I1 & T1 & _ & D1).
           apply (IH _ _ _ g1 _ w' I1 T1 D1 HF H).
      * destruct sd; simpl in HF.
        -- destruct (live_get rel lvR) as [cs|] eqn:El; [|discriminate]. apply andb_prop in HF as [Hf HF]. apply negb_true_iff in Hf.
           destruct (user_write_pres used lvL lvR g w true rel d cs I T D El Hf) as (g1 & I1 & T1 & _ & D1).
           apply (IH _ _ _ g1 _ w' I1 T1 D1 HF H).
        -- destruct (live_get rel lvL) as [cs|] eqn:El; [|discriminate]. apply andb_prop in HF as [Hf HF]. apply negb_true_iff in Hf.
           destruct (user_write_pres used lvL lvR g w false rel d cs I T D El Hf) as (g1 & I1 & T1 & _ & D1).
           apply (IH _ _ _ g1 _ w' I1 T1 D1 HF H).
      * destruct sd; simpl in HF.
        -- destruct (live_get rel lvR) as [cs|] eqn:El; [|discriminate].
           destruct (user_delete_pres used lvL lvR g w true rel cs I T D El) as (g1 & I1 & T1 & _ & D1).
           apply (IH _ _ _ g1 _ w' I1 T1 D1 HF H).
        -- destruct (live_get rel lvL) as [cs|] eqn:El; [|discriminate].
           destruct (user_delete_pres used lvL lvR g w false rel cs I T D El) as (g1 & I1 & T1 & _ & D1).
           apply (IH _ _ _ g1 _ w' I1 T1 D1 HF H).
      * simpl in HF. discriminate.
      * simpl in HF. discriminate.
    + destruct (engine_step_pres g w (AIntake sd clk) w1 cs1 I T ltac:(intros; discriminate) Es) as (I1 & T1 & O1).
      apply (IH used lvL lvR g w1 w' I1 T1 (Dom_frame _ _ _ _ _ _ O1 D) HF H).
    + destruct (engine_step_pres g w (ASync order clk) w1 cs1 I T ltac:(intros; discriminate) Es) as (I1 & T1 & O1).
      apply (IH used lvL lvR g w1 w' I1 T1 (Dom_frame _ _ _ _ _ _ O1 D) HF H).
Qed.

(* every world an in-domain history reaches, under every schedule, satisfies the coupling invariant *)
Theorem algo_inv_reachable t0 lg0 acts w :
  lg0 <= t0 + 1 -> in_F1 (cfg_std 1) (history_of acts) = true ->
  algo_run (world_init (cfg_std 1) t0 lg0) acts = ROk w -> exists g, Inv g w /\ NoTmp w.
Proof.
  intros Hlg HF H. unfold in_F1, in_F in HF. cbn in HF.
  apply (run_inv acts [] [] [] g0 _ w (init_inv t0 lg0 Hlg) (NoTmp_init _ _ _) (Dom_init _ _ _) HF H).
Qed.

(* ... and when it is quiescent, both sides hold the same tree *)
Theorem algo_quiescent_equal t0 lg0 acts w :
  lg0 <= t0 + 1 -> in_F1 (cfg_std 1) (history_of acts) = true ->
  algo_run (world_init (cfg_std 1) t0 lg0) acts = ROk w -> quiescent w = true ->
  forall rel kd d, In (rel, (kd, d)) (rel_view w false) <-> In (rel, (kd, d)) (rel_view w true).
Proof.
  intros Hlg HF H Hq. destruct (algo_inv_reachable t0 lg0 acts w Hlg HF H) as (g & I & _).
  apply (inv_quiescent_equal g w I Hq).
Qed.
