(* BackoffGenEq.v — the definitions generated from the current source of cloudsync/runnable.py (GenBackoff.v)
   are LoopModel's: the backoff step, in_backoff after the try/except around do(), the sleep selection. *)
From Coq Require Import QArith Bool.
From CS Require Import LoopModel GenBackoff.
Open Scope Q_scope.

Lemma gen_increment_backoff_eq : forall p b,
  gen_increment_backoff b (p_mult p) (p_min p) (p_max p) = increment p b.
Proof. reflexivity. Qed.

Lemma gen_after_do_eq : forall p b o, gen_after_do p b o = after_do p b o.
Proof. intros p b []; reflexivity. Qed.

Lemma gen_sleep_of_eq : forall p b, gen_sleep_of (p_sleep p) b = sleep_of p b.
Proof. reflexivity. Qed.

(* ---- the laws of the backoff step, transferred to the generated definition (proved in LoopProofs.v) *)
From Coq Require Import Qminmax Lqa.
From CS Require Import LoopProofs.

Definition mkp (mult mn mx : Q) : params := {| p_min := mn; p_max := mx; p_mult := mult; p_sleep := 0 |}.

(* min_backoff <= in_backoff' <= max_backoff whatever the previous value and the multiplier *)
Lemma gen_increment_range : forall b mult mn mx,
  mn <= mx -> mn <= gen_increment_backoff b mult mn mx /\ gen_increment_backoff b mult mn mx <= mx.
Proof. intros b mult mn mx H. exact (increment_range (mkp mult mn mx) b H). Qed.

(* the first failure waits min_backoff *)
Lemma gen_increment_first : forall b mult mn mx,
  0 < mn -> mn <= mx -> b == 0 -> gen_increment_backoff b mult mn mx == mn.
Proof. intros b mult mn mx H0 H1 H2. exact (increment_first (mkp mult mn mx) b H0 H1 H2). Qed.

(* inside [min, max] the step multiplies by mult_backoff, capped at max_backoff *)
Lemma gen_increment_step : forall b mult mn mx,
  1 <= mult -> 0 < mn -> mn <= mx -> mn <= b -> b <= mx ->
  gen_increment_backoff b mult mn mx == Qmin mx (b * mult).
Proof.
  intros b mult mn mx Hm H0 H1 Hb1 Hb2.
  apply (increment_step (mkp mult mn mx) b b Hm H0 H1 Hb1).
  change (p_max (mkp mult mn mx)) with mx.
  destruct (Q.min_spec mx b) as [[A B]|[A B]]; rewrite B; lra.
Qed.

(* a successful do() that did something leaves in_backoff at 0 (for a non-negative value); nothing_happened keeps it *)
Lemma gen_after_success_clears : forall b, 0 <= b -> gen_after_success true b == 0.
Proof.
  intros b H. unfold gen_after_success. simpl. destruct (Qltb 0 b) eqn:E; [reflexivity|].
  unfold Qltb in E. apply negb_false_iff in E. apply Qle_bool_iff in E. lra.
Qed.
Lemma gen_after_success_keeps : forall b, gen_after_success false b = b.
Proof. reflexivity. Qed.
