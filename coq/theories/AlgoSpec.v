(* AlgoSpec.v — at quiet both sides hold exactly the tree the users' operations specify: the files each user made and
   still has, each with the content written last (nothing lost, nothing invented). *)
From Coq Require Import NArith List Bool Arith Lia.
From CS Require ProvWf.
From CS Require Import Sx Str PathModel PathLaws StateModel StateProofs ProvModel ProvProofs
     AlgoModel AlgoCheck AlgoState AlgoProv AlgoPath AlgoInv AlgoInit AlgoQuiet AlgoIntake AlgoSync AlgoLatest AlgoFinish AlgoSyncEntry AlgoStep
     AlgoUser.
Import ListNotations.
Local Open Scope N_scope.

(* the bookkeeping lists a file with d as its latest content *)
Definition in_lv (lv : list (ProvModel.path * list N)) (rel : ProvModel.path) (d : N) : Prop :=
  exists r, live_get rel lv = Some (d :: r).

Lemma file_in_view g w sd k ob n :
  Inv g w -> obj_at w sd k = Some ob -> ProvModel.o_exists ob = true -> ProvModel.o_path ob = [root_name sd; n] ->
  ProvModel.o_kind ob = ProvModel.KFile -> In ([n], (ProvModel.KFile, ProvModel.o_data ob)) (rel_view w sd).
Proof.
  intros I Hob Hl Hp Hk. pose proof (i_pwf _ _ _ I sd) as W.
  apply (rel_view_live w sd [n] ProvModel.KFile (ProvModel.o_data ob) W).
  rewrite (i_cfg _ _ _ I), root_std.
  exists [root_name sd; n]. split.
  - unfold ProvModel.is_under. cbn [length firstn Nat.ltb Nat.leb andb]. unfold ProvModel.np. rewrite (pw_cs _ W). apply path_eqb_eq. reflexivity.
  - split; [reflexivity|]. exists k, ob. unfold obj_at in Hob. auto.
Qed.

Lemma view_file g w sd rel kd d :
  Inv g w -> In (rel, (kd, d)) (rel_view w sd) ->
  exists k ob n, (2 <= k)%nat /\ obj_at w sd k = Some ob /\ ProvModel.o_exists ob = true /\ ProvModel.o_path ob = [root_name sd; n] /\
                 rel = [n] /\ kd = ProvModel.KFile /\ d = ProvModel.o_data ob.
Proof.
  intros I Hin. pose proof (i_pwf _ _ _ I sd) as W.
  apply (rel_view_live w sd rel kd d W) in Hin as (q & Hu & -> & (k & ob & Hn & Hl & Hp & Hk & Hd)).
  rewrite (i_cfg _ _ _ I), root_std in *.
  destruct (is_under_root _ _ (root_name sd) q (pw_cs _ W) Hu) as (a & rest & -> & Hrest & ->).
  assert (Hk2: (2 <= k)%nat).
  { destruct k as [|[|k]]; [| |lia].
    - destruct (sh_root0 _ _ (i_shape _ _ _ I sd)) as (r0 & H0 & _ & Hp0 & _). unfold obj_at in H0. rewrite Hn in H0. injection H0 as <-. rewrite Hp in Hp0. discriminate.
    - destruct (sh_root1 _ _ (i_shape _ _ _ I sd)) as (r1 & H1 & _ & Hp1 & _). unfold obj_at in H1. rewrite Hn in H1. injection H1 as <-. rewrite Hp in Hp1.
      injection Hp1 as ->. contradiction. }
  destruct (sh_files _ _ (i_shape _ _ _ I sd) k ob Hk2 Hn) as (Hkf & n & Hpn & Hnok).
  rewrite Hp in Hpn. injection Hpn as ->.
  exists k, ob, n. repeat (split; [first [assumption|reflexivity|congruence]|]). congruence.
Qed.

(* a live engine-made object mirrors a user-made object of the other side with the same name *)
Lemma mirror_peer g w sd k ob :
  Inv g w -> (2 <= k)%nat -> obj_at w sd k = Some ob -> ProvModel.o_exists ob = true -> g_get k (g_of g sd) = None ->
  exists k' ob' cs', obj_at w (negb sd) k' = Some ob' /\ g_get k' (g_of g (negb sd)) = Some cs' /\
                     leaf (ProvModel.o_path ob) = leaf (ProvModel.o_path ob').
Proof.
  intros I Hk Hob Hl Eg.
  assert (Hlt: (k < length (ProvModel.p_heap (prov_of w sd)))%nat) by (apply nth_error_Some; unfold obj_at in Hob; congruence).
  destruct (i_cove _ _ _ I sd k Hk Hlt Eg) as (x & xn & Hxn & Hox).
  assert (Hx2: (2 <= x)%nat) by (apply (entry_ge2 _ _ _ _ _ _ _ I Hxn Hox Hk)).
  pose proof (i_ents _ _ _ I x xn Hx2 Hxn) as EOx.
  destruct (so_full _ _ _ _ _ _ (eo_side _ _ _ _ _ EOx sd) _ Hox) as (k1 & ob1 & Hk1 & Hob1 & _ & FOx).
  apply ostr_k_inj in Hk1. subst k1. assert (ob1 = ob) by congruence. subst ob1.
  assert (Hnd: is_discarded (e_ign xn) = false).
  { destruct (is_discarded (e_ign xn)) eqn:Ed; [|reflexivity]. rewrite (fo_disc _ _ _ _ _ _ _ _ FOx Ed) in Hl. discriminate. }
  destruct (fo_mirror _ _ _ _ _ _ _ _ FOx Hnd Eg) as (_ & _ & _ & _ & _ & _ & (k' & ob' & G1 & G2 & G3 & G4)).
  destruct (opt_dec (g_get k' (g_of g (negb sd)))) as [(c2 & Eg2)|Eg2]; [|contradiction].
  exists k', ob', c2. auto.
Qed.

(* ------------------------------------------------------------------ the quiescent trees are the specification *)
Theorem quiescent_is_spec used lvL lvR g w :
  Inv g w -> Dom used lvL lvR g w -> quiescent w = true ->
  forall sd rel kd d, In (rel, (kd, d)) (rel_view w sd) <-> (kd = ProvModel.KFile /\ (in_lv lvL rel d \/ in_lv lvR rel d)).
Proof.
  intros I D Hq sd rel kd d. split.
  - intros Hin.
    (* user-made on its own side: listed; engine-made: the same file lives on the other side, where it is user-made *)
    assert (Hown: forall s k ob n cs, obj_at w s k = Some ob -> ProvModel.o_exists ob = true -> ProvModel.o_path ob = [root_name s; n] ->
                  g_get k (g_of g s) = Some cs -> in_lv (if s then lvR else lvL) [n] (ProvModel.o_data ob)).
    { intros s k ob n cs Hob Hl Hp Hg. destruct (d_conv _ _ _ _ _ D s k cs ob Hg Hob Hl) as (n0 & X1 & X2).
      assert (n0 = n) by congruence. subst n0.
      destruct (i_ghost _ _ _ I s k cs Hg) as (_ & ob0 & r & Y1 & Y2). assert (ob0 = ob) by congruence. subst ob0.
      exists r. rewrite X2, Y2. reflexivity. }
    destruct (view_file g w sd rel kd d I Hin) as (k & ob & n & Hk2 & Hob & Hl & Hp & -> & -> & ->).
    split; [reflexivity|].
    destruct (opt_dec (g_get k (g_of g sd))) as [(cs & Eg)|Eg].
    + pose proof (Hown sd k ob n cs Hob Hl Hp Eg) as X. destruct sd; [right|left]; exact X.
    + pose proof (quiescent_transfer g w sd [n] ProvModel.KFile (ProvModel.o_data ob) I Hq Hin) as Hin2.
      destruct (view_file g w (negb sd) _ _ _ I Hin2) as (k2 & ob2 & n2 & Hk22 & Hob2 & Hl2 & Hp2 & Hn2 & _ & Hd2).
      injection Hn2 as <-.
      destruct (opt_dec (g_get k2 (g_of g (negb sd)))) as [(cs2 & Eg2)|Eg2].
      * pose proof (Hown (negb sd) k2 ob2 n cs2 Hob2 Hl2 Hp2 Eg2) as X. rewrite <- Hd2 in X. destruct sd; [left|right]; exact X.
      * exfalso.
        destruct (mirror_peer g w sd k ob I Hk2 Hob Hl Eg) as (ka & oba & csa & A1 & A2 & A3).
        destruct (mirror_peer g w (negb sd) k2 ob2 I Hk22 Hob2 Hl2 Eg2) as (kb & obb & csb & B1 & B2 & B3).
        rewrite negb_involutive in B1, B2.
        assert (Hlf: leaf (ProvModel.o_path oba) = leaf (ProvModel.o_path obb)).
        { rewrite <- A3, <- B3, Hp, Hp2. reflexivity. }
        destruct (d_uniq _ _ _ _ _ D (negb sd) ka csa sd kb csb oba obb A2 B2 A1 B1 Hlf) as (X & _). destruct sd; discriminate.
  - intros (-> & Hs).
    assert (Hfrom: forall (s : bool), in_lv (if s then lvR else lvL) rel d -> In (rel, (ProvModel.KFile, d)) (rel_view w s)).
    { intros s (r & Hlv). destruct (d_live _ _ _ _ _ D s rel (d :: r) Hlv) as (n & k & ob & -> & Hob & Hl & Hp & Hg).
      destruct (i_ghost _ _ _ I s k _ Hg) as (Hk2 & ob0 & r0 & Y1 & Y2). assert (ob0 = ob) by congruence. subst ob0.
      injection Y2 as Hd _. rewrite Hd.
      destruct (sh_files _ _ (i_shape _ _ _ I s) k ob Hk2 Hob) as (Hkf & _).
      apply (file_in_view g w s k ob n I Hob Hl Hp Hkf). }
    destruct Hs as [Hs|Hs].
    + pose proof (Hfrom false Hs) as X. destruct sd; [apply (quiescent_transfer g w false rel _ d I Hq X)|exact X].
    + pose proof (Hfrom true Hs) as X. destruct sd; [exact X|apply (quiescent_transfer g w true rel _ d I Hq X)].
Qed.

(* ------------------------------------------------------------------ the specification, from the history alone *)
(* the bookkeeping of the domain predicate, as a function of the history: names used, and per side the files its user
   made and still has with the contents written (latest first) *)
Fixpoint dom_after (used : list ProvModel.name) (lvL lvR : list (ProvModel.path * list N)) (h : history)
  : list ProvModel.name * list (ProvModel.path * list N) * list (ProvModel.path * list N) :=
  match h with
  | [] => (used, lvL, lvR)
  | (sd, o) :: r =>
    match o with
    | UCreate rel d => if sd then dom_after (leaf rel :: used) lvL ((rel, [d]) :: lvR) r
                       else dom_after (leaf rel :: used) ((rel, [d]) :: lvL) lvR r
    | UWrite rel d =>
      match live_get rel (if sd then lvR else lvL) with
      | Some cs => if sd then dom_after used lvL ((rel, d :: cs) :: live_del rel lvR) r
                   else dom_after used ((rel, d :: cs) :: live_del rel lvL) lvR r
      | None => (used, lvL, lvR)
      end
    | UDelete rel => if sd then dom_after used lvL (live_del rel lvR) r else dom_after used (live_del rel lvL) lvR r
    | _ => (used, lvL, lvR)
    end
  end.

Theorem run_dom : forall acts used lvL lvR g w w',
  Inv g w -> NoTmp w -> Dom used lvL lvR g w ->
  in_F_from 1 used lvL lvR [] [] (history_of acts) = true ->
  algo_run w acts = ROk w' ->
  exists g', Inv g' w' /\ NoTmp w' /\
    let '(used', lvL', lvR') := dom_after used lvL lvR (history_of acts) in Dom used' lvL' lvR' g' w'.
Proof.
  induction acts as [|a r IH]; intros used lvL lvR g w w' I T D HF H.
  - simpl in H. injection H as <-. exists g. simpl. auto.
  - simpl in H. destruct (algo_step w a) as [[w1 cs1]|c] eqn:Es; [|discriminate]. cbn [rbind] in H.
    destruct a as [sd o|sd clk|order clk].
    + simpl in Es. injection Es as <- <-. change (history_of (AUser sd o :: r)) with ((sd, o) :: history_of r) in HF |- *.
      destruct o as [rel d|rel d|rel|rel rel2|rel].
      * destruct sd; simpl in HF; apply andb_prop in HF as [Hnl HF]; destruct (new_leaf_1 _ _ Hnl) as (n & -> & Hnok & Hnew);
          change (leaf [n]) with n in HF; cbn [dom_after]; change (leaf [n]) with n.
        -- destruct (user_create_pres used lvL lvR g w true n d I T D Hnok Hnew) as (g1 & I1 & T1 & _ & D1).
           apply (IH _ _ _ g1 _ w' I1 T1 D1 HF H).
        -- destruct (user_create_pres used lvL lvR g w false n d I T D Hnok Hnew) as (g1 & I1 & T1 & _ & D1).
           apply (IH _ _ _ g1 _ w' I1 T1 D1 HF H).
      * destruct sd; simpl in HF; cbn [dom_after].
        -- destruct (live_get rel lvR) as [cs|] eqn:El; [|discriminate]. apply andb_prop in HF as [Hf HF]. apply negb_true_iff in Hf.
           destruct (user_write_pres used lvL lvR g w true rel d cs I T D El Hf) as (g1 & I1 & T1 & _ & D1).
           apply (IH _ _ _ g1 _ w' I1 T1 D1 HF H).
        -- destruct (live_get rel lvL) as [cs|] eqn:El; [|discriminate]. apply andb_prop in HF as [Hf HF]. apply negb_true_iff in Hf.
           destruct (user_write_pres used lvL lvR g w false rel d cs I T D El Hf) as (g1 & I1 & T1 & _ & D1).
           apply (IH _ _ _ g1 _ w' I1 T1 D1 HF H).
      * destruct sd; simpl in HF; cbn [dom_after].
        -- destruct (live_get rel lvR) as [cs|] eqn:El; [|discriminate].
           destruct (user_delete_pres used lvL lvR g w true rel cs I T D El) as (g1 & I1 & T1 & _ & D1).
           apply (IH _ _ _ g1 _ w' I1 T1 D1 HF H).
        -- destruct (live_get rel lvL) as [cs|] eqn:El; [|discriminate].
           destruct (user_delete_pres used lvL lvR g w false rel cs I T D El) as (g1 & I1 & T1 & _ & D1).
           apply (IH _ _ _ g1 _ w' I1 T1 D1 HF H).
      * simpl in HF. discriminate.
      * simpl in HF. discriminate.
    + destruct (engine_step_pres g w (AIntake sd clk) w1 cs1 I T ltac:(intros; discriminate) Es) as (I1 & T1 & O1).
      apply (IH used lvL lvR g w1 w' I1 T1 (Dom_frame _ _ _ _ _ _ O1 D) HF H).
    + destruct (engine_step_pres g w (ASync order clk) w1 cs1 I T ltac:(intros; discriminate) Es) as (I1 & T1 & O1).
      apply (IH used lvL lvR g w1 w' I1 T1 (Dom_frame _ _ _ _ _ _ O1 D) HF H).
Qed.

(* the files the users' operations leave, per side, as a function of the history *)
Definition spec_L (h : history) := snd (fst (dom_after [] [] [] h)).
Definition spec_R (h : history) := snd (dom_after [] [] [] h).

(* C01 / C02 / C03 at quiet, on F1: for every in-domain history and every schedule, a quiescent world holds on BOTH sides
   exactly the files the users made and still have, each with the content written last - nothing lost, nothing invented *)
Theorem algo_quiescent_spec t0 lg0 acts w :
  lg0 <= t0 + 1 -> in_F1 (cfg_std 1) (history_of acts) = true ->
  algo_run (world_init (cfg_std 1) t0 lg0) acts = ROk w -> quiescent w = true ->
  forall sd rel kd d, In (rel, (kd, d)) (rel_view w sd) <->
                      (kd = ProvModel.KFile /\ (in_lv (spec_L (history_of acts)) rel d \/ in_lv (spec_R (history_of acts)) rel d)).
Proof.
  intros Hlg HF H Hq. unfold in_F1, in_F in HF. cbn in HF.
  destruct (run_dom acts [] [] [] g0 _ w (init_inv t0 lg0 Hlg) (NoTmp_init _ _ _) (Dom_init _ _ _) HF H) as (g & I & _ & D).
  unfold spec_L, spec_R. destruct (dom_after [] [] [] (history_of acts)) as [[used lvL] lvR]. cbn [fst snd].
  apply (quiescent_is_spec used lvL lvR g w I D Hq).
Qed.

(* C02 at every moment, not only at quiet: whatever the engine is doing, a file a user made and still has is live on
   that user's own side with the content the user wrote last *)
Theorem algo_own_files_kept t0 lg0 acts w :
  lg0 <= t0 + 1 -> in_F1 (cfg_std 1) (history_of acts) = true ->
  algo_run (world_init (cfg_std 1) t0 lg0) acts = ROk w ->
  forall rel d, (in_lv (spec_L (history_of acts)) rel d -> In (rel, (ProvModel.KFile, d)) (rel_view w false)) /\
                (in_lv (spec_R (history_of acts)) rel d -> In (rel, (ProvModel.KFile, d)) (rel_view w true)).
Proof.
  intros Hlg HF H rel d. unfold in_F1, in_F in HF. cbn in HF.
  destruct (run_dom acts [] [] [] g0 _ w (init_inv t0 lg0 Hlg) (NoTmp_init _ _ _) (Dom_init _ _ _) HF H) as (g & I & _ & D).
  unfold spec_L, spec_R. destruct (dom_after [] [] [] (history_of acts)) as [[used lvL] lvR]. cbn [fst snd].
  assert (Hfrom: forall (s : bool), in_lv (if s then lvR else lvL) rel d -> In (rel, (ProvModel.KFile, d)) (rel_view w s)).
  { intros s (r & Hlv). destruct (d_live _ _ _ _ _ D s rel (d :: r) Hlv) as (n & k & ob & -> & Hob & Hl & Hp & Hg).
    destruct (i_ghost _ _ _ I s k _ Hg) as (Hk2 & ob0 & r0 & Y1 & Y2). assert (ob0 = ob) by congruence. subst ob0.
    injection Y2 as Hd _. rewrite Hd.
    destruct (sh_files _ _ (i_shape _ _ _ I s) k ob Hk2 Hob) as (Hkf & _).
    apply (file_in_view g w s k ob n I Hob Hl Hp Hkf). }
  split; [apply (Hfrom false)|apply (Hfrom true)].
Qed.
