(* ProvProofs.v — lemmas about ProvModel. *)
From Coq Require Import NArith List Bool Lia.
From CS Require Import Sx Str PathLaws ProvModel.
Import ListNotations.

Lemma path_eqb_eq a b : path_eqb a b = true <-> a = b.
Proof.
  revert b; induction a as [|x a IH]; intros [|y b]; simpl; split; intros H; try congruence; try reflexivity.
  - apply andb_true_iff in H as [H1 H2]. apply str_eqb_eq in H1. apply IH in H2. congruence.
  - inversion H; subst. apply andb_true_iff. split; [apply str_eqb_eq; reflexivity|apply IH; reflexivity].
Qed.
