(* ProvProofs.v — lemmas about ProvModel. *)
From Coq Require Import NArith List Bool Lia Arith.
From CS Require Import Sx Str PathLaws ProvModel.
Import ListNotations.

(* ------------------------------------------------------------------ equality tests *)
Lemma path_eqb_eq a b : path_eqb a b = true <-> a = b.
Proof.
  revert b; induction a as [|x a IH]; intros [|y b]; simpl; split; intros H; try congruence; try reflexivity.
  - apply andb_true_iff in H as [H1 H2]. apply str_eqb_eq in H1. apply IH in H2. congruence.
  - inversion H; subst. apply andb_true_iff. split; [apply str_eqb_eq; reflexivity|apply IH; reflexivity].
Qed.

Lemma key_eqb_eq a b : key_eqb a b = true <-> a = b.
Proof.
  destruct a as [x|p], b as [y|q]; simpl; split; intros H; try congruence.
  - apply N.eqb_eq in H. congruence.
  - inversion H. apply N.eqb_refl.
  - apply path_eqb_eq in H. congruence.
  - inversion H. apply path_eqb_eq. reflexivity.
Qed.

Lemma key_eqb_refl a : key_eqb a a = true.
Proof. apply key_eqb_eq. reflexivity. Qed.

(* ------------------------------------------------------------------ heap *)
Lemma hset_length h r o : length (hset h r o) = length h.
Proof. revert r; induction h as [|x h IH]; intros [|r]; simpl; auto. Qed.

Lemma nth_hset_same h r o : r < length h -> nth_error (hset h r o) r = Some o.
Proof. revert r; induction h as [|x h IH]; intros [|r] H; simpl in *; try lia; auto. apply IH. lia. Qed.

Lemma nth_hset_other h r q o : q <> r -> nth_error (hset h r o) q = nth_error h q.
Proof.
  revert r q; induction h as [|x h IH]; intros [|r] [|q] H; simpl; auto; try congruence.
Qed.

Lemma nth_hset h r q o x : nth_error (hset h r o) q = Some x ->
  (q = r /\ x = o /\ r < length h) \/ (q <> r /\ nth_error h q = Some x).
Proof.
  intros H. destruct (Nat.eq_dec q r) as [->|Hne].
  - left. assert (Hl : r < length h).
    { rewrite <- (hset_length h r o). apply nth_error_Some. congruence. }
    rewrite nth_hset_same in H by exact Hl. inversion H. auto.
  - right. rewrite nth_hset_other in H by exact Hne. auto.
Qed.

(* ------------------------------------------------------------------ a generic preservation principle:
   whatever is kept by the six primitive state changes is kept by every API call *)
Section Preserve.
  Variable P : prov -> Prop.
  Hypothesis P_emit : forall s e, P s -> P (emit s e).
  Hypothesis P_cursor : forall s c, P s -> P (with_cursor s c).
  Hypothesis P_alloc : forall s p kd d, P s ->
    let r := length (p_heap s) in
    let o := {| o_path := p; o_oid := if c_oidpath (p_cfg s) then KPath p else KId (N.of_nat r);
                o_kind := kd; o_data := d; o_exists := true |} in
    P (with_dict (with_heap s (p_heap s ++ [o])) (store (p_cfg s) (p_dict s) r o)).
  Hypothesis P_exists : forall s r o b, P s -> nth_error (p_heap s) r = Some o ->
    P (with_heap s (hset (p_heap s) r (set_exists o b))).
  Hypothesis P_data : forall s r o d, P s -> nth_error (p_heap s) r = Some o ->
    P (with_heap s (hset (p_heap s) r (set_data o d))).
  Hypothesis P_place : forall s r o d1 dest, P s -> nth_error (p_heap s) r = Some o ->
    unstore (p_cfg s) (p_dict s) o = Some d1 ->
    let o' := set_place o dest (if c_oidpath (p_cfg s) then KPath dest else o_oid o) in
    P (with_dict (with_heap s (hset (p_heap s) r o')) (store (p_cfg s) d1 r o')).

  Lemma get_live_nth s k r o : get_live s k = Some (r, o) -> nth_error (p_heap s) r = Some o.
  Proof.
    unfold get_live, get. destruct (dget k (p_dict s)) as [r'|]; [|discriminate].
    destruct (nth_error (p_heap s) r') as [o'|] eqn:E; [|discriminate].
    destruct (o_exists o'); [|discriminate]. intros H; inversion H; subst. exact E.
  Qed.

  Lemma P_alloc_full s p kd d : P s -> P (fst (alloc s p kd d)).
  Proof. intros H. unfold alloc. simpl. apply P_emit. apply P_alloc. exact H. Qed.

  Lemma P_create s p d : P s -> P (fst (create s p d)).
  Proof.
    intros H. unfold create.
    destruct (has_forbidden (p_cfg s) p); [exact H|].
    destruct (info_path s p); [exact H|].
    destruct (verify_parent s p); [exact H|].
    pose proof (P_alloc_full s p KFile d H) as Ha. destruct (alloc s p KFile d). exact Ha.
  Qed.

  Lemma P_mkdir s p : P s -> P (fst (mkdir s p)).
  Proof.
    intros H. unfold mkdir.
    destruct (verify_parent s p); [exact H|].
    destruct (has_forbidden (p_cfg s) p); [exact H|].
    destruct (info_path s p) as [i|]; [destruct (i_kind i); exact H|].
    pose proof (P_alloc_full s p KDir 0%N H) as Ha. destruct (alloc s p KDir 0%N). exact Ha.
  Qed.

  Lemma P_delete s k : P s -> P (fst (delete s k)).
  Proof.
    intros H. unfold delete.
    destruct (get_live s k) as [[r o]|] eqn:E; [|exact H].
    apply get_live_nth in E.
    destruct (o_kind o).
    - simpl. apply P_emit. apply P_exists; assumption.
    - destruct (listdir s (o_oid o)) as [[|? ?]|e]; simpl; try exact H.
      apply P_emit. apply P_exists; assumption.
  Qed.

  Lemma P_upload s k d : P s -> P (fst (upload s k d)).
  Proof.
    intros H. unfold upload.
    destruct (get_live s k) as [[r o]|] eqn:E; [|exact H].
    apply get_live_nth in E.
    destruct (o_kind o); simpl; [|exact H].
    apply P_emit. apply P_data; assumption.
  Qed.

  Lemma P_rename_single s r dest ev s' : P s -> rename_single s r dest ev = Some s' -> P s'.
  Proof.
    intros H. unfold rename_single.
    destruct (nth_error (p_heap s) r) as [o|] eqn:E; [|discriminate].
    destruct (unstore (p_cfg s) (p_dict s) o) as [d1|] eqn:U; [|discriminate].
    intros X; inversion X; subst; clear X.
    destruct ev; [apply P_emit|]; apply P_place; assumption.
  Qed.

  Lemma P_move_all refs : forall s old dest s', P s -> move_all s refs old dest = Some s' -> P s'.
  Proof.
    induction refs as [|q t IH]; intros s old dest s' H; simpl.
    - intros X; inversion X; subst; exact H.
    - destruct (nth_error (p_heap s) q) as [x|]; [|discriminate].
      destruct (rename_single s q (new_path old dest x) false) as [s1|] eqn:E; [|discriminate].
      intros X. apply (IH s1 old dest s'); [|exact X]. eapply P_rename_single; eassumption.
  Qed.

  Lemma P_rename s k p : P s -> P (fst (rename s k p)).
  Proof.
    intros H. unfold rename.
    destruct (get_live s k) as [[r o]|] eqn:E; [|exact H].
    set (pc := match get s (pkey s p) with
               | Some (_, x) => if key_eqb (o_oid x) k then None else if o_exists x then Some x else None
               | None => None end).
    destruct (verify_parent s p); [exact H|].
    match goal with |- context [match ?c with Some e => (s, Err e) | None => _ end] => destruct c end; [exact H|].
    assert (Hd : P (fst (match pc with Some x => delete s (o_oid x) | None => (s, Ok tt) end))).
    { destruct pc; [apply P_delete; exact H|exact H]. }
    destruct (match pc with Some x => delete s (o_oid x) | None => (s, Ok tt) end) as [s1 [u|e]]; simpl in Hd; [|exact H].
    destruct (path_eqb (o_path o) p); [exact Hd|].
    destruct p as [|n p']; [exact H|].
    assert (Hfin : forall s2, P s2 ->
       P (fst (match nth_error (p_heap s2) r with
               | None => (s2, Err EUnspecified)
               | Some o2 =>
                 if c_oidpath (p_cfg s)
                 then (if key_eqb (o_oid o2) (o_oid o) then (s2, Err EAssert) else (s2, Ok (o_oid o2)))
                 else (if key_eqb (o_oid o2) k then (s2, Ok (o_oid o2)) else (s2, Err EAssert))
               end))).
    { intros s2 H2. destruct (nth_error (p_heap s2) r) as [o2|]; [|exact H2].
      destruct (c_oidpath (p_cfg s)); [destruct (key_eqb (o_oid o2) (o_oid o))|destruct (key_eqb (o_oid o2) k)]; exact H2. }
    destruct (o_kind o).
    - destruct (rename_single s1 r (n :: p') true) as [s2|] eqn:R; [|exact Hd].
      apply Hfin. eapply P_rename_single; eassumption.
    - destruct (negb (move_specified s1 r (o_path o) (n :: p'))); [exact H|].
      destruct (move_all s1 (moved_refs s1 (o_path o)) (o_path o) (n :: p')) as [s2|] eqn:M; [|exact H].
      destruct (rename_single s2 r (n :: p') true) as [s3|] eqn:R; [|exact H].
      apply Hfin. eapply P_rename_single; [|eassumption]. eapply P_move_all; eassumption.
  Qed.

  Lemma P_step s o : P s -> P (fst (step s o)).
  Proof.
    intros H. destruct o; simpl; try exact H.
    - pose proof (P_create s p d H). destruct (create s p d) as [s1 [v|e]]; exact H0.
    - pose proof (P_mkdir s p H). destruct (mkdir s p) as [s1 [v|e]]; exact H0.
    - pose proof (P_rename s k p H). destruct (rename s k p) as [s1 [v|e]]; exact H0.
    - pose proof (P_upload s k d H). destruct (upload s k d) as [s1 [v|e]]; exact H0.
    - pose proof (P_delete s k H). destruct (delete s k) as [s1 [v|e]]; exact H0.
    - destruct (listdir s k); exact H.
    - destruct (download s k); exact H.
    - unfold read_events. destruct (Nat.leb (p_cursor s) (length (p_log s))); simpl; [apply P_cursor|]; exact H.
    - destruct c; simpl; apply P_cursor; exact H.
  Qed.

  Lemma P_run_ops ops : forall s, P s -> P (fst (run_ops s ops)).
  Proof.
    induction ops as [|o t IH]; intros s H; simpl; [exact H|].
    pose proof (P_step s o H) as H1. destruct (step s o) as [s1 r]. simpl in H1.
    pose proof (IH s1 H1) as H2. destruct (run_ops s1 t) as [s2 rs]. exact H2.
  Qed.
End Preserve.

(* ------------------------------------------------------------------ configuration never changes *)
Lemma cfg_step s o : p_cfg (fst (step s o)) = p_cfg s.
Proof.
  apply (P_step (fun s' => p_cfg s' = p_cfg s)); intros; simpl; auto.
Qed.

(* ------------------------------------------------------------------ oids: stable serial / equal to the path *)
Definition oid_inv (s : prov) : Prop :=
  forall r x, nth_error (p_heap s) r = Some x ->
    o_oid x = if c_oidpath (p_cfg s) then KPath (o_path x) else KId (N.of_nat r).

Lemma oid_inv_init c : oid_inv (init c).
Proof.
  intros r x H. simpl in H. destruct r as [|r]; simpl in H; [|destruct r; discriminate].
  inversion H; subst; simpl. reflexivity.
Qed.

Lemma oid_inv_step s o : oid_inv s -> oid_inv (fst (step s o)).
Proof.
  apply (P_step oid_inv); unfold oid_inv; simpl.
  - intros s0 e H r x Hx. apply H; exact Hx.
  - intros s0 c H r x Hx. apply H; exact Hx.
  - intros s0 p kd d H r x Hx.
    destruct (Nat.lt_ge_cases r (length (p_heap s0))) as [Hlt|Hge].
    + rewrite nth_error_app1 in Hx by exact Hlt. apply H; exact Hx.
    + rewrite nth_error_app2 in Hx by exact Hge.
      destruct (r - length (p_heap s0)) as [|m] eqn:Em; simpl in Hx; [|destruct m; discriminate].
      inversion Hx; subst; simpl. assert (r = length (p_heap s0)) by lia. subst r. reflexivity.
  - intros s0 r o0 b H Ho q x Hx. apply nth_hset in Hx as [[-> [-> _]]|[_ Hx]]; [simpl; apply H; exact Ho|apply H; exact Hx].
  - intros s0 r o0 d H Ho q x Hx. apply nth_hset in Hx as [[-> [-> _]]|[_ Hx]]; [simpl; apply H; exact Ho|apply H; exact Hx].
  - intros s0 r o0 d1 dest H Ho _ q x Hx. apply nth_hset in Hx as [[-> [-> _]]|[_ Hx]]; [|apply H; exact Hx].
    specialize (H _ _ Ho). simpl. revert H. destruct (c_oidpath (p_cfg s0)); intros H; [reflexivity|exact H].
Qed.

(* run_ops version by direct induction *)
Lemma run_ops_inv (P : prov -> Prop) :
  (forall s o, P s -> P (fst (step s o))) ->
  forall ops s, P s -> P (fst (run_ops s ops)).
Proof.
  intros Hs. induction ops as [|o t IH]; intros s H; simpl; [exact H|].
  pose proof (Hs s o H) as H1. destruct (step s o) as [s1 r]. simpl in H1.
  pose proof (IH s1 H1) as H2. destruct (run_ops s1 t) as [s2 rs]. exact H2.
Qed.

Lemma oid_inv_all c ops : oid_inv (fst (run_ops (init c) ops)).
Proof. apply run_ops_inv; [apply oid_inv_step|apply oid_inv_init]. Qed.

(* the heap only grows, cell r keeps its kind; with id-style its oid too *)
Definition heap_ext (s0 s : prov) : Prop :=
  forall r x, nth_error (p_heap s0) r = Some x ->
    exists y, nth_error (p_heap s) r = Some y /\ o_kind y = o_kind x.

Lemma heap_ext_step s0 s o : heap_ext s0 s -> heap_ext s0 (fst (step s o)).
Proof.
  apply (P_step (heap_ext s0)); unfold heap_ext; simpl.
  - intros s1 e H r x Hx. apply H; exact Hx.
  - intros s1 c H r x Hx. apply H; exact Hx.
  - intros s1 p kd d H r x Hx. destruct (H _ _ Hx) as [y [Hy Hk]]. exists y. split; [|exact Hk].
    rewrite nth_error_app1; [exact Hy|]. apply nth_error_Some. congruence.
  - intros s1 r o0 b H Ho q x Hx. destruct (H _ _ Hx) as [y [Hy Hk]].
    destruct (Nat.eq_dec q r) as [->|Hne].
    + exists (set_exists o0 b). split; [apply nth_hset_same; apply nth_error_Some; congruence|]. simpl. congruence.
    + exists y. split; [rewrite nth_hset_other by exact Hne; exact Hy|exact Hk].
  - intros s1 r o0 d H Ho q x Hx. destruct (H _ _ Hx) as [y [Hy Hk]].
    destruct (Nat.eq_dec q r) as [->|Hne].
    + exists (set_data o0 d). split; [apply nth_hset_same; apply nth_error_Some; congruence|]. simpl. congruence.
    + exists y. split; [rewrite nth_hset_other by exact Hne; exact Hy|exact Hk].
  - intros s1 r o0 d1 dest H Ho _ q x Hx. destruct (H _ _ Hx) as [y [Hy Hk]].
    destruct (Nat.eq_dec q r) as [->|Hne].
    + eexists. split; [apply nth_hset_same; apply nth_error_Some; congruence|]. simpl. congruence.
    + exists y. split; [rewrite nth_hset_other by exact Hne; exact Hy|exact Hk].
Qed.

(* ------------------------------------------------------------------ the event log is append-only *)
Definition log_ext (s0 s : prov) : Prop := exists l, p_log s = p_log s0 ++ l.

Lemma log_ext_step s0 s o : log_ext s0 s -> log_ext s0 (fst (step s o)).
Proof.
  apply (P_step (log_ext s0)); unfold log_ext; simpl; auto.
  intros s1 e [l Hl]. exists (l ++ [e]). rewrite Hl, app_assoc. reflexivity.
Qed.

Lemma log_append_only s o : exists l, p_log (fst (step s o)) = p_log s ++ l.
Proof. apply log_ext_step. exists []. rewrite app_nil_r. reflexivity. Qed.

Lemma skipn_app_exact {T} (a b : list T) : skipn (length a) (a ++ b) = b.
Proof. induction a; simpl; auto. Qed.

(* what run_ops reports for a call is exactly what the call appended *)
Lemma reported_events s o :
  p_log (fst (step s o)) = p_log s ++ skipn (length (p_log s)) (p_log (fst (step s o))).
Proof.
  destruct (log_append_only s o) as [l Hl]. rewrite Hl at 2. rewrite skipn_app_exact. exact Hl.
Qed.

(* reading: exactly log[cursor..], and the cursor moves to the end *)
Lemma read_events_spec s : p_cursor s <= length (p_log s) ->
  snd (read_events s) = skipn (p_cursor s) (p_log s) /\
  p_cursor (fst (read_events s)) = length (p_log s) /\
  p_log (fst (read_events s)) = p_log s /\
  firstn (p_cursor s) (p_log s) ++ snd (read_events s) = p_log s /\
  snd (read_events (fst (read_events s))) = [].
Proof.
  intros H. unfold read_events, events_from.
  apply Nat.leb_le in H as Hb. rewrite Hb. simpl. rewrite Nat.leb_refl. simpl.
  repeat split; auto. - apply firstn_skipn. - apply skipn_all.
Qed.

(* the cursor never passes the end of the log unless set_cursor put it there *)
Definition cursor_ok (s : prov) : Prop := p_cursor s <= length (p_log s).

(* ------------------------------------------------------------------ queries agree *)
Lemma info_exists_oid s k : (exists i, info_oid s k = Some i) <-> exists_oid s k = true.
Proof.
  unfold info_oid, exists_oid. destruct (get_live s k) as [[r o]|]; split; intros H; try discriminate; eauto.
  destruct H; discriminate.
Qed.

Lemma info_exists_path s p : (exists i, info_path s p = Some i) <-> exists_path s p = true.
Proof. apply info_exists_oid. Qed.

Lemma info_path_oid s p i : info_path s p = Some i -> info_oid s (pkey s p) = Some i.
Proof. auto. Qed.

Lemma hash_oid_info s k : hash_oid s k = match info_oid s k with Some i => i_data i | None => None end.
Proof. unfold hash_oid, info_oid. destruct (get_live s k) as [[r o]|]; reflexivity. Qed.

Lemma download_info s k d : download s k = Ok d <-> exists i, info_oid s k = Some i /\ i_data i = Some d.
Proof.
  unfold download, info_oid. destruct (get_live s k) as [[r o]|]; [|split; [discriminate|intros [i [H _]]; discriminate]].
  unfold info_of. destruct (o_kind o); simpl; split.
  - intros H; inversion H; subst. eexists; split; [reflexivity|]. reflexivity.
  - intros [i [H1 H2]]. inversion H1; subst. simpl in H2. congruence.
  - discriminate.
  - intros [i [H1 H2]]. inversion H1; subst. simpl in H2. discriminate.
Qed.

Lemma listdir_spec s k l : listdir s k = Ok l ->
  exists r o, get_live s k = Some (r, o) /\ o_kind o = KDir /\
  forall i, In i l <-> exists q x, In q (fs_refs s) /\ nth_error (p_heap s) q = Some x /\
                                   o_exists x = true /\ is_child (p_cfg s) (o_path o) (o_path x) = true /\ i = info_of x.
Proof.
  unfold listdir. destruct (get_live s k) as [[r o]|] eqn:E; [|discriminate].
  destruct (o_kind o) eqn:K; [discriminate|]. intros H; inversion H; subst; clear H.
  exists r, o. repeat split; auto.
  - intros Hi. unfold children in Hi. apply in_flat_map in Hi as [q [Hq Hi]].
    destruct (nth_error (p_heap s) q) as [x|] eqn:Ex; [|destruct Hi].
    destruct (o_exists x && is_child (p_cfg s) (o_path o) (o_path x)) eqn:B; [|destruct Hi].
    apply andb_true_iff in B as [B1 B2]. destruct Hi as [<-|[]]. exists q, x. auto.
  - intros [q [x [Hq [Ex [B1 [B2 ->]]]]]]. unfold children. apply in_flat_map. exists q. split; [exact Hq|].
    rewrite Ex, B1, B2. simpl. auto.
Qed.

(* ------------------------------------------------------------------ error classes *)
Lemma create_exists s p d i : has_forbidden (p_cfg s) p = false -> info_path s p = Some i ->
  create s p d = (s, Err EExists).
Proof. intros H1 H2. unfold create. rewrite H1, H2. reflexivity. Qed.

Lemma create_name_error s p d : has_forbidden (p_cfg s) p = true -> create s p d = (s, Err ENameError).
Proof. intros H. unfold create. rewrite H. reflexivity. Qed.

Lemma verify_parent_missing s p a b : info_path s (removelast (a :: b :: p)) = None ->
  verify_parent s (a :: b :: p) = Some ENotFound.
Proof. intros H. unfold verify_parent. rewrite H. reflexivity. Qed.

Lemma verify_parent_file s p a b i : info_path s (removelast (a :: b :: p)) = Some i -> i_kind i = KFile ->
  verify_parent s (a :: b :: p) = Some EExists.
Proof. intros H K. unfold verify_parent. rewrite H, K. reflexivity. Qed.

Lemma create_parent_error s p d e : has_forbidden (p_cfg s) p = false -> info_path s p = None ->
  verify_parent s p = Some e -> create s p d = (s, Err e).
Proof. intros H1 H2 H3. unfold create. rewrite H1, H2, H3. reflexivity. Qed.

Lemma mkdir_parent_error s p e : verify_parent s p = Some e -> mkdir s p = (s, Err e).
Proof. intros H. unfold mkdir. rewrite H. reflexivity. Qed.

Lemma mkdir_over_file s p i : verify_parent s p = None -> has_forbidden (p_cfg s) p = false ->
  info_path s p = Some i -> i_kind i = KFile -> mkdir s p = (s, Err EExists).
Proof. intros H1 H2 H3 H4. unfold mkdir. rewrite H1, H2, H3, H4. reflexivity. Qed.

Lemma mkdir_existing_folder s p i : verify_parent s p = None -> has_forbidden (p_cfg s) p = false ->
  info_path s p = Some i -> i_kind i = KDir -> mkdir s p = (s, Ok (i_oid i)).
Proof. intros H1 H2 H3 H4. unfold mkdir. rewrite H1, H2, H3, H4. reflexivity. Qed.

Lemma delete_missing s k : get_live s k = None -> delete s k = (s, Ok tt).
Proof. intros H. unfold delete. rewrite H. reflexivity. Qed.

Lemma delete_not_empty s k r o i l : get_live s k = Some (r, o) -> o_kind o = KDir ->
  listdir s (o_oid o) = Ok (i :: l) -> delete s k = (s, Err ENotEmpty).
Proof. intros H1 H2 H3. unfold delete. rewrite H1, H2, H3. reflexivity. Qed.

Lemma upload_missing s k d : get_live s k = None -> upload s k d = (s, Err ENotFound).
Proof. intros H. unfold upload. rewrite H. reflexivity. Qed.

Lemma upload_folder s k d r o : get_live s k = Some (r, o) -> o_kind o = KDir -> upload s k d = (s, Err EExists).
Proof. intros H1 H2. unfold upload. rewrite H1, H2. reflexivity. Qed.

Lemma download_missing s k : get_live s k = None -> download s k = Err ENotFound.
Proof. intros H. unfold download. rewrite H. reflexivity. Qed.

Lemma listdir_missing s k : get_live s k = None -> listdir s k = Err ENotFound.
Proof. intros H. unfold listdir. rewrite H. reflexivity. Qed.

Lemma info_oid_missing s k : get_live s k = None -> info_oid s k = None.
Proof. intros H. unfold info_oid. rewrite H. reflexivity. Qed.

Lemma rename_missing s k p : get_live s k = None -> rename s k p = (s, Err ENotFound).
Proof. intros H. unfold rename. rewrite H. reflexivity. Qed.

Lemma rename_parent_error s k p r o e : get_live s k = Some (r, o) -> verify_parent s p = Some e ->
  rename s k p = (s, Err e).
Proof. intros H1 H2. unfold rename. rewrite H1, H2. reflexivity. Qed.

(* the object found at the target: another live object *)
Definition conflict_at (s : prov) (k : key) (p : path) : option obj :=
  match get s (pkey s p) with
  | Some (_, x) => if key_eqb (o_oid x) k then None else (if o_exists x then Some x else None)
  | None => None
  end.

Lemma rename_conflict_kind s k p r o x : get_live s k = Some (r, o) -> verify_parent s p = None ->
  conflict_at s k p = Some x -> okind_eqb (o_kind x) (o_kind o) = false -> rename s k p = (s, Err EExists).
Proof.
  intros H1 H2 H3 H4. unfold rename. rewrite H1, H2. unfold conflict_at in H3. rewrite H3. rewrite H4. reflexivity.
Qed.

Lemma rename_over_file s k p r o x : get_live s k = Some (r, o) -> verify_parent s p = None ->
  conflict_at s k p = Some x -> o_kind x = KFile -> o_kind o = KFile -> rename s k p = (s, Err EExists).
Proof.
  intros H1 H2 H3 H4 H5. unfold rename. rewrite H1, H2. unfold conflict_at in H3. rewrite H3. rewrite H4, H5. reflexivity.
Qed.

Lemma rename_over_nonempty s k p r o x i l : get_live s k = Some (r, o) -> verify_parent s p = None ->
  conflict_at s k p = Some x -> o_kind x = KDir -> o_kind o = KDir ->
  listdir s (o_oid x) = Ok (i :: l) -> rename s k p = (s, Err ENotEmpty).
Proof.
  intros H1 H2 H3 H4 H5 H6. unfold rename. rewrite H1, H2. unfold conflict_at in H3. rewrite H3. rewrite H4, H5.
  simpl. rewrite H6. reflexivity.
Qed.

(* ------------------------------------------------------------------ events of successful mutations *)
Lemma create_event s p d s' i : create s p d = (s', Ok i) ->
  exists e, p_log s' = p_log s ++ [e] /\ e_kind e = EvCreate /\ e_oid e = i_oid i /\ e_path e = p /\
            i_path i = p /\ e_exists e = true /\ i_data i = Some d.
Proof.
  unfold create. destruct (has_forbidden (p_cfg s) p); [discriminate|].
  destruct (info_path s p); [discriminate|]. destruct (verify_parent s p); [discriminate|].
  unfold alloc. intros H; inversion H; subst; clear H. simpl.
  eexists; repeat split; reflexivity.
Qed.

Lemma mkdir_event s p s' k : mkdir s p = (s', Ok k) ->
  (s' = s /\ exists i, info_path s p = Some i /\ i_kind i = KDir /\ i_oid i = k) \/
  exists e, p_log s' = p_log s ++ [e] /\ e_kind e = EvCreate /\ e_oid e = k /\ e_path e = p /\ e_exists e = true.
Proof.
  unfold mkdir. destruct (verify_parent s p); [discriminate|].
  destruct (has_forbidden (p_cfg s) p); [discriminate|].
  destruct (info_path s p) as [i|] eqn:E.
  - destruct (i_kind i) eqn:K; [discriminate|]. intros H; inversion H; subst. left. split; [reflexivity|]. eauto.
  - unfold alloc. intros H; inversion H; subst; clear H. right. simpl. eexists; repeat split; reflexivity.
Qed.

Lemma upload_event s k d s' i : upload s k d = (s', Ok i) ->
  exists e, p_log s' = p_log s ++ [e] /\ e_kind e = EvUpdate /\ e_oid e = i_oid i /\ e_exists e = true /\
            i_data i = Some d.
Proof.
  unfold upload. destruct (get_live s k) as [[r o]|] eqn:E; [|discriminate].
  destruct (o_kind o) eqn:K; [|discriminate]. intros H; inversion H; subst; clear H. simpl.
  eexists; repeat split; try reflexivity.
  - simpl. unfold get_live in E. destruct (get s k) as [[r' o']|]; [|discriminate].
    destruct (o_exists o') eqn:X; [|discriminate]. inversion E; subst. exact X.
  - unfold info_of. simpl. rewrite K. reflexivity.
Qed.

Lemma delete_event s k s' : delete s k = (s', Ok tt) ->
  (s' = s /\ get_live s k = None) \/
  exists r o e, get_live s k = Some (r, o) /\ p_log s' = p_log s ++ [e] /\ e_kind e = EvDelete /\
                e_oid e = o_oid o /\ e_exists e = false /\
                nth_error (p_heap s') r = Some (set_exists o false).
Proof.
  unfold delete. destruct (get_live s k) as [[r o]|] eqn:E; [|intros H; inversion H; auto].
  assert (Hr : r < length (p_heap s)).
  { apply get_live_nth in E. apply nth_error_Some. congruence. }
  assert (G : forall s2, (emit (with_heap s (hset (p_heap s) r (set_exists o false))) (snapshot EvDelete (set_exists o false) None), @Ok unit tt) = (s2, Ok tt) ->
     exists r0 o0 e, Some (r, o) = Some (r0, o0) /\ p_log s2 = p_log s ++ [e] /\ e_kind e = EvDelete /\
                e_oid e = o_oid o0 /\ e_exists e = false /\ nth_error (p_heap s2) r0 = Some (set_exists o0 false)).
  { intros s2 H; inversion H; subst; clear H. exists r, o. eexists. simpl. repeat split; try reflexivity.
    apply nth_hset_same. exact Hr. }
  destruct (o_kind o).
  - intros H. right. apply G. exact H.
  - destruct (listdir s (o_oid o)) as [[|? ?]|?]; try discriminate. intros H. right. apply G. exact H.
Qed.

(* ------------------------------------------------------------------ Provider.connect *)
Lemma connect_refuses_other_identity ident c creds i :
  cn_id c = Some i -> ident creds <> i ->
  snd (connect ident c (Some creds)) = CRToken /\ connected (fst (connect ident c (Some creds))) = false /\
  cn_id (fst (connect ident c (Some creds))) = Some i.
Proof.
  intros H Hne. unfold connect. simpl. rewrite H.
  destruct (N.eqb i (ident creds)) eqn:E; [apply N.eqb_eq in E; congruence|]. simpl. auto.
Qed.

Lemma connect_accepts_same_identity ident c creds i :
  cn_id c = Some i -> ident creds = i ->
  snd (connect ident c (Some creds)) = CROk /\ connected (fst (connect ident c (Some creds))) = true.
Proof.
  intros H He. unfold connect. simpl. rewrite H. rewrite <- He, N.eqb_refl. simpl. auto.
Qed.

Lemma connect_first ident c creds : cn_id c = None ->
  snd (connect ident c (Some creds)) = CROk /\ connected (fst (connect ident c (Some creds))) = true /\
  cn_id (fst (connect ident c (Some creds))) = Some (ident creds).
Proof. intros H. unfold connect. simpl. rewrite H. simpl. auto. Qed.

(* the identity a provider is bound to never changes through connect/disconnect/reconnect *)
Lemma identity_sticks ident c o i : cn_id c = Some i -> (forall j, o <> CSetId j) ->
  cn_id (fst (cstep ident c o)) = Some i.
Proof.
  intros H Hn. destruct o as [creds| | |j]; simpl; auto.
  - unfold connect. destruct creds as [cr|]; simpl; [|exact H]. rewrite H. destruct (N.eqb i (ident cr)); reflexivity.
  - destruct (cn_connected c); [exact H|]. unfold connect. destruct (cn_creds c) as [cr|]; simpl; [|exact H].
    rewrite H. destruct (N.eqb i (ident cr)); reflexivity.
  - exfalso. apply (Hn j). reflexivity.
Qed.

(* ------------------------------------------------------------------ hash law *)
Section Hash.
  Variable hash : Type.
  Variable H : N -> hash.
  Definition info_hash (i : info) : option hash := option_map H (i_data i).

  (* what info reports is the hash of what download delivers *)
  Lemma hash_law s k i d : info_oid s k = Some i -> download s k = Ok d -> info_hash i = Some (H d).
  Proof.
    intros Hi Hd. apply download_info in Hd as [i' [Hi' Hd]]. rewrite Hi in Hi'. inversion Hi'; subst.
    unfold info_hash. rewrite Hd. reflexivity.
  Qed.

  Lemma hash_oid_law s k d : download s k = Ok d -> option_map H (hash_oid s k) = Some (H d).
  Proof.
    intros Hd. apply download_info in Hd as [i [Hi Hd]]. rewrite hash_oid_info, Hi, Hd. reflexivity.
  Qed.

  Hypothesis H_inj : forall a b, H a = H b -> a = b.

  Lemma hash_eq_iff s1 s2 k1 k2 i1 i2 d1 d2 :
    info_oid s1 k1 = Some i1 -> download s1 k1 = Ok d1 ->
    info_oid s2 k2 = Some i2 -> download s2 k2 = Ok d2 ->
    (info_hash i1 = info_hash i2 <-> d1 = d2).
  Proof.
    intros A1 B1 A2 B2. rewrite (hash_law _ _ _ _ A1 B1), (hash_law _ _ _ _ A2 B2). split.
    - intros E. inversion E. apply H_inj. assumption.
    - intros ->. reflexivity.
  Qed.
End Hash.
