(* TreePaths.v — small library about component paths: path_eqb / is_prefix / strict_prefix /
   comparable reflect the propositions  p = q,  [pre p q] (exists s, q = p ++ s), ...
   Used by TreeLookup / TreeSem / TreeProofs. *)
From Coq Require Import NArith List Bool Lia.
From CS Require Import Sx TreeModel.
Import ListNotations.

Lemma bool_eq_iff (b c : bool) : (b = true <-> c = true) -> b = c.
Proof. destruct b, c; intros [H1 H2]; try reflexivity; [symmetry; apply H1|apply H2]; reflexivity. Qed.

(* ------------------------------------------------------------------ path_eqb *)
Lemma path_eqb_eq p q : path_eqb p q = true <-> p = q.
Proof.
  revert q; induction p as [|x p IH]; intros [|y q]; simpl; split; intros H;
    try reflexivity; try discriminate.
  - apply andb_true_iff in H as [H1 H2]. apply N.eqb_eq in H1. apply IH in H2. congruence.
  - inversion H; subst. rewrite N.eqb_refl. simpl. apply IH. reflexivity.
Qed.

Lemma path_eqb_refl p : path_eqb p p = true.
Proof. apply path_eqb_eq. reflexivity. Qed.

Lemma path_eqb_neq p q : path_eqb p q = false <-> p <> q.
Proof.
  rewrite <- path_eqb_eq. destruct (path_eqb p q); split; intros H; try congruence;
    try (exfalso; apply H; reflexivity).
Qed.

Lemma path_eqb_sym p q : path_eqb p q = path_eqb q p.
Proof. apply bool_eq_iff. rewrite !path_eqb_eq. split; congruence. Qed.

Lemma path_eqb_app_cancel a p q : path_eqb (a ++ p) (a ++ q) = path_eqb p q.
Proof.
  apply bool_eq_iff. rewrite !path_eqb_eq. split; intros H; [|congruence].
  apply app_inv_head in H. exact H.
Qed.

(* ------------------------------------------------------------------ prefixes as propositions *)
Definition pre (p q : path) : Prop := exists s, q = p ++ s.

Lemma is_prefix_iff p q : is_prefix p q = true <-> pre p q.
Proof.
  revert q; induction p as [|x p IH]; intros q; simpl.
  - split; [intros _; exists q; reflexivity|reflexivity].
  - destruct q as [|y q].
    + split; [discriminate|intros [s Hs]; discriminate].
    + rewrite andb_true_iff, N.eqb_eq, IH. split.
      * intros [Hx [s Hs]]. subst. exists s. reflexivity.
      * intros [s Hs]. simpl in Hs. inversion Hs; subst. split; [reflexivity|exists s; reflexivity].
Qed.

Lemma is_prefix_false_iff p q : is_prefix p q = false <-> ~ pre p q.
Proof.
  rewrite <- is_prefix_iff. destruct (is_prefix p q); split; intros H; try congruence;
    try (exfalso; apply H; reflexivity).
Qed.

Lemma pre_refl p : pre p p.
Proof. exists []. rewrite app_nil_r. reflexivity. Qed.

Lemma pre_nil q : pre [] q.
Proof. exists q. reflexivity. Qed.

Lemma pre_app p s : pre p (p ++ s).
Proof. exists s. reflexivity. Qed.

Lemma pre_app2 p s u : pre p ((p ++ s) ++ u).
Proof. exists (s ++ u). rewrite app_assoc. reflexivity. Qed.

Lemma pre_trans p q r : pre p q -> pre q r -> pre p r.
Proof. intros [s Hs] [u Hu]. subst. exists (s ++ u). rewrite app_assoc. reflexivity. Qed.

Lemma pre_nil_r p : pre p [] -> p = [].
Proof. intros [s Hs]. symmetry in Hs. apply app_eq_nil in Hs. tauto. Qed.

Lemma pre_app_cancel a p q : pre (a ++ p) (a ++ q) <-> pre p q.
Proof.
  split; intros [s Hs].
  - rewrite <- app_assoc in Hs. apply app_inv_head in Hs. exists s. exact Hs.
  - subst. exists s. rewrite app_assoc. reflexivity.
Qed.

Lemma is_prefix_app_cancel a p q : is_prefix (a ++ p) (a ++ q) = is_prefix p q.
Proof. apply bool_eq_iff. rewrite !is_prefix_iff. apply pre_app_cancel. Qed.

Lemma is_prefix_refl p : is_prefix p p = true.
Proof. apply is_prefix_iff, pre_refl. Qed.

Lemma is_prefix_app p s : is_prefix p (p ++ s) = true.
Proof. apply is_prefix_iff, pre_app. Qed.

Lemma pre_antisym p q : pre p q -> pre q p -> p = q.
Proof.
  intros [s Hs] [u Hu]. subst q. rewrite <- app_assoc in Hu.
  assert (Hl : length p = length (p ++ s ++ u)) by (rewrite <- Hu; reflexivity).
  rewrite !app_length in Hl. destruct s as [|x s]; [rewrite app_nil_r; reflexivity|].
  simpl in Hl. lia.
Qed.

(* two prefixes of the same path are comparable *)
Lemma pre_comparable a b c : pre a c -> pre b c -> pre a b \/ pre b a.
Proof.
  revert b c; induction a as [|x a IH]; intros b c Ha Hb.
  - left. apply pre_nil.
  - destruct b as [|y b]; [right; apply pre_nil|].
    destruct Ha as [s Hs], Hb as [u Hu]. subst c. simpl in Hu. inversion Hu; subst.
    destruct (IH b (a ++ s)) as [H|H].
    + apply pre_app.
    + exists u. assumption.
    + left. destruct H as [w Hw]. exists w. simpl. congruence.
    + right. destruct H as [w Hw]. exists w. simpl. congruence.
Qed.

Lemma skipn_app_len (p s : path) : skipn (length p) (p ++ s) = s.
Proof. induction p as [|x p IH]; simpl; [reflexivity|exact IH]. Qed.

Lemma skipn_app_len2 (a p s : path) : skipn (length (a ++ p)) (a ++ p ++ s) = s.
Proof. rewrite app_assoc. apply skipn_app_len. Qed.

Lemma pre_skipn p q : pre p q -> q = p ++ skipn (length p) q.
Proof. intros [s Hs]. subst. rewrite skipn_app_len. reflexivity. Qed.

(* ------------------------------------------------------------------ strict prefix *)
Lemma strict_prefix_iff p q : strict_prefix p q = true <-> exists s, s <> [] /\ q = p ++ s.
Proof.
  unfold strict_prefix. rewrite andb_true_iff, negb_true_iff, is_prefix_iff, path_eqb_neq. split.
  - intros [[s Hs] Hne]. exists s. split; [|exact Hs]. intros Hnil. subst. rewrite app_nil_r in Hne. congruence.
  - intros [s [Hne Hs]]. split; [exists s; exact Hs|]. intros Heq. subst q.
    rewrite <- (app_nil_r p) in Heq at 1. apply app_inv_head in Heq. congruence.
Qed.

Lemma strict_prefix_app p s : s <> [] -> strict_prefix p (p ++ s) = true.
Proof. intros H. apply strict_prefix_iff. exists s. split; [exact H|reflexivity]. Qed.

Lemma strict_prefix_false_app p s : strict_prefix p (p ++ s) = false -> s = [].
Proof.
  intros H. destruct s as [|x s]; [reflexivity|].
  rewrite strict_prefix_app in H; [discriminate|discriminate].
Qed.

(* ------------------------------------------------------------------ parent *)
Lemma parent_last p x : parent (p ++ [x]) = p.
Proof. unfold parent. apply removelast_last. Qed.

Lemma parent_split p : p <> [] -> exists x, p = parent p ++ [x].
Proof. intros H. exists (last p 0%N). unfold parent. apply app_removelast_last. exact H. Qed.

Lemma parent_app a p : p <> [] -> parent (a ++ p) = a ++ parent p.
Proof. intros H. unfold parent. apply removelast_app. exact H. Qed.

Lemma pre_parent p : pre (parent p) p.
Proof.
  destruct p as [|x p]; [apply pre_refl|].
  destruct (parent_split (x :: p)) as [y Hy]; [discriminate|].
  exists [y]. exact Hy.
Qed.

Lemma parent_neq p : p <> [] -> parent p <> p.
Proof.
  intros H Heq. destruct (parent_split p H) as [x Hx]. rewrite Heq in Hx.
  assert (Hl : length p = length (p ++ [x])) by (rewrite <- Hx; reflexivity).
  rewrite app_length in Hl. simpl in Hl. lia.
Qed.

(* a proper extension of p has p as a prefix of its parent *)
Lemma pre_parent_of_strict p s : s <> [] -> pre p (parent (p ++ s)).
Proof. intros H. rewrite parent_app by exact H. apply pre_app. Qed.

Lemma app_nonnil_l (a b : path) : a <> [] -> a ++ b <> [].
Proof. intros H Hn. apply app_eq_nil in Hn. tauto. Qed.

Lemma app_nonnil_r (a b : path) : b <> [] -> a ++ b <> [].
Proof. intros H Hn. apply app_eq_nil in Hn. tauto. Qed.

(* ------------------------------------------------------------------ comparable / indep *)
Lemma comparable_false_iff p q : comparable p q = false <-> ~ pre p q /\ ~ pre q p.
Proof. unfold comparable. rewrite orb_false_iff, !is_prefix_false_iff. tauto. Qed.

Lemma comparable_sym p q : comparable p q = comparable q p.
Proof. unfold comparable. apply orb_comm. Qed.
