(* TreeLookup.v — what remove / set / move / view / outside / has_children mean in terms of
   [lookup]; extensional equivalence [teq]; well-formedness [wf] = unique keys + parent-closed. *)
From Coq Require Import NArith List Bool Lia Permutation.
From CS Require Import Sx TreeModel TreePaths.
Import ListNotations.

Definition teq (a b : tree) : Prop := forall p, lookup a p = lookup b p.

Lemma teq_refl a : teq a a.
Proof. intros p. reflexivity. Qed.
Lemma teq_sym a b : teq a b -> teq b a.
Proof. intros H p. symmetry. apply H. Qed.
Lemma teq_trans a b c : teq a b -> teq b c -> teq a c.
Proof. intros H1 H2 p. rewrite H1. apply H2. Qed.

(* every stored object has a non-root path and lives in an existing folder *)
Definition closed (t : tree) : Prop :=
  forall k, lookup t k <> None -> k <> [] /\ is_dir t (parent k) = true.

Definition wf (t : tree) : Prop := NoDup (map fst t) /\ closed t.

(* ------------------------------------------------------------------ lookup of the list operations *)
Lemma lookup_filter (g : path -> bool) t r :
  lookup (filter (fun e => g (fst e)) t) r = if g r then lookup t r else None.
Proof.
  induction t as [|[k n] t IH]; simpl.
  - destruct (g r); reflexivity.
  - destruct (g k) eqn:Hg; simpl.
    + destruct (path_eqb k r) eqn:E; [|exact IH].
      apply path_eqb_eq in E. subst. rewrite Hg. reflexivity.
    + destruct (path_eqb k r) eqn:E; [|exact IH].
      apply path_eqb_eq in E. subst. rewrite Hg in IH. rewrite Hg. exact IH.
Qed.

Lemma lookup_remove t p q : lookup (remove t p) q = if path_eqb p q then None else lookup t q.
Proof.
  unfold remove. rewrite (lookup_filter (fun k => negb (path_eqb k p))).
  rewrite (path_eqb_sym q p). destruct (path_eqb p q); reflexivity.
Qed.

Lemma lookup_outside root t r :
  lookup (outside root t) r = if strict_prefix root r then None else lookup t r.
Proof.
  unfold outside. rewrite (lookup_filter (fun k => negb (strict_prefix root k))).
  destruct (strict_prefix root r); reflexivity.
Qed.

Lemma lookup_app t u q :
  lookup (t ++ u) q = match lookup t q with Some n => Some n | None => lookup u q end.
Proof.
  induction t as [|[k n] t IH]; simpl; [reflexivity|].
  destruct (path_eqb k q); [reflexivity|exact IH].
Qed.

Lemma lookup_set t p n q : lookup (set t p n) q = if path_eqb p q then Some n else lookup t q.
Proof.
  unfold set. rewrite lookup_app, lookup_remove. simpl.
  destruct (path_eqb p q); [reflexivity|]. destruct (lookup t q); reflexivity.
Qed.

Lemma lookup_keys t k : lookup t k <> None <-> In k (map fst t).
Proof.
  induction t as [|[q n] t IH]; simpl.
  - split; [congruence|tauto].
  - destruct (path_eqb q k) eqn:E.
    + apply path_eqb_eq in E. split; [intros _; left; exact E|congruence].
    + apply path_eqb_neq in E. rewrite IH. split; [tauto|]. intros [H|H]; [congruence|exact H].
Qed.

Lemma lookup_none_keys t k : lookup t k = None <-> ~ In k (map fst t).
Proof.
  rewrite <- lookup_keys. destruct (lookup t k); split; intros H; try congruence.
  exfalso. apply H. congruence.
Qed.

Lemma lookup_In t k n : lookup t k = Some n -> In (k, n) t.
Proof.
  induction t as [|[q m] t IH]; simpl; [discriminate|].
  destruct (path_eqb q k) eqn:E.
  - apply path_eqb_eq in E. intros H. inversion H; subst. left. reflexivity.
  - intros H. right. apply IH. exact H.
Qed.

Lemma In_lookup t k n : NoDup (map fst t) -> In (k, n) t -> lookup t k = Some n.
Proof.
  induction t as [|[q m] t IH]; simpl; intros Hnd Hin; [tauto|].
  inversion Hnd as [|x l Hnot Hnd']; subst.
  destruct Hin as [H|H].
  - inversion H; subst. rewrite path_eqb_refl. reflexivity.
  - destruct (path_eqb q k) eqn:E.
    + apply path_eqb_eq in E. subst. exfalso. apply Hnot.
      change k with (fst (k, n)). apply in_map. exact H.
    + apply IH; assumption.
Qed.

Lemma has_children_iff t p :
  has_children t p = true <-> exists s, s <> [] /\ lookup t (p ++ s) <> None.
Proof.
  unfold has_children. rewrite existsb_exists. split.
  - intros [[k n] [Hin Hs]]. simpl in Hs. apply strict_prefix_iff in Hs as [s [Hne Hk]].
    exists s. split; [exact Hne|]. subst k. apply lookup_keys.
    change (p ++ s) with (fst (p ++ s, n)). apply in_map. exact Hin.
  - intros [s [Hne Hl]]. apply lookup_keys in Hl. apply in_map_iff in Hl as [[k n] [Hk Hin]].
    simpl in Hk. subst k. exists (p ++ s, n). split; [exact Hin|]. simpl.
    apply strict_prefix_app. exact Hne.
Qed.

Lemma has_children_false t p s :
  has_children t p = false -> s <> [] -> lookup t (p ++ s) = None.
Proof.
  intros H Hne. destruct (lookup t (p ++ s)) eqn:E; [|reflexivity].
  assert (Hc : has_children t p = true).
  { apply has_children_iff. exists s. split; [exact Hne|congruence]. }
  congruence.
Qed.

(* move: no unique-key assumption needed, only that nothing is stored at or below the target *)
Lemma lookup_move t p q r :
  (forall k, pre q k -> lookup t k = None) ->
  lookup (move t p q) r =
    if is_prefix q r then lookup t (p ++ skipn (length q) r)
    else if is_prefix p r then None else lookup t r.
Proof.
  induction t as [|[k n] t IH]; intros Hq.
  - simpl. destruct (is_prefix q r); [reflexivity|]. destruct (is_prefix p r); reflexivity.
  - assert (Hq' : forall k0, pre q k0 -> lookup t k0 = None).
    { intros k0 Hk0. specialize (Hq k0 Hk0). simpl in Hq.
      destruct (path_eqb k k0); [discriminate|exact Hq]. }
    assert (Hkq : ~ pre q k).
    { intros Hk. specialize (Hq k Hk). simpl in Hq. rewrite path_eqb_refl in Hq. discriminate. }
    specialize (IH Hq').
    unfold move in *. simpl map. cbv beta. simpl fst. simpl snd.
    destruct (is_prefix q r) eqn:Eqr.
    + apply is_prefix_iff in Eqr as [s Hs]. subst r. rewrite skipn_app_len in *.
      destruct (is_prefix p k) eqn:Epk.
      * apply is_prefix_iff in Epk as [u Hu]. subst k. rewrite skipn_app_len.
        simpl lookup. simpl fst. rewrite !path_eqb_app_cancel.
        destruct (path_eqb u s); [reflexivity|exact IH].
      * apply is_prefix_false_iff in Epk. simpl lookup.
        replace (path_eqb k (q ++ s)) with false.
        2:{ symmetry. apply path_eqb_neq. intros ->. apply Hkq. apply pre_app. }
        replace (path_eqb k (p ++ s)) with false.
        2:{ symmetry. apply path_eqb_neq. intros ->. apply Epk. apply pre_app. }
        exact IH.
    + apply is_prefix_false_iff in Eqr.
      destruct (is_prefix p r) eqn:Epr.
      * apply is_prefix_iff in Epr.
        destruct (is_prefix p k) eqn:Epk.
        -- apply is_prefix_iff in Epk as [u Hu]. subst k. rewrite skipn_app_len.
           simpl lookup. simpl fst.
           replace (path_eqb (q ++ u) r) with false; [exact IH|].
           symmetry. apply path_eqb_neq. intros <-. apply Eqr. apply pre_app.
        -- apply is_prefix_false_iff in Epk. simpl lookup.
           replace (path_eqb k r) with false; [exact IH|].
           symmetry. apply path_eqb_neq. intros ->. tauto.
      * apply is_prefix_false_iff in Epr.
        destruct (is_prefix p k) eqn:Epk.
        -- apply is_prefix_iff in Epk. destruct Epk as [u Hu]. subst k. rewrite skipn_app_len.
           simpl lookup. simpl fst.
           replace (path_eqb (q ++ u) r) with false.
           2:{ symmetry. apply path_eqb_neq. intros <-. apply Eqr. apply pre_app. }
           replace (path_eqb (p ++ u) r) with false.
           2:{ symmetry. apply path_eqb_neq. intros <-. apply Epr. apply pre_app. }
           exact IH.
        -- simpl lookup. destruct (path_eqb k r); [reflexivity|exact IH].
Qed.

Lemma lookup_view root t r :
  lookup (view root t) r = match r with [] => None | _ => lookup t (root ++ r) end.
Proof.
  induction t as [|[k n] t IH].
  - simpl. destruct r; reflexivity.
  - unfold view in *. simpl flat_map. simpl fst. simpl snd.
    destruct (strict_prefix root k) eqn:Es.
    + apply strict_prefix_iff in Es as [u [Hu Hk]]. subst k. rewrite skipn_app_len.
      simpl app. simpl lookup. rewrite IH.
      destruct r as [|x r].
      * replace (path_eqb u []) with false; [reflexivity|].
        symmetry. apply path_eqb_neq. exact Hu.
      * rewrite path_eqb_app_cancel. reflexivity.
    + simpl app. rewrite IH. destruct r as [|x r]; [reflexivity|].
      simpl lookup. replace (path_eqb k (root ++ x :: r)) with false; [reflexivity|].
      symmetry. apply path_eqb_neq. intros ->.
      rewrite strict_prefix_app in Es; discriminate.
Qed.

(* ------------------------------------------------------------------ unique keys are preserved *)
Lemma NoDup_map_filter {A B} (g : A -> B) (f : A -> bool) l :
  NoDup (map g l) -> NoDup (map g (filter f l)).
Proof.
  induction l as [|x l IH]; simpl; intros H; [constructor|].
  inversion H as [|y m Hnot Hnd]; subst.
  destruct (f x); simpl; [|apply IH; exact Hnd].
  constructor; [|apply IH; exact Hnd].
  intros Hin. apply Hnot. apply in_map_iff in Hin as [z [Hz Hin]].
  apply filter_In in Hin as [Hin _]. apply in_map_iff. exists z. split; assumption.
Qed.

Lemma nodup_remove t p : NoDup (map fst t) -> NoDup (map fst (remove t p)).
Proof. apply NoDup_map_filter. Qed.

Lemma nodup_set t p n : NoDup (map fst t) -> NoDup (map fst (set t p n)).
Proof.
  intros H. unfold set. rewrite map_app. simpl.
  apply Permutation_NoDup with (l := p :: map fst (remove t p)).
  - apply Permutation_cons_append.
  - constructor; [|apply nodup_remove; exact H].
    apply lookup_none_keys. rewrite lookup_remove, path_eqb_refl. reflexivity.
Qed.

Definition mv_key (p q k : path) : path :=
  if is_prefix p k then q ++ skipn (length p) k else k.

Lemma move_keys t p q : map fst (move t p q) = map (mv_key p q) (map fst t).
Proof.
  unfold move, mv_key. rewrite !map_map. apply map_ext. intros [k n]. simpl.
  destruct (is_prefix p k); reflexivity.
Qed.

Lemma nodup_move t p q :
  (forall k, pre q k -> lookup t k = None) ->
  NoDup (map fst t) -> NoDup (map fst (move t p q)).
Proof.
  intros Hq Hnd. rewrite move_keys.
  assert (Hk : forall k, In k (map fst t) -> ~ pre q k).
  { intros k Hin Hpre. apply lookup_keys in Hin. apply Hin. apply Hq. exact Hpre. }
  clear Hq. induction (map fst t) as [|k l IH]; simpl; [constructor|].
  inversion Hnd as [|x m Hnot Hnd']; subst.
  constructor; [|apply IH; [exact Hnd'|intros k0 H0; apply Hk; right; exact H0]].
  intros Hin. apply in_map_iff in Hin as [k' [Heq Hin']].
  assert (Hkk : k' = k); [|subst; tauto].
  assert (H1 : ~ pre q k) by (apply Hk; left; reflexivity).
  assert (H2 : ~ pre q k') by (apply Hk; right; exact Hin').
  unfold mv_key in Heq.
  destruct (is_prefix p k') eqn:E1; destruct (is_prefix p k) eqn:E2.
  - apply is_prefix_iff in E1 as [u Hu]. apply is_prefix_iff in E2 as [w Hw]. subst.
    rewrite !skipn_app_len in Heq. apply app_inv_head in Heq. congruence.
  - exfalso. apply H1. rewrite <- Heq. apply pre_app.
  - exfalso. apply H2. rewrite Heq. apply pre_app.
  - exact Heq.
Qed.

(* nothing is stored at or below the target of an accepted rename *)
Lemma removed_target_clear t q :
  has_children t q = false -> forall k, pre q k -> lookup (remove t q) k = None.
Proof.
  intros Hh k [s Hs]. subst k. rewrite lookup_remove. destruct s as [|x s].
  - rewrite app_nil_r, path_eqb_refl. reflexivity.
  - destruct (path_eqb q (q ++ x :: s)); [reflexivity|].
    apply has_children_false; [exact Hh|discriminate].
Qed.
