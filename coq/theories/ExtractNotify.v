(* Extraction of the C18 notification model.  ExtrOcamlBasic only. *)
From Coq Require Import ExtrOcamlBasic.
From CS Require Import Sx NotifyModel.
Definition run := NotifyModel.run.
Extraction "extract/notify/model.ml" run.
