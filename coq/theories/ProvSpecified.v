(* ProvSpecified.v — a guarded rename from a state satisfying INV never meets the case in which the
   result of MockProvider.rename would depend on the iteration order of a Python set: the model never
   answers EUnspecified (move_specified holds, the loop and the final move go through). *)
From Coq Require Import NArith List Bool Lia Arith.
From CS Require Import Sx Str PathLaws ProvModel ProvProofs ProvWf ProvMove ProvRename ProvSubtree.
Import ListNotations.

(* ------------------------------------------------------------------ which errors the parts can give *)
Lemma listdir_err s k e : listdir s k = Err e -> e = ENotFound.
Proof.
  unfold listdir. destruct (get_live s k) as [[r o]|]; [destruct (o_kind o)|]; intros H; inversion H; reflexivity.
Qed.

Lemma verify_parent_err s p e : verify_parent s p = Some e -> e <> EUnspecified.
Proof.
  unfold verify_parent. destruct p as [|a [|b t]]; try discriminate.
  destruct (info_path s (removelast (a :: b :: t))) as [i|]; [destruct (i_kind i)|]; intros H; inversion H; discriminate.
Qed.

Lemma delete_err s k s' e : delete s k = (s', Err e) -> e <> EUnspecified.
Proof.
  unfold delete. destruct (get_live s k) as [[r o]|]; [|discriminate].
  destruct (o_kind o); [discriminate|].
  destruct (listdir s (o_oid o)) as [[|i l]|e'] eqn:L; try discriminate.
  - intros H. inversion H. discriminate.
  - intros H. inversion H; subst. rewrite (listdir_err _ _ _ L). discriminate.
Qed.

Lemma rename_conflict_err s o pc e : rename_conflict s o pc = Some e -> e <> EUnspecified.
Proof.
  unfold rename_conflict. destruct pc as [x|]; [|discriminate].
  destruct (negb (okind_eqb (o_kind x) (o_kind o))); [intros H; inversion H; discriminate|].
  destruct (o_kind x); [intros H; inversion H; discriminate|].
  destruct (listdir s (o_oid x)) as [[|i l]|e'] eqn:L; try discriminate.
  - intros H. inversion H. discriminate.
  - intros H. inversion H; subst. rewrite (listdir_err _ _ _ L). discriminate.
Qed.

Lemma rename_single_ev_none s r dest : rename_single s r dest true = None -> rename_single s r dest false = None.
Proof.
  unfold rename_single. destruct (nth_error (p_heap s) r) as [o|]; [|reflexivity].
  destruct (unstore (p_cfg s) (p_dict s) o); [discriminate|reflexivity].
Qed.

Lemma rename_single_some_nth s r dest ev s' : rename_single s r dest ev = Some s' ->
  exists o', nth_error (p_heap s') r = Some o'.
Proof.
  unfold rename_single. destruct (nth_error (p_heap s) r) as [o|] eqn:E; [|discriminate].
  destruct (unstore (p_cfg s) (p_dict s) o) as [d1|]; [|discriminate].
  intros H. inversion H; subst. eexists. destruct ev; simpl; apply nth_hset_same; apply nth_error_Some; congruence.
Qed.

Lemma rename_finish_specified c k prior r s2 : (exists o', nth_error (p_heap s2) r = Some o') ->
  snd (rename_finish c k prior r s2) <> Err EUnspecified.
Proof.
  intros [o' H]. unfold rename_finish. rewrite H.
  destruct (c_oidpath c); [destruct (key_eqb (o_oid o') prior)|destruct (key_eqb (o_oid o') k)]; simpl; discriminate.
Qed.

(* ------------------------------------------------------------------ all_pairs *)
Lemma all_pairs_intro {T} (f : T -> T -> bool) l :
  (forall i j x y, i < j -> nth_error l i = Some x -> nth_error l j = Some y -> f x y = true) ->
  all_pairs f l = true.
Proof.
  induction l as [|a t IH]; intros H; simpl; [reflexivity|].
  apply andb_true_iff. split.
  - apply forallb_forall. intros y Hy. apply In_nth_error in Hy as [j Hj].
    apply (H 0 (S j) a y); [lia|reflexivity|exact Hj].
  - apply IH. intros i j x y Hij Hi Hj. apply (H (S i) (S j) x y); [lia|exact Hi|exact Hj].
Qed.

Lemma objs_of_length h refs : (forall q, In q refs -> exists x, nth_error h q = Some x) ->
  length (objs_of h refs) = length refs.
Proof.
  induction refs as [|q t IH]; intros Hall; [reflexivity|].
  destruct (Hall q (or_introl eq_refl)) as [x Hx]. unfold objs_of. simpl. rewrite Hx. simpl.
  f_equal. apply IH. intros q' Hin. apply Hall. right. exact Hin.
Qed.

Lemma objs_of_nth_inv h refs : (forall q, In q refs -> exists x, nth_error h q = Some x) ->
  forall i x, nth_error (objs_of h refs) i = Some x -> exists q, nth_error refs i = Some q /\ nth_error h q = Some x.
Proof.
  intros Hall i x Hi.
  assert (Hlt : i < length refs).
  { rewrite <- (objs_of_length h refs Hall). apply nth_error_Some. congruence. }
  destruct (nth_error refs i) as [q|] eqn:Hq; [|apply nth_error_None in Hq; lia].
  destruct (objs_of_nth h refs Hall i q Hq) as [x' [H1 H2]]. rewrite Hi in H2. inversion H2; subst x'.
  exists q. auto.
Qed.

(* ------------------------------------------------------------------ the separation of the moved cells, from the invariant *)
Section Sep.
  Variables (s : prov) (k : key) (p : path) (r : nat) (o : obj) (s1 : prov).
  Hypothesis HS : S_inv s.
  Hypothesis HW : W_inv s.
  Hypothesis Hg : get_live s k = Some (r, o).
  Hypothesis Hp : p <> [].
  Hypothesis Hnu : is_under (p_cfg s) (o_path o) p = false.
  Hypothesis PH : phase s k p r o s1.

  Let c := p_cfg s.
  Let old := o_path o.
  Let L := moved_of s1 o ++ [r].

  Lemma move_specified_true : move_specified s1 r old p = true.
  Proof.
    destruct (moved_of_facts s k p r o s1 HS HW Hg PH) as [FL _]. fold c old L in FL.
    pose proof PH as [S1 W1 Ec Ed [o1 [Hr [Epath [Ekind _]]]] _ _ _].
    assert (HL : moved_refs s1 old ++ [r] = L \/ o_kind o = KFile).
    { unfold L, moved_of. destruct (o_kind o); auto. }
    (* the statement is about moved_refs s1 old ++ [r] whatever the kind; every such cell is filed and at or below old *)
    assert (FL' : forall q, In q (moved_refs s1 old ++ [r]) -> exists x, nth_error (p_heap s1) q = Some x /\
                    at_under c old (o_path x) /\ dget (KPath (np c (o_path x))) (p_dict s) = Some q).
    { intros q Hin. apply in_app_or in Hin as [Hin|Hin].
      - apply in_moved_refs in Hin as [H0 [x [H1 H2]]]. exists x. split; [exact H1|].
        rewrite Ec in H2. split; [apply is_under_at_under; exact H2|].
        apply in_fs_refs in H0 as [P HP]. apply (in_dget _ _ _ (s_nodup s1 S1)) in HP.
        destruct (s_path s1 S1 _ _ HP) as [x' [Hx' Hq]]. rewrite H1 in Hx'. inversion Hx'; subst x'.
        rewrite Ec in Hq. rewrite Ed in HP. fold c in Hq. rewrite Hq. exact HP.
      - apply FL. apply in_or_app. right. exact Hin. }
    assert (Hvalid : forall q, In q (moved_refs s1 old ++ [r]) -> exists x, nth_error (p_heap s1) q = Some x).
    { intros q Hin. destruct (FL' q Hin) as [x [H1 _]]. eauto. }
    assert (HrM : ~ In r (moved_refs s1 old)).
    { intros Hin. apply in_moved_refs in Hin as [_ [x [H1 H2]]]. rewrite Hr in H1. inversion H1; subst x.
      unfold old in H2. rewrite <- Epath, is_under_irrefl in H2. discriminate. }
    assert (Hnd : NoDup (moved_refs s1 old ++ [r])) by (apply nodup_snoc; [apply dedup_nodup|exact HrM]).
    (* separation for that list: as in sep_from_inv, the folder case; for a file the list may hold dead
       entries below the file's path, which the code does not move — but then move_specified is not consulted *)
    unfold move_specified. fold (objs_of (p_heap s1) (moved_refs s1 old ++ [r])).
    apply andb_true_iff. split.
    - apply forallb_forall. intros q Hin. destruct (FL' q Hin) as [x [H1 [_ H3]]].
      unfold own_key_ok. rewrite H1, Ec, Ed. fold c. rewrite H3. apply Nat.eqb_refl.
    - apply all_pairs_intro. intros i j x y Hij Hi Hj.
      destruct (objs_of_nth_inv _ _ Hvalid i x Hi) as [qx [Qx Hx]].
      destruct (objs_of_nth_inv _ _ Hvalid j y Hj) as [qy [Qy Hy]].
      assert (Hne : qx <> qy).
      { intros ->. assert (i = j); [|lia]. eapply NoDup_nth_error; [exact Hnd| |congruence].
        apply nth_error_Some. congruence. }
      destruct (FL' qx (nth_error_In _ _ Qx)) as [x' [G1 [Ax Kx]]]. rewrite Hx in G1. inversion G1; subst x'.
      destruct (FL' qy (nth_error_In _ _ Qy)) as [y' [G2 [Ay Ky]]]. rewrite Hy in G2. inversion G2; subst y'.
      (* new(x) <> old(y) and new(y) <> old(x) *)
      assert (SepG : forall qa qb a b, qa <> qb -> nth_error (p_heap s1) qa = Some a -> nth_error (p_heap s1) qb = Some b ->
                at_under c old (o_path a) -> at_under c old (o_path b) ->
                dget (KPath (np c (o_path a))) (p_dict s) = Some qa -> dget (KPath (np c (o_path b))) (p_dict s) = Some qb ->
                np c (new_path old p a) <> np c (o_path b)).
      { intros qa qb a b Hab Ha Hb Aa Ab Ka Kb E.
        rewrite np_new_path, (at_under_split c old _ Ab) in E.
        destruct (path_eq_dec (np c old) (np c p)) as [Eq|Neq].
        - rewrite <- Eq in E. apply app_inv_head in E.
          rewrite (at_under_split c old _ Aa), E, <- (at_under_split c old _ Ab) in Ka.
          rewrite Kb in Ka. inversion Ka. congruence.
        - destruct PH as [_ _ _ _ [o1' [Hr' [_ [_ [_ [_ Hcase]]]]]] Ht _ _].
          destruct Hcase as [[-> Hl]|[_ [Hnp _]]]; [|fold c old in Hnp; congruence].
          assert (Hnu2 : is_under c p old = false).
          { destruct (is_under c p old) eqn:U; [exfalso|reflexivity].
            assert (U1 : is_under (p_cfg s1) p (o_path o) = true) by (rewrite Ec; exact U).
            destruct (live_top s1 p S1 W1 _ r o eq_refl Hr' Hl U1) as [q0 [y0 [T1 [T2 [T3 T4]]]]].
            rewrite Ec, Ed in T1. pose proof (Ht q0 y0 T1 T2 T3) as ->.
            rewrite <- Ed, <- Ec in T1. destruct (s_path s1 S1 _ _ T1) as [z [Hz Hq]]. rewrite Hr' in Hz. inversion Hz; subst z.
            apply is_under_spec in U as [U _]. apply (f_equal (@length _)) in Hq. rewrite !np_length in Hq. fold old in Hq. lia. }
          exact (new_not_old c old p _ _ Neq Hnu Hnu2 E). }
      pose proof (SepG qx qy x y Hne Hx Hy Ax Ay Kx Ky) as Sxy.
      pose proof (SepG qy qx y x (fun E => Hne (eq_sym E)) Hy Hx Ay Ax Ky Kx) as Syx.
      assert (Dxy : np c (o_path x) <> np c (o_path y)).
      { intros E. rewrite E in Kx. rewrite Ky in Kx. inversion Kx. congruence. }
      pose proof (s_oid s1 S1 qx x Hx) as Ox. pose proof (s_oid s1 S1 qy y Hy) as Oy. rewrite Ec in Ox, Oy. fold c in Ox, Oy.
      assert (Nq : N.of_nat qx <> N.of_nat qy) by (intros E; apply Nat2N.inj in E; contradiction).
      unfold pair_ok, keys_disjoint, old_keys, new_keys. rewrite Ec. fold c. simpl.
      rewrite !andb_true_iff, !negb_true_iff, !orb_false_iff.
      pose proof (sane_cases c (s_sane s HS)) as SC. destruct SC as [X|[X1 X2]].
      + rewrite X in *. rewrite Ox, Oy. simpl.
        repeat split; try reflexivity; try (apply path_eqb_false; congruence); try (apply N.eqb_neq; congruence).
      + rewrite X1 in *. rewrite Ox, Oy. simpl.
        assert (Hcs : forall P, np c P = P) by (intros P; apply np_cs; exact X2).
        rewrite !Hcs in *.
        repeat split; try reflexivity; apply path_eqb_false; congruence.
  Qed.
End Sep.

(* ------------------------------------------------------------------ the theorem *)
Theorem rename_specified s k p : INV s -> guard_op s (ORename k p) = true ->
  snd (rename s k p) <> Err EUnspecified.
Proof.
  intros [HS HW] Hgd. rewrite rename_unfold. simpl in Hgd.
  destruct (get_live s k) as [[r o]|] eqn:Hg; [|simpl; discriminate].
  apply andb_true_iff in Hgd as [Hnr Hnu]. apply negb_true_iff in Hnu.
  assert (Hp : p <> []) by (destruct p; [discriminate|congruence]).
  destruct (verify_parent s p) eqn:Hv.
  { simpl. intros E. inversion E; subst. eapply verify_parent_err; eauto. }
  destruct (rename_conflict s o (conflict_at s k p)) eqn:Hc.
  { simpl. intros E. inversion E; subst. eapply rename_conflict_err; eauto. }
  destruct (rename_del s (conflict_at s k p)) as [s1 [u|e]] eqn:Hd.
  2:{ simpl. intros E. inversion E; subst. unfold rename_del in Hd.
      destruct (conflict_at s k p); [eapply delete_err; eauto|discriminate]. }
  pose proof (pc_phase s k p r o s1 u HS HW Hg Hp Hc Hd) as PH.
  unfold rename_move. destruct (path_eqb (o_path o) p); [simpl; discriminate|].
  destruct p as [|a t]; [congruence|].
  destruct (ph_cell _ _ _ _ _ _ PH) as [o1 [Hr [Epath _]]].
  destruct (o_kind o) eqn:KO.
  - destruct (rename_single s1 r (a :: t) true) as [s2|] eqn:R; [|simpl; discriminate].
    apply rename_finish_specified. eapply rename_single_some_nth; eauto.
  - pose proof (move_specified_true s k (a :: t) r o s1 HS HW Hg Hnu PH) as MS.
    rewrite MS. simpl.
    destruct (moved_of_facts s k (a :: t) r o s1 HS HW Hg PH) as [FL _].
    assert (EL : moved_of s1 o = moved_refs s1 (o_path o)) by (unfold moved_of; rewrite KO; reflexivity).
    rewrite EL in FL.
    pose proof (ph_S _ _ _ _ _ _ PH) as S1. pose proof (ph_cfg _ _ _ _ _ _ PH) as Ec. pose proof (ph_dict _ _ _ _ _ _ PH) as Ed.
    assert (HrM : ~ In r (moved_refs s1 (o_path o))).
    { intros Hin. apply in_moved_refs in Hin as [_ [x [H1 H2]]]. rewrite Hr in H1. inversion H1; subst x.
      rewrite Epath, is_under_irrefl in H2. discriminate. }
    assert (Hnd : NoDup (moved_refs s1 (o_path o) ++ [r])) by (apply nodup_snoc; [apply dedup_nodup|exact HrM]).
    assert (Hown : forall q, In q (moved_refs s1 (o_path o) ++ [r]) -> exists x, nth_error (p_heap s1) q = Some x /\
                     dget (KPath (np (p_cfg s1) (o_path x))) (p_dict s1) = Some q).
    { intros q Hin. destruct (FL q Hin) as [x [H1 [_ H3]]]. exists x. rewrite Ec, Ed. auto. }
    assert (Hsep : forall q1 q2 x1 x2, In q1 (moved_refs s1 (o_path o) ++ [r]) -> In q2 (moved_refs s1 (o_path o) ++ [r]) -> q1 <> q2 ->
              nth_error (p_heap s1) q1 = Some x1 -> nth_error (p_heap s1) q2 = Some x2 ->
              np (p_cfg s1) (new_path (o_path o) (a :: t) x1) <> np (p_cfg s1) (o_path x2) /\
              np (p_cfg s1) (new_path (o_path o) (a :: t) x1) <> np (p_cfg s1) (new_path (o_path o) (a :: t) x2)).
    { intros q1 q2 x1 x2 I1 I2 Hne H1 H2. split; [apply (move_specified_sep s1 r _ _ MS Hnd q1 q2); assumption|].
      rewrite Ec. intros E. rewrite !np_new_path in E. apply app_inv_head in E.
      destruct (FL q1 I1) as [y1 [G1 [A1 K1]]]. destruct (FL q2 I2) as [y2 [G2 [A2 K2]]].
      rewrite H1 in G1. inversion G1; subst y1. rewrite H2 in G2. inversion G2; subst y2.
      rewrite (at_under_split _ _ _ A1), E, <- (at_under_split _ _ _ A2) in K1. rewrite K2 in K1. inversion K1. congruence. }
    destruct (move_all_char _ s1 (o_path o) (a :: t) S1 Hnd Hown Hsep) as [s' [Mv _]].
    rewrite move_all_app in Mv.
    destruct (move_all s1 (moved_refs s1 (o_path o)) (o_path o) (a :: t)) as [s2|] eqn:MA; [|discriminate].
    simpl in Mv. rewrite (move_all_other _ _ _ _ _ _ MA HrM), Hr in Mv.
    unfold new_path in Mv. rewrite Epath, skipn_all, app_nil_r in Mv.
    destruct (rename_single s2 r (a :: t) true) as [s3|] eqn:R.
    + apply rename_finish_specified. eapply rename_single_some_nth; eauto.
    + apply rename_single_ev_none in R. rewrite R in Mv. discriminate.
Qed.

(* every guarded call: the model is never in the order-dependent case *)
Theorem step_specified s o : INV s -> guard_op s o = true -> snd (step s o) <> Err EUnspecified.
Proof.
  intros HI Hg. destruct o; unfold step; try (simpl; discriminate).
  - destruct (create s p d) as [s1 [v|e]] eqn:E; simpl; [discriminate|].
    unfold create in E. destruct (has_forbidden (p_cfg s) p); [inversion E; discriminate|].
    destruct (info_path s p); [inversion E; discriminate|].
    destruct (verify_parent s p) eqn:V; [inversion E; subst; intros X; inversion X; subst; eapply verify_parent_err; eauto|].
    destruct (alloc s p KFile d). discriminate.
  - destruct (mkdir s p) as [s1 [v|e]] eqn:E; simpl; [discriminate|].
    unfold mkdir in E. destruct (verify_parent s p) eqn:V; [inversion E; subst; intros X; inversion X; subst; eapply verify_parent_err; eauto|].
    destruct (has_forbidden (p_cfg s) p); [inversion E; discriminate|].
    destruct (info_path s p) as [i|]; [destruct (i_kind i); inversion E; discriminate|].
    destruct (alloc s p KDir 0%N). discriminate.
  - pose proof (rename_specified s k p HI Hg) as R. destruct (rename s k p) as [s1 [v|e]]; simpl in *; [discriminate|].
    intros X. inversion X; subst. apply R. reflexivity.
  - destruct (upload s k d) as [s1 [v|e]] eqn:E; simpl; [discriminate|].
    unfold upload in E. destruct (get_live s k) as [[r x]|]; [destruct (o_kind x)|]; inversion E; discriminate.
  - destruct (delete s k) as [s1 [v|e]] eqn:E; simpl; [discriminate|].
    intros X. inversion X; subst. eapply delete_err; eauto.
  - destruct (listdir s k) as [l|e] eqn:E; simpl; [discriminate|]. rewrite (listdir_err _ _ _ E). discriminate.
  - destruct (download s k) as [l|e] eqn:E; simpl; [discriminate|].
    unfold download in E. destruct (get_live s k) as [[r x]|]; [destruct (o_kind x)|]; inversion E; discriminate.
  - destruct (read_events s). simpl. discriminate.
  - destruct c; simpl; discriminate.
Qed.
