(* EntryPredGenEq.v — the definitions generated from the current source of cloudsync/sync/state.py
   (GenEntryPred.v) are the hand-written model's (EntryPredModel.v): same CLASS of Python value returned, for
   every entry, not only the same truthiness.

   One proof script for all of them ([same_class]): unfold both sides down to matches on the fields, then case
   analysis on every scrutinee that is a field, a boolean test on fields that is not unfolded further (hash
   equality, the number tests [Qeq_bool] / [Qle_bool], the provider's answer) or a side, innermost first, until both
   sides are the same term.  It does not depend on the shape of the generated term, so an edit of the source that
   returns the same class for every entry (reordered `or` operands of bools, a nested `if` instead of `and`, ...)
   still goes through, and one that does not leaves an unprovable goal at the lemma of that function. *)
From Coq Require Import QArith Bool List NArith.
From CS Require Import LoopModel EntryPredModel GenEntryPred.
Import ListNotations.
Open Scope Q_scope.

Ltac atomic x :=
  lazymatch x with
  | context [match _ with _ => _ end] => fail
  | _ => idtac
  end.
Ltac unf :=
  cbv beta iota zeta delta
    [gen_is_corrupt gen_corrupt_exists gen_corrupt_gone gen_paths_match gen_paths_differ gen_side_needs_sync
     gen_hash_conflict gen_is_path_change gen_is_deletion gen_is_creation gen_is_rename gen_needs_sync gen_is_discarded
     gen_is_irrelevant gen_is_conflicted gen_is_trash gen_is_temp_rename gen_is_latest gen_is_latest_side
     is_corrupt corrupt_exists corrupt_gone paths_match paths_differ side_needs_sync hash_conflict is_path_change
     is_deletion is_creation is_rename needs_sync is_discarded is_irrelevant is_conflicted is_trash is_temp_rename
     is_latest is_latest_side max_changed
     truth rb pand por pnot cls_ch cls_str cls_hash ch_orz str_is_none ex_eqb oex_eqb ign_eqb ex_gone ex_deleted
     hash_changed sd pm other negb andb orb Qltb
     s_force s_changed s_oid s_hash s_sync_hash s_path s_sync_path s_exists s_saved s_last_gotten
     e_ignored e_local e_remote e_pmL e_pmR].
Ltac step :=
  match goal with
  | |- ?a = ?a => reflexivity
  | |- context [match ?x with _ => _ end] => atomic x; destruct x
  end.
Ltac same_class :=
  intros;
  repeat match goal with
         | e : entry |- _ => destruct e
         | x : sidest |- _ => destruct x
         | s : side |- _ => destruct s
         end;
  unf; repeat (step; unf).

Lemma gen_is_corrupt_eq : forall e s, gen_is_corrupt e s = is_corrupt e s.
Proof. same_class. Qed.

Lemma gen_corrupt_exists_eq : forall e s, gen_corrupt_exists e s = corrupt_exists e s.
Proof. same_class. Qed.

Lemma gen_corrupt_gone_eq : forall e s, gen_corrupt_gone e s = corrupt_gone e s.
Proof. same_class. Qed.

Lemma gen_paths_match_eq : forall e s, gen_paths_match e s = paths_match e s.
Proof. same_class. Qed.

Lemma gen_paths_differ_eq : forall e s, gen_paths_differ e s = paths_differ e s.
Proof. same_class. Qed.

Lemma gen_side_needs_sync_eq : forall e s, gen_side_needs_sync e s = side_needs_sync e s.
Proof. same_class. Qed.

Lemma gen_hash_conflict_eq : forall e, gen_hash_conflict e = hash_conflict e.
Proof. same_class. Qed.

Lemma gen_is_path_change_eq : forall e s, gen_is_path_change e s = is_path_change e s.
Proof. same_class. Qed.

Lemma gen_is_deletion_eq : forall e s, gen_is_deletion e s = is_deletion e s.
Proof. same_class. Qed.

Lemma gen_is_creation_eq : forall e s, gen_is_creation e s = is_creation e s.
Proof. same_class. Qed.

Lemma gen_is_rename_eq : forall e s, gen_is_rename e s = is_rename e s.
Proof. same_class. Qed.

Lemma gen_needs_sync_eq : forall e, gen_needs_sync e = needs_sync e.
Proof. same_class. Qed.

Lemma gen_is_discarded_eq : forall e, gen_is_discarded e = is_discarded e.
Proof. same_class. Qed.

Lemma gen_is_irrelevant_eq : forall e, gen_is_irrelevant e = is_irrelevant e.
Proof. same_class. Qed.

Lemma gen_is_conflicted_eq : forall e, gen_is_conflicted e = is_conflicted e.
Proof. same_class. Qed.

Lemma gen_is_trash_eq : forall e, gen_is_trash e = is_trash e.
Proof. same_class. Qed.

Lemma gen_is_temp_rename_eq : forall e, gen_is_temp_rename e = is_temp_rename e.
Proof. same_class. Qed.

Lemma gen_is_latest_eq : forall e, gen_is_latest e = is_latest e.
Proof. same_class. Qed.

Lemma gen_is_latest_side_eq : forall e s, gen_is_latest_side e s = is_latest_side e s.
Proof. same_class. Qed.

