(* SchedModel.v — executable model of the scheduler of cloudsync/sync/state.py:
     SyncState.change(age)            (sort by (priority, max(changed)) + first eligible entry)
     SyncState.mark_changed           (strictly increasing change stamps: last + 0.001)
     SideState.__setattr__("changed") -> SyncState.updated(key == "changed")   (change-set membership)
     SyncEntry.__setattr__("priority") -> SyncState.updated(key == "priority") (the punt rule)
     SyncEntry.punt, SyncManager.finished + SyncState.finished, SideState.set_aged / set_force_sync,
     SyncState._change_oid (change-set part only).
   Definitions only; proofs are in SchedProofs.v.

   Python values.  A `changed` stamp is None / False / a number; every use in the scheduler goes through
   truthiness ("x.changed and ...", "x.changed or 0", "if x.changed"), so None and False are one value
   [None] and numbers are [Some q]; [Some 0] is falsy like [None].  Times and priorities are exact
   rationals.  Float addition/subtraction is "exact result, then one rounding": the rounding is the
   [c_rnd] field of the configuration.  Theorems are stated for an arbitrary rounding with the properties
   they need (the identity = ideal arithmetic satisfies all of them); the extracted [run] instantiates it
   with [fl53], round-to-nearest-even to 53 significant bits (IEEE double without overflow/subnormals),
   so that model and implementation can be compared on exact values.  The constant 0.001 of mark_changed
   is [c_eps]; [run] uses the double nearest to 0.001 (1152921504606847 / 2^60).

   Iteration order of the Python set `_changeset` is not modelled: [change] receives the order as an
   argument (it must enumerate exactly the members) and the theorems hold for every order. *)
From Coq Require Import QArith Qround ZArith NArith List Bool.
From CS Require Import Sx.
Import ListNotations.
Open Scope Q_scope.

(* ------------------------------------------------------------------ values *)
Definition stamp := option Q.

Definition qltb (a b : Q) : bool := negb (Qle_bool b a).          (* a < b *)
Definition qmax (a b : Q) : Q := if qltb a b then b else a.       (* Python max(a, b) *)

Definition truthy (c : stamp) : bool :=
  match c with Some q => negb (Qeq_bool q 0) | None => false end.
Definition orz (c : stamp) : Q := match c with Some q => q | None => 0 end.   (* `c or 0` *)

Inductive side := SL | SR.
Definition other (s : side) : side := match s with SL => SR | SR => SL end.

(* one SyncEntry as the scheduler sees it.  [nt_] are ghost fields (never read by an operation's
   control flow): the virtual-clock reading of the notification the side's stamp derives from, or None
   when the stamp was written by an escape hatch (set_aged) or a raw assignment. *)
Record ent := {
  pri : Q;                 (* SyncEntry._priority *)
  chL : stamp;             (* ent[LOCAL]._changed *)
  chR : stamp;             (* ent[REMOTE]._changed *)
  oidL : bool;             (* ent[LOCAL].oid is truthy *)
  oidR : bool;
  inset : bool;            (* ent in SyncState._changeset *)
  ntL : stamp;             (* ghost *)
  ntR : stamp              (* ghost *)
}.

Definition ch (s : side) (e : ent) : stamp := match s with SL => chL e | SR => chR e end.
Definition oid (s : side) (e : ent) : bool := match s with SL => oidL e | SR => oidR e end.
Definition nt (s : side) (e : ent) : stamp := match s with SL => ntL e | SR => ntR e end.

Definition with_ch (s : side) (v : stamp) (e : ent) : ent :=
  match s with
  | SL => {| pri := pri e; chL := v; chR := chR e; oidL := oidL e; oidR := oidR e; inset := inset e; ntL := ntL e; ntR := ntR e |}
  | SR => {| pri := pri e; chL := chL e; chR := v; oidL := oidL e; oidR := oidR e; inset := inset e; ntL := ntL e; ntR := ntR e |}
  end.
Definition with_nt (s : side) (v : stamp) (e : ent) : ent :=
  match s with
  | SL => {| pri := pri e; chL := chL e; chR := chR e; oidL := oidL e; oidR := oidR e; inset := inset e; ntL := v; ntR := ntR e |}
  | SR => {| pri := pri e; chL := chL e; chR := chR e; oidL := oidL e; oidR := oidR e; inset := inset e; ntL := ntL e; ntR := v |}
  end.
Definition with_oid (s : side) (v : bool) (e : ent) : ent :=
  match s with
  | SL => {| pri := pri e; chL := chL e; chR := chR e; oidL := v; oidR := oidR e; inset := inset e; ntL := ntL e; ntR := ntR e |}
  | SR => {| pri := pri e; chL := chL e; chR := chR e; oidL := oidL e; oidR := v; inset := inset e; ntL := ntL e; ntR := ntR e |}
  end.
Definition with_in (b : bool) (e : ent) : ent :=
  {| pri := pri e; chL := chL e; chR := chR e; oidL := oidL e; oidR := oidR e; inset := b; ntL := ntL e; ntR := ntR e |}.
Definition with_pri (p : Q) (e : ent) : ent :=
  {| pri := p; chL := chL e; chR := chR e; oidL := oidL e; oidR := oidR e; inset := inset e; ntL := ntL e; ntR := ntR e |}.

Definition new_ent : ent :=
  {| pri := 0; chL := None; chR := None; oidL := false; oidR := false; inset := false; ntL := None; ntR := None |}.

(* ------------------------------------------------------------------ configuration *)
Record cfg := {
  c_rnd : Q -> Q;          (* rounding applied to the exact result of every float + and - *)
  c_eps : Q;               (* the 0.001 of mark_changed *)
  c_pL : Q;                (* SyncState._punt_secs[LOCAL]  = providers[0].default_sleep / 10 *)
  c_pR : Q                 (* SyncState._punt_secs[REMOTE] *)
}.
Definition fadd (c : cfg) (x y : Q) : Q := c_rnd c (x + y).
Definition fsub (c : cfg) (x y : Q) : Q := c_rnd c (x - y).
Definition c_punt (c : cfg) (s : side) : Q := match s with SL => c_pL c | SR => c_pR c end.

(* ------------------------------------------------------------------ SyncState.change: the selection *)
(* sort_key = lambda a: (a.priority, max(a[LOCAL].changed or 0, a[REMOTE].changed or 0)) *)
Definition tkey (e : ent) : Q := qmax (orz (chL e)) (orz (chR e)).
(* tuple comparison  key a < key b *)
Definition key_ltb (a b : ent) : bool :=
  if Qeq_bool (pri a) (pri b) then qltb (tkey a) (tkey b) else qltb (pri a) (pri b).

(* (e[s].changed and (e[s].changed <= earlier_than)) *)
Definition side_aged (et : Q) (c : stamp) : bool := truthy c && Qle_bool (orz c) et.
(* the condition of the `for e in changes` loop *)
Definition eligible (et : Q) (e : ent) : bool :=
  side_aged et (chL e) || side_aged et (chR e) || qltb (pri e) 0.

(* sorted(change_set, key=sort_key): stable; insertion sort placing x before the first element that is
   not strictly smaller gives the stable order when elements are inserted from the right *)
Section Sort.
  Context {T : Type}.
  Variable ltb : T -> T -> bool.
  Fixpoint insert (x : T) (l : list T) : list T :=
    match l with
    | [] => [x]
    | y :: r => if ltb y x then y :: insert x r else x :: y :: r
    end.
  Fixpoint isort (l : list T) : list T :=
    match l with [] => [] | x :: r => insert x (isort r) end.
  (* the same pick without sorting: the first-occurring minimum among the elements satisfying p *)
  Fixpoint first_min (p : T -> bool) (l : list T) : option T :=
    match l with
    | [] => None
    | x :: r =>
      if p x then
        match first_min p r with
        | Some y => if ltb y x then Some y else Some x
        | None => Some x
        end
      else first_min p r
    end.
End Sort.

Definition ikey_ltb (a b : nat * ent) : bool := key_ltb (snd a) (snd b).

(* change() on the change set listed in iteration order, entries tagged with their identity *)
Definition pick_sorted (et : Q) (l : list (nat * ent)) : option (nat * ent) :=
  find (fun x => eligible et (snd x)) (isort ikey_ltb l).
Definition pick_min (et : Q) (l : list (nat * ent)) : option (nat * ent) :=
  first_min ikey_ltb (fun x => eligible et (snd x)) l.

(* now = time.time(); earlier_than = now - age *)
Definition earlier_than (c : cfg) (now age : Q) : Q := fsub c now age.
(* if age <= 0: earlier_than = max(earlier_than, self._last_changed_time)      (/repo 5c0d808, ed9e461) *)
Definition threshold_adj (et age last_changed : Q) : Q :=
  if Qle_bool age 0 then qmax et last_changed else et.
Definition threshold (c : cfg) (now age last_changed : Q) : Q :=
  threshold_adj (earlier_than c now age) age last_changed.

(* ------------------------------------------------------------------ results *)
Inductive res (T : Type) : Type :=
| Ok (x : T)
| Bad.        (* ill-formed operation (index out of range, order not an enumeration of the change set) *)
Arguments Ok {T} x.
Arguments Bad {T}.
Definition bind {A B} (r : res A) (f : A -> res B) : res B :=
  match r with Ok x => f x | Bad => Bad end.

(* ------------------------------------------------------------------ the `changed` setter *)
(* SideState.__setattr__("changed", v): SyncState.updated(ent, side, "changed", v) runs BEFORE _changed is
   assigned; when the entry leaves the change set and the other side holds a change without an oid, that
   side is repaired with a plain write `_changed = 0` (no nested setter since /repo ccb41ee). *)
Definition set_changed (s : side) (v : stamp) (e : ent) : res ent :=
  let o := other s in
  if (truthy v && oid s e) || (truthy (ch o e) && oid o e) then
    Ok (with_ch s v (with_in true e))
  else if truthy (ch o e) && negb (oid o e) then
    Ok (with_ch s v (with_ch o (Some 0) (with_in false e)))
  else Ok (with_ch s v (with_in false e)).

(* SyncEntry.__setattr__("priority", v) with SyncState.updated(key == "priority") *)
Definition shift (c : cfg) (s : side) (e : ent) : res ent :=
  if truthy (ch s e) then set_changed s (Some (fadd c (orz (ch s e)) (c_punt c s))) e else Ok e.
Definition set_priority (c : cfg) (v : Q) (e : ent) : res ent :=
  if Qeq_bool (pri e) v then Ok e
  else if qltb (pri e) v && qltb 0 v then
    bind (shift c SL e) (fun e1 => bind (shift c SR e1) (fun e2 => Ok (with_pri v e2)))
  else Ok (with_pri v e).
(* SyncEntry.punt *)
Definition punt (c : cfg) (e : ent) : res ent := set_priority c (fadd c (pri e) 1) e.

(* SideState.set_aged / set_force_sync / a raw assignment to .changed *)
Definition set_aged (s : side) (e : ent) : res ent := set_changed s (Some 1) (with_nt s None e).
Definition set_force_sync (s : side) (clock : Q) (e : ent) : res ent :=
  set_changed s (Some clock) (with_nt s (Some clock) e).
Definition raw_changed (s : side) (v : stamp) (e : ent) : res ent := set_changed s v (with_nt s None e).

(* SyncState._change_oid, change-set part (the oid is fresh / the side's own) *)
Definition set_oid (s : side) (e : ent) : ent :=
  let e1 := with_oid s true e in
  if truthy (chL e) || truthy (chR e) then with_in true e1 else e1.
(* ent.ignored = IgnoreReason.DISCARDED: SyncState.updated(key == "ignored") *)
Definition discard_ent (e : ent) : ent := with_in false (with_ch SR None (with_ch SL None e)).
Definition clear_oid (s : side) (e : ent) : ent :=
  let e1 := with_oid s false e in
  if truthy (ch s e) && negb (truthy (ch (other s) e)) then with_in false e1 else e1.

(* ------------------------------------------------------------------ the table *)
Record st := { ents : list ent; last : Q (* SyncState._last_changed_time *) }.

Fixpoint upd {T} (i : nat) (x : T) (l : list T) : list T :=
  match l, i with
  | [], _ => []
  | _ :: r, O => x :: r
  | y :: r, S j => y :: upd j x r
  end.

Definition on_ent (i : nat) (f : ent -> res ent) (s : st) : res st :=
  match nth_error (ents s) i with
  | Some e => bind (f e) (fun e' => Ok {| ents := upd i e' (ents s); last := last s |})
  | None => Bad
  end.

(* SyncState.mark_changed(side, ent) with time.time() = clock *)
Definition mark_changed (c : cfg) (sd : side) (clock : Q) (i : nat) (s : st) : res st :=
  match nth_error (ents s) i with
  | None => Bad
  | Some e =>
    bind (set_changed sd (Some clock) (with_nt sd (Some clock) e)) (fun e1 =>
      if Qle_bool clock (last s) then
        let b := fadd c (last s) (c_eps c) in
        bind (set_changed sd (Some b) e1) (fun e2 => Ok {| ents := upd i e2 (ents s); last := b |})
      else Ok {| ents := upd i e1 (ents s); last := clock |})
  end.

(* SyncManager.finished(side, sync): sync[side].changed = 0; state.finished(sync).
   [rel j] = sync.is_related_to(entry j) (paths are not modelled). *)
Fixpoint reset_related (c : cfg) (rel : list bool) (l : list ent) : res (list ent) :=
  match l with
  | [] => Ok []
  | e :: r =>
    let b := match rel with x :: _ => x | [] => false end in
    bind (if inset e && qltb 0 (pri e) && b then set_priority c 0 e else Ok e) (fun e' =>
      bind (reset_related c (tl rel) r) (fun r' => Ok (e' :: r')))
  end.
Definition finished (c : cfg) (sd : side) (rel : list bool) (i : nat) (s : st) : res st :=
  match nth_error (ents s) i with
  | None => Bad
  | Some e =>
    bind (set_changed sd (Some 0) e) (fun e1 =>
      if truthy (chR e1) || truthy (chL e1) then Ok {| ents := upd i e1 (ents s); last := last s |}
      else
        let l1 := upd i (with_in false e1) (ents s) in
        bind (reset_related c rel l1) (fun l2 => Ok {| ents := l2; last := last s |}))
  end.

(* SyncState.change(age) with time.time() = now (the clock reading); [order] = list(state._changeset) as indices *)
Fixpoint nodupb (l : list nat) : bool :=
  match l with [] => true | x :: r => negb (existsb (Nat.eqb x) r) && nodupb r end.
Definition member (s : st) (i : nat) : bool :=
  match nth_error (ents s) i with Some e => inset e | None => false end.
(* [order] lists every member of the change set, only members, each once *)
Definition order_ok (order : list nat) (s : st) : bool :=
  nodupb order && forallb (member s) order &&
  forallb (fun j => negb (member s j) || existsb (Nat.eqb j) order) (seq 0 (length (ents s))).
Definition tagged (order : list nat) (s : st) : list (nat * ent) :=
  map (fun i => (i, nth i (ents s) new_ent)) order.
Definition change (c : cfg) (now age : Q) (order : list nat) (s : st) : res (option nat) :=
  if order_ok order s then
    Ok (option_map fst (pick_sorted (threshold c now age (last s)) (tagged order s)))
  else Bad.

(* ------------------------------------------------------------------ operations and the runner *)
Inductive op :=
| ONew                                              (* SyncEntry(): no stamps, priority 0 *)
| OMark (i : nat) (s : side) (clock : Q)
| OPunt (i : nat)
| OSetPri (i : nat) (v : Q)                         (* ent.priority = v (prioritize callback / manager) *)
| OFinished (i : nat) (s : side) (rel : list bool)
| OAged (i : nat) (s : side)
| OForce (i : nat) (s : side) (clock : Q)
| ORaw (i : nat) (s : side) (v : stamp)
| OSetOid (i : nat) (s : side)
| OClearOid (i : nat) (s : side)
| OChange (now age : Q) (order : list nat)
| ODiscard (i : nat).

Definition step (c : cfg) (o : op) (s : st) : res (st * option (option nat)) :=
  let nopick (r : res st) := bind r (fun s' => Ok (s', None)) in
  match o with
  | ONew => Ok ({| ents := ents s ++ [new_ent]; last := last s |}, None)
  | OMark i sd clock => nopick (mark_changed c sd clock i s)
  | OPunt i => nopick (on_ent i (punt c) s)
  | OSetPri i v => nopick (on_ent i (set_priority c v) s)
  | OFinished i sd rel => nopick (finished c sd rel i s)
  | OAged i sd => nopick (on_ent i (set_aged sd) s)
  | OForce i sd clock => nopick (on_ent i (set_force_sync sd clock) s)
  | ORaw i sd v => nopick (on_ent i (raw_changed sd v) s)
  | OSetOid i sd => nopick (on_ent i (fun e => Ok (set_oid sd e)) s)
  | OClearOid i sd => nopick (on_ent i (fun e => Ok (clear_oid sd e)) s)
  | OChange now age order => bind (change c now age order s) (fun p => Ok (s, Some p))
  | ODiscard i => nopick (on_ent i (fun e => Ok (discard_ent e)) s)
  end.

(* run a list of operations; stop at the first Bad *)
Fixpoint steps (c : cfg) (ops : list op) (s : st) : res st :=
  match ops with
  | [] => Ok s
  | o :: r => bind (step c o s) (fun x => steps c r (fst x))
  end.

(* ------------------------------------------------------------------ float rounding used by [run] *)
Definition pow2 (k : Z) : Q :=
  if (0 <=? k)%Z then inject_Z (2 ^ k) else Qmake 1 (Z.to_pos (2 ^ (- k))).
Definition fl53_pos (q : Q) : Q :=
  let k := (Z.log2 (Qnum q) - Z.log2 (Zpos (Qden q)))%Z in
  let k' := if Qle_bool (pow2 k) q then k else (k - 1)%Z in        (* floor (log2 q) *)
  let e := (k' - 52)%Z in
  let m := q * pow2 (- e) in                                       (* 2^52 <= m < 2^53 *)
  let f := Qfloor m in
  let r := m - inject_Z f in
  let f' := match Qcompare r (1 # 2) with
            | Lt => f
            | Gt => (f + 1)%Z
            | Eq => if Z.even f then f else (f + 1)%Z
            end in
  Qred (inject_Z f' * pow2 e).
Definition fl53 (q : Q) : Q :=
  match Qcompare q 0 with
  | Eq => 0
  | Gt => fl53_pos q
  | Lt => - fl53_pos (- q)
  end.
Definition eps_float : Q := 1152921504606847 # 1152921504606846976.   (* float 0.001 exactly *)

Definition cfg_float (pL pR : Q) : cfg := {| c_rnd := fl53; c_eps := eps_float; c_pL := pL; c_pR := pR |}.
Definition cfg_exact (pL pR : Q) : cfg := {| c_rnd := fun x => x; c_eps := 1 # 1000; c_pL := pL; c_pR := pR |}.

(* ------------------------------------------------------------------ wire protocol *)
(* naturals beyond the driver's native ints travel as little-endian lists of base-2^32 digits *)
Definition limb : N := 4294967296%N.
Fixpoint un_big_l (l : list sx) : option N :=
  match l with
  | [] => Some 0%N
  | A d :: r => match un_big_l r with Some n => Some (d + limb * n)%N | None => None end
  | L _ :: _ => None
  end.
Definition un_big (x : sx) : option N := match x with L l => un_big_l l | A _ => None end.
Fixpoint limbs (fuel : nat) (n : N) : list sx :=
  match fuel with
  | O => []
  | S f => if N.eqb n 0 then [] else A (N.modulo n limb) :: limbs f (N.div n limb)
  end.
Definition sx_big (n : N) : sx := L (limbs (S (N.to_nat (N.size n))) n).

Definition un_q (x : sx) : option Q :=
  match x with
  | L [A sg; n; d] =>
    match un_big n, un_big d with
    | Some n, Some (Npos d) =>
      match sg with
      | 0%N => Some (Qmake (Z.of_N n) d)
      | 1%N => Some (Qmake (- Z.of_N n) d)
      | _ => None
      end
    | _, _ => None
    end
  | _ => None
  end.
Definition sx_q (q : Q) : sx :=
  let r := Qred q in
  L [A (if (Qnum r <? 0)%Z then 1 else 0)%N; sx_big (Z.abs_N (Qnum r)); sx_big (Npos (Qden r))].
Definition un_stamp : sx -> option stamp := un_opt un_q.
Definition sx_stamp : stamp -> sx := sx_opt sx_q.
Definition un_nat (x : sx) : option nat := match x with A n => Some (N.to_nat n) | L _ => None end.
Definition un_side (x : sx) : option side :=
  match x with A 0%N => Some SL | A 1%N => Some SR | _ => None end.

Definition un_tab_ent (x : sx) : option ent :=
  match x with
  | L [p; a; b] =>
    match un_q p, un_stamp a, un_stamp b with
    | Some p, Some a, Some b =>
      Some {| pri := p; chL := a; chR := b; oidL := true; oidR := true; inset := true; ntL := None; ntR := None |}
    | _, _, _ => None
    end
  | _ => None
  end.

Fixpoint number {T} (i : nat) (l : list T) : list (nat * T) :=
  match l with [] => [] | x :: r => (i, x) :: number (S i) r end.

Definition un_op (x : sx) : option op :=
  match x with
  | L [A 0%N] => Some ONew
  | L [A 1%N; i; s; t] =>
    match un_nat i, un_side s, un_q t with Some i, Some s, Some t => Some (OMark i s t) | _, _, _ => None end
  | L [A 2%N; i] => match un_nat i with Some i => Some (OPunt i) | None => None end
  | L [A 3%N; i; v] => match un_nat i, un_q v with Some i, Some v => Some (OSetPri i v) | _, _ => None end
  | L [A 4%N; i; s; rel] =>
    match un_nat i, un_side s, un_list un_bool rel with
    | Some i, Some s, Some rel => Some (OFinished i s rel) | _, _, _ => None end
  | L [A 5%N; i; s] => match un_nat i, un_side s with Some i, Some s => Some (OAged i s) | _, _ => None end
  | L [A 6%N; i; s; t] =>
    match un_nat i, un_side s, un_q t with Some i, Some s, Some t => Some (OForce i s t) | _, _, _ => None end
  | L [A 7%N; i; s; v] =>
    match un_nat i, un_side s, un_stamp v with Some i, Some s, Some v => Some (ORaw i s v) | _, _, _ => None end
  | L [A 8%N; i; s] => match un_nat i, un_side s with Some i, Some s => Some (OSetOid i s) | _, _ => None end
  | L [A 9%N; now; age; order] =>
    match un_q now, un_q age, un_list un_nat order with
    | Some now, Some age, Some order => Some (OChange now age order) | _, _, _ => None end
  | L [A 10%N; i; s] => match un_nat i, un_side s with Some i, Some s => Some (OClearOid i s) | _, _ => None end
  | L [A 11%N; i] => match un_nat i with Some i => Some (ODiscard i) | None => None end
  | _ => None
  end.

Definition sx_ent (e : ent) : sx :=
  L [sx_q (pri e); sx_stamp (chL e); sx_stamp (chR e); sx_bool (inset e)].
Definition sx_st (s : st) : sx := L [sx_q (last s); sx_list sx_ent (ents s)].
Definition sx_pick (p : option nat) : sx := sx_opt sx_nat p.

(* per operation: (0 pick-or-() state) | (2) Bad; nothing after the first non-zero status *)
Fixpoint run_ops (c : cfg) (ops : list op) (s : st) : list sx :=
  match ops with
  | [] => []
  | o :: r =>
    match step c o s with
    | Ok (s', p) => L [A 0%N; sx_opt sx_pick p; sx_st s'] :: run_ops c r s'
    | Bad => [L [A 2%N]]
    end
  end.

Definition run (x : sx) : sx :=
  match x with
  (* (0 (clock last_changed_time) age (entries...)) : change() on a table given in iteration order *)
  | L [A 0%N; L [now; lst]; age; tab] =>
    match un_q now, un_q lst, un_q age, un_list un_tab_ent tab with
    | Some now, Some lst, Some age, Some l =>
      let et := threshold (cfg_float 0 0) now age lst in
      L [sx_pick (option_map fst (pick_sorted et (number 0 l)));
         sx_pick (option_map fst (pick_min et (number 0 l)))]
    | _, _, _, _ => sx_malformed
    end
  (* (1 (puntL puntR last0) (ops...)) *)
  | L [A 1%N; L [pl; pr; l0]; ops] =>
    match un_q pl, un_q pr, un_q l0, un_list un_op ops with
    | Some pl, Some pr, Some l0, Some ops =>
      L (run_ops (cfg_float pl pr) ops {| ents := []; last := l0 |})
    | _, _, _, _ => sx_malformed
    end
  (* (2 q) : fl53 *)
  | L [A 2%N; q] => match un_q q with Some q => sx_q (fl53 q) | None => sx_malformed end
  (* (3 et (pri chL chR)) : eligibility; (4 a b) : key a < key b *)
  | L [A 3%N; et; e] =>
    match un_q et, un_tab_ent e with Some et, Some e => sx_bool (eligible et e) | _, _ => sx_malformed end
  | L [A 4%N; a; b] =>
    match un_tab_ent a, un_tab_ent b with Some a, Some b => sx_bool (key_ltb a b) | _, _ => sx_malformed end
  | _ => sx_malformed
  end.
