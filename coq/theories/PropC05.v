(* PropC05.v — C05: conflict-resolution contract. *)
From Coq Require Import NArith List Bool.
From CS Require Import Sx TreeModel ResolverSpec ResolverProofs.
Import ListNotations.

Theorem C05_called_once_with_true_bytes : forall dir n nc a b ans r,
  outcome dir n nc a b ans = Some r ->
  (a = b -> r_calls r = 0 /\ r_seen r = None) /\ (a <> b -> r_calls r = 1 /\ r_seen r = Some (a, b)).
Proof. exact called_once_with_true_bytes. Qed.
Print Assumptions C05_called_once_with_true_bytes.

Theorem C05_same_content_no_call : forall dir n nc a ans, n <> nc ->
  exists r, outcome dir n nc a a ans = Some r /\ r_calls r = 0 /\ r_seen r = None /\
            lookup (r_local r) (dir ++ [n]) = Some (File a) /\ lookup (r_remote r) (dir ++ [n]) = Some (File a) /\
            lookup (r_local r) (dir ++ [nc]) = None /\ lookup (r_remote r) (dir ++ [nc]) = None.
Proof. exact same_content_no_call. Qed.
Print Assumptions C05_same_content_no_call.

Theorem C05_pick_local_outcome : forall dir n nc a b keep r,
  a <> b -> n <> nc -> outcome dir n nc a b (PickLocal keep) = Some r ->
  lookup (r_local r) (dir ++ [n]) = Some (File a) /\ lookup (r_remote r) (dir ++ [n]) = Some (File a) /\
  lookup (r_local r) (dir ++ [nc]) = None /\
  lookup (r_remote r) (dir ++ [nc]) = (if keep then Some (File b) else None).
Proof. exact pick_local_outcome. Qed.
Print Assumptions C05_pick_local_outcome.

Theorem C05_pick_remote_outcome : forall dir n nc a b keep r,
  a <> b -> n <> nc -> outcome dir n nc a b (PickRemote keep) = Some r ->
  lookup (r_local r) (dir ++ [n]) = Some (File b) /\ lookup (r_remote r) (dir ++ [n]) = Some (File b) /\
  lookup (r_remote r) (dir ++ [nc]) = None /\
  lookup (r_local r) (dir ++ [nc]) = (if keep then Some (File a) else None).
Proof. exact pick_remote_outcome. Qed.
Print Assumptions C05_pick_remote_outcome.

Theorem C05_merged_nokeep_outcome : forall dir n nc a b c r,
  a <> b -> n <> nc -> outcome dir n nc a b (Merged c false) = Some r ->
  lookup (r_local r) (dir ++ [n]) = Some (File c) /\ lookup (r_remote r) (dir ++ [n]) = Some (File c) /\
  lookup (r_local r) (dir ++ [nc]) = None /\ lookup (r_remote r) (dir ++ [nc]) = None.
Proof. exact merged_nokeep_outcome. Qed.
Print Assumptions C05_merged_nokeep_outcome.

Theorem C05_fallback_remote_wins : forall dir n nc a b,
  outcome dir n nc a b Fallback = outcome dir n nc a b (PickRemote true).
Proof. exact fallback_remote_wins. Qed.
Print Assumptions C05_fallback_remote_wins.

Theorem C05_accept_conflict_sound : forall dir n nc a b ans calls vl vr,
  accept_conflict dir n nc a b ans calls vl vr = true ->
  exists r, outcome dir n nc a b ans = Some r /\ calls_ok r calls = true /\
            same_tree vl (r_local r) = true /\ same_tree vr (r_remote r) = true.
Proof. exact accept_conflict_sound. Qed.
Print Assumptions C05_accept_conflict_sound.

Theorem C05_calls_ok_meaning : forall r calls,
  calls_ok r calls = true ->
  match r_seen r with None => calls = [] | Some (a, b) => calls = [(a, b)] end.
Proof. exact calls_ok_meaning. Qed.
Print Assumptions C05_calls_ok_meaning.

Example C05_example_accept :
  accept_conflict [] 5%N 6%N 10%N 11%N (PickLocal true) [(10, 11)%N] [([5%N], File 10%N)] [([5%N], File 10%N); ([6%N], File 11%N)] = true.
Proof. vm_compute. reflexivity. Qed.
