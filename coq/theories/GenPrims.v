(* GenPrims.v — Gallina counterparts of the CPython primitives that the generated definitions (GenPath.v,
   written by harness/translator.py) use beyond those of Str.v: ints are Z, slices follow the full clamp
   semantics of Python.  Definitions only; their agreement with the Str.v primitives is proved in PathGenLaws.v. *)
From Coq Require Import NArith ZArith List Bool.
From CS Require Import Str.
Import ListNotations.

(* len(s) *)
Definition py_len (s : str) : Z := Z.of_nat (length s).

(* a slice bound i clamped as CPython does: negative counts from the end, everything is cut to [0, len] *)
Definition py_norm_idx (s : str) (i : Z) : nat :=
  Z.to_nat (if (i <? 0)%Z then Z.max 0 (py_len s + i) else Z.min i (py_len s)).

(* s[lo:hi] with optional bounds *)
Definition py_slice (s : str) (lo hi : option Z) : str :=
  let a := match lo with Some i => py_norm_idx s i | None => 0 end in
  let b := match hi with Some i => py_norm_idx s i | None => length s end in
  firstn (b - a) (skipn a s).

(* s[i] == c; the translator only emits it under the guard len(s) > i with i = len(...) >= 0,
   where indexing cannot raise *)
Definition py_index_eqb (s : str) (i : Z) (c : N) : bool :=
  match nth_error s (Z.to_nat i) with Some x => N.eqb x c | None => false end.

(* s.rfind(c) *)
Definition py_rfind (c : N) (s : str) : Z :=
  match rfind c s with Some i => Z.of_nat i | None => (-1)%Z end.
