(* AlgoSync.v — world-level effect of the state operations a sync step is made of (one entry is touched;
   providers and the extension records of the other entries are left alone), and the refresh of an entry
   from its provider (SyncEntry.get_latest). *)
From Coq Require Import NArith List Bool Arith Lia.
From CS Require Import Sx Str PathModel PathLaws StateModel StateProofs ProvModel ProvProofs
     AlgoModel AlgoCheck AlgoState AlgoProv AlgoPath AlgoInv AlgoIntake.
Import ListNotations.
Local Open Scope N_scope.

(* ------------------------------------------------------------------ state effect with a clock that may advance *)
Definition seff (s s' : state) (e : eid) (en' : StateModel.entry) (m : option bool) : Prop :=
  ents s' = list_upd (ents s) e en' /\
  (forall x, set_mem x (cset s') = match m with
                                   | Some b => if Nat.eqb x e then b else set_mem x (cset s)
                                   | None => set_mem x (cset s)
                                   end) /\
  now s <= now s' /\ lastch s' = lastch s /\ (IdxJ s -> IdxJ s').

Ltac ssplit := split; [|split; [|split; [|split]]].
Ltac wsplit := split; [|split; [|split; [|split; [|split]]]].
Lemma eff_seff s s' e en' m : eff s s' e en' m -> seff s s' e en' m.
Proof. intros (A & B & C & D & J). ssplit; auto. rewrite C. apply N.le_refl. Qed.
Lemma seff_trans s s1 s2 e en1 en2 m1 m2 : seff s s1 e en1 m1 -> seff s1 s2 e en2 m2 -> seff s s2 e en2 (mcomp m1 m2).
Proof.
  intros (A1 & B1 & C1 & D1 & J1) (A2 & B2 & C2 & D2 & J2). split; [|split; [|split; [|split]]].
  - rewrite A2, A1. apply list_upd_twice.
  - intros x. rewrite B2. destruct m2 as [b|]; simpl.
    + destruct (Nat.eqb x e) eqn:Ex; [reflexivity|]. rewrite B1. destruct m1; [rewrite Ex|]; reflexivity.
    + apply B1.
  - lia.
  - congruence.
  - auto.
Qed.
Lemma seff_nth s s' e en' m en : seff s s' e en' m -> nth_error (ents s) e = Some en -> nth_error (ents s') e = Some en'.
Proof. intros [H _] Hn. rewrite H. eapply nth_list_upd_eq; eauto. Qed.
Lemma seff_refl s e en : nth_error (ents s) e = Some en -> seff s s e en None.
Proof. intros H. apply eff_seff, eff_refl. exact H. Qed.

(* ------------------------------------------------------------------ world effect *)
Definition weff (w w' : world) (e : eid) (en' : StateModel.entry) (m : option bool) : Prop :=
  w_cfg w' = w_cfg w /\ w_pL w' = w_pL w /\ w_pR w' = w_pR w /\ w_x w' = w_x w /\
  seff (w_st w) (w_st w') e en' m /\ tape (w_st w') = [].

Lemma weff_trans w w1 w2 e en1 en2 m1 m2 : weff w w1 e en1 m1 -> weff w1 w2 e en2 m2 -> weff w w2 e en2 (mcomp m1 m2).
Proof.
  intros (A1 & B1 & C1 & D1 & E1 & T1) (A2 & B2 & C2 & D2 & E2 & T2).
  wsplit; try congruence. eapply seff_trans; eauto.
Qed.
Lemma weff_refl w e en : nth_error (ents (w_st w)) e = Some en -> tape (w_st w) = [] -> weff w w e en None.
Proof. intros H T. wsplit; auto. apply seff_refl. exact H. Qed.
Lemma weff_nth w w' e en' m en : weff w w' e en' m -> nth_error (ents (w_st w)) e = Some en -> nth_error (ents (w_st w')) e = Some en'.
Proof. intros (_ & _ & _ & _ & S & _) H. eapply seff_nth; eauto. Qed.
Lemma weff_E w w' e en' m : weff w w' e en' m -> E w' = E w.
Proof. intros (A & _). unfold E. rewrite A. reflexivity. Qed.
Lemma weff_prov w w' e en' m sd : weff w w' e en' m -> prov_of w' sd = prov_of w sd.
Proof. intros (_ & B & C & _). destruct sd; simpl; congruence. Qed.
Lemma weff_getx w w' e en' m x sd : weff w w' e en' m -> getx w' x sd = getx w x sd.
Proof. intros (_ & _ & _ & D & _). unfold getx. rewrite D. reflexivity. Qed.

(* a state operation that succeeds on the state (with the swap tape) succeeds on the world *)
Lemma st_op_ok w f s' e en' m :
  tape (w_st w) = [] ->
  f (st_tape (w_st w) [TSwap false; TSwap false]) = StateModel.Ok s' ->
  eff (st_tape (w_st w) [TSwap false; TSwap false]) s' e en' m ->
  st_op w f = ROk (with_st w (st_tape s' [])) /\ weff w (with_st w (st_tape s' [])) e en' m.
Proof.
  intros Ht Hf (A & B & C & D & J). unfold st_op. rewrite Hf. split; [reflexivity|].
  wsplit; auto. cbn [with_st w_st]. ssplit; cbn [st_tape ents cset now lastch].
  - exact A.
  - exact B.
  - rewrite C. apply N.le_refl.
  - exact D.
  - intros HI. apply IdxJ_tape. apply J. apply IdxJ_tape. exact HI.
Qed.

Section Std.
Variable w : world.
Hypothesis Hcfg : w_cfg w = cfg_std 1.
Hypothesis Htape : tape (w_st w) = [].

Lemma E_std : E w = env_of (cfg_std 1). Proof. unfold E. rewrite Hcfg. reflexivity. Qed.

Lemma plain_w e sd f en :
  nth_error (ents (w_st w)) e = Some en ->
  (forall x, s_oid (f x) = s_oid x /\ s_path (f x) = s_path x) ->
  exists w', plain w e sd f = ROk w' /\ weff w w' e (ss en sd (f (gs en sd))) None.
Proof.
  intros Hn Hf. set (s0 := st_tape (w_st w) [TSwap false; TSwap false]).
  destruct (set_plain_eff s0 e sd f en Hn Hf) as (s' & H1 & F1 & T1).
  destruct (st_op_ok w (fun s => set_plain s e sd f) s' e _ None Htape H1 F1) as (H2 & W2).
  eexists. split; [exact H2|exact W2].
Qed.

Lemma set_changed_w e sd v en :
  nth_error (ents (w_st w)) e = Some en ->
  exists w', AlgoModel.set_changed w e sd v = ROk w' /\ weff w w' e (chg_entry en sd v) (Some (chg_pending en sd v)).
Proof.
  intros Hn. set (s0 := st_tape (w_st w) [TSwap false; TSwap false]).
  destruct env_of_std as (Hleg & _ & _).
  destruct (set_changed_eff (env_of (cfg_std 1)) Hleg s0 e sd v en Hn) as (s' & H1 & F1 & T1).
  unfold AlgoModel.set_changed. rewrite E_std.
  destruct (st_op_ok w (fun s => StateModel.set_changed (env_of (cfg_std 1)) s e sd v) s' e _ _ Htape H1 F1) as (H2 & W2).
  eexists. split; [exact H2|exact W2].
Qed.

Lemma set_ignored_w e v en :
  nth_error (ents (w_st w)) e = Some en ->
  exists w', AlgoModel.set_ignored w e v = ROk w' /\ weff w w' e (ign_entry en v) (ign_member en v).
Proof.
  intros Hn. set (s0 := st_tape (w_st w) [TSwap false; TSwap false]).
  destruct (set_ignored_eff s0 e v en Hn) as (s' & H1 & F1 & T1).
  destruct (st_op_ok w (fun s => StateModel.set_ignored s e v) s' e _ _ Htape H1 F1) as (H2 & W2).
  eexists. split; [exact H2|exact W2].
Qed.

Lemma set_priority_w e v en :
  nth_error (ents (w_st w)) e = Some en ->
  exists w', AlgoModel.set_priority w e v = ROk w' /\ weff w w' e (prio_entry (env_of (cfg_std 1)) en v) (prio_member (env_of (cfg_std 1)) en v).
Proof.
  intros Hn. set (s0 := st_tape (w_st w) [TSwap false; TSwap false]).
  destruct env_of_std as (Hleg & _ & _).
  destruct (set_priority_eff (env_of (cfg_std 1)) Hleg s0 e v en Hn) as (s' & H1 & F1 & T1).
  unfold AlgoModel.set_priority. rewrite E_std.
  destruct (st_op_ok w (fun s => StateModel.set_priority (env_of (cfg_std 1)) s e v) s' e _ _ Htape H1 F1) as (H2 & W2).
  eexists. split; [exact H2|exact W2].
Qed.

Lemma set_path_new_w e sd p o en :
  IdxJ (w_st w) -> nth_error (ents (w_st w)) e = Some en -> s_oid (gs en sd) = Some o -> tstr (Some o) = true ->
  s_path (gs en sd) = None -> s_otype (gs en sd) <> Dir -> tstr (Some p) = true ->
  exists w', AlgoModel.set_path w e sd (Some p) = ROk w' /\
             weff w w' e (prio_entry (env_of (cfg_std 1)) (ss en sd (w_path (gs en sd) (Some p))) 0) None.
Proof.
  intros HI Hn Ho Hto Hp Hot Htp. set (s0 := st_tape (w_st w) [TSwap false; TSwap false]).
  destruct env_of_std as (Hleg & _ & _).
  destruct (set_path_new_eff (env_of (cfg_std 1)) Hleg s0 e sd p o en (IdxJ_tape _ _ HI) Hn Ho Hto Hp Hot Htp) as (s' & H1 & F1 & T1).
  unfold AlgoModel.set_path. rewrite E_std.
  destruct (st_op_ok w (fun s => StateModel.set_path (env_of (cfg_std 1)) s e sd (Some p)) s' e _ _ Htape H1 F1) as (H2 & W2).
  eexists. split; [exact H2|exact W2].
Qed.

Lemma tick_w e en : nth_error (ents (w_st w)) e = Some en ->
  weff w (fst (tick w)) e en None /\ snd (tick w) = now (w_st w) + 1000 /\ now (w_st (fst (tick w))) = now (w_st w) + 1000.
Proof.
  intros Hn. unfold tick. cbn [fst snd]. split; [|split; reflexivity].
  wsplit; auto. cbn [with_st w_st]. ssplit; cbn [st_now ents cset now lastch].
  - symmetry. apply list_upd_same. exact Hn.
  - intros x. reflexivity.
  - lia.
  - reflexivity.
  - intros HI. apply (IdxJ_view (w_st w)); [reflexivity|exact HI].
Qed.

End Std.

(* ------------------------------------------------------------------ touch_changed *)
(* en' is en, or en with a fresh truthy stamp on side sd (which had none) *)
Definition touched (en en' : StateModel.entry) (sd : bool) (nw : N) (m : option bool) : Prop :=
  (en' = en /\ m = None) \/
  (exists t, en' = ss en sd (w_chg (gs en sd) (CNum t)) /\ tchg (s_chg (gs en sd)) = false /\ tchg (CNum t) = true /\ t <= nw /\ m = Some true).

Lemma tchg_tick n : tchg (CNum (n + 1000)) = true.
Proof. unfold tchg. destruct (n + 1000)%N eqn:E; [lia|reflexivity]. Qed.

Lemma touch_changed_w w e sd en o :
  w_cfg w = cfg_std 1 -> tape (w_st w) = [] ->
  nth_error (ents (w_st w)) e = Some en -> s_oid (gs en sd) = Some o -> tstr (Some o) = true ->
  exists w' en' m, touch_changed w e sd = ROk w' /\ weff w w' e en' m /\ touched en en' sd (now (w_st w')) m.
Proof.
  intros Hcfg Ht Hn Ho Hto. unfold touch_changed, get_e, lift, get_ent. rewrite Hn. cbn [rbind].
  destruct (ign_eqb (e_ign en) INone && negb (tchg (s_chg (gs en sd))))%bool eqn:Ec.
  - apply andb_prop in Ec as [_ Hc]. apply negb_true_iff in Hc.
    destruct (tick_w w Ht e en Hn) as (W1 & Hs & Hnow).
    destruct (tick w) as [w1 t] eqn:Et. cbn [fst snd] in *. subst t.
    assert (Hcfg1: w_cfg w1 = cfg_std 1) by (destruct W1 as (A & _); congruence).
    assert (Ht1: tape (w_st w1) = []) by (destruct W1 as (_ & _ & _ & _ & _ & T); exact T).
    pose proof (weff_nth _ _ _ _ _ _ W1 Hn) as Hn1.
    destruct (set_changed_w w1 Hcfg1 Ht1 e sd (CNum (now (w_st w) + 1000)) en Hn1) as (w2 & H2 & W2).
    assert (Hp: chg_pending en sd (CNum (now (w_st w) + 1000)) = true).
    { unfold chg_pending. rewrite tchg_tick, Ho, Hto. reflexivity. }
    assert (He: chg_entry en sd (CNum (now (w_st w) + 1000)) = ss en sd (w_chg (gs en sd) (CNum (now (w_st w) + 1000)))).
    { unfold chg_entry. rewrite Hp. reflexivity. }
    rewrite Hp, He in W2.
    exists w2, (ss en sd (w_chg (gs en sd) (CNum (now (w_st w) + 1000)))), (Some true).
    split; [exact H2|]. split; [apply (weff_trans _ _ _ _ _ _ _ _ W1 W2)|].
    right. exists (now (w_st w) + 1000). split; [reflexivity|]. split; [exact Hc|]. split; [apply tchg_tick|]. split; [|reflexivity].
    destruct W2 as (_ & _ & _ & _ & (_ & _ & C & _) & _). lia.
  - exists w, en, None. split; [reflexivity|]. split; [apply weff_refl; assumption|left; auto].
Qed.

(* ------------------------------------------------------------------ progress of a refresh *)
(* what every step of unconditionally_get_latest keeps of an entry: the other side, the ignore reason, the id,
   the sync markers, the force flag; the change stamp stays or goes from none to a fresh one *)
Definition prog (en en' : StateModel.entry) (sd : bool) (nw : N) (m : option bool) : Prop :=
  gs en' (negb sd) = gs en (negb sd) /\ e_ign en' = e_ign en /\
  s_oid (gs en' sd) = s_oid (gs en sd) /\ s_spath (gs en' sd) = s_spath (gs en sd) /\
  s_shash (gs en' sd) = s_shash (gs en sd) /\ s_force (gs en' sd) = s_force (gs en sd) /\
  ((s_chg (gs en' sd) = s_chg (gs en sd) /\ m = None) \/
   (exists t, s_chg (gs en' sd) = CNum t /\ tchg (CNum t) = true /\ chgval (s_chg (gs en sd)) <= t /\ t <= nw /\ m = Some true)).

Lemma prog_refl en sd nw : prog en en sd nw None.
Proof. repeat split; auto. Qed.
Lemma prog_trans en en1 en2 sd n1 n2 m1 m2 : n1 <= n2 -> prog en en1 sd n1 m1 -> prog en1 en2 sd n2 m2 -> prog en en2 sd n2 (mcomp m1 m2).
Proof.
  intros Hle (A1 & B1 & C1 & D1 & E1 & F1 & G1) (A2 & B2 & C2 & D2 & E2 & F2 & G2).
  repeat (split; [congruence|]).
  destruct G2 as [(G2 & Hm2)|(t & G3 & G4 & G5 & G6 & Hm2)]; subst m2; cbn [mcomp].
  - destruct G1 as [(G1 & Hm1)|(t & G3 & G4 & G5 & G6 & Hm1)]; subst m1; [left; split; congruence|].
    right. exists t. rewrite G2. repeat split; auto. lia.
  - right. exists t. repeat split; auto.
    destruct G1 as [(G1 & _)|(t' & G3' & G4' & G5' & G6' & _)]; [rewrite <- G1; exact G5|].
    rewrite G3' in G5. simpl in G5. lia.
Qed.

Lemma prog_plain en sd f nw :
  (forall x, s_oid (f x) = s_oid x /\ s_spath (f x) = s_spath x /\ s_shash (f x) = s_shash x /\ s_force (f x) = s_force x /\ s_chg (f x) = s_chg x) ->
  prog en (ss en sd (f (gs en sd))) sd nw None.
Proof.
  intros Hf. destruct (Hf (gs en sd)) as (A & B & C & D & F). unfold prog. rewrite gs_ss_same, gs_ss_other, ign_ss.
  repeat (split; [auto|]). left. auto.
Qed.
Lemma prog_touched en en' sd nw m : touched en en' sd nw m -> prog en en' sd nw m.
Proof.
  intros [(-> & ->)|(t & -> & A & B & C & ->)]; [apply prog_refl|].
  unfold prog. rewrite gs_ss_same, gs_ss_other, ign_ss. cbn [w_chg s_oid s_spath s_shash s_force s_chg].
  repeat (split; [reflexivity|]). right. exists t. repeat split; auto.
  destruct (s_chg (gs en sd)) as [| |c]; simpl in *; try lia. destruct c; [lia|discriminate].
Qed.
Lemma prog_prio0 en sd nw : prog en (prio_entry (env_of (cfg_std 1)) en 0) sd nw None.
Proof.
  unfold prio_entry. destruct (N.eqb (e_prio en) 0); [apply prog_refl|]. rewrite andb_false_r.
  unfold prog. destruct en as [l r i p], sd; simpl; repeat (split; [reflexivity|]); left; auto.
Qed.

Lemma mcomp_None_l m : mcomp None m = m. Proof. destruct m; reflexivity. Qed.
Lemma mcomp_None_r m : mcomp m None = m. Proof. reflexivity. Qed.

(* ------------------------------------------------------------------ unconditionally_get_latest *)
Lemma key_of_std w sd k : w_cfg w = cfg_std 1 -> key_of w sd (ostr_k k) = ROk (kid_of k).
Proof. intros H. unfold key_of. rewrite H. destruct sd; reflexivity. Qed.

Lemma cv_of_std sd : cv_of (cfg_std 1) sd = mk_conv true. Proof. destruct sd; reflexivity. Qed.

(* the object is alive: the side gets the object's hash and path, exists = EXISTS *)
Lemma uget_latest_live w e sd en k ob n :
  w_cfg w = cfg_std 1 -> tape (w_st w) = [] -> IdxJ (w_st w) -> PWF (prov_of w sd) ->
  nth_error (ents (w_st w)) e = Some en -> s_oid (gs en sd) = Some (ostr_k k) ->
  obj_at w sd k = Some ob -> ProvModel.o_exists ob = true -> ProvModel.o_kind ob = ProvModel.KFile ->
  ProvModel.o_path ob = [root_name sd; n] -> name_ok n = true ->
  s_otype (gs en sd) = File -> popt (s_path (gs en sd)) (pstr (ProvModel.o_path ob)) ->
  exists w' en' m, uget_latest w e sd = ROk w' /\ weff w w' e en' m /\ prog en en' sd (now (w_st w')) m /\
    s_otype (gs en' sd) = File /\ s_ex (gs en' sd) = ExExists /\
    s_hash (gs en' sd) = Some (ProvModel.o_data ob) /\ s_path (gs en' sd) = Some (pstr (ProvModel.o_path ob)).
Proof.
  intros Hcfg Ht HI HW Hn Ho Hob Hl Hkf Hp Hnok Hot Hpath.
  unfold uget_latest, get_e, lift, get_ent. rewrite Hn. cbn [rbind]. rewrite Ho.
  rewrite (key_of_std w sd k Hcfg). cbn [rbind].
  unfold obj_at in Hob. rewrite (info_oid_kid _ _ _ HW Hob), Hl.
  assert (Hdata: ProvModel.i_data (ProvModel.info_of ob) = Some (ProvModel.o_data ob)) by (unfold ProvModel.info_of; simpl; rewrite Hkf; reflexivity).
  assert (Hkind: ProvModel.i_kind (ProvModel.info_of ob) = ProvModel.KFile) by (unfold ProvModel.info_of; simpl; exact Hkf).
  assert (Hipath: ProvModel.i_path (ProvModel.info_of ob) = ProvModel.o_path ob) by reflexivity.
  rewrite Hdata, Hkind, Hipath. cbn [otype_of_kind].
  (* block A: hash *)
  assert (HA: exists wA enA mA,
     (if oN_eqb (s_hash (gs en sd)) (Some (ProvModel.o_data ob)) then ROk w
      else (wa <- plain w e sd (fun y => w_hash y (Some (ProvModel.o_data ob))) ;; touch_changed wa e sd)) = ROk wA /\
     weff w wA e enA mA /\ prog en enA sd (now (w_st wA)) mA /\
     s_hash (gs enA sd) = Some (ProvModel.o_data ob) /\ s_path (gs enA sd) = s_path (gs en sd) /\ s_otype (gs enA sd) = s_otype (gs en sd)).
  { destruct (oN_eqb (s_hash (gs en sd)) (Some (ProvModel.o_data ob))) eqn:Eh.
    - exists w, en, None. split; [reflexivity|]. split; [apply weff_refl; assumption|]. split; [apply prog_refl|].
      split; [|auto]. destruct (s_hash (gs en sd)) as [h|]; [|discriminate]. simpl in Eh. apply N.eqb_eq in Eh. congruence.
    - destruct (plain_w w Ht e sd (fun y => w_hash y (Some (ProvModel.o_data ob))) en Hn) as (w1 & H1 & W1); [intros; split; reflexivity|].
      rewrite H1. cbn [rbind].
      set (en1 := ss en sd (w_hash (gs en sd) (Some (ProvModel.o_data ob)))) in *.
      pose proof (weff_nth _ _ _ _ _ _ W1 Hn) as Hn1.
      assert (Hcfg1: w_cfg w1 = cfg_std 1) by (destruct W1 as (A & _); congruence).
      assert (Ht1: tape (w_st w1) = []) by (destruct W1 as (_ & _ & _ & _ & _ & T); exact T).
      assert (Ho1: s_oid (gs en1 sd) = Some (ostr_k k)) by (unfold en1; rewrite gs_ss_same; exact Ho).
      destruct (touch_changed_w w1 e sd en1 (ostr_k k) Hcfg1 Ht1 Hn1 Ho1 (tstr_ostr k)) as (w2 & en2 & m2 & H2 & W2 & T2).
      exists w2, en2, m2. split; [exact H2|].
      split; [pose proof (weff_trans _ _ _ _ _ _ _ _ W1 W2) as X; rewrite mcomp_None_l in X; exact X|].
      assert (P1: prog en en1 sd (now (w_st w1)) None)
        by (apply (prog_plain en sd (fun y => w_hash y (Some (ProvModel.o_data ob)))); intros; repeat split; reflexivity).
      assert (Hle: now (w_st w1) <= now (w_st w2)) by (destruct W2 as (_ & _ & _ & _ & (_ & _ & C & _) & _); exact C).
      split; [pose proof (prog_trans en en1 en2 sd _ _ None m2 Hle P1 (prog_touched _ _ _ _ _ T2)) as X; rewrite mcomp_None_l in X; exact X|].
      destruct T2 as [(-> & _)|(t & -> & _)]; unfold en1; rewrite ?gs_ss_same; cbn [w_chg w_hash s_hash s_path s_otype]; auto. }
  destruct HA as (wA & enA & mA & EA & WA & PA & HhA & HpA & HoA). rewrite EA. cbn [rbind].
  pose proof (weff_nth _ _ _ _ _ _ WA Hn) as HnA.
  assert (HtA: tape (w_st wA) = []) by (destruct WA as (_ & _ & _ & _ & _ & T); exact T).
  assert (HcfgA: w_cfg wA = cfg_std 1) by (destruct WA as (A & _); congruence).
  (* ex, otype *)
  destruct (plain_w wA HtA e sd (fun y => w_ex y ExExists) enA HnA) as (wB & HB & WB); [intros; split; reflexivity|].
  rewrite HB. cbn [rbind]. set (enB := ss enA sd (w_ex (gs enA sd) ExExists)) in *.
  pose proof (weff_nth _ _ _ _ _ _ WB HnA) as HnB.
  assert (HtB: tape (w_st wB) = []) by (destruct WB as (_ & _ & _ & _ & _ & T); exact T).
  destruct (plain_w wB HtB e sd (fun y => w_otype y File) enB HnB) as (wC & HC & WC); [intros; split; reflexivity|].
  rewrite HC. cbn [rbind]. set (enC := ss enB sd (w_otype (gs enB sd) File)) in *.
  pose proof (weff_nth _ _ _ _ _ _ WC HnB) as HnC.
  assert (HtC: tape (w_st wC) = []) by (destruct WC as (_ & _ & _ & _ & _ & T); exact T).
  assert (HcfgC: w_cfg wC = cfg_std 1) by (destruct WB as (A & _); destruct WC as (A' & _); congruence).
  unfold get_e, lift, get_ent. rewrite HnC. cbn [rbind].
  assert (Hnp: nps (cv_of (w_cfg w) sd) (pstr (ProvModel.o_path ob)) = pstr (ProvModel.o_path ob)).
  { rewrite Hcfg, cv_of_std, Hp. apply nps_pstr. constructor; [apply root_name_ok|]. constructor; [exact Hnok|constructor]. }
  rewrite Hnp.
  assert (WAC: weff w wC e enC mA).
  { pose proof (weff_trans _ _ _ _ _ _ _ _ (weff_trans _ _ _ _ _ _ _ _ WA WB) WC) as X. cbn [mcomp] in X. destruct mA; exact X. }
  assert (HnowAC: now (w_st wA) <= now (w_st wC)).
  { destruct WB as (_ & _ & _ & _ & (_ & _ & C1 & _) & _). destruct WC as (_ & _ & _ & _ & (_ & _ & C2 & _) & _). lia. }
  assert (PC: prog en enC sd (now (w_st wC)) mA).
  { assert (P1: prog enA enB sd (now (w_st wC)) None) by (apply (prog_plain enA sd (fun y => w_ex y ExExists)); intros; repeat split; reflexivity).
    assert (P2: prog enB enC sd (now (w_st wC)) None) by (apply (prog_plain enB sd (fun y => w_otype y File)); intros; repeat split; reflexivity).
    pose proof (prog_trans en enA enC sd _ _ mA None HnowAC PA (prog_trans enA enB enC sd _ _ None None (N.le_refl _) P1 P2)) as X.
    cbn [mcomp] in X. destruct mA; exact X. }
  assert (HfC: s_hash (gs enC sd) = Some (ProvModel.o_data ob) /\ s_path (gs enC sd) = s_path (gs en sd) /\
               s_otype (gs enC sd) = File /\ s_ex (gs enC sd) = ExExists).
  { unfold enC, enB. rewrite !gs_ss_same. cbn [w_otype w_ex s_hash s_path s_otype s_ex]. auto. }
  destruct HfC as (HhC & HpC & HoC & HxC).
  (* block D: path *)
  destruct Hpath as [Hpn|Hps].
  - (* first path *)
    rewrite HpC, Hpn. cbn [ostr_eqb].
    assert (HIC: IdxJ (w_st wC)) by (destruct WAC as (_ & _ & _ & _ & (_ & _ & _ & _ & J) & _); auto).
    assert (HoC': s_oid (gs enC sd) = Some (ostr_k k)) by (destruct PC as (_ & _ & X & _); congruence).
    assert (HpC': s_path (gs enC sd) = None) by congruence.
    assert (Hnd: s_otype (gs enC sd) <> Dir) by (rewrite HoC; discriminate).
    destruct (set_path_new_w wC HcfgC HtC e sd (pstr (ProvModel.o_path ob)) (ostr_k k) enC HIC HnC HoC' (tstr_ostr k) HpC' Hnd (tstr_pstr _))
      as (wD & HD & WD).
    rewrite HD. cbn [rbind].
    set (enD := prio_entry (env_of (cfg_std 1)) (ss enC sd (w_path (gs enC sd) (Some (pstr (ProvModel.o_path ob))))) 0) in *.
    pose proof (weff_nth _ _ _ _ _ _ WD HnC) as HnD.
    assert (HtD: tape (w_st wD) = []) by (destruct WD as (_ & _ & _ & _ & _ & T); exact T).
    assert (HcfgD: w_cfg wD = cfg_std 1) by (destruct WD as (A & _); congruence).
    assert (Hsame: gs enD sd = w_path (gs enC sd) (Some (pstr (ProvModel.o_path ob)))).
    { unfold enD, prio_entry. destruct (N.eqb _ 0); [apply gs_ss_same|]. rewrite andb_false_r.
      destruct enC as [l r i q], sd; reflexivity. }
    assert (HoD: s_oid (gs enD sd) = Some (ostr_k k)) by (rewrite Hsame; cbn [w_path s_oid]; exact HoC').
    destruct (touch_changed_w wD e sd enD (ostr_k k) HcfgD HtD HnD HoD (tstr_ostr k)) as (wE & enE & mE & HE & WE & TE).
    rewrite HE. cbn [rbind].
    pose proof (weff_nth _ _ _ _ _ _ WE HnD) as HnE.
    assert (HtE: tape (w_st wE) = []) by (destruct WE as (_ & _ & _ & _ & _ & T); exact T).
    destruct (plain_w wE HtE e sd (fun y => y) enE HnE) as (wF & HF & WF); [intros; split; reflexivity|].
    exists wF, (ss enE sd (gs enE sd)), (mcomp mA mE). split; [exact HF|].
    assert (WAll: weff w wF e (ss enE sd (gs enE sd)) (mcomp mA mE)).
    { pose proof (weff_trans _ _ _ _ _ _ _ _ (weff_trans _ _ _ _ _ _ _ _ (weff_trans _ _ _ _ _ _ _ _ WAC WD) WE) WF) as X.
      cbn [mcomp] in X. destruct mE; exact X. }
    split; [exact WAll|]. rewrite ss_gs.
    assert (HnowCF: now (w_st wC) <= now (w_st wE) /\ now (w_st wE) <= now (w_st wF)).
    { destruct WD as (_ & _ & _ & _ & (_ & _ & C1 & _) & _). destruct WE as (_ & _ & _ & _ & (_ & _ & C2 & _) & _).
      destruct WF as (_ & _ & _ & _ & (_ & _ & C3 & _) & _). lia. }
    assert (PD: prog enC enD sd (now (w_st wE)) None).
    { assert (P1: prog enC (ss enC sd (w_path (gs enC sd) (Some (pstr (ProvModel.o_path ob))))) sd (now (w_st wE)) None)
        by (apply (prog_plain enC sd (fun y => w_path y (Some (pstr (ProvModel.o_path ob))))); intros; repeat split; reflexivity).
      pose proof (prog_trans _ _ _ sd _ _ None None (N.le_refl _) P1 (prog_prio0 _ sd (now (w_st wE)))) as X. exact X. }
    assert (PE: prog en enE sd (now (w_st wE)) (mcomp mA mE)).
    { pose proof (prog_trans enC enD enE sd _ _ None mE (N.le_refl _) PD (prog_touched _ _ _ _ _ TE)) as X. cbn [mcomp] in X.
      assert (X': prog enC enE sd (now (w_st wE)) mE) by (destruct mE; exact X).
      apply (prog_trans en enC enE sd _ _ mA mE (proj1 HnowCF) PC X'). }
    split.
    { destruct PE as (A & B & C & D & F & G & H). repeat (split; [assumption|]).
      destruct H as [H|(t & H2 & H3 & H4 & H5 & H6)]; [left; exact H|right; exists t; repeat split; auto; lia]. }
    destruct TE as [(-> & _)|(t & -> & _)]; rewrite ?gs_ss_same; rewrite Hsame; cbn [w_chg w_path s_otype s_ex s_hash s_path]; auto.
  - (* the path is already known *)
    rewrite HpC, Hps. rewrite (proj2 (ostr_eqb_eq _ _) eq_refl). cbn [rbind].
    destruct (plain_w wC HtC e sd (fun y => y) enC HnC) as (wF & HF & WF); [intros; split; reflexivity|].
    exists wF, (ss enC sd (gs enC sd)), mA. split; [exact HF|].
    split; [pose proof (weff_trans _ _ _ _ _ _ _ _ WAC WF) as X; cbn [mcomp] in X; exact X|]. rewrite ss_gs.
    assert (Hle: now (w_st wC) <= now (w_st wF)) by (destruct WF as (_ & _ & _ & _ & (_ & _ & C3 & _) & _); exact C3).
    split.
    { destruct PC as (A & B & C & D & F & G & H). repeat (split; [assumption|]).
      destruct H as [H|(t & H2 & H3 & H4 & H5 & H6)]; [left; exact H|right; exists t; repeat split; auto; lia]. }
    repeat split; auto. congruence.
Qed.

(* ------------------------------------------------------------------ updating one side of an entry *)
Lemma prog_maxchg en en' sd nw m : prog en en' sd nw m -> maxchg en <= maxchg en'.
Proof.
  intros (A & _ & _ & _ & _ & _ & G). unfold maxchg, chgv.
  assert (Hs: chgval (s_chg (gs en sd)) <= chgval (s_chg (gs en' sd))).
  { destruct G as [(G & _)|(t & G2 & _ & G3 & _)]; [rewrite G; apply N.le_refl|]. rewrite G2. exact G3. }
  destruct sd; simpl in *; rewrite A; lia.
Qed.
Lemma prog_flag evl en en' sd nw m k : prog en en' sd nw m -> flagP evl en sd k -> flagP evl en' sd k.
Proof.
  intros (_ & _ & _ & _ & _ & _ & G) [F|F]; [|right; exact F]. left.
  destruct G as [(G & _)|(t & G & G2 & _)]; [rewrite G; exact F|rewrite G; exact G2].
Qed.
Lemma prog_flag_other evl en en' sd nw m k : prog en en' sd nw m -> flagP evl en (negb sd) k -> flagP evl en' (negb sd) k.
Proof. intros (A & _) [F|F]; [left; rewrite A; exact F|right; exact F]. Qed.

(* The entry changes on side sd only, by steps that keep id, sync markers and force flag and never drop a change
   stamp ([prog]); the caller shows what the new type / exists / hash / path of that side mean for the clauses
   that read them. *)
Lemma EntOk_side evl evl' g w w' e en en' sd nw m :
  EntOk evl g w e en -> prog en en' sd nw m ->
  s_otype (gs en' sd) = File ->
  (forall sd0 k0, obj_at w' sd0 k0 = obj_at w sd0 k0) ->
  x_lg (getx w' e (negb sd)) = x_lg (getx w e (negb sd)) ->
  (forall sd0 k0, pd evl sd0 k0 = true -> pd evl' sd0 k0 = true) ->
  (forall k ob, s_oid (gs en sd) = Some (ostr_k k) -> obj_at w sd k = Some ob ->
     (s_ex (gs en' sd) = ExTrashed -> ProvModel.o_exists ob = false) /\
     (is_discarded (e_ign en) = false -> pd evl' sd k = true \/ x_lg (getx w' e sd) < maxchg en' \/ freshP (gs en' sd) ob) /\
     popt (s_path (gs en' sd)) (pstr (ProvModel.o_path ob)) /\
     (is_discarded (e_ign en) = false -> forall cs, g_get k (g_of g sd) = Some cs ->
        hopt (s_hash (gs en' sd)) cs /\ (s_path (gs en' sd) <> None -> s_hash (gs en' sd) <> None) /\
        (s_spath (gs en sd) <> None -> s_path (gs en' sd) <> None)) /\
     (is_discarded (e_ign en) = false -> g_get k (g_of g sd) = None ->
        s_ex (gs en' sd) = ExExists /\ s_hash (gs en' sd) = Some (ProvModel.o_data ob) /\
        s_path (gs en' sd) = Some (pstr (ProvModel.o_path ob)))) ->
  (s_oid (gs en sd) = None -> s_path (gs en' sd) = None /\ s_hash (gs en' sd) = None /\ tchg (s_chg (gs en' sd)) = false /\
                              (is_discarded (e_ign en) = false -> s_ex (gs en' sd) = ExUnknown)) ->
  EntOk evl' g w' e en'.
Proof.
  intros [A B C] P Hot Hobj Hlgo Hpd Hnew Hnone.
  pose proof P as (Pother & Pign & Poid & Pspath & Pshash & Pforce & Pchg).
  pose proof (prog_maxchg _ _ _ _ _ P) as Hmax.
  constructor.
  - rewrite Pign. exact A.
  - destruct sd; simpl in *; [rewrite Pother, Poid|rewrite Poid, Pother]; exact B.
  - intros sd0. destruct (Bool.bool_dec sd0 sd) as [->|Hne].
    + destruct (C sd) as [c1 c2 c3 c5 c4]. constructor.
      * exact Hot.
      * rewrite Pforce. exact c2.
      * rewrite Poid. intros Hn. destruct (c3 Hn) as (X1 & X2 & X3 & X4 & X5). destruct (Hnone Hn) as (Y1 & Y2 & Y3 & _).
        rewrite Pspath, Pshash. auto.
      * rewrite Poid, Pign. intros Hn Hd. destruct (Hnone Hn) as (_ & _ & _ & Y4). apply Y4. exact Hd.
      * rewrite Poid. intros o Ho'. destruct (c4 o Ho') as (k & ob & -> & Hob & Hk & F).
        exists k, ob. split; [reflexivity|]. split; [rewrite Hobj; exact Hob|]. split; [exact Hk|].
        destruct (Hnew k ob Ho' Hob) as (N1 & N2 & N3 & N4 & N5).
        destruct F as [f1 f2 f3 f4 f5 f6 f7 f8 f10 f9].
        assert (Hfl: flagP evl en sd k -> flagP evl' en' sd k).
        { intros X. apply (prog_flag evl' en en' sd nw m k P). destruct X as [X|X]; [left; exact X|right; apply Hpd; exact X]. }
        constructor; rewrite ?Pother, ?Pign, ?Pspath, ?Pshash.
        -- exact N1.
        -- exact N2.
        -- exact N3.
        -- exact f4.
        -- exact f5.
        -- intros Hd Ho2. apply Hfl. apply f6; assumption.
        -- intros Hd Ho2. destruct (f7 Hd Ho2) as [X|X]; [left; apply Hfl; exact X|right; exact X].
        -- intros Hd cs Hcs. destruct (f8 Hd cs Hcs) as (P1 & P2 & P3 & P4 & P5). destruct (N4 Hd cs Hcs) as (M1 & M2 & M3).
           split; [exact M1|]. split; [exact P2|]. split; [exact P3|]. split; [exact M2|].
           intros Ho2. destruct (P5 Ho2) as (Q1 & Q2 & Q3 & Q4). split; [exact Q1|]. split; [exact Q2|]. split; [|exact Q4].
           destruct Q3 as [Q3|(Q3 & Q5)]; [left; exact Q3|right; split; [exact Q3|apply Hfl; exact Q5]].
        -- intros Hd cs Hcs. destruct (f10 Hd cs Hcs) as (P1 & P2). destruct (N4 Hd cs Hcs) as (M1 & M2 & M3).
           split; [exact P1|exact M3].
        -- intros Hd Hcs. destruct (f9 Hd Hcs) as (P1 & P2 & P3 & P4 & P5 & P6 & (k' & ob' & R1 & R2 & R3 & R4)).
           destruct (N5 Hd Hcs) as (M1 & M2 & M3).
           split; [exact P1|]. split; [exact M1|]. split; [exact P3|]. split; [exact M2|]. split; [exact P5|]. split; [exact M3|].
           exists k', ob'. rewrite Hobj. auto.
    + assert (sd0 = negb sd) by (destruct sd0, sd; try reflexivity; contradiction). subst sd0.
      destruct (C (negb sd)) as [c1 c2 c3 c5 c4]. constructor; rewrite ?Pother, ?Pign; auto.
      intros o Ho'. destruct (c4 o Ho') as (k1 & ob1 & -> & Hob1 & Hk1 & F).
      exists k1, ob1. split; [reflexivity|]. split; [rewrite Hobj; exact Hob1|]. split; [exact Hk1|].
      assert (Hfl: flagP evl en (negb sd) k1 -> flagP evl' en' (negb sd) k1).
      { intros X. apply (prog_flag_other evl' en en' sd nw m k1 P). destruct X as [X|X]; [left; exact X|right; apply Hpd; exact X]. }
      destruct F as [f1 f2 f3 f4 f5 f6 f7 f8 f10 f9]. rewrite negb_inv in f6, f7, f8, f10, f9.
      constructor; rewrite ?Pother, ?Pign, ?negb_inv, ?Poid, ?Pshash.
      * exact f1.
      * intros Hd. destruct (f2 Hd) as [X|[X|X]]; [left; auto|right; left; rewrite Hlgo; lia|right; right; exact X].
      * exact f3.
      * exact f4.
      * exact f5.
      * intros Hd Ho2. apply Hfl. apply f6; assumption.
      * intros Hd Ho2. destruct (f7 Hd Ho2) as [X|X]; [left; apply Hfl; exact X|right; exact X].
      * intros Hd cs Hcs. destruct (f8 Hd cs Hcs) as (P1 & P2 & P3 & P4 & P5).
        split; [exact P1|]. split; [exact P2|]. split; [exact P3|]. split; [exact P4|].
        intros Ho2. destruct (P5 Ho2) as (Q1 & Q2 & Q3 & Q4). split; [exact Q1|]. split; [exact Q2|]. split; [|exact Q4].
        destruct Q3 as [Q3|(Q3 & Q5)]; [left; exact Q3|right; split; [exact Q3|auto]].
      * exact f10.
      * intros Hd Hcs. destruct (f9 Hd Hcs) as (P1 & P2 & P3 & P4 & P5 & P6 & (k' & ob' & R1 & R2 & R3 & R4)).
        repeat (split; [assumption|]). exists k', ob'. rewrite Hobj. auto.
Qed.

(* ------------------------------------------------------------------ extension records *)
Lemma nth_xupd_same l e f : nth e (xupd l e f) (x0, x0) = f (nth e l (x0, x0)).
Proof.
  revert l. induction e as [|e IH]; intros [|p r]; simpl; auto.
  - rewrite IH. destruct e; reflexivity.
Qed.
Lemma nth_xupd_other l e x f : x <> e -> nth x (xupd l e f) (x0, x0) = nth x l (x0, x0).
Proof.
  revert l x. induction e as [|e IH]; intros [|p r] [|x] H; simpl; auto; try congruence.
  - destruct x; reflexivity.
  - rewrite IH by congruence. destruct x; reflexivity.
Qed.
Lemma getx_setx_same w e sd f : getx (setx w e sd f) e sd = f (getx w e sd).
Proof. unfold getx, setx, with_x. cbn [w_x]. rewrite nth_xupd_same. destruct sd; reflexivity. Qed.
Lemma getx_setx_other_side w e sd f : getx (setx w e sd f) e (negb sd) = getx w e (negb sd).
Proof. unfold getx, setx, with_x. cbn [w_x]. rewrite nth_xupd_same. destruct sd; reflexivity. Qed.
Lemma getx_setx_other w e sd f x sd' : x <> e -> getx (setx w e sd f) x sd' = getx w x sd'.
Proof. intros H. unfold getx, setx, with_x. cbn [w_x]. rewrite nth_xupd_other by exact H. reflexivity. Qed.
Lemma w_st_setx w e sd f : w_st (setx w e sd f) = w_st w. Proof. reflexivity. Qed.
Lemma w_cfg_setx w e sd f : w_cfg (setx w e sd f) = w_cfg w. Proof. reflexivity. Qed.
