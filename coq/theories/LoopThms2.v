(* LoopThms2.v — further theorems about the two-thread machine (variants of stop()/wake()). *)
From Coq Require Import QArith List Bool NArith ZArith Lia.
From CS Require Import Sx LoopModel LoopInv LoopThms.
Import ListNotations.

(* the sticky variant never resets __shutdown *)
Lemma sticky_never_unfin : forall v p s, v_sticky v = true -> reach v p s -> g_unfin s = false.
Proof.
  intros v p s Hv Hr. revert s Hr. apply (reach_ind_inv v p (fun s => g_unfin s = false)); [reflexivity|].
  intros s0 l _ H. destruct v as [sw sk w1]. cbn in Hv. subst sk.
  revert H. set (v := {| v_swap := sw; v_sticky := true; v_wake1 := w1 |}).
  intro H. destruct s0 as [lp0 cp0 sg0 sd0 sp0 intr0 tset0 bk0 log0 gl0 gu0]. cbn in H. subst gu0.
  destruct l as [o u | op | ]; unfold step, enabled; cbn [LoopModel.lp LoopModel.cp].
  - destruct lp0; cbn; auto; bool_cases; cbn; auto.
  - destruct cp0; cbn; auto. destruct op as [ | [|] ww | | tt ]; destruct sw; cbn; bool_cases; cbn;
      rewrite ?andb_false_r, ?orb_false_r; auto; destruct sd0; auto.
  - destruct cp0; cbn; auto; try solve [bool_cases; cbn; auto].
    all: try solve [destruct stg, f, sw; cbn; bool_cases; cbn; rewrite ?andb_false_r, ?orb_false_r; auto; destruct sd0; auto].
    all: try solve [destruct k as [f|[|]]; cbn; bool_cases; cbn; auto].
Qed.

(* ---- T4: with __shutdown assigned before __stopping: cleanup exactly once *)
Lemma pre_f4_alive : forall l, pre_f4 l = true -> alive l = true.
Proof. destruct l; cbn; auto. Qed.

Theorem cleanup_exactly_once_swapped : forall v p s,
  v_swap v = true -> reach v p s ->
  g_live s = true -> g_unfin s = false -> alive (lp s) = false ->
  count_done (log s) = 1%nat.
Proof.
  intros v p s Hv Hr Hl Hu Ha. pose proof (Inv_reach _ _ _ Hr) as I.
  destruct (invM _ _ I Hv Hl Hu) as [_ HM]. destruct (invK _ _ I Hu) as [_ [HK _]].
  destruct HM as [HM|[HM|HM]].
  - apply pre_f4_alive in HM. congruence.
  - rewrite HM in Ha. discriminate.
  - lia.
Qed.

(* ---- T5 *)
Theorem stop_wake_never_raise : forall v p s,
  v_wake1 v = true -> reach v p s -> raisy (cp s) = false.
Proof. intros v p s Hv Hr. exact (invW _ _ (Inv_reach _ _ _ Hr) Hv). Qed.

(* ---- loop_survives on the machine: the loop thread leaves the loop only through a flag test or until() *)
Theorem loop_exit_only_by_flags : forall p s o u,
  lp (lstep p s o u) = LF1 ->
  (lp s = LH1 /\ sg s = true) \/ (lp s = LH2 /\ sd s = true) \/ (lp s = LC1 /\ sg s = true) \/
  (lp s = LC2 /\ sd s = true) \/ (lp s = LC3 /\ u = true).
Proof.
  intros p s o u. destruct s as [lp0 cp0 sg0 sd0 sp0 intr0 tset0 bk0 log0 gl0 gu0]. unfold lstep; cbn.
  destruct lp0; cbn; bool_cases; cbn; intro H; try discriminate; auto 10.
Qed.

Theorem do_outcome_continues : forall p s o u, lp s = LDoRet -> lp (lstep p s o u) = LC1.
Proof. intros p s o u H. unfold lstep. rewrite H. reflexivity. Qed.
