(* SmartMonProofs.v — C20: for EVERY observation trace, if the acceptor [mon_accept] of SmartModel.v accepts it,
   the between-quiescence safety statements of on-demand sync hold of the run the trace denotes.
   The guards are executable; these theorems say what acceptance means. *)
From Coq Require Import NArith List Bool Lia.
From CS Require Import Sx TreeModel TreePaths TreeLookup SmartModel SmartProofs.
Import ListNotations.

Notation "a ~~ b" := (same_tree a b = true) (at level 70).

Lemma new_files_In old new p :
  In p (new_files old new) <-> exists c, In (p, File c) new /\ lookup old p = None.
Proof.
  unfold new_files. rewrite in_flat_map. split.
  - intros [[q n] [Hin H]]. simpl in H. destruct n as [|c]; [destruct H|].
    destruct (isnone (lookup old q)) eqn:Hn; [|destruct H]. destruct H as [H|[]]. subst q.
    exists c. split; [exact Hin|]. destruct (lookup old p); [discriminate|reflexivity].
  - intros [c [Hin Hn]]. exists (p, File c). split; [exact Hin|]. simpl. rewrite Hn. simpl. left. reflexivity.
Qed.
Lemma gone_files_In old new p :
  In p (gone_files old new) <-> exists c, In (p, File c) old /\ lookup new p = None.
Proof. apply new_files_In. Qed.

Section MonThms.
Variable auto : path -> bool.
Variable cfg : mcfg.

Definition rootL := c_rootL cfg.
Definition rootR := c_rootR cfg.

(* ------------------------------------------------------------------ runs of the acceptor *)
Inductive mrun : mst -> list mobs -> mst -> Prop :=
| mrun_nil m : mrun m [] m
| mrun_cons m x m1 r m2 : mon_step auto cfg m x = inl m1 -> mrun m1 r m2 -> mrun m (x :: r) m2.

Lemma mon_from_sound tr : forall m i m', mon_from auto cfg m tr i = inl m' -> mrun m tr m'.
Proof.
  induction tr as [|x r IH]; simpl; intros m i m' H.
  - inversion H; subst. constructor.
  - destruct (mon_step auto cfg m x) as [m1|c] eqn:Hs; [|discriminate].
    econstructor; [exact Hs|]. eapply IH; exact H.
Qed.
Theorem mon_accept_sound l r tr m' : mon_accept auto cfg l r tr = inl m' -> mrun (mon_init l r) tr m'.
Proof. unfold mon_accept. apply mon_from_sound. Qed.

Lemma mrun_split m tr m' : mrun m tr m' -> forall pre x post, tr = pre ++ x :: post ->
  exists ma mb, mrun m pre ma /\ mon_step auto cfg ma x = inl mb /\ mrun mb post m'.
Proof.
  intros H. induction H as [m|m x0 m1 r m2 Hs Hr IH]; intros pre x post Heq.
  - destruct pre; discriminate.
  - destruct pre as [|y pre]; simpl in Heq; inversion Heq; subst.
    + exists m, m1. split; [constructor|]. split; assumption.
    + destruct (IH pre x post eq_refl) as [ma [mb [Ha [Hb Hc]]]].
      exists ma, mb. split; [econstructor; eassumption|]. split; assumption.
Qed.

(* ------------------------------------------------------------------ what an accepted engine action means *)
Lemma negb_true_false b : negb b = false -> b = true.
Proof. destruct b; simpl; congruence. Qed.

Definition local_action_ok (m : mst) (x : mobs) : Prop :=
  mR m ~~ m_R x /\
  (forall p, In p (new_files (mL m) (m_L x)) -> download_ok auto cfg m p = true) /\
  (forall b, mB m = Some b -> b_unreq b = true -> same_but (rootL ++ b_path b) (mL m) (m_L x) = true).
Definition remote_action_ok (m : mst) (x : mobs) : Prop :=
  mL m ~~ m_L x /\
  (forall p, In p (gone_files (mR m) (m_R x)) -> in_unreq m = false /\ rdelete_ok cfg m p = true) /\
  (forall b, mB m = Some b -> b_unreq b = true ->
     same_but (rootR ++ b_path b) (mR m) (m_R x) = true /\
     isnone (lookup (mR m) (rootR ++ b_path b)) = isnone (lookup (m_R x) (rootR ++ b_path b))).

Lemma pmem_consume m gone r : pmem r (consume cfg m gone) = true -> pmem r (mD m) = true.
Proof.
  unfold consume. generalize (mD m) as d. induction gone as [|g gs IH]; intros d Hr; [exact Hr|].
  simpl in Hr. apply IH in Hr. destruct (relp (c_rootR cfg) g); [|exact Hr].
  rewrite pmem_pdel in Hr. apply andb_true_iff in Hr as [_ Hr]. exact Hr.
Qed.

Lemma eng_step_sound m x m' s k ts :
  m_ev x = MEng s k ts -> mon_step auto cfg m x = inl m' ->
  (if s then remote_action_ok m x else local_action_ok m x) /\
  mL m' = m_L x /\ mR m' = m_R x /\ mQ m' = mQ m /\ mX m' = mX m /\ mB m' = mB m /\
  (if s then forall r, pmem r (mD m') = true -> pmem r (mD m) = true else mD m' = mD m).
Proof.
  intros Hev. unfold mon_step. rewrite Hev.
  destruct (negb (if s then _ else _)) eqn:G1; [discriminate|]. apply negb_true_false in G1.
  destruct s.
  - destruct (in_unreq m && _) eqn:G2; [discriminate|].
    destruct (negb (forallb _ _)) eqn:G3; [discriminate|]. apply negb_true_false in G3.
    destruct (match mB m with Some b => _ | None => false end) eqn:G4; [discriminate|].
    intros H; inversion H; subst; clear H; simpl.
    split; [|repeat split; try reflexivity].
    + split; [exact G1|]. split.
      * intros p Hp. rewrite forallb_forall in G3. split; [|apply G3; exact Hp].
        destruct (in_unreq m); [|reflexivity]. simpl in G2.
        destruct (gone_files (mR m) (m_R x)); [destruct Hp|discriminate].
      * intros b Hb Hu. rewrite Hb, Hu in G4. simpl in G4. apply negb_true_false in G4.
        apply andb_true_iff in G4 as [G4a G4b]. split; [exact G4a|]. apply eqb_prop. exact G4b.
    + intros r. apply pmem_consume.
  - destruct (negb (forallb _ _)) eqn:G3; [discriminate|]. apply negb_true_false in G3.
    destruct (match mB m with Some b => _ | None => false end) eqn:G4; [discriminate|].
    intros H; inversion H; subst; clear H; simpl.
    split; [|repeat split; reflexivity].
    split; [exact G1|]. split.
    + intros p Hp. rewrite forallb_forall in G3. apply G3. exact Hp.
    + intros b Hb Hu. rewrite Hb, Hu in G4. simpl in G4. apply negb_true_false in G4. exact G4.
Qed.

(* ------------------------------------------------------------------ (1) never download unrequested *)
(* for every accepted trace and every engine action on the local side in it: a file that appears locally while its
   remote file exists is requested, or matched by the predicate and not un-requested *)
Theorem mon_never_download_unrequested l r tr m' :
  mon_accept auto cfg l r tr = inl m' ->
  forall pre x post k ts, tr = pre ++ x :: post -> m_ev x = MEng false k ts ->
  exists ma, mrun (mon_init l r) pre ma /\
    forall p rel c, lookup (m_L x) p = Some (File c) -> lookup (mL ma) p = None ->
                    relp rootL p = Some rel -> is_file (mR ma) (rootR ++ rel) = true ->
                    pmem rel (mQ ma) = true \/ (auto rel = true /\ pmem rel (mX ma) = false).
Proof.
  intros Hacc pre x post k ts Heq Hev. apply mon_accept_sound in Hacc.
  destruct (mrun_split _ _ _ Hacc pre x post Heq) as [ma [mb [Ha [Hb _]]]].
  exists ma. split; [exact Ha|].
  destruct (eng_step_sound ma x mb false k ts Hev Hb) as [[_ [Hnew _]] _].
  intros p rel c HL Hold Hrel Hf.
  assert (Hin: In p (new_files (mL ma) (m_L x))).
  { apply new_files_In. exists c. split; [apply lookup_In; exact HL|exact Hold]. }
  specialize (Hnew p Hin). unfold download_ok in Hnew. fold rootL in Hnew. rewrite Hrel in Hnew.
  fold rootR in Hnew. rewrite Hf in Hnew. unfold allowed_local in Hnew.
  apply orb_true_iff in Hnew as [H|H]; [left; exact H|right].
  apply andb_true_iff in H as [H1 H2]. split; [exact H1|apply negb_true_iff; exact H2].
Qed.

(* what the monitor's requested set means: only the application's request calls put a path into it *)
Lemma Q_mon_step m x m' r :
  mon_step auto cfg m x = inl m' -> pmem r (mQ m') = true -> pmem r (mQ m) = true \/ m_ev x = MReqBegin r.
Proof.
  unfold mon_step. intros H Hq.
  destruct (m_ev x) as [s o|s k ts| | |r0|ok|r0|ok] eqn:Hev.
  - destruct (negb (isnone (mB m))); [discriminate|]. destruct (negb _); [discriminate|].
    unfold user_effect in H.
    destruct o as [p c|p c|p|p q|p]; try (inversion H; subst; left; exact Hq).
    destruct s.
    + destruct (relp (c_rootR cfg) p) as [r1|]; inversion H; subst; simpl in Hq; left; [|exact Hq].
      rewrite pmem_pdel in Hq. apply andb_true_iff in Hq as [_ Hq]. exact Hq.
    + destruct (relp (c_rootL cfg) p) as [r1|]; [destruct (is_file (mL m) p)|]; inversion H; subst; left; exact Hq.
  - destruct (eng_step_sound m x m' s k ts Hev) as [_ [_ [_ [HQ _]]]].
    + unfold mon_step. rewrite Hev. exact H.
    + left. rewrite <- HQ. exact Hq.
  - destruct (negb _); [discriminate|]. destruct (negb _); [discriminate|]. inversion H; subst. left. exact Hq.
  - destruct (negb _); [discriminate|]. destruct (negb _); [discriminate|]. inversion H; subst. left. exact Hq.
  - destruct (negb _); [discriminate|]. destruct (negb _); [discriminate|]. inversion H; subst. simpl in Hq.
    rewrite pmem_padd in Hq. apply orb_true_iff in Hq as [Hq|Hq]; [|left; exact Hq].
    apply path_eqb_eq in Hq. subst. right. reflexivity.
  - destruct (negb _); [discriminate|]. destruct (mB m) as [b|]; [|discriminate].
    destruct (b_unreq b); [discriminate|]. destruct ok; inversion H; subst; simpl in Hq; [left; exact Hq|].
    destruct (b_wasQ b); [left; exact Hq|]. rewrite pmem_pdel in Hq. apply andb_true_iff in Hq as [_ Hq]. left. exact Hq.
  - destruct (negb _); [discriminate|]. destruct (negb _); [discriminate|]. inversion H; subst. left. exact Hq.
  - destruct (negb _); [discriminate|]. destruct (mB m) as [b|]; [|discriminate].
    destruct (negb (b_unreq b)); [discriminate|]. destruct ok; inversion H; subst; simpl in Hq; [|left; exact Hq].
    rewrite pmem_pdel in Hq. apply andb_true_iff in Hq as [_ Hq]. left. exact Hq.
Qed.

Theorem requested_only_by_request m tr m' : mrun m tr m' -> forall r,
  pmem r (mQ m') = true -> pmem r (mQ m) = true \/ exists x, In x tr /\ m_ev x = MReqBegin r.
Proof.
  intros H. induction H as [m|m x m1 tr m2 Hs Hr IH]; intros r Hq; [left; exact Hq|].
  destruct (IH r Hq) as [H1|[y [Hy1 Hy2]]].
  - destruct (Q_mon_step m x m1 r Hs H1) as [H2|H2]; [left; exact H2|].
    right. exists x. split; [left; reflexivity|exact H2].
  - right. exists y. split; [right; exact Hy1|exact Hy2].
Qed.

(* an un-requested path stays un-requested — and excluded from the predicate — until the application requests it
   again or a user deletes the remote object *)
Definition touches (r : path) (x : mobs) : bool :=
  match m_ev x with
  | MReqBegin r0 => path_eqb r0 r
  | MUser true (Delete p) => match relp rootR p with Some r0 => path_eqb r0 r | None => false end
  | _ => false
  end.

Lemma excluded_persists m x m' r :
  mon_step auto cfg m x = inl m' -> touches r x = false ->
  pmem r (mX m) = true -> pmem r (mQ m) = false ->
  pmem r (mX m') = true /\ pmem r (mQ m') = false.
Proof.
  unfold mon_step, touches. intros H Ht HX HQ.
  destruct (m_ev x) as [s o|s k ts| | |r0|ok|r0|ok] eqn:Hev.
  - destruct (negb (isnone (mB m))); [discriminate|]. destruct (negb _); [discriminate|].
    unfold user_effect in H.
    destruct o as [p c|p c|p|p q|p]; try (inversion H; subst; split; assumption).
    destruct s.
    + fold rootR in H. destruct (relp rootR p) as [r1|]; inversion H; subst; simpl; [|split; assumption].
      rewrite !pmem_pdel, HX, HQ, Ht. rewrite andb_false_r. split; reflexivity.
    + destruct (relp (c_rootL cfg) p) as [r1|]; [destruct (is_file (mL m) p)|]; inversion H; subst; split; assumption.
  - destruct (eng_step_sound m x m' s k ts Hev) as [_ [_ [_ [H1 [H2 _]]]]].
    + unfold mon_step. rewrite Hev. exact H.
    + rewrite H1, H2. split; assumption.
  - destruct (negb _); [discriminate|]. destruct (negb _); [discriminate|]. inversion H; subst. split; assumption.
  - destruct (negb _); [discriminate|]. destruct (negb _); [discriminate|]. inversion H; subst. split; assumption.
  - destruct (negb _); [discriminate|]. destruct (negb _); [discriminate|]. inversion H; subst. simpl.
    rewrite pmem_pdel, pmem_padd, HX, HQ, Ht. rewrite (path_eqb_sym r r0), Ht. split; reflexivity.
  - destruct (negb _); [discriminate|]. destruct (mB m) as [b|]; [|discriminate].
    destruct (b_unreq b); [discriminate|]. destruct ok; inversion H; subst; simpl; [split; assumption|]. split.
    + destruct (b_wasX b); [rewrite pmem_padd, HX; apply orb_true_r|exact HX].
    + destruct (b_wasQ b); [exact HQ|rewrite pmem_pdel, HQ; apply andb_false_r].
  - destruct (negb _); [discriminate|]. destruct (negb _); [discriminate|]. inversion H; subst. split; assumption.
  - destruct (negb _); [discriminate|]. destruct (mB m) as [b|]; [|discriminate].
    destruct (negb (b_unreq b)); [discriminate|]. destruct ok; inversion H; subst; simpl; [|split; assumption].
    rewrite pmem_padd, pmem_pdel, HX, HQ. rewrite orb_true_r, andb_false_r. split; reflexivity.
Qed.

Lemma unrequest_end_excludes m x m' b :
  mon_step auto cfg m x = inl m' -> m_ev x = MUnreqEnd true -> mB m = Some b ->
  pmem (b_path b) (mX m') = true /\ pmem (b_path b) (mQ m') = false.
Proof.
  unfold mon_step. intros H Hev Hb. rewrite Hev, Hb in H.
  destruct (negb _); [discriminate|]. destruct (negb (b_unreq b)); [discriminate|].
  inversion H; subst; simpl. rewrite pmem_padd_same, pmem_pdel_same. split; reflexivity.
Qed.

(* after a successful un-request of r, and as long as r is not requested again and its remote object not deleted by a
   user, NO engine action makes r appear locally while its remote file exists — whatever the predicate says *)
Theorem mon_unrequested_stays_remote m0 seg m1 r :
  pmem r (mX m0) = true -> pmem r (mQ m0) = false ->
  mrun m0 seg m1 -> forallb (fun x => negb (touches r x)) seg = true ->
  forall pre x post k ts, seg = pre ++ x :: post -> m_ev x = MEng false k ts ->
  exists ma, mrun m0 pre ma /\
    forall p c, relp rootL p = Some r -> lookup (mL ma) p = None -> is_file (mR ma) (rootR ++ r) = true ->
                lookup (m_L x) p <> Some (File c).
Proof.
  intros HX HQ Hrun Hnt pre x post k ts Heq Hev.
  destruct (mrun_split _ _ _ Hrun pre x post Heq) as [ma [mb [Ha [Hb _]]]].
  exists ma. split; [exact Ha|].
  assert (Hpre: pmem r (mX ma) = true /\ pmem r (mQ ma) = false).
  { subst seg. rewrite forallb_app in Hnt. apply andb_true_iff in Hnt as [Hnt _].
    clear Hb Hrun. induction Ha as [m|m y m2 tr m3 Hs Hr IH]; [split; assumption|].
    simpl in Hnt. apply andb_true_iff in Hnt as [Hy Hnt]. apply negb_true_iff in Hy.
    destruct (excluded_persists m y m2 r Hs Hy HX HQ) as [HX2 HQ2]. apply IH; assumption. }
  destruct Hpre as [HXa HQa].
  destruct (eng_step_sound ma x mb false k ts Hev Hb) as [[_ [Hnew _]] _].
  intros p c Hrel Hold Hf HL.
  assert (Hin: In p (new_files (mL ma) (m_L x))).
  { apply new_files_In. exists c. split; [apply lookup_In; exact HL|exact Hold]. }
  specialize (Hnew p Hin). unfold download_ok in Hnew. fold rootL in Hnew. rewrite Hrel in Hnew.
  fold rootR in Hnew. rewrite Hf in Hnew. unfold allowed_local in Hnew. rewrite HQa, HXa in Hnew.
  simpl in Hnew. rewrite andb_false_r in Hnew. discriminate.
Qed.

(* ------------------------------------------------------------------ (2) un-request never deletes remotely *)
(* for every accepted trace and every engine action on the remote side: a remote file that disappears does so
   outside any un-request call, and a user had deleted its local copy *)
Theorem mon_unrequest_never_deletes_remote l r tr m' :
  mon_accept auto cfg l r tr = inl m' ->
  forall pre x post k ts, tr = pre ++ x :: post -> m_ev x = MEng true k ts ->
  exists ma, mrun (mon_init l r) pre ma /\
    forall p c, lookup (mR ma) p = Some (File c) -> lookup (m_R x) p = None ->
                in_unreq ma = false /\ forall rel, relp rootR p = Some rel -> pmem rel (mD ma) = true.
Proof.
  intros Hacc pre x post k ts Heq Hev. apply mon_accept_sound in Hacc.
  destruct (mrun_split _ _ _ Hacc pre x post Heq) as [ma [mb [Ha [Hb _]]]].
  exists ma. split; [exact Ha|].
  destruct (eng_step_sound ma x mb true k ts Hev Hb) as [[_ [Hgone _]] _].
  intros p c HR Hnew.
  assert (Hin: In p (gone_files (mR ma) (m_R x))).
  { apply gone_files_In. exists c. split; [apply lookup_In; exact HR|exact Hnew]. }
  destruct (Hgone p Hin) as [H1 H2]. split; [exact H1|].
  intros rel Hrel. unfold rdelete_ok in H2. fold rootR in H2. rewrite Hrel in H2. exact H2.
Qed.

(* the set of user-deleted local copies grows only by a user's delete of a local file *)
Lemma D_mon_step m x m' r :
  mon_step auto cfg m x = inl m' -> pmem r (mD m') = true ->
  pmem r (mD m) = true \/ exists p, m_ev x = MUser false (Delete p) /\ relp rootL p = Some r.
Proof.
  unfold mon_step. intros H Hd.
  destruct (m_ev x) as [s o|s k ts| | |r0|ok|r0|ok] eqn:Hev.
  - destruct (negb (isnone (mB m))); [discriminate|]. destruct (negb _); [discriminate|].
    unfold user_effect in H.
    destruct o as [p c|p c|p|p q|p]; try (inversion H; subst; left; exact Hd).
    destruct s.
    + destruct (relp (c_rootR cfg) p) as [r1|]; inversion H; subst; left; exact Hd.
    + fold rootL in H. destruct (relp rootL p) as [r1|] eqn:Hr; [destruct (is_file (mL m) p)|]; inversion H; subst;
        try (left; exact Hd).
      simpl in Hd. rewrite pmem_padd in Hd. apply orb_true_iff in Hd as [Hd|Hd]; [|left; exact Hd].
      apply path_eqb_eq in Hd. subst r1. right. exists p. split; [reflexivity|exact Hr].
  - destruct (eng_step_sound m x m' s k ts Hev) as [_ [_ [_ [_ [_ [_ HD]]]]]].
    + unfold mon_step. rewrite Hev. exact H.
    + left. destruct s; [apply HD; exact Hd|rewrite <- HD; exact Hd].
  - destruct (negb _); [discriminate|]. destruct (negb _); [discriminate|]. inversion H; subst. left. exact Hd.
  - destruct (negb _); [discriminate|]. destruct (negb _); [discriminate|]. inversion H; subst. left. exact Hd.
  - destruct (negb _); [discriminate|]. destruct (negb _); [discriminate|]. inversion H; subst. left. exact Hd.
  - destruct (negb _); [discriminate|]. destruct (mB m) as [b|]; [|discriminate].
    destruct (b_unreq b); [discriminate|]. destruct ok; inversion H; subst; left; exact Hd.
  - destruct (negb _); [discriminate|]. destruct (negb _); [discriminate|]. inversion H; subst. left. exact Hd.
  - destruct (negb _); [discriminate|]. destruct (mB m) as [b|]; [|discriminate].
    destruct (negb (b_unreq b)); [discriminate|]. destruct ok; inversion H; subst; left; exact Hd.
Qed.

Theorem deleted_only_by_user m tr m' : mrun m tr m' -> forall r,
  pmem r (mD m') = true ->
  pmem r (mD m) = true \/ exists x p, In x tr /\ m_ev x = MUser false (Delete p) /\ relp rootL p = Some r.
Proof.
  intros H. induction H as [m|m x m1 tr m2 Hs Hr IH]; intros r Hd; [left; exact Hd|].
  destruct (IH r Hd) as [H1|[y [p [Hy1 Hy2]]]].
  - destruct (D_mon_step m x m1 r Hs H1) as [H2|[p H2]]; [left; exact H2|].
    right. exists x, p. split; [left; reflexivity|exact H2].
  - right. exists y, p. split; [right; exact Hy1|exact Hy2].
Qed.

(* in a run without any user deleting a local file (the alphabet of C20), no engine action ever removes a remote file *)
Corollary mon_no_remote_delete_without_local_delete l r tr m' :
  mon_accept auto cfg l r tr = inl m' ->
  (forall x p, In x tr -> m_ev x <> MUser false (Delete p)) ->
  forall pre x post k ts, tr = pre ++ x :: post -> m_ev x = MEng true k ts ->
  exists ma, mrun (mon_init l r) pre ma /\
    forall p c rel, relp rootR p = Some rel -> lookup (mR ma) p = Some (File c) -> lookup (m_R x) p <> None.
Proof.
  intros Hacc Hno pre x post k ts Heq Hev.
  destruct (mon_unrequest_never_deletes_remote l r tr m' Hacc pre x post k ts Heq Hev) as [ma [Ha H]].
  exists ma. split; [exact Ha|]. intros p c rel Hrel HR Hnone.
  destruct (H p c HR Hnone) as [_ HD]. specialize (HD rel Hrel).
  destruct (deleted_only_by_user _ _ _ Ha rel HD) as [H1|[y [q [Hy1 [Hy2 _]]]]]; [discriminate|].
  apply (Hno y q); [|exact Hy2]. subst tr. apply in_or_app. left. exact Hy1.
Qed.

(* ------------------------------------------------------------------ (3) inside an un-request *)
(* every engine action inside an un-request call of r leaves the remote tree as it was except for the content of
   r's remote file (the upload of a newer local edit), and the local tree as it was except for r's local copy *)
Theorem mon_unrequest_touches_only_its_file l r tr m' :
  mon_accept auto cfg l r tr = inl m' ->
  forall pre x post s k ts, tr = pre ++ x :: post -> m_ev x = MEng s k ts ->
  exists ma, mrun (mon_init l r) pre ma /\
    forall b, mB ma = Some b -> b_unreq b = true ->
      if s then mL ma ~~ m_L x /\ same_but (rootR ++ b_path b) (mR ma) (m_R x) = true /\
                isnone (lookup (mR ma) (rootR ++ b_path b)) = isnone (lookup (m_R x) (rootR ++ b_path b))
      else mR ma ~~ m_R x /\ same_but (rootL ++ b_path b) (mL ma) (m_L x) = true.
Proof.
  intros Hacc pre x post s k ts Heq Hev. apply mon_accept_sound in Hacc.
  destruct (mrun_split _ _ _ Hacc pre x post Heq) as [ma [mb [Ha [Hb _]]]].
  exists ma. split; [exact Ha|]. intros b HB Hu.
  destruct (eng_step_sound ma x mb s k ts Hev Hb) as [Hok _].
  destruct s.
  - destruct Hok as [H1 [_ H3]]. destruct (H3 b HB Hu) as [H4 H5]. repeat split; assumption.
  - destruct Hok as [H1 [_ H3]]. split; [exact H1|apply H3; assumption].
Qed.

(* user operations are tied to the tree model, markers never change a tree *)
Theorem mon_user_tie l r tr m' :
  mon_accept auto cfg l r tr = inl m' ->
  forall pre x post s o, tr = pre ++ x :: post -> m_ev x = MUser s o ->
  exists ma, mrun (mon_init l r) pre ma /\
    apply_op (if s then mR ma else mL ma) o ~~ (if s then m_R x else m_L x) /\
    (if s then mL ma ~~ m_L x else mR ma ~~ m_R x).
Proof.
  intros Hacc pre x post s o Heq Hev. apply mon_accept_sound in Hacc.
  destruct (mrun_split _ _ _ Hacc pre x post Heq) as [ma [mb [Ha [Hb _]]]].
  exists ma. split; [exact Ha|]. unfold mon_step in Hb. rewrite Hev in Hb.
  destruct (negb (isnone (mB ma))); [discriminate|].
  destruct (negb _) eqn:G; [discriminate|]. apply negb_true_false in G. apply andb_true_iff in G.
  destruct s; exact G.
Qed.
End MonThms.
