From Coq Require Import ExtrOcamlBasic.
From CS Require Import Sx ResolverSpec.
Definition run := ResolverSpec.run.
Extraction "extract/resolver/model.ml" run.
