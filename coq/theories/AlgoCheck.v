(* AlgoCheck.v — executable form of the coupling invariant of the algorithm layer (fragment F1) and the
   ghost bookkeeping it needs; the extracted [run] evaluates it on every world of a run, so that the
   statement proved in AlgoInv.v is also measured on the states the tie compares with the real engine.
   Definitions only. *)
From Coq Require Import NArith List Bool Arith.
From CS Require Import Sx Str PathModel StateModel ProvModel AlgoModel.
Import ListNotations.
Local Open Scope N_scope.

(* ------------------------------------------------------------------ ghost: the file objects users made *)
(* per side: heap index of every object a user created, with the contents users wrote to it (latest first) *)
Record ghost := mkG { g_L : list (nat * list N); g_R : list (nat * list N) }.
Definition g0 : ghost := mkG [] [].
Definition g_of (g : ghost) (sd : bool) := if sd then g_R g else g_L g.
Definition g_with (g : ghost) (sd : bool) (l : list (nat * list N)) : ghost :=
  if sd then mkG (g_L g) l else mkG l (g_R g).
Fixpoint g_get (k : nat) (l : list (nat * list N)) : option (list N) :=
  match l with
  | [] => None
  | (k', cs) :: r => if Nat.eqb k k' then Some cs else g_get k r
  end.
Fixpoint g_add (k : nat) (d : N) (l : list (nat * list N)) : list (nat * list N) :=
  match l with
  | [] => []
  | (k', cs) :: r => if Nat.eqb k k' then (k', d :: cs) :: r else (k', cs) :: g_add k d r
  end.

Definition kid (k : ProvModel.key) : option nat :=
  match k with ProvModel.KId n => Some (N.to_nat n) | ProvModel.KPath _ => None end.

(* the ghost after a user operation that turned world w into w' *)
Definition ghost_step (g : ghost) (w : world) (a : action) (w' : world) : ghost :=
  match a with
  | AUser sd (UCreate rel d) =>
    let n := length (ProvModel.p_heap (prov_of w sd)) in
    if Nat.ltb n (length (ProvModel.p_heap (prov_of w' sd))) then g_with g sd ((n, [d]) :: g_of g sd) else g
  | AUser sd (UWrite rel d) =>
    match ProvModel.info_path (prov_of w sd) (root_of (w_cfg w) sd ++ rel) with
    | Some i => match kid (ProvModel.i_oid i) with
                | Some k => g_with g sd (g_add k d (g_of g sd))
                | None => g
                end
    | None => g
    end
  | _ => g
  end.

(* ------------------------------------------------------------------ views of the world *)
Definition obj_at (w : world) (sd : bool) (k : nat) : option ProvModel.obj := nth_error (ProvModel.p_heap (prov_of w sd)) k.
Definition pending (w : world) (sd : bool) (k : nat) : bool :=
  existsb (fun ev => ProvModel.key_eqb (ProvModel.e_oid ev) (ProvModel.KId (N.of_nat k))) (ProvModel.events_from (prov_of w sd)).
(* the heap index an oid string of the state stands for *)
Definition oidk (o : option str) : option nat :=
  match o with Some [n] => Some (N.to_nat n) | _ => None end.
Definition chgv (x : StateModel.sidest) : N := chgval (StateModel.s_chg x).
Definition maxchg (en : StateModel.entry) : N := N.max (chgv (StateModel.e_l en)) (chgv (StateModel.e_r en)).
Definition flag (w : world) (en : StateModel.entry) (sd : bool) : bool :=
  StateModel.tchg (StateModel.s_chg (StateModel.gs en sd)) ||
  match oidk (StateModel.s_oid (StateModel.gs en sd)) with Some k => pending w sd k | None => false end.
Definition olive (o : option ProvModel.obj) : bool := match o with Some x => ProvModel.o_exists x | None => false end.

(* the state's picture of side sd agrees with the provider *)
Definition fresh (w : world) (en : StateModel.entry) (sd : bool) (k : nat) : bool :=
  let x := StateModel.gs en sd in
  match obj_at w sd k with
  | Some o =>
    if ProvModel.o_exists o then
      ex_is (StateModel.s_ex x) StateModel.ExExists &&
      StateModel.oN_eqb (StateModel.s_hash x) (Some (ProvModel.o_data o)) &&
      StateModel.ostr_eqb (StateModel.s_path x) (Some (pstr (ProvModel.o_path o)))
    else ex_in_gone (StateModel.s_ex x)
  | None => false
  end.

Definition opt_in (h : option N) (cs : list N) : bool := match h with Some d => n_mem d cs | None => true end.
Definition ostr_in (p : option str) (q : str) : bool := match p with Some x => str_eqb x q | None => true end.

(* ------------------------------------------------------------------ the invariant, clause by clause *)
(* G2: account root, sync root, then only files directly in the sync root *)
Definition shape_ok (w : world) (sd : bool) : bool :=
  let h := ProvModel.p_heap (prov_of w sd) in
  match h with
  | r0 :: r1 :: files =>
    ProvModel.o_exists r0 && ProvModel.o_exists r1 &&
    ProvModel.path_eqb (ProvModel.o_path r1) (root_of (w_cfg w) sd) &&
    forallb (fun o => ProvModel.okind_eqb (ProvModel.o_kind o) ProvModel.KFile &&
                      match ProvModel.o_path o with
                      | [a; n] => ProvModel.path_eqb [a] (root_of (w_cfg w) sd) && name_ok n
                      | _ => false
                      end) files &&
    forallb (fun ko => ProvModel.key_eqb (ProvModel.o_oid (snd ko)) (ProvModel.KId (N.of_nat (fst ko))))
            (combine (seq 0 (length h)) h)
  | _ => false
  end.

Definition ents_of (w : world) : list (nat * StateModel.entry) :=
  combine (seq 0 (length (StateModel.ents (w_st w)))) (StateModel.ents (w_st w)).

(* G3 (A): every file object has an entry or a pending event *)
Definition is_none' {T} (o : option T) : bool := match o with None => true | Some _ => false end.
Definition covered (w : world) (sd : bool) : bool :=
  forallb (fun k => existsb (fun ee => match oidk (StateModel.s_oid (StateModel.gs (snd ee) sd)) with
                                       | Some k' => Nat.eqb k k'
                                       | None => false
                                       end) (ents_of w) || pending w sd k)
          (seq 2 (length (ProvModel.p_heap (prov_of w sd)) - 2)).

(* an object the engine made (no ghost record) has an entry from the moment it exists (clause i_cove of AlgoInv.Inv) *)
Definition covered_engine (g : ghost) (w : world) (sd : bool) : bool :=
  forallb (fun k => negb (is_none' (g_get k (g_of g sd))) ||
                    existsb (fun ee => match oidk (StateModel.s_oid (StateModel.gs (snd ee) sd)) with
                                       | Some k' => Nat.eqb k k'
                                       | None => false
                                       end) (ents_of w))
          (seq 2 (length (ProvModel.p_heap (prov_of w sd)) - 2)).

(* G4 (F): ids unique per side *)
Fixpoint nodup_on {T} (f : T -> option nat) (l : list T) : bool :=
  match l with
  | [] => true
  | x :: r => match f x with
              | Some k => negb (existsb (fun y => match f y with Some k' => Nat.eqb k k' | None => false end) r)
              | None => true
              end && nodup_on f r
  end.
Definition oids_unique (w : world) (sd : bool) : bool :=
  nodup_on (fun ee => oidk (StateModel.s_oid (StateModel.gs (snd ee) sd))) (ents_of w).

(* G5: every entry with a change flag and an id is in the change set *)
Definition cs_complete_b (w : world) : bool :=
  forallb (fun ee =>
             let en := snd ee in
             negb ((StateModel.tchg (StateModel.s_chg (StateModel.e_l en)) && StateModel.tstr (StateModel.s_oid (StateModel.e_l en))) ||
                   (StateModel.tchg (StateModel.s_chg (StateModel.e_r en)) && StateModel.tstr (StateModel.s_oid (StateModel.e_r en))))
             || StateModel.set_mem (fst ee) (StateModel.cset (w_st w))) (ents_of w).

(* G6: clock *)
Definition clock_ok (w : world) : bool :=
  let s := w_st w in
  N.leb (StateModel.lastch s) (StateModel.now s) &&
  forallb (fun ee => N.leb (maxchg (snd ee)) (StateModel.now s) &&
                     N.leb (x_lg (getx w (fst ee) false)) (StateModel.now s) &&
                     N.leb (x_lg (getx w (fst ee) true)) (StateModel.now s)) (ents_of w).

Definition is_none {T} (o : option T) : bool := match o with None => true | Some _ => false end.

(* X1: no temp file outlives an engine step *)
Definition no_temps (w : world) : bool :=
  forallb (fun ee => is_none (x_tfile (getx w (fst ee) false)) && is_none (x_tfile (getx w (fst ee) true))) (ents_of w).

(* one side of one file entry (e >= 2) *)
Definition side_ok (g : ghost) (w : world) (e : nat) (en : StateModel.entry) (sd : bool) : bool :=
  let x := StateModel.gs en sd in
  let y := StateModel.gs en (negb sd) in
  let disc := StateModel.is_discarded (StateModel.e_ign en) in
  is_file x && negb (StateModel.s_force x) &&
  match StateModel.s_oid x with
  | None =>
    (* a side without id is empty and carries no change *)
    negb (StateModel.tchg (StateModel.s_chg x)) && is_none (StateModel.s_path x) && is_none (StateModel.s_hash x) &&
    is_none (StateModel.s_spath x) && is_none (StateModel.s_shash x) &&
    (disc || ex_is (StateModel.s_ex x) StateModel.ExUnknown)
  | Some o =>
    match oidk (Some o) with
    | None => false
    | Some k =>
      match obj_at w sd k with
      | None => false
      | Some ob =>
        let mine := g_get k (g_of g sd) in                 (* Some cs: a user of this side made the object *)
        let paired := StateModel.tstr (StateModel.s_oid y) in
        let fl := flag w en sd in
        Nat.leb 2 k &&
        (* E1: trashed in the state means dead at the provider *)
        (negb (ex_is (StateModel.s_ex x) StateModel.ExTrashed) || negb (ProvModel.o_exists ob)) &&
        (* E2 (K): a pending event, or a refresh is due, or the state's picture is current *)
        (pending w sd k || N.ltb (x_lg (getx w e sd)) (maxchg en) || fresh w en sd k) &&
        (* E3: paths never wrong, only unknown *)
        ostr_in (StateModel.s_path x) (pstr (ProvModel.o_path ob)) && ostr_in (StateModel.s_spath x) (pstr (ProvModel.o_path ob)) &&
        (if disc then
           (* (D) a side of a discarded entry is gone (the weaker form "an unflagged side is gone" follows) *)
           negb (ProvModel.o_exists ob)
         else
           (* (C1) one-sided entries are flagged *)
           (paired || fl) &&
           (* (C2) an unflagged side of a paired entry: the object is there and is what the sync markers say *)
           (negb paired || fl ||
            (ProvModel.o_exists ob && StateModel.ostr_eqb (StateModel.s_spath x) (Some (pstr (ProvModel.o_path ob))) &&
             StateModel.oN_eqb (StateModel.s_shash x) (Some (ProvModel.o_data ob)))) &&
           match mine with
           | Some cs =>
             (* owner side: every hash the state holds is a content the file had *)
             opt_in (StateModel.s_hash x) cs && opt_in (StateModel.s_shash x) cs &&
             (* a known path comes with a known hash; a paired entry has its sync markers *)
             (is_none (StateModel.s_path x) || negb (is_none (StateModel.s_hash x))) &&
             (* never synchronised: no sync markers; a sync path was a path *)
             (paired || (is_none (StateModel.s_spath x) && is_none (StateModel.s_shash x))) &&
             (is_none (StateModel.s_spath x) || negb (is_none (StateModel.s_path x))) &&
             (negb paired || (negb (is_none (StateModel.s_spath x)) && negb (is_none (StateModel.s_shash x)))) &&
             match cs with d :: _ => N.eqb d (ProvModel.o_data ob) | [] => false end &&
             (* (J) the peer holds the owner's content, or the owner is ahead and flagged *)
             (negb paired ||
              StateModel.oN_eqb (StateModel.s_shash y) (Some (ProvModel.o_data ob)) ||
              (negb (StateModel.oN_eqb (StateModel.s_shash x) (Some (ProvModel.o_data ob))) && fl)) &&
             (* the peer object is the engine's *)
             match oidk (StateModel.s_oid y) with
             | Some k' => is_none (g_get k' (g_of g (negb sd)))
             | None => negb paired
             end
           | None =>
             (* mirror side: made and written by the engine only; always what the markers say *)
             paired && ProvModel.o_exists ob && ex_is (StateModel.s_ex x) StateModel.ExExists &&
             StateModel.oN_eqb (StateModel.s_shash x) (Some (ProvModel.o_data ob)) &&
             StateModel.oN_eqb (StateModel.s_hash x) (Some (ProvModel.o_data ob)) &&
             StateModel.ostr_eqb (StateModel.s_spath x) (Some (pstr (ProvModel.o_path ob))) &&
             StateModel.ostr_eqb (StateModel.s_path x) (Some (pstr (ProvModel.o_path ob))) &&
             (* same name below the two roots *)
             match oidk (StateModel.s_oid y) with
             | Some k' => match obj_at w (negb sd) k' with
                          | Some ob' => str_eqb (leaf (ProvModel.o_path ob)) (leaf (ProvModel.o_path ob')) &&
                                        negb (is_none (g_get k' (g_of g (negb sd))))
                          | None => false
                          end
             | None => false
             end
           end)
      end
    end
  end.

Definition entry_ok (g : ghost) (w : world) (e : nat) (en : StateModel.entry) : bool :=
  (StateModel.ign_eqb (StateModel.e_ign en) StateModel.INone || StateModel.ign_eqb (StateModel.e_ign en) StateModel.IDiscarded) &&
  (StateModel.tstr (StateModel.s_oid (StateModel.e_l en)) || StateModel.tstr (StateModel.s_oid (StateModel.e_r en))) &&
  side_ok g w e en false && side_ok g w e en true.

Definition root_entries_ok (w : world) : bool :=
  match StateModel.ents (w_st w) with
  | e0 :: e1 :: _ =>
    negb (StateModel.tchg (StateModel.s_chg (StateModel.e_l e0))) && negb (StateModel.tchg (StateModel.s_chg (StateModel.e_r e0))) &&
    is_dir (StateModel.e_l e0) && is_dir (StateModel.e_r e0) &&
    StateModel.ostr_eqb (StateModel.s_oid (StateModel.e_l e0)) (Some [1]) && StateModel.ostr_eqb (StateModel.s_oid (StateModel.e_r e0)) (Some [1]) &&
    StateModel.is_discarded (StateModel.e_ign e1) && is_none (StateModel.s_oid (StateModel.e_l e1)) && is_none (StateModel.s_oid (StateModel.e_r e1)) &&
    negb (StateModel.tchg (StateModel.s_chg (StateModel.e_l e1))) && negb (StateModel.tchg (StateModel.s_chg (StateModel.e_r e1)))
  | _ => false
  end.

(* failing clause number, 0 = the invariant holds *)
Definition inv_code (g : ghost) (w : world) : N :=
  if negb (shape_ok w false && shape_ok w true) then 2
  else if negb (covered w false && covered w true) then 3
  else if negb (oids_unique w false && oids_unique w true) then 4
  else if negb (cs_complete_b w) then 5
  else if negb (clock_ok w) then 6
  else if negb (root_entries_ok w) then 7
  else if negb (no_temps w) then 8
  else if negb (covered_engine g w false && covered_engine g w true) then 9
  else match find (fun ee => negb (entry_ok g w (fst ee) (snd ee))) (skipn 2 (ents_of w)) with
       | Some ee => 100 + N.of_nat (fst ee)
       | None => 0
       end.
Definition inv_b (g : ghost) (w : world) : bool := N.eqb (inv_code g w) 0.

(* quiescent: no pending event on either side, empty change set *)
Definition no_events (w : world) (sd : bool) : bool :=
  match ProvModel.events_from (prov_of w sd) with [] => true | _ => false end.
Definition quiescent (w : world) : bool :=
  no_events w false && no_events w true && match StateModel.cset (w_st w) with [] => true | _ => false end.

(* the tree below the root of one side, root-relative *)
Definition rel_view (w : world) (sd : bool) : list (ProvModel.path * (ProvModel.okind * N)) :=
  let root := root_of (w_cfg w) sd in
  flat_map (fun en => if ProvModel.is_under (ProvModel.p_cfg (prov_of w sd)) root (fst en)
                      then [(skipn (length root) (fst en), snd en)] else [])
           (ProvModel.tree_view (prov_of w sd)).
Definition entry_eqb (a b : ProvModel.path * (ProvModel.okind * N)) : bool :=
  ProvModel.path_eqb (fst a) (fst b) && ProvModel.okind_eqb (fst (snd a)) (fst (snd b)) && N.eqb (snd (snd a)) (snd (snd b)).
Fixpoint view_eqb (a b : list (ProvModel.path * (ProvModel.okind * N))) : bool :=
  match a, b with
  | [], [] => true
  | x :: a', y :: b' => entry_eqb x y && view_eqb a' b'
  | _, _ => false
  end.
Definition views_equal (w : world) : bool := view_eqb (rel_view w false) (rel_view w true).

(* ------------------------------------------------------------------ runner *)
(* per action: (inv_code quiescent views_equal) of the world after it; stops at OutOfFragment *)
Fixpoint check_run (g : ghost) (w : world) (l : list action) : list sx :=
  match l with
  | [] => []
  | a :: r => match algo_step w a with
              | ROk (w1, _) =>
                let g1 := ghost_step g w a w1 in
                L [A (inv_code g1 w1); sx_bool (quiescent w1); sx_bool (views_equal w1)] :: check_run g1 w1 r
              | OutOfFragment c => [L [A 999; A c]]
              end
  end.

(* requests 0 and 1 as AlgoModel.run; request (2 config t0 lg0 (actions)) -> the invariant after every action *)
Definition run (x : sx) : sx :=
  match x with
  | L [A 2; c; A t0; A lg0; acts] =>
    match un_config c, un_list un_action acts with
    | Some c, Some acts => let w := world_init c t0 lg0 in
                           L (L [A (inv_code g0 w); sx_bool (quiescent w); sx_bool (views_equal w)] :: check_run g0 w acts)
    | _, _ => sx_malformed
    end
  | _ => run_model x
  end.
